/-
C12 (part B) — executable model of the response pipeline of `Server::Impl`
(modules/http/server/server_imp.cpp: Connection::{req_index,res_index,close_index,res_buff},
onTcpReceived's bookkeeping, commitRespond, onTcpSendCompleted; context.cpp: ~Context commits
the response of request `req_index` exactly once), and the composition with the feed loop of
Model.lean that the driver runs against a real `Server`.

Core Lean only (linked into the driver).
-/
import TboxModel.C12.Model
namespace Tbox.C12

/-- `Impl::Connection` (response side) plus `isClientValid(ct)` and, as the observable,
everything handed to `tcp_server_.send` in order (request index, bytes) -/
structure Pipe where
  reqIndex : Nat := 0
  resIndex : Nat := 0
  closeIndex : Option Nat := none          -- none = numeric_limits<int>::max()
  resBuff : List (Nat × Bytes) := []       -- std::map<int, Respond*>
  valid : Bool := true
  written : List (Nat × Bytes) := []
  /-- send side (BufferedFd): how many of the bytes handed to `send` the kernel has accepted, i.e.
  the peer can read — the rest sits in the send buffer (partial writes of large responses) -/
  sent : Nat := 0
  /-- ghost: how often the connection object was torn down (`delete conn`) -/
  disconnects : Nat := 0
  /-- a write on the socket failed (EPIPE / ECONNRESET): BufferedFd drops what it could not
  write and nothing more reaches the peer; the server is not told -/
  wbroken : Bool := false
deriving DecidableEq, Repr

namespace Pipe

/-- `conn->res_index > conn->close_index` -/
def pastClose (p : Pipe) : Bool :=
  match p.closeIndex with
  | none => false
  | some k => p.resIndex > k

/-- onTcpReceived, a request is complete: `if (IsLastRequest) close_index = req_index;`
then `Context(…, req_index++, …)` -/
def onRequest (p : Pipe) (last : Bool) : Pipe :=
  { p with closeIndex := if last then some p.reqIndex else p.closeIndex, reqIndex := p.reqIndex + 1 }

/-- the `while (iter != res_buff.end())` of commitRespond. `fuel`: each iteration erases one
entry, `resBuff.length + 1` suffices (`flush_done`). -/
def flush : Nat → Pipe → Pipe
  | 0, p => p
  | fuel + 1, p =>
    match p.resBuff.find? (fun e => e.1 == p.resIndex) with
    | none => p
    | some (_, r) =>
      let p' := { p with written := p.written ++ [(p.resIndex, r)],
                         resBuff := p.resBuff.filter (fun e => e.1 != p.resIndex),
                         resIndex := p.resIndex + 1 }
      if p'.pastClose then p' else flush fuel p'

/-- `Impl::commitRespond(ct, index, res)` -/
def commit (p : Pipe) (i : Nat) (r : Bytes) : Pipe :=
  if !p.valid then p                                    -- delete res; return
  else if i == p.resIndex then
    let p' := { p with written := p.written ++ [(i, r)], resIndex := p.resIndex + 1 }
    if p'.pastClose then p' else flush (p'.resBuff.length + 1) p'
  else { p with resBuff := (i, r) :: p.resBuff.filter (fun e => e.1 != i) }

/-- everything handed to `tcp_server_.send`, as one byte stream -/
def handed (p : Pipe) : Bytes := (p.written.map (·.2)).flatten

/-- what the peer has received so far (send-side contract of BufferedFd / C06: the bytes handed
to `send` reach the peer in order) -/
def peerBytes (p : Pipe) : Bytes := p.handed.take p.sent

/-- `tcp_server_.disconnect(ct); delete conn` (also: onTcpDisconnected). Whatever is still in the
send buffer is lost with the connection. -/
def disconnect (p : Pipe) : Pipe := { p with valid := false, resBuff := [], disconnects := p.disconnects + 1 }

/-- the kernel accepts `n` more bytes of the send buffer (write event / direct write) -/
def kernel (p : Pipe) (n : Nat) : Pipe :=
  if !p.valid || p.wbroken then p else { p with sent := min (p.sent + n) p.handed.length }

/-- a write on the connection's socket fails with an error other than EAGAIN -/
def writeError (p : Pipe) : Pipe := if !p.valid then p else { p with wbroken := true }

/-- the TcpConnection reports that the peer closed (read returned 0) or failed; for a connection
that was already released no such callback exists (its BufferedFd is disabled and deleted) -/
def peerClosed (p : Pipe) : Pipe := if !p.valid then p else p.disconnect

/-- `Impl::onTcpSendCompleted` -/
def sendComplete (p : Pipe) : Pipe :=
  if !p.valid then p else if p.pastClose then p.disconnect else p

end Pipe

inductive PipeOp
  | req (last : Bool)               -- the feed loop hands a request to the handlers
  | commit (i : Nat) (r : Bytes)    -- the Context of request i is destroyed
  | sendComplete                    -- the send buffer drained
  | drop                            -- parser failure / peer closed: connection dropped
  | kernel (n : Nat)                -- the kernel takes n more bytes of the send buffer
  | writeError                      -- write() on the socket fails (EPIPE, ECONNRESET)
  | halfClose                       -- the peer shuts down its sending side only (read returns 0)
deriving DecidableEq, Repr

def Pipe.step (p : Pipe) : PipeOp → Pipe
  | .req last => p.onRequest last
  | .commit i r => p.commit i r
  | .sendComplete => p.sendComplete
  | .drop => p.peerClosed
  | .kernel n => p.kernel n
  | .writeError => p.writeError
  | .halfClose => p.peerClosed       -- AS CODED: read-zero tears the connection down, see C12_half_close_counterexample

def Pipe.run (p : Pipe) (ops : List PipeOp) : Pipe := ops.foldl Pipe.step p

/-! ### the whole server side of one connection, as exercised by the harness -/

/-- `http::Respond` (respond.h): version, status code, header map, body. The Context constructor
sets `404 Not Found` / HTTP/1.1, so a handler that lets go of the context without touching the
response answers 404 (context.cpp: the destructor commits whatever is there). -/
structure Respond where
  ver : String := "k1_1"
  status : Nat := 404
  headers : List (Bytes × Bytes) := []     -- std::map, key-sorted
  body : Bytes := []
deriving DecidableEq, Repr

/-- `StatusCodeToString`: text of the first table entry with this code, "" if there is none -/
def statusText (code : Nat) : String := ((Gen.statusTable.find? fun p => p.1 == code).map (·.2)).getD ""

/-- `Respond::toString()`: status line, the headers in map order, ALWAYS a `Content-Length` line
(also for an empty body, also when the map already has one), blank line, body -/
def Respond.render (r : Respond) : Bytes :=
  ascii (verStr r.ver) ++ 32 :: (ascii (statusText r.status) ++ 13 :: 10 ::
    ((r.headers.map hdrLine).flatten ++ (hdrLine (ascii "Content-Length", decimal r.body.length) ++ 13 :: 10 :: r.body)))

/-- what the harness' plain `done`/`sync` handler produces: 200, no headers, the given body -/
def respond (body : Bytes) : Bytes := (Respond.mk "k1_1" 200 [] body).render

/-! ### scripted request handlers (middleware chain) -/

/-- what one handler does, in order: call `next()`, set 200 + body on the response, keep the
context (answer later), throw, `server.stop()`, `server.cleanup()` -/
inductive HAct
  | next | body (b : Bytes) | keep | throw | stop | cleanup
deriving DecidableEq, Repr

/-- one action list per handler level (`Server::use` order) -/
abbrev HScript := List (List HAct)

def nLevels : Nat := 3

structure HState where
  resp : Respond := {}
  kept : Bool := false
  threw : Bool := false
  stopped : Bool := false     -- stop() or cleanup() was called: every connection is released
  cleaned : Bool := false     -- cleanup() cleared the handler list: next() does nothing any more
  calls : List Nat := []      -- handler levels entered, in order
deriving DecidableEq, Repr

/-- `Impl::handle(ctx, lvl)` with `d` handler levels left: enter handler `lvl` and run its
actions; an exception skips everything that follows (in every enclosing handler too) -/
def runChain (script : HScript) : Nat → Nat → HState → HState
  | 0, _, st => st
  | d + 1, lvl, st =>
    (script.getD lvl []).foldl (fun st a =>
      if st.threw then st else
      match a with
      | .next => if st.cleaned then st else runChain script d (lvl + 1) st
      | .body b => { st with resp := { st.resp with status := 200, body := b } }
      | .keep => { st with kept := true }
      | .throw => { st with threw := true }
      | .stop => { st with stopped := true }
      | .cleanup => { st with stopped := true, cleaned := true })
      { st with calls := st.calls ++ [lvl] }

/-- a request without a script: the first handler keeps the context (answered by a later `done`) -/
def defaultScript : HScript := [[.keep]]

/-- the kernel's answer to one `write()` on the server side of the connection (oracle input; the
harness' interposer gives the same answers to the real `write` calls, in order) -/
inductive WAns
  | pass              -- everything offered is accepted
  | short (n : Nat)   -- at most `n` bytes are accepted
  | again             -- EAGAIN
  | epipe             -- EPIPE / ECONNRESET: this and every later write on the socket fails
deriving DecidableEq, Repr

structure Server where
  conn : Conn := {}
  pipe : Pipe := {}
  outstanding : List Nat := []            -- requests delivered whose Context is still alive
  keptResp : List (Nat × Respond) := []   -- … and what the handlers had put into their response by then
  scripts : List (Nat × HScript) := []    -- what the handlers do for request i
  cclosed : Bool := false                 -- the client has closed its socket
  halfSpec : Bool := false                -- driver only: half-close handled as the PROPERTY asks (op chalfS), not as coded
  poisoned : Bool := false                -- an exception left a handler and the event loop
  hist : List PipeOp := []                -- ghost: every pipeline operation so far (`pipe = Pipe.run {} hist`)
  /-- send side (BufferedFd under the TcpConnection): answers the kernel will give to the next `write()` calls
  (none left = everything is accepted) -/
  wq : List WAns := []
  /-- the write event is enabled: a direct write was accepted (wholly or in part) or answered EAGAIN since the
  last send-complete -/
  armed : Bool := false
  /-- a write of the SEND BUFFER failed for good: the buffer never drains, send-complete is never reported -/
  stuck : Bool := false
deriving Repr

/-- send-side bookkeeping while the chunks of one commit go through `BufferedFd::send` -/
structure WSt where
  sent : Nat
  handed : Nat
  broken : Bool
  stuck : Bool
  armed : Bool
  wq : List WAns
deriving Repr

/-- `BufferedFd::send` of a chunk of `c` bytes: appended when the send buffer is not empty; otherwise
written directly — what the kernel does not take is buffered and the write event enabled, EAGAIN buffers
everything, any other error DROPS the chunk ("send fail, drop data") -/
def directWrite (w : WSt) (c : Nat) : WSt :=
  if w.broken || w.sent < w.handed then { w with handed := w.handed + c }
  else match w.wq with
    | [] => { w with sent := w.sent + c, handed := w.handed + c, armed := true }
    | .pass :: q => { w with sent := w.sent + c, handed := w.handed + c, armed := true, wq := q }
    | .short n :: q => { w with sent := w.sent + min n c, handed := w.handed + c, armed := true, wq := q }
    | .again :: q => { w with handed := w.handed + c, armed := true, wq := q }
    | .epipe :: q => { w with handed := w.handed + c, broken := true, wq := q }

/-- `BufferedFd::onWriteCallback` in the loop passes that follow, until nothing moves: each pass offers the
whole send buffer to the kernel. `fuel`: one answer is used per pass, `wq.length + 1` suffices. -/
def drain : Nat → WSt → WSt
  | 0, w => w
  | f + 1, w =>
    if w.broken || w.handed ≤ w.sent then w else
    match w.wq with
    | [] => { w with sent := w.handed }
    | .pass :: q => { w with sent := w.handed, wq := q }
    | .short n :: q => drain f { w with sent := w.sent + min n (w.handed - w.sent), wq := q }
    | .again :: q => drain f { w with wq := q }
    | .epipe :: q => { w with broken := true, stuck := true, wq := q }

def Server.wst (s : Server) : WSt := ⟨s.pipe.sent, s.pipe.handed.length, s.pipe.wbroken, s.stuck, s.armed, s.wq⟩

/-- pipeline operations that record what the send side did between two `WSt` snapshots -/
def wOps (w w' : WSt) : List PipeOp :=
  .kernel (w'.sent - w.sent) :: (if w'.broken && !w.broken then [.writeError] else [])

/-- apply pipeline operations and record them -/
def Server.emit (s : Server) (ops : List PipeOp) : Server :=
  { s with pipe := s.pipe.run ops, hist := s.hist ++ ops }

/-- `commitRespond` and what `BufferedFd::send` does with every response it hands over (the committed one
and the parked ones it releases), under the kernel's answers `wq` -/
def Server.commitW (s : Server) (i : Nat) (r : Bytes) : Server :=
  let chunks := ((s.pipe.commit i r).written.drop s.pipe.written.length).map (·.2.length)
  let w := s.wst
  let w' := chunks.foldl directWrite w
  { s.emit (.commit i r :: wOps w w') with wq := w'.wq, armed := w'.armed }

structure Delivered where
  idx : Nat
  req : Req
  calls : List Nat
deriving Repr

/-- one request goes through the handler chain: `close_index`/`req_index` bookkeeping, the
handlers, then the local `sp_ctx` is released — which commits unless a handler kept the context -/
def Server.handleReq (s : Server) (last : Bool) : Server × HState :=
  let idx := s.pipe.reqIndex
  let h := runChain ((s.scripts.lookup idx).getD defaultScript) nLevels 0 {}
  let s0 := s.emit (PipeOp.req last :: (if h.stopped then [PipeOp.drop] else []))
  (if h.kept then { s0 with outstanding := s0.outstanding ++ [idx], keptResp := (idx, h.resp) :: s0.keptResp }
   else s0.commitW idx h.resp.render, h)

/-- the receive loop's view of the events of one `recv`: `consumed` bytes of `whole` were parsed
so far. A handler that throws or stops the server ends the loop (patches/C12-05). Returns the
delivered requests and "the loop was left early". -/
def Server.walk (whole : Bytes) : Server → Nat → List Ev → Server × List Delivered × Bool
  | s, _, [] => (s, [], false)
  | s, c, .parsed n _ :: evs => Server.walk whole s (c + n) evs
  | s, c, .req r last _ :: evs =>
    let (s1, h) := s.handleReq last
    let d : Delivered := ⟨s.pipe.reqIndex, r, h.calls⟩
    if h.threw then
      -- the exception leaves onTcpReceived: what was not parsed stays in the receive buffer
      ({ s1 with poisoned := true, conn := { ps := PState.init, buf := whole.drop c, dead := false, closed := last } }, [d], true)
    else if h.stopped then
      ({ s1 with conn := { s1.conn with dead := true, buf := [] } }, [d], true)
    else if last then
      -- `if (is_last_request) { buff.hasReadAll(); break; }`
      ({ s1 with conn := { s1.conn with closed := true, buf := [] } }, [d], false)
    else
      let (s2, ds, e) := Server.walk whole s1 c evs
      (s2, d :: ds, e)

/-- the loop passes after an op, until nothing moves: the write event offers the send buffer to the kernel
(answers from `wq`, then everything is accepted) and the client reads what arrives; an enabled write event that
finds the send buffer empty reports send-complete — also when the buffer is empty because a direct write failed
and its data was dropped -/
def Server.quiesce (s : Server) : Server :=
  let w := s.wst
  let w' := drain (w.wq.length + 1) w
  let s1 : Server := { s.emit (wOps w w') with wq := w'.wq, stuck := w'.stuck, armed := false }
  if s.armed && !w'.stuck && (s1.pipe.wbroken || s1.pipe.sent == s1.pipe.handed.length) then s1.emit [.sendComplete]
  else s1

/-- client writes a segment; loop runs until quiescent -/
def Server.seg (cfg : Cfg) (s : Server) (bytes : Bytes) : Server × List Delivered × Status :=
  if !s.pipe.valid then (s, [], .ok)
  else
    let o := recv cfg isLast s.conn bytes
    let (s1, ds, early) := Server.walk (s.conn.buf ++ bytes) { s with conn := o.conn } 0 o.evs
    if s1.poisoned then (s1, ds, .threw)   -- no loop pass after the exception: direct writes only
    else if !early && o.conn.dead then
      -- parser failure: responses answered inside the callback were written (directly) before the connection is
      -- dropped; what is still in the send buffer is lost
      ({ s1.emit [.drop] with armed := false }, ds, o.status)
    else (s1.quiesce, ds, o.status)

/-- the handler finishes request `i` later (its Context is released); `none` = not outstanding -/
def Server.done (s : Server) (i : Nat) (r : Respond) : Option Server :=
  if s.outstanding.contains i then
    let s1 := { s.commitW i r.render with outstanding := s.outstanding.filter (· != i) }
    some s1.quiesce
  else none

/-- the client closes its socket. `pre` = a handler finishes request `i` in the same loop pass;
`closeFirst` = the close happens before that commit (its write fails with EPIPE), otherwise the
commit's write is attempted first and the client closes without reading. -/
def Server.cclose (s : Server) (pre : Option (Nat × Respond)) (closeFirst : Bool) : Option Server :=
  if s.cclosed then none else
  let gone (s' : Server) : Server := { s'.emit [.drop] with cclosed := true, armed := false, conn := { s.conn with dead := true, buf := [] } }
  match pre with
  | none => some (gone s)
  | some (i, r) =>
    if s.outstanding.contains i then
      let s0 := if closeFirst then s.emit [.writeError] else s
      some { gone (s0.commitW i r.render) with outstanding := s.outstanding.filter (· != i) }
    else none

/-- the client shuts down its sending side only and keeps reading -/
def Server.chalf (s : Server) : Option Server :=
  if s.cclosed then none
  else some { s.emit [.halfClose] with armed := false, conn := { s.conn with dead := true, buf := [] } }

/-- `server.stop()` / `server.cleanup()` called by the application OUTSIDE any handler while contexts
may still be held: every connection is released at once (TcpServer::stop), the handlers' late
commits find `isClientValid(ct) == false` -/
def Server.sstop (s : Server) : Server :=
  { s.emit [.drop] with armed := false, conn := { s.conn with dead := true, buf := [] } }

/-- `readv` on the server side of the connection fails (ECONNRESET …) when the client's next segment arrives:
BufferedFd reports the read error, TcpConnection tears the connection down; the segment is never seen -/
def Server.rerr (s : Server) : Server := s.sstop

/-- the kernel's answers to the next `write()` calls on the server side (appended to those still unused) -/
def Server.setWq (s : Server) (q : List WAns) : Server := { s with wq := s.wq ++ q }

/-- every further write on the server side of the connection fails -/
def Server.wfail (s : Server) : Server := s.emit [.writeError]

/-- everything that can happen to one connection of the server, handlers included: the script of
a request says what each handler of the chain does when that request arrives -/
inductive SrvOp
  | script (i : Nat) (sc : HScript)
  | seg (bytes : Bytes)
  | done (i : Nat) (r : Respond)
  | cclose (pre : Option (Nat × Respond)) (closeFirst : Bool)
  | chalf
  | wfail
  | sstop
  | rerr
  | wq (q : List WAns)
deriving Repr

def Server.step (s : Server) : SrvOp → Server
  | .script i sc => if (s.scripts.lookup i).isSome then s else { s with scripts := (i, sc) :: s.scripts }
  | .seg bytes => if s.poisoned then s else (s.seg Cfg.fixed bytes).1
  | .done i r => if s.poisoned then s else (s.done i r).getD s
  | .cclose pre cf => if s.poisoned then s else (s.cclose pre cf).getD s
  | .chalf => if s.poisoned then s else (s.chalf).getD s
  | .wfail => if s.poisoned then s else s.wfail
  | .sstop => if s.poisoned then s else s.sstop
  | .rerr => if s.poisoned then s else s.rerr
  | .wq q => if s.poisoned then s else s.setWq q

end Tbox.C12
