/-
C12 (part B) — executable model of the response pipeline of `Server::Impl`
(modules/http/server/server_imp.cpp: Connection::{req_index,res_index,close_index,res_buff},
onTcpReceived's bookkeeping, commitRespond, onTcpSendCompleted; context.cpp: ~Context commits
the response of request `req_index` exactly once), and the composition with the feed loop of
Model.lean that the driver runs against a real `Server`.

Core Lean only (linked into the driver).
-/
import TboxModel.C12.Model
namespace Tbox.C12

/-- `Impl::Connection` (response side) plus `isClientValid(ct)` and, as the observable,
everything handed to `tcp_server_.send` in order (request index, bytes) -/
structure Pipe where
  reqIndex : Nat := 0
  resIndex : Nat := 0
  closeIndex : Option Nat := none          -- none = numeric_limits<int>::max()
  resBuff : List (Nat × Bytes) := []       -- std::map<int, Respond*>
  valid : Bool := true
  written : List (Nat × Bytes) := []
  /-- send side (BufferedFd): how many of the bytes handed to `send` the kernel has accepted, i.e.
  the peer can read — the rest sits in the send buffer (partial writes of large responses) -/
  sent : Nat := 0
  /-- ghost: how often the connection object was torn down (`delete conn`) -/
  disconnects : Nat := 0
deriving DecidableEq, Repr

namespace Pipe

/-- `conn->res_index > conn->close_index` -/
def pastClose (p : Pipe) : Bool :=
  match p.closeIndex with
  | none => false
  | some k => p.resIndex > k

/-- onTcpReceived, a request is complete: `if (IsLastRequest) close_index = req_index;`
then `Context(…, req_index++, …)` -/
def onRequest (p : Pipe) (last : Bool) : Pipe :=
  { p with closeIndex := if last then some p.reqIndex else p.closeIndex, reqIndex := p.reqIndex + 1 }

/-- the `while (iter != res_buff.end())` of commitRespond. `fuel`: each iteration erases one
entry, `resBuff.length + 1` suffices (`flush_done`). -/
def flush : Nat → Pipe → Pipe
  | 0, p => p
  | fuel + 1, p =>
    match p.resBuff.find? (fun e => e.1 == p.resIndex) with
    | none => p
    | some (_, r) =>
      let p' := { p with written := p.written ++ [(p.resIndex, r)],
                         resBuff := p.resBuff.filter (fun e => e.1 != p.resIndex),
                         resIndex := p.resIndex + 1 }
      if p'.pastClose then p' else flush fuel p'

/-- `Impl::commitRespond(ct, index, res)` -/
def commit (p : Pipe) (i : Nat) (r : Bytes) : Pipe :=
  if !p.valid then p                                    -- delete res; return
  else if i == p.resIndex then
    let p' := { p with written := p.written ++ [(i, r)], resIndex := p.resIndex + 1 }
    if p'.pastClose then p' else flush (p'.resBuff.length + 1) p'
  else { p with resBuff := (i, r) :: p.resBuff.filter (fun e => e.1 != i) }

/-- everything handed to `tcp_server_.send`, as one byte stream -/
def handed (p : Pipe) : Bytes := (p.written.map (·.2)).flatten

/-- what the peer has received so far (send-side contract of BufferedFd / C06: the bytes handed
to `send` reach the peer in order) -/
def peerBytes (p : Pipe) : Bytes := p.handed.take p.sent

/-- `tcp_server_.disconnect(ct); delete conn` (also: onTcpDisconnected). Whatever is still in the
send buffer is lost with the connection. -/
def disconnect (p : Pipe) : Pipe := { p with valid := false, resBuff := [], disconnects := p.disconnects + 1 }

/-- the kernel accepts `n` more bytes of the send buffer (write event / direct write) -/
def kernel (p : Pipe) (n : Nat) : Pipe :=
  if !p.valid then p else { p with sent := min (p.sent + n) p.handed.length }

/-- the TcpConnection reports that the peer closed (read returned 0) or failed; for a connection
that was already released no such callback exists (its BufferedFd is disabled and deleted) -/
def peerClosed (p : Pipe) : Pipe := if !p.valid then p else p.disconnect

/-- `Impl::onTcpSendCompleted` -/
def sendComplete (p : Pipe) : Pipe :=
  if !p.valid then p else if p.pastClose then p.disconnect else p

end Pipe

inductive PipeOp
  | req (last : Bool)               -- the feed loop hands a request to the handlers
  | commit (i : Nat) (r : Bytes)    -- the Context of request i is destroyed
  | sendComplete                    -- the send buffer drained
  | drop                            -- parser failure / peer closed: connection dropped
  | kernel (n : Nat)                -- the kernel takes n more bytes of the send buffer
deriving DecidableEq, Repr

def Pipe.step (p : Pipe) : PipeOp → Pipe
  | .req last => p.onRequest last
  | .commit i r => p.commit i r
  | .sendComplete => p.sendComplete
  | .drop => p.peerClosed
  | .kernel n => p.kernel n

def Pipe.run (p : Pipe) (ops : List PipeOp) : Pipe := ops.foldl Pipe.step p

/-! ### the whole server side of one connection, as exercised by the harness -/

/-- `Respond::toString()` of what the harness' handler produces: status 200, version 1.1 (set by
the Context constructor), no headers, the given body -/
def respond (body : Bytes) : Bytes :=
  ascii "HTTP/1.1 200 OK\r\nContent-Length: " ++ ascii (toString body.length) ++ ascii "\r\n\r\n" ++ body

structure Server where
  conn : Conn := {}
  pipe : Pipe := {}
  outstanding : List Nat := []         -- requests delivered whose Context is still alive
  syncs : List (Nat × Bytes) := []     -- request indices the handler answers inside the callback
  cclosed : Bool := false              -- the client has closed its socket
deriving Repr

/-- the handler runs for every request event, in order -/
def Server.deliver (s : Server) : List Ev → Server
  | [] => s
  | .req _ last _ :: evs =>
    let idx := s.pipe.reqIndex
    let pipe := s.pipe.onRequest last
    let s' := match s.syncs.lookup idx with
      | some body => { s with pipe := pipe.commit idx (respond body) }
      | none => { s with pipe := pipe, outstanding := s.outstanding ++ [idx] }
    s'.deliver evs
  | _ :: evs => s.deliver evs

/-- the send-complete event that follows a burst of writes once the loop is quiescent -/
def Server.quiesce (s : Server) (writtenBefore : Nat) : Server :=
  if s.pipe.written.length > writtenBefore then
    { s with pipe := (s.pipe.kernel s.pipe.handed.length).sendComplete }   -- client reads everything, buffer drains
  else s

/-- client writes a segment; loop runs until quiescent -/
def Server.seg (cfg : Cfg) (s : Server) (bytes : Bytes) : Server × Out :=
  if !s.pipe.valid then (s, ⟨s.conn, [], .ok⟩)
  else
    let o := recv cfg isLast s.conn bytes
    let s1 := Server.deliver { s with conn := o.conn } o.evs
    let s2 := if o.conn.dead then { s1 with pipe := s1.pipe.disconnect } else s1
    (s2.quiesce s.pipe.written.length, o)

/-- the handler finishes request `i` later (its Context is released); `none` = not outstanding -/
def Server.done (s : Server) (i : Nat) (body : Bytes) : Option Server :=
  if s.outstanding.contains i then
    let s1 := { s with outstanding := s.outstanding.filter (· != i), pipe := s.pipe.commit i (respond body) }
    some (s1.quiesce s.pipe.written.length)
  else none

/-- the client closes its socket; with `commitFirst` a handler finishes request `i` in the same
loop pass, before the close is noticed -/
def Server.cclose (s : Server) (commitFirst : Option (Nat × Bytes)) : Option Server :=
  if s.cclosed then none else
  match commitFirst with
  | none => some { s with cclosed := true, pipe := s.pipe.peerClosed, conn := { s.conn with dead := true, buf := [] } }
  | some (i, body) =>
    if s.outstanding.contains i then
      let p := s.pipe.commit i (respond body)
      some { s with cclosed := true, outstanding := s.outstanding.filter (· != i), pipe := (p.kernel p.handed.length).peerClosed,
                    conn := { s.conn with dead := true, buf := [] } }
    else none

end Tbox.C12
