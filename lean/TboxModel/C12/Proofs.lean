/- C12 helper lemmas, parser level: splitCRLF, the header loop, parse (totality, suffix, append). -/
import TboxModel.C12.Model
namespace Tbox.C12

theorem fixed_checkedLen : Cfg.fixed.checkedLen = true := rfl
theorem fixed_crlfFirst : Cfg.fixed.crlfFirst = true := rfl
theorem fixed_stop : Cfg.fixed.stopAfterLast = true := rfl

/-! ### splitCRLF -/

theorem splitCRLF_some {s l r : Bytes} (h : splitCRLF s = some (l, r)) : s = l ++ 13 :: 10 :: r := by
  induction s generalizing l with
  | nil => simp [splitCRLF] at h
  | cons b rest ih =>
    unfold splitCRLF at h
    split at h
    · rename_i hc
      obtain ⟨hb, hr⟩ := hc
      cases rest with
      | nil => simp at hr
      | cons x xs =>
        simp at hr h
        obtain ⟨rfl, rfl⟩ := h
        simp [hb, hr]
    · split at h
      · simp at h
      · rename_i l' r' heq
        simp at h
        obtain ⟨rfl, rfl⟩ := h
        simp [ih heq]

theorem splitCRLF_length {s l r : Bytes} (h : splitCRLF s = some (l, r)) : r.length + 2 ≤ s.length := by
  have := splitCRLF_some h
  subst this
  simp

theorem splitCRLF_append {s l r : Bytes} (e : Bytes) (h : splitCRLF s = some (l, r)) :
    splitCRLF (s ++ e) = some (l, r ++ e) := by
  induction s generalizing l with
  | nil => simp [splitCRLF] at h
  | cons b rest ih =>
    unfold splitCRLF at h
    rw [List.cons_append]
    unfold splitCRLF
    split at h
    · rename_i hc
      obtain ⟨hb, hr⟩ := hc
      cases rest with
      | nil => simp at hr
      | cons x xs =>
        simp at hr h
        obtain ⟨rfl, rfl⟩ := h
        simp [hb, hr]
    · rename_i hc
      have hc' : ¬(b = 13 ∧ (rest ++ e).head? = some 10) := by
        intro ⟨hb, hr⟩
        apply hc
        refine ⟨hb, ?_⟩
        cases rest with
        | nil => simp [splitCRLF] at h
        | cons x xs => simpa using hr
      rw [if_neg hc']
      split at h
      · simp at h
      · rename_i l' r' heq
        simp at h
        obtain ⟨rfl, rfl⟩ := h
        rw [ih heq]

theorem splitCRLF_suffix {s l r : Bytes} (h : splitCRLF s = some (l, r)) : r <:+ s := by
  have := splitCRLF_some h
  exact ⟨l ++ [13, 10], by simp [this]⟩

/-! ### stage 1 only looks at the start line -/

/-- line-based characterisation of stage 1: `line` = the bytes in front of the first CRLF.
Every case in which a `find` of the code runs past the CRLF ends in `kFail`:
  * no space in the line: `method_str` contains the CR, which no method name does;
  * only spaces after the method: `url_str_begin >= end_pos`;
  * no space after the url inside the line: `ver_str_begin` is npos or `>= end_pos`
    (whatever `StringToUrlPath` said about the over-long string);
  * only spaces after the url: `ver_str_begin >= end_pos`. -/
def parseStartLine (line : Bytes) : Option (String × UrlPath × String) :=
  let m := line.takeWhile (· != 32)
  let r1 := line.dropWhile (· != 32)
  if r1.isEmpty then none else
  match methodOf m with
  | none => none
  | some method =>
    let r2 := dropSpaces r1
    if r2.isEmpty then none else
    let u := r2.takeWhile (· != 32)
    let r3 := r2.dropWhile (· != 32)
    if r3.isEmpty then none else
    match parseUrlPath u with
    | none => none
    | some url =>
      let v := dropSpaces r3
      if v.isEmpty then none else
      if v.take 5 != ascii "HTTP/" then none else
      match verOf v with
      | none => none
      | some ver => some (method, url, ver)

theorem tw_append (p : UInt8 → Bool) (l t : Bytes) :
    (l ++ t).takeWhile p = if (l.dropWhile p).isEmpty then l ++ t.takeWhile p else l.takeWhile p := by
  induction l with
  | nil => simp
  | cons x l ih =>
    by_cases hx : p x = true
    · simp only [List.cons_append, List.takeWhile_cons, List.dropWhile_cons, hx, if_true, ih]
      split <;> rfl
    · simp [hx]

theorem dw_append (p : UInt8 → Bool) (l t : Bytes) :
    (l ++ t).dropWhile p = if (l.dropWhile p).isEmpty then t.dropWhile p else l.dropWhile p ++ t := by
  induction l with
  | nil => simp
  | cons x l ih =>
    by_cases hx : p x = true
    · simp only [List.cons_append, List.dropWhile_cons, hx, if_true, ih]
    · simp [hx]

/-- no method name of the (regenerated) table contains a CR -/
theorem methodTable_no13 : ∀ p ∈ Gen.methodTable, (13 : UInt8) ∉ ascii p.2 := by decide

theorem methodOf_no13 {m : Bytes} {e : String} (h : methodOf m = some e) : (13 : UInt8) ∉ m := by
  unfold methodOf at h
  cases hf : Gen.methodTable.find? (fun p => ascii p.2 == m) with
  | none => simp [hf] at h
  | some p =>
    have h1 := List.find?_some hf
    have h2 := List.mem_of_find?_eq_some hf
    have : ascii p.2 = m := by simpa using h1
    rw [← this]
    exact methodTable_no13 p h2

theorem dropWhile_length_le (p : UInt8 → Bool) (l : Bytes) : (l.dropWhile p).length ≤ l.length :=
  (List.dropWhile_suffix p).length_le

/-- `startLineLit` (the literal transcription over the whole buffer) equals the line-based
function: stage 1 depends only on the bytes in front of the first CRLF. -/
theorem startLineLit_eq (line after : Bytes) :
    startLineLit (line ++ 13 :: 10 :: after) (after.length + 2) = parseStartLine line := by
  have ht : (13 :: 10 :: after).length = after.length + 2 := by simp
  generalize htd : (13 :: 10 :: after : Bytes) = t at ht
  have ht32 : t.dropWhile (· == 32) = t := by subst htd; simp
  have htne : t.takeWhile (· != 32) = 13 :: (10 :: after).takeWhile (· != 32) := by subst htd; simp
  simp only [startLineLit, parseStartLine, dropSpaces]
  rw [tw_append, dw_append]
  by_cases h1 : (line.dropWhile (· != 32)).isEmpty = true
  · -- no space in the line: the method string runs into the CR
    simp only [h1, if_true]
    have : methodOf (line ++ t.takeWhile (· != 32)) = none := by
      cases hm : methodOf (line ++ t.takeWhile (· != 32)) with
      | none => rfl
      | some e => exact absurd (by rw [htne]; simp) (methodOf_no13 hm)
    simp only [this]
  · simp only [h1, Bool.false_eq_true, if_false]
    cases hm : methodOf (List.takeWhile (fun x => x != 32) line) with
    | none => rfl
    | some method =>
      simp only []
      rw [dw_append]
      by_cases h2 : ((line.dropWhile (· != 32)).dropWhile (· == 32)).isEmpty = true
      · simp [h2, ht32, ht]
      · have h2' : ((line.dropWhile (· != 32)).dropWhile (· == 32)) ≠ [] := by simpa using h2
        have e2 : ∀ v : Bytes, v ≠ [] → ((v ++ t).isEmpty || decide ((v ++ t).length ≤ after.length + 2)) = false := by
          intro v hv
          have := List.length_pos_iff.mpr hv
          simp [hv]; omega
        simp only [h2, Bool.false_eq_true, if_false, e2 _ h2']
        rw [tw_append, dw_append]
        by_cases h3 : (((line.dropWhile (· != 32)).dropWhile (· == 32)).dropWhile (· != 32)).isEmpty = true
        · -- no space after the url inside the line: ver_str_begin lies beyond end_pos
          simp only [h3, if_true]
          have hle := dropWhile_length_le (· == 32) (t.dropWhile (· != 32))
          have hle2 := dropWhile_length_le (· != 32) t
          cases parseUrlPath _ with
          | none => rfl
          | some url =>
            have : (((t.dropWhile (· != 32)).dropWhile (· == 32)).isEmpty ||
                decide (((t.dropWhile (· != 32)).dropWhile (· == 32)).length ≤ after.length + 2)) = true := by
              simp; right; omega
            simp only [this, if_true]
        · simp only [h3, Bool.false_eq_true, if_false]
          cases parseUrlPath _ with
          | none => rfl
          | some url =>
            simp only []
            rw [dw_append]
            by_cases h4 : ((((line.dropWhile (· != 32)).dropWhile (· == 32)).dropWhile (· != 32)).dropWhile (· == 32)).isEmpty = true
            · simp [h4, ht32, ht]
            · have h4' : ((((line.dropWhile (· != 32)).dropWhile (· == 32)).dropWhile (· != 32)).dropWhile (· == 32)) ≠ [] := by
                simpa using h4
              have e3 : ∀ v : Bytes, (v ++ t).take ((v ++ t).length - (after.length + 2)) = v := by
                intro v
                rw [List.length_append, ht, Nat.add_sub_cancel]
                exact List.take_left' rfl
              simp only [h4, Bool.false_eq_true, if_false, e2 _ h4', e3]
              rfl

/-! ### the header loop -/

/-- the remaining bytes reported by the loop are a suffix of what it was given -/
def HResult.Sfx (res : HResult) (s : Bytes) : Prop :=
  match res with
  | .more _ _ r => r <:+ s
  | .done _ _ r => r <:+ s
  | .fail _ _ r => r <:+ s
  | .threw => True
  | .hang => True

theorem HResult.Sfx.trans {res : HResult} {a s : Bytes} (h : res.Sfx a) (ha : a <:+ s) : res.Sfx s := by
  cases res <;> simp only [HResult.Sfx] at * <;> first | exact h.trans ha | trivial

theorem headersLoop_sfx (cfg : Cfg) (f : Nat) (req : Req) (clen : Option Nat) (s : Bytes) :
    (headersLoop cfg f req clen s).Sfx s := by
  induction f generalizing req clen s with
  | zero => simp [headersLoop, HResult.Sfx]
  | succ k ih =>
    unfold headersLoop
    split
    · simp [HResult.Sfx]
    · rename_i line after heq
      have hs := splitCRLF_suffix heq
      split
      · simpa [HResult.Sfx] using hs
      · split
        · simp [HResult.Sfx]
        · dsimp only
          split
          · split
            · simp [HResult.Sfx]
            · simp [HResult.Sfx]
            · exact (ih _ _ _).trans hs
          · exact (ih _ _ _).trans hs

/-- with the checked Content-Length parse the loop neither throws nor runs out of fuel -/
def HResult.Fine : HResult → Prop
  | .threw => False
  | .hang => False
  | _ => True

theorem headersLoop_fine (f : Nat) (req : Req) (clen : Option Nat) (s : Bytes) (hf : s.length < f) :
    (headersLoop Cfg.fixed f req clen s).Fine := by
  induction f generalizing req clen s with
  | zero => omega
  | succ k ih =>
    unfold headersLoop
    split
    · simp [HResult.Fine]
    · rename_i line after heq
      have hl := splitCRLF_length heq
      split
      · simp [HResult.Fine]
      · split
        · simp [HResult.Fine]
        · dsimp only
          split
          · simp only [contentLength, Cfg.fixed, if_true]
            split
            · rename_i hx; split at hx <;> simp at hx
            · simp [HResult.Fine]
            · exact ih _ _ _ (by omega)
          · exact ih _ _ _ (by omega)

theorem headersLoop_fuel (cfg : Cfg) (f1 f2 : Nat) (req : Req) (clen : Option Nat) (s : Bytes)
    (h1 : s.length < f1) (h2 : s.length < f2) :
    headersLoop cfg f1 req clen s = headersLoop cfg f2 req clen s := by
  induction f1 generalizing f2 req clen s with
  | zero => omega
  | succ k ih =>
    cases f2 with
    | zero => omega
    | succ j =>
      unfold headersLoop
      split
      · rfl
      · rename_i line after heq
        have hl := splitCRLF_length heq
        split
        · rfl
        · split
          · rfl
          · dsimp only
            split
            · split
              · rfl
              · rfl
              · exact ih _ _ _ _ (by omega) (by omega)
            · exact ih _ _ _ _ (by omega) (by omega)

/-- how the loop's outcome on `s` determines its outcome on `s ++ e` -/
def resume (cfg : Cfg) (f : Nat) (e : Bytes) : HResult → HResult
  | .more r c rest => headersLoop cfg f r c (rest ++ e)
  | .done r c rest => .done r c (rest ++ e)
  | .fail r c rest => .fail r c (rest ++ e)
  | .threw => .threw
  | .hang => .hang

theorem resume_fuel (cfg : Cfg) (f1 f2 : Nat) (e : Bytes) (res : HResult) (a : Bytes) (hs : res.Sfx a)
    (h1 : (a ++ e).length < f1) (h2 : (a ++ e).length < f2) : resume cfg f1 e res = resume cfg f2 e res := by
  cases res <;> simp only [resume]
  rename_i r c rest
  simp only [HResult.Sfx] at hs
  have := hs.length_le
  simp at h1 h2
  exact headersLoop_fuel _ _ _ _ _ _ (by simp; omega) (by simp; omega)

theorem headersLoop_append (cfg : Cfg) (f f' : Nat) (req : Req) (clen : Option Nat) (s e : Bytes)
    (hf : s.length < f) (hf' : (s ++ e).length < f') :
    headersLoop cfg f' req clen (s ++ e) = resume cfg f' e (headersLoop cfg f req clen s) := by
  induction f generalizing f' req clen s with
  | zero => omega
  | succ k ih =>
    cases f' with
    | zero => omega
    | succ j =>
      cases heq : splitCRLF s with
      | none => simp only [headersLoop, heq, resume]
      | some p =>
        obtain ⟨line, after⟩ := p
        have hl := splitCRLF_length heq
        have hl' := splitCRLF_length (splitCRLF_append e heq)
        have step : ∀ (rq : Req) (cl : Option Nat),
            headersLoop cfg j rq cl (after ++ e) = resume cfg (j + 1) e (headersLoop cfg k rq cl after) := by
          intro rq cl
          rw [ih j rq cl after (by omega) (by omega)]
          exact resume_fuel cfg _ _ e _ after (headersLoop_sfx _ _ _ _ _) (by omega) (by omega)
        simp only [headersLoop, heq, splitCRLF_append e heq]
        by_cases hE : line.isEmpty = true
        · simp only [hE, if_true, resume]
        · simp only [hE]
          cases hp : parseHeaderLine line with
          | none => simp [resume]
          | some kv =>
            obtain ⟨hk, hv⟩ := kv
            simp only []
            by_cases hK : (hk == ascii "Content-Length") = true
            · simp only [hK, if_true]
              cases contentLength cfg hv with
              | threw => simp [resume]
              | bad => simp [resume]
              | ok n => simpa using step _ _
            · simp only [hK]
              simpa using step _ _

/-! ### parse: totality -/

/-- `parse` returned normally and what it left is a suffix of what it was given -/
def PResult.Good (res : PResult) (s : Bytes) : Prop :=
  ∃ ps rest, res = .ok ps rest ∧ rest <:+ s

theorem PResult.Good.trans {res : PResult} {a s : Bytes} (h : res.Good a) (ha : a <:+ s) : res.Good s := by
  obtain ⟨ps, rest, h1, h2⟩ := h
  exact ⟨ps, rest, h1, h2.trans ha⟩

theorem bodyStage_good (req : Req) (clen : Option Nat) (s : Bytes) : (bodyStage req clen s).Good s := by
  unfold bodyStage
  split
  · split
    · exact ⟨_, _, rfl, List.drop_suffix _ _⟩
    · exact ⟨_, _, rfl, List.suffix_refl _⟩
  · exact ⟨_, _, rfl, List.nil_suffix⟩

theorem headersStage_good (req : Req) (clen : Option Nat) (s : Bytes) :
    (headersStage Cfg.fixed req clen s).Good s := by
  unfold headersStage
  have h1 := headersLoop_sfx Cfg.fixed (s.length + 1) req clen s
  have h2 := headersLoop_fine (s.length + 1) req clen s (by omega)
  cases h : headersLoop Cfg.fixed (s.length + 1) req clen s with
  | more r c rest => rw [h] at h1; exact ⟨_, _, rfl, h1⟩
  | done r c rest => rw [h] at h1; exact (bodyStage_good _ _ _).trans h1
  | fail r c rest => rw [h] at h1; exact ⟨_, _, rfl, h1⟩
  | threw => rw [h] at h2; exact h2.elim
  | hang => rw [h] at h2; exact h2.elim

theorem parse_good (ps : PState) (s : Bytes) : (parse Cfg.fixed ps s).Good s := by
  unfold parse
  split
  · simp only [Cfg.fixed, Bool.not_true, Bool.false_and, Bool.false_eq_true, if_false]
    split
    · exact ⟨_, _, rfl, List.suffix_refl _⟩
    · rename_i line after heq
      split
      · exact ⟨_, _, rfl, List.suffix_refl _⟩
      · exact (headersStage_good _ _ _).trans (splitCRLF_suffix heq)
  · exact headersStage_good _ _ _
  · exact bodyStage_good _ _ _
  · exact ⟨_, _, rfl, List.suffix_refl _⟩
  · exact ⟨_, _, rfl, List.suffix_refl _⟩

/-! ### parse: what a longer buffer does -/

/-- `res` = outcome on `s`, `res'` = outcome on `s ++ e` -/
def Ext (cfg : Cfg) (e : Bytes) (res res' : PResult) : Prop :=
  match res with
  | .ok ps1 rest =>
    match ps1.st with
    | .all =>
      if ps1.clen.isSome then res' = .ok ps1 (rest ++ e)
      else ∃ ps2 r2, res' = .ok ps2 r2 ∧ ps2.st = .all ∧ ps2.clen = none
    | .fail => res' = .ok ps1 (rest ++ e)
    | _ => res' = parse cfg ps1 (rest ++ e)
  | _ => True

theorem bodyStage_ext (cfg : Cfg) (req : Req) (clen : Option Nat) (s e : Bytes) :
    Ext cfg e (bodyStage req clen s) (bodyStage req clen (s ++ e)) := by
  cases clen with
  | none => simp [bodyStage, Ext]
  | some n =>
    by_cases hn : n ≤ s.length
    · have hn' : n ≤ (s ++ e).length := by simp; omega
      simp only [bodyStage, hn, hn', if_true, Ext, Option.isSome_some]
      rw [List.take_append_of_le_length hn, List.drop_append_of_le_length hn]
    · simp only [bodyStage, hn, if_false, Ext, parse]

theorem headersStage_ext (cfg : Cfg) (req : Req) (clen : Option Nat) (s e : Bytes) :
    Ext cfg e (headersStage cfg req clen s) (headersStage cfg req clen (s ++ e)) := by
  have happ := headersLoop_append cfg (s.length + 1) ((s ++ e).length + 1) req clen s e (by omega) (by omega)
  have hsfx := headersLoop_sfx cfg (s.length + 1) req clen s
  unfold headersStage
  rw [happ]
  cases h : headersLoop cfg (s.length + 1) req clen s with
  | more r c rest =>
    rw [h] at hsfx
    simp only [HResult.Sfx] at hsfx
    have hle := hsfx.length_le
    simp only [resume, Ext, parse, headersStage]
    rw [headersLoop_fuel cfg ((s ++ e).length + 1) ((rest ++ e).length + 1) r c (rest ++ e)
      (by simp; omega) (by omega)]
  | done r c rest => simpa [resume] using bodyStage_ext cfg r c rest e
  | fail r c rest => simp [resume, Ext]
  | threw => simp [Ext]
  | hang => simp [Ext]

theorem startLineLit_of_split {s line after : Bytes} (h : splitCRLF s = some (line, after)) :
    startLineLit s (after.length + 2) = parseStartLine line := by
  rw [splitCRLF_some h]
  exact startLineLit_eq line after

theorem parse_init_eq (cfg : Cfg) (ps : PState) (h : ps.st = .init) (x : Bytes) :
    parse cfg ps x = parse cfg PState.init x := by
  simp [parse, h, PState.init]

theorem parse_ext (ps : PState) (s e : Bytes) :
    Ext Cfg.fixed e (parse Cfg.fixed ps s) (parse Cfg.fixed ps (s ++ e)) := by
  cases hst : ps.st with
  | init =>
    rw [parse_init_eq _ ps hst s, parse_init_eq _ ps hst (s ++ e)]
    cases heq : splitCRLF s with
    | none =>
      simp only [parse, PState.init, Cfg.fixed, Bool.not_true, Bool.false_and, Bool.false_eq_true, if_false, heq, Ext]
    | some p =>
      obtain ⟨line, after⟩ := p
      simp only [parse, PState.init, Cfg.fixed, Bool.not_true, Bool.false_and, Bool.false_eq_true, if_false, heq,
        splitCRLF_append e heq, startLineLit_of_split heq, startLineLit_of_split (splitCRLF_append e heq)]
      cases parseStartLine line with
      | none => simp [Ext]
      | some t =>
        obtain ⟨m, u, v⟩ := t
        exact headersStage_ext _ _ _ _ _
  | startLine => simpa [parse, hst] using headersStage_ext Cfg.fixed ps.req ps.clen s e
  | heads => simpa [parse, hst] using bodyStage_ext Cfg.fixed ps.req ps.clen s e
  | all =>
    simp only [parse, hst, Ext]
    split
    · trivial
    · rename_i hc
      exact ⟨ps, _, rfl, hst, by simpa using hc⟩
  | fail => simp only [parse, hst, Ext]
