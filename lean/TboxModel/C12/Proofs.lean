/- C12 helper lemmas, parser level: splitCRLF, the header loop, parse (totality, suffix, append). -/
import TboxModel.C12.Model
namespace Tbox.C12

theorem fixed_checkedLen : Cfg.fixed.checkedLen = true := rfl
theorem fixed_crlfFirst : Cfg.fixed.crlfFirst = true := rfl
theorem fixed_stop : Cfg.fixed.stopAfterLast = true := rfl

/-! ### splitCRLF -/

theorem splitCRLF_some {s l r : Bytes} (h : splitCRLF s = some (l, r)) : s = l ++ 13 :: 10 :: r := by
  induction s generalizing l with
  | nil => simp [splitCRLF] at h
  | cons b rest ih =>
    unfold splitCRLF at h
    split at h
    · rename_i hc
      obtain ⟨hb, hr⟩ := hc
      cases rest with
      | nil => simp at hr
      | cons x xs =>
        simp at hr h
        obtain ⟨rfl, rfl⟩ := h
        simp [hb, hr]
    · split at h
      · simp at h
      · rename_i l' r' heq
        simp at h
        obtain ⟨rfl, rfl⟩ := h
        simp [ih heq]

theorem splitCRLF_length {s l r : Bytes} (h : splitCRLF s = some (l, r)) : r.length + 2 ≤ s.length := by
  have := splitCRLF_some h
  subst this
  simp

theorem splitCRLF_append {s l r : Bytes} (e : Bytes) (h : splitCRLF s = some (l, r)) :
    splitCRLF (s ++ e) = some (l, r ++ e) := by
  induction s generalizing l with
  | nil => simp [splitCRLF] at h
  | cons b rest ih =>
    unfold splitCRLF at h
    rw [List.cons_append]
    unfold splitCRLF
    split at h
    · rename_i hc
      obtain ⟨hb, hr⟩ := hc
      cases rest with
      | nil => simp at hr
      | cons x xs =>
        simp at hr h
        obtain ⟨rfl, rfl⟩ := h
        simp [hb, hr]
    · rename_i hc
      have hc' : ¬(b = 13 ∧ (rest ++ e).head? = some 10) := by
        intro ⟨hb, hr⟩
        apply hc
        refine ⟨hb, ?_⟩
        cases rest with
        | nil => simp [splitCRLF] at h
        | cons x xs => simpa using hr
      rw [if_neg hc']
      split at h
      · simp at h
      · rename_i l' r' heq
        simp at h
        obtain ⟨rfl, rfl⟩ := h
        rw [ih heq]

theorem splitCRLF_suffix {s l r : Bytes} (h : splitCRLF s = some (l, r)) : r <:+ s := by
  have := splitCRLF_some h
  exact ⟨l ++ [13, 10], by simp [this]⟩

/-! ### the header loop -/

/-- the remaining bytes reported by the loop are a suffix of what it was given -/
def HResult.Sfx (res : HResult) (s : Bytes) : Prop :=
  match res with
  | .more _ _ r => r <:+ s
  | .done _ _ r => r <:+ s
  | .fail _ _ r => r <:+ s
  | .threw => True
  | .hang => True

theorem HResult.Sfx.trans {res : HResult} {a s : Bytes} (h : res.Sfx a) (ha : a <:+ s) : res.Sfx s := by
  cases res <;> simp only [HResult.Sfx] at * <;> first | exact h.trans ha | trivial

theorem headersLoop_sfx (cfg : Cfg) (f : Nat) (req : Req) (clen : Option Nat) (s : Bytes) :
    (headersLoop cfg f req clen s).Sfx s := by
  induction f generalizing req clen s with
  | zero => simp [headersLoop, HResult.Sfx]
  | succ k ih =>
    unfold headersLoop
    split
    · simp [HResult.Sfx]
    · rename_i line after heq
      have hs := splitCRLF_suffix heq
      split
      · simpa [HResult.Sfx] using hs
      · split
        · simp [HResult.Sfx]
        · dsimp only
          split
          · split
            · simp [HResult.Sfx]
            · simp [HResult.Sfx]
            · exact (ih _ _ _).trans hs
          · exact (ih _ _ _).trans hs

/-- with the checked Content-Length parse the loop neither throws nor runs out of fuel -/
def HResult.Fine : HResult → Prop
  | .threw => False
  | .hang => False
  | _ => True

theorem headersLoop_fine (f : Nat) (req : Req) (clen : Option Nat) (s : Bytes) (hf : s.length < f) :
    (headersLoop Cfg.fixed f req clen s).Fine := by
  induction f generalizing req clen s with
  | zero => omega
  | succ k ih =>
    unfold headersLoop
    split
    · simp [HResult.Fine]
    · rename_i line after heq
      have hl := splitCRLF_length heq
      split
      · simp [HResult.Fine]
      · split
        · simp [HResult.Fine]
        · dsimp only
          split
          · simp only [contentLength, Cfg.fixed, if_true]
            split
            · rename_i hx; split at hx <;> simp at hx
            · simp [HResult.Fine]
            · exact ih _ _ _ (by omega)
          · exact ih _ _ _ (by omega)

theorem headersLoop_fuel (cfg : Cfg) (f1 f2 : Nat) (req : Req) (clen : Option Nat) (s : Bytes)
    (h1 : s.length < f1) (h2 : s.length < f2) :
    headersLoop cfg f1 req clen s = headersLoop cfg f2 req clen s := by
  induction f1 generalizing f2 req clen s with
  | zero => omega
  | succ k ih =>
    cases f2 with
    | zero => omega
    | succ j =>
      unfold headersLoop
      split
      · rfl
      · rename_i line after heq
        have hl := splitCRLF_length heq
        split
        · rfl
        · split
          · rfl
          · dsimp only
            split
            · split
              · rfl
              · rfl
              · exact ih _ _ _ _ (by omega) (by omega)
            · exact ih _ _ _ _ (by omega) (by omega)

/-- how the loop's outcome on `s` determines its outcome on `s ++ e` -/
def resume (cfg : Cfg) (f : Nat) (e : Bytes) : HResult → HResult
  | .more r c rest => headersLoop cfg f r c (rest ++ e)
  | .done r c rest => .done r c (rest ++ e)
  | .fail r c rest => .fail r c (rest ++ e)
  | .threw => .threw
  | .hang => .hang

theorem resume_fuel (cfg : Cfg) (f1 f2 : Nat) (e : Bytes) (res : HResult) (a : Bytes) (hs : res.Sfx a)
    (h1 : (a ++ e).length < f1) (h2 : (a ++ e).length < f2) : resume cfg f1 e res = resume cfg f2 e res := by
  cases res <;> simp only [resume]
  rename_i r c rest
  simp only [HResult.Sfx] at hs
  have := hs.length_le
  simp at h1 h2
  exact headersLoop_fuel _ _ _ _ _ _ (by simp; omega) (by simp; omega)

theorem headersLoop_append (cfg : Cfg) (f f' : Nat) (req : Req) (clen : Option Nat) (s e : Bytes)
    (hf : s.length < f) (hf' : (s ++ e).length < f') :
    headersLoop cfg f' req clen (s ++ e) = resume cfg f' e (headersLoop cfg f req clen s) := by
  induction f generalizing f' req clen s with
  | zero => omega
  | succ k ih =>
    cases f' with
    | zero => omega
    | succ j =>
      cases heq : splitCRLF s with
      | none => simp only [headersLoop, heq, resume]
      | some p =>
        obtain ⟨line, after⟩ := p
        have hl := splitCRLF_length heq
        have hl' := splitCRLF_length (splitCRLF_append e heq)
        have step : ∀ (rq : Req) (cl : Option Nat),
            headersLoop cfg j rq cl (after ++ e) = resume cfg (j + 1) e (headersLoop cfg k rq cl after) := by
          intro rq cl
          rw [ih j rq cl after (by omega) (by omega)]
          exact resume_fuel cfg _ _ e _ after (headersLoop_sfx _ _ _ _ _) (by omega) (by omega)
        simp only [headersLoop, heq, splitCRLF_append e heq]
        by_cases hE : line.isEmpty = true
        · simp only [hE, if_true, resume]
        · simp only [hE]
          cases hp : parseHeaderLine line with
          | none => simp [resume]
          | some kv =>
            obtain ⟨hk, hv⟩ := kv
            simp only []
            by_cases hK : (hk == ascii "Content-Length") = true
            · simp only [hK, if_true]
              cases contentLength cfg hv with
              | threw => simp [resume]
              | bad => simp [resume]
              | ok n => simpa using step _ _
            · simp only [hK]
              simpa using step _ _

/-! ### parse: totality -/

/-- `parse` returned normally and what it left is a suffix of what it was given -/
def PResult.Good (res : PResult) (s : Bytes) : Prop :=
  ∃ ps rest, res = .ok ps rest ∧ rest <:+ s

theorem PResult.Good.trans {res : PResult} {a s : Bytes} (h : res.Good a) (ha : a <:+ s) : res.Good s := by
  obtain ⟨ps, rest, h1, h2⟩ := h
  exact ⟨ps, rest, h1, h2.trans ha⟩

theorem bodyStage_good (req : Req) (clen : Option Nat) (s : Bytes) : (bodyStage req clen s).Good s := by
  unfold bodyStage
  split
  · split
    · exact ⟨_, _, rfl, List.drop_suffix _ _⟩
    · exact ⟨_, _, rfl, List.suffix_refl _⟩
  · exact ⟨_, _, rfl, List.nil_suffix⟩

theorem headersStage_good (req : Req) (clen : Option Nat) (s : Bytes) :
    (headersStage Cfg.fixed req clen s).Good s := by
  unfold headersStage
  have h1 := headersLoop_sfx Cfg.fixed (s.length + 1) req clen s
  have h2 := headersLoop_fine (s.length + 1) req clen s (by omega)
  cases h : headersLoop Cfg.fixed (s.length + 1) req clen s with
  | more r c rest => rw [h] at h1; exact ⟨_, _, rfl, h1⟩
  | done r c rest => rw [h] at h1; exact (bodyStage_good _ _ _).trans h1
  | fail r c rest => rw [h] at h1; exact ⟨_, _, rfl, h1⟩
  | threw => rw [h] at h2; exact h2.elim
  | hang => rw [h] at h2; exact h2.elim

theorem parse_good (ps : PState) (s : Bytes) : (parse Cfg.fixed ps s).Good s := by
  unfold parse
  split
  · simp only [Cfg.fixed, Bool.not_true, Bool.false_and, Bool.false_eq_true, if_false]
    split
    · exact ⟨_, _, rfl, List.suffix_refl _⟩
    · rename_i line after heq
      split
      · exact ⟨_, _, rfl, List.suffix_refl _⟩
      · exact (headersStage_good _ _ _).trans (splitCRLF_suffix heq)
  · exact headersStage_good _ _ _
  · exact bodyStage_good _ _ _
  · exact ⟨_, _, rfl, List.suffix_refl _⟩
  · exact ⟨_, _, rfl, List.suffix_refl _⟩

/-! ### parse: what a longer buffer does -/

/-- `res` = outcome on `s`, `res'` = outcome on `s ++ e` -/
def Ext (cfg : Cfg) (e : Bytes) (res res' : PResult) : Prop :=
  match res with
  | .ok ps1 rest =>
    match ps1.st with
    | .all =>
      if ps1.clen.isSome then res' = .ok ps1 (rest ++ e)
      else ∃ ps2 r2, res' = .ok ps2 r2 ∧ ps2.st = .all ∧ ps2.clen = none
    | .fail => res' = .ok ps1 (rest ++ e)
    | _ => res' = parse cfg ps1 (rest ++ e)
  | _ => True

theorem bodyStage_ext (cfg : Cfg) (req : Req) (clen : Option Nat) (s e : Bytes) :
    Ext cfg e (bodyStage req clen s) (bodyStage req clen (s ++ e)) := by
  cases clen with
  | none => simp [bodyStage, Ext]
  | some n =>
    by_cases hn : n ≤ s.length
    · have hn' : n ≤ (s ++ e).length := by simp; omega
      simp only [bodyStage, hn, hn', if_true, Ext, Option.isSome_some]
      rw [List.take_append_of_le_length hn, List.drop_append_of_le_length hn]
    · simp only [bodyStage, hn, if_false, Ext, parse]

theorem headersStage_ext (cfg : Cfg) (req : Req) (clen : Option Nat) (s e : Bytes) :
    Ext cfg e (headersStage cfg req clen s) (headersStage cfg req clen (s ++ e)) := by
  have happ := headersLoop_append cfg (s.length + 1) ((s ++ e).length + 1) req clen s e (by omega) (by omega)
  have hsfx := headersLoop_sfx cfg (s.length + 1) req clen s
  unfold headersStage
  rw [happ]
  cases h : headersLoop cfg (s.length + 1) req clen s with
  | more r c rest =>
    rw [h] at hsfx
    simp only [HResult.Sfx] at hsfx
    have hle := hsfx.length_le
    simp only [resume, Ext, parse, headersStage]
    rw [headersLoop_fuel cfg ((s ++ e).length + 1) ((rest ++ e).length + 1) r c (rest ++ e)
      (by simp; omega) (by omega)]
  | done r c rest => simpa [resume] using bodyStage_ext cfg r c rest e
  | fail r c rest => simp [resume, Ext]
  | threw => simp [Ext]
  | hang => simp [Ext]

theorem parse_init_eq (cfg : Cfg) (ps : PState) (h : ps.st = .init) (x : Bytes) :
    parse cfg ps x = parse cfg PState.init x := by
  simp [parse, h, PState.init]

theorem parse_ext (ps : PState) (s e : Bytes) :
    Ext Cfg.fixed e (parse Cfg.fixed ps s) (parse Cfg.fixed ps (s ++ e)) := by
  cases hst : ps.st with
  | init =>
    rw [parse_init_eq _ ps hst s, parse_init_eq _ ps hst (s ++ e)]
    cases heq : splitCRLF s with
    | none =>
      simp only [parse, PState.init, Cfg.fixed, Bool.not_true, Bool.false_and, Bool.false_eq_true, if_false, heq, Ext]
    | some p =>
      obtain ⟨line, after⟩ := p
      simp only [parse, PState.init, Cfg.fixed, Bool.not_true, Bool.false_and, Bool.false_eq_true, if_false, heq,
        splitCRLF_append e heq]
      cases parseStartLine line with
      | none => simp [Ext]
      | some t =>
        obtain ⟨m, u, v⟩ := t
        exact headersStage_ext _ _ _ _ _
  | startLine => simpa [parse, hst] using headersStage_ext Cfg.fixed ps.req ps.clen s e
  | heads => simpa [parse, hst] using bodyStage_ext Cfg.fixed ps.req ps.clen s e
  | all =>
    simp only [parse, hst, Ext]
    split
    · trivial
    · rename_i hc
      exact ⟨ps, _, rfl, hst, by simpa using hc⟩
  | fail => simp only [parse, hst, Ext]
