/- C12 helper lemmas, feed-loop level: termination (fuel), status, resumability. -/
import TboxModel.C12.Proofs
namespace Tbox.C12

/-- number of loop iterations that can still happen: one per remaining byte, plus one if the
loop is entered in the middle of a request -/
def Conn.mu (c : Conn) : Nat := c.buf.length + (if c.ps.st = .init then 0 else 1)

theorem parse_init_consumes {ps ps1 : PState} {s rest : Bytes} (hi : ps.st = .init)
    (hp : parse Cfg.fixed ps s = .ok ps1 rest) (ha : ps1.st = .all) : rest.length < s.length := by
  rw [parse_init_eq _ ps hi] at hp
  simp only [parse, PState.init, fixed_crlfFirst, Bool.not_true, Bool.false_and, Bool.false_eq_true, if_false] at hp
  cases heq : splitCRLF s with
  | none =>
    rw [heq] at hp
    simp at hp
    rw [← hp.1] at ha
    simp at ha
  | some p =>
    obtain ⟨line, after⟩ := p
    rw [heq] at hp
    simp only at hp
    have hl := splitCRLF_length heq
    cases hsl : startLineLit s (after.length + 2) with
    | none =>
      rw [hsl] at hp
      simp at hp
      rw [← hp.1] at ha
      simp at ha
    | some t =>
      obtain ⟨m, u, v⟩ := t
      rw [hsl] at hp
      simp only at hp
      obtain ⟨ps', rest', h1, h2⟩ := headersStage_good { method := m, url := u, ver := v } none after
      rw [hp] at h1
      cases h1
      have := h2.length_le
      omega

/-- after an iteration that completed a request, the remaining work fits the remaining fuel -/
theorem step_measure {c : Conn} {ps1 : PState} {rest : Bytes} {f : Nat}
    (hp : parse Cfg.fixed c.ps c.buf = .ok ps1 rest) (ha : ps1.st = .all) (hf : c.mu < f + 1) :
    rest.length < f := by
  obtain ⟨ps', rest', h1, h2⟩ := parse_good c.ps c.buf
  rw [hp] at h1
  cases h1
  have hle := h2.length_le
  unfold Conn.mu at hf
  by_cases hi : c.ps.st = .init
  · have := parse_init_consumes hi hp ha
    simp [hi] at hf
    omega
  · simp [hi] at hf
    omega

theorem mu_init (c : Conn) (b : Bytes) (cl : Bool) :
    Conn.mu { c with ps := PState.init, buf := b, closed := cl } = b.length := by
  simp [Conn.mu, PState.init]

variable (markP : Req → Bool)

theorem feedLoop_fuel (f1 f2 : Nat) (c : Conn) (h1 : c.mu < f1) (h2 : c.mu < f2) :
    feedLoop Cfg.fixed markP f1 c = feedLoop Cfg.fixed markP f2 c := by
  induction f1 generalizing f2 c with
  | zero => omega
  | succ k ih =>
    cases f2 with
    | zero => omega
    | succ j =>
      by_cases hb : c.buf.isEmpty = true
      · simp [feedLoop, hb]
      · obtain ⟨ps1, rest, hp, hs⟩ := parse_good c.ps c.buf
        simp only [feedLoop, hb, hp]
        cases hst : ps1.st with
        | all =>
          simp only [fixed_stop, Bool.and_true]
          by_cases hl : markP ps1.req = true
          · simp [hl]
          · simp only [hl]
            have m1 := step_measure hp hst h1
            have m2 := step_measure hp hst h2
            rw [ih j _ (by rw [mu_init]; exact m1) (by rw [mu_init]; exact m2)]
        | _ => rfl

theorem feedLoop_status (f : Nat) (c : Conn) (h : c.mu < f) :
    (feedLoop Cfg.fixed markP f c).status = .ok := by
  induction f generalizing c with
  | zero => omega
  | succ k ih =>
    by_cases hb : c.buf.isEmpty = true
    · simp [feedLoop, hb]
    · obtain ⟨ps1, rest, hp, hs⟩ := parse_good c.ps c.buf
      simp only [feedLoop, hb, hp]
      cases hst : ps1.st with
      | all =>
        simp only [fixed_stop, Bool.and_true]
        by_cases hl : markP ps1.req = true
        · simp [hl]
        · simp only [hl]
          exact ih _ (by rw [mu_init]; exact step_measure hp hst h)
      | _ => rfl

/-- two loop entries whose first `parse` call gives the same result go on identically
(up to the model-internal `parsed` events) -/
theorem feedLoop_congr (f1 f2 : Nat) (c1 c2 : Conn) (hb1 : c1.buf.isEmpty = false) (hb2 : c2.buf.isEmpty = false)
    (hp : parse Cfg.fixed c1.ps c1.buf = parse Cfg.fixed c2.ps c2.buf)
    (hd : c1.dead = c2.dead) (hc : c1.closed = c2.closed) (h1 : c1.mu < f1) (h2 : c2.mu < f2) :
    (feedLoop Cfg.fixed markP f1 c1).conn = (feedLoop Cfg.fixed markP f2 c2).conn ∧
    reqsOf (feedLoop Cfg.fixed markP f1 c1).evs = reqsOf (feedLoop Cfg.fixed markP f2 c2).evs := by
  cases f1 with
  | zero => omega
  | succ k =>
    cases f2 with
    | zero => omega
    | succ j =>
      obtain ⟨ps1, rest, hp1, _⟩ := parse_good c1.ps c1.buf
      have hp2 : parse Cfg.fixed c2.ps c2.buf = .ok ps1 rest := by rw [← hp]; exact hp1
      have m1 : ps1.st = .all → rest.length < k := fun ha => step_measure hp1 ha h1
      have m2 : ps1.st = .all → rest.length < j := fun ha => step_measure hp2 ha h2
      obtain ⟨p1, b1, d1, cl1⟩ := c1
      obtain ⟨p2, b2, d2, cl2⟩ := c2
      simp only at hd hc hb1 hb2 hp1 hp2
      subst hd hc
      simp only [feedLoop, hb1, hb2, hp1, hp2]
      cases hst : ps1.st with
      | all =>
        simp only [fixed_stop, Bool.and_true]
        by_cases hl : markP ps1.req = true
        · simp [hl, reqsOf]
        · simp only [hl]
          rw [feedLoop_fuel markP k j _ (by simpa [Conn.mu, PState.init] using m1 hst) (by simpa [Conn.mu, PState.init] using m2 hst)]
          simp [reqsOf]
      | init => simp [reqsOf]
      | startLine => simp [reqsOf]
      | heads => simp [reqsOf]
      | fail => simp [reqsOf]

theorem reqsOf_cons_parsed (n : Nat) (st : St) (evs : List Ev) : reqsOf (.parsed n st :: evs) = reqsOf evs := by
  simp [reqsOf]

theorem reqsOf_cons_req (r : Req) (l d : Bool) (evs : List Ev) : reqsOf (.req r l d :: evs) = (r, l, d) :: reqsOf evs := by
  simp [reqsOf]

/-- the case "the first run stopped in the middle of a request" of `feed_resume` -/
theorem feed_resume_more (k : Nat) (cps : PState) (cbuf e : Bytes) (ps1 : PState) (rest : Bytes)
    (hn : Conn.mu ⟨cps, cbuf, false, false⟩ < k + 1) (hb : ¬ cbuf.isEmpty = true)
    (hp : parse Cfg.fixed cps cbuf = .ok ps1 rest) (hna : ps1.st ≠ .all) (hnf : ps1.st ≠ .fail)
    (hext : parse Cfg.fixed cps (cbuf ++ e) = parse Cfg.fixed ps1 (rest ++ e)) :
    reqsOf (feedLoop Cfg.fixed markP (k + 1) ⟨cps, cbuf, false, false⟩).evs ++
        reqsOf (recv Cfg.fixed markP (feedLoop Cfg.fixed markP (k + 1) ⟨cps, cbuf, false, false⟩).conn e).evs
      = reqsOf (feedLoop Cfg.fixed markP (k + e.length + 1) ⟨cps, cbuf ++ e, false, false⟩).evs ∧
    (recv Cfg.fixed markP (feedLoop Cfg.fixed markP (k + 1) ⟨cps, cbuf, false, false⟩).conn e).conn
      = (feedLoop Cfg.fixed markP (k + e.length + 1) ⟨cps, cbuf ++ e, false, false⟩).conn := by
  have ha : feedLoop Cfg.fixed markP (k + 1) ⟨cps, cbuf, false, false⟩
      = ⟨⟨ps1, rest, false, false⟩, [Ev.parsed (cbuf.length - rest.length) ps1.st], .ok⟩ := by
    simp only [feedLoop, hb, hp]
    cases hst : ps1.st <;> simp_all
  rw [ha]
  simp only [recv, Bool.false_eq_true, if_false, reqsOf_cons_parsed]
  by_cases hre : (rest ++ e).isEmpty = true
  · have hre' : rest ++ e = [] := by simpa using hre
    have he : e = [] := (List.append_eq_nil_iff.mp hre').2
    have hr : rest = [] := (List.append_eq_nil_iff.mp hre').1
    subst he hr
    simp only [List.append_nil, List.length_nil, Nat.add_zero, ha]
    simp [feedLoop, reqsOf]
  · have hbE : (cbuf ++ e).isEmpty = false := by
      cases cbuf with
      | nil => simp at hb
      | cons x xs => simp
    have hsfx : rest.length ≤ cbuf.length := by
      obtain ⟨_, _, h1, h2⟩ := parse_good cps cbuf
      rw [hp] at h1; cases h1; exact h2.length_le
    have := feedLoop_congr markP (rest.length + e.length + 2) (k + e.length + 1)
      ⟨ps1, rest ++ e, false, false⟩ ⟨cps, cbuf ++ e, false, false⟩ (by simpa using hre) hbE hext.symm rfl rfl
      (by simp [Conn.mu]; split <;> omega)
      (by simp [Conn.mu] at hn ⊢; omega)
    simp only [reqsOf, List.filterMap_nil, List.nil_append] at this ⊢
    exact ⟨this.2, this.1⟩

/-- Core of resumability: running the loop on `buf`, then receiving `e`, is the same as running
the loop on `buf ++ e` — provided the long run completes no request by the "no
Content-Length: everything that is there is the body" rule. -/
theorem feed_resume (n : Nat) (c : Conn) (e : Bytes) (hn : c.mu < n) (hd : c.dead = false) (hc : c.closed = false)
    (hdecl : allDeclared (feedLoop Cfg.fixed markP (n + e.length) { c with buf := c.buf ++ e }).evs = true) :
    reqsOf (feedLoop Cfg.fixed markP n c).evs ++ reqsOf (recv Cfg.fixed markP (feedLoop Cfg.fixed markP n c).conn e).evs
      = reqsOf (feedLoop Cfg.fixed markP (n + e.length) { c with buf := c.buf ++ e }).evs ∧
    (recv Cfg.fixed markP (feedLoop Cfg.fixed markP n c).conn e).conn
      = (feedLoop Cfg.fixed markP (n + e.length) { c with buf := c.buf ++ e }).conn := by
  induction n generalizing c with
  | zero => omega
  | succ k ih =>
    obtain ⟨cps, cbuf, cdead, cclosed⟩ := c
    simp only at hd hc
    subst hd hc
    by_cases hb : cbuf.isEmpty = true
    · -- nothing buffered: the first run does nothing
      have hb' : cbuf = [] := by simpa using hb
      subst hb'
      simp only [feedLoop, List.isEmpty_nil, if_true, reqsOf, List.filterMap_nil, List.nil_append]
      simp only [recv, Bool.false_eq_true, if_false]
      rw [feedLoop_fuel markP ([].length + e.length + 2) (k + 1 + e.length) _
        (by simp [Conn.mu]; split <;> omega)
        (by simp [Conn.mu] at hn ⊢; omega)]
      exact ⟨rfl, rfl⟩
    · obtain ⟨ps1, rest, hp, hs⟩ := parse_good cps cbuf
      have hext := parse_ext cps cbuf e
      rw [hp] at hext
      have hbE : (cbuf ++ e).isEmpty = false := by
        cases cbuf with
        | nil => simp at hb
        | cons x xs => simp
      have hfu : k + 1 + e.length = (k + e.length) + 1 := by omega
      rw [hfu] at hdecl ⊢
      cases hst : ps1.st with
      | all =>
        by_cases hdc : ps1.clen.isSome = true
        · -- a request with a declared length: the longer buffer completes the very same request
          simp only [Ext, hst, hdc, if_true] at hext
          simp only [feedLoop, hb, hbE, hp, hext, hst, fixed_stop, Bool.and_true] at hdecl ⊢
          by_cases hl : markP ps1.req = true
          · simp only [hl, if_true, recv, Bool.false_eq_true, if_false]
            simp [reqsOf]
          · simp only [hl, Bool.or_false] at hdecl ⊢
            have hm := step_measure hp hst hn
            have hdecl' : allDeclared (feedLoop Cfg.fixed markP (k + e.length)
                { ps := PState.init, buf := rest ++ e, dead := false, closed := false : Conn }).evs = true := by
              simp only [allDeclared] at hdecl
              simp only [allDeclared]
              simpa [hdc] using hdecl
            have := ih { ps := PState.init, buf := rest, dead := false, closed := false }
              (by simpa [Conn.mu, PState.init] using hm) rfl rfl hdecl'
            simp only [Bool.false_eq_true, if_false, reqsOf_cons_parsed, reqsOf_cons_req, List.cons_append]
            exact ⟨by rw [this.1], this.2⟩
        · -- completed by the no-Content-Length rule: the long run does so as well → excluded
          simp only [Ext, hst, hdc] at hext
          obtain ⟨ps2, r2, hp2, hst2, hcl2⟩ := hext
          simp only [feedLoop, hbE, hp2, hst2, hcl2, fixed_stop, Bool.and_true] at hdecl
          by_cases hl : markP ps2.req = true
          · simp [hl, allDeclared] at hdecl
          · simp [hl, allDeclared] at hdecl
      | fail =>
        simp only [Ext, hst] at hext
        simp only [feedLoop, hb, hbE, hp, hext, hst, recv]
        simp [reqsOf]
      | init =>
        simp only [Ext, hst] at hext
        exact feed_resume_more markP k cps cbuf e ps1 rest hn hb hp (by simp [hst]) (by simp [hst]) hext
      | startLine =>
        simp only [Ext, hst] at hext
        exact feed_resume_more markP k cps cbuf e ps1 rest hn hb hp (by simp [hst]) (by simp [hst]) hext
      | heads =>
        simp only [Ext, hst] at hext
        exact feed_resume_more markP k cps cbuf e ps1 rest hn hb hp (by simp [hst]) (by simp [hst]) hext
