/- C12 helper lemmas: several connections — the cabinet invariant, "a token resolves to its own connection or to nothing". -/
import TboxModel.C12.Multi
import TboxModel.C12.ProofsServer
namespace Tbox.C12
open Pipe

/-! ### a connection that is gone stays gone -/

theorem emit_dead (s : Server) (ops : List PipeOp) (h : s.pipe.valid = false) : (s.emit ops).pipe.valid = false := by
  simp only [Server.emit]; exact (run_invalid s.pipe ops h).1

theorem commitW_dead (s : Server) (i : Nat) (r : Bytes) (h : s.pipe.valid = false) : (s.commitW i r).pipe.valid = false := by
  simp only [Server.commitW]; exact emit_dead s _ h

theorem quiesce_dead (s : Server) (h : s.pipe.valid = false) : s.quiesce.pipe.valid = false := by
  simp only [Server.quiesce]
  split
  · exact emit_dead _ _ (by simpa using emit_dead s _ h)
  · simpa using emit_dead s _ h

theorem sstop_dead (s : Server) : s.sstop.pipe.valid = false := by
  simp only [Server.sstop, Server.emit, Pipe.run, List.foldl_cons, List.foldl_nil, Pipe.step, Pipe.peerClosed]
  cases h : s.pipe.valid <;> simp [h, Pipe.disconnect]

theorem step_dead (s : Server) (op : SrvOp) (h : s.pipe.valid = false) : (s.step op).pipe.valid = false := by
  cases op with
  | script i sc => simp only [Server.step]; split <;> exact h
  | seg bytes =>
    simp only [Server.step]; split
    · exact h
    · simp [Server.seg, h]
  | done i r =>
    simp only [Server.step]; split
    · exact h
    · simp only [Server.done]; split
      · simp only [Option.getD_some]
        apply quiesce_dead
        simpa using commitW_dead s i r.render h
      · simpa using h
  | cclose pre cf =>
    simp only [Server.step]; split
    · exact h
    · simp only [Server.cclose]; split
      · simpa using h
      · split
        · simp only [Option.getD_some]; simpa using emit_dead s _ h
        · split
          · simp only [Option.getD_some]
            have h0 : (if cf = true then s.emit [.writeError] else s).pipe.valid = false := by
              split
              · exact emit_dead s _ h
              · exact h
            simpa using emit_dead _ [.drop] (commitW_dead _ _ _ h0)
          · simpa using h
  | chalf =>
    simp only [Server.step]; split
    · exact h
    · simp only [Server.chalf]; split
      · simpa using h
      · simp only [Option.getD_some]; simpa using emit_dead s _ h
  | wfail => simp only [Server.step]; split; exact h; exact emit_dead s _ h
  | sstop => simp only [Server.step]; split; exact h; exact sstop_dead s
  | rerr => simp only [Server.step]; split; exact h; exact sstop_dead s
  | wq q => simp only [Server.step]; split <;> simpa [Server.setWq] using h

/-! ### the cabinet -/

theorem Cab.lookup_eq_some {c : Cab} {t : Tok} {d : Nat} :
    c.lookup t = some d ↔ c.cells[t.pos]? = some (some (t.id, d)) := by
  unfold Cab.lookup
  constructor
  · intro h
    split at h
    · rename_i id cl heq
      split at h
      · rename_i hid
        simp only [Option.some.injEq] at h
        subst hid; subst h; exact heq
      · exact absurd h (by simp)
    · exact absurd h (by simp)
  · intro h
    simp [h]

structure MInv (m : MServer) : Prop where
  sinv : ∀ (c : Nat) (cl : Client), m.clients[c]? = some cl → SInv cl.srv
  cell : ∀ (p id c : Nat), m.cab.cells[p]? = some (some (id, c)) →
    ∃ cl : Client, m.clients[c]? = some cl ∧ cl.tok = ⟨id, p⟩ ∧ cl.srv.pipe.valid = true
  live : ∀ (c : Nat) (cl : Client), m.clients[c]? = some cl → cl.srv.pipe.valid = true → m.cab.cells[cl.tok.pos]? = some (some (cl.tok.id, c))
  ids : ∀ (c : Nat) (cl : Client), m.clients[c]? = some cl → cl.tok.id ≤ m.cab.lastId
  uniq : ∀ (c d : Nat) (cl dl : Client), m.clients[c]? = some cl → m.clients[d]? = some dl → cl.tok.id = dl.tok.id → c = d
  freeNodup : m.cab.free.Nodup
  freeNone : ∀ p ∈ m.cab.free, m.cab.cells[p]? = some none
  noReset : m.resetIds = false

theorem minv_init : MInv {} :=
  ⟨by intro c cl h; simp at h, by intro p id c h; simp at h, by intro c cl h; simp at h, by intro c cl h; simp at h,
   by intro c d cl dl h; simp at h, by simp, by simp, rfl⟩

/-- THE TOKEN THEOREM: in every state satisfying the invariant, the token a Context of connection `c` holds resolves to
connection `c` itself — exactly as long as `c` is alive — and to nothing afterwards, whoever occupies its cell now -/
theorem target_own {m : MServer} (h : MInv m) {c : Nat} {cl : Client} (hc : m.clients[c]? = some cl) :
    m.target c = if cl.srv.pipe.valid then some c else none := by
  simp only [MServer.target, hc, Option.bind_some]
  split
  · rename_i hv
    exact Cab.lookup_eq_some.mpr (h.live c cl hc hv)
  · rename_i hv
    cases hl : m.cab.lookup cl.tok with
    | none => rfl
    | some d =>
      exfalso
      obtain ⟨dl, hd, htok, hval⟩ := h.cell _ _ _ (Cab.lookup_eq_some.mp hl)
      have : c = d := h.uniq c d cl dl hc hd (by rw [htok])
      subst this
      rw [hc] at hd; cases hd
      exact hv hval

theorem setSrv_clients {m : MServer} {c : Nat} {cl : Client} (hc : m.clients[c]? = some cl) (s' : Server) (d : Nat) :
    (m.setSrv c s').clients[d]? = if c = d then some { cl with srv := s' } else m.clients[d]? := by
  have hlt : c < m.clients.length := by
    rcases Nat.lt_or_ge c m.clients.length with h | h
    · exact h
    · rw [List.getElem?_eq_none_iff.mpr h] at hc; cases hc
  simp only [MServer.setSrv, hc, List.getElem?_set, hlt, if_true]

/-- the record of connection `c` is replaced (token kept, a dead connection stays dead) and the cabinet cell is released if
the connection is gone now: the invariant is kept -/
theorem setSrv_sync_inv {m : MServer} (h : MInv m) {c : Nat} {cl : Client} (hc : m.clients[c]? = some cl) (s' : Server) (w : List WAns)
    (hs : SInv s') (hv : cl.srv.pipe.valid = false → s'.pipe.valid = false) :
    MInv (({ m.setSrv c s' with wq := w } : MServer).sync c) := by
  have hcl : ∀ d, ({ m.setSrv c s' with wq := w } : MServer).clients[d]? = if c = d then some { cl with srv := s' } else m.clients[d]? :=
    fun d => setSrv_clients hc s' d
  have hcab : ({ m.setSrv c s' with wq := w } : MServer).cab = m.cab := by
    simp only [MServer.setSrv, hc]
  have hres : ({ m.setSrv c s' with wq := w } : MServer).resetIds = m.resetIds := by
    simp only [MServer.setSrv, hc]
  have hcc := hcl c
  simp only [if_true] at hcc
  unfold MServer.sync
  rw [hcc]
  dsimp only
  by_cases hval : s'.pipe.valid = true
  · -- still alive: the cabinet is untouched
    rw [if_pos hval]
    have hold : cl.srv.pipe.valid = true := by
      cases hh : cl.srv.pipe.valid with
      | true => rfl
      | false => rw [hv hh] at hval; cases hval
    refine ⟨?_, ?_, ?_, ?_, ?_, by rw [hcab]; exact h.freeNodup, by rw [hcab]; exact h.freeNone, by rw [hres]; exact h.noReset⟩
    · intro d dl hd; rw [hcl] at hd; split at hd
      · cases hd; exact hs
      · exact h.sinv d dl hd
    · intro p id d hp; rw [hcab] at hp
      obtain ⟨dl, hd, ht, hvd⟩ := h.cell p id d hp
      by_cases hcd : c = d
      · subst hcd; rw [hc] at hd; cases hd
        exact ⟨{ cl with srv := s' }, by rw [hcl]; simp, ht, hval⟩
      · exact ⟨dl, by rw [hcl]; simp [hcd, hd], ht, hvd⟩
    · intro d dl hd hvd; rw [hcl] at hd; rw [hcab]; split at hd
      · rename_i hcd; subst hcd; cases hd; exact h.live c cl hc hold
      · exact h.live d dl hd hvd
    · intro d dl hd; rw [hcl] at hd; rw [hcab]; split at hd
      · rename_i hcd; subst hcd; cases hd; exact h.ids c cl hc
      · exact h.ids d dl hd
    · intro d e dl el hd he hid; rw [hcl] at hd he
      split at hd <;> split at he
      · rename_i h1 h2; exact h1.symm.trans h2
      · rename_i h1 h2; subst h1; cases hd; exact h.uniq c e cl el hc he hid
      · rename_i h1 h2; subst h2; cases he; exact h.uniq d c dl cl hd hc hid
      · exact h.uniq d e dl el hd he hid
  · -- gone: release the cell (if it is still this connection's)
    have hval' : s'.pipe.valid = false := by cases hh : s'.pipe.valid <;> simp_all
    rw [if_neg hval]
    have hcl' : ∀ d, ({ ({ m.setSrv c s' with wq := w } : MServer) with cab := m.cab.release cl.tok } : MServer).clients[d]? =
        if c = d then some { cl with srv := s' } else m.clients[d]? := hcl
    rw [hcab]
    cases hl : m.cab.lookup cl.tok with
    | none =>
      have hrel : m.cab.release cl.tok = m.cab := by simp [Cab.release, hl]
      rw [hrel]
      refine ⟨?_, ?_, ?_, ?_, ?_, h.freeNodup, h.freeNone, by show ({ m.setSrv c s' with wq := w } : MServer).resetIds = false; rw [hres]; exact h.noReset⟩
      · intro d dl hd; rw [hcl'] at hd; split at hd
        · cases hd; exact hs
        · exact h.sinv d dl hd
      · intro p id d hp
        obtain ⟨dl, hd, ht, hvd⟩ := h.cell p id d hp
        by_cases hcd : c = d
        · subst hcd; rw [hc] at hd; cases hd
          have : m.cab.lookup cl.tok = some c := Cab.lookup_eq_some.mpr (by rw [ht]; exact hp)
          rw [hl] at this; cases this
        · exact ⟨dl, by rw [hcl']; simp [hcd, hd], ht, hvd⟩
      · intro d dl hd hvd; rw [hcl'] at hd; split at hd
        · cases hd; rw [hval'] at hvd; cases hvd
        · exact h.live d dl hd hvd
      · intro d dl hd; rw [hcl'] at hd; split at hd
        · rename_i hcd; subst hcd; cases hd; exact h.ids c cl hc
        · exact h.ids d dl hd
      · intro d e dl el hd he hid; rw [hcl'] at hd he
        split at hd <;> split at he
        · rename_i h1 h2; exact h1.symm.trans h2
        · rename_i h1 h2; subst h1; cases hd; exact h.uniq c e cl el hc he hid
        · rename_i h1 h2; subst h2; cases he; exact h.uniq d c dl cl hd hc hid
        · exact h.uniq d e dl el hd he hid
    | some d0 =>
      have hcell0 := Cab.lookup_eq_some.mp hl
      have hrel : m.cab.release cl.tok = { m.cab with cells := m.cab.cells.set cl.tok.pos none, free := cl.tok.pos :: m.cab.free } := by
        simp [Cab.release, hl]
      rw [hrel]
      have hd0 : d0 = c := by
        obtain ⟨dl, hd, ht, _⟩ := h.cell _ _ _ hcell0
        exact (h.uniq c d0 cl dl hc hd (by rw [ht])).symm
      subst hd0
      have hposlt : cl.tok.pos < m.cab.cells.length := by
        rcases Nat.lt_or_ge cl.tok.pos m.cab.cells.length with hh | hh
        · exact hh
        · rw [List.getElem?_eq_none_iff.mpr hh] at hcell0; cases hcell0
      have hcells : ∀ p, (m.cab.cells.set cl.tok.pos none)[p]? = if cl.tok.pos = p then some none else m.cab.cells[p]? := by
        intro p; simp only [List.getElem?_set, hposlt, if_true]
      refine ⟨?_, ?_, ?_, ?_, ?_, ?_, ?_, by show ({ m.setSrv d0 s' with wq := w } : MServer).resetIds = false; rw [hres]; exact h.noReset⟩
      · intro d dl hd; rw [hcl'] at hd; split at hd
        · cases hd; exact hs
        · exact h.sinv d dl hd
      · intro p id d hp
        change (m.cab.cells.set cl.tok.pos none)[p]? = _ at hp
        rw [hcells] at hp
        split at hp
        · cases hp
        · rename_i hne
          obtain ⟨dl, hd, ht, hvd⟩ := h.cell p id d hp
          by_cases hcd : d0 = d
          · subst hcd; rw [hc] at hd; cases hd
            rw [ht] at hne; exact absurd rfl hne
          · exact ⟨dl, by rw [hcl']; simp [hcd, hd], ht, hvd⟩
      · intro d dl hd hvd; rw [hcl'] at hd
        change (m.cab.cells.set cl.tok.pos none)[dl.tok.pos]? = _
        split at hd
        · cases hd; rw [hval'] at hvd; cases hvd
        · rename_i hne
          have hlv := h.live d dl hd hvd
          rw [hcells]
          split
          · rename_i hp
            rw [← hp, hcell0] at hlv
            simp only [Option.some.injEq, Prod.mk.injEq] at hlv
            exact absurd hlv.2 hne
          · exact hlv
      · intro d dl hd; rw [hcl'] at hd; split at hd
        · rename_i hcd; subst hcd; cases hd; exact h.ids d0 cl hc
        · exact h.ids d dl hd
      · intro d e dl el hd he hid; rw [hcl'] at hd he
        split at hd <;> split at he
        · rename_i h1 h2; exact h1.symm.trans h2
        · rename_i h1 h2; subst h1; cases hd; exact h.uniq d0 e cl el hc he hid
        · rename_i h1 h2; subst h2; cases he; exact h.uniq d d0 dl cl hd hc hid
        · exact h.uniq d e dl el hd he hid
      · show (cl.tok.pos :: m.cab.free).Nodup
        refine List.nodup_cons.mpr ⟨?_, h.freeNodup⟩
        intro hmem
        have := h.freeNone _ hmem
        rw [hcell0] at this; cases this
      · intro p hp
        change (m.cab.cells.set cl.tok.pos none)[p]? = _
        rw [hcells]
        split
        · rfl
        · rename_i hne
          rcases List.mem_cons.mp hp with rfl | hp'
          · exact absurd rfl hne
          · exact h.freeNone p hp'

theorem sinv_wq {s : Server} (h : SInv s) (q : List WAns) : SInv { s with wq := q } :=
  sinv_update h rfl rfl (fun _ hj => hj) (fun hc => h.closed hc)

theorem withWq_sync_inv {m : MServer} (h : MInv m) {c : Nat} {cl : Client} (hc : m.clients[c]? = some cl) (f : Server → Server)
    (hf : ∀ s, SInv s → SInv (f s)) (hd : ∀ s, s.pipe.valid = false → (f s).pipe.valid = false) :
    MInv ((m.withWq c f).sync c) := by
  unfold MServer.withWq
  rw [hc]
  dsimp only
  split
  · rename_i hv
    exact setSrv_sync_inv h hc _ _ (sinv_wq (hf _ (sinv_wq (h.sinv c cl hc) _)) _) (fun hh => by rw [hh] at hv; cases hv)
  · have hw : ({ m.setSrv c (f cl.srv) with wq := m.wq } : MServer) = m.setSrv c (f cl.srv) := by
      simp only [MServer.setSrv, hc]
    have := setSrv_sync_inv h hc (f cl.srv) m.wq (hf _ (h.sinv c cl hc)) (fun hh => hd _ hh)
    rw [hw] at this; exact this

theorem stopAll_inv {m : MServer} (h : MInv m) (cleanup : Bool) : MInv (m.stopAll cleanup) := by
  have hcl : ∀ d : Nat, (m.stopAll cleanup).clients[d]? = (m.clients[d]?).map (fun (cl : Client) => { cl with srv := cl.srv.sstop }) := by
    intro d; simp [MServer.stopAll]
  have hcab : (m.stopAll cleanup).cab = Cab.mk [] [] m.cab.lastId := by
    simp [MServer.stopAll, Cab.clear, h.noReset]
  refine ⟨?_, ?_, ?_, ?_, ?_, by rw [hcab]; simp, by rw [hcab]; simp, h.noReset⟩
  · intro d dl hd; rw [hcl] at hd
    cases ho : m.clients[d]? with
    | none => rw [ho] at hd; cases hd
    | some ol => rw [ho] at hd; cases hd; exact sstop_sinv _ (h.sinv d ol ho)
  · intro p id d hp; rw [hcab] at hp; simp at hp
  · intro d dl hd hv; rw [hcl] at hd
    cases ho : m.clients[d]? with
    | none => rw [ho] at hd; cases hd
    | some ol => rw [ho] at hd; cases hd; rw [sstop_dead] at hv; cases hv
  · intro d dl hd; rw [hcl] at hd; rw [hcab]
    cases ho : m.clients[d]? with
    | none => rw [ho] at hd; cases hd
    | some ol => rw [ho] at hd; cases hd; exact h.ids d ol ho
  · intro d e dl el hd he hid; rw [hcl] at hd he
    cases ho : m.clients[d]? with
    | none => rw [ho] at hd; cases hd
    | some ol =>
      cases hp : m.clients[e]? with
      | none => rw [hp] at he; cases he
      | some pl => rw [ho] at hd; rw [hp] at he; cases hd; cases he; exact h.uniq d e ol pl ho hp hid

theorem accept_inv {m : MServer} (h : MInv m) : MInv m.accept := by
  unfold MServer.accept
  · have hnew : SInv ({} : Server) := sinv_init
    cases hfree : m.cab.free with
    | nil =>
      simp only [Cab.alloc, hfree]
      have hcl : ∀ d, (m.clients ++ [(⟨⟨m.cab.lastId + 1, m.cab.cells.length⟩, {}⟩ : Client)])[d]? =
          if d < m.clients.length then m.clients[d]? else if d = m.clients.length then some ⟨⟨m.cab.lastId + 1, m.cab.cells.length⟩, {}⟩ else none := by
        intro d
        rw [List.getElem?_append]
        split
        · rfl
        · split
          · rename_i h2; subst h2; simp
          · rename_i h1 h2
            have : d - m.clients.length ≠ 0 := by omega
            simp [this]
      have hce : ∀ p, (m.cab.cells ++ [some (m.cab.lastId + 1, m.clients.length)])[p]? =
          if p < m.cab.cells.length then m.cab.cells[p]? else if p = m.cab.cells.length then some (some (m.cab.lastId + 1, m.clients.length)) else none := by
        intro p
        rw [List.getElem?_append]
        split
        · rfl
        · split
          · rename_i h2; subst h2; simp
          · rename_i h1 h2
            have : p - m.cab.cells.length ≠ 0 := by omega
            simp [this]
      have hlt : ∀ {d : Nat} {dl : Client}, m.clients[d]? = some dl → d < m.clients.length := by
        intro d dl hd
        rcases Nat.lt_or_ge d m.clients.length with hh | hh
        · exact hh
        · rw [List.getElem?_eq_none_iff.mpr hh] at hd; cases hd
      have hplt : ∀ {p : Nat} {x : Option (Nat × Nat)}, m.cab.cells[p]? = some x → p < m.cab.cells.length := by
        intro p x hp
        rcases Nat.lt_or_ge p m.cab.cells.length with hh | hh
        · exact hh
        · rw [List.getElem?_eq_none_iff.mpr hh] at hp; cases hp
      refine ⟨?_, ?_, ?_, ?_, ?_, by simp, by simp, h.noReset⟩
      · intro d dl hd; change (m.clients ++ _)[d]? = _ at hd; rw [hcl] at hd
        split at hd
        · exact h.sinv d dl hd
        · split at hd
          · cases hd; exact hnew
          · cases hd
      · intro p id d hp; change (m.cab.cells ++ _)[p]? = _ at hp; rw [hce] at hp
        split at hp
        · obtain ⟨dl, hd, ht, hv⟩ := h.cell p id d hp
          exact ⟨dl, by change (m.clients ++ _)[d]? = _; rw [hcl, if_pos (hlt hd)]; exact hd, ht, hv⟩
        · split at hp
          · rename_i h2; simp only [Option.some.injEq, Prod.mk.injEq] at hp
            obtain ⟨h3, h4⟩ := hp; subst h2; subst h3; subst h4
            exact ⟨⟨⟨m.cab.lastId + 1, m.cab.cells.length⟩, {}⟩, by change (m.clients ++ _)[_]? = _; rw [hcl]; simp, rfl, rfl⟩
          · cases hp
      · intro d dl hd hv; change (m.clients ++ _)[d]? = _ at hd; rw [hcl] at hd
        change (m.cab.cells ++ _)[dl.tok.pos]? = _
        rw [hce]
        split at hd
        · have := h.live d dl hd hv
          rw [if_pos (hplt this)]; exact this
        · split at hd
          · rename_i h2; cases hd; subst h2; simp
          · cases hd
      · intro d dl hd; change (m.clients ++ _)[d]? = _ at hd; rw [hcl] at hd
        change dl.tok.id ≤ m.cab.lastId + 1
        split at hd
        · have := h.ids d dl hd; omega
        · split at hd
          · cases hd; exact Nat.le_refl _
          · cases hd
      · intro d e dl el hd he hid
        change (m.clients ++ _)[d]? = _ at hd; change (m.clients ++ _)[e]? = _ at he
        rw [hcl] at hd he
        split at hd <;> split at he
        · exact h.uniq d e dl el hd he hid
        · split at he
          · cases he; have := h.ids d dl hd; simp only at hid; omega
          · cases he
        · split at hd
          · cases hd; have := h.ids e el he; simp only at hid; omega
          · cases hd
        · split at hd <;> split at he
          · rename_i h1 h2; exact h1.trans h2.symm
          · cases he
          · cases hd
          · cases hd
    | cons p rest =>
      simp only [Cab.alloc, hfree]
      have hpn : m.cab.cells[p]? = some none := h.freeNone p (by rw [hfree]; simp)
      have hplt : p < m.cab.cells.length := by
        rcases Nat.lt_or_ge p m.cab.cells.length with hh | hh
        · exact hh
        · rw [List.getElem?_eq_none_iff.mpr hh] at hpn; cases hpn
      have hcl : ∀ d, (m.clients ++ [(⟨⟨m.cab.lastId + 1, p⟩, {}⟩ : Client)])[d]? =
          if d < m.clients.length then m.clients[d]? else if d = m.clients.length then some ⟨⟨m.cab.lastId + 1, p⟩, {}⟩ else none := by
        intro d
        rw [List.getElem?_append]
        split
        · rfl
        · split
          · rename_i h2; subst h2; simp
          · rename_i h1 h2
            have : d - m.clients.length ≠ 0 := by omega
            simp [this]
      have hce : ∀ q, (m.cab.cells.set p (some (m.cab.lastId + 1, m.clients.length)))[q]? =
          if p = q then some (some (m.cab.lastId + 1, m.clients.length)) else m.cab.cells[q]? := by
        intro q; simp only [List.getElem?_set, hplt, if_true]
      have hlt : ∀ {d : Nat} {dl : Client}, m.clients[d]? = some dl → d < m.clients.length := by
        intro d dl hd
        rcases Nat.lt_or_ge d m.clients.length with hh | hh
        · exact hh
        · rw [List.getElem?_eq_none_iff.mpr hh] at hd; cases hd
      have hnd : p ∉ rest ∧ rest.Nodup := by
        have := h.freeNodup; rw [hfree] at this; exact List.nodup_cons.mp this
      refine ⟨?_, ?_, ?_, ?_, ?_, hnd.2, ?_, h.noReset⟩
      · intro d dl hd; change (m.clients ++ _)[d]? = _ at hd; rw [hcl] at hd
        split at hd
        · exact h.sinv d dl hd
        · split at hd
          · cases hd; exact hnew
          · cases hd
      · intro q id d hq; change (m.cab.cells.set p _)[q]? = _ at hq; rw [hce] at hq
        split at hq
        · rename_i h2; simp only [Option.some.injEq, Prod.mk.injEq] at hq
          obtain ⟨h3, h4⟩ := hq; subst h2; subst h3; subst h4
          exact ⟨⟨⟨m.cab.lastId + 1, p⟩, {}⟩, by change (m.clients ++ _)[_]? = _; rw [hcl]; simp, rfl, rfl⟩
        · obtain ⟨dl, hd, ht, hv⟩ := h.cell q id d hq
          exact ⟨dl, by change (m.clients ++ _)[d]? = _; rw [hcl, if_pos (hlt hd)]; exact hd, ht, hv⟩
      · intro d dl hd hv; change (m.clients ++ _)[d]? = _ at hd; rw [hcl] at hd
        change (m.cab.cells.set p _)[dl.tok.pos]? = _
        rw [hce]
        split at hd
        · have hl := h.live d dl hd hv
          split
          · rename_i h2; rw [← h2, hpn] at hl; cases hl
          · exact hl
        · split at hd
          · rename_i h2; cases hd; subst h2; simp
          · cases hd
      · intro d dl hd; change (m.clients ++ _)[d]? = _ at hd; rw [hcl] at hd
        change dl.tok.id ≤ m.cab.lastId + 1
        split at hd
        · have := h.ids d dl hd; omega
        · split at hd
          · cases hd; exact Nat.le_refl _
          · cases hd
      · intro d e dl el hd he hid
        change (m.clients ++ _)[d]? = _ at hd; change (m.clients ++ _)[e]? = _ at he
        rw [hcl] at hd he
        split at hd <;> split at he
        · exact h.uniq d e dl el hd he hid
        · split at he
          · cases he; have := h.ids d dl hd; simp only at hid; omega
          · cases he
        · split at hd
          · cases hd; have := h.ids e el he; simp only at hid; omega
          · cases hd
        · split at hd <;> split at he
          · rename_i h1 h2; exact h1.trans h2.symm
          · cases he
          · cases hd
          · cases hd
      · intro q hq
        change (m.cab.cells.set p _)[q]? = _
        rw [hce]
        split
        · rename_i h2; subst h2; exact absurd hq hnd.1
        · exact h.freeNone q (by rw [hfree]; exact List.mem_cons_of_mem _ hq)

theorem conn_inv {m : MServer} (h : MInv m) : MInv (m.step .conn) := by
  simp only [MServer.step]
  split
  · exact h
  · exact accept_inv h

theorem acceptN_inv (n : Nat) {m : MServer} (h : MInv m) : MInv (MServer.acceptN n m) := by
  induction n generalizing m with
  | zero => exact h
  | succ n ih => exact ih (accept_inv h)

theorem dropCtx_sinv {s : Server} (h : SInv s) (i : Nat) : SInv (MServer.dropCtx s i) :=
  sinv_update h rfl rfl (fun _ hj => (List.mem_filter.mp hj).1) (fun hc => h.closed hc)

/-- the Context of request `i` of a connection that is gone is released: the record loses the entry, nothing else changes -/
theorem dropCtx_gone_inv {m : MServer} (h : MInv m) {c : Nat} {cl : Client} (hc : m.clients[c]? = some cl) (i : Nat)
    (hv' : cl.srv.pipe.valid = false) : MInv (m.setSrv c (MServer.dropCtx cl.srv i)) := by
  have hw : ({ m.setSrv c (MServer.dropCtx cl.srv i) with wq := m.wq } : MServer) = m.setSrv c (MServer.dropCtx cl.srv i) := by
    simp only [MServer.setSrv, hc]
  have := setSrv_sync_inv h hc (MServer.dropCtx cl.srv i) m.wq (dropCtx_sinv (h.sinv c cl hc) i) (fun _ => by simpa [MServer.dropCtx] using hv')
  rw [hw] at this
  have hs : (m.setSrv c (MServer.dropCtx cl.srv i)).sync c = m.setSrv c (MServer.dropCtx cl.srv i) := by
    simp only [MServer.sync, setSrv_clients hc, if_true]
    have hvv : (MServer.dropCtx cl.srv i).pipe.valid = false := by simpa [MServer.dropCtx] using hv'
    simp only [hvv, Bool.false_eq_true, if_false]
    have hl : m.cab.lookup cl.tok = none := by
      have := target_own h hc
      simp only [MServer.target, hc, Option.bind_some, hv', Bool.false_eq_true, if_false] at this
      exact this
    have hcab : (m.setSrv c (MServer.dropCtx cl.srv i)).cab = m.cab := by simp only [MServer.setSrv, hc]
    have hr : (m.setSrv c (MServer.dropCtx cl.srv i)).cab.release cl.tok = (m.setSrv c (MServer.dropCtx cl.srv i)).cab := by
      rw [hcab]; simp [Cab.release, hl]
    rw [hr]
  rw [hs] at this; exact this

theorem step_minv {m : MServer} (h : MInv m) (op : MOp) : MInv (m.step op) := by
  cases op with
  | conn => exact conn_inv h
  | connq =>
    simp only [MServer.step]
    split
    · exact h
    · split
      · exact ⟨h.sinv, h.cell, h.live, h.ids, h.uniq, h.freeNodup, h.freeNone, h.noReset⟩
      · exact h
  | start =>
    simp only [MServer.step]
    split
    · exact h
    · split
      · exact acceptN_inv _ ⟨h.sinv, h.cell, h.live, h.ids, h.uniq, h.freeNodup, h.freeNone, h.noReset⟩
      · exact h
  | stop cl =>
    simp only [MServer.step]
    split
    · exact h
    · simp only [MServer.stopOutside]
      split
      · exact stopAll_inv h cl
      · split
        · exact ⟨h.sinv, h.cell, h.live, h.ids, h.uniq, h.freeNodup, h.freeNone, h.noReset⟩
        · exact h
  | wq q =>
    simp only [MServer.step]
    split
    · exact h
    · exact ⟨h.sinv, h.cell, h.live, h.ids, h.uniq, h.freeNodup, h.freeNone, h.noReset⟩
  | on c op =>
    simp only [MServer.step]
    split
    · exact h
    · split
      · exact h
      · rename_i cl hc
        have hgen : ∀ o : SrvOp, MInv ((m.withWq c (·.step o)).sync c) := fun o =>
          withWq_sync_inv h hc _ (fun s hs => step_sinv s o hs) (fun s hs => step_dead s o hs)
        cases op with
        | wq q => exact ⟨h.sinv, h.cell, h.live, h.ids, h.uniq, h.freeNodup, h.freeNone, h.noReset⟩
        | sstop => exact h
        | done i r =>
          dsimp only
          split
          · exact h
          · rw [target_own h hc]
            by_cases hv : cl.srv.pipe.valid = true
            · simp only [hv, if_true]; exact hgen (.done i r)
            · have hv' : cl.srv.pipe.valid = false := by cases hh : cl.srv.pipe.valid <;> simp_all
              simp only [hv', Bool.false_eq_true, if_false]
              have hw : ({ m.setSrv c (MServer.dropCtx cl.srv i) with wq := m.wq } : MServer) = m.setSrv c (MServer.dropCtx cl.srv i) := by
                simp only [MServer.setSrv, hc]
              have := setSrv_sync_inv h hc (MServer.dropCtx cl.srv i) m.wq (dropCtx_sinv (h.sinv c cl hc) i) (fun _ => by simpa [MServer.dropCtx] using hv')
              rw [hw] at this
              -- the connection is gone already: releasing its (stale) token changes nothing
              have hs : (m.setSrv c (MServer.dropCtx cl.srv i)).sync c = m.setSrv c (MServer.dropCtx cl.srv i) := by
                simp only [MServer.sync, setSrv_clients hc, if_true]
                have hvv : (MServer.dropCtx cl.srv i).pipe.valid = false := by simpa [MServer.dropCtx] using hv'
                simp only [hvv, Bool.false_eq_true, if_false]
                have hl : m.cab.lookup cl.tok = none := by
                  have := target_own h hc
                  simp only [MServer.target, hc, Option.bind_some, hv', Bool.false_eq_true, if_false] at this
                  exact this
                have hcab : (m.setSrv c (MServer.dropCtx cl.srv i)).cab = m.cab := by simp only [MServer.setSrv, hc]
                have hr : (m.setSrv c (MServer.dropCtx cl.srv i)).cab.release cl.tok = (m.setSrv c (MServer.dropCtx cl.srv i)).cab := by
                  rw [hcab]; simp [Cab.release, hl]
                rw [hr]
              rw [hs] at this; exact this
        | seg b =>
          dsimp only
          split
          · exact hgen (.seg b)
          · exact stopAll_inv (hgen (.seg b)) _
        | script i sc => exact hgen _
        | cclose pre cf =>
          cases pre with
          | none => exact hgen _
          | some p =>
            obtain ⟨i, r⟩ := p
            dsimp only
            split
            · exact h
            · rw [target_own h hc]
              by_cases hv : cl.srv.pipe.valid = true
              · simp only [hv, if_true]; exact hgen _
              · have hv' : cl.srv.pipe.valid = false := by cases hh : cl.srv.pipe.valid <;> simp_all
                simp only [hv', Bool.false_eq_true, if_false]
                have h1 := dropCtx_gone_inv h hc i hv'
                have hc1 : (m.setSrv c (MServer.dropCtx cl.srv i)).clients[c]? = some { cl with srv := MServer.dropCtx cl.srv i } := by
                  rw [setSrv_clients hc]; simp
                exact withWq_sync_inv h1 hc1 _ (fun s hs => step_sinv s _ hs) (fun s hs => step_dead s _ hs)
        | chalf => exact hgen _
        | wfail => exact hgen _
        | rerr => exact hgen _

theorem run_minv (ops : List MOp) {m : MServer} (h : MInv m) : MInv (m.run ops) := by
  induction ops generalizing m with
  | nil => exact h
  | cons op ops ih => exact ih (step_minv h op)

/-! ### frame: an event of one connection leaves the others alone -/

theorem sync_clients (m : MServer) (c : Nat) : (m.sync c).clients = m.clients := by
  unfold MServer.sync
  split
  · split <;> rfl
  · rfl

theorem withWq_clients_ne {m : MServer} {c d : Nat} (hd : d ≠ c) (f : Server → Server) :
    (m.withWq c f).clients[d]? = m.clients[d]? := by
  unfold MServer.withWq
  split
  · rfl
  · rename_i cl hc
    dsimp only
    split
    · show (m.setSrv c _).clients[d]? = _
      rw [setSrv_clients hc]; simp [Ne.symm hd]
    · rw [setSrv_clients hc]; simp [Ne.symm hd]

/-- does this event of connection `c` stop the whole server (a handler calling `stop()` / `cleanup()`)? -/
def MServer.stopsServer (m : MServer) (c : Nat) : SrvOp → Bool
  | .seg b => match m.clients[c]? with
    | some cl => (MServer.segStops cl.srv b).isSome
    | none => false
  | _ => false

theorem on_frame {m : MServer} (h : MInv m) (c d : Nat) (op : SrvOp) (hd : d ≠ c) (hns : m.stopsServer c op = false) :
    (m.step (.on c op)).clients[d]? = m.clients[d]? := by
  simp only [MServer.step]
  split
  · rfl
  · split
    · rfl
    · rename_i cl hc
      have hgen : ∀ o : SrvOp, ((m.withWq c (·.step o)).sync c).clients[d]? = m.clients[d]? := fun o => by
        rw [sync_clients]; exact withWq_clients_ne hd _
      cases op with
      | wq q => rfl
      | sstop => rfl
      | done i r =>
        dsimp only
        split
        · rfl
        · rw [target_own h hc]
          by_cases hv : cl.srv.pipe.valid = true
          · simp only [hv, if_true]; exact hgen _
          · have hv' : cl.srv.pipe.valid = false := by cases hh : cl.srv.pipe.valid <;> simp_all
            simp only [hv', Bool.false_eq_true, if_false]
            rw [setSrv_clients hc]; simp [Ne.symm hd]
      | seg b =>
        dsimp only
        simp only [MServer.stopsServer, hc] at hns
        cases hs : MServer.segStops cl.srv b with
        | none => exact hgen _
        | some x => rw [hs] at hns; cases hns
      | script i sc => exact hgen _
      | cclose pre cf =>
        cases pre with
        | none => exact hgen _
        | some p =>
          obtain ⟨i, r⟩ := p
          dsimp only
          split
          · rfl
          · rw [target_own h hc]
            by_cases hv : cl.srv.pipe.valid = true
            · simp only [hv, if_true]; exact hgen _
            · have hv' : cl.srv.pipe.valid = false := by cases hh : cl.srv.pipe.valid <;> simp_all
              simp only [hv', Bool.false_eq_true, if_false]
              rw [sync_clients, withWq_clients_ne hd, setSrv_clients hc]; simp [Ne.symm hd]
      | chalf => exact hgen _
      | wfail => exact hgen _
      | rerr => exact hgen _

/-- a Context of a connection that is gone completes: no connection's pipeline changes -/
theorem stale_commit {m : MServer} (h : MInv m) (c i : Nat) (r : Respond) (cl : Client) (hc : m.clients[c]? = some cl)
    (hgone : cl.srv.pipe.valid = false) (d : Nat) :
    ((m.step (.on c (.done i r))).clients[d]?).map (·.srv.pipe) = (m.clients[d]?).map (·.srv.pipe) := by
  by_cases hd : d = c
  · subst hd
    simp only [MServer.step]
    split
    · rfl
    · rw [hc]
      dsimp only
      split
      · rw [hc]
      · rw [target_own h hc]
        simp only [hgone, Bool.false_eq_true, if_false]
        rw [setSrv_clients hc]; simp [MServer.dropCtx]
  · rw [on_frame h c d _ hd rfl]

theorem stopAll_dead (m : MServer) (cleanup : Bool) (d : Nat) (dl : Client) (hd : (m.stopAll cleanup).clients[d]? = some dl) :
    dl.srv.pipe.valid = false := by
  simp only [MServer.stopAll, List.getElem?_map] at hd
  cases ho : m.clients[d]? with
  | none => rw [ho] at hd; cases hd
  | some ol => rw [ho] at hd; cases hd; exact sstop_dead _

/-! ### the listen backlog -/

theorem setSrv_length (m : MServer) (c : Nat) (s : Server) : (m.setSrv c s).clients.length = m.clients.length := by
  unfold MServer.setSrv
  split <;> simp

theorem withWq_length (m : MServer) (c : Nat) (f : Server → Server) : (m.withWq c f).clients.length = m.clients.length := by
  unfold MServer.withWq
  split
  · rfl
  · dsimp only
    split
    · show (m.setSrv c _).clients.length = _
      exact setSrv_length _ _ _
    · exact setSrv_length _ _ _

theorem stopAll_length (m : MServer) (cleanup : Bool) : (m.stopAll cleanup).clients.length = m.clients.length := by
  simp [MServer.stopAll]

/-- an event of a connection never adds or removes a connection record -/
theorem on_length (m : MServer) (c : Nat) (op : SrvOp) : (m.step (.on c op)).clients.length = m.clients.length := by
  simp only [MServer.step]
  split
  · rfl
  · split
    · rfl
    · rename_i cl hc
      have hgen : ∀ o : SrvOp, ((m.withWq c (·.step o)).sync c).clients.length = m.clients.length := fun o => by
        rw [sync_clients]; exact withWq_length _ _ _
      cases op with
      | wq q => rfl
      | sstop => rfl
      | done i r =>
        dsimp only
        split
        · rfl
        · split
          · exact setSrv_length _ _ _
          · split
            · exact hgen _
            · rw [sync_clients, withWq_length, setSrv_length]
      | seg b =>
        dsimp only
        split
        · exact hgen _
        · rw [stopAll_length]; exact hgen _
      | script i sc => exact hgen _
      | cclose pre cf =>
        cases pre with
        | none => exact hgen _
        | some p =>
          obtain ⟨i, r⟩ := p
          dsimp only
          split
          · rfl
          · split
            · rw [sync_clients, withWq_length, setSrv_length]
            · split
              · exact hgen _
              · rw [sync_clients, withWq_length, sync_clients, withWq_length, setSrv_length]
      | chalf => exact hgen _
      | wfail => exact hgen _
      | rerr => exact hgen _

/-- `n` accepts append `n` fresh records and touch nothing else -/
theorem acceptN_spec (n : Nat) (m : MServer) :
    ∃ new : List Client, (MServer.acceptN n m).clients = m.clients ++ new ∧ new.length = n ∧ (∀ x ∈ new, x.srv.hist = [] ∧ x.srv.pipe = {} ∧ x.srv.outstanding = []) ∧
      (MServer.acceptN n m).state = m.state ∧ (MServer.acceptN n m).pending = m.pending ∧ (MServer.acceptN n m).wq = m.wq := by
  induction n generalizing m with
  | zero => exact ⟨[], by simp [MServer.acceptN], rfl, by simp, rfl, rfl, rfl⟩
  | succ n ih =>
    obtain ⟨new, h1, h2, h3, h4, h5, h6⟩ := ih m.accept
    refine ⟨⟨(m.cab.alloc m.clients.length).2, {}⟩ :: new, ?_, by simp [h2], ?_, ?_, ?_, ?_⟩
    · simp only [MServer.acceptN]; rw [h1]; simp [MServer.accept]
    · intro x hx
      rcases List.mem_cons.mp hx with hx | hx
      · subst hx; exact ⟨rfl, rfl, rfl⟩
      · exact h3 x hx
    · simp only [MServer.acceptN]; rw [h4]; rfl
    · simp only [MServer.acceptN]; rw [h5]; rfl
    · simp only [MServer.acceptN]; rw [h6]; rfl

/-! ### a commit in the loop pass of the peer's close -/

theorem cclose_none_written (s : Server) (cf : Bool) : (s.step (.cclose none cf)).pipe.written = s.pipe.written := by
  simp only [Server.step]
  split
  · rfl
  · simp only [Server.cclose]
    split
    · rfl
    · simp only [Option.getD_some, Server.emit, Pipe.run, List.foldl_cons, List.foldl_nil, Pipe.step, Pipe.peerClosed]
      split
      · rfl
      · rfl

theorem withWq_self_written {m : MServer} {c : Nat} {cl : Client} (hc : m.clients[c]? = some cl) (f : Server → Server)
    (hf : ∀ s, (f s).pipe.written = s.pipe.written) :
    ((m.withWq c f).clients[c]?).map (·.srv.pipe.written) = some cl.srv.pipe.written := by
  unfold MServer.withWq
  rw [hc]
  dsimp only
  split
  · show ((m.setSrv c _).clients[c]?).map _ = _
    rw [setSrv_clients hc]; simp [hf]
  · rw [setSrv_clients hc]; simp [hf]
theorem close_commit_gone {m : MServer} (h : MInv m) (c i : Nat) (r : Respond) (cf : Bool) (cl : Client) (hc : m.clients[c]? = some cl)
    (hgone : cl.srv.pipe.valid = false) (d : Nat) :
    ((m.step (.on c (.cclose (some (i, r)) cf))).clients[d]?).map (·.srv.pipe.written) = (m.clients[d]?).map (·.srv.pipe.written) := by
  by_cases hd : d = c
  · subst hd
    simp only [MServer.step]
    split
    · rfl
    · rw [hc]
      dsimp only
      split
      · rw [hc]
      · rw [target_own h hc]
        simp only [hgone, Bool.false_eq_true, if_false]
        rw [sync_clients]
        have hc1 : (m.setSrv d (MServer.dropCtx cl.srv i)).clients[d]? = some { cl with srv := MServer.dropCtx cl.srv i } := by
          rw [setSrv_clients hc]; simp
        rw [withWq_self_written hc1 _ (fun s => cclose_none_written s cf)]; simp [MServer.dropCtx]
  · rw [on_frame h c d _ hd rfl]

end Tbox.C12
