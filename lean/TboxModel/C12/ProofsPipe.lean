/- C12 helper lemmas, response pipeline: the invariant and its preservation. -/
import TboxModel.C12.Spec
namespace Tbox.C12
open Pipe

structure Inv (p : Pipe) : Prop where
  ord : p.written.map (·.1) = List.range p.resIndex
  le : p.resIndex ≤ p.reqIndex
  cl : ∀ k, p.closeIndex = some k → p.reqIndex = k + 1 ∧ p.resIndex ≤ k + 1
  keys : ∀ e ∈ p.resBuff, e.1 < p.reqIndex

/-- no committed response whose turn has come is left parked -/
def NoStuck (p : Pipe) : Prop :=
  p.valid = true → p.pastClose = false → p.resBuff.find? (fun e => e.1 == p.resIndex) = none

theorem pastClose_false_iff (p : Pipe) : p.pastClose = false ↔ ∀ k, p.closeIndex = some k → p.resIndex ≤ k := by
  unfold pastClose
  cases p.closeIndex with
  | none => simp
  | some k => simp

theorem inv_init : Inv {} := ⟨rfl, Nat.le_refl _, by simp, by simp⟩

/-- one "send the response whose turn it is" step -/
theorem inv_send (p : Pipe) (r : Bytes) (rb : List (Nat × Bytes)) (hI : Inv p) (hnp : p.pastClose = false)
    (hlt : p.resIndex < p.reqIndex) (hrb : ∀ e ∈ rb, e ∈ p.resBuff) :
    Inv { p with written := p.written ++ [(p.resIndex, r)], resBuff := rb, resIndex := p.resIndex + 1 } := by
  refine ⟨?_, ?_, ?_, ?_⟩
  · simp [hI.ord, List.range_succ]
  · exact hlt
  · intro k hk
    have := hI.cl k hk
    have h2 := (pastClose_false_iff p).mp hnp k hk
    exact ⟨this.1, by simp; omega⟩
  · intro e he
    exact hI.keys e (hrb e he)

theorem flush_inv (f : Nat) (p : Pipe) (hI : Inv p) (hnp : p.pastClose = false) : Inv (flush f p) := by
  induction f generalizing p with
  | zero => exact hI
  | succ k ih =>
    unfold flush
    split
    · exact hI
    · rename_i i r hfind
      have hmem := List.mem_of_find?_eq_some hfind
      have hkey := List.find?_some hfind
      simp at hkey
      have hlt : p.resIndex < p.reqIndex := by have := hI.keys _ hmem; simp [hkey] at this; exact this
      have hI' := inv_send p r (p.resBuff.filter (fun e => e.1 != p.resIndex)) hI hnp hlt
        (fun e he => (List.mem_filter.mp he).1)
      dsimp only
      split
      · exact hI'
      · rename_i hpc
        exact ih _ hI' (by simpa using hpc)

theorem flush_valid (f : Nat) (p : Pipe) : (flush f p).valid = p.valid := by
  induction f generalizing p with
  | zero => rfl
  | succ k ih =>
    unfold flush
    split
    · rfl
    · dsimp only
      split
      · rfl
      · rw [ih]

theorem flush_nostuck (f : Nat) (p : Pipe) (hf : p.resBuff.length < f) : NoStuck (flush f p) := by
  induction f generalizing p with
  | zero => omega
  | succ k ih =>
    unfold flush
    split
    · rename_i hnone
      intro _ _
      exact hnone
    · rename_i i r hfind
      have hmem := List.mem_of_find?_eq_some hfind
      have hkey := List.find?_some hfind
      dsimp only
      split
      · rename_i hpc
        intro _ hnp
        simp [hpc] at hnp
      · apply ih
        have : (p.resBuff.filter (fun e => e.1 != p.resIndex)).length < p.resBuff.length :=
          List.length_filter_lt_length_iff_exists.mpr ⟨_, hmem, by simpa using hkey⟩
        simp only
        omega

theorem commit_inv (p : Pipe) (i : Nat) (r : Bytes) (hI : Inv p) (hi : i < p.reqIndex) : Inv (p.commit i r) := by
  unfold commit
  split
  · exact hI
  · split
    · rename_i hir
      have hir' : i = p.resIndex := by simpa using hir
      subst hir'
      by_cases hpc : p.pastClose = true
      · -- already past the closing response: then reqIndex = closeIndex + 1 = resIndex, no such i
        exfalso
        unfold pastClose at hpc
        cases hcl : p.closeIndex with
        | none => simp [hcl] at hpc
        | some k =>
          simp [hcl] at hpc
          have := hI.cl k hcl
          omega
      · have hI' := inv_send p r p.resBuff hI (by simpa using hpc) hi (fun e he => he)
        dsimp only
        split
        · exact hI'
        · rename_i hpc'
          exact flush_inv _ _ hI' (by simpa using hpc')
    · refine ⟨hI.ord, hI.le, hI.cl, ?_⟩
      intro e he
      simp at he
      rcases he with rfl | he
      · exact hi
      · exact hI.keys e he.1

theorem commit_nostuck (p : Pipe) (i : Nat) (r : Bytes) (hN : NoStuck p) : NoStuck (p.commit i r) := by
  unfold commit
  split
  · exact hN
  · split
    · dsimp only
      split
      · rename_i hpc
        intro _ hnp
        simp [hpc] at hnp
      · exact flush_nostuck _ _ (by simp)
    · rename_i hv hir
      intro hv' hnp
      have := hN (by simpa using hv') hnp
      simp only at this ⊢
      rw [List.find?_cons]
      have hir' : ((i, r).1 == p.resIndex) = false := by simpa using hir
      rw [hir']
      simp only
      rw [List.find?_eq_none] at this ⊢
      intro x hx
      exact this x (List.mem_filter.mp hx).1

theorem step_inv (p : Pipe) (op : PipeOp) (hI : Inv p) (hN : NoStuck p) (hok : traceOk p [op] = true) :
    Inv (p.step op) ∧ NoStuck (p.step op) := by
  cases op with
  | req last =>
    simp [traceOk] at hok
    simp only [Pipe.step, onRequest]
    refine ⟨⟨hI.ord, Nat.le_succ_of_le hI.le, ?_, fun e he => Nat.lt_succ_of_lt (hI.keys e he)⟩, ?_⟩
    · intro k hk
      simp only [hok] at hk
      cases last with
      | true => simp at hk; subst hk; exact ⟨rfl, Nat.le_succ_of_le hI.le⟩
      | false => simp at hk
    · intro hv hnp
      apply hN hv
      simp [pastClose, hok]
  | commit i r =>
    simp [traceOk] at hok
    exact ⟨commit_inv p i r hI hok, commit_nostuck p i r hN⟩
  | sendComplete =>
    simp only [Pipe.step, sendComplete]
    split
    · exact ⟨hI, hN⟩
    · split
      · exact ⟨⟨hI.ord, hI.le, hI.cl, by simp [disconnect]⟩, by intro hv; simp [disconnect] at hv⟩
      · exact ⟨hI, hN⟩
  | drop =>
    simp only [Pipe.step, peerClosed]
    split
    · exact ⟨hI, hN⟩
    · exact ⟨⟨hI.ord, hI.le, hI.cl, by simp [disconnect]⟩, by intro hv; simp [disconnect] at hv⟩
  | kernel n =>
    simp only [Pipe.step, kernel]
    split
    · exact ⟨hI, hN⟩
    · exact ⟨⟨hI.ord, hI.le, hI.cl, hI.keys⟩, hN⟩
  | writeError =>
    simp only [Pipe.step, writeError]
    split
    · exact ⟨hI, hN⟩
    · exact ⟨⟨hI.ord, hI.le, hI.cl, hI.keys⟩, hN⟩
  | halfClose =>
    simp only [Pipe.step, peerClosed]
    split
    · exact ⟨hI, hN⟩
    · exact ⟨⟨hI.ord, hI.le, hI.cl, by simp [disconnect]⟩, by intro hv; simp [disconnect] at hv⟩

theorem run_inv (p : Pipe) (ops : List PipeOp) (hI : Inv p) (hN : NoStuck p) (hok : traceOk p ops = true) :
    Inv (p.run ops) ∧ NoStuck (p.run ops) := by
  induction ops generalizing p with
  | nil => exact ⟨hI, hN⟩
  | cons op ops ih =>
    simp only [traceOk, Bool.and_eq_true] at hok
    have h1 := step_inv p op hI hN (by simp only [traceOk, Bool.and_true]; exact hok.1)
    simp only [Pipe.run, List.foldl_cons]
    exact ih _ h1.1 h1.2 hok.2

/-! ### written responses come from commits; nothing changes once the connection is invalid -/

theorem flush_written_sub (f : Nat) (p : Pipe) :
    ∀ x ∈ (flush f p).written, x ∈ p.written ∨ x ∈ p.resBuff := by
  induction f generalizing p with
  | zero => intro x hx; exact Or.inl hx
  | succ k ih =>
    unfold flush
    split
    · intro x hx; exact Or.inl hx
    · rename_i i r hfind
      have hmem := List.mem_of_find?_eq_some hfind
      have hkey := List.find?_some hfind
      simp at hkey
      dsimp only
      have base : ∀ x ∈ p.written ++ [(p.resIndex, r)], x ∈ p.written ∨ x ∈ p.resBuff := by
        intro x hx
        simp at hx
        rcases hx with hx | rfl
        · exact Or.inl hx
        · right; rw [← hkey]; exact hmem
      split
      · exact base
      · intro x hx
        rcases ih _ x hx with h | h
        · exact base x h
        · exact Or.inr (List.mem_filter.mp h).1

theorem flush_resBuff_sub (f : Nat) (p : Pipe) : ∀ x ∈ (flush f p).resBuff, x ∈ p.resBuff := by
  induction f generalizing p with
  | zero => intro x hx; exact hx
  | succ k ih =>
    unfold flush
    split
    · intro x hx; exact hx
    · dsimp only
      split
      · intro x hx; exact (List.mem_filter.mp hx).1
      · intro x hx; exact (List.mem_filter.mp (ih _ x hx)).1

/-- everything written or parked was committed by an operation of the trace -/
def FromCommits (ops : List PipeOp) (p : Pipe) : Prop :=
  ∀ x, x ∈ p.written ∨ x ∈ p.resBuff → PipeOp.commit x.1 x.2 ∈ ops

theorem step_fromCommits (done : List PipeOp) (p : Pipe) (op : PipeOp) (h : FromCommits done p) :
    FromCommits (done ++ [op]) (p.step op) := by
  have lift : ∀ x, x ∈ p.written ∨ x ∈ p.resBuff → PipeOp.commit x.1 x.2 ∈ done ++ [op] :=
    fun x hx => List.mem_append_left _ (h x hx)
  cases op with
  | req last => exact lift
  | commit i r =>
    simp only [Pipe.step, commit]
    split
    · exact lift
    · split
      · rename_i hir
        have hir' : i = p.resIndex := by simpa using hir
        have base : ∀ x, x ∈ p.written ++ [(i, r)] ∨ x ∈ p.resBuff → PipeOp.commit x.1 x.2 ∈ done ++ [.commit i r] := by
          intro x hx
          rcases hx with hx | hx
          · simp at hx
            rcases hx with hx | rfl
            · exact lift x (Or.inl hx)
            · simp
          · exact lift x (Or.inr hx)
        split
        · exact base
        · intro x hx
          rcases hx with hx | hx
          · rcases flush_written_sub _ _ x hx with h' | h'
            · exact base x (Or.inl h')
            · exact base x (Or.inr h')
          · exact base x (Or.inr (by simpa using flush_resBuff_sub _ _ x hx))
      · intro x hx
        rcases hx with hx | hx
        · exact lift x (Or.inl hx)
        · simp at hx
          rcases hx with rfl | hx
          · simp
          · exact lift x (Or.inr hx.1)
  | sendComplete =>
    simp only [Pipe.step, sendComplete]
    split
    · exact lift
    · split
      · intro x hx; simp [disconnect] at hx; exact lift x (Or.inl hx)
      · exact lift
  | drop =>
    simp only [Pipe.step, peerClosed]
    split
    · exact lift
    · intro x hx; simp [disconnect] at hx; exact lift x (Or.inl hx)
  | kernel n =>
    simp only [Pipe.step, kernel]
    split
    · exact lift
    · exact lift
  | writeError =>
    simp only [Pipe.step, writeError]
    split
    · exact lift
    · exact lift
  | halfClose =>
    simp only [Pipe.step, peerClosed]
    split
    · exact lift
    · intro x hx; simp [disconnect] at hx; exact lift x (Or.inl hx)

/-! ### send side and tear-down bookkeeping (no hypothesis on the history) -/

theorem flush_grow (f : Nat) (p : Pipe) :
    (∃ extra, (flush f p).written = p.written ++ extra) ∧ (flush f p).sent = p.sent ∧
    (flush f p).disconnects = p.disconnects := by
  induction f generalizing p with
  | zero => exact ⟨⟨[], by simp [flush]⟩, rfl, rfl⟩
  | succ k ih =>
    unfold flush
    split
    · exact ⟨⟨[], by simp⟩, rfl, rfl⟩
    · dsimp only
      split
      · exact ⟨⟨_, rfl⟩, rfl, rfl⟩
      · rename_i i r _ _
        obtain ⟨⟨extra, he⟩, h2, h3⟩ := ih { p with written := p.written ++ [(p.resIndex, r)], resBuff := p.resBuff.filter (fun e => e.1 != p.resIndex), resIndex := p.resIndex + 1 }
        exact ⟨⟨[(p.resIndex, r)] ++ extra, by rw [he]; simp⟩, h2, h3⟩

theorem commit_grow (p : Pipe) (i : Nat) (r : Bytes) :
    (∃ extra, (p.commit i r).written = p.written ++ extra) ∧ (p.commit i r).sent = p.sent ∧
    (p.commit i r).disconnects = p.disconnects ∧ (p.commit i r).valid = p.valid := by
  unfold commit
  split
  · exact ⟨⟨[], by simp⟩, rfl, rfl, rfl⟩
  · split
    · dsimp only
      split
      · exact ⟨⟨_, rfl⟩, rfl, rfl, rfl⟩
      · obtain ⟨⟨extra, he⟩, h2, h3⟩ := flush_grow (p.resBuff.length + 1) { p with written := p.written ++ [(i, r)], resIndex := p.resIndex + 1 }
        exact ⟨⟨[(i, r)] ++ extra, by rw [he]; simp⟩, h2, h3, by rw [flush_valid]⟩
    · exact ⟨⟨[], by simp⟩, rfl, rfl, rfl⟩

theorem handed_grow {p q : Pipe} (h : ∃ extra, q.written = p.written ++ extra) : p.handed.length ≤ q.handed.length := by
  obtain ⟨extra, he⟩ := h
  simp [handed, he]

/-- tear-down happens at most once and exactly when the connection is invalid; the peer never
has more than was handed over -/
structure Inv2 (p : Pipe) : Prop where
  once : p.disconnects = if p.valid then 0 else 1
  sentLe : p.sent ≤ p.handed.length

theorem inv2_init : Inv2 {} := ⟨rfl, by simp [handed]⟩

theorem step_inv2 (p : Pipe) (op : PipeOp) (h : Inv2 p) : Inv2 (p.step op) := by
  cases op with
  | req last => exact ⟨h.once, h.sentLe⟩
  | commit i r =>
    obtain ⟨hg, hs, hd, hv⟩ := commit_grow p i r
    refine ⟨?_, ?_⟩
    · simp only [Pipe.step, hd, hv]; exact h.once
    · simp only [Pipe.step, hs]; exact Nat.le_trans h.sentLe (handed_grow hg)
  | sendComplete =>
    simp only [Pipe.step, sendComplete]
    split
    · exact h
    · rename_i hv
      split
      · have := h.once
        have hv2 : p.valid = true := by simpa using hv
        exact ⟨by simp [disconnect, this, hv2], h.sentLe⟩
      · exact h
  | drop =>
    simp only [Pipe.step, peerClosed]
    split
    · exact h
    · rename_i hv
      have := h.once
      have hv2 : p.valid = true := by simpa using hv
      exact ⟨by simp [disconnect, this, hv2], h.sentLe⟩
  | kernel n =>
    simp only [Pipe.step, kernel]
    split
    · exact h
    · exact ⟨h.once, by simp [handed]; exact Nat.min_le_right _ _⟩
  | writeError =>
    simp only [Pipe.step, writeError]
    split
    · exact h
    · exact ⟨h.once, h.sentLe⟩
  | halfClose =>
    simp only [Pipe.step, peerClosed]
    split
    · exact h
    · rename_i hv
      have := h.once
      have hv2 : p.valid = true := by simpa using hv
      exact ⟨by simp [disconnect, this, hv2], h.sentLe⟩

theorem run_inv2 (p : Pipe) (ops : List PipeOp) (h : Inv2 p) : Inv2 (p.run ops) := by
  induction ops generalizing p with
  | nil => exact h
  | cons op ops ih => exact ih _ (step_inv2 p op h)

/-! ### after a write error nothing more reaches the peer -/

theorem flush_wb (f : Nat) (p : Pipe) : (flush f p).wbroken = p.wbroken := by
  induction f generalizing p with
  | zero => rfl
  | succ k ih =>
    unfold flush
    split
    · rfl
    · dsimp only
      split
      · rfl
      · rw [ih]

theorem commit_wb (p : Pipe) (i : Nat) (r : Bytes) : (p.commit i r).wbroken = p.wbroken := by
  unfold commit
  split
  · rfl
  · split
    · dsimp only
      split
      · rfl
      · rw [flush_wb]
    · rfl

/-- without a peer-initiated close or parse failure in the history and without a write error, a connection
that is gone has delivered every byte handed to `send` -/
def NoLoss (p : Pipe) : Prop := p.valid = false → p.wbroken = false → p.sent = p.handed.length

theorem step_wb_mono (p : Pipe) (op : PipeOp) (h : (p.step op).wbroken = false) : p.wbroken = false := by
  cases hb : p.wbroken with
  | false => rfl
  | true =>
    have : (p.step op).wbroken = true := by
      cases op with
      | req last => simpa [Pipe.step, onRequest] using hb
      | commit i r => simp only [Pipe.step]; rw [commit_wb]; exact hb
      | sendComplete => simp only [Pipe.step, sendComplete]; split; exact hb; split <;> simpa [disconnect] using hb
      | drop => simp only [Pipe.step, peerClosed]; split <;> simpa [disconnect] using hb
      | kernel n => simp only [Pipe.step, kernel]; split <;> simpa using hb
      | writeError => simp only [Pipe.step, writeError]; split <;> simp [hb]
      | halfClose => simp only [Pipe.step, peerClosed]; split <;> simpa [disconnect] using hb
    rw [this] at h; cases h

theorem run_noLoss (p : Pipe) (ops : List PipeOp) (h : NoLoss p) (hok : traceOk p ops = true)
    (hnd : PipeOp.drop ∉ ops) (hnh : PipeOp.halfClose ∉ ops) : NoLoss (p.run ops) := by
  induction ops generalizing p with
  | nil => exact h
  | cons op ops ih =>
    simp only [traceOk, Bool.and_eq_true] at hok
    simp only [List.mem_cons, not_or] at hnd hnh
    refine ih (p.step op) ?_ hok.2 hnd.2 hnh.2
    intro hv' hwb'
    have hwb : p.wbroken = false := step_wb_mono p op hwb'
    cases op with
    | req last => exact h hv' hwb
    | commit i r =>
      obtain ⟨hg, hs, _, hv⟩ := commit_grow p i r
      simp only [Pipe.step] at hv' ⊢
      rw [hv] at hv'
      -- an invalid connection ignores the commit entirely
      simp [commit, hv']
      exact h hv' hwb
    | sendComplete =>
      simp only [Pipe.step, sendComplete] at hv' ⊢
      split
      · rename_i hv
        exact h (by simpa using hv) hwb
      · rename_i hv
        split
        · have := hok.1
          have hv2 : p.valid = true := by simpa using hv
          simp only [hv2, hwb, Bool.not_true, Bool.false_or, decide_eq_true_eq] at this
          simpa [disconnect, handed] using this
        · rename_i hpc
          have hv2 : p.valid = true := by simpa using hv
          simp [hv2, hpc] at hv'
    | drop => exact absurd rfl hnd.1
    | kernel n =>
      simp only [Pipe.step, kernel] at hv' ⊢
      split
      · rename_i hc
        simp only [hc, if_true] at hv'
        exact h hv' hwb
      · rename_i hc
        have hv2 : p.valid = true := by
          cases hpv : p.valid with
          | true => rfl
          | false => simp [hpv] at hc
        simp [hwb, hv2] at hv'
    | writeError =>
      simp only [Pipe.step, writeError] at hv' ⊢
      split
      · rename_i hc
        simp only [hc, if_true] at hv'
        exact h hv' hwb
      · rename_i hc
        have hv2 : p.valid = true := by simpa using hc
        simp [hv2] at hv'
    | halfClose => exact absurd rfl hnh.1

/-- the state a broken connection is frozen in, as far as the peer is concerned -/
structure Frozen (p q : Pipe) : Prop where
  wb : q.wbroken = true
  sent : q.sent = p.sent
  grow : ∃ extra, q.written = p.written ++ extra

theorem step_frozen (p q : Pipe) (op : PipeOp) (h : Frozen p q) : Frozen p (q.step op) := by
  obtain ⟨hw, hs, extra, he⟩ := h
  cases op with
  | req last => exact ⟨hw, hs, extra, he⟩
  | commit i r =>
    obtain ⟨⟨ex2, he2⟩, hs2, _, _⟩ := commit_grow q i r
    exact ⟨by simp only [Pipe.step]; rw [commit_wb]; exact hw, by simp only [Pipe.step]; rw [hs2]; exact hs,
      extra ++ ex2, by simp only [Pipe.step]; rw [he2, he]; simp⟩
  | sendComplete =>
    simp only [Pipe.step, sendComplete]
    split
    · exact ⟨hw, hs, extra, he⟩
    · split
      · exact ⟨hw, hs, extra, he⟩
      · exact ⟨hw, hs, extra, he⟩
  | drop =>
    simp only [Pipe.step, peerClosed]
    split
    · exact ⟨hw, hs, extra, he⟩
    · exact ⟨hw, hs, extra, he⟩
  | kernel n =>
    simp only [Pipe.step, kernel, hw, Bool.or_true, if_true]
    exact ⟨hw, hs, extra, he⟩
  | writeError =>
    simp only [Pipe.step, writeError]
    split
    · exact ⟨hw, hs, extra, he⟩
    · exact ⟨rfl, hs, extra, he⟩
  | halfClose =>
    simp only [Pipe.step, peerClosed]
    split
    · exact ⟨hw, hs, extra, he⟩
    · exact ⟨hw, hs, extra, he⟩

theorem run_frozen (p q : Pipe) (ops : List PipeOp) (h : Frozen p q) : Frozen p (q.run ops) := by
  induction ops generalizing q with
  | nil => exact h
  | cons op ops ih => exact ih _ (step_frozen p q op h)

theorem frozen_peerBytes {p q : Pipe} (h : Frozen p q) (hle : p.sent ≤ p.handed.length) : q.peerBytes = p.peerBytes := by
  obtain ⟨_, hs, extra, he⟩ := h
  unfold peerBytes handed
  rw [hs, he, List.map_append, List.flatten_append]
  exact List.take_append_of_le_length hle

theorem step_invalid (p : Pipe) (op : PipeOp) (h : p.valid = false) :
    (p.step op).valid = false ∧ (p.step op).written = p.written := by
  cases op <;> simp [step, onRequest, commit, sendComplete, peerClosed, kernel, writeError, h]

theorem run_invalid (p : Pipe) (ops : List PipeOp) (h : p.valid = false) :
    (p.run ops).valid = false ∧ (p.run ops).written = p.written := by
  induction ops generalizing p with
  | nil => exact ⟨h, rfl⟩
  | cons op ops ih =>
    have h1 := step_invalid p op h
    have := ih (p.step op) h1.1
    simp only [run, List.foldl_cons] at this ⊢
    exact ⟨this.1, this.2.trans h1.2⟩


end Tbox.C12
