/- C12 helper lemmas: RequestParser reads back what Request::toString prints (parse ∘ render). -/
import TboxModel.C12.ProofsWire
import TboxModel.C12.ProofsUrlPath
namespace Tbox.C12

/-! ### the printed target contains neither a space nor a CR -/

theorem sp_facts : ∀ n : Fin 256, ∀ pm : Bool,
    (needsEscape pm (UInt8.ofNat n.val) = false → UInt8.ofNat n.val ≠ 32 ∧ UInt8.ofNat n.val ≠ 13) ∧
    hexUpper ((UInt8.ofNat n.val).toNat / 16) ≠ 32 ∧ hexUpper ((UInt8.ofNat n.val).toNat / 16) ≠ 13 ∧
    hexUpper ((UInt8.ofNat n.val).toNat % 16) ≠ 32 ∧ hexUpper ((UInt8.ofNat n.val).toNat % 16) ≠ 13 := by
  decide +kernel

theorem enc_nosp (pm : Bool) (s : Bytes) : ∀ x ∈ urlEncode pm s, x ≠ 32 ∧ x ≠ 13 := by
  induction s with
  | nil => simp [urlEncode]
  | cons c rest ih =>
    have hc := sp_facts ⟨c.toNat, c.toNat_lt⟩ pm
    simp only [UInt8.ofNat_toNat] at hc
    unfold urlEncode
    split
    · intro x hx
      simp only [List.mem_cons] at hx
      rcases hx with rfl | rfl | rfl | hx
      · decide
      · exact ⟨hc.2.1, hc.2.2.1⟩
      · exact ⟨hc.2.2.2.1, hc.2.2.2.2⟩
      · exact ih x hx
    · rename_i hn
      intro x hx
      simp only [List.mem_cons] at hx
      rcases hx with rfl | hx
      · exact hc.1 (by simpa using hn)
      · exact ih x hx

theorem kvItem_nosp (kv : Bytes × Bytes) : ∀ x ∈ kvItem kv, x ≠ 32 ∧ x ≠ 13 := by
  intro x hx
  simp only [kvItem, List.mem_append, List.mem_cons] at hx
  rcases hx with hx | rfl | hx
  · exact enc_nosp false kv.1 x hx
  · decide
  · exact enc_nosp false kv.2 x hx

theorem joinWith_nosp (sep : UInt8) (hs : sep ≠ 32 ∧ sep ≠ 13) (items : List Bytes)
    (h : ∀ it ∈ items, ∀ x ∈ it, x ≠ 32 ∧ x ≠ 13) : ∀ x ∈ joinWith sep items, x ≠ 32 ∧ x ≠ 13 := by
  induction items with
  | nil => simp [joinWith]
  | cons a t ih =>
    cases t with
    | nil => simpa [joinWith] using h a (by simp)
    | cons b t =>
      simp only [joinWith]
      intro x hx
      simp only [List.mem_append, List.mem_cons] at hx
      rcases hx with hx | rfl | hx
      · exact h a (by simp) x hx
      · exact hs
      · exact ih (fun it hit => h it (by simp [hit])) x (by simpa using hx)

theorem optS_joined_nosp (c sep : UInt8) (hc : c ≠ 32 ∧ c ≠ 13) (hs : sep ≠ 32 ∧ sep ≠ 13) (m : List (Bytes × Bytes)) :
    ∀ x ∈ optS c (joinedKVs sep m), x ≠ 32 ∧ x ≠ 13 := by
  unfold joinedKVs
  split
  · simp [optS]
  · intro x hx
    simp only [optS, List.mem_cons] at hx
    rcases hx with rfl | hx
    · exact hc
    · exact joinWith_nosp sep hs _ (by
        intro it hit
        obtain ⟨kv, _, rfl⟩ := List.mem_map.mp hit
        exact kvItem_nosp kv) x hx

/-- fragment printable in a request line -/
def fragLineOk (f : Bytes) : Bool := f.all fun c => c != 32 && c != 13

theorem urlPathToString_nosp (u : UrlPath) (hf : fragLineOk u.frag = true) : ∀ x ∈ urlPathToString u, x ≠ 32 ∧ x ≠ 13 := by
  rw [urlPathToString_struct]
  intro x hx
  simp only [List.mem_append] at hx
  rcases hx with hx | hx | hx | hx
  · exact enc_nosp true u.path x hx
  · exact optS_joined_nosp 59 59 (by decide) (by decide) u.params x hx
  · exact optS_joined_nosp 63 38 (by decide) (by decide) u.query x hx
  · split at hx
    · simp [optS] at hx
    · simp only [optS, List.mem_cons] at hx
      rcases hx with rfl | hx
      · decide
      · have := List.all_eq_true.mp hf x hx
        simpa using this

theorem urlPathToString_ne_nil (u : UrlPath) (hp : u.path.head? = some 47) : (urlPathToString u).isEmpty = false := by
  rw [urlPathToString_struct]
  have := urlEncode_head u.path hp
  cases h : urlEncode true u.path with
  | nil => rw [h] at this; simp at this
  | cons c t => simp

/-! ### method / version names of the tables are tokens -/

theorem methodTable_tok : ∀ p ∈ Gen.methodTable, tokenOk (ascii p.2) = true := by decide
theorem verTable_tok : ∀ p ∈ Gen.verTable, tokenOk (ascii p.2) = true := by decide

theorem methodOf_tok {m : Bytes} {e : String} (h : methodOf m = some e) : tokenOk m = true := by
  unfold methodOf at h
  cases hf : Gen.methodTable.find? (fun p => ascii p.2 == m) with
  | none => simp [hf] at h
  | some p =>
    have h1 := List.find?_some hf
    have h2 := List.mem_of_find?_eq_some hf
    have : ascii p.2 = m := by simpa using h1
    rw [← this]
    exact methodTable_tok p h2

theorem verOf_tok {m : Bytes} {e : String} (h : verOf m = some e) : tokenOk m = true := by
  unfold verOf at h
  cases hf : Gen.verTable.find? (fun p => ascii p.2 == m) with
  | none => simp [hf] at h
  | some p =>
    have h1 := List.find?_some hf
    have h2 := List.mem_of_find?_eq_some hf
    have : ascii p.2 = m := by simpa using h1
    rw [← this]
    exact verTable_tok p h2

/-! ### a request value that `Request::toString` prints unambiguously -/

/-- method and version are table entries (the version text starts with "HTTP/"), the target is a
well-formed path value whose fragment has no space / CR, the header map is key-sorted with printable
entries (`hdrOk`: no ':' / CR in the key, no CR in the value, no surrounding spaces, value
non-empty, key other than Content-Length — the printer adds that line itself), the body length
fits `size_t` -/
def Req.printable (r : Req) : Bool :=
  methodOf (ascii (methodStr r.method)) == some r.method &&
  verOf (ascii (verStr r.ver)) == some r.ver && (ascii (verStr r.ver)).take 5 == ascii "HTTP/" &&
  r.url.wf && fragLineOk r.url.frag &&
  keysAsc r.headers && r.headers.all hdrOk && decide (r.body.length ≤ 2 ^ 64 - 2)

/-- the wire form `Request::toString` produces -/
def Req.wire (r : Req) : WireReq :=
  ⟨ascii (methodStr r.method), urlPathToString r.url, ascii (verStr r.ver), r.headers, r.body⟩

theorem render_eq_encode (r : Req) : r.render = r.wire.encode := by
  simp [Req.render, WireReq.encode, Req.wire, contentLengthHdr]

theorem tokenOk_of (b : Bytes) (h0 : b.isEmpty = false) (h : ∀ x ∈ b, x ≠ 32 ∧ x ≠ 13) : tokenOk b = true := by
  simp only [tokenOk, h0, Bool.not_false, Bool.true_and, Bool.and_eq_true, List.all_eq_true, bne_iff_ne, ne_eq]
  exact ⟨fun x hx => (h x hx).1, fun x hx => (h x hx).2⟩

theorem parse_render (r : Req) (hp : r.printable = true) (rest : Bytes) :
    parse Cfg.fixed PState.init (r.render ++ rest) =
      .ok ⟨.all, { r with headers := mapInsert (ascii "Content-Length") (decimal r.body.length) r.headers },
           some r.body.length⟩ rest := by
  simp only [Req.printable, Bool.and_eq_true, beq_iff_eq, decide_eq_true_eq] at hp
  obtain ⟨⟨⟨⟨⟨⟨⟨hm, hv⟩, hv5⟩, hwf⟩, hfl⟩, hka⟩, hh⟩, hn⟩ := hp
  have hwf' := hwf
  simp only [UrlPath.wf, Bool.and_eq_true, beq_iff_eq] at hwf'
  have hrt := urlPath_roundtrip r.url hwf
  have hw : r.wire.wellFormed = true := by
    simp only [WireReq.wellFormed, Req.wire, Bool.and_eq_true, beq_iff_eq]
    refine ⟨⟨⟨⟨⟨⟨⟨⟨methodOf_tok hm, by simp [hm]⟩, ?_⟩, by simp [hrt]⟩, verOf_tok hv⟩, hv5⟩, by simp [hv]⟩, hh⟩, decide_eq_true hn⟩
    exact tokenOk_of _ (urlPathToString_ne_nil r.url hwf'.1.1.1.1.1) (urlPathToString_nosp r.url hfl)
  rw [render_eq_encode, parse_wire r.wire hw PState.init rfl rest]
  have hreq : r.wire.toReq = { r with headers := mapInsert (ascii "Content-Length") (decimal r.body.length) r.headers } := by
    simp only [WireReq.toReq, Req.wire, hm, hrt, hv, Option.getD_some, contentLengthHdr, List.foldl_append, List.foldl_cons, List.foldl_nil]
    rw [foldl_mapInsert_sorted r.headers [] hka (by simp)]
    simp
  rw [hreq]
  rfl

end Tbox.C12
