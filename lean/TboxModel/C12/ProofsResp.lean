/- C12 helper lemmas: Respond::toString re-read by the independent response reader of Spec.lean. -/
import TboxModel.C12.ProofsWire
namespace Tbox.C12

theorem verTable_clean : ∀ p ∈ Gen.verTable, (ascii p.2).all (fun c => c != 32 && c != 13) = true := by decide
theorem statusTable_clean : ∀ p ∈ Gen.statusTable, (ascii p.2).all (· != 13) = true := by decide

theorem verStr_clean (e : String) : (ascii (verStr e)).all (fun c => c != 32 && c != 13) = true := by
  unfold verStr
  cases hf : Gen.verTable.find? (fun p => p.1 == e) with
  | none => rfl
  | some p => exact verTable_clean p (List.mem_of_find?_eq_some hf)

theorem statusText_clean (c : Nat) : (ascii (statusText c)).all (· != 13) = true := by
  unfold statusText
  cases hf : Gen.statusTable.find? (fun p => p.1 == c) with
  | none => rfl
  | some p => exact statusTable_clean p (List.mem_of_find?_eq_some hf)

def dStep (acc : Option Nat) (c : UInt8) : Option Nat :=
  match acc with
  | none => none
  | some r => if 48 ≤ c && c ≤ 57 then some (r * 10 + (c.toNat - 48)) else none

theorem digit_facts2 : ∀ d : Fin 10, (48 ≤ UInt8.ofNat (48 + d.val) && UInt8.ofNat (48 + d.val) ≤ 57) = true := by decide

theorem dStep_digit (r d : Nat) (hd : d < 10) : dStep (some r) (UInt8.ofNat (48 + d)) = some (r * 10 + d) := by
  have h1 := digit_facts2 ⟨d, hd⟩
  have h2 := (digit_facts ⟨d, hd⟩).2.1
  simp only at h1 h2
  simp only [dStep, h1, if_true, h2]

theorem decimal_dfold (n : Nat) : (decimal n).foldl dStep (some 0) = some n := by
  induction n using Nat.strongRecOn with
  | _ n ih =>
    unfold decimal
    split
    · rename_i h
      simpa using dStep_digit 0 n h
    · rename_i h
      rw [List.foldl_append, ih (n / 10) (by omega)]
      have := dStep_digit (n / 10) (n % 10) (Nat.mod_lt _ (by omega))
      simp only [List.foldl_cons, List.foldl_nil, this]
      congr 1; omega

theorem digitsToNat_decimal (n : Nat) : digitsToNat (decimal n) = some n := by
  have : digitsToNat (decimal n) = if (decimal n).isEmpty then none else (decimal n).foldl dStep (some 0) := rfl
  rw [this, decimal_dfold]
  simp [decimal_ne_nil]

def kvOk (kv : Bytes × Bytes) : Bool := kv.1.all (· != 58) && kv.1.all (· != 13) && kv.2.all (· != 13)

theorem splitColonSp_wire (k v : Bytes) (hk : k.all (· != 58) = true) : splitColonSp (k ++ 58 :: 32 :: v) = some (k, v) := by
  have s := tw_stop (· != 58) k 58 (32 :: v) (all_ne hk) (by decide)
  simp [splitColonSp, s.1, s.2]

theorem respHeaders_wire (hs : List (Bytes × Bytes)) (hok : hs.all kvOk = true) (b : Bytes) (f : Nat)
    (hf : ((hs.map hdrLine).flatten ++ 13 :: 10 :: b).length < f) :
    respHeaders f ((hs.map hdrLine).flatten ++ 13 :: 10 :: b) = some (hs, b) := by
  induction hs generalizing f with
  | nil =>
    cases f with
    | zero => omega
    | succ f' => simp [respHeaders, splitCRLF]
  | cons kv hs ih =>
    simp only [List.all_cons, Bool.and_eq_true] at hok
    obtain ⟨hkv, hrest⟩ := hok
    simp only [kvOk, Bool.and_eq_true] at hkv
    obtain ⟨⟨h58, h13k⟩, h13v⟩ := hkv
    cases f with
    | zero => omega
    | succ f' =>
      have hb : ((kv :: hs).map hdrLine).flatten ++ 13 :: 10 :: b
          = (kv.1 ++ 58 :: 32 :: kv.2) ++ 13 :: 10 :: ((hs.map hdrLine).flatten ++ 13 :: 10 :: b) := by simp [hdrLine]
      rw [hb] at hf ⊢
      have hsplit := splitCRLF_no13 (kv.1 ++ 58 :: 32 :: kv.2) ((hs.map hdrLine).flatten ++ 13 :: 10 :: b)
        (hdrOk_line_no13 h13k h13v)
      have hne : (kv.1 ++ 58 :: 32 :: kv.2).isEmpty = false := by cases kv.1 <;> simp
      rw [respHeaders]
      simp only [hsplit, hne, Bool.false_eq_true, if_false, splitColonSp_wire kv.1 kv.2 h58]
      rw [ih hrest f' (by simp at hf ⊢; omega)]
      rfl

/-- `Respond::toString()` read back: version text, status text, the headers in map order followed
by the Content-Length line, and the body -/
theorem parseResponse_render (r : Respond) (hp : r.printable = true) :
    parseResponse r.render = some ⟨ascii (verStr r.ver), ascii (statusText r.status),
      r.headers ++ [(ascii "Content-Length", decimal r.body.length)], r.body⟩ := by
  have hv := verStr_clean r.ver
  have hst := statusText_clean r.status
  have hv32 : ∀ x ∈ ascii (verStr r.ver), (x != 32) = true := by
    intro x hx; have := (List.all_eq_true.mp hv) x hx; simp only [Bool.and_eq_true] at this; exact this.1
  have hline13 : ∀ x ∈ ascii (verStr r.ver) ++ 32 :: ascii (statusText r.status), x ≠ 13 := by
    intro x hx
    simp only [List.mem_append, List.mem_cons] at hx
    rcases hx with hx | rfl | hx
    · have := (List.all_eq_true.mp hv) x hx; simp only [Bool.and_eq_true] at this; simpa using this.2
    · decide
    · simpa using all_ne hst x hx
  have hall : (r.headers ++ [(ascii "Content-Length", decimal r.body.length)]).all kvOk = true := by
    rw [List.all_append]
    have hd := decimal_digits r.body.length
    have hd13 : (decimal r.body.length).all (· != 13) = true := by simpa using fun x hx => (hd x hx).1
    simp only [Respond.printable] at hp
    simp [kvOk, cl_facts.1, cl_facts.2.1, hd13]
    simpa [kvOk] using hp
  have hrender : r.render = (ascii (verStr r.ver) ++ 32 :: ascii (statusText r.status)) ++ 13 :: 10 ::
      (((r.headers ++ [(ascii "Content-Length", decimal r.body.length)]).map hdrLine).flatten ++ 13 :: 10 :: r.body) := by
    simp [Respond.render]
  rw [hrender]
  have hsplit := splitCRLF_no13 _ ((((r.headers ++ [(ascii "Content-Length", decimal r.body.length)]).map hdrLine).flatten
      ++ 13 :: 10 :: r.body)) hline13
  have s := tw_stop (· != 32) (ascii (verStr r.ver)) 32 (ascii (statusText r.status)) hv32 (by decide)
  unfold parseResponse
  simp only [hsplit, s.1, s.2]
  rw [respHeaders_wire _ hall r.body _ (by omega)]
  simp [digitsToNat_decimal]

end Tbox.C12
