/- C12 helper lemmas: whatever the scripted handlers do, the pipeline history of the server is admissible. -/
import TboxModel.C12.ProofsPipe
import TboxModel.C12.ProofsFeed
namespace Tbox.C12
open Pipe

theorem run_append (p : Pipe) (a b : List PipeOp) : p.run (a ++ b) = (p.run a).run b := by
  simp [Pipe.run, List.foldl_append]

theorem traceOk_append (p : Pipe) (a b : List PipeOp) :
    traceOk p (a ++ b) = (traceOk p a && traceOk (p.run a) b) := by
  induction a generalizing p with
  | nil => simp [traceOk, Pipe.run]
  | cons op a ih =>
    simp only [List.cons_append, traceOk, ih, Pipe.run, List.foldl_cons, Bool.and_assoc]

/-! ### which fields an operation can touch -/

theorem flush_fields (f : Nat) (p : Pipe) :
    (flush f p).reqIndex = p.reqIndex ∧ (flush f p).closeIndex = p.closeIndex := by
  induction f generalizing p with
  | zero => exact ⟨rfl, rfl⟩
  | succ k ih =>
    unfold flush
    split
    · exact ⟨rfl, rfl⟩
    · dsimp only
      split
      · exact ⟨rfl, rfl⟩
      · rename_i i r _ _
        exact ih { p with written := p.written ++ [(p.resIndex, r)], resBuff := p.resBuff.filter (fun e => e.1 != p.resIndex), resIndex := p.resIndex + 1 }

theorem commit_fields (p : Pipe) (i : Nat) (r : Bytes) :
    (p.commit i r).reqIndex = p.reqIndex ∧ (p.commit i r).closeIndex = p.closeIndex := by
  unfold commit
  split
  · exact ⟨rfl, rfl⟩
  · split
    · dsimp only
      split
      · exact ⟨rfl, rfl⟩
      · exact flush_fields _ { p with written := p.written ++ [(i, r)], resIndex := p.resIndex + 1 }
    · exact ⟨rfl, rfl⟩

def PipeOp.isReq : PipeOp → Bool
  | .req _ => true
  | _ => false

theorem step_fields (p : Pipe) (op : PipeOp) (h : op.isReq = false) :
    (p.step op).reqIndex = p.reqIndex ∧ (p.step op).closeIndex = p.closeIndex := by
  cases op with
  | req last => simp [PipeOp.isReq] at h
  | commit i r => exact commit_fields p i r
  | sendComplete => simp only [Pipe.step, sendComplete]; split; exact ⟨rfl, rfl⟩; split <;> exact ⟨rfl, rfl⟩
  | drop => simp only [Pipe.step, peerClosed]; split <;> exact ⟨rfl, rfl⟩
  | kernel n => simp only [Pipe.step, kernel]; split <;> exact ⟨rfl, rfl⟩
  | writeError => simp only [Pipe.step, writeError]; split <;> exact ⟨rfl, rfl⟩
  | halfClose => simp only [Pipe.step, peerClosed]; split <;> exact ⟨rfl, rfl⟩

theorem run_fields (p : Pipe) (ops : List PipeOp) (h : ∀ op ∈ ops, op.isReq = false) :
    (p.run ops).reqIndex = p.reqIndex ∧ (p.run ops).closeIndex = p.closeIndex := by
  induction ops generalizing p with
  | nil => exact ⟨rfl, rfl⟩
  | cons op ops ih =>
    have h1 := step_fields p op (h op (by simp))
    have h2 := ih (p.step op) (fun o ho => h o (by simp [ho]))
    simp only [Pipe.run, List.foldl_cons] at h2 ⊢
    exact ⟨h2.1.trans h1.1, h2.2.trans h1.2⟩

/-- operations that are admissible in every state -/
def PipeOp.free : PipeOp → Bool
  | .drop | .kernel _ | .writeError | .halfClose => true
  | _ => false

theorem traceOk_free (p : Pipe) (ops : List PipeOp) (h : ∀ op ∈ ops, op.free = true) : traceOk p ops = true := by
  induction ops generalizing p with
  | nil => rfl
  | cons op ops ih =>
    have := h op (by simp)
    simp only [traceOk, Bool.and_eq_true]
    refine ⟨?_, ih _ (fun o ho => h o (by simp [ho]))⟩
    cases op <;> simp_all [PipeOp.free]

/-! ### the server invariant -/

structure SInv (s : Server) : Prop where
  hist : s.pipe = Pipe.run {} s.hist
  ok : traceOk {} s.hist = true
  out : ∀ i ∈ s.outstanding, i < s.pipe.reqIndex
  closed : s.pipe.closeIndex.isSome = true → s.conn.closed = true ∨ s.conn.dead = true ∨ s.pipe.valid = false

theorem sinv_init : SInv {} := ⟨rfl, rfl, by simp, by simp⟩

/-- recording admissible operations keeps the history facts -/
theorem emit_hist (s : Server) (ops : List PipeOp) (h : SInv s) (hok : traceOk s.pipe ops = true) :
    (s.emit ops).pipe = Pipe.run {} (s.emit ops).hist ∧ traceOk {} (s.emit ops).hist = true := by
  simp only [Server.emit]
  refine ⟨by rw [run_append, ← h.hist], ?_⟩
  rw [traceOk_append, h.ok, ← h.hist, hok]; rfl

/-- emitting operations other than `req`: every part of the invariant survives, provided the
connection part (`conn`, `outstanding`) is updated consistently afterwards -/
theorem emit_sinv (s : Server) (ops : List PipeOp) (h : SInv s) (hok : traceOk s.pipe ops = true)
    (hnr : ∀ op ∈ ops, op.isReq = false) : SInv (s.emit ops) := by
  have hh := emit_hist s ops h hok
  have hf := run_fields s.pipe ops hnr
  refine ⟨hh.1, hh.2, ?_, ?_⟩
  · intro i hi
    simp only [Server.emit] at hi ⊢
    rw [hf.1]; exact h.out i hi
  · intro hc
    simp only [Server.emit] at hc ⊢
    rw [hf.2] at hc
    rcases h.closed hc with h1 | h1 | h1
    · exact Or.inl h1
    · exact Or.inr (Or.inl h1)
    · right; right
      -- an invalid pipe stays invalid
      have := (run_invalid s.pipe ops h1).1
      exact this

theorem wOps_free (w w' : WSt) : ∀ op ∈ wOps w w', op.free = true := by
  intro op hop
  simp only [wOps, List.mem_cons] at hop
  rcases hop with rfl | hop
  · rfl
  · split at hop
    · simp at hop; subst hop; rfl
    · simp at hop

theorem free_noreq (op : PipeOp) (h : op.free = true) : op.isReq = false := by
  cases op <;> simp_all [PipeOp.free, PipeOp.isReq]

/-- rebuilding the invariant after the connection-side fields were updated -/
theorem sinv_update {s t : Server} (h : SInv s) (hp : t.pipe = s.pipe) (hh : t.hist = s.hist)
    (ho : ∀ i ∈ t.outstanding, i ∈ s.outstanding)
    (hc : s.pipe.closeIndex.isSome = true → t.conn.closed = true ∨ t.conn.dead = true ∨ s.pipe.valid = false) : SInv t := by
  refine ⟨by rw [hp, hh]; exact h.hist, by rw [hh]; exact h.ok, ?_, ?_⟩
  · intro i hi; rw [hp]; exact h.out i (ho i hi)
  · intro hcl; rw [hp] at hcl ⊢; exact hc hcl

theorem emit_hist' (s : Server) (ops : List PipeOp) (hh : s.pipe = Pipe.run {} s.hist) (ho : traceOk {} s.hist = true)
    (hok : traceOk s.pipe ops = true) :
    (s.emit ops).pipe = Pipe.run {} (s.emit ops).hist ∧ traceOk {} (s.emit ops).hist = true := by
  simp only [Server.emit]
  refine ⟨by rw [run_append, ← hh], ?_⟩
  rw [traceOk_append, ho, ← hh, hok]; rfl

/-- a commit under ANY answers of the kernel: the history stays admissible, nothing but `pipe` / `hist` /
`wq` / `armed` changes, request and close index stay -/
theorem commitW_facts (s : Server) (i : Nat) (r : Bytes) (hh : s.pipe = Pipe.run {} s.hist) (ho : traceOk {} s.hist = true)
    (hi : i < s.pipe.reqIndex) :
    (s.commitW i r).pipe = Pipe.run {} (s.commitW i r).hist ∧ traceOk {} (s.commitW i r).hist = true ∧
    (s.commitW i r).conn = s.conn ∧ (s.commitW i r).outstanding = s.outstanding ∧
    (s.commitW i r).pipe.reqIndex = s.pipe.reqIndex ∧ (s.commitW i r).pipe.closeIndex = s.pipe.closeIndex ∧
    (s.pipe.valid = false → (s.commitW i r).pipe.valid = false) := by
  unfold Server.commitW
  dsimp only
  generalize List.foldl directWrite s.wst _ = w'
  have hok : traceOk s.pipe (.commit i r :: wOps s.wst w') = true := by
    simp only [traceOk, Bool.and_eq_true, decide_eq_true_eq]
    exact ⟨hi, traceOk_free _ _ (wOps_free _ _)⟩
  have hnr : ∀ op ∈ PipeOp.commit i r :: wOps s.wst w', op.isReq = false := by
    intro op hop
    rcases List.mem_cons.mp hop with rfl | hop
    · rfl
    · exact free_noreq op (wOps_free _ _ op hop)
  have he := emit_hist' s _ hh ho hok
  have hf := run_fields s.pipe _ hnr
  exact ⟨he.1, he.2, rfl, rfl, hf.1, hf.2, fun hv => (run_invalid s.pipe _ hv).1⟩

theorem commitW_sinv (s : Server) (i : Nat) (r : Bytes) (h : SInv s) (hi : i < s.pipe.reqIndex) : SInv (s.commitW i r) := by
  obtain ⟨f1, f2, f3, f4, f5, f6, f7⟩ := commitW_facts s i r h.hist h.ok hi
  refine ⟨f1, f2, ?_, ?_⟩
  · intro j hj; rw [f4] at hj; rw [f5]; exact h.out j hj
  · intro hc
    rw [f6] at hc; rw [f3]
    rcases h.closed hc with h1 | h1 | h1
    · exact Or.inl h1
    · exact Or.inr (Or.inl h1)
    · exact Or.inr (Or.inr (f7 h1))

theorem quiesce_sinv (s : Server) (h : SInv s) : SInv s.quiesce := by
  unfold Server.quiesce
  dsimp only
  generalize drain _ s.wst = w'
  have h1 := emit_sinv s (wOps s.wst w') h (traceOk_free _ _ (wOps_free _ _)) (fun op hop => free_noreq op (wOps_free _ _ op hop))
  have h2 : SInv { s.emit (wOps s.wst w') with wq := w'.wq, stuck := w'.stuck, armed := false } :=
    sinv_update h1 rfl rfl (fun j hj => hj) (fun hc => h1.closed hc)
  split
  · rename_i hc
    simp only [Bool.and_eq_true] at hc
    refine emit_sinv _ [.sendComplete] h2 ?_ (by simp [PipeOp.isReq])
    have := hc.2
    simp only [Bool.or_eq_true, beq_iff_eq] at this
    simp only [traceOk, Bool.and_true, Bool.or_eq_true, decide_eq_true_eq]
    rcases this with h3 | h3
    · exact Or.inl (Or.inr h3)
    · exact Or.inr h3
  · exact h2

/-- one request through the handler chain — for EVERY script and EVERY answer of the kernel -/
theorem handleReq_facts (s : Server) (last : Bool) (h : SInv s) (hn : s.pipe.closeIndex.isNone = true) :
    (s.handleReq last).1.pipe = Pipe.run {} (s.handleReq last).1.hist ∧
    traceOk {} (s.handleReq last).1.hist = true ∧
    (∀ i ∈ (s.handleReq last).1.outstanding, i < (s.handleReq last).1.pipe.reqIndex) ∧
    ((s.handleReq last).1.pipe.closeIndex.isSome = true → last = true) ∧
    (s.handleReq last).1.conn = s.conn := by
  generalize hsc : runChain ((s.scripts.lookup s.pipe.reqIndex).getD defaultScript) nLevels 0 {} = hst
  have hcn : s.pipe.closeIndex = none := by simpa using hn
  -- `req`, then an optional drop
  have hdrop : ∀ op ∈ (if hst.stopped then [PipeOp.drop] else []), op.free = true := by
    intro op hop
    split at hop
    · simp at hop; subst hop; rfl
    · simp at hop
  have hok0 : traceOk s.pipe (PipeOp.req last :: (if hst.stopped then [PipeOp.drop] else [])) = true := by
    simp only [traceOk, hn, Bool.true_and]
    exact traceOk_free _ _ hdrop
  have he := emit_hist s _ h hok0
  have hf := run_fields (s.pipe.onRequest last) (if hst.stopped then [PipeOp.drop] else [])
    (fun op hop => free_noreq op (hdrop op hop))
  have hri : (s.emit (PipeOp.req last :: (if hst.stopped then [PipeOp.drop] else []))).pipe.reqIndex = s.pipe.reqIndex + 1 := by
    simp only [Server.emit, Pipe.run, List.foldl_cons, Pipe.step] at hf ⊢
    rw [hf.1]; rfl
  have hci : (s.emit (PipeOp.req last :: (if hst.stopped then [PipeOp.drop] else []))).pipe.closeIndex.isSome = true → last = true := by
    simp only [Server.emit, Pipe.run, List.foldl_cons, Pipe.step] at hf ⊢
    rw [hf.2]
    simp only [onRequest, hcn]
    cases last <;> simp
  simp only [Server.handleReq, hsc]
  by_cases hk : hst.kept = true
  · simp only [hk, if_true]
    refine ⟨he.1, he.2, ?_, hci, rfl⟩
    intro i hi
    simp only [List.mem_append, List.mem_singleton] at hi
    rw [hri]
    rcases hi with hi | rfl
    · have := h.out i (by simpa [Server.emit] using hi); omega
    · omega
  · have hk' : hst.kept = false := by simpa using hk
    simp only [hk', Bool.false_eq_true, if_false]
    obtain ⟨f1, f2, f3, f4, f5, f6, _⟩ := commitW_facts _ s.pipe.reqIndex hst.resp.render he.1 he.2 (by rw [hri]; omega)
    refine ⟨f1, f2, ?_, ?_, ?_⟩
    · intro i hi
      rw [f4] at hi; rw [f5, hri]
      have := h.out i (by simpa [Server.emit] using hi); omega
    · intro hc; rw [f6] at hc; exact hci hc
    · rw [f3]; rfl

theorem walk_sinv (whole : Bytes) (evs : List Ev) (s : Server) (c : Nat) (h : SInv s)
    (hn : s.pipe.closeIndex.isNone = true) : SInv (Server.walk whole s c evs).1 := by
  induction evs generalizing s c with
  | nil => exact h
  | cons e evs ih =>
    cases e with
    | parsed n st => exact ih s (c + n) h hn
    | req r last d =>
      obtain ⟨f1, f2, f3, f4, f5⟩ := handleReq_facts s last h hn
      simp only [Server.walk]
      split
      · exact ⟨f1, f2, f3, fun hc => Or.inl (f4 hc)⟩
      · split
        · exact ⟨f1, f2, f3, fun _ => Or.inr (Or.inl rfl)⟩
        · split
          · exact ⟨f1, f2, f3, fun _ => Or.inl rfl⟩
          · rename_i hl
            have hnone : (s.handleReq last).1.pipe.closeIndex.isNone = true := by
              cases hci : (s.handleReq last).1.pipe.closeIndex with
              | none => rfl
              | some k => exact absurd (f4 (by simp [hci])) hl
            have hs1 : SInv (s.handleReq last).1 := ⟨f1, f2, f3, fun hc => by simp [Option.isNone_iff_eq_none.mp hnone] at hc⟩
            exact ih _ c hs1 hnone

theorem recv_dead_or_closed (markP : Req → Bool) (c : Conn) (seg : Bytes) (h : c.closed = true ∨ c.dead = true) :
    (recv Cfg.fixed markP c seg).evs = [] ∧
    ((recv Cfg.fixed markP c seg).conn.closed = true ∨ (recv Cfg.fixed markP c seg).conn.dead = true) := by
  unfold recv
  by_cases hd : c.dead = true
  · simp [hd]
  · rcases h with h | h
    · simp [hd, h]
    · exact absurd h hd

theorem seg_sinv (s : Server) (bytes : Bytes) (h : SInv s) : SInv (s.seg Cfg.fixed bytes).1 := by
  unfold Server.seg
  split
  · exact h
  · rename_i hv
    have hvalid : s.pipe.valid = true := by simpa using hv
    have h0 : SInv { s with conn := (recv Cfg.fixed isLast s.conn bytes).conn } := by
      refine sinv_update h rfl rfl (fun i hi => hi) ?_
      intro hc
      rcases h.closed hc with h1 | h1 | h1
      · rcases (recv_dead_or_closed isLast s.conn bytes (Or.inl h1)).2 with h2 | h2
        · exact Or.inl h2
        · exact Or.inr (Or.inl h2)
      · rcases (recv_dead_or_closed isLast s.conn bytes (Or.inr h1)).2 with h2 | h2
        · exact Or.inl h2
        · exact Or.inr (Or.inl h2)
      · exact Or.inr (Or.inr h1)
    have hw : SInv (Server.walk (s.conn.buf ++ bytes) { s with conn := (recv Cfg.fixed isLast s.conn bytes).conn } 0
        (recv Cfg.fixed isLast s.conn bytes).evs).1 := by
      cases hci : s.pipe.closeIndex with
      | none => exact walk_sinv _ _ _ 0 h0 (by simp [hci])
      | some k =>
        have hcd : s.conn.closed = true ∨ s.conn.dead = true := by
          rcases h.closed (by simp [hci]) with h1 | h1 | h1
          · exact Or.inl h1
          · exact Or.inr h1
          · rw [hvalid] at h1; cases h1
        rw [(recv_dead_or_closed isLast s.conn bytes hcd).1]
        exact h0
    dsimp only
    generalize Server.walk (s.conn.buf ++ bytes) { s with conn := (recv Cfg.fixed isLast s.conn bytes).conn } 0
      (recv Cfg.fixed isLast s.conn bytes).evs = res at hw ⊢
    obtain ⟨s1, ds, early⟩ := res
    simp only at hw ⊢
    split
    · exact hw
    · split
      · have h1 := emit_sinv s1 [.drop] hw (traceOk_free _ _ (by simp [PipeOp.free])) (by simp [PipeOp.isReq])
        exact sinv_update h1 rfl rfl (fun j hj => hj) (fun hc => h1.closed hc)
      · exact quiesce_sinv s1 hw

theorem done_sinv (s : Server) (i : Nat) (r : Respond) (h : SInv s) : SInv ((s.done i r).getD s) := by
  unfold Server.done
  split
  · rename_i hc
    have hi : i ∈ s.outstanding := by simpa using hc
    have h1 := commitW_sinv s i r.render h (h.out i hi)
    have ho := (commitW_facts s i r.render h.hist h.ok (h.out i hi)).2.2.2.1
    simp only [Option.getD_some]
    apply quiesce_sinv
    exact sinv_update h1 rfl rfl (fun j hj => by
      rw [ho]; exact (List.mem_filter.mp hj).1) (fun hc => h1.closed hc)
  · exact h

theorem cclose_sinv (s : Server) (pre : Option (Nat × Respond)) (cf : Bool) (h : SInv s) :
    SInv ((s.cclose pre cf).getD s) := by
  unfold Server.cclose
  split
  · exact h
  · have gone : ∀ s' : Server, SInv s' →
        SInv { s'.emit [.drop] with cclosed := true, armed := false, conn := { s.conn with dead := true, buf := [] } } := by
      intro s' hs'
      have h1 := emit_sinv s' [.drop] hs' (traceOk_free _ _ (by simp [PipeOp.free])) (by simp [PipeOp.isReq])
      exact sinv_update h1 rfl rfl (fun j hj => hj) (fun _ => Or.inr (Or.inl rfl))
    cases pre with
    | none => exact gone s h
    | some ir =>
      obtain ⟨i, r⟩ := ir
      dsimp only
      split
      · rename_i hc
        have hi : i ∈ s.outstanding := by simpa using hc
        simp only [Option.getD_some]
        have h0 : SInv (if cf = true then s.emit [.writeError] else s) := by
          split
          · exact emit_sinv s [.writeError] h (traceOk_free _ _ (by simp [PipeOp.free])) (by simp [PipeOp.isReq])
          · exact h
        have hout0 : (if cf = true then s.emit [.writeError] else s).outstanding = s.outstanding := by
          split <;> rfl
        have hi0 : i < (if cf = true then s.emit [.writeError] else s).pipe.reqIndex := h0.out i (by rw [hout0]; exact hi)
        have h1 := commitW_sinv _ i r.render h0 hi0
        have ho := (commitW_facts _ i r.render h0.hist h0.ok hi0).2.2.2.1
        have h2 := gone _ h1
        exact sinv_update h2 rfl rfl (fun j hj => by
          change j ∈ (Server.commitW (if cf = true then s.emit [.writeError] else s) i r.render).outstanding
          rw [ho, hout0]; exact (List.mem_filter.mp hj).1) (fun hc => h2.closed hc)
      · exact h

theorem sstop_sinv (s : Server) (h : SInv s) : SInv s.sstop := by
  unfold Server.sstop
  have h1 := emit_sinv s [.drop] h (traceOk_free _ _ (by simp [PipeOp.free])) (by simp [PipeOp.isReq])
  exact sinv_update h1 rfl rfl (fun j hj => hj) (fun _ => Or.inr (Or.inl rfl))

theorem step_sinv (s : Server) (op : SrvOp) (h : SInv s) : SInv (s.step op) := by
  cases op with
  | script i sc =>
    simp only [Server.step]
    split
    · exact h
    · exact sinv_update h rfl rfl (fun j hj => hj) (fun hc => h.closed hc)
  | seg bytes => simp only [Server.step]; split; exact h; exact seg_sinv s bytes h
  | done i r => simp only [Server.step]; split; exact h; exact done_sinv s i r h
  | cclose pre cf => simp only [Server.step]; split; exact h; exact cclose_sinv s pre cf h
  | chalf =>
    simp only [Server.step]; split; exact h
    unfold Server.chalf
    split
    · exact h
    · simp only [Option.getD_some]
      have h1 := emit_sinv s [.halfClose] h (traceOk_free _ _ (by simp [PipeOp.free])) (by simp [PipeOp.isReq])
      exact sinv_update h1 rfl rfl (fun j hj => hj) (fun _ => Or.inr (Or.inl rfl))
  | wfail =>
    simp only [Server.step]; split; exact h
    exact emit_sinv s [.writeError] h (traceOk_free _ _ (by simp [PipeOp.free])) (by simp [PipeOp.isReq])
  | sstop =>
    simp only [Server.step]; split; exact h
    exact sstop_sinv s h
  | rerr =>
    simp only [Server.step]; split; exact h
    exact sstop_sinv s h
  | wq q =>
    simp only [Server.step]; split; exact h
    exact sinv_update h rfl rfl (fun j hj => hj) (fun hc => h.closed hc)

theorem run_sinv (ops : List SrvOp) (s : Server) (h : SInv s) : SInv (ops.foldl Server.step s) := by
  induction ops generalizing s with
  | nil => exact h
  | cons op ops ih => exact ih _ (step_sinv s op h)

end Tbox.C12
