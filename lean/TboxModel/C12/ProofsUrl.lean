/- C12 helper lemmas: UrlDecode ∘ UrlEncode = id. -/
import TboxModel.C12.Model
namespace Tbox.C12

/-- per byte: an unescaped byte is not '%', and the two hex digits printed for an escaped byte
read back as its nibbles -/
theorem escape_facts : ∀ n : Fin 256, ∀ pm : Bool,
    (needsEscape pm (UInt8.ofNat n.val) = false → UInt8.ofNat n.val ≠ 37) ∧
    hexCharToValue (hexUpper ((UInt8.ofNat n.val).toNat / 16)) = some ((UInt8.ofNat n.val).toNat / 16) ∧
    hexCharToValue (hexUpper ((UInt8.ofNat n.val).toNat % 16)) = some ((UInt8.ofNat n.val).toNat % 16) ∧
    UInt8.ofNat ((UInt8.ofNat n.val).toNat / 16 * 16 + (UInt8.ofNat n.val).toNat % 16) = UInt8.ofNat n.val := by
  decide +kernel

theorem escape_facts' (c : UInt8) (pm : Bool) :
    (needsEscape pm c = false → c ≠ 37) ∧
    hexCharToValue (hexUpper (c.toNat / 16)) = some (c.toNat / 16) ∧
    hexCharToValue (hexUpper (c.toNat % 16)) = some (c.toNat % 16) ∧
    UInt8.ofNat (c.toNat / 16 * 16 + c.toNat % 16) = c := by
  have h := escape_facts ⟨c.toNat, c.toNat_lt⟩ pm
  simpa using h

theorem urlDecode_urlEncode (pm : Bool) (s : Bytes) : urlDecode (urlEncode pm s) = some s := by
  induction s with
  | nil => simp [urlEncode, urlDecode]
  | cons c rest ih =>
    obtain ⟨h1, h2, h3, h4⟩ := escape_facts' c pm
    unfold urlEncode
    by_cases hn : needsEscape pm c = true
    · simp only [hn, if_true]
      unfold urlDecode
      simp only [if_true, h2, h3, ih, Option.map_some, h4]
    · have hn' : needsEscape pm c = false := by simpa using hn
      have hc := h1 hn'
      simp only [hn', Bool.false_eq_true, if_false]
      unfold urlDecode
      simp only [hc, if_false, ih, Option.map_some]

end Tbox.C12
