/- C12 helper lemmas: UrlDecode ∘ UrlEncode = id. -/
import TboxModel.C12.Model
namespace Tbox.C12

/-- per byte: an unescaped byte is not '%', and the two hex digits printed for an escaped byte
read back as its nibbles -/
theorem escape_facts : ∀ n : Fin 256, ∀ pm : Bool,
    (needsEscape pm (UInt8.ofNat n.val) = false → UInt8.ofNat n.val ≠ 37) ∧
    hexCharToValue (hexUpper ((UInt8.ofNat n.val).toNat / 16)) = some ((UInt8.ofNat n.val).toNat / 16) ∧
    hexCharToValue (hexUpper ((UInt8.ofNat n.val).toNat % 16)) = some ((UInt8.ofNat n.val).toNat % 16) ∧
    UInt8.ofNat ((UInt8.ofNat n.val).toNat / 16 * 16 + (UInt8.ofNat n.val).toNat % 16) = UInt8.ofNat n.val := by
  decide +kernel

theorem escape_facts' (c : UInt8) (pm : Bool) :
    (needsEscape pm c = false → c ≠ 37) ∧
    hexCharToValue (hexUpper (c.toNat / 16)) = some (c.toNat / 16) ∧
    hexCharToValue (hexUpper (c.toNat % 16)) = some (c.toNat % 16) ∧
    UInt8.ofNat (c.toNat / 16 * 16 + c.toNat % 16) = c := by
  have h := escape_facts ⟨c.toNat, c.toNat_lt⟩ pm
  simpa using h

theorem urlDecode_urlEncode (pm : Bool) (s : Bytes) : urlDecode (urlEncode pm s) = some s := by
  induction s with
  | nil => simp [urlEncode, urlDecode]
  | cons c rest ih =>
    obtain ⟨h1, h2, h3, h4⟩ := escape_facts' c pm
    unfold urlEncode
    by_cases hn : needsEscape pm c = true
    · simp only [hn, if_true]
      unfold urlDecode
      simp only [if_true, h2, h3, ih, Option.map_some, h4]
    · have hn' : needsEscape pm c = false := by simpa using hn
      have hc := h1 hn'
      simp only [hn', Bool.false_eq_true, if_false]
      unfold urlDecode
      simp only [hc, if_false, ih, Option.map_some]

/-! ### the encoder never emits a delimiter of the target syntax -/

def isDelim (c : UInt8) : Bool := c == 59 || c == 63 || c == 35 || c == 61 || c == 38

theorem delim_facts : ∀ n : Fin 256, ∀ pm : Bool,
    (needsEscape pm (UInt8.ofNat n.val) = false → isDelim (UInt8.ofNat n.val) = false) ∧
    isDelim (hexUpper ((UInt8.ofNat n.val).toNat / 16)) = false ∧
    isDelim (hexUpper ((UInt8.ofNat n.val).toNat % 16)) = false := by
  decide +kernel

theorem urlEncode_clean (pm : Bool) (s : Bytes) : ∀ c ∈ urlEncode pm s, isDelim c = false := by
  induction s with
  | nil => simp [urlEncode]
  | cons x rest ih =>
    have hx := delim_facts ⟨x.toNat, x.toNat_lt⟩ pm
    simp only [UInt8.ofNat_toNat] at hx
    unfold urlEncode
    split
    · intro c hc
      simp only [List.mem_cons] at hc
      rcases hc with rfl | rfl | rfl | hc
      · decide
      · exact hx.2.1
      · exact hx.2.2
      · exact ih c hc
    · rename_i hn
      intro c hc
      simp only [List.mem_cons] at hc
      rcases hc with rfl | hc
      · exact hx.1 (by simpa using hn)
      · exact ih c hc

theorem findByte_none_of_clean (d : UInt8) (hd : isDelim d = true) (s : Bytes) (h : ∀ c ∈ s, isDelim c = false) :
    findByte d s = none := by
  unfold findByte
  rw [List.findIdx?_eq_none_iff]
  intro c hc
  have := h c hc
  cases hcd : (c == d) with
  | false => rfl
  | true =>
    have : c = d := by simpa using hcd
    subst this
    simp_all

/-- a target that consists of a path only survives `UrlPathToString` → `StringToUrlPath` -/
theorem urlPath_roundtrip_path (path : Bytes) (hp : path.head? = some 47) :
    parseUrlPath (urlPathToString ⟨path, [], [], []⟩) = some ⟨path, [], [], []⟩ := by
  have hclean := urlEncode_clean true path
  have hhead : (urlEncode true path).head? = some 47 := by
    cases path with
    | nil => simp at hp
    | cons c rest =>
      have : c = 47 := by simpa using hp
      subst this
      have : needsEscape true 47 = false := by decide
      simp [urlEncode, this]
  have h1 := findByte_none_of_clean 59 (by decide) _ hclean
  have h2 := findByte_none_of_clean 63 (by decide) _ hclean
  have h3 := findByte_none_of_clean 35 (by decide) _ hclean
  simp [parseUrlPath, urlPathToString, hhead, h1, h2, h3, substr, urlDecode_urlEncode]

end Tbox.C12
