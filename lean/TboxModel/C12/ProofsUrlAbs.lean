/- C12 helper lemmas: totality facts for url.cpp (every substr position is in range). -/
import TboxModel.C12.ProofsUrlPath
namespace Tbox.C12

/-- a successful `find_first_of` returns a position inside the string -/
theorem findByte_lt {c : UInt8} {s : Bytes} {i : Nat} (h : findByte c s = some i) : i < s.length := by
  unfold findByte at h
  exact (List.findIdx?_eq_some_iff_findIdx_eq.mp h).1

/-- a successful `find(pat)` leaves room for the whole pattern -/
theorem findSub_le {pat s : Bytes} {i : Nat} (h : findSub pat s = some i) : i + pat.length ≤ s.length := by
  induction s generalizing i with
  | nil =>
    unfold findSub at h
    split at h
    · rename_i hp
      have : pat = [] := by simpa using hp
      subst this
      have : i = 0 := by simpa using h.symm
      subst this; simp
    · exact absurd h (by simp)
  | cons c rest ih =>
    unfold findSub at h
    split at h
    · rename_i hp
      have : i = 0 := by simpa using h.symm
      subst this
      have := (List.isPrefixOf_iff_prefix.mp hp).length_le
      simpa using this
    · cases hr : findSub pat rest with
      | none => rw [hr] at h; exact absurd h (by simp)
      | some j =>
        rw [hr] at h
        have : i = j + 1 := by simpa using h.symm
        subst this
        have := ih hr
        simp only [List.length_cons]; omega

/-- `StringToUrl` never leaves through an exception: its unguarded `substr` calls are in range -/
theorem stringToUrl_no_throw (s : Bytes) : stringToUrl s ≠ .threw := by
  unfold stringToUrl
  cases hf : findSub (ascii "://") s with
  | none =>
    simp only [substrFrom?, Nat.zero_le, if_true]
    split <;> simp
  | some p =>
    have hle := findSub_le hf
    have h3 : (ascii "://").length = 3 := by decide
    rw [h3] at hle
    simp only [substrFrom?, hle, if_true]
    split <;> simp

end Tbox.C12
