/- C12 helper lemmas: StringToUrlHost ∘ UrlHostToString = id and StringToUrl ∘ UrlToString = id on well-formed values. -/
import TboxModel.C12.ProofsUrlAbs
import TboxModel.C12.ProofsReq
namespace Tbox.C12

/-! ### the decimal printer against `std::stoi` -/

theorem decimal_all (P : UInt8 → Prop) (hP : ∀ d : Fin 10, P (UInt8.ofNat (48 + d.val))) (n : Nat) :
    ∀ x ∈ decimal n, P x := by
  induction n using Nat.strongRecOn with
  | _ n ih =>
    unfold decimal
    split
    · rename_i h
      intro x hx
      rw [List.mem_singleton.mp hx]
      exact hP ⟨n, h⟩
    · rename_i h
      intro x hx
      rw [List.mem_append] at hx
      rcases hx with hx | hx
      · exact ih (n / 10) (by omega) x hx
      · rw [List.mem_singleton.mp hx]
        exact hP ⟨n % 10, Nat.mod_lt _ (by omega)⟩

def stoiStep (a : Nat) (c : UInt8) : Nat := a * 10 + (c.toNat - 48)

theorem decimal_sfold (n : Nat) : (decimal n).foldl stoiStep 0 = n := by
  induction n using Nat.strongRecOn with
  | _ n ih =>
    unfold decimal
    split
    · rename_i h
      have := (digit_facts ⟨n, h⟩).2.1
      simp only at this
      simp only [List.foldl_cons, List.foldl_nil, stoiStep, this]
      omega
    · rename_i h
      rw [List.foldl_append, ih (n / 10) (by omega)]
      have := (digit_facts ⟨n % 10, Nat.mod_lt _ (by omega)⟩).2.1
      simp only at this
      simp only [List.foldl_cons, List.foldl_nil, stoiStep, this]
      omega

theorem stoi_digits (ds : Bytes) (hne : ds ≠ [])
    (hd : ∀ x ∈ ds, (48 ≤ x && x ≤ 57) = true ∧ isSpaceC x = false ∧ x ≠ 45 ∧ x ≠ 43)
    (hn : ds.foldl stoiStep 0 < 2147483648) :
    stoi ds = some (Int.ofNat (ds.foldl stoiStep 0)) := by
  cases ds with
  | nil => exact absurd rfl hne
  | cons c t =>
    have hc := hd c (by simp)
    have htw := (tw_all (fun c => 48 ≤ c && c ≤ 57) (c :: t) (fun x hx => (hd x hx).1)).1
    unfold stoi
    have hdw : (c :: t).dropWhile isSpaceC = c :: t := by simp [hc.2.1]
    rw [hdw]
    dsimp only
    split
    · rename_i t' e
      exact absurd (List.cons.inj e).1 hc.2.2.1
    · rename_i t' e
      exact absurd (List.cons.inj e).1 hc.2.2.2
    dsimp only
    rw [htw]
    have h3 : ¬ (List.foldl stoiStep 0 (c :: t) > 2147483647) := by omega
    have h4 : List.foldl (fun (a : Nat) (c : UInt8) => a * 10 + (c.toNat - 48)) 0 (c :: t) = List.foldl stoiStep 0 (c :: t) := rfl
    rw [h4]
    simp only [List.isEmpty_cons, Bool.false_eq_true, if_false, h3]

theorem stoi_decimal (n : Nat) (hn : n < 2147483648) : stoi (decimal n) = some (Int.ofNat n) := by
  have := stoi_digits (decimal n) (decimal_ne_nil n)
    (decimal_all _ (by decide) n) (by rw [decimal_sfold]; exact hn)
  rw [decimal_sfold] at this
  exact this

theorem toU16_small (n : Nat) (hn : n < 65536) : toU16 (Int.ofNat n) = n := by
  unfold toU16
  have : (Int.ofNat n) % 65536 = (n : Int) := Int.emod_eq_of_lt (by simp) (by simp; omega)
  rw [this]; rfl

/-! ### `StringToUrlHost (UrlHostToString h) = h` -/

theorem hostTok_no {b : Bytes} (h : hostTokOk b = true) : ∀ x ∈ b, x ≠ 37 ∧ x ≠ 64 ∧ x ≠ 58 ∧ x ≠ 47 := by
  intro x hx
  have := List.all_eq_true.mp h x hx
  simpa [and_assoc] using this

theorem decimal_no (n : Nat) : ∀ x ∈ decimal n, x ≠ 37 ∧ x ≠ 64 ∧ x ≠ 58 ∧ x ≠ 47 :=
  decimal_all _ (by decide) n

/-- `:port`, printed only for a non-zero port -/
def portS (p : Nat) : Bytes := if p = 0 then [] else 58 :: decimal p

theorem portS_no64 (p : Nat) : ∀ x ∈ portS p, x ≠ 64 := by
  unfold portS
  split
  · simp
  · exact no_cons (by decide) (fun x hx => (decimal_no p x hx).2.1)

theorem portS_no47 (p : Nat) : ∀ x ∈ portS p, x ≠ 47 := by
  unfold portS
  split
  · simp
  · exact no_cons (by decide) (fun x hx => (decimal_no p x hx).2.2.2)

/-- the part of `StringToUrlHost` after `host_start_pose` -/
def hostTail (user pw tail : Bytes) : Option UrlHost :=
  match findByte 58 tail with
  | none => (urlDecode tail).map fun h => ⟨user, pw, h, 0⟩
  | some c =>
    match urlDecode (tail.take c), stoi (tail.drop (c + 1)) with
    | some h, some p => some ⟨user, pw, h, toU16 p⟩
    | _, _ => none

theorem hostTail_printed (user pw host : Bytes) (port : Nat) (hh : hostTokOk host = true) (hp : port < 65536) :
    hostTail user pw (host ++ portS port) = some ⟨user, pw, host, port⟩ := by
  have h37 : ∀ x ∈ host, x ≠ 37 := fun x hx => (hostTok_no hh x hx).1
  have h58 : ∀ x ∈ host, x ≠ 58 := fun x hx => (hostTok_no hh x hx).2.2.1
  unfold hostTail portS
  by_cases h0 : port = 0
  · subst h0
    simp only [if_true, List.append_nil, findByte_no 58 host h58, urlDecode_no37 host h37, Option.map_some]
  · simp only [h0, if_false]
    rw [findByte_append_no 58 host _ h58, findByte_cons_self]
    simp only [Option.map_some, Nat.zero_add, drop_tail, List.take_left', urlDecode_no37 host h37,
      stoi_decimal port (by omega), toU16_small port hp]

theorem stringToUrlHost_eq (s : Bytes) : stringToUrlHost s =
    match (match findByte 64 s with
      | none => some (([] : Bytes), ([] : Bytes), 0)
      | some a =>
        match findByte 58 s with
        | none => (urlDecode (s.take a)).map fun u => (u, [], a + 1)
        | some c =>
          if c > a then (urlDecode (s.take a)).map fun u => (u, [], a + 1)
          else match urlDecode (s.take c), urlDecode ((s.drop (c + 1)).take (a - c - 1)) with
            | some u, some p => some (u, p, a + 1)
            | _, _ => none) with
    | none => none
    | some (user, pw, hs) => hostTail user pw (s.drop hs) := rfl

theorem urlHostToString_eq (h : UrlHost) : urlHostToString h =
    (if h.user.isEmpty then [] else h.user ++ ((if h.password.isEmpty then [] else 58 :: h.password) ++ [64])) ++
      (h.host ++ portS h.port) := rfl

/-- a delimiter behind a prefix without it, and not at the byte right behind the prefix, lies beyond it -/
theorem findByte_gt {c d : UInt8} {a b : Bytes} {i : Nat} (ha : ∀ x ∈ a, x ≠ c) (hd : d ≠ c)
    (h : findByte c (a ++ d :: b) = some i) : i > a.length := by
  have e : a ++ d :: b = (a ++ [d]) ++ b := by simp
  rw [e, findByte_append_no c (a ++ [d]) b (no_append ha (no_cons hd (by simp)))] at h
  cases hb : findByte c b with
  | none => rw [hb] at h; exact absurd h (by simp)
  | some j =>
    rw [hb] at h
    have : j + (a ++ [d]).length = i := by simpa using h
    simp only [List.length_append, List.length_cons, List.length_nil] at this
    omega

theorem urlHost_roundtrip (h : UrlHost) (hw : h.wf = true) : stringToUrlHost (urlHostToString h) = some h := by
  obtain ⟨user, pw, host, port⟩ := h
  simp only [UrlHost.wf, Bool.and_eq_true, Bool.or_eq_true, Bool.not_eq_true', decide_eq_true_eq] at hw
  obtain ⟨⟨⟨⟨hu, hpw⟩, hh⟩, hup⟩, hp⟩ := hw
  have u37 : ∀ x ∈ user, x ≠ 37 := fun x hx => (hostTok_no hu x hx).1
  have u64 : ∀ x ∈ user, x ≠ 64 := fun x hx => (hostTok_no hu x hx).2.1
  have u58 : ∀ x ∈ user, x ≠ 58 := fun x hx => (hostTok_no hu x hx).2.2.1
  have p37 : ∀ x ∈ pw, x ≠ 37 := fun x hx => (hostTok_no hpw x hx).1
  have p64 : ∀ x ∈ pw, x ≠ 64 := fun x hx => (hostTok_no hpw x hx).2.1
  have h64 : ∀ x ∈ host, x ≠ 64 := fun x hx => (hostTok_no hh x hx).2.1
  have t64 : ∀ x ∈ host ++ portS port, x ≠ 64 := no_append h64 (portS_no64 port)
  rw [urlHostToString_eq, stringToUrlHost_eq]
  simp only
  cases user with
  | nil =>
    have : pw = [] := by simpa using hup
    subst this
    simp only [List.isEmpty_nil, if_true, List.nil_append, findByte_no 64 _ t64, List.drop_zero]
    exact hostTail_printed [] [] host port hh hp
  | cons u0 ut =>
    generalize hU : u0 :: ut = user at *
    have hne : user.isEmpty = false := by rw [← hU]; rfl
    cases pw with
    | nil =>
      simp only [hne, List.isEmpty_nil, Bool.false_eq_true, if_false, if_true, List.nil_append,
        List.append_assoc, List.singleton_append]
      rw [findByte_append_no 64 user _ u64, findByte_cons_self]
      simp only [Option.map_some, Nat.zero_add]
      have htk : urlDecode ((user ++ 64 :: (host ++ portS port)).take user.length) = some user := by
        rw [List.take_left' rfl]; exact urlDecode_no37 user u37
      cases hc : findByte 58 (user ++ 64 :: (host ++ portS port)) with
      | none =>
        simp only [htk, Option.map_some, drop_tail]
        exact hostTail_printed user [] host port hh hp
      | some c =>
        have hgt := findByte_gt u58 (by decide) hc
        simp only [hgt, if_true, htk, Option.map_some, drop_tail]
        exact hostTail_printed user [] host port hh hp
    | cons p0 pt =>
      generalize hP : p0 :: pt = pw at *
      have hpne : pw.isEmpty = false := by rw [← hP]; rfl
      simp only [hne, hpne, Bool.false_eq_true, if_false, List.append_assoc, List.nil_append,
        List.cons_append]
      have e1 : user ++ 58 :: (pw ++ 64 :: (host ++ portS port)) = (user ++ 58 :: pw) ++ 64 :: (host ++ portS port) := by simp
      have hlen : (user ++ 58 :: pw).length = user.length + 1 + pw.length := by
        simp only [List.length_append, List.length_cons]; omega
      have hA : findByte 64 (user ++ 58 :: (pw ++ 64 :: (host ++ portS port))) = some (user.length + 1 + pw.length) := by
        rw [e1, findByte_append_no 64 _ _ (no_append u64 (no_cons (by decide) p64)), findByte_cons_self, hlen]
        simp
      have hC : findByte 58 (user ++ 58 :: (pw ++ 64 :: (host ++ portS port))) = some user.length := by
        rw [findByte_append_no 58 user _ u58, findByte_cons_self]
        simp
      rw [hA, hC]
      have hng : ¬ (user.length > user.length + 1 + pw.length) := by omega
      have hcnt : user.length + 1 + pw.length - user.length - 1 = pw.length := by omega
      have hdr : (user ++ 58 :: (pw ++ 64 :: (host ++ portS port))).drop (user.length + 1 + pw.length + 1) = host ++ portS port := by
        rw [e1, ← hlen, drop_tail]
      simp only [hng, if_false, hcnt, drop_tail, List.take_left', urlDecode_no37 user u37, urlDecode_no37 pw p37, hdr]
      exact hostTail_printed user pw host port hh hp

theorem hostString_no_slash (h : UrlHost) (hw : h.wf = true) : ∀ x ∈ urlHostToString h, x ≠ 47 := by
  obtain ⟨user, pw, host, port⟩ := h
  simp only [UrlHost.wf, Bool.and_eq_true, Bool.or_eq_true, Bool.not_eq_true', decide_eq_true_eq] at hw
  obtain ⟨⟨⟨⟨hu, hpw⟩, hh⟩, _⟩, _⟩ := hw
  have u47 : ∀ x ∈ user, x ≠ 47 := fun x hx => (hostTok_no hu x hx).2.2.2
  have p47 : ∀ x ∈ pw, x ≠ 47 := fun x hx => (hostTok_no hpw x hx).2.2.2
  have h47 : ∀ x ∈ host, x ≠ 47 := fun x hx => (hostTok_no hh x hx).2.2.2
  rw [urlHostToString_eq]
  simp only
  apply no_append
  · split
    · simp
    · apply no_append u47
      apply no_append
      · split
        · simp
        · exact no_cons (by decide) p47
      · exact no_cons (by decide) (by simp)
  · exact no_append h47 (portS_no47 port)

/-! ### `StringToUrl (UrlToString u) = u` -/

theorem sep_eq : ascii "://" = [58, 47, 47] := by decide

theorem findSub_scheme (sc rest : Bytes) (h : ∀ x ∈ sc, x ≠ 58) :
    findSub (ascii "://") (sc ++ ascii "://" ++ rest) = some sc.length := by
  rw [sep_eq]
  induction sc with
  | nil => simp [findSub, List.isPrefixOf]
  | cons c sc ih =>
    have hc : c ≠ 58 := h c (by simp)
    have hc' : ((58 : UInt8) == c) = false := by simpa using fun e : (58 : UInt8) = c => hc e.symm
    have := ih (fun x hx => h x (by simp [hx]))
    simp only [List.cons_append, findSub, List.isPrefixOf, hc', Bool.false_and,
      Bool.false_eq_true, if_false, this, Option.map_some, List.length_cons]

theorem url_roundtrip (u : Url) (hw : u.wf = true) : stringToUrl (urlToString u) = .ok u := by
  obtain ⟨scheme, host, path⟩ := u
  simp only [Url.wf, Bool.and_eq_true, Bool.not_eq_true'] at hw
  obtain ⟨⟨⟨hsne, hs58⟩, hhw⟩, hpw⟩ := hw
  have s58 : ∀ x ∈ scheme, x ≠ 58 := by
    intro x hx
    simpa using List.all_eq_true.mp hs58 x hx
  have hhead : path.path.head? = some 47 := by
    simp only [UrlPath.wf, Bool.and_eq_true, beq_iff_eq] at hpw
    exact hpw.1.1.1.1.1
  obtain ⟨P, hP⟩ : ∃ P, urlPathToString path = 47 :: P := by
    have h1 := urlEncode_head path.path hhead
    rw [urlPathToString_struct]
    cases he : urlEncode true path.path with
    | nil => rw [he] at h1; simp at h1
    | cons c t =>
      rw [he] at h1
      have : c = 47 := by simpa using h1
      subst this
      exact ⟨_, rfl⟩
  have hS : urlToString ⟨scheme, host, path⟩ = scheme ++ ascii "://" ++ (urlHostToString host ++ urlPathToString path) := by
    simp only [urlToString, hsne, Bool.false_eq_true, if_false]
  have hlen3 : (ascii "://").length = 3 := by decide
  have hpre : (scheme ++ ascii "://").length = scheme.length + 3 := by rw [List.length_append, hlen3]
  unfold stringToUrl
  rw [hS, findSub_scheme scheme _ s58]
  have htake : (scheme ++ ascii "://" ++ (urlHostToString host ++ urlPathToString path)).take scheme.length = scheme := by
    rw [List.append_assoc]; exact List.take_left' rfl
  have hdrop : (scheme ++ ascii "://" ++ (urlHostToString host ++ urlPathToString path)).drop (scheme.length + 3)
      = urlHostToString host ++ urlPathToString path := List.drop_left' hpre
  have hle : scheme.length + 3 ≤ (scheme ++ ascii "://" ++ (urlHostToString host ++ urlPathToString path)).length := by
    rw [List.length_append, hpre]; omega
  have hfind : findByte 47 (urlHostToString host ++ urlPathToString path) = some (urlHostToString host).length := by
    rw [findByte_append_no 47 _ _ (hostString_no_slash host hhw), hP, findByte_cons_self]
    simp
  simp only [substrFrom?, hle, if_true, htake, hdrop, hfind, List.take_left', List.drop_left',
    urlHost_roundtrip host hhw, urlPath_roundtrip path hpw]

end Tbox.C12
