/- C12 helper lemmas: StringToUrlPath ∘ UrlPathToString = id on well-formed paths (maps with arbitrary bytes). -/
import TboxModel.C12.ProofsUrl
import TboxModel.C12.Url
namespace Tbox.C12

/-! ### `std::string::operator<` and map insertion at the end -/

theorem bytesLt_irrefl (a : Bytes) : bytesLt a a = false := by
  induction a with
  | nil => rfl
  | cons x a ih => simp [bytesLt, ih]

theorem bytesLt_asymm (a b : Bytes) (h : bytesLt a b = true) : bytesLt b a = false := by
  induction a generalizing b with
  | nil => cases b <;> simp_all [bytesLt]
  | cons x a ih =>
    cases b with
    | nil => simp [bytesLt] at h
    | cons y b =>
      simp only [bytesLt, Bool.or_eq_true, decide_eq_true_eq, Bool.and_eq_true, beq_iff_eq] at h
      simp only [bytesLt, Bool.or_eq_false_iff, decide_eq_false_iff_not, Bool.and_eq_false_imp, beq_iff_eq]
      rcases h with h | ⟨h1, h2⟩
      · refine ⟨UInt8.lt_asymm h, ?_⟩
        intro e; subst e; exact absurd h (UInt8.lt_irrefl _)
      · subst h1
        exact ⟨UInt8.lt_irrefl _, fun _ => ih b h2⟩

theorem bytesLt_ne (a b : Bytes) (h : bytesLt a b = true) : (b == a) = false := by
  cases hb : (b == a) with
  | false => rfl
  | true =>
    have : b = a := by simpa using hb
    subst this
    rw [bytesLt_irrefl] at h
    exact absurd h (by decide)

/-- inserting a key greater than every key present appends -/
theorem mapInsert_append (k v : Bytes) (pre : List (Bytes × Bytes)) (h : ∀ x ∈ pre, bytesLt x.1 k = true) :
    mapInsert k v pre = pre ++ [(k, v)] := by
  induction pre with
  | nil => rfl
  | cons kv pre ih =>
    obtain ⟨k', v'⟩ := kv
    have h1 := h (k', v') (by simp)
    simp only at h1
    simp only [mapInsert, bytesLt_ne k' k h1, bytesLt_asymm k' k h1, Bool.false_eq_true, if_false, List.cons_append]
    rw [ih (fun x hx => h x (by simp [hx]))]

/-- re-inserting the entries of a key-sorted list, in order, rebuilds the list -/
theorem foldl_mapInsert_sorted (m pre : List (Bytes × Bytes)) (hm : keysAsc m = true)
    (hpre : ∀ x ∈ pre, ∀ y ∈ m, bytesLt x.1 y.1 = true) :
    m.foldl (fun acc kv => mapInsert kv.1 kv.2 acc) pre = pre ++ m := by
  induction m generalizing pre with
  | nil => simp
  | cons kv t ih =>
    simp only [keysAsc, Bool.and_eq_true, List.all_eq_true] at hm
    simp only [List.foldl_cons]
    rw [mapInsert_append kv.1 kv.2 pre (fun x hx => hpre x hx kv (by simp))]
    rw [ih (pre ++ [(kv.1, kv.2)]) hm.2 ?_]
    · simp
    · intro x hx y hy
      rw [List.mem_append] at hx
      rcases hx with hx | hx
      · exact hpre x hx y (by simp [hy])
      · rw [List.mem_singleton.mp hx]; exact hm.1 y hy

/-! ### Split over joined pieces -/

/-- `a sep b sep c` -/
def joinWith (sep : UInt8) : List Bytes → Bytes
  | [] => []
  | [x] => x
  | x :: y :: t => x ++ sep :: joinWith sep (y :: t)

theorem splitOn_no (sep : UInt8) (a : Bytes) (h : ∀ x ∈ a, x ≠ sep) : splitOn sep a = [a] := by
  induction a with
  | nil => rfl
  | cons c a ih =>
    have hc : c ≠ sep := h c (by simp)
    simp [splitOn, hc, ih (fun x hx => h x (by simp [hx]))]

theorem splitOn_append (sep : UInt8) (a b : Bytes) (h : ∀ x ∈ a, x ≠ sep) :
    splitOn sep (a ++ sep :: b) = a :: splitOn sep b := by
  induction a with
  | nil => simp [splitOn]
  | cons c a ih =>
    have hc : c ≠ sep := h c (by simp)
    simp [splitOn, hc, ih (fun x hx => h x (by simp [hx]))]

theorem splitOn_join (sep : UInt8) (items : List Bytes) (hne : items ≠ []) (h : ∀ it ∈ items, ∀ x ∈ it, x ≠ sep) :
    splitOn sep (joinWith sep items) = items := by
  induction items with
  | nil => exact absurd rfl hne
  | cons a t ih =>
    cases t with
    | nil => simpa [joinWith] using splitOn_no sep a (h a (by simp))
    | cons b t =>
      simp only [joinWith]
      rw [splitOn_append sep a _ (h a (by simp)), ih (by simp) (fun it hit => h it (by simp [hit]))]

/-! ### one `k=v` item -/

/-- how one entry is printed: `UrlEncode(k) '=' UrlEncode(v)` -/
def kvItem (kv : Bytes × Bytes) : Bytes := urlEncode false kv.1 ++ 61 :: urlEncode false kv.2

theorem enc_no (pm : Bool) (s : Bytes) (d : UInt8) (hd : isDelim d = true) : ∀ x ∈ urlEncode pm s, x ≠ d := by
  intro x hx e
  subst e
  have := urlEncode_clean pm s x hx
  rw [this] at hd
  exact absurd hd (by decide)

theorem urlEncode_ne_nil (pm : Bool) (s : Bytes) (h : s ≠ []) : urlEncode pm s ≠ [] := by
  cases s with
  | nil => exact absurd rfl h
  | cons c t => unfold urlEncode; split <;> simp

theorem splitOn_kvItem (kv : Bytes × Bytes) : splitOn 61 (kvItem kv) = [urlEncode false kv.1, urlEncode false kv.2] := by
  unfold kvItem
  rw [splitOn_append 61 _ _ (enc_no false kv.1 61 (by decide)), splitOn_no 61 _ (enc_no false kv.2 61 (by decide))]

theorem kvItem_no (kv : Bytes × Bytes) (d : UInt8) (hd : isDelim d = true) (h61 : d ≠ 61) : ∀ x ∈ kvItem kv, x ≠ d := by
  intro x hx
  simp only [kvItem, List.mem_append, List.mem_cons] at hx
  rcases hx with hx | rfl | hx
  · exact enc_no false kv.1 d hd x hx
  · exact fun e => h61 e.symm
  · exact enc_no false kv.2 d hd x hx

/-- the `k=v` list parser reads back what was printed for a key-sorted map with non-empty keys -/
theorem parseKVs_join (sep : UInt8) (hsep : isDelim sep = true) (h61 : sep ≠ 61) (m : List (Bytes × Bytes)) (hne : m ≠ [])
    (hm : keysAsc m = true) (hk : m.all (fun kv => !kv.1.isEmpty) = true) :
    parseKVs sep (joinWith sep (m.map kvItem)) = some m := by
  unfold parseKVs
  rw [splitOn_join sep (m.map kvItem) (by simpa using hne) (by
    intro it hit
    obtain ⟨kv, _, rfl⟩ := List.mem_map.mp hit
    exact kvItem_no kv sep hsep h61)]
  suffices H : ∀ (l pre : List (Bytes × Bytes)), l.all (fun kv => !kv.1.isEmpty) = true →
      (l.map kvItem).foldlM (init := pre) kvStep = some (l.foldl (fun acc kv => mapInsert kv.1 kv.2 acc) pre) by
    rw [H m [] hk, foldl_mapInsert_sorted m [] hm (by simp)]
    simp
  intro l
  induction l with
  | nil => intro pre _; rfl
  | cons kv t ih =>
    intro pre hl
    simp only [List.all_cons, Bool.and_eq_true, Bool.not_eq_true'] at hl
    have hke : (urlEncode false kv.1).isEmpty = false := by
      have : kv.1 ≠ [] := by intro e; simp [e] at hl
      simpa using urlEncode_ne_nil false kv.1 this
    simp only [List.map_cons, List.foldlM_cons, kvStep, splitOn_kvItem, hke, Bool.false_eq_true, if_false,
      urlDecode_urlEncode, List.foldl_cons]
    exact ih _ (by simpa using hl.2)

theorem urlDecode_no37 (b : Bytes) (h : ∀ x ∈ b, x ≠ 37) : urlDecode b = some b := by
  induction b with
  | nil => rfl
  | cons c t ih =>
    have hc : c ≠ 37 := h c (by simp)
    unfold urlDecode
    simp [hc, ih (fun x hx => h x (by simp [hx]))]

/-! ### positions of the three delimiters in a printed target -/

theorem findByte_cons_self (c : UInt8) (t : Bytes) : findByte c (c :: t) = some 0 := by
  simp [findByte, List.findIdx?_cons]

theorem findByte_no (c : UInt8) (a : Bytes) (h : ∀ x ∈ a, x ≠ c) : findByte c a = none := by
  unfold findByte
  rw [List.findIdx?_eq_none_iff]
  intro x hx
  simpa using h x hx

theorem findByte_append_no (c : UInt8) (a b : Bytes) (h : ∀ x ∈ a, x ≠ c) :
    findByte c (a ++ b) = (findByte c b).map (· + a.length) := by
  induction a with
  | nil => simp
  | cons x a ih =>
    have hx : (x == c) = false := by simpa using h x (by simp)
    have := ih (fun y hy => h y (by simp [hy]))
    unfold findByte at this ⊢
    rw [List.cons_append, List.findIdx?_cons]
    simp only [hx, Bool.false_eq_true, if_false, this, Option.map_map]
    congr 1

theorem no_cons {c d : UInt8} {l : Bytes} (hd : d ≠ c) (h : ∀ x ∈ l, x ≠ c) : ∀ x ∈ d :: l, x ≠ c := by
  intro x hx
  rcases List.mem_cons.mp hx with rfl | h'
  · exact hd
  · exact h x h'

theorem no_append {c : UInt8} {a b : Bytes} (ha : ∀ x ∈ a, x ≠ c) (hb : ∀ x ∈ b, x ≠ c) : ∀ x ∈ a ++ b, x ≠ c := by
  intro x hx
  rcases List.mem_append.mp hx with h | h
  · exact ha x h
  · exact hb x h

/-- optional component introduced by its delimiter -/
def optS (c : UInt8) : Option Bytes → Bytes
  | none => []
  | some b => c :: b

theorem substr_zero_len (a b : Bytes) : substr (a ++ b) 0 (some a.length) = a := by simp [substr]
theorem drop_tail (a : Bytes) (x : UInt8) (b : Bytes) : (a ++ x :: b).drop (a.length + 1) = b := by
  have : a ++ x :: b = (a ++ [x]) ++ b := by simp
  rw [this]
  exact List.drop_left' (by simp)
theorem substr_mid (a : Bytes) (x : UInt8) (b c : Bytes) :
    substr (a ++ x :: (b ++ c)) (a.length + 1) (some b.length) = b := by
  simp only [substr, drop_tail]
  exact List.take_left' rfl
theorem substr_tail (a : Bytes) (x : UInt8) (b : Bytes) : substr (a ++ x :: b) (a.length + 1) none = b := by
  simp only [substr, drop_tail]

/-- `StringToUrlPath` on a string of the shape `E [;P] [?Q] [#F]` where the delimiters occur nowhere
else in front of their own position -/
theorem parseUrlPath_struct (E : Bytes) (P Q F : Option Bytes) (hE0 : E.head? = some 47)
    (hE : ∀ x ∈ E, x ≠ 59 ∧ x ≠ 63 ∧ x ≠ 35)
    (hP : ∀ b, P = some b → ∀ x ∈ b, x ≠ 63 ∧ x ≠ 35)
    (hQ : ∀ b, Q = some b → ∀ x ∈ b, x ≠ 59 ∧ x ≠ 35)
    (hF : ∀ b, F = some b → ∀ x ∈ b, x ≠ 59 ∧ x ≠ 63) :
    parseUrlPath (E ++ (optS 59 P ++ (optS 63 Q ++ optS 35 F))) =
      match urlDecode E with
      | none => none
      | some path =>
        match (match P with | none => some [] | some b => parseKVs 59 b) with
        | none => none
        | some params =>
          match (match Q with | none => some [] | some b => parseKVs 38 b) with
          | none => none
          | some qs =>
            match (match F with | none => some [] | some b => urlDecode b) with
            | none => none
            | some frag => some ⟨path, params, qs, frag⟩ := by
  have hhead : (E ++ (optS 59 P ++ (optS 63 Q ++ optS 35 F))).head? = some 47 := by
    cases E with
    | nil => simp at hE0
    | cons c t => simpa using hE0
  have e59 : ∀ x ∈ E, x ≠ 59 := fun x hx => (hE x hx).1
  have e63 : ∀ x ∈ E, x ≠ 63 := fun x hx => (hE x hx).2.1
  have e35 : ∀ x ∈ E, x ≠ 35 := fun x hx => (hE x hx).2.2
  unfold parseUrlPath
  simp only [hhead, bne_self_eq_false, Bool.false_eq_true, if_false]
  cases P with
  | none =>
    cases Q with
    | none =>
      cases F with
      | none =>
        simp only [optS, List.append_nil, findByte_no 59 E e59, findByte_no 63 E e63, findByte_no 35 E e35,
          Option.orElse_none, substr, List.drop_zero]
        cases urlDecode E <;> rfl
      | some f =>
        have f59 : ∀ x ∈ f, x ≠ 59 := fun x hx => (hF f rfl x hx).1
        have f63 : ∀ x ∈ f, x ≠ 63 := fun x hx => (hF f rfl x hx).2
        simp only [optS, List.nil_append, List.cons_append]
        rw [findByte_append_no 59 E _ e59, findByte_append_no 63 E _ e63, findByte_append_no 35 E _ e35,
          findByte_cons_self, findByte_no 59 (35 :: f) (by intro x hx; rcases List.mem_cons.mp hx with rfl | h; decide; exact f59 x h),
          findByte_no 63 (35 :: f) (by intro x hx; rcases List.mem_cons.mp hx with rfl | h; decide; exact f63 x h)]
        simp only [Option.map_none, Option.map_some, Option.orElse_none, Option.orElse_some, Nat.zero_add,
          substr_zero_len, drop_tail]
        cases urlDecode E <;> cases urlDecode f <;> rfl
    | some q =>
      have q59 : ∀ x ∈ q, x ≠ 59 := fun x hx => (hQ q rfl x hx).1
      have q35 : ∀ x ∈ q, x ≠ 35 := fun x hx => (hQ q rfl x hx).2
      cases F with
      | none =>
        simp only [optS, List.nil_append, List.append_nil, List.cons_append]
        rw [findByte_append_no 59 E _ e59, findByte_append_no 63 E _ e63, findByte_append_no 35 E _ e35,
          findByte_cons_self, findByte_no 59 (63 :: q) (by intro x hx; rcases List.mem_cons.mp hx with rfl | h; decide; exact q59 x h),
          findByte_no 35 (63 :: q) (by intro x hx; rcases List.mem_cons.mp hx with rfl | h; decide; exact q35 x h)]
        simp only [Option.map_none, Option.map_some, Option.orElse_none, Option.orElse_some, Nat.zero_add,
          substr_zero_len, wrapCount, substr_tail]
        cases urlDecode E <;> cases parseKVs 38 q <;> rfl
      | some f =>
        have f59 : ∀ x ∈ f, x ≠ 59 := fun x hx => (hF f rfl x hx).1
        have f63 : ∀ x ∈ f, x ≠ 63 := fun x hx => (hF f rfl x hx).2
        simp only [optS, List.nil_append, List.cons_append]
        have h59 : ∀ x ∈ 63 :: (q ++ 35 :: f), x ≠ 59 := by
          intro x hx
          simp only [List.mem_cons, List.mem_append] at hx
          rcases hx with rfl | h | rfl | h
          · decide
          · exact q59 x h
          · decide
          · exact f59 x h
        have hq35 : ∀ x ∈ 63 :: q, x ≠ 35 := by
          intro x hx; rcases List.mem_cons.mp hx with rfl | h; decide; exact q35 x h
        have hEq : E ++ 63 :: (q ++ 35 :: f) = (E ++ 63 :: q) ++ 35 :: f := by simp
        have h35 : findByte 35 (E ++ 63 :: (q ++ 35 :: f)) = some (E.length + 1 + q.length) := by
          rw [hEq, findByte_append_no 35 _ _ (by
            intro x hx; rcases List.mem_append.mp hx with h | h; exact e35 x h; exact hq35 x h), findByte_cons_self]
          simp; omega
        rw [h35, findByte_append_no 59 E _ e59, findByte_append_no 63 E _ e63, findByte_cons_self, findByte_no 59 _ h59]
        simp only [Option.map_none, Option.map_some, Option.orElse_none, Option.orElse_some, Nat.zero_add,
          substr_zero_len, wrapCount]
        have hgt : E.length + 1 + q.length > E.length := by omega
        have hcnt : E.length + 1 + q.length - E.length - 1 = q.length := by omega
        simp only [hgt, if_true, hcnt, substr_mid]
        have : (E ++ 63 :: (q ++ 35 :: f)).drop (E.length + 1 + q.length + 1) = f := by
          rw [hEq]
          have : E.length + 1 + q.length = (E ++ 63 :: q).length := by simp only [List.length_append, List.length_cons]; omega
          rw [this, drop_tail]
        rw [this]
        cases urlDecode E <;> cases parseKVs 38 q <;> cases urlDecode f <;> rfl
  | some p =>
    have p63 : ∀ x ∈ p, x ≠ 63 := fun x hx => (hP p rfl x hx).1
    have p35 : ∀ x ∈ p, x ≠ 35 := fun x hx => (hP p rfl x hx).2
    cases Q with
    | none =>
      cases F with
      | none =>
        simp only [optS, List.nil_append, List.append_nil, List.cons_append]
        rw [findByte_append_no 59 E _ e59, findByte_append_no 63 E _ e63, findByte_append_no 35 E _ e35,
          findByte_cons_self, findByte_no 63 (59 :: p) (no_cons (by decide) p63), findByte_no 35 (59 :: p) (no_cons (by decide) p35)]
        simp only [Option.map_none, Option.map_some, Option.orElse_none, Option.orElse_some, Nat.zero_add,
          substr_zero_len, wrapCount, substr_tail]
        cases urlDecode E <;> cases parseKVs 59 p <;> rfl
      | some f =>
        have f59 : ∀ x ∈ f, x ≠ 59 := fun x hx => (hF f rfl x hx).1
        have f63 : ∀ x ∈ f, x ≠ 63 := fun x hx => (hF f rfl x hx).2
        simp only [optS, List.nil_append, List.cons_append]
        have hEq : E ++ 59 :: (p ++ 35 :: f) = (E ++ 59 :: p) ++ 35 :: f := by simp
        have h35 : findByte 35 (E ++ 59 :: (p ++ 35 :: f)) = some (E.length + 1 + p.length) := by
          rw [hEq, findByte_append_no 35 _ _ (no_append e35 (no_cons (by decide) p35)), findByte_cons_self]
          simp; omega
        rw [h35, findByte_append_no 59 E _ e59, findByte_append_no 63 E _ e63, findByte_cons_self,
          findByte_no 63 _ (no_cons (by decide) (no_append p63 (no_cons (by decide) f63)))]
        simp only [Option.map_none, Option.map_some, Option.orElse_none, Option.orElse_some, Nat.zero_add,
          substr_zero_len, wrapCount]
        have hgt : E.length + 1 + p.length > E.length := by omega
        have hcnt : E.length + 1 + p.length - E.length - 1 = p.length := by omega
        simp only [hgt, if_true, hcnt, substr_mid]
        have : (E ++ 59 :: (p ++ 35 :: f)).drop (E.length + 1 + p.length + 1) = f := by
          rw [hEq]
          have : E.length + 1 + p.length = (E ++ 59 :: p).length := by simp only [List.length_append, List.length_cons]; omega
          rw [this, drop_tail]
        rw [this]
        cases urlDecode E <;> cases parseKVs 59 p <;> cases urlDecode f <;> rfl
    | some q =>
      have q59 : ∀ x ∈ q, x ≠ 59 := fun x hx => (hQ q rfl x hx).1
      have q35 : ∀ x ∈ q, x ≠ 35 := fun x hx => (hQ q rfl x hx).2
      cases F with
      | none =>
        simp only [optS, List.nil_append, List.append_nil, List.cons_append]
        have hEq : E ++ 59 :: (p ++ 63 :: q) = (E ++ 59 :: p) ++ 63 :: q := by simp
        have hlen : E.length + 1 + p.length = (E ++ 59 :: p).length := by simp only [List.length_append, List.length_cons]; omega
        have h63 : findByte 63 (E ++ 59 :: (p ++ 63 :: q)) = some (E.length + 1 + p.length) := by
          rw [hEq, findByte_append_no 63 _ _ (no_append e63 (no_cons (by decide) p63)), findByte_cons_self]
          simp; omega
        rw [h63, findByte_append_no 59 E _ e59, findByte_append_no 35 E _ e35, findByte_cons_self,
          findByte_no 35 _ (no_cons (by decide) (no_append p35 (no_cons (by decide) q35)))]
        simp only [Option.map_none, Option.map_some, Option.orElse_none, Option.orElse_some, Nat.zero_add,
          substr_zero_len, wrapCount]
        have hgt : E.length + 1 + p.length > E.length := by omega
        have hcnt : E.length + 1 + p.length - E.length - 1 = p.length := by omega
        simp only [hgt, if_true, hcnt, substr_mid]
        have : substr (E ++ 59 :: (p ++ 63 :: q)) (E.length + 1 + p.length + 1) none = q := by
          rw [hEq, hlen, substr_tail]
        rw [this]
        cases urlDecode E <;> cases parseKVs 59 p <;> cases parseKVs 38 q <;> rfl
      | some f =>
        have f59 : ∀ x ∈ f, x ≠ 59 := fun x hx => (hF f rfl x hx).1
        have f63 : ∀ x ∈ f, x ≠ 63 := fun x hx => (hF f rfl x hx).2
        simp only [optS, List.nil_append, List.cons_append]
        have hEq : E ++ 59 :: (p ++ 63 :: (q ++ 35 :: f)) = (E ++ 59 :: p) ++ 63 :: (q ++ 35 :: f) := by simp
        have hEq2 : E ++ 59 :: (p ++ 63 :: (q ++ 35 :: f)) = ((E ++ 59 :: p) ++ 63 :: q) ++ 35 :: f := by simp
        have hlen : E.length + 1 + p.length = (E ++ 59 :: p).length := by simp only [List.length_append, List.length_cons]; omega
        have hlen2 : E.length + 1 + p.length + 1 + q.length = ((E ++ 59 :: p) ++ 63 :: q).length := by simp only [List.length_append, List.length_cons]; omega
        have h63 : findByte 63 (E ++ 59 :: (p ++ 63 :: (q ++ 35 :: f))) = some (E.length + 1 + p.length) := by
          rw [hEq, findByte_append_no 63 _ _ (no_append e63 (no_cons (by decide) p63)), findByte_cons_self]
          simp; omega
        have h35 : findByte 35 (E ++ 59 :: (p ++ 63 :: (q ++ 35 :: f))) = some (E.length + 1 + p.length + 1 + q.length) := by
          rw [hEq2, findByte_append_no 35 _ _ (no_append (no_append e35 (no_cons (by decide) p35)) (no_cons (by decide) q35)),
            findByte_cons_self]
          simp; omega
        rw [h63, h35, findByte_append_no 59 E _ e59, findByte_cons_self]
        simp only [Option.map_none, Option.map_some, Option.orElse_none, Option.orElse_some, Nat.zero_add,
          substr_zero_len, wrapCount]
        have hgt : E.length + 1 + p.length > E.length := by omega
        have hcnt : E.length + 1 + p.length - E.length - 1 = p.length := by omega
        have hgt2 : E.length + 1 + p.length + 1 + q.length > E.length + 1 + p.length := by omega
        have hcnt2 : E.length + 1 + p.length + 1 + q.length - (E.length + 1 + p.length) - 1 = q.length := by omega
        simp only [hgt, if_true, hcnt, substr_mid, hgt2, hcnt2]
        have hq : substr (E ++ 59 :: (p ++ 63 :: (q ++ 35 :: f))) (E.length + 1 + p.length + 1) (some q.length) = q := by
          rw [hEq, hlen, substr_mid]
        have hf : (E ++ 59 :: (p ++ 63 :: (q ++ 35 :: f))).drop (E.length + 1 + p.length + 1 + q.length + 1) = f := by
          rw [hEq2, hlen2, drop_tail]
        rw [hq, hf]
        cases urlDecode E <;> cases parseKVs 59 p <;> cases parseKVs 38 q <;> cases urlDecode f <;> rfl

/-! ### the printed form of a path value -/

def joinedKVs (sep : UInt8) (m : List (Bytes × Bytes)) : Option Bytes :=
  if m.isEmpty then none else some (joinWith sep (m.map kvItem))

theorem flatten_sep (sep : UInt8) (l : List (Bytes × Bytes)) :
    (l.map fun kv => sep :: (urlEncode false kv.1 ++ 61 :: urlEncode false kv.2)).flatten = optS sep (joinedKVs sep l) := by
  induction l with
  | nil => rfl
  | cons kv t ih =>
    cases t with
    | nil => simp [joinedKVs, optS, joinWith, kvItem]
    | cons kv2 t2 =>
      simp only [joinedKVs, List.isEmpty_cons, Bool.false_eq_true, if_false, optS] at ih
      simp only [List.map_cons, List.flatten_cons] at ih ⊢
      rw [ih]
      simp [joinedKVs, optS, joinWith, kvItem]

theorem urlPathToString_struct (u : UrlPath) :
    urlPathToString u = urlEncode true u.path ++ (optS 59 (joinedKVs 59 u.params) ++
      (optS 63 (joinedKVs 38 u.query) ++ optS 35 (if u.frag.isEmpty then none else some u.frag))) := by
  obtain ⟨path, params, query, frag⟩ := u
  have hf : (if frag.isEmpty then [] else 35 :: frag) = optS 35 (if frag.isEmpty then none else some frag) := by
    split <;> rfl
  cases query with
  | nil =>
    simp only [urlPathToString, flatten_sep 59 params, hf]
    simp [joinedKVs, optS]
  | cons kv rest =>
    simp only [urlPathToString, flatten_sep 59 params, flatten_sep 38 rest, hf]
    cases rest with
    | nil => simp [joinedKVs, optS, joinWith, kvItem]
    | cons kv2 r2 => simp [joinedKVs, optS, joinWith, kvItem]

theorem joinWith_no (sep d : UInt8) (items : List Bytes) (hd : sep ≠ d) (h : ∀ it ∈ items, ∀ x ∈ it, x ≠ d) :
    ∀ x ∈ joinWith sep items, x ≠ d := by
  induction items with
  | nil => simp [joinWith]
  | cons a t ih =>
    cases t with
    | nil => simpa [joinWith] using h a (by simp)
    | cons b t =>
      simp only [joinWith]
      exact no_append (h a (by simp)) (no_cons hd (ih (fun it hit => h it (by simp [hit]))))

theorem joinedKVs_no (sep d : UInt8) (hd : isDelim d = true) (h61 : d ≠ 61) (hsd : sep ≠ d) (m : List (Bytes × Bytes)) :
    ∀ b, joinedKVs sep m = some b → ∀ x ∈ b, x ≠ d := by
  intro b hb
  unfold joinedKVs at hb
  split at hb
  · exact absurd hb (by simp)
  · have : b = joinWith sep (m.map kvItem) := by simpa using hb.symm
    subst this
    apply joinWith_no sep d _ hsd
    intro it hit
    obtain ⟨kv, _, rfl⟩ := List.mem_map.mp hit
    exact kvItem_no kv d hd h61

theorem parseKVs_joined (sep : UInt8) (hsep : isDelim sep = true) (h61 : sep ≠ 61) (m : List (Bytes × Bytes))
    (hm : keysAsc m = true) (hk : m.all (fun kv => !kv.1.isEmpty) = true) :
    (match joinedKVs sep m with | none => some [] | some b => parseKVs sep b) = some m := by
  unfold joinedKVs
  cases m with
  | nil => rfl
  | cons kv t =>
    simp only [List.isEmpty_cons, Bool.false_eq_true, if_false]
    exact parseKVs_join sep hsep h61 (kv :: t) (by simp) hm hk

theorem urlEncode_head (path : Bytes) (hp : path.head? = some 47) : (urlEncode true path).head? = some 47 := by
  cases path with
  | nil => simp at hp
  | cons c rest =>
    have : c = 47 := by simpa using hp
    subst this
    have : needsEscape true 47 = false := by decide
    simp [urlEncode, this]

/-- `StringToUrlPath (UrlPathToString u) = u` for every well-formed path value -/
theorem urlPath_roundtrip (u : UrlPath) (hw : u.wf = true) : parseUrlPath (urlPathToString u) = some u := by
  simp only [UrlPath.wf, Bool.and_eq_true, beq_iff_eq] at hw
  obtain ⟨⟨⟨⟨⟨hp, hpa⟩, hpk⟩, hqa⟩, hqk⟩, hfr⟩ := hw
  rw [urlPathToString_struct]
  rw [parseUrlPath_struct _ _ _ _ (urlEncode_head u.path hp)
    (fun x hx => ⟨enc_no true u.path 59 (by decide) x hx, enc_no true u.path 63 (by decide) x hx, enc_no true u.path 35 (by decide) x hx⟩)
    (fun b hb x hx => ⟨joinedKVs_no 59 63 (by decide) (by decide) (by decide) u.params b hb x hx,
                       joinedKVs_no 59 35 (by decide) (by decide) (by decide) u.params b hb x hx⟩)
    (fun b hb x hx => ⟨joinedKVs_no 38 59 (by decide) (by decide) (by decide) u.query b hb x hx,
                       joinedKVs_no 38 35 (by decide) (by decide) (by decide) u.query b hb x hx⟩)
    (by
      intro b hb x hx
      split at hb
      · exact absurd hb (by simp)
      · have : b = u.frag := by simpa using hb.symm
        subst this
        have := List.all_eq_true.mp hfr x hx
        simp only [Bool.and_eq_true, bne_iff_ne, ne_eq] at this
        exact ⟨this.1.2, this.2⟩)]
  rw [urlDecode_urlEncode, parseKVs_joined 59 (by decide) (by decide) u.params hpa hpk,
    parseKVs_joined 38 (by decide) (by decide) u.query hqa hqk]
  have hfrag : (match (if u.frag.isEmpty then none else some u.frag) with | none => some [] | some b => urlDecode b) = some u.frag := by
    split
    · rename_i h
      split at h
      · rename_i he; simp at he; simp [he]
      · exact absurd h (by simp)
    · rename_i b h
      split at h
      · exact absurd h (by simp)
      · have hb : b = u.frag := by simpa using h.symm
        subst hb
        exact urlDecode_no37 _ (by
          intro x hx
          have := List.all_eq_true.mp hfr x hx
          simp only [Bool.and_eq_true, bne_iff_ne, ne_eq] at this
          exact this.1.1)
  rw [hfrag]

end Tbox.C12
