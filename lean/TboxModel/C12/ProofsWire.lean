/- C12 helper lemmas: functional correctness of the parser on well-formed wire requests. -/
import TboxModel.C12.ProofsFeed
import TboxModel.C12.Spec
namespace Tbox.C12

/-! ### list facts -/

theorem splitCRLF_no13 (l r : Bytes) (h : ∀ x ∈ l, x ≠ 13) : splitCRLF (l ++ 13 :: 10 :: r) = some (l, r) := by
  induction l with
  | nil => simp [splitCRLF]
  | cons b l ih =>
    have hb : b ≠ 13 := h b (by simp)
    have := ih (fun x hx => h x (by simp [hx]))
    simp [splitCRLF, hb, this]

theorem tw_stop (p : UInt8 → Bool) (a : Bytes) (b : UInt8) (t : Bytes) (ha : ∀ x ∈ a, p x = true) (hb : p b = false) :
    (a ++ b :: t).takeWhile p = a ∧ (a ++ b :: t).dropWhile p = b :: t := by
  induction a with
  | nil => simp [hb]
  | cons x a ih =>
    have hx : p x = true := ha x (by simp)
    have := ih (fun y hy => ha y (by simp [hy]))
    simp [hx, this]

theorem tw_all (p : UInt8 → Bool) (a : Bytes) (ha : ∀ x ∈ a, p x = true) :
    a.takeWhile p = a ∧ a.dropWhile p = [] := by
  induction a with
  | nil => simp
  | cons x a ih =>
    have hx : p x = true := ha x (by simp)
    have := ih (fun y hy => ha y (by simp [hy]))
    simp [hx, this]

theorem dropSpaces_of_head (x : Bytes) (h : x.head? ≠ some 32) : dropSpaces x = x := by
  cases x with
  | nil => rfl
  | cons c t =>
    have : c ≠ 32 := by simpa using h
    simp [dropSpaces, this]

theorem all_ne {b : Bytes} {c : UInt8} (h : b.all (· != c) = true) : ∀ x ∈ b, (x != c) = true := by
  simpa using h

theorem head_of_all_ne {b : Bytes} {t : Bytes} (hne : b.isEmpty = false) (h : b.all (· != 32) = true) :
    (b ++ t).head? ≠ some 32 := by
  cases b with
  | nil => simp at hne
  | cons c b' =>
    have := all_ne h c (by simp)
    simpa using this

/-! ### the decimal printer against the checked Content-Length parse -/

def lenStep (acc : Option Nat) (c : UInt8) : Option Nat :=
  match acc with
  | none => none
  | some r =>
    if c < 48 || c > 57 then none
    else
      let d := c.toNat - 48
      if r > (2 ^ 64 - 2 - d) / 10 then none else some (r * 10 + d)

theorem parseLenChecked_eq (v : Bytes) : parseLenChecked v = if v.isEmpty then none else v.foldl lenStep (some 0) := rfl

theorem digit_facts : ∀ d : Fin 10, ((UInt8.ofNat (48 + d.val) < 48 || UInt8.ofNat (48 + d.val) > 57) = false) ∧
    (UInt8.ofNat (48 + d.val)).toNat - 48 = d.val ∧ UInt8.ofNat (48 + d.val) ≠ 13 ∧ UInt8.ofNat (48 + d.val) ≠ 32 := by
  decide

theorem lenStep_digit (r d : Nat) (hd : d < 10) (hr : r * 10 + d ≤ 2 ^ 64 - 2) :
    lenStep (some r) (UInt8.ofNat (48 + d)) = some (r * 10 + d) := by
  have := digit_facts ⟨d, hd⟩
  simp only at this
  simp only [lenStep, this.1, this.2.1, Bool.false_eq_true, if_false]
  have : ¬ r > (2 ^ 64 - 2 - d) / 10 := by
    rw [Nat.not_lt, Nat.le_div_iff_mul_le (by omega)]
    omega
  simp [this]

theorem decimal_ne_nil (n : Nat) : decimal n ≠ [] := by
  unfold decimal; split <;> simp

theorem decimal_fold (n : Nat) (hn : n ≤ 2 ^ 64 - 2) : (decimal n).foldl lenStep (some 0) = some n := by
  induction n using Nat.strongRecOn with
  | _ n ih =>
    unfold decimal
    split
    · rename_i h
      simpa using lenStep_digit 0 n h (by omega)
    · rename_i h
      rw [List.foldl_append, ih (n / 10) (by omega) (by omega)]
      have := lenStep_digit (n / 10) (n % 10) (Nat.mod_lt _ (by omega)) (by omega)
      simp only [List.foldl_cons, List.foldl_nil, this]
      congr 1; omega

theorem parseLenChecked_decimal (n : Nat) (hn : n ≤ 2 ^ 64 - 2) : parseLenChecked (decimal n) = some n := by
  rw [parseLenChecked_eq, decimal_fold n hn]
  simp [decimal_ne_nil]

theorem decimal_digits (n : Nat) : ∀ x ∈ decimal n, x ≠ 13 ∧ x ≠ 32 := by
  induction n using Nat.strongRecOn with
  | _ n ih =>
    unfold decimal
    split
    · rename_i h
      intro x hx
      rw [List.mem_singleton.mp hx]
      exact (digit_facts ⟨n, h⟩).2.2
    · rename_i h
      intro x hx
      rw [List.mem_append] at hx
      rcases hx with hx | hx
      · exact ih (n / 10) (by omega) x hx
      · rw [List.mem_singleton.mp hx]
        exact (digit_facts ⟨n % 10, Nat.mod_lt _ (by omega)⟩).2.2
