/- C12 helper lemmas: functional correctness of the parser on well-formed wire requests. -/
import TboxModel.C12.ProofsFeed
import TboxModel.C12.Spec
namespace Tbox.C12

/-! ### list facts -/

theorem splitCRLF_no13 (l r : Bytes) (h : ∀ x ∈ l, x ≠ 13) : splitCRLF (l ++ 13 :: 10 :: r) = some (l, r) := by
  induction l with
  | nil => simp [splitCRLF]
  | cons b l ih =>
    have hb : b ≠ 13 := h b (by simp)
    have := ih (fun x hx => h x (by simp [hx]))
    simp [splitCRLF, hb, this]

theorem tw_stop (p : UInt8 → Bool) (a : Bytes) (b : UInt8) (t : Bytes) (ha : ∀ x ∈ a, p x = true) (hb : p b = false) :
    (a ++ b :: t).takeWhile p = a ∧ (a ++ b :: t).dropWhile p = b :: t := by
  induction a with
  | nil => simp [hb]
  | cons x a ih =>
    have hx : p x = true := ha x (by simp)
    have := ih (fun y hy => ha y (by simp [hy]))
    simp [hx, this]

theorem tw_all (p : UInt8 → Bool) (a : Bytes) (ha : ∀ x ∈ a, p x = true) :
    a.takeWhile p = a ∧ a.dropWhile p = [] := by
  induction a with
  | nil => simp
  | cons x a ih =>
    have hx : p x = true := ha x (by simp)
    have := ih (fun y hy => ha y (by simp [hy]))
    simp [hx, this]

theorem dropSpaces_of_head (x : Bytes) (h : x.head? ≠ some 32) : dropSpaces x = x := by
  cases x with
  | nil => rfl
  | cons c t =>
    have : c ≠ 32 := by simpa using h
    simp [dropSpaces, this]

theorem all_ne {b : Bytes} {c : UInt8} (h : b.all (· != c) = true) : ∀ x ∈ b, (x != c) = true := by
  simpa using h

theorem head_of_all_ne {b : Bytes} {t : Bytes} (hne : b.isEmpty = false) (h : b.all (· != 32) = true) :
    (b ++ t).head? ≠ some 32 := by
  cases b with
  | nil => simp at hne
  | cons c b' =>
    have := all_ne h c (by simp)
    simpa using this

/-! ### the decimal printer against the checked Content-Length parse -/

def lenStep (acc : Option Nat) (c : UInt8) : Option Nat :=
  match acc with
  | none => none
  | some r =>
    if c < 48 || c > 57 then none
    else
      let d := c.toNat - 48
      if r > (2 ^ 64 - 2 - d) / 10 then none else some (r * 10 + d)

theorem parseLenChecked_eq (v : Bytes) : parseLenChecked v = if v.isEmpty then none else v.foldl lenStep (some 0) := rfl

theorem digit_facts : ∀ d : Fin 10, ((UInt8.ofNat (48 + d.val) < 48 || UInt8.ofNat (48 + d.val) > 57) = false) ∧
    (UInt8.ofNat (48 + d.val)).toNat - 48 = d.val ∧ UInt8.ofNat (48 + d.val) ≠ 13 ∧ UInt8.ofNat (48 + d.val) ≠ 32 := by
  decide

theorem lenStep_digit (r d : Nat) (hd : d < 10) (hr : r * 10 + d ≤ 2 ^ 64 - 2) :
    lenStep (some r) (UInt8.ofNat (48 + d)) = some (r * 10 + d) := by
  have := digit_facts ⟨d, hd⟩
  simp only at this
  simp only [lenStep, this.1, this.2.1, Bool.false_eq_true, if_false]
  have : ¬ r > (2 ^ 64 - 2 - d) / 10 := by
    rw [Nat.not_lt, Nat.le_div_iff_mul_le (by omega)]
    omega
  simp [this]

theorem decimal_ne_nil (n : Nat) : decimal n ≠ [] := by
  unfold decimal; split <;> simp

theorem decimal_fold (n : Nat) (hn : n ≤ 2 ^ 64 - 2) : (decimal n).foldl lenStep (some 0) = some n := by
  induction n using Nat.strongRecOn with
  | _ n ih =>
    unfold decimal
    split
    · rename_i h
      simpa using lenStep_digit 0 n h (by omega)
    · rename_i h
      rw [List.foldl_append, ih (n / 10) (by omega) (by omega)]
      have := lenStep_digit (n / 10) (n % 10) (Nat.mod_lt _ (by omega)) (by omega)
      simp only [List.foldl_cons, List.foldl_nil, this]
      congr 1; omega

theorem parseLenChecked_decimal (n : Nat) (hn : n ≤ 2 ^ 64 - 2) : parseLenChecked (decimal n) = some n := by
  rw [parseLenChecked_eq, decimal_fold n hn]
  simp [decimal_ne_nil]

theorem decimal_digits (n : Nat) : ∀ x ∈ decimal n, x ≠ 13 ∧ x ≠ 32 := by
  induction n using Nat.strongRecOn with
  | _ n ih =>
    unfold decimal
    split
    · rename_i h
      intro x hx
      rw [List.mem_singleton.mp hx]
      exact (digit_facts ⟨n, h⟩).2.2
    · rename_i h
      intro x hx
      rw [List.mem_append] at hx
      rcases hx with hx | hx
      · exact ih (n / 10) (by omega) x hx
      · rw [List.mem_singleton.mp hx]
        exact (digit_facts ⟨n % 10, Nat.mod_lt _ (by omega)⟩).2.2

/-! ### start line and header lines of a well-formed request -/

theorem dropWhile32_no32 (l : Bytes) (h : ∀ x ∈ l, x ≠ 32) : l.dropWhile (· == 32) = l := by
  cases l with
  | nil => rfl
  | cons c t =>
    have : c ≠ 32 := h c (by simp)
    simp [this]

theorem strip_no32 (l : Bytes) (h : ∀ x ∈ l, x ≠ 32) : strip l = l := by
  unfold strip dropSpaces
  rw [dropWhile32_no32 l h, dropWhile32_no32 l.reverse (fun x hx => h x (List.mem_reverse.mp hx))]
  simp

theorem parseStartLine_wire (m t v : Bytes) (hm : tokenOk m = true) (ht : tokenOk t = true) (hv : tokenOk v = true)
    (hv5 : (v.take 5 == ascii "HTTP/") = true) :
    parseStartLine (m ++ 32 :: (t ++ 32 :: v)) =
      match methodOf m, parseUrlPath t, verOf v with
      | some me, some u, some ve => some (me, u, ve)
      | _, _, _ => none := by
  simp only [tokenOk, Bool.and_eq_true, Bool.not_eq_true'] at hm ht hv
  obtain ⟨⟨hm0, hm32⟩, _⟩ := hm
  obtain ⟨⟨ht0, ht32⟩, _⟩ := ht
  obtain ⟨⟨hv0, hv32⟩, _⟩ := hv
  have s1 := tw_stop (· != 32) m 32 (t ++ 32 :: v) (all_ne hm32) (by decide)
  have s2 := tw_stop (· != 32) t 32 v (all_ne ht32) (by decide)
  have d1 : dropSpaces (32 :: (t ++ 32 :: v)) = t ++ 32 :: v := by
    have : dropSpaces (32 :: (t ++ 32 :: v)) = dropSpaces (t ++ 32 :: v) := by simp [dropSpaces]
    rw [this]; exact dropSpaces_of_head _ (head_of_all_ne ht0 ht32)
  have d2 : dropSpaces (32 :: v) = v := by
    have : dropSpaces (32 :: v) = dropSpaces v := by simp [dropSpaces]
    rw [this]
    have := head_of_all_ne (t := []) hv0 hv32
    simp only [List.append_nil] at this
    exact dropSpaces_of_head _ this
  have hvne : v.isEmpty = false := hv0
  have hv5' : (v.take 5 != ascii "HTTP/") = false := by simp [bne, hv5]
  unfold parseStartLine
  simp only [s1.1, s1.2, d1, s2.1, s2.2, d2, List.isEmpty_cons, Bool.false_eq_true, if_false, hvne, hv5']
  have htne : (t ++ 32 :: v).isEmpty = false := by cases t <;> simp
  simp only [htne, Bool.false_eq_true, if_false]
  cases methodOf m <;> cases parseUrlPath t <;> cases verOf v <;> rfl

theorem parseHeaderLine_wire (k v : Bytes) (hk58 : k.all (· != 58) = true) (hks : strip k = k)
    (hv0 : v.isEmpty = false) (hvh : v.head? ≠ some 32) (hvs : strip v = v) :
    parseHeaderLine (k ++ 58 :: 32 :: v) = some (k, v) := by
  have s := tw_stop (· != 58) k 58 (32 :: v) (all_ne hk58) (by decide)
  have d : dropSpaces (32 :: v) = v := by
    have : dropSpaces (32 :: v) = dropSpaces v := by simp [dropSpaces]
    rw [this]; exact dropSpaces_of_head _ hvh
  unfold parseHeaderLine
  simp only [s.1, s.2, d, hv0, Bool.false_eq_true, if_false, hks, hvs]

theorem hdrLine_append (kv : Bytes × Bytes) (r : Bytes) :
    hdrLine kv ++ r = (kv.1 ++ 58 :: 32 :: kv.2) ++ 13 :: 10 :: r := by
  simp [hdrLine]

def insHdr (m : List (Bytes × Bytes)) (kv : Bytes × Bytes) : List (Bytes × Bytes) := mapInsert kv.1 kv.2 m

theorem hdrOk_line_no13 {kv : Bytes × Bytes} (h13k : kv.1.all (· != 13) = true) (h13v : kv.2.all (· != 13) = true) :
    ∀ x ∈ kv.1 ++ 58 :: 32 :: kv.2, x ≠ 13 := by
  intro x hx
  simp only [List.mem_append, List.mem_cons] at hx
  rcases hx with hx | rfl | rfl | hx
  · simpa using all_ne h13k x hx
  · decide
  · decide
  · simpa using all_ne h13v x hx

/-- the header loop walks over printed header lines, inserting each into the map -/
theorem headersLoop_wire (hs : List (Bytes × Bytes)) (hok : hs.all hdrOk = true) (req : Req) (clen : Option Nat)
    (tail : Bytes) (f f2 : Nat) (hf : ((hs.map hdrLine).flatten ++ tail).length < f) (hf2 : tail.length < f2) :
    headersLoop Cfg.fixed f req clen ((hs.map hdrLine).flatten ++ tail)
      = headersLoop Cfg.fixed f2 { req with headers := hs.foldl insHdr req.headers } clen tail := by
  induction hs generalizing req f with
  | nil => simpa using headersLoop_fuel Cfg.fixed f f2 req clen tail (by simpa using hf) hf2
  | cons kv hs ih =>
    simp only [List.all_cons, Bool.and_eq_true] at hok
    obtain ⟨hkv, hrest⟩ := hok
    simp only [hdrOk, Bool.and_eq_true, Bool.not_eq_true', bne_iff_ne, ne_eq, beq_iff_eq] at hkv
    obtain ⟨⟨⟨⟨⟨⟨⟨h58, h13k⟩, hsk⟩, hcl⟩, hv0⟩, h13v⟩, hsv⟩, hvh⟩ := hkv
    cases f with
    | zero => omega
    | succ f' =>
      have hb : ((kv :: hs).map hdrLine).flatten ++ tail
          = (kv.1 ++ 58 :: 32 :: kv.2) ++ 13 :: 10 :: ((hs.map hdrLine).flatten ++ tail) := by simp [hdrLine]
      rw [hb] at hf ⊢
      have hsplit := splitCRLF_no13 (kv.1 ++ 58 :: 32 :: kv.2) ((hs.map hdrLine).flatten ++ tail) (hdrOk_line_no13 h13k h13v)
      have hline := parseHeaderLine_wire kv.1 kv.2 h58 hsk hv0 hvh hsv
      have hne : (kv.1 ++ 58 :: 32 :: kv.2).isEmpty = false := by cases kv.1 <;> simp
      have hkey : (kv.1 == ascii "Content-Length") = false := by simpa using hcl
      rw [headersLoop]
      simp only [hsplit, hne, Bool.false_eq_true, if_false, hline, hkey]
      have := ih hrest { req with headers := mapInsert kv.1 kv.2 req.headers } f' (by simp at hf ⊢; omega)
      simpa [insHdr] using this

theorem cl_facts : (ascii "Content-Length").all (· != 58) = true ∧ (ascii "Content-Length").all (· != 13) = true ∧
    strip (ascii "Content-Length") = ascii "Content-Length" := by decide

/-- … and ends with the Content-Length line, the blank line, and the rest -/
theorem headersLoop_wire_tail (n : Nat) (hn : n ≤ 2 ^ 64 - 2) (req : Req) (clen : Option Nat) (b : Bytes) (f : Nat)
    (hf : (hdrLine (ascii "Content-Length", decimal n) ++ 13 :: 10 :: b).length < f) :
    headersLoop Cfg.fixed f req clen (hdrLine (ascii "Content-Length", decimal n) ++ 13 :: 10 :: b)
      = .done { req with headers := mapInsert (ascii "Content-Length") (decimal n) req.headers } (some n) b := by
  have hd := decimal_digits n
  have hd13 : (decimal n).all (· != 13) = true := by simpa using fun x hx => (hd x hx).1
  have hd0 : (decimal n).isEmpty = false := by simpa using decimal_ne_nil n
  have hdh : (decimal n).head? ≠ some 32 := by
    cases hdn : decimal n with
    | nil => simp
    | cons c t => have := (hd c (by simp [hdn])).2; simpa using this
  have hds : strip (decimal n) = decimal n := strip_no32 _ (fun x hx => (hd x hx).2)
  cases f with
  | zero => omega
  | succ f' =>
    cases f' with
    | zero => simp [hdrLine] at hf
    | succ f'' =>
      simp only [hdrLine_append]
      have hsplit := splitCRLF_no13 (ascii "Content-Length" ++ 58 :: 32 :: decimal n) (13 :: 10 :: b)
        (hdrOk_line_no13 (kv := (ascii "Content-Length", decimal n)) cl_facts.2.1 hd13)
      have hline := parseHeaderLine_wire (ascii "Content-Length") (decimal n) cl_facts.1 cl_facts.2.2 hd0 hdh hds
      have hne : (ascii "Content-Length" ++ 58 :: 32 :: decimal n).isEmpty = false := by
        cases h : ascii "Content-Length" <;> simp
      have hlen : contentLength Cfg.fixed (decimal n) = .ok (some n) := by
        simp [contentLength, fixed_checkedLen, parseLenChecked_decimal n hn]
      have hsplit2 : splitCRLF (13 :: 10 :: b) = some ([], b) := by simp [splitCRLF]
      rw [headersLoop]
      simp only [hsplit, hne, Bool.false_eq_true, if_false, hline, beq_self_eq_true, if_true, hlen]
      rw [headersLoop]
      simp only [hsplit2, List.isEmpty_nil, if_true]

/-! ### one whole request -/

theorem encode_append (w : WireReq) (rest : Bytes) :
    w.encode ++ rest = (w.method ++ 32 :: (w.target ++ 32 :: w.version)) ++ 13 :: 10 ::
      ((w.headers.map hdrLine).flatten ++ (hdrLine (contentLengthHdr w) ++ 13 :: 10 :: (w.body ++ rest))) := by
  simp [WireReq.encode]

theorem token_no13 {b : Bytes} (h : tokenOk b = true) : ∀ x ∈ b, x ≠ 13 := by
  simp only [tokenOk, Bool.and_eq_true] at h
  intro x hx
  simpa using all_ne h.2 x hx

/-- functional correctness of `parse` on one well-formed request followed by anything -/
theorem parse_wire (w : WireReq) (hw : w.wellFormed = true) (ps : PState) (hps : ps.st = .init) (rest : Bytes) :
    parse Cfg.fixed ps (w.encode ++ rest) = .ok ⟨.all, w.toReq, some w.body.length⟩ rest := by
  simp only [WireReq.wellFormed, Bool.and_eq_true, decide_eq_true_eq] at hw
  obtain ⟨⟨⟨⟨⟨⟨⟨⟨hm, hmo⟩, ht⟩, hto⟩, hv⟩, hv5⟩, hvo⟩, hh⟩, hn⟩ := hw
  rw [parse_init_eq _ ps hps, encode_append]
  have hline13 : ∀ x ∈ w.method ++ 32 :: (w.target ++ 32 :: w.version), x ≠ 13 := by
    intro x hx
    simp only [List.mem_append, List.mem_cons] at hx
    rcases hx with hx | rfl | hx | rfl | hx
    · exact token_no13 hm x hx
    · decide
    · exact token_no13 ht x hx
    · decide
    · exact token_no13 hv x hx
  have hsplit := splitCRLF_no13 _ ((w.headers.map hdrLine).flatten ++
      (hdrLine (contentLengthHdr w) ++ 13 :: 10 :: (w.body ++ rest))) hline13
  obtain ⟨me, hme⟩ := Option.isSome_iff_exists.mp hmo
  obtain ⟨u, hu⟩ := Option.isSome_iff_exists.mp hto
  obtain ⟨ve, hve⟩ := Option.isSome_iff_exists.mp hvo
  have hstart := parseStartLine_wire w.method w.target w.version hm ht hv hv5
  simp only [hme, hu, hve] at hstart
  simp only [parse, PState.init, fixed_crlfFirst, Bool.not_true, Bool.false_and, Bool.false_eq_true, if_false, hsplit,
    startLineLit_of_split hsplit, hstart, headersStage]
  rw [headersLoop_wire w.headers hh _ none _ _
      ((hdrLine (contentLengthHdr w) ++ 13 :: 10 :: (w.body ++ rest)).length + 1) (by omega) (by omega)]
  rw [contentLengthHdr, headersLoop_wire_tail w.body.length hn _ none (w.body ++ rest) _ (by omega)]
  simp only [bodyStage]
  have hle : w.body.length ≤ (w.body ++ rest).length := by simp
  simp only [hle, if_true, List.take_left' rfl, List.drop_left' rfl]
  simp [WireReq.toReq, hme, hu, hve, List.foldl_append, contentLengthHdr]
  rfl

/-! ### a pipeline of well-formed requests through the feed loop -/

theorem encode_ne_nil (w : WireReq) (rest : Bytes) : (w.encode ++ rest).isEmpty = false := by
  unfold WireReq.encode
  cases w.method <;> simp

theorem feedLoop_wire (markP : Req → Bool) (ws : List WireReq) (hws : ∀ w ∈ ws, w.wellFormed = true)
    (d cl : Bool) (f : Nat) (hf : ((ws.map WireReq.encode).flatten).length < f) :
    reqsOf (feedLoop Cfg.fixed markP f ⟨PState.init, (ws.map WireReq.encode).flatten, d, cl⟩).evs
      = expectedReqs markP ws := by
  induction ws generalizing f cl with
  | nil =>
    cases f with
    | zero => omega
    | succ f' => simp [feedLoop, reqsOf, expectedReqs]
  | cons w ws ih =>
    cases f with
    | zero => omega
    | succ f' =>
      have hp := parse_wire w (hws w (by simp)) PState.init rfl (ws.map WireReq.encode).flatten
      have hne := encode_ne_nil w (ws.map WireReq.encode).flatten
      simp only [List.map_cons, List.flatten_cons] at hf ⊢
      simp only [feedLoop, hne, Bool.false_eq_true, if_false, hp, fixed_stop, Bool.and_true, Option.isSome_some]
      by_cases hl : markP w.toReq = true
      · simp [hl, reqsOf, expectedReqs]
      · simp only [hl, Bool.false_eq_true, if_false, reqsOf_cons_parsed, reqsOf_cons_req, expectedReqs]
        rw [ih (fun x hx => hws x (by simp [hx])) _ f' (by
          have : 0 < w.encode.length := by simp [WireReq.encode]; omega
          rw [List.length_append] at hf; omega)]

theorem expectedReqs_declared (markP : Req → Bool) (ws : List WireReq) :
    (expectedReqs markP ws).all (fun x => x.2.2) = true := by
  induction ws with
  | nil => rfl
  | cons w ws ih =>
    unfold expectedReqs
    split
    · rfl
    · simpa using ih

/-! ### `ParseContentLength` on every byte string (width of `content_length_`) -/

/-- value of a digit string continued from `r` -/
def valFrom (r : Nat) (v : Bytes) : Nat := v.foldl (fun a c => a * 10 + (c.toNat - 48)) r
def allDigits (v : Bytes) : Bool := v.all fun c => 48 ≤ c && c ≤ 57

theorem valFrom_ge (r : Nat) (v : Bytes) : r ≤ valFrom r v := by
  induction v generalizing r with
  | nil => exact Nat.le_refl _
  | cons c t ih =>
    have := ih (r * 10 + (c.toNat - 48))
    simp only [valFrom, List.foldl_cons] at this ⊢
    omega

theorem foldl_lenStep_none (v : Bytes) : v.foldl lenStep none = none := by
  induction v with
  | nil => rfl
  | cons c t ih => simpa [List.foldl_cons, lenStep] using ih

theorem foldl_lenStep (v : Bytes) (r : Nat) (hr : r ≤ 2 ^ 64 - 2) :
    v.foldl lenStep (some r) = if allDigits v && decide (valFrom r v ≤ 2 ^ 64 - 2) then some (valFrom r v) else none := by
  induction v generalizing r with
  | nil => simp [allDigits, valFrom, hr]
  | cons c t ih =>
    have e1 : allDigits (c :: t) = ((48 ≤ c && c ≤ 57) && allDigits t) := rfl
    have e2 : valFrom r (c :: t) = valFrom (r * 10 + (c.toNat - 48)) t := rfl
    have h48 : (48 : UInt8).toNat = 48 := rfl
    have h57 : (57 : UInt8).toNat = 57 := rfl
    rw [List.foldl_cons, e1, e2]
    by_cases hd : (48 ≤ c && c ≤ 57) = true
    · have hd2 : 48 ≤ c.toNat ∧ c.toNat ≤ 57 := by
        simp only [Bool.and_eq_true, decide_eq_true_eq, UInt8.le_iff_toNat_le] at hd
        omega
      have hd' : (c < 48 || c > 57) = false := by
        simp only [Bool.or_eq_false_iff, decide_eq_false_iff_not, UInt8.lt_iff_toNat_lt, gt_iff_lt]
        omega
      simp only [lenStep, hd', Bool.false_eq_true, if_false, hd, Bool.true_and]
      by_cases hbig : r > (2 ^ 64 - 2 - (c.toNat - 48)) / 10
      · simp only [hbig, if_true, foldl_lenStep_none]
        have h1 : r * 10 + (c.toNat - 48) > 2 ^ 64 - 2 := by omega
        have h2 := valFrom_ge (r * 10 + (c.toNat - 48)) t
        have : ¬ (valFrom (r * 10 + (c.toNat - 48)) t ≤ 2 ^ 64 - 2) := by omega
        simp [this]
      · simp only [hbig, if_false]
        have h1 : r * 10 + (c.toNat - 48) ≤ 2 ^ 64 - 2 := by omega
        exact ih (r * 10 + (c.toNat - 48)) h1
    · have hd2 : c.toNat < 48 ∨ 57 < c.toNat := by
        simp only [Bool.and_eq_true, decide_eq_true_eq, UInt8.le_iff_toNat_le] at hd
        omega
      have hd' : (c < 48 || c > 57) = true := by
        simp only [Bool.or_eq_true, decide_eq_true_eq, UInt8.lt_iff_toNat_lt, gt_iff_lt]
        omega
      simp only [lenStep, hd', if_true, foldl_lenStep_none]
      simp [hd]

end Tbox.C12
