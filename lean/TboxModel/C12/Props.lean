/-
C12 — PROPERTY THEOREMS (helper lemmas: Proofs.lean, ProofsFeed.lean, ProofsPipe.lean).

Property: "Feeding the HTTP server any byte sequence never throws, crashes, hangs or reads out
of bounds, and a stream of well-formed requests with declared body lengths yields the same
sequence of requests however the stream is split into TCP segments, with the parser never
claiming to have consumed more bytes than it was given. Every request handed to a handler has
its response written exactly once, in request order, whatever order and however late the
handlers complete; nothing is written after the response to a request that asked for the
connection to be closed, and the connection is closed once that response has been sent."

`Cfg.fixed` = the tree with patches/C12-01..04 applied (what the check ties the model to);
`Cfg.orig` = the unpatched tree, used only in the `_unpatched` counterexamples.
-/
import TboxModel.C12.ProofsFeed
import TboxModel.C12.ProofsPipe
namespace Tbox.C12

/-! ## A. parser and feed loop -/

/-- C12_total (parser): for every parser state and every byte string `parse` returns normally
(no exception, the header loop terminates) and what it leaves unconsumed is a suffix of what
it was given — in particular `consumed ≤ size`. -/
theorem C12_total (ps : PState) (s : Bytes) :
    ∃ ps' rest, parse Cfg.fixed ps s = .ok ps' rest ∧ rest <:+ s ∧ s.length - rest.length ≤ s.length :=
  let ⟨ps', rest, h1, h2⟩ := parse_good ps s
  ⟨ps', rest, h1, h2, Nat.sub_le _ _⟩

/-- C12_total (feed loop): for every connection state, every `markP` and every segment,
`onTcpReceived` returns normally: no exception and the `while (readable > 0)` loop ends within
`readable + 2` iterations. -/
theorem C12_total_feed (markP : Req → Bool) (c : Conn) (seg : Bytes) :
    (recv Cfg.fixed markP c seg).status = .ok := by
  unfold recv
  split
  · rfl
  · split
    · rfl
    · apply feedLoop_status
      simp [Conn.mu]; split <;> omega

/-- the unpatched parser throws on a non-numeric Content-Length (`std::stoi`) -/
theorem C12_total_counterexample_unpatched :
    parse Cfg.orig PState.init (ascii "GET / HTTP/1.1\r\nContent-Length: abc\r\n\r\n") = .threw := by
  decide +kernel

/-
-- OPEN (false as stated — see C12_resumable_counterexample): full-strength resumability,
--   ∀ markP c xs ys, reqs (recv c xs) ++ reqs (recv (recv c xs).conn ys) = reqs (recv c (xs ++ ys)) ∧ same final state.
-- A request without Content-Length takes "whatever is in the buffer now" as its body, which is
-- segmentation-dependent by construction; the property only speaks about declared lengths.
-/

/-- C12_resumable: for every connection state, every predicate `markP`, and every split
`xs ++ ys` of a segment: if the unsplit run completes no request by the no-Content-Length rule
(`allDeclared`, decidable), then feeding `xs` and then `ys` hands out the same requests (with
the same flags) and ends in the same connection state (parser state, receive buffer, dropped,
closed) as feeding `xs ++ ys`. -/
theorem C12_resumable_partial (markP : Req → Bool) (c : Conn) (xs ys : Bytes)
    (h : allDeclared (recv Cfg.fixed markP c (xs ++ ys)).evs = true) :
    reqsOf (recv Cfg.fixed markP c xs).evs ++ reqsOf (recv Cfg.fixed markP (recv Cfg.fixed markP c xs).conn ys).evs
      = reqsOf (recv Cfg.fixed markP c (xs ++ ys)).evs ∧
    (recv Cfg.fixed markP (recv Cfg.fixed markP c xs).conn ys).conn = (recv Cfg.fixed markP c (xs ++ ys)).conn := by
  obtain ⟨cps, cbuf, cdead, cclosed⟩ := c
  cases cdead with
  | true => simp [recv, reqsOf]
  | false =>
    cases cclosed with
    | true => simp [recv, reqsOf]
    | false =>
      simp only [recv, Bool.false_eq_true, if_false] at h ⊢
      have hfu : cbuf.length + (xs ++ ys).length + 2 = (cbuf.length + xs.length + 2) + ys.length := by
        simp; omega
      rw [hfu, ← List.append_assoc] at h ⊢
      have := feed_resume markP (cbuf.length + xs.length + 2) ⟨cps, cbuf ++ xs, false, false⟩ ys
        (by simp [Conn.mu]; split <;> omega) rfl rfl h
      simpa [recv] using this

/-- the hypothesis of C12_resumable_partial is needed: without Content-Length the split changes
the request (body "abc" vs empty body, and then a parse failure) -/
theorem C12_resumable_counterexample :
    let xs := ascii "GET / HTTP/1.1\r\n\r\n"
    let ys := ascii "abc"
    reqsOf (recv Cfg.fixed isLast {} xs).evs ++ reqsOf (recv Cfg.fixed isLast (recv Cfg.fixed isLast {} xs).conn ys).evs
      ≠ reqsOf (recv Cfg.fixed isLast {} (xs ++ ys)).evs := by
  decide +kernel

/-- unpatched code: a first segment ending inside the method kills the connection although the
unsplit stream is a valid request with a declared length -/
theorem C12_resumable_counterexample_unpatched :
    let xs := ascii "GE"
    let ys := ascii "T / HTTP/1.1\r\nContent-Length: 0\r\n\r\n"
    allDeclared (recv Cfg.orig isLast {} (xs ++ ys)).evs = true ∧
    (reqsOf (recv Cfg.orig isLast {} (xs ++ ys)).evs).length = 1 ∧
    (recv Cfg.orig isLast {} xs).conn.dead = true ∧
    reqsOf (recv Cfg.orig isLast {} xs).evs ++ reqsOf (recv Cfg.orig isLast (recv Cfg.orig isLast {} xs).conn ys).evs = [] := by
  decide +kernel

theorem allDeclared_eq (evs : List Ev) : allDeclared evs = (reqsOf evs).all (fun x => x.2.2) := by
  induction evs with
  | nil => rfl
  | cons e evs ih =>
    cases e with
    | parsed n st => simpa [allDeclared, reqsOf] using ih
    | req r l d => simp only [allDeclared, reqsOf] at ih ⊢; simp [ih]

/-- C12_segmentation: for every connection state and every segmentation `seg :: segs` (any
number of segments of any sizes, down to single bytes) of a stream whose unsplit run completes
no request by the no-Content-Length rule, the segmented delivery hands out exactly the requests
of the unsplit delivery, ends in the same state, and every call returns normally. -/
theorem C12_segmentation (markP : Req → Bool) (segs : List Bytes) (c : Conn) (seg : Bytes)
    (h : allDeclared (recv Cfg.fixed markP c (seg ++ segs.flatten)).evs = true) :
    feedSegs Cfg.fixed markP c (seg :: segs)
      = ((recv Cfg.fixed markP c (seg ++ segs.flatten)).conn, reqsOf (recv Cfg.fixed markP c (seg ++ segs.flatten)).evs, true) := by
  induction segs generalizing c seg with
  | nil =>
    simp only [List.flatten_nil, List.append_nil] at h ⊢
    simp [feedSegs, C12_total_feed]
  | cons s2 rest ih =>
    simp only [List.flatten_cons] at h ⊢
    have hres := C12_resumable_partial markP c seg (s2 ++ rest.flatten) h
    have hdecl : allDeclared (recv Cfg.fixed markP (recv Cfg.fixed markP c seg).conn (s2 ++ rest.flatten)).evs = true := by
      rw [allDeclared_eq] at h ⊢
      rw [← hres.1, List.all_append] at h
      simp only [Bool.and_eq_true] at h
      exact h.2
    have := ih (recv Cfg.fixed markP c seg).conn s2 hdecl
    rw [feedSegs, this]
    simp [C12_total_feed, hres.1, hres.2]

/-
-- OPEN C12_segmentation_wellformed (corollary over the wire form, Spec.WireReq): for every list `ws` of
--   requests whose method/version are table entries, whose target is accepted by `parseUrlPath` and free
--   of space/CR/LF, whose header keys/values are free of CR/LF/':' (keys) and non-empty after stripping,
--   `allDeclared (recv Cfg.fixed markP {} (ws.map WireReq.encode).flatten).evs = true` and the requests handed
--   out are exactly `ws` (parsed). This is functional correctness of the parser on well-formed input
--   (decimal round trip of Content-Length, first-CRLF positions); not closed in the time available.
--   C12_segmentation above is the segmentation statement for every stream that satisfies the decidable
--   hypothesis; the example below shows a well-formed pipelined stream satisfying it.
-/

/-- non-vacuity: a pipelined stream of two well-formed requests with declared lengths satisfies
the hypothesis of C12_resumable_partial / C12_segmentation and yields two requests -/
example :
    let s := ascii "POST /a?x=1 HTTP/1.1\r\nHost: h\r\nContent-Length: 3\r\n\r\nabcGET /b HTTP/1.1\r\nContent-Length: 0\r\n\r\n"
    allDeclared (recv Cfg.fixed isLast {} s).evs = true ∧ (reqsOf (recv Cfg.fixed isLast {} s).evs).length = 2 := by
  decide +kernel

/-- non-vacuity of the split itself: the byte-wise prefix "POST /a?x=1 HT" leaves the parser waiting -/
example : (recv Cfg.fixed isLast {} (ascii "POST /a?x=1 HT")).conn.buf.length = 14 := by decide +kernel

/-! ### nothing is parsed after a closing request -/

def lastOnlyAtEnd : List (Req × Bool × Bool) → Bool
  | [] => true
  | [_] => true
  | x :: y :: t => !x.2.1 && lastOnlyAtEnd (y :: t)

theorem feedLoop_last (markP : Req → Bool) (f : Nat) (c : Conn) :
    lastOnlyAtEnd (reqsOf (feedLoop Cfg.fixed markP f c).evs) = true ∧
    ((reqsOf (feedLoop Cfg.fixed markP f c).evs).any (fun x => x.2.1) = true → (feedLoop Cfg.fixed markP f c).conn.closed = true) := by
  induction f generalizing c with
  | zero => simp [feedLoop, reqsOf, lastOnlyAtEnd]
  | succ k ih =>
    by_cases hb : c.buf.isEmpty = true
    · simp [feedLoop, hb, reqsOf, lastOnlyAtEnd]
    · obtain ⟨ps1, rest, hp, _⟩ := parse_good c.ps c.buf
      simp only [feedLoop, hb, hp]
      cases hst : ps1.st with
      | all =>
        simp only [fixed_stop, Bool.and_true]
        by_cases hl : markP ps1.req = true
        · simp [hl, reqsOf, lastOnlyAtEnd]
        · simp only [hl]
          have := ih { c with ps := PState.init, buf := rest, closed := c.closed || false }
          simp only [Bool.false_eq_true, if_false, reqsOf_cons_parsed, reqsOf_cons_req]
          refine ⟨?_, ?_⟩
          · cases hr : reqsOf (feedLoop Cfg.fixed markP k { c with ps := PState.init, buf := rest, closed := c.closed || false }).evs with
            | nil => simp [lastOnlyAtEnd]
            | cons y t => rw [hr] at this; simp [lastOnlyAtEnd, this.1]
          · intro h
            simp only [List.any_cons, Bool.false_or] at h
            exact this.2 h
      | init => simp [reqsOf, lastOnlyAtEnd]
      | startLine => simp [reqsOf, lastOnlyAtEnd]
      | heads => simp [reqsOf, lastOnlyAtEnd]
      | fail => simp [reqsOf, lastOnlyAtEnd]

/-- C12_no_request_after_close: in one `onTcpReceived` a closing request can only be the last
request handed out, after it the connection is marked closed, and a connection marked closed
hands out nothing any more (and keeps nothing buffered). -/
theorem C12_no_request_after_close (markP : Req → Bool) (c : Conn) (seg : Bytes) :
    lastOnlyAtEnd (reqsOf (recv Cfg.fixed markP c seg).evs) = true ∧
    ((reqsOf (recv Cfg.fixed markP c seg).evs).any (fun x => x.2.1) = true → (recv Cfg.fixed markP c seg).conn.closed = true) ∧
    (c.closed = true → (recv Cfg.fixed markP c seg).evs = [] ∧ (recv Cfg.fixed markP c seg).conn.closed = true) := by
  refine ⟨?_, ?_, ?_⟩
  · unfold recv; split
    · simp [reqsOf, lastOnlyAtEnd]
    · split
      · simp [reqsOf, lastOnlyAtEnd]
      · exact (feedLoop_last markP _ _).1
  · unfold recv; split
    · simp [reqsOf]
    · split
      · simp [reqsOf]
      · exact (feedLoop_last markP _ _).2
  · intro hc
    unfold recv; split
    · exact ⟨rfl, hc⟩
    · simp [hc]

/-! ## B. response pipeline -/

theorem run_fromCommits (done : List PipeOp) (p : Pipe) (ops : List PipeOp) (h : FromCommits done p) :
    FromCommits (done ++ ops) (p.run ops) := by
  induction ops generalizing done p with
  | nil => simpa [Pipe.run] using h
  | cons op ops ih =>
    have := ih (done ++ [op]) (p.step op) (step_fromCommits done p op h)
    simpa [Pipe.run] using this

/-- C12_in_order_once: for every admissible history of one connection (any number of requests,
handlers completing in any order and at any time, send-complete events and drops anywhere) the
responses handed to the socket are those of requests 0,1,…,resIndex-1 in this order, each
exactly once, and each is a response some handler committed for exactly that request. -/
theorem C12_in_order_once (ops : List PipeOp) (hok : traceOk {} ops = true) :
    InOrderOnce (Pipe.run {} ops).written (Pipe.run {} ops).resIndex ∧
    ∀ x ∈ (Pipe.run {} ops).written, PipeOp.commit x.1 x.2 ∈ ops := by
  refine ⟨(run_inv {} ops inv_init (by intro _ _; rfl) hok).1.ord, ?_⟩
  intro x hx
  have := run_fromCommits [] {} ops (by intro x hx; simp at hx)
  simpa using this x (Or.inl hx)

/-- C12_no_response_stuck ("exactly once" — not zero times): while the connection is alive and
the closing response has not been written, the response whose turn it is is never sitting in
the parking map: whatever was committed is written as soon as all earlier responses are. -/
theorem C12_no_response_stuck (ops : List PipeOp) (hok : traceOk {} ops = true) :
    (Pipe.run {} ops).valid = true → (Pipe.run {} ops).pastClose = false →
    (Pipe.run {} ops).resBuff.find? (fun e => e.1 == (Pipe.run {} ops).resIndex) = none :=
  (run_inv {} ops inv_init (by intro _ _; rfl) hok).2

theorem step_invalid (p : Pipe) (op : PipeOp) (h : p.valid = false) :
    (p.step op).valid = false ∧ (p.step op).written = p.written := by
  cases op <;> simp [Pipe.step, Pipe.onRequest, Pipe.commit, Pipe.sendComplete, Pipe.disconnect, h]

theorem run_invalid (p : Pipe) (ops : List PipeOp) (h : p.valid = false) :
    (p.run ops).valid = false ∧ (p.run ops).written = p.written := by
  induction ops generalizing p with
  | nil => exact ⟨h, rfl⟩
  | cons op ops ih =>
    have h1 := step_invalid p op h
    have := ih (p.step op) h1.1
    simp only [Pipe.run, List.foldl_cons] at this ⊢
    exact ⟨this.1, this.2.trans h1.2⟩

/-- C12_nothing_after_close: for every admissible history, once request `k` asked for the
connection to be closed no response with an index beyond `k` is ever written; when the
response to `k` has been written the next send-complete drops the connection; and on a dropped
connection nothing is written whatever happens afterwards. -/
theorem C12_nothing_after_close (ops : List PipeOp) (hok : traceOk {} ops = true) (k : Nat)
    (hk : (Pipe.run {} ops).closeIndex = some k) :
    (∀ x ∈ (Pipe.run {} ops).written, x.1 ≤ k) ∧
    ((Pipe.run {} ops).pastClose = true → ((Pipe.run {} ops).step .sendComplete).valid = false) ∧
    (∀ more, (((Pipe.run {} ops).step .sendComplete).valid = false →
        (((Pipe.run {} ops).step .sendComplete).run more).written = ((Pipe.run {} ops).step .sendComplete).written)) := by
  have hI := (run_inv {} ops inv_init (by intro _ _; rfl) hok).1
  refine ⟨?_, ?_, ?_⟩
  · intro x hx
    have hm : x.1 ∈ (Pipe.run {} ops).written.map (·.1) := List.mem_map_of_mem hx
    rw [hI.ord, List.mem_range] at hm
    have := (hI.cl k hk).2
    omega
  · intro hp
    simp only [Pipe.step, Pipe.sendComplete, hp]
    split <;> simp_all [Pipe.disconnect]
  · intro more hv
    exact (run_invalid _ more hv).2

/-- non-vacuity: an admissible history with out-of-order completion and a closing request -/
example :
    let ops := [PipeOp.req false, .req false, .commit 1 [1], .req true, .commit 2 [2], .commit 0 [0], .sendComplete]
    traceOk {} ops = true ∧ (Pipe.run {} ops).written = [(0, [0]), (1, [1]), (2, [2])] ∧
    (Pipe.run {} ops).closeIndex = some 2 ∧ (Pipe.run {} ops).valid = false := by
  decide +kernel

/-- unpatched feed loop: a request pipelined in the same segment after a closing request is
still handed to the handler … -/
theorem C12_nothing_after_close_counterexample_unpatched :
    (reqsOf (recv Cfg.orig isLast {} (ascii
      "GET /a HTTP/1.1\r\nConnection: close\r\nContent-Length: 0\r\n\r\nGET /b HTTP/1.1\r\nContent-Length: 0\r\n\r\n")).evs).map (·.2.1)
      = [true, false] ∧
    -- … and its response is written after the closing response (this history is not `traceOk`)
    (Pipe.run {} [.req true, .req false, .commit 0 [0], .commit 1 [1]]).written = [(0, [0]), (1, [1])] ∧
    (Pipe.run {} [.req true, .req false, .commit 0 [0], .commit 1 [1]]).closeIndex = some 0 := by
  decide +kernel

/-- unpatched server (observed by the harness, patches/C12-04): `shutdown(SHUT_RD)` on a closing
request makes the loop read EOF and drop the connection; a handler that completes later has its
response discarded — the closing request is never answered -/
theorem C12_closing_response_lost_unpatched :
    (Pipe.run {} [.req true, .drop, .commit 0 [0]]).written = [] := by
  decide +kernel

end Tbox.C12
