/-
C12 — PROPERTY THEOREMS (helper lemmas: Proofs.lean, ProofsFeed.lean, ProofsPipe.lean).

Property: "Feeding the HTTP server any byte sequence never throws, crashes, hangs or reads out
of bounds, and a stream of well-formed requests with declared body lengths yields the same
sequence of requests however the stream is split into TCP segments, with the parser never
claiming to have consumed more bytes than it was given. Every request handed to a handler has
its response written exactly once, in request order, whatever order and however late the
handlers complete; nothing is written after the response to a request that asked for the
connection to be closed, and the connection is closed once that response has been sent."

`Cfg.fixed` = the tree with patches/C12-01..04 applied (what the check ties the model to);
`Cfg.orig` = the unpatched tree, used only in the `_unpatched` counterexamples.
-/
import TboxModel.C12.ProofsFeed
import TboxModel.C12.ProofsPipe
import TboxModel.C12.ProofsWire
import TboxModel.C12.ProofsResp
import TboxModel.C12.ProofsUrl
import TboxModel.C12.ProofsServer
import TboxModel.C12.ProofsUrlAbs
import TboxModel.C12.ProofsReq
import TboxModel.C12.ProofsUrlHost
import TboxModel.C12.ProofsMulti
namespace Tbox.C12

/-! ## A. parser and feed loop -/

/-- C12_total (parser): for every parser state and every byte string `parse` returns normally
(no exception, the header loop terminates) and what it leaves unconsumed is a suffix of what
it was given — in particular `consumed ≤ size`. -/
theorem C12_total (ps : PState) (s : Bytes) :
    ∃ ps' rest, parse Cfg.fixed ps s = .ok ps' rest ∧ rest <:+ s ∧ s.length - rest.length ≤ s.length :=
  let ⟨ps', rest, h1, h2⟩ := parse_good ps s
  ⟨ps', rest, h1, h2, Nat.sub_le _ _⟩

/-- C12_total (feed loop): for every connection state, every `markP` and every segment,
`onTcpReceived` returns normally: no exception and the `while (readable > 0)` loop ends within
`readable + 2` iterations. -/
theorem C12_total_feed (markP : Req → Bool) (c : Conn) (seg : Bytes) :
    (recv Cfg.fixed markP c seg).status = .ok := by
  unfold recv
  split
  · rfl
  · split
    · rfl
    · apply feedLoop_status
      simp [Conn.mu]; split <;> omega

/-- The concrete examples below are written with the standard method / version names. The
tables are regenerated from common.cpp on every run, so each example states what it presupposes
of them; `tablesStd_holds` shows the presupposition is true of the tree the proofs were built on.
(Should a table entry change, the examples stay true and cheap to check, and the check reports
the changed entry through the `method` / `version` ops with the name as replay.) -/
def tablesStd : Bool :=
  methodOf (ascii "GET") == some "kGet" && methodOf (ascii "POST") == some "kPost" &&
  verOf (ascii "HTTP/1.1") == some "k1_1" && verOf (ascii "HTTP/1.0") == some "k1_0" &&
  verStr "k1_1" == "HTTP/1.1" && statusText 404 == "404 Not Found" && statusText 200 == "200 OK"

theorem tablesStd_holds : tablesStd = true := by decide +kernel

/-- the unpatched parser throws on a non-numeric Content-Length (`std::stoi`) -/
theorem C12_total_counterexample_unpatched : tablesStd = true →
    parse Cfg.orig PState.init (ascii "GET / HTTP/1.1\r\nContent-Length: abc\r\n\r\n") = .threw := by
  decide +kernel

/-
-- OPEN (false as stated — see C12_resumable_counterexample): full-strength resumability,
--   ∀ markP c xs ys, reqs (recv c xs) ++ reqs (recv (recv c xs).conn ys) = reqs (recv c (xs ++ ys)) ∧ same final state.
-- A request without Content-Length takes "whatever is in the buffer now" as its body, which is
-- segmentation-dependent by construction; the property only speaks about declared lengths.
-/

/-- C12_resumable: for every connection state, every predicate `markP`, and every split
`xs ++ ys` of a segment: if the unsplit run completes no request by the no-Content-Length rule
(`allDeclared`, decidable), then feeding `xs` and then `ys` hands out the same requests (with
the same flags) and ends in the same connection state (parser state, receive buffer, dropped,
closed) as feeding `xs ++ ys`. -/
theorem C12_resumable_partial (markP : Req → Bool) (c : Conn) (xs ys : Bytes)
    (h : allDeclared (recv Cfg.fixed markP c (xs ++ ys)).evs = true) :
    reqsOf (recv Cfg.fixed markP c xs).evs ++ reqsOf (recv Cfg.fixed markP (recv Cfg.fixed markP c xs).conn ys).evs
      = reqsOf (recv Cfg.fixed markP c (xs ++ ys)).evs ∧
    (recv Cfg.fixed markP (recv Cfg.fixed markP c xs).conn ys).conn = (recv Cfg.fixed markP c (xs ++ ys)).conn := by
  obtain ⟨cps, cbuf, cdead, cclosed⟩ := c
  cases cdead with
  | true => simp [recv, reqsOf]
  | false =>
    cases cclosed with
    | true => simp [recv, reqsOf]
    | false =>
      simp only [recv, Bool.false_eq_true, if_false] at h ⊢
      have hfu : cbuf.length + (xs ++ ys).length + 2 = (cbuf.length + xs.length + 2) + ys.length := by
        simp; omega
      rw [hfu, ← List.append_assoc] at h ⊢
      have := feed_resume markP (cbuf.length + xs.length + 2) ⟨cps, cbuf ++ xs, false, false⟩ ys
        (by simp [Conn.mu]; split <;> omega) rfl rfl h
      simpa [recv] using this

/-- the hypothesis of C12_resumable_partial is needed: without Content-Length the split changes
the request (body "abc" vs empty body, and then a parse failure) -/
theorem C12_resumable_counterexample : tablesStd = true →
    let xs := ascii "GET / HTTP/1.1\r\n\r\n"
    let ys := ascii "abc"
    reqsOf (recv Cfg.fixed isLast {} xs).evs ++ reqsOf (recv Cfg.fixed isLast (recv Cfg.fixed isLast {} xs).conn ys).evs
      ≠ reqsOf (recv Cfg.fixed isLast {} (xs ++ ys)).evs := by
  decide +kernel

/-- unpatched code: a first segment ending inside the method kills the connection although the
unsplit stream is a valid request with a declared length -/
theorem C12_resumable_counterexample_unpatched : tablesStd = true →
    let xs := ascii "GE"
    let ys := ascii "T / HTTP/1.1\r\nContent-Length: 0\r\n\r\n"
    allDeclared (recv Cfg.orig isLast {} (xs ++ ys)).evs = true ∧
    (reqsOf (recv Cfg.orig isLast {} (xs ++ ys)).evs).length = 1 ∧
    (recv Cfg.orig isLast {} xs).conn.dead = true ∧
    reqsOf (recv Cfg.orig isLast {} xs).evs ++ reqsOf (recv Cfg.orig isLast (recv Cfg.orig isLast {} xs).conn ys).evs = [] := by
  decide +kernel

theorem allDeclared_eq (evs : List Ev) : allDeclared evs = (reqsOf evs).all (fun x => x.2.2) := by
  induction evs with
  | nil => rfl
  | cons e evs ih =>
    cases e with
    | parsed n st => simpa [allDeclared, reqsOf] using ih
    | req r l d => simp only [allDeclared, reqsOf] at ih ⊢; simp [ih]

/-- C12_segmentation: for every connection state and every segmentation `seg :: segs` (any
number of segments of any sizes, down to single bytes) of a stream whose unsplit run completes
no request by the no-Content-Length rule, the segmented delivery hands out exactly the requests
of the unsplit delivery, ends in the same state, and every call returns normally. -/
theorem C12_segmentation (markP : Req → Bool) (segs : List Bytes) (c : Conn) (seg : Bytes)
    (h : allDeclared (recv Cfg.fixed markP c (seg ++ segs.flatten)).evs = true) :
    feedSegs Cfg.fixed markP c (seg :: segs)
      = ((recv Cfg.fixed markP c (seg ++ segs.flatten)).conn, reqsOf (recv Cfg.fixed markP c (seg ++ segs.flatten)).evs, true) := by
  induction segs generalizing c seg with
  | nil =>
    simp only [List.flatten_nil, List.append_nil] at h ⊢
    simp [feedSegs, C12_total_feed]
  | cons s2 rest ih =>
    simp only [List.flatten_cons] at h ⊢
    have hres := C12_resumable_partial markP c seg (s2 ++ rest.flatten) h
    have hdecl : allDeclared (recv Cfg.fixed markP (recv Cfg.fixed markP c seg).conn (s2 ++ rest.flatten)).evs = true := by
      rw [allDeclared_eq] at h ⊢
      rw [← hres.1, List.all_append] at h
      simp only [Bool.and_eq_true] at h
      exact h.2
    have := ih (recv Cfg.fixed markP c seg).conn s2 hdecl
    rw [feedSegs, this]
    simp [C12_total_feed, hres.1, hres.2]

/-- C12_parse_wellformed: functional correctness of `parse` on well-formed input. For every
well-formed request with a declared Content-Length (`WireReq.wellFormed`, decidable) followed by
any bytes, one `parse` call from `kInit` completes exactly this request — method, target,
version, the header map, the body — and leaves exactly the following bytes. -/
theorem C12_parse_wellformed (w : WireReq) (hw : w.wellFormed = true) (rest : Bytes) :
    parse Cfg.fixed PState.init (w.encode ++ rest) = .ok ⟨.all, w.toReq, some w.body.length⟩ rest :=
  parse_wire w hw PState.init rfl rest

/-- C12_segmentation_wellformed: for every list of well-formed requests with declared lengths,
written back to back, and EVERY segmentation of that stream (any number of segments of any
size, down to single bytes), a fresh connection hands out exactly these requests, in order
(up to and including the first one that closes the connection), every call returns normally —
no hypothesis on the run is left. -/
theorem C12_segmentation_wellformed (markP : Req → Bool) (ws : List WireReq)
    (hws : ∀ w ∈ ws, w.wellFormed = true) (seg : Bytes) (segs : List Bytes)
    (hsplit : seg ++ segs.flatten = (ws.map WireReq.encode).flatten) :
    (feedSegs Cfg.fixed markP {} (seg :: segs)).2 = (expectedReqs markP ws, true) := by
  have hone : reqsOf (recv Cfg.fixed markP {} (seg ++ segs.flatten)).evs = expectedReqs markP ws := by
    rw [hsplit]
    simp only [recv, Bool.false_eq_true, if_false, List.length_nil, List.nil_append]
    exact feedLoop_wire markP ws hws false false _ (by omega)
  have hdecl : allDeclared (recv Cfg.fixed markP {} (seg ++ segs.flatten)).evs = true := by
    rw [allDeclared_eq, hone]; exact expectedReqs_declared markP ws
  rw [C12_segmentation markP segs {} seg hdecl, hone]

/-- non-vacuity: a pipelined stream of two well-formed requests with declared lengths satisfies
the hypothesis of C12_resumable_partial / C12_segmentation and yields two requests -/
example : tablesStd = true →
    let s := ascii "POST /a?x=1 HTTP/1.1\r\nHost: h\r\nContent-Length: 3\r\n\r\nabcGET /b HTTP/1.1\r\nContent-Length: 0\r\n\r\n"
    allDeclared (recv Cfg.fixed isLast {} s).evs = true ∧ (reqsOf (recv Cfg.fixed isLast {} s).evs).length = 2 := by
  decide +kernel

/-- non-vacuity: a concrete wire request with headers, parameters and a body is well-formed -/
example : tablesStd = true → (WireReq.mk (ascii "POST") (ascii "/a;k=v?x=1#f") (ascii "HTTP/1.1")
    [(ascii "Host", ascii "example.com"), (ascii "Connection", ascii "close")] (ascii "abc")).wellFormed = true := by
  decide +kernel

/-- non-vacuity of the split itself: the byte-wise prefix "POST /a?x=1 HT" leaves the parser waiting -/
example : (recv Cfg.fixed isLast {} (ascii "POST /a?x=1 HT")).conn.buf.length = 14 := by decide +kernel

/-! ### nothing is parsed after a closing request -/

def lastOnlyAtEnd : List (Req × Bool × Bool) → Bool
  | [] => true
  | [_] => true
  | x :: y :: t => !x.2.1 && lastOnlyAtEnd (y :: t)

theorem feedLoop_last (markP : Req → Bool) (f : Nat) (c : Conn) :
    lastOnlyAtEnd (reqsOf (feedLoop Cfg.fixed markP f c).evs) = true ∧
    ((reqsOf (feedLoop Cfg.fixed markP f c).evs).any (fun x => x.2.1) = true → (feedLoop Cfg.fixed markP f c).conn.closed = true) := by
  induction f generalizing c with
  | zero => simp [feedLoop, reqsOf, lastOnlyAtEnd]
  | succ k ih =>
    by_cases hb : c.buf.isEmpty = true
    · simp [feedLoop, hb, reqsOf, lastOnlyAtEnd]
    · obtain ⟨ps1, rest, hp, _⟩ := parse_good c.ps c.buf
      simp only [feedLoop, hb, hp]
      cases hst : ps1.st with
      | all =>
        simp only [fixed_stop, Bool.and_true]
        by_cases hl : markP ps1.req = true
        · simp [hl, reqsOf, lastOnlyAtEnd]
        · simp only [hl]
          have := ih { c with ps := PState.init, buf := rest, closed := c.closed || false }
          simp only [Bool.false_eq_true, if_false, reqsOf_cons_parsed, reqsOf_cons_req]
          refine ⟨?_, ?_⟩
          · cases hr : reqsOf (feedLoop Cfg.fixed markP k { c with ps := PState.init, buf := rest, closed := c.closed || false }).evs with
            | nil => simp [lastOnlyAtEnd]
            | cons y t => rw [hr] at this; simp [lastOnlyAtEnd, this.1]
          · intro h
            simp only [List.any_cons, Bool.false_or] at h
            exact this.2 h
      | init => simp [reqsOf, lastOnlyAtEnd]
      | startLine => simp [reqsOf, lastOnlyAtEnd]
      | heads => simp [reqsOf, lastOnlyAtEnd]
      | fail => simp [reqsOf, lastOnlyAtEnd]

/-- C12_no_request_after_close: in one `onTcpReceived` a closing request can only be the last
request handed out, after it the connection is marked closed, and a connection marked closed
hands out nothing any more (and keeps nothing buffered). -/
theorem C12_no_request_after_close (markP : Req → Bool) (c : Conn) (seg : Bytes) :
    lastOnlyAtEnd (reqsOf (recv Cfg.fixed markP c seg).evs) = true ∧
    ((reqsOf (recv Cfg.fixed markP c seg).evs).any (fun x => x.2.1) = true → (recv Cfg.fixed markP c seg).conn.closed = true) ∧
    (c.closed = true → (recv Cfg.fixed markP c seg).evs = [] ∧ (recv Cfg.fixed markP c seg).conn.closed = true) := by
  refine ⟨?_, ?_, ?_⟩
  · unfold recv; split
    · simp [reqsOf, lastOnlyAtEnd]
    · split
      · simp [reqsOf, lastOnlyAtEnd]
      · exact (feedLoop_last markP _ _).1
  · unfold recv; split
    · simp [reqsOf]
    · split
      · simp [reqsOf]
      · exact (feedLoop_last markP _ _).2
  · intro hc
    unfold recv; split
    · exact ⟨rfl, hc⟩
    · simp [hc]

/-! ## B. response pipeline -/

theorem run_fromCommits (done : List PipeOp) (p : Pipe) (ops : List PipeOp) (h : FromCommits done p) :
    FromCommits (done ++ ops) (p.run ops) := by
  induction ops generalizing done p with
  | nil => simpa [Pipe.run] using h
  | cons op ops ih =>
    have := ih (done ++ [op]) (p.step op) (step_fromCommits done p op h)
    simpa [Pipe.run] using this

/-- C12_in_order_once: for every admissible history of one connection (any number of requests,
handlers completing in any order and at any time, send-complete events and drops anywhere) the
responses handed to the socket are those of requests 0,1,…,resIndex-1 in this order, each
exactly once, and each is a response some handler committed for exactly that request. -/
theorem C12_in_order_once (ops : List PipeOp) (hok : traceOk {} ops = true) :
    InOrderOnce (Pipe.run {} ops).written (Pipe.run {} ops).resIndex ∧
    ∀ x ∈ (Pipe.run {} ops).written, PipeOp.commit x.1 x.2 ∈ ops := by
  refine ⟨(run_inv {} ops inv_init (by intro _ _; rfl) hok).1.ord, ?_⟩
  intro x hx
  have := run_fromCommits [] {} ops (by intro x hx; simp at hx)
  simpa using this x (Or.inl hx)

/-- C12_no_response_stuck ("exactly once" — not zero times): while the connection is alive and
the closing response has not been written, the response whose turn it is is never sitting in
the parking map: whatever was committed is written as soon as all earlier responses are. -/
theorem C12_no_response_stuck (ops : List PipeOp) (hok : traceOk {} ops = true) :
    (Pipe.run {} ops).valid = true → (Pipe.run {} ops).pastClose = false →
    (Pipe.run {} ops).resBuff.find? (fun e => e.1 == (Pipe.run {} ops).resIndex) = none :=
  (run_inv {} ops inv_init (by intro _ _; rfl) hok).2

/-- C12_nothing_after_close: for every admissible history, once request `k` asked for the
connection to be closed no response with an index beyond `k` is ever written; when the
response to `k` has been written the next send-complete drops the connection; and on a dropped
connection nothing is written whatever happens afterwards. -/
theorem C12_nothing_after_close (ops : List PipeOp) (hok : traceOk {} ops = true) (k : Nat)
    (hk : (Pipe.run {} ops).closeIndex = some k) :
    (∀ x ∈ (Pipe.run {} ops).written, x.1 ≤ k) ∧
    ((Pipe.run {} ops).pastClose = true → ((Pipe.run {} ops).step .sendComplete).valid = false) ∧
    (∀ more, (((Pipe.run {} ops).step .sendComplete).valid = false →
        (((Pipe.run {} ops).step .sendComplete).run more).written = ((Pipe.run {} ops).step .sendComplete).written)) := by
  have hI := (run_inv {} ops inv_init (by intro _ _; rfl) hok).1
  refine ⟨?_, ?_, ?_⟩
  · intro x hx
    have hm : x.1 ∈ (Pipe.run {} ops).written.map (·.1) := List.mem_map_of_mem hx
    rw [hI.ord, List.mem_range] at hm
    have := (hI.cl k hk).2
    omega
  · intro hp
    simp only [Pipe.step, Pipe.sendComplete, hp]
    split <;> simp_all [Pipe.disconnect]
  · intro more hv
    exact (run_invalid _ more hv).2

/-! ### peer-initiated close, tear-down, partial writes -/

/-- C12_single_disconnect: for EVERY history — requests, completions in any order and at any
time, send-complete, kernel progress, and the peer closing (or the parser failing) at any point,
any number of times — the connection object is torn down at most once, exactly when the
connection becomes invalid; the peer never holds more than was handed to `send`; and once the
connection is gone nothing is written whatever happens afterwards. -/
theorem C12_single_disconnect (ops more : List PipeOp) :
    (Pipe.run {} ops).disconnects ≤ 1 ∧
    ((Pipe.run {} ops).valid = false ↔ (Pipe.run {} ops).disconnects = 1) ∧
    (Pipe.run {} ops).sent ≤ (Pipe.run {} ops).handed.length ∧
    ((Pipe.run {} ops).valid = false →
      ((Pipe.run {} ops).run more).written = (Pipe.run {} ops).written ∧
      ((Pipe.run {} ops).run more).disconnects = 1) := by
  have h := run_inv2 {} ops inv2_init
  have h1 := h.once
  refine ⟨?_, ?_, h.sentLe, ?_⟩
  · rw [h1]; split <;> omega
  · rw [h1]; cases (Pipe.run {} ops).valid <;> simp
  · intro hv
    have hm := run_invalid _ more hv
    have h2 := (run_inv2 _ more h).once
    rw [hm.1] at h2
    exact ⟨hm.2, by simpa using h2⟩

/-- C12_peer_stream (composition with the send-side contract, assumed: "the bytes handed to
`send` reach the peer in order", property C06): at every moment of every admissible history what
the peer has received is a prefix of the responses to requests 0,1,…,resIndex-1 concatenated in
request order — however the kernel cuts large responses into partial writes. -/
theorem C12_peer_stream (ops : List PipeOp) (hok : traceOk {} ops = true) :
    (Pipe.run {} ops).peerBytes <+: ((Pipe.run {} ops).written.map (·.2)).flatten ∧
    InOrderOnce (Pipe.run {} ops).written (Pipe.run {} ops).resIndex :=
  ⟨List.take_prefix _ _, (C12_in_order_once ops hok).1⟩

/-- C12_close_after_full_delivery: in every admissible history without a peer-initiated close or
parse failure and without a failed write, a connection that is gone (dropped by the server after the
closing response) has delivered every byte handed to `send` — the closing response reaches the peer
completely before the connection is dropped, also when it needed many partial writes. (Send-complete being
reported only after the send buffer drained is the assumed send-side contract, part of `traceOk`; after a
failed write BufferedFd drops data and the clause does not apply — `C12_write_error` covers that case.) -/
theorem C12_close_after_full_delivery (ops : List PipeOp) (hok : traceOk {} ops = true)
    (hnd : PipeOp.drop ∉ ops) (hnh : PipeOp.halfClose ∉ ops) (hgone : (Pipe.run {} ops).valid = false)
    (hnw : (Pipe.run {} ops).wbroken = false) :
    (Pipe.run {} ops).peerBytes = ((Pipe.run {} ops).written.map (·.2)).flatten := by
  have := run_noLoss {} ops (by intro h; simp at h) hok hnd hnh hgone hnw
  unfold Pipe.peerBytes
  rw [this]
  exact List.take_length

/-- non-vacuity: partial writes of a closing response, then send-complete drops the connection -/
example :
    let ops := [PipeOp.req true, .commit 0 [1, 2, 3, 4, 5], .kernel 2, .kernel 1, .kernel 9, .sendComplete]
    traceOk {} ops = true ∧ PipeOp.drop ∉ ops ∧ PipeOp.halfClose ∉ ops ∧ (Pipe.run {} ops).valid = false ∧
    (Pipe.run {} ops).wbroken = false ∧ (Pipe.run {} (ops.take 3)).peerBytes = [1, 2] ∧ (Pipe.run {} ops).peerBytes = [1, 2, 3, 4, 5] := by
  decide +kernel

/-- a send-complete while bytes are still buffered is not admissible (contract) -/
example : traceOk {} [PipeOp.req true, .commit 0 [1, 2, 3], .kernel 2, .sendComplete] = false := by decide +kernel

/-- C12_write_error: once a write on the socket has failed, nothing more reaches the peer —
whatever the handlers commit afterwards and whatever else happens (the tear-down guarantees of
C12_single_disconnect hold for such histories as for all others). -/
theorem C12_write_error (ops more : List PipeOp) (hb : (Pipe.run {} ops).wbroken = true) :
    ((Pipe.run {} ops).run more).peerBytes = (Pipe.run {} ops).peerBytes :=
  frozen_peerBytes (run_frozen _ _ more ⟨hb, rfl, [], by simp⟩) (run_inv2 {} ops inv2_init).sentLe

/-
-- OPEN (false of the code as it is — C12_half_close_counterexample): "after the peer shut down only
--   its sending side, the responses of the requests already handed to handlers are still written, in
--   order, and the connection is closed after the last of them."
-- TcpConnection::onSocketClosed (network/) treats read()==0 as "connection closed": it disables and releases its BufferedFd
-- BEFORE the disconnected callback reaches TcpServer and the http server, so nothing inside http/server can keep the
-- connection writable (re-examined in round 7: `TcpConnection::send` already returns false when Server::Impl hears of it).
-- A repair needs a half-close notion in TcpConnection (keep the write side), TcpServer (forward it) and Server::Impl
-- ("no more requests; close after the last outstanding response"): three classes in two modules, a new API — recorded
-- in known_findings.txt (fp=srv-halfclose-responses-lost), not repaired. The check runs every half-close history as coded
-- (`chalf`, fully tied) and the first few also as the property asks (`chalfS`).
-/

/-- as coded, a peer that only half-closes (it still reads) loses every outstanding response -/
theorem C12_half_close_counterexample :
    (Pipe.run {} [.req false, .req false, .halfClose, .commit 0 [0], .commit 1 [1]]).written = [] ∧
    (Pipe.run {} [.req false, .req false, .halfClose, .commit 0 [0], .commit 1 [1]]).valid = false := by
  decide +kernel

/-! ### handlers that behave unusually -/

/-- C12_written_once: a response index is never written twice — also when a handler commits the
same request several times (before its turn the later commit replaces the parked one, after it
the commit stays parked and is never written) and whatever else the handlers do. -/
theorem C12_written_once (ops : List PipeOp) (hok : traceOk {} ops = true) :
    ((Pipe.run {} ops).written.map (·.1)).Nodup := by
  rw [(C12_in_order_once ops hok).1]
  exact List.nodup_range

/-- non-vacuity: double commits are admissible histories -/
example : traceOk {} [.req false, .req false, .commit 1 [1], .commit 1 [9], .commit 0 [0], .commit 0 [7], .commit 1 [8]] = true ∧
    (Pipe.run {} [.req false, .req false, .commit 1 [1], .commit 1 [9], .commit 0 [0], .commit 0 [7], .commit 1 [8]]).written
      = [(0, [0]), (1, [9])] := by decide +kernel

/-- C12_head_of_line: if the handler of request `k` never completes, nothing at or beyond `k` is
written, however many later requests complete. -/
theorem C12_head_of_line (ops : List PipeOp) (hok : traceOk {} ops = true) (k : Nat)
    (hk : ∀ r, PipeOp.commit k r ∉ ops) : (Pipe.run {} ops).resIndex ≤ k ∧ ∀ x ∈ (Pipe.run {} ops).written, x.1 < k := by
  have h := C12_in_order_once ops hok
  have hle : (Pipe.run {} ops).resIndex ≤ k := by
    apply Nat.le_of_not_lt
    intro hlt
    have hm : k ∈ (Pipe.run {} ops).written.map (·.1) := by rw [h.1]; exact List.mem_range.mpr hlt
    obtain ⟨x, hx, hxk⟩ := List.mem_map.mp hm
    exact hk x.2 (by have := h.2 x hx; rwa [hxk] at this)
  refine ⟨hle, ?_⟩
  intro x hx
  have hm : x.1 ∈ (Pipe.run {} ops).written.map (·.1) := List.mem_map_of_mem hx
  rw [h.1, List.mem_range] at hm
  omega

/-- C12_commit_after_gone: a handler that completes after the connection is gone (dropped by the
server, closed by the peer, parser failure) writes nothing and tears nothing down again. -/
theorem C12_commit_after_gone (ops : List PipeOp) (i : Nat) (r : Bytes) (hg : (Pipe.run {} ops).valid = false) :
    ((Pipe.run {} ops).step (.commit i r)) = Pipe.run {} ops := by
  simp [Pipe.step, Pipe.commit, hg]

/-! ### user callbacks: scripted handler chains -/

def PipeOp.isCommit : PipeOp → Bool
  | .commit _ _ => true
  | _ => false

/-- C12_handler_commits_once: whatever the handlers of the chain do for a request — call `next()`
never, once or several times at any level, set the response at several levels, throw, stop or
clean up the server — the request produces exactly one commit (when the chain returns or
unwinds) unless a handler kept the context, and then none: one Context, one response. -/
theorem C12_handler_commits_once (s : Server) (last : Bool) :
    (((s.handleReq last).1.hist.drop s.hist.length).countP PipeOp.isCommit)
      = if (s.handleReq last).2.kept then 0 else 1 := by
  have hw : ∀ w w' : WSt, (wOps w w').countP PipeOp.isCommit = 0 := by
    intro w w'
    simp only [wOps, List.countP_cons, PipeOp.isCommit]
    split <;> simp [PipeOp.isCommit]
  have hd : ∀ b : Bool, (if b then [PipeOp.drop] else []).countP PipeOp.isCommit = 0 := by
    intro b; cases b <;> simp [PipeOp.isCommit]
  simp only [Server.handleReq]
  split <;> rename_i hk
  · simp only [hk, if_true, Server.emit, List.drop_left' rfl, List.countP_cons, PipeOp.isCommit, hd]
    simp
  · simp only [hk, Server.commitW, Server.emit, List.append_assoc, List.drop_left' rfl, List.countP_cons,
      List.countP_append, PipeOp.isCommit, hd, hw]
    simp

/-- C12_scripted_admissible: for EVERY sequence of things that can happen to a connection —
segments of any bytes, handler scripts of any shape for any request (respond at once, `next()`
zero/one/several times, keep the context and answer later, answer after the peer closed, throw,
`stop()`/`cleanup()` from inside the handler), late completions, peer close / half-close, write
failures — the history of pipeline operations the server performs is admissible (`traceOk`) and
the pipeline state is exactly the result of that history.  Hence every pipeline theorem above
(in order, exactly once, nothing after the closing response, single tear-down, …) holds for the
server with arbitrary user callbacks; the corollary spells the main ones out. -/
theorem C12_scripted_admissible (ops : List SrvOp) :
    (ops.foldl Server.step {}).pipe = Pipe.run {} (ops.foldl Server.step {}).hist ∧
    traceOk {} (ops.foldl Server.step {}).hist = true :=
  let h := run_sinv ops {} sinv_init
  ⟨h.hist, h.ok⟩

theorem C12_scripted_pipelining (ops : List SrvOp) :
    let p := (ops.foldl Server.step {}).pipe
    InOrderOnce p.written p.resIndex ∧ (p.written.map (·.1)).Nodup ∧
    (∀ k, p.closeIndex = some k → ∀ x ∈ p.written, x.1 ≤ k) ∧ p.disconnects ≤ 1 ∧
    (p.valid = true → p.pastClose = false → p.resBuff.find? (fun e => e.1 == p.resIndex) = none) := by
  obtain ⟨h1, h2⟩ := C12_scripted_admissible ops
  simp only
  rw [h1]
  exact ⟨(C12_in_order_once _ h2).1, C12_written_once _ h2, fun k hk => (C12_nothing_after_close _ h2 k hk).1,
    (C12_single_disconnect _ []).1, C12_no_response_stuck _ h2⟩

/-- C12_scripted_peer_stream (fault schedules): for EVERY sequence of events on a connection, including EVERY sequence
of answers the kernel gives to the server's `write()` calls (`SrvOp.wq`: accepted, short count, EAGAIN, EPIPE — at any
call index, in the middle of a batch of pipelined responses, in any combination) and read errors (`SrvOp.rerr`), what
the peer has received is a prefix of the in-order responses, each response index is handed to the socket at most once,
and the connection object is torn down at most once. -/
theorem C12_scripted_peer_stream (ops : List SrvOp) :
    let p := (ops.foldl Server.step {}).pipe
    p.peerBytes <+: (p.written.map (·.2)).flatten ∧ InOrderOnce p.written p.resIndex ∧ p.disconnects ≤ 1 := by
  obtain ⟨h1, h2⟩ := C12_scripted_admissible ops
  simp only
  rw [h1]
  exact ⟨(C12_peer_stream _ h2).1, (C12_peer_stream _ h2).2, (C12_single_disconnect _ []).1⟩

/-- non-vacuity / as coded: three pipelined requests (the last one closing) answered in the order 2, 1, 0; the commit of 0
releases the batch 0,1,2; the kernel accepts the first write and answers EPIPE to the second: response 0 reaches the
peer, 1 and 2 are dropped by BufferedFd, the still-enabled write event finds an empty buffer, reports send-complete and
the server closes the connection as after a complete delivery. -/
example : tablesStd = true →
    let three := ascii "GET /0 HTTP/1.1\r\nContent-Length: 0\r\n\r\nGET /1 HTTP/1.1\r\nContent-Length: 0\r\n\r\nGET /2 HTTP/1.1\r\nConnection: close\r\nContent-Length: 0\r\n\r\n"
    let s := [SrvOp.seg three, .done 2 { status := 200, body := [50] }, .done 1 { status := 200, body := [49] },
              .wq [.pass, .epipe], .done 0 { status := 200, body := [48] }].foldl Server.step {}
    s.pipe.written.map (·.1) = [0, 1, 2] ∧ s.pipe.peerBytes = respond [48] ∧ s.pipe.wbroken = true ∧ s.pipe.valid = false := by
  decide +kernel

/-- short count, then EAGAIN, then the rest: everything is delivered, in order -/
example : tablesStd = true →
    let one := ascii "GET /0 HTTP/1.1\r\nContent-Length: 0\r\n\r\n"
    let s := [SrvOp.seg one, .wq [.short 5, .again, .short 1], .done 0 { status := 200, body := [48] }].foldl Server.step {}
    s.pipe.peerBytes = respond [48] ∧ s.pipe.wbroken = false ∧ s.wq = [] := by
  decide +kernel

/-- non-vacuity: handlers that call next() twice, keep the context, stop the server -/
example : tablesStd = true →
    let three := ascii "GET /0 HTTP/1.1\r\nContent-Length: 0\r\n\r\nGET /1 HTTP/1.1\r\nContent-Length: 0\r\n\r\nGET /2 HTTP/1.1\r\nContent-Length: 0\r\n\r\n"
    let s := [SrvOp.script 0 [[.next, .next], [.body [65], .keep]], .script 1 [[.body [66]]], .script 2 [[.stop]],
              .seg three, .done 0 {}].foldl Server.step {}
    s.pipe.reqIndex = 3 ∧ s.pipe.written.map (·.1) = [] ∧ s.pipe.valid = false ∧ s.outstanding = [] := by
  decide +kernel

/-! ### what is written for a Respond value -/

/-- C12_respond_roundtrip: the bytes `Respond::toString()` produces for any response value whose
header keys contain no ':'/CR and whose header values contain no CR are read back by an independent
minimal response reader (Spec.parseResponse) as the same version, status text, headers (in map
order, followed by the Content-Length line that is always added) and body, with nothing left over. -/
theorem C12_respond_roundtrip (r : Respond) (hp : r.printable = true) :
    parseResponse r.render = some ⟨ascii (verStr r.ver), ascii (statusText r.status),
      r.headers ++ [(ascii "Content-Length", decimal r.body.length)], r.body⟩ :=
  parseResponse_render r hp

/-! ### url.cpp beyond what the parser needs -/

/-- C12_url_codec_roundtrip: `UrlDecode(UrlEncode(s, mode)) = s` for every byte string and both
modes (the encoder is what `UrlPathToString`, hence `Request::toString`, uses for path,
parameters and query). -/
theorem C12_url_codec_roundtrip (pathMode : Bool) (s : Bytes) : urlDecode (urlEncode pathMode s) = some s :=
  urlDecode_urlEncode pathMode s

/-- C12_url_roundtrip_path: a target that is a path only (no parameters, query or fragment),
whatever bytes the path contains, survives `UrlPathToString` → `StringToUrlPath`. -/
theorem C12_url_roundtrip_path (path : Bytes) (hp : path.head? = some 47) :
    parseUrlPath (urlPathToString ⟨path, [], [], []⟩) = some ⟨path, [], [], []⟩ :=
  urlPath_roundtrip_path path hp

/-- C12_url_path_roundtrip: `StringToUrlPath (UrlPathToString u) = u` for EVERY path value that is
well-formed (`UrlPath.wf`, decidable): the path starts with '/', the parameter and query maps are
key-sorted (they are `std::map`s) with non-empty keys, the fragment has none of `% ; ?`. Keys,
values and the path itself are arbitrary byte strings — all 256 byte values, delimiters included;
percent-encoding makes them safe. (In particular every fragment-free value with non-empty keys.) -/
theorem C12_url_path_roundtrip (u : UrlPath) (hw : u.wf = true) : parseUrlPath (urlPathToString u) = some u :=
  urlPath_roundtrip u hw

/-- non-vacuity: keys / values made of delimiters, NUL and high bytes, an empty value, a fragment with '#', '=' -/
example : (UrlPath.mk (ascii "/a b;?#") [([0, 255], [37, 59]), (ascii "k", [])] [(ascii "&=", ascii "?"), (ascii "k", ascii "v")]
    (ascii "f#=&")).wf = true := by decide

/-- each clause of `UrlPath.wf` is needed (1): a key that is empty is printed as "?=1", which the parser rejects … -/
theorem C12_url_path_roundtrip_counterexample_key :
    parseUrlPath (urlPathToString ⟨ascii "/p", [], [([], ascii "1")], []⟩) = none := by decide +kernel

/-- … and such a value is reachable by parsing: "/p?%=1" is accepted (the truncated escape is dropped) -/
theorem C12_url_reparse_counterexample :
    parseUrlPath (ascii "/p?%=1") = some ⟨ascii "/p", [], [([], ascii "1")], []⟩ := by decide +kernel

/-- (2) a ';' in the fragment is taken for the parameter delimiter when there are no parameters -/
theorem C12_url_path_roundtrip_counterexample_frag :
    parseUrlPath (urlPathToString ⟨ascii "/a", [], [], ascii "x;y=z"⟩) = some ⟨ascii "/a#x", [(ascii "y", ascii "z")], [], ascii "x;y=z"⟩ := by
  decide +kernel

/-- (3) a path that does not start with '/' is refused -/
theorem C12_url_path_roundtrip_counterexample_path :
    parseUrlPath (urlPathToString ⟨ascii "a", [], [], []⟩) = none := by decide +kernel

/-- C12_url_total: the URL parsers are total on arbitrary bytes. `StringToUrl` (the only one with
`substr` calls outside a `try`) never leaves through an exception — every position it passes to
`substr` is within the string; every position `StringToUrlPath` / `StringToUrlHost` cut at comes from
a successful `find_first_of` and is therefore inside the string (so `pos + 1 ≤ size`, the only
condition `substr` has); all other failures (`UrlDecode` on a bad hex digit, `std::stoi`) are caught
inside the functions and become `return false` (`none` / `.fail` in the model, which is total). -/
theorem C12_url_total (s : Bytes) :
    stringToUrl s ≠ .threw ∧
    (∀ c i, findByte c s = some i → i + 1 ≤ s.length) ∧
    (∀ i, findSub (ascii "://") s = some i → i + 3 ≤ s.length) :=
  ⟨stringToUrl_no_throw s, fun _ _ h => findByte_lt h, fun _ h => findSub_le h⟩

/-- StringToUrl on hostile input: rejected (bad escape in the host; port without digits), accepted with a
port reduced modulo 65536 (std::stoi → uint16_t, as coded) -/
example : stringToUrl (ascii "http://%zz/p") = .fail ∧ stringToUrl (ascii "h:/p") = .fail ∧
    stringToUrl (ascii "x://h:65616/") = .ok ⟨ascii "x", ⟨[], [], ascii "h", 80⟩, ⟨ascii "/", [], [], []⟩⟩ := by decide +kernel

/-- C12_url_host_roundtrip (closes the former OPEN): `StringToUrlHost (UrlHostToString h) = h` for EVERY host value that
is well-formed (`UrlHost.wf`, decidable): user / password / host are printed UNENCODED, so they contain none of
`% @ : /`; a password needs a user; the port fits `uint16_t`. -/
theorem C12_url_host_roundtrip (h : UrlHost) (hw : h.wf = true) : stringToUrlHost (urlHostToString h) = some h :=
  urlHost_roundtrip h hw

/-- C12_url_abs_roundtrip: `StringToUrl (UrlToString u) = u` for EVERY well-formed absolute URL (`Url.wf`): non-empty
scheme without ':', well-formed host part, well-formed path part (arbitrary-byte keys / values, see
C12_url_path_roundtrip). -/
theorem C12_url_abs_roundtrip (u : Url) (hw : u.wf = true) : stringToUrl (urlToString u) = .ok u :=
  url_roundtrip u hw

/-- non-vacuity: scheme, user:password, host, port, path with a space, parameter, query with delimiters, fragment -/
example : (Url.mk (ascii "https") ⟨ascii "user", ascii "p w", ascii "example.com", 8443⟩
    ⟨ascii "/a b", [(ascii "k", ascii ";")], [(ascii "&=", ascii "?"), (ascii "q", [0, 255])], ascii "frag"⟩).wf = true := by decide

/-- each clause of `UrlHost.wf` is needed — (1) a user with '@': "a@b@h" reads back as user "a", host "b@h" -/
theorem C12_url_host_roundtrip_counterexample_user :
    stringToUrlHost (urlHostToString ⟨ascii "a@b", [], ascii "h", 0⟩) = some ⟨ascii "a", [], ascii "b@h", 0⟩ := by decide +kernel

/-- (2) a password with '@': "u:p@q@h" reads back as password "p", host "q@h" -/
theorem C12_url_host_roundtrip_counterexample_password :
    stringToUrlHost (urlHostToString ⟨ascii "u", ascii "p@q", ascii "h", 0⟩) = some ⟨ascii "u", ascii "p", ascii "q@h", 0⟩ := by
  decide +kernel

/-- (3) a host with ':': what follows is taken for the port and `std::stoi` refuses it -/
theorem C12_url_host_roundtrip_counterexample_host :
    stringToUrlHost (urlHostToString ⟨[], [], ascii "h:x", 0⟩) = none := by decide +kernel

/-- (4) a password without a user is not printed at all -/
theorem C12_url_host_roundtrip_counterexample_pw_without_user :
    stringToUrlHost (urlHostToString ⟨[], ascii "p", ascii "h", 0⟩) = some ⟨[], [], ascii "h", 0⟩ := by decide +kernel

/-- (5) '%' is not encoded when printed but decoded when read: user "%41" comes back as "A" -/
theorem C12_url_host_roundtrip_counterexample_percent :
    stringToUrlHost (urlHostToString ⟨ascii "%41", [], ascii "h", 0⟩) = some ⟨ascii "A", [], ascii "h", 0⟩ := by decide +kernel

/-- (6) a port outside `uint16_t` (reachable only through the text form): `std::stoi` accepts it as an `int`, the
assignment to `uint16_t` reduces it modulo 65536 (url.cpp:218) -/
theorem C12_url_host_roundtrip_counterexample_port :
    stringToUrlHost (urlHostToString ⟨[], [], ascii "h", 65616⟩) = some ⟨[], [], ascii "h", 80⟩ := by decide +kernel

/-- each clause of `Url.wf` is needed — (7) a scheme containing "://": the first "://" ends the scheme, the port is empty -/
theorem C12_url_abs_roundtrip_counterexample_scheme :
    stringToUrl (urlToString ⟨ascii "a://b", ⟨[], [], ascii "h", 0⟩, ⟨ascii "/", [], [], []⟩⟩) = .fail := by decide +kernel

/-- (8) an empty scheme: no "://" is printed, and one inside the (unencoded) fragment is taken for the scheme delimiter -/
theorem C12_url_abs_roundtrip_counterexample_noscheme :
    stringToUrl (urlToString ⟨[], ⟨[], [], ascii "h", 0⟩, ⟨ascii "/p", [], [], ascii "://"⟩⟩)
      = .ok ⟨ascii "h/p#", ⟨[], [], [], 0⟩, ⟨ascii "/", [], [], []⟩⟩ := by decide +kernel

/-! ### C++ integer widths (tools/narrowing/C12.txt) -/

/-- the value `std::stoi` hands to `uint16_t port` (url.cpp:218) is the mathematical one exactly for 0 ≤ p < 65536;
for EVERY `int` the stored port is below 65536 (the conversion is modular, never undefined) -/
theorem C12_port_width (p : Int) :
    toU16 p < 65536 ∧ ((0 ≤ p ∧ p < 65536) → toU16 p = p.toNat) ∧ ((p < 0 ∨ 65536 ≤ p) → (toU16 p : Int) ≠ p) := by
  unfold toU16
  refine ⟨by omega, fun h => by omega, fun h => by omega⟩

/-- outside the range, as coded: 65536 → 0, -1 → 65535, INT_MAX → 65535, INT_MIN → 0; beyond `int`, `std::stoi` throws
and the function returns false -/
theorem C12_port_width_counterexample :
    stringToUrlHost (ascii "h:65536") = some ⟨[], [], ascii "h", 0⟩ ∧ stringToUrlHost (ascii "h:-1") = some ⟨[], [], ascii "h", 65535⟩ ∧
    stringToUrlHost (ascii "h:2147483647") = some ⟨[], [], ascii "h", 65535⟩ ∧
    stringToUrlHost (ascii "h:-2147483648") = some ⟨[], [], ascii "h", 0⟩ ∧
    stringToUrlHost (ascii "h:2147483648") = none ∧ stringToUrlHost (ascii "h:-2147483649") = none := by decide +kernel

/-- C12_content_length_width: `ParseContentLength` on EVERY byte string: accepted exactly when it is a non-empty string of
decimal digits whose value is at most SIZE_MAX-1 (= 2^64-2; SIZE_MAX is the "no Content-Length" marker), and then
`content_length_` is the mathematical value — whatever the number of leading zeros, also beyond 2^31 / 2^32 / 2^63; a sign,
a space or tab, a hex prefix, trailing junk and every value from 2^64-1 on are refused (the parser goes to `kFail`). -/
theorem C12_content_length_width (v : Bytes) :
    parseLenChecked v =
      if !v.isEmpty && allDigits v && decide (valFrom 0 v ≤ 2 ^ 64 - 2) then some (valFrom 0 v) else none := by
  rw [parseLenChecked_eq]
  cases hv : v.isEmpty with
  | true => simp
  | false => simp only [Bool.false_eq_true, if_false, Bool.not_false, Bool.true_and]; exact foldl_lenStep v 0 (by omega)

/-- both sides of every boundary -/
example : parseLenChecked (ascii "2147483647") = some (2 ^ 31 - 1) ∧ parseLenChecked (ascii "2147483648") = some (2 ^ 31) ∧
    parseLenChecked (ascii "4294967296") = some (2 ^ 32) ∧ parseLenChecked (ascii "9223372036854775808") = some (2 ^ 63) ∧
    parseLenChecked (ascii "18446744073709551614") = some (2 ^ 64 - 2) ∧ parseLenChecked (ascii "18446744073709551615") = none ∧
    parseLenChecked (ascii "18446744073709551616") = none ∧ parseLenChecked (ascii "+5") = none ∧ parseLenChecked (ascii "-1") = none ∧
    parseLenChecked (ascii "0x10") = none ∧ parseLenChecked (ascii "\t3") = none ∧ parseLenChecked (ascii "0000000000000000000000003") = some 3 := by
  decide +kernel

/-- C12_declared_length_waits: with ANY declared length `n` larger than what is buffered (2^31, 2^63, 2^64-2 …: no
narrowing, no wrap in `data_size - pos >= content_length_`) the body stage consumes nothing, stays in `kFinishedHeads`
and hands out no request; the bytes stay in the receive buffer until the peer gives up. -/
theorem C12_declared_length_waits (req : Req) (n : Nat) (s : Bytes) (h : s.length < n) :
    parse Cfg.fixed ⟨.heads, req, some n⟩ s = .ok ⟨.heads, req, some n⟩ s := by
  have : ¬ n ≤ s.length := by omega
  simp [parse, bodyStage, this]

/-- a declared length of 2^63 with a 3-byte body: no request, nothing thrown, 3 bytes pending -/
example : tablesStd = true →
    let o := recv Cfg.fixed isLast {} (ascii "PUT /l HTTP/1.1\r\nContent-Length: 9223372036854775808\r\n\r\nabc")
    reqsOf o.evs = [] ∧ o.status = .ok ∧ o.conn.ps.st = .heads ∧ o.conn.ps.clen = some (2 ^ 63) ∧ o.conn.buf = ascii "abc" ∧ o.conn.dead = false := by
  decide +kernel

/-! ### what the handler receives / what `Request::toString` prints -/

/-- C12_request_roundtrip (parse ∘ render): for every request value that `Request::toString` prints
unambiguously (`Req.printable`, decidable: table method / version, well-formed target, key-sorted
header map with printable entries, any body incl. CR/LF/NUL bytes) and whatever follows it in the
buffer, one `parse` call from `kInit` returns exactly this request — same method, target (path,
parameters, query, fragment), version, body, and the header map plus the `Content-Length` entry the
printer always adds — consumes exactly the printed bytes and leaves the rest. -/
theorem C12_request_roundtrip (r : Req) (hp : r.printable = true) (rest : Bytes) :
    parse Cfg.fixed PState.init (r.render ++ rest) =
      .ok ⟨.all, { r with headers := mapInsert (ascii "Content-Length") (decimal r.body.length) r.headers },
           some r.body.length⟩ rest :=
  parse_render r hp rest

/-- non-vacuity: a request with parameters, an escaped query key, two headers and a body with CR LF NUL -/
example : tablesStd = true →
    (Req.mk "kPost" ⟨ascii "/a b", [(ascii "k", ascii ";")], [(ascii "q=", [0, 255])], ascii "frag"⟩ "k1_1"
      [(ascii "Host", ascii "h:80"), (ascii "X-A", ascii "a  b")] [13, 10, 0, 65]).printable = true := by decide +kernel

/-- the hypothesis on header values is needed: a value with surrounding spaces comes back stripped -/
theorem C12_request_roundtrip_counterexample : tablesStd = true →
    (match parse Cfg.fixed PState.init (Req.mk "kGet" ⟨ascii "/", [], [], []⟩ "k1_1" [(ascii "X", ascii " v ")] []).render with
     | .ok ps _ => ps.req.headers.lookup (ascii "X")
     | _ => none) = some (ascii "v") := by decide +kernel

/-- the fragment is printed unencoded but decoded when parsed: "%41" comes back as "A" -/
theorem C12_url_roundtrip_counterexample :
    parseUrlPath (urlPathToString ⟨ascii "/p", [], [], ascii "%41"⟩) = some ⟨ascii "/p", [], [], ascii "A"⟩ := by
  decide +kernel

/-- a handler that lets go of its context without touching the response answers 404 (context.cpp:
the constructor presets 404 / HTTP/1.1, the destructor commits) -/
theorem C12_untouched_context_answers_404 : statusText 404 = "404 Not Found" → verStr "k1_1" = "HTTP/1.1" →
    ({} : Respond).render = ascii "HTTP/1.1 404 Not Found\r\nContent-Length: 0\r\n\r\n" := by
  intro h1 h2
  have hd : decimal 0 = [48] := by unfold decimal; simp
  simp only [Respond.render, h1, h2, hdrLine, List.length_nil, hd]
  decide +kernel

/-- non-vacuity: an admissible history with out-of-order completion and a closing request -/
example :
    let ops := [PipeOp.req false, .req false, .commit 1 [1], .req true, .commit 2 [2], .commit 0 [0], .kernel 3, .sendComplete]
    traceOk {} ops = true ∧ (Pipe.run {} ops).written = [(0, [0]), (1, [1]), (2, [2])] ∧
    (Pipe.run {} ops).closeIndex = some 2 ∧ (Pipe.run {} ops).valid = false := by
  decide +kernel

/-- unpatched feed loop: a request pipelined in the same segment after a closing request is
still handed to the handler … -/
theorem C12_nothing_after_close_counterexample_unpatched : tablesStd = true →
    (reqsOf (recv Cfg.orig isLast {} (ascii
      "GET /a HTTP/1.1\r\nConnection: close\r\nContent-Length: 0\r\n\r\nGET /b HTTP/1.1\r\nContent-Length: 0\r\n\r\n")).evs).map (·.2.1)
      = [true, false] ∧
    -- … and its response is written after the closing response (this history is not `traceOk`)
    (Pipe.run {} [.req true, .req false, .commit 0 [0], .commit 1 [1]]).written = [(0, [0]), (1, [1])] ∧
    (Pipe.run {} [.req true, .req false, .commit 0 [0], .commit 1 [1]]).closeIndex = some 0 := by
  decide +kernel

/-- unpatched server (observed by the harness, patches/C12-04): `shutdown(SHUT_RD)` on a closing
request makes the loop read EOF and drop the connection; a handler that completes later has its
response discarded — the closing request is never answered -/
theorem C12_closing_response_lost_unpatched :
    (Pipe.run {} [.req true, .drop, .commit 0 [0]]).written = [] := by
  decide +kernel

/-! ## C. several connections of one server (Multi.lean)

`MServer.run {} ops` = the server after ANY sequence of: clients connecting, events of any connection in any interleaving
(segments of any bytes, handler scripts, late completions, peer close / half close, read and write faults), `stop()` /
`cleanup()` outside handlers or from inside a handler of any connection, `start()` again. Tokens are resolved through a
transcription of `cabinet::Cabinet` (cells reused LIFO, ids never). -/

/-- C12_multi_token_own (responses never cross connections, part 1 — token staleness, cf. C08): in every reachable state
the token held by the Contexts of connection `c` resolves to connection `c` itself as long as `c` is alive, and to NOTHING
once `c` was torn down — whoever occupies its cabinet cell now (a connection accepted later reuses the cell, and after
`stop()` + `start()` the positions start again at 0). So `commitRespond`, `isClientValid`, `getContext`, `send` reach the
connection the request arrived on or no connection at all. -/
theorem C12_multi_token_own (ops : List MOp) (c : Nat) (cl : Client) (hc : (MServer.run {} ops).clients[c]? = some cl) :
    (MServer.run {} ops).target c = if cl.srv.pipe.valid then some c else none :=
  target_own (run_minv ops minv_init) hc

/-- C12_multi_frame: an event of connection `c` — whatever it is: a segment that fails to parse, a closing request, the
peer closing or half-closing, a read or write fault, a handler completing (also long after `c` is gone) — leaves the
record of EVERY other connection (parser state, receive buffer, pipeline, parked responses, send side, handler scripts,
outstanding Contexts) exactly as it was; the only exception is a handler that stops the server (`stopsServer`), covered
by C12_multi_stop_all. -/
theorem C12_multi_frame (ops : List MOp) (c d : Nat) (op : SrvOp) (hd : d ≠ c)
    (hns : (MServer.run {} ops).stopsServer c op = false) :
    ((MServer.run {} ops).step (.on c op)).clients[d]? = (MServer.run {} ops).clients[d]? :=
  on_frame (run_minv ops minv_init) c d op hd hns

/-- non-vacuity: teardown of connection 0 by a parse failure while connection 1 has a request outstanding -/
example : tablesStd = true →
    let one := ascii "GET /a HTTP/1.1\r\nContent-Length: 0\r\n\r\n"
    let m := MServer.run {} [.conn, .conn, .on 1 (.seg one), .on 0 (.seg one)]
    m.stopsServer 0 (.seg (ascii "BAD\r\n\r\n")) = false ∧
    (m.step (.on 0 (.seg (ascii "BAD\r\n\r\n")))).clients.map (·.srv.pipe.valid) = [false, true] ∧
    (m.step (.on 0 (.seg (ascii "BAD\r\n\r\n")))).clients.map (·.srv.outstanding) = [[0], [0]] := by
  decide +kernel

/-- C12_multi_per_connection (responses never cross connections, part 2): in every reachable state the pipeline of every
connection is exactly the result of ITS OWN admissible history; hence what was handed to its socket are the responses
0,1,…,resIndex-1 in this order, each once, each committed by a Context of THIS connection for exactly that request index
(`commit` enters a connection's history only through `MServer.step (.on c …)` with the token resolving to `c` —
C12_multi_token_own); nothing beyond a closing request; one tear-down; the peer holds a prefix of that stream. -/
theorem C12_multi_per_connection (ops : List MOp) (c : Nat) (cl : Client) (hc : (MServer.run {} ops).clients[c]? = some cl) :
    cl.srv.pipe = Pipe.run {} cl.srv.hist ∧ traceOk {} cl.srv.hist = true ∧
    InOrderOnce cl.srv.pipe.written cl.srv.pipe.resIndex ∧
    (∀ x ∈ cl.srv.pipe.written, PipeOp.commit x.1 x.2 ∈ cl.srv.hist) ∧
    (∀ k, cl.srv.pipe.closeIndex = some k → ∀ x ∈ cl.srv.pipe.written, x.1 ≤ k) ∧
    cl.srv.pipe.disconnects ≤ 1 ∧ cl.srv.pipe.peerBytes <+: (cl.srv.pipe.written.map (·.2)).flatten := by
  have h := (run_minv ops minv_init).sinv c cl hc
  have h1 := h.hist
  have h2 := h.ok
  refine ⟨h1, h2, ?_, ?_, ?_, ?_, ?_⟩
  · rw [h1]; exact (C12_in_order_once _ h2).1
  · rw [h1]; exact (C12_in_order_once _ h2).2
  · rw [h1]; exact fun k hk => (C12_nothing_after_close _ h2 k hk).1
  · rw [h1]; exact (C12_single_disconnect _ []).1
  · rw [h1]; exact (C12_peer_stream _ h2).1

/-- C12_multi_stale_commit: a Context that completes after its connection is gone (closing request answered, peer close,
read error, parse failure, `stop()`) changes the pipeline of NO connection — in particular not of a new connection that
was given the same cabinet cell. -/
theorem C12_multi_stale_commit (ops : List MOp) (c i : Nat) (r : Respond) (cl : Client)
    (hc : (MServer.run {} ops).clients[c]? = some cl) (hgone : cl.srv.pipe.valid = false) (d : Nat) :
    (((MServer.run {} ops).step (.on c (.done i r))).clients[d]?).map (·.srv.pipe) = ((MServer.run {} ops).clients[d]?).map (·.srv.pipe) :=
  stale_commit (run_minv ops minv_init) c i r cl hc hgone d

/-- non-vacuity: connection 0 is closed by the peer with a Context held, connection 1 takes over its cabinet cell (same
position, larger id), then the Context completes: connection 1 — which has sent a request of its own — gets nothing -/
example : tablesStd = true →
    let one := ascii "GET /0 HTTP/1.1\r\nContent-Length: 0\r\n\r\n"
    let m := MServer.run {} [.conn, .on 0 (.seg one), .on 0 (.cclose none false), .conn, .on 1 (.seg one), .on 0 (.done 0 { status := 200, body := [88] })]
    m.clients.map (·.tok) = [⟨1, 0⟩, ⟨2, 0⟩] ∧ m.clients.map (·.srv.pipe.valid) = [false, true] ∧
    m.clients.map (·.srv.pipe.written) = [[], []] ∧ m.clients.map (·.srv.outstanding) = [[], [0]] := by
  decide +kernel

/-- with the cabinet AS FOUND before the C08 repair (`clear()` reset the id counter) the statement is false: after `stop()` and
`start()` the first new connection gets the token (1, 0) again, and the late Context of the old connection 0 writes its
response on the NEW connection, which has not sent anything -/
theorem C12_multi_stale_commit_counterexample_unrepaired_cabinet : tablesStd = true →
    let one := ascii "GET /0 HTTP/1.1\r\nContent-Length: 0\r\n\r\n"
    let ops : List MOp := [.conn, .on 0 (.seg one), .stop false, .start, .conn, .on 0 (.done 0 { status := 200, body := [88] })]
    ((MServer.run { resetIds := true } ops).clients.map (·.srv.pipe.written.length) = [0, 1]) ∧
    ((MServer.run {} ops).clients.map (·.srv.pipe.written.length) = [0, 0]) := by
  decide +kernel

/-- C12_multi_stop_all: `Server::stop()` / `cleanup()` on a running server — outside any handler, with the connections in
whatever pipeline states (mid-request, responses parked, closing response pending, idle) — tears down EVERY connection and
empties the cabinet: afterwards no token resolves, so every late commit is discarded (C12_multi_stale_commit), and every
connection satisfies the single-tear-down and nothing-written-afterwards guarantees (C12_multi_per_connection). The same
holds when a handler of some connection stops the server (`stopsServer`). -/
theorem C12_multi_stop_all (m : MServer) (cleanup : Bool) (hr : m.state = .running) (hp : m.poisoned = false) :
    (∀ (d : Nat) (dl : Client), (m.step (.stop cleanup)).clients[d]? = some dl → dl.srv.pipe.valid = false) ∧
    (m.step (.stop cleanup)).cab.cells = [] ∧ (∀ d, (m.step (.stop cleanup)).target d = none) ∧
    (m.step (.stop cleanup)).state ≠ .running := by
  have hs : m.step (.stop cleanup) = m.stopAll cleanup := by simp [MServer.step, hp, MServer.stopOutside, hr]
  rw [hs]
  refine ⟨fun d dl hd => stopAll_dead m cleanup d dl hd, by simp [MServer.stopAll, Cab.clear], ?_, ?_⟩
  · intro d
    simp only [MServer.target]
    cases (m.stopAll cleanup).clients[d]? with
    | none => rfl
    | some dl => simp [MServer.stopAll, Cab.clear, Cab.lookup]
  · simp only [MServer.stopAll]; cases cleanup <;> simp

theorem C12_multi_handler_stop (ops : List MOp) (c : Nat) (b : Bytes) (hp : (MServer.run {} ops).poisoned = false)
    (hs : (MServer.run {} ops).stopsServer c (.seg b) = true) :
    (∀ (d : Nat) (dl : Client), ((MServer.run {} ops).step (.on c (.seg b))).clients[d]? = some dl → dl.srv.pipe.valid = false) ∧
    ((MServer.run {} ops).step (.on c (.seg b))).cab.cells = [] := by
  generalize MServer.run {} ops = m at *
  simp only [MServer.stopsServer] at hs
  cases hc : m.clients[c]? with
  | none => rw [hc] at hs; cases hs
  | some cl =>
    rw [hc] at hs
    dsimp only at hs
    cases hst : MServer.segStops cl.srv b with
    | none => rw [hst] at hs; cases hs
    | some cleanup =>
      have : m.step (.on c (.seg b)) = ((m.withWq c (·.step (.seg b))).sync c).stopAll cleanup := by
        simp [MServer.step, hp, hc, hst]
      rw [this]
      exact ⟨fun d dl hd => stopAll_dead _ cleanup d dl hd, by simp [MServer.stopAll, Cab.clear]⟩

/-- non-vacuity: three connections in different pipeline states, a handler of connection 1 calls `stop()` -/
example : tablesStd = true →
    let three := ascii "GET /0 HTTP/1.1\r\nContent-Length: 0\r\n\r\nGET /1 HTTP/1.1\r\nContent-Length: 0\r\n\r\nGET /2 HTTP/1.1\r\nContent-Length: 0\r\n\r\n"
    let m := MServer.run {} [.conn, .conn, .conn, .on 0 (.seg three), .on 0 (.done 1 {}), .on 2 (.seg (ascii "GET /x HT")),
                             .on 1 (.script 1 [[.keep, .stop]])]
    m.poisoned = false ∧ m.stopsServer 1 (.seg three) = true ∧
    (m.step (.on 1 (.seg three))).clients.map (·.srv.pipe.valid) = [false, false, false] ∧
    (m.step (.on 1 (.seg three))).clients.map (·.srv.pipe.reqIndex) = [3, 2, 0] ∧ (m.step (.on 1 (.seg three))).state = .inited := by
  decide +kernel

/-! ### the listen backlog (tcp_acceptor.cpp, tcp_server.cpp)

`TcpAcceptor::stop()` disables the read event of the listening socket and nothing else: clients keep connecting into the
kernel's backlog (`MOp.connq`, counted in `pending`) — before the first `start()`, while the server is stopped, and from
inside a handler that stops the server. `start()` accepts them in the order they connected; `cleanup()` closes the listening
socket, whoever waits is reset. -/

/-- C12_multi_backlog_held: while the server is not running NOBODY is accepted, whatever happens — clients connecting,
events and late completions of the torn-down connections, `stop()` / `cleanup()` again — until `start()`. -/
theorem C12_multi_backlog_held (m : MServer) (op : MOp) (hs : m.state ≠ .running) (hop : op ≠ .start) :
    (m.step op).clients.length = m.clients.length := by
  cases op with
  | conn => simp [MServer.step, hs]
  | connq =>
    simp only [MServer.step]
    split
    · rfl
    · split <;> rfl
  | start => exact absurd rfl hop
  | stop cl =>
    simp only [MServer.step]
    split
    · rfl
    · simp only [MServer.stopOutside, hs, if_false]
      split <;> rfl
  | wq q =>
    simp only [MServer.step]
    split <;> rfl
  | on c o => exact on_length m c o

/-- C12_multi_backlog_queue: a client that connects while the server is stopped (or not started yet) waits in the backlog;
after `cleanup()` it is refused; `stop()` keeps the backlog, `cleanup()` empties it. -/
theorem C12_multi_backlog_queue (m : MServer) (hp : m.poisoned = false) :
    (m.state = .inited → (m.step .connq).pending = m.pending + 1 ∧ (m.step .connq).clients = m.clients ∧ (m.step .connq).state = .inited) ∧
    (m.state = .none → m.step .connq = m) ∧
    (m.step (.stop true)).pending = 0 ∧ (m.step (.stop true)).state = .none ∧
    (m.step (.stop false)).pending = m.pending := by
  refine ⟨fun hs => by simp [MServer.step, hp, hs], fun hs => by simp [MServer.step, hp, hs], ?_, ?_, ?_⟩
  · simp only [MServer.step, hp, Bool.false_eq_true, if_false, MServer.stopOutside]
    split
    · simp [MServer.stopAll]
    · simp
  · simp only [MServer.step, hp, Bool.false_eq_true, if_false, MServer.stopOutside]
    split
    · simp [MServer.stopAll]
    · simp
  · simp only [MServer.step, hp, Bool.false_eq_true, if_false, MServer.stopOutside]
    split
    · simp [MServer.stopAll]
    · simp

/-- C12_multi_backlog_start: `start()` on a stopped server accepts exactly the `pending` clients of the backlog: their
records are appended in order behind the existing ones (which are untouched), each one fresh — empty history, pristine
pipeline, nothing outstanding — and the backlog is empty afterwards. Their tokens resolve to themselves and never to a
torn-down connection whose cabinet cell they take over (C12_multi_token_own covers every reachable state). -/
theorem C12_multi_backlog_start (m : MServer) (hp : m.poisoned = false) (hs : m.state = .inited) :
    ∃ new : List Client, (m.step .start).clients = m.clients ++ new ∧ new.length = m.pending ∧
      (∀ x ∈ new, x.srv.hist = [] ∧ x.srv.pipe = {} ∧ x.srv.outstanding = []) ∧
      (m.step .start).state = .running ∧ (m.step .start).pending = 0 := by
  have h : m.step .start = MServer.acceptN m.pending { m with state := .running, pending := 0 } := by
    simp [MServer.step, hp, hs]
  obtain ⟨new, h1, h2, h3, h4, h5, _⟩ := acceptN_spec m.pending { m with state := .running, pending := 0 }
  exact ⟨new, by rw [h, h1], h2, h3, by rw [h, h4], by rw [h, h5]⟩

/-- non-vacuity: connection 0 has a Context held when the server is stopped; two clients connect meanwhile; after `start()`
they are connections 1 and 2 (connection 1 in the cabinet cell connection 0 had, with a larger id); the late Context of
connection 0 reaches nobody, connection 1's own request is answered on connection 1 -/
example : tablesStd = true →
    let one := ascii "GET /0 HTTP/1.1\r\nContent-Length: 0\r\n\r\n"
    let m0 := MServer.run {} [.conn, .on 0 (.seg one), .stop false, .connq, .connq]
    let m := MServer.run m0 [.start, .on 1 (.seg one), .on 0 (.done 0 { status := 200, body := [88] }), .on 1 (.done 0 { status := 200, body := [89] })]
    m0.poisoned = false ∧ m0.state = .inited ∧ m0.pending = 2 ∧ m0.clients.length = 1 ∧
    m.clients.map (·.tok) = [⟨1, 0⟩, ⟨2, 0⟩, ⟨3, 1⟩] ∧ m.pending = 0 ∧
    m.clients.map (·.srv.pipe.written.length) = [0, 1, 0] := by
  decide +kernel

/-- C12_multi_close_commit: a handler that completes in the very loop pass in which the peer closes the connection (before or
after the close is seen) commits through the cabinet like any other: when the connection is already gone — torn down by
`stop()`, a closing request, a fault — the response reaches NO connection, in particular not the one that took over the
cabinet cell. -/
theorem C12_multi_close_commit (ops : List MOp) (c i : Nat) (r : Respond) (cf : Bool) (cl : Client)
    (hc : (MServer.run {} ops).clients[c]? = some cl) (hgone : cl.srv.pipe.valid = false) (d : Nat) :
    (((MServer.run {} ops).step (.on c (.cclose (some (i, r)) cf))).clients[d]?).map (·.srv.pipe.written) =
      ((MServer.run {} ops).clients[d]?).map (·.srv.pipe.written) :=
  close_commit_gone (run_minv ops minv_init) c i r cf cl hc hgone d

/-- non-vacuity: connection 0 is torn down by `stop()` with a Context held; after `start()` connection 1 takes its cell;
the Context of connection 0 completes while its client closes: connection 1 gets nothing -/
example : tablesStd = true →
    let one := ascii "GET /0 HTTP/1.1\r\nContent-Length: 0\r\n\r\n"
    let m := MServer.run {} [.conn, .on 0 (.seg one), .stop false, .start, .conn, .on 1 (.seg one)]
    m.clients.map (·.srv.pipe.valid) = [false, true] ∧ m.clients.map (·.tok.pos) = [0, 0] ∧
    (m.step (.on 0 (.cclose (some (0, { status := 200, body := [88] })) false))).clients.map (·.srv.pipe.written) = [[], []] ∧
    (m.step (.on 0 (.cclose (some (0, { status := 200, body := [88] })) true))).clients.map (·.srv.outstanding) = [[], [0]] := by
  decide +kernel

end Tbox.C12
