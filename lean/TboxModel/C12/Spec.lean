/-
C12 — abstract specification vocabulary (executable / decidable predicates used in the property
statements).
-/
import TboxModel.C12.Pipeline
namespace Tbox.C12

/-- admissible histories of one connection: requests are delivered only while no closing
request has been seen (this is what the patched feed loop guarantees, `C12_no_request_after_close`),
a response can only be committed for a request that was delivered, and — the send-side contract
of BufferedFd assumed here (property C06) — send-complete is reported only when every byte handed
to `send` has been written to the socket, or after a write on the socket has failed for good (BufferedFd
drops what a failed direct write could not send, its buffer is empty and the event still fires). Peer close (`drop`), peer half-close, write errors and
kernel progress may occur anywhere. -/
def traceOk : Pipe → List PipeOp → Bool
  | _, [] => true
  | p, op :: ops =>
    (match op with
      | .req _ => p.closeIndex.isNone
      | .commit i _ => decide (i < p.reqIndex)
      | .sendComplete => !p.valid || p.wbroken || decide (p.sent = p.handed.length)
      | .drop => true
      | .kernel _ => true
      | .writeError => true
      | .halfClose => true) && traceOk (p.step op) ops

/-- responses were written in request order, each index once: indices 0,1,…,n-1 -/
def InOrderOnce (written : List (Nat × Bytes)) (n : Nat) : Prop := written.map (·.1) = List.range n

/-! ### well-formed requests on the wire (what a client writes) -/

/-- the wire form of a request with a declared body length -/
structure WireReq where
  method : Bytes
  target : Bytes
  version : Bytes
  headers : List (Bytes × Bytes)    -- besides Content-Length, which `encode` appends
  body : Bytes
deriving Repr

def contentLengthHdr (w : WireReq) : Bytes × Bytes := (ascii "Content-Length", decimal w.body.length)

/-- `METHOD SP target SP version CRLF (key ": " value CRLF)* "Content-Length: " n CRLF CRLF body` -/
def WireReq.encode (w : WireReq) : Bytes :=
  w.method ++ 32 :: (w.target ++ 32 :: (w.version ++ 13 :: 10 ::
    ((w.headers.map hdrLine).flatten ++ (hdrLine (contentLengthHdr w) ++ 13 :: 10 :: w.body))))

/-- non-empty, no space, no CR -/
def tokenOk (b : Bytes) : Bool := !b.isEmpty && b.all (· != 32) && b.all (· != 13)

/-- header as a client prints it: key without ':' / CR / surrounding spaces and different from
Content-Length; value non-empty, without CR and without surrounding spaces -/
def hdrOk (kv : Bytes × Bytes) : Bool :=
  kv.1.all (· != 58) && kv.1.all (· != 13) && strip kv.1 == kv.1 && kv.1 != ascii "Content-Length" &&
  !kv.2.isEmpty && kv.2.all (· != 13) && strip kv.2 == kv.2 && kv.2.head? != some 32

/-- decidable well-formedness: a known method, a target the URL parser accepts, a known
version, printable headers, a body length that fits `size_t` -/
def WireReq.wellFormed (w : WireReq) : Bool :=
  tokenOk w.method && (methodOf w.method).isSome &&
  tokenOk w.target && (parseUrlPath w.target).isSome &&
  tokenOk w.version && w.version.take 5 == ascii "HTTP/" && (verOf w.version).isSome &&
  w.headers.all hdrOk && decide (w.body.length ≤ 2 ^ 64 - 2)

/-- the request the handler must see: method, target, version, header map (a `std::map`: a
repeated key keeps the last value), body -/
def WireReq.toReq (w : WireReq) : Req :=
  { method := (methodOf w.method).getD "kUnset"
    url := (parseUrlPath w.target).getD {}
    ver := (verOf w.version).getD "kUnset"
    headers := (w.headers ++ [contentLengthHdr w]).foldl (fun m kv => mapInsert kv.1 kv.2 m) []
    body := w.body }

/-- what a pipeline delivers: the requests up to and including the first one that closes the
connection, each with its "closes" flag and "length declared" = true -/
def expectedReqs (markP : Req → Bool) : List WireReq → List (Req × Bool × Bool)
  | [] => []
  | w :: ws => if markP w.toReq then [(w.toReq, true, true)] else (w.toReq, false, true) :: expectedReqs markP ws

/-! ### an independent, minimal HTTP response reader (what a client does with the bytes) -/

structure ParsedResp where
  version : Bytes
  status : Bytes                      -- "200 OK"
  headers : List (Bytes × Bytes)      -- in wire order, Content-Length included
  body : Bytes
deriving DecidableEq, Repr

/-- `key ": " value` -/
def splitColonSp (line : Bytes) : Option (Bytes × Bytes) :=
  match line.dropWhile (· != 58) with
  | 58 :: 32 :: v => some (line.takeWhile (· != 58), v)
  | _ => none

/-- header lines up to the blank line -/
def respHeaders : Nat → Bytes → Option (List (Bytes × Bytes) × Bytes)
  | 0, _ => none
  | f + 1, s =>
    match splitCRLF s with
    | none => none
    | some (line, after) =>
      if line.isEmpty then some ([], after)
      else match splitColonSp line with
        | none => none
        | some kv => (respHeaders f after).map fun (hs, r) => (kv :: hs, r)

def digitsToNat (v : Bytes) : Option Nat :=
  if v.isEmpty then none else
  v.foldl (fun (acc : Option Nat) (c : UInt8) =>
    match acc with
    | none => none
    | some r => if 48 ≤ c && c ≤ 57 then some (r * 10 + (c.toNat - 48)) else none) (some 0)

/-- status line, headers, and exactly Content-Length bytes of body (nothing may follow) -/
def parseResponse (s : Bytes) : Option ParsedResp :=
  match splitCRLF s with
  | none => none
  | some (line, after) =>
    match line.dropWhile (· != 32) with
    | 32 :: st =>
      match respHeaders (after.length + 1) after with
      | none => none
      | some (hs, rest) =>
        match hs.getLast? with
        | none => none
        | some (k, v) =>
          if k != ascii "Content-Length" then none
          else match digitsToNat v with
            | none => none
            | some n => if rest.length = n then some ⟨line.takeWhile (· != 32), st, hs, rest⟩ else none
    | _ => none

/-- a response value whose rendering is unambiguous: header keys without ':' and CR, values
without CR (version and status text come from the tables) -/
def Respond.printable (r : Respond) : Bool :=
  r.headers.all fun kv => kv.1.all (· != 58) && kv.1.all (· != 13) && kv.2.all (· != 13)

end Tbox.C12
