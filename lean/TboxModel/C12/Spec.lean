/-
C12 — abstract specification vocabulary (executable / decidable predicates used in the property
statements).
-/
import TboxModel.C12.Pipeline
namespace Tbox.C12

/-- what the handlers may do with one connection: requests are delivered only while no closing
request has been seen (this is what the patched feed loop guarantees, `C12_no_request_after_close`)
and a response can only be committed for a request that was delivered -/
def traceOk : Pipe → List PipeOp → Bool
  | _, [] => true
  | p, op :: ops =>
    (match op with
      | .req _ => p.closeIndex.isNone
      | .commit i _ => decide (i < p.reqIndex)
      | _ => true) && traceOk (p.step op) ops

/-- responses were written in request order, each index once: indices 0,1,…,n-1 -/
def InOrderOnce (written : List (Nat × Bytes)) (n : Nat) : Prop := written.map (·.1) = List.range n

/-- the wire form of a request with a declared body length, as a client would write it -/
structure WireReq where
  method : Bytes
  target : Bytes
  version : Bytes
  headers : List (Bytes × Bytes)    -- besides Content-Length
  body : Bytes

def decimal (n : Nat) : Bytes := ascii (toString n)

def WireReq.encode (w : WireReq) : Bytes :=
  w.method ++ [32] ++ w.target ++ [32] ++ w.version ++ [13, 10] ++
  (w.headers.map fun (k, v) => k ++ [58, 32] ++ v ++ [13, 10]).flatten ++
  ascii "Content-Length: " ++ decimal w.body.length ++ [13, 10, 13, 10] ++ w.body

end Tbox.C12
