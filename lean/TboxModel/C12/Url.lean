/-
C12 (part C) — the rest of modules/http/url.cpp: absolute URLs.

  UrlHostToString, UrlToString, StringToUrlHost, StringToUrl
  (UrlEncode / UrlDecode / UrlPathToString / StringToUrlPath are in Model.lean)

together with the decidable well-formedness predicates under which printing and parsing are
inverse to each other (`UrlPath.wf`, `UrlHost.wf`, `Url.wf`; theorems in Props.lean, section C).

What is modelled of the C++ calling convention: every `StringTo…` function is applied to a
FRESH (default-constructed) output object, as RequestParser::parse does (`new Request`) and as the
harness does; `none` = the function returned false.  (The functions only assign / insert into the
fields they find in the string; what a second call on a used object leaves behind is not modelled.)
Strings are shorter than 2^31 bytes (`auto host_start_pose = 0` is an `int`).

Core Lean only (linked into the driver).
-/
import TboxModel.C12.Model
namespace Tbox.C12

/-- `Url::Host`; `port` is a `uint16_t` -/
structure UrlHost where
  user : Bytes := []
  password : Bytes := []
  host : Bytes := []
  port : Nat := 0
deriving DecidableEq, Repr

/-- `Url` -/
structure Url where
  scheme : Bytes := []
  host : UrlHost := {}
  path : UrlPath := {}
deriving DecidableEq, Repr

/-- `UrlHostToString`: NOTHING is encoded here; `user[:password]@` only for a non-empty user, the
password only when non-empty, `:port` only when non-zero -/
def urlHostToString (h : UrlHost) : Bytes :=
  (if h.user.isEmpty then [] else h.user ++ ((if h.password.isEmpty then [] else 58 :: h.password) ++ [64])) ++
  (h.host ++ (if h.port = 0 then [] else 58 :: decimal h.port))

/-- `UrlToString` -/
def urlToString (u : Url) : Bytes :=
  (if u.scheme.isEmpty then [] else u.scheme ++ ascii "://") ++ (urlHostToString u.host ++ urlPathToString u.path)

/-- `int` → `uint16_t` (modular) -/
def toU16 (i : Int) : Nat := (i % 65536).toNat

/-- `StringToUrlHost` on a fresh object.  Everything happens inside one `try`: a failing
`UrlDecode` (bad hex digit) or `std::stoi` (no digits, out of `int` range) makes it return false.
A port that does not fit 16 bits is silently reduced modulo 65536, trailing junk after the digits
is ignored, a sign is accepted (all `std::stoi`). -/
def stringToUrlHost (s : Bytes) : Option UrlHost :=
  let up? : Option (Bytes × Bytes × Nat) :=          -- user, password, host_start_pose
    match findByte 64 s with                          -- at_pos = str.find_first_of('@')
    | none => some ([], [], 0)
    | some a =>
      match findByte 58 s with                        -- colon_pos = str.find_first_of(':')
      | none => (urlDecode (s.take a)).map fun u => (u, [], a + 1)
      | some c =>
        if c > a then (urlDecode (s.take a)).map fun u => (u, [], a + 1)
        else match urlDecode (s.take c), urlDecode ((s.drop (c + 1)).take (a - c - 1)) with
          | some u, some p => some (u, p, a + 1)
          | _, _ => none
  match up? with
  | none => none
  | some (user, pw, hs) =>
    let tail := s.drop hs
    match findByte 58 tail with                       -- str.find_first_of(':', host_start_pose)
    | none => (urlDecode tail).map fun h => ⟨user, pw, h, 0⟩
    | some c =>
      match urlDecode (tail.take c), stoi (tail.drop (c + 1)) with
      | some h, some p => some ⟨user, pw, h, toU16 p⟩
      | _, _ => none

/-- `str.find(pat)` -/
def findSub (pat : Bytes) : Bytes → Option Nat
  | [] => if pat.isEmpty then some 0 else none
  | c :: rest => if pat.isPrefixOf (c :: rest) then some 0 else (findSub pat rest).map (· + 1)

/-- `str.substr(pos…)` with its range check: `none` = `std::out_of_range` -/
def substrFrom? (s : Bytes) (pos : Nat) : Option Bytes := if pos ≤ s.length then some (s.drop pos) else none

/-- outcome of a function that has no `try` of its own -/
inductive UResult (α : Type)
  | ok (a : α)
  | fail          -- returned false
  | threw         -- an exception left the function
deriving DecidableEq, Repr

/-- `StringToUrl` on a fresh object.  The `substr` calls of this function are outside any `try`;
they are modelled with their range check (`substrFrom?`) — that the check never fires is
`C12_url_total`. -/
def stringToUrl (s : Bytes) : UResult Url :=
  let (scheme, pos) := match findSub (ascii "://") s with
    | some p => (s.take p, p + 3)
    | none => ([], 0)
  match substrFrom? s pos with                         -- str.substr(pos, …) / str.substr(pos)
  | none => .threw
  | some tail =>
    let (hostStr, pathStr) := match findByte 47 tail with      -- str.find_first_of('/', pos)
      | some i => (tail.take i, tail.drop i)
      | none => (tail, [47])
    match stringToUrlHost hostStr, parseUrlPath pathStr with
    | some h, some p => .ok ⟨scheme, h, p⟩
    | _, _ => .fail

/-! ### well-formedness: exactly what printing followed by parsing needs -/

/-- a `std::map` as an association list: keys strictly ascending (pairwise, `std::string::operator<`) -/
def keysAsc : List (Bytes × Bytes) → Bool
  | [] => true
  | kv :: t => t.all (fun x => bytesLt kv.1 x.1) && keysAsc t

/-- the fragment is printed as it is and decoded when read; ';' and '?' in it are taken for the
parameter / query delimiters when the URL has none of its own -/
def fragOk (f : Bytes) : Bool := f.all fun c => c != 37 && c != 59 && c != 63

/-- path starts with '/', parameter and query maps have non-empty keys (values and keys are
otherwise ARBITRARY byte strings), fragment without `% ; ?` -/
def UrlPath.wf (u : UrlPath) : Bool :=
  u.path.head? == some 47 &&
  keysAsc u.params && u.params.all (fun kv => !kv.1.isEmpty) &&
  keysAsc u.query && u.query.all (fun kv => !kv.1.isEmpty) &&
  fragOk u.frag

/-- user / password / host are printed unencoded: none of `% @ : /`; a password needs a user; the
port fits `uint16_t` -/
def hostTokOk (b : Bytes) : Bool := b.all fun c => c != 37 && c != 64 && c != 58 && c != 47

def UrlHost.wf (h : UrlHost) : Bool :=
  hostTokOk h.user && hostTokOk h.password && hostTokOk h.host &&
  (!h.user.isEmpty || h.password.isEmpty) && decide (h.port < 65536)

/-- an absolute URL: a non-empty scheme without ':' (the theorem for the scheme-less form needs, in
addition, that no "://" occurs anywhere, see Props) -/
def Url.wf (u : Url) : Bool :=
  !u.scheme.isEmpty && u.scheme.all (· != 58) && u.host.wf && u.path.wf

end Tbox.C12
