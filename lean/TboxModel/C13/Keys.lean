/-
C13 — vocabulary shared by the generated scanner table (`Gen.lean`) and the model.
`Res` mirrors `KeyEventScanner::Result`; `Tr` is one entry of the transition table
`(step, byte) ↦ next()`'s status + the step afterwards / the result.
-/
namespace Tbox.C13

inductive Res
  | noKey | printable | tab | backspace | esc | enter | altplus | ctrlaltplus
  | up | down | left | right
  | home | insert | delete | endKey | pageup | pagedown
  | f1 | f2 | f3 | f4 | f5 | f6 | f7 | f8 | f9 | f10 | f11 | f12
deriving DecidableEq, Repr

inductive Tr
  | fail (next : Nat)     -- Status::kFail, step_ afterwards
  | unsure (next : Nat)   -- Status::kUnsure, step_ afterwards
  | ensure (r : Res)      -- Status::kEnsure with result()
deriving DecidableEq, Repr

/-- the step a transition leads to (after `kEnsure` the terminal calls `start()`) -/
def Tr.target : Tr → Nat
  | .fail n => n
  | .unsure n => n
  | .ensure _ => 0

end Tbox.C13
