/-
C13 — executable model of the terminal shell (modules/terminal/impl/*.cpp,
util/split_cmdline.cpp, util/string.cpp `Split`), transcribed function by function.

* The key scanner is NOT hand-written: `scanNext`/`scanStop` read the table `Gen.rows`/`Gen.stops`
  that is dumped from the running implementation on every check run.
* `Cfg` selects, defect by defect, between the code as found (`Cfg.legacy`) and the repaired code
  (`Cfg.fixed`, patches/C13-0x-*.diff).  The places where the code as found dereferences a freed
  session, calls `back()` on an empty deque, lets `std::out_of_range` escape, negates `INT_MIN`
  or calls `map::at` with an absent key produce an `Ev.bad` event — an outcome the repaired model
  can only produce in branches that are proved unreachable (`C13_total`).
* The node tree is a parameter (`ns`) of everything a delivery runs; a command handler that changes it (`Act.rm/mnt/umnt`:
  `deleteNode`, `mountNode`, `umountNode` called from inside the command) records the new tree in `St.tree`, every later look-up
  of the same delivery goes through `St.eff`, and `landTree` makes it the World's tree when the delivery has been processed.
* Every container access of the C++ (`history[i]`, `history.at(i)`, `string::insert/erase/substr`
  at the cursor) is an explicit lookup whose failure is `Ev.bad`.
* `Ev.exec`, `Ev.stored`, `Ev.sched`, `Ev.tag` and the `TxKind` of a send are ghost information for
  the theorems and the branch statistics; the driver does not print them.
-/
import TboxModel.C13.Gen
import TboxModel.C13.Msgs
namespace Tbox.C13
open Msg

abbrev Str := List UInt8

/-- which of the delivered repairs are in the code being modelled -/
structure Cfg where
  exitByToken : Bool   -- 01: the deferred exit task looks the session up by token
  bangGuard   : Bool   -- 02: `!!` checks for an empty history
  catchRange  : Bool   -- 03: `std::out_of_range` of `stoi` is caught
  wideNeg     : Bool   -- 04: `-index` is computed in 64 bits
  subLen      : Bool   -- 05: window-size sub-negotiation needs 4 payload bytes
  findSend    : Bool   -- 06: `send/endSession` use `find`, not `map::at`
  cancelExit  : Bool   -- 07: `~Terminal` cancels the exit tasks that are still queued
  cursorReset : Bool   -- 08: `!n`/`!!` move the cursor to the end of the line they swap in
  rerunGuard  : Bool   -- 09: a history line that itself is a history command is refused
  cancelEnd   : Bool   -- 10: `~Telnetd::Impl` / `~TcpRpc::Impl` cancel the disconnect tasks that are still queued
  delDefer    : Bool   -- 11: `deleteSession()` of the session whose input is being processed waits until it has been processed
  treeRoot    : Bool   -- 12: `tree` names a deleted ROOT node `/` instead of calling `back()` on the empty path
  funcCopy    : Bool   -- 13: `FuncNode::execute` runs a copy of the callback, so a handler may delete its own node
deriving DecidableEq, Repr

def Cfg.fixed : Cfg := ⟨true, true, true, true, true, true, true, true, true, true, true, true, true⟩
def Cfg.legacy : Cfg := ⟨false, false, false, false, false, false, false, false, false, false, false, false, false⟩

/-! ## strings -/

/-- `util::string::Split(src, sep)` for a one-character separator: always at least one chip -/
def splitOn (sep : UInt8) : Str → List Str
  | [] => [[]]
  | c :: cs =>
    if c = sep then [] :: splitOn sep cs
    else match splitOn sep cs with
      | [] => [[c]]                 -- unreachable: the result is never empty
      | x :: xs => (c :: x) :: xs

def isBlank (c : UInt8) : Bool := c = 32 || c = 9
def isQuote (c : UInt8) : Bool := c = 39 || c = 34

/-- where `SplitCmdline`'s scan is: between arguments, inside an argument that started with a
quote, inside an unquoted argument, inside a quoted part of an unquoted argument -/
inductive SplitMode
  | blank
  | quoted (q : UInt8) (acc : Str)
  | tok (acc : Str)
  | tokQ (q : UInt8) (acc : Str)

/-- `util::SplitCmdline` as a left-to-right scan (`acc` reversed; `none` = `return false`) -/
def splitGo : SplitMode → Str → List Str → Option (List Str)
  | .blank, [], args => some args.reverse
  | .blank, c :: cs, args =>
      if isBlank c then splitGo .blank cs args
      else if isQuote c then splitGo (.quoted c []) cs args
      else splitGo (.tok [c]) cs args
  | .quoted _ _, [], _ => none
  | .quoted q acc, c :: cs, args =>
      if c = q then splitGo .blank cs (acc.reverse :: args)
      else splitGo (.quoted q (c :: acc)) cs args
  | .tok acc, [], args => some (acc.reverse :: args).reverse
  | .tok acc, c :: cs, args =>
      if isBlank c then splitGo .blank cs (acc.reverse :: args)
      else if isQuote c then splitGo (.tokQ c (c :: acc)) cs args
      else splitGo (.tok (c :: acc)) cs args
  | .tokQ _ _, [], _ => none
  | .tokQ q acc, c :: cs, args =>
      if c = q then splitGo (.tok (c :: acc)) cs args
      else splitGo (.tokQ q (c :: acc)) cs args

def splitCmdline (s : Str) : Option (List Str) := splitGo .blank s []

def decBytes (n : Nat) : Str := (Nat.toDigits 10 n).map (fun c => UInt8.ofNat c.toNat)

/-- `setw(2) << i` -/
def setw2 (n : Nat) : Str := if n < 10 then 32 :: decBytes n else decBytes n

def rep (n : Nat) (bs : Str) : Str := (List.replicate n bs).flatten

/-- lexicographic `<` on bytes (`std::map<std::string,…>` order) -/
def strLt : Str → Str → Bool
  | [], [] => false
  | [], _ :: _ => true
  | _ :: _, [] => false
  | a :: as, b :: bs => if a < b then true else if b < a then false else strLt as bs

/-! ### `std::stoi` -/

inductive StoiRes
  | invalid            -- std::invalid_argument
  | range              -- std::out_of_range
  | val (i : Int)
deriving DecidableEq, Repr

def isSpace (c : UInt8) : Bool := c = 32 || (9 ≤ c && c ≤ 13)
def isDigit (c : UInt8) : Bool := 48 ≤ c && c ≤ 57

def digitsVal : Str → Nat → Nat × Nat      -- (value, number of digits consumed)
  | [], acc => (acc, 0)
  | c :: cs, acc => if isDigit c then
      let r := digitsVal cs (acc * 10 + (c.toNat - 48)); (r.1, r.2 + 1) else (acc, 0)

def intMin : Int := -2147483648
def intMax : Int := 2147483647

/-- the integer `strtol(s, &end, 10)` reads, as a mathematical integer: leading white space,
optional sign, at least one digit, the rest ignored; `none` = no conversion -/
def parseInt (s : Str) : Option Int :=
  let s1 := s.dropWhile isSpace
  let (neg, s2) := match s1 with
    | 45 :: r => (true, r)
    | 43 :: r => (false, r)
    | r => (false, r)
  let (v, n) := digitsVal s2 0
  if n = 0 then none else some (if neg then - (Int.ofNat v) else Int.ofNat v)

/-- `std::stoi(s)`: no conversion is `invalid_argument`; a value outside `int` is `out_of_range`
(`strtol`'s own `ERANGE` is inside that case) -/
def stoi (s : Str) : StoiRes :=
  match parseInt s with
  | none => .invalid
  | some i => if i < intMin ∨ i > intMax then .range else .val i

/-! ## the key scanner (table generated from the implementation) -/

def scanNext (st : Nat) (b : UInt8) : Tr :=
  match (Gen.rows.getD st []).lookup b.toNat with
  | some t => t
  | none => .fail 0

def scanStop (st : Nat) : Option Res := Gen.stops.getD st none

/-- the scanning loop of `Terminal::Impl::onRecvString`: `st` = `step_`, `unsure` = "the last status
was kUnsure" (true before the first byte).  Yields the recognised results with the byte that
completed them; at the end of the segment `stop()` may recognise one more. -/
def scan (st : Nat) (unsure : Bool) : Str → List (Res × UInt8)
  | [] => if unsure then (match scanStop st with | some r => [(r, 0)] | none => []) else []
  | b :: bs =>
    match scanNext st b with
    | .ensure r => (r, b) :: scan 0 false bs
    | .unsure n => scan n true bs
    | .fail n => scan n false bs

inductive Key
  | char (c : UInt8) | enter | backspace | tab | up | down | left | right | home | endKey | delete
deriving DecidableEq, Repr

/-- the `switch` of `onRecvString` (results without a handler are dropped) -/
def toKey : Res × UInt8 → Option Key
  | (.printable, c) => some (.char c)
  | (.enter, _) => some .enter
  | (.backspace, _) => some .backspace
  | (.tab, _) => some .tab
  | (.up, _) => some .up
  | (.down, _) => some .down
  | (.left, _) => some .left
  | (.right, _) => some .right
  | (.home, _) => some .home
  | (.endKey, _) => some .endKey
  | (.delete, _) => some .delete
  | _ => none

/-- the keys one received segment is decoded into -/
def recvKeys (bs : Str) : List Key := (scan 0 true bs).filterMap toKey

/-! ## events -/

inductive Bad
  | useAfterFree | emptyBack | uncaughtRange | negOverflow | index | cursor | recursion | overread | mapAt
deriving DecidableEq, Repr

inductive TxKind | out | echo | prompt
deriving DecidableEq, Repr

/-- what the telnet / raw-TCP front end hands to the terminal -/
inductive TEv
  | str (bs : Str) | setopt (o : Nat) | win (w h : Nat)
  | reply (bs : Str)        -- bytes the front end itself answers with (WONT x, NOP)
deriving DecidableEq, Repr

inductive Ev
  | tx (k : TxKind) (bs : Str)            -- bytes sent to the client
  | probe (id : Nat) (args : List Str)    -- a command node was called with these arguments
  | endSess                               -- Connection::endSession
  | delS                                  -- a command handler had `Terminal::deleteSession` called on the session it runs in
  | sysc (k : Nat) (tok : String)         -- a system call on the server-side descriptor of client k (M line)
  | closed                                -- TcpServer::disconnect of the session's client
  | slot (k : Nat)                        -- what follows concerns session slot k (8 = the op itself)
  | split (r : Option (List Str))         -- result of a direct SplitCmdline call
  | bad (b : Bad)                         -- crash / uncaught exception / invalid access
  | tel (e : TEv)
  | line (s : String)                     -- return values etc.
  | entered                               -- ghost: an Enter key is being handled (typed, or fed by a command handler)
  | exec (l : Str)                        -- ghost: `execute()` entered with this curr_input
  | stored (l : Str)                      -- ghost: this line was pushed to the history
  | sched                                 -- ghost: an exit task was queued
  | tag (s : String)                      -- ghost: branch statistics
deriving DecidableEq, Repr

def Ev.isBad : Ev → Bool
  | .bad _ => true
  | _ => false

/-! ## nodes -/

/-- what a command handler does, synchronously, to the session it was called from (the harness's
scripted function nodes): send text, feed bytes into the same session through `onRecvString`
(re-entrant use: the outer Enter is still being executed), end the session -/
inductive Act
  | send (bs : Str) | feed (bs : Str) | endS
  | del       -- `Terminal::deleteSession` of the very session the handler runs in (a handler that holds the Terminal
              -- and the token; `Stdio::stop()` called from a command of the stdio shell)
  -- handlers that change the node tree while the command line that called them is still being executed:
  | rm (i : Nat)                        -- `Terminal::deleteNode(nodes[i])` (its own node, its directory, the root, …)
  | mnt (p c : Nat) (name : Str)        -- `Terminal::mountNode(nodes[p], nodes[c], name)`
  | umnt (p : Nat) (name : Str)         -- `Terminal::umountNode(nodes[p], name)`
deriving DecidableEq, Repr

inductive Node
  | dir (children : List (Str × Nat))     -- sorted by name
  | func (script : List Act)
deriving DecidableEq, Repr

abbrev Nodes := List (Option Node)
abbrev Path := List (Str × Nat)

/-- `nodes_.at(token)` (`none` = nullptr: never created or deleted) -/
def nodeAt (ns : Nodes) (t : Nat) : Option Node := (ns.getD t none)

def topOf (p : Path) : Nat := match p.getLast? with | none => 0 | some x => x.2

/-- the loop of `findNode(path_str, node_path)` -/
def walkPath (ns : Nodes) : Path → List Str → Option Path
  | p, [] => some p
  | p, n :: rest =>
    if n = dot ∨ n = [] then walkPath ns p rest
    else if n = dotdot then (if p = [] then none else walkPath ns p.dropLast rest)
    else match nodeAt ns (topOf p) with
      | some (.dir ch) =>
        (match ch.lookup n with
         | some t => walkPath ns (p ++ [(n, t)]) rest
         | none => none)
      | _ => none

def findNode (ns : Nodes) (pathStr : Str) (start : Path) : Option Path :=
  match splitOn 47 pathStr with
  | [] => none                      -- unreachable (Split yields at least one chip)
  | first :: rest => if first = [] then walkPath ns [] rest else walkPath ns start (first :: rest)

def insertSorted (name : Str) (t : Nat) : List (Str × Nat) → List (Str × Nat)
  | [] => [(name, t)]
  | (n, x) :: rest => if strLt name n then (name, t) :: (n, x) :: rest else (n, x) :: insertSorted name t rest

/-- `Terminal::Impl::deleteNode`: the cabinet cell is freed (a token that was never handed out or is already free: nothing) -/
def rmNode (ns : Nodes) (i : Nat) : Nodes :=
  match nodeAt ns i with
  | some _ => ns.set i none
  | none => ns

/-- `Terminal::Impl::mountNode`: parent a live directory, child live, name not empty, not starting with `!`, not taken -/
def mountNode (ns : Nodes) (p c : Nat) (name : Str) : Nodes :=
  match nodeAt ns p, nodeAt ns c with
  | some (.dir ch), some _ =>
    if name = [] ∨ name.head? = some 33 then ns
    else if (ch.lookup name).isSome then ns
    else ns.set p (some (.dir (insertSorted name c ch)))
  | _, _ => ns

/-- `Terminal::Impl::umountNode` -/
def umountNode (ns : Nodes) (p : Nat) (name : Str) : Nodes :=
  match nodeAt ns p with
  | some (.dir ch) => if (ch.lookup name).isSome then ns.set p (some (.dir (ch.filter (fun c => c.1 ≠ name)))) else ns
  | _ => ns

def helpOf (id : Nat) : Str := if id = 0 then rootHelp else helpPrefix ++ decBytes id

/-- children annotated with "is the last one" -/
def annotLast {α} : List α → List (α × Bool)
  | [] => []
  | [a] => [(a, true)]
  | a :: b :: rest => (a, false) :: annotLast (b :: rest)

/-- the depth-first printing loop of `executeTreeCmd`; `fuel` bounds the depth (the ancestors
`anc` are distinct live directory tokens, so `nodes.length + 1` always suffices); `none` = fuel
exhausted -/
def treeLevel (ns : Nodes) : Nat → List Nat → Str → List (Str × Nat) → Option Str
  | 0, _, _, _ => none
  | fuel + 1, anc, indent, children =>
    (annotLast children).foldr (fun (c : (Str × Nat) × Bool) (acc : Option Str) =>
      let name := c.1.1
      let tok := c.1.2
      let last := c.2
      let head := indent ++ (if last then branchLast else branchMid) ++ name
      let body : Option Str :=
        match nodeAt ns tok with
        | none => some (markX ++ crlf)
        | some (.func _) => some crlf
        | some (.dir ch) =>
          if tok = 0 ∨ anc.contains tok then some (markR ++ crlf)
          else if ch.isEmpty then some crlf
          else (treeLevel ns fuel (anc ++ [tok]) (indent ++ (if last then indentLast else indentMid)) ch).map (crlf ++ ·)
      match body, acc with
      | some b, some a => some (head ++ b ++ a)
      | _, _ => none) (some [])

/-! ## the session -/

structure St where
  line : Str := []
  cursor : Nat := 0
  hist : List Str := []
  hidx : Nat := 0
  opts : Nat := 0
  path : Path := []
  tree : Option Nodes := none   -- `some t`: a command handler of the delivery that is being processed has changed the Terminal's
                                -- node tree (`nodes_`, shared by all sessions) to `t`; every later look-up of the same delivery
                                -- sees `t`; when the delivery has been processed `t` becomes the World's tree (`landTree`)
deriving DecidableEq, Repr

/-- the node tree a command of session `s` sees, `ns` being the tree when the delivery began -/
def St.eff (s : St) (ns : Nodes) : Nodes := s.tree.getD ns

def St.echo (s : St) : Bool := s.opts % 2 = 1
def St.quiet (s : St) : Bool := (s.opts / 2) % 2 = 1

def histMax : Nat := 20

/-! ### editing keys (terminal_key_events.cpp) -/

def onChar (s : St) (c : UInt8) : St × List Ev :=
  if s.cursor > s.line.length then (s, [.bad .cursor])      -- string::insert would throw
  else
    let line' := s.line.take s.cursor ++ c :: s.line.drop s.cursor
    let cur' := s.cursor + 1
    let s' := { s with line := line', cursor := cur' }
    let t := if s.cursor = s.line.length then "char-end" else "char-mid"
    if s.echo then (s', [.tag t, .tx .echo (c :: (line'.drop cur' ++ List.replicate (line'.length - cur') 8))])
    else (s', [.tag t])

def onBackspace (s : St) : St × List Ev :=
  if s.cursor = 0 then (s, [.tag "bs-at0"])
  else if s.cursor > s.line.length then (s, [.bad .cursor])
  else
    let line' := s.line.take (s.cursor - 1) ++ s.line.drop s.cursor
    let cur' := s.cursor - 1
    let s' := { s with line := line', cursor := cur' }
    let t := if s.cursor = s.line.length then "bs-end" else "bs-mid"
    if s.echo then
      (s', [.tag t, .tx .echo (8 :: (line'.drop cur' ++ 32 :: List.replicate (line'.length - cur' + 1) 8))])
    else (s', [.tag t])

def onDelete (s : St) : St × List Ev :=
  if s.cursor ≥ s.line.length then (s, [.tag "del-at-end"])
  else
    let line' := s.line.take s.cursor ++ s.line.drop (s.cursor + 1)
    let s' := { s with line := line' }
    if s.echo then
      (s', [.tag "del", .tx .echo (line'.drop s.cursor ++ 32 :: List.replicate (line'.length - s.cursor + 1) 8)])
    else (s', [.tag "del"])

/-- `CleanupInput`: walk to the end, then rub out every column (sent whatever the echo option) -/
def cleanupTx (s : St) : Str :=
  rep (s.line.length - s.cursor) moveRight ++ rep (max s.cursor s.line.length) bsb

def onUp (s : St) : St × List Ev :=
  if s.hidx = s.hist.length then (s, [.tag "up-at-top"])
  else
    let hidx' := s.hidx + 1
    if hidx' > s.hist.length then (s, [.bad .index])
    else match s.hist[s.hist.length - hidx']? with
      | none => (s, [.bad .index])
      | some l => ({ s with hidx := hidx', line := l, cursor := l.length }, [.tag "up", .tx .echo (cleanupTx s ++ l)])

def onDown (s : St) : St × List Ev :=
  if s.hidx = 0 then (s, [.tag "down-at-bottom"])
  else
    let hidx' := s.hidx - 1
    if hidx' > 0 then
      if hidx' > s.hist.length then (s, [.bad .index])
      else match s.hist[s.hist.length - hidx']? with
        | none => (s, [.bad .index])
        | some l => ({ s with hidx := hidx', line := l, cursor := l.length }, [.tag "down", .tx .echo (cleanupTx s ++ l)])
    else ({ s with hidx := 0, line := [], cursor := 0 }, [.tag "down-to-empty", .tx .echo (cleanupTx s)])

def onLeft (s : St) : St × List Ev :=
  if s.cursor = 0 then (s, []) else ({ s with cursor := s.cursor - 1 }, [.tx .echo moveLeft])

def onRight (s : St) : St × List Ev :=
  if s.cursor ≥ s.line.length then (s, []) else ({ s with cursor := s.cursor + 1 }, [.tx .echo moveRight])

def onHome (s : St) : St × List Ev :=
  ({ s with cursor := 0 }, [.tx .echo (rep s.cursor moveLeft)])

def onEnd (s : St) : St × List Ev :=
  if s.cursor < s.line.length then ({ s with cursor := s.line.length }, [.tx .echo (rep (s.line.length - s.cursor) moveRight)])
  else (s, [])

/-! ### commands (terminal_commands.cpp) -/

abbrev ExecRes := St × List Ev × Bool

def argOr (args : List Str) (dflt : Str) : Str :=
  match args with
  | _ :: a :: _ => a
  | _ => dflt

def lsCmd (ns : Nodes) (s : St) (args : List Str) : Str :=
  let p := argOr args dot
  match findNode ns p s.path with
  | none => errAccess ++ p ++ qDot
  | some np =>
    match nodeAt ns (topOf np) with
    | none => errQ ++ p ++ qDeleted
    | some (.func _) => p ++ isFunction
    | some (.dir ch) =>
      (ch.map (fun (c : Str × Nat) => dash ++ c.1 ++ (match nodeAt ns c.2 with
          | none => markX
          | some (.dir _) => slash
          | some (.func _) => []) ++ crlf)).flatten ++ crlf

/-- `executeCdCmd`: the new current path and the text sent -/
def cdCmd (ns : Nodes) (s : St) (args : List Str) : Path × Str :=
  let p := argOr args slash
  match findNode ns p s.path with
  | none => (s.path, errAccess ++ p ++ qDot)
  | some np =>
    match nodeAt ns (topOf np) with
    | none => (s.path, errQ ++ p ++ qDeleted)
    | some (.func _) => (s.path, errQ ++ p ++ qNotDir)
    | some (.dir _) => (np, [])

def helpCmd (ns : Nodes) (s : St) (args : List Str) : Str :=
  match args with
  | _ :: p :: _ =>
    (match findNode ns p s.path with
     | none => errAccess ++ p ++ qDot
     | some np =>
       match nodeAt ns (topOf np) with
       | none => errQ ++ p ++ qDeleted
       | some _ => helpOf (topOf np) ++ crlf)
  | _ => if s.echo then helpText ++ helpExtra else helpText

def pwdCmd (s : St) : Str :=
  slash ++ (slash.intercalate (s.path.map (·.1))) ++ crlf

def lastName (p : Path) : Str := match p.getLast? with | none => [] | some x => x.1

/-- `tree` of the root directory after `deleteNode(rootNode())`: the code as found calls `node_path.back()` on the empty path -/
def treeRootGone (ns : Nodes) (s : St) (args : List Str) : Bool :=
  match findNode ns (argOr args dot) s.path with
  | some np => np = [] && (nodeAt ns 0).isNone
  | none => false

/-- `executeTreeCmd`; the second component is false when the depth fuel ran out -/
def treeCmd (ns : Nodes) (s : St) (args : List Str) : Str × Bool :=
  let p := argOr args dot
  match findNode ns p s.path with
  | none => (errAccess ++ p ++ qDot, true)
  | some np =>
    match nodeAt ns (topOf np) with
    | none => ((if np = [] then slash else lastName np) ++ nodeDeleted, true)    -- (patch 12: the deleted root is `/`)
    | some (.func _) => (lastName np ++ isAFunction, true)
    | some (.dir ch) =>
      match treeLevel ns (ns.length + 1) [] [] ch with
      | some out => (out, true)
      | none => ([], false)

def historyCmd (s : St) : Str :=
  ((List.range s.hist.length).zip s.hist).map (fun (c : Nat × Str) => setw2 c.1 ++ twoSp ++ c.2 ++ crlf) |>.flatten

/-- how a handler feeds bytes into its own session: `onRecvString` one nesting level further in
(`none`: the nesting budget of the harness is used up, handlers only record their arguments) -/
abbrev Feed := Option (St → Str → St × List Ev)

/-- a handler's script, run on the session as it is at that moment — in the middle of `execute()` -/
def runScript (ns : Nodes) (feed : Feed) : St → List Act → St × List Ev
  | s, [] => (s, [])
  | s, .send bs :: r =>
    let y := runScript ns feed s r
    (y.1, .tx .out bs :: y.2)
  | s, .feed bs :: r =>
    (match feed with
     | some f =>
       let x := f s bs
       let y := runScript ns feed x.1 r
       (y.1, .tag "nested-feed" :: (x.2 ++ y.2))
     | none => runScript ns feed s r)
  | s, .endS :: r =>
    let y := runScript ns feed s r
    (y.1, .endSess :: y.2)
  | s, .del :: r =>
    -- (patch 11) the session stays as it is until its input has been processed: the rest of the script, the rest of
    -- the command line and of the segment run on a live session; `finishSlot` carries the deletion out
    let y := runScript ns feed s r
    (y.1, .delS :: y.2)
  -- the tree changes at once (`nodes_` of the Terminal); the rest of the script, of the command line and of the segment see it
  | s, .rm i :: r =>
    let y := runScript ns feed { s with tree := some (rmNode (s.eff ns) i) } r
    (y.1, .tag "h-rm" :: y.2)
  | s, .mnt p c name :: r =>
    let y := runScript ns feed { s with tree := some (mountNode (s.eff ns) p c name) } r
    (y.1, .tag "h-mount" :: y.2)
  | s, .umnt p name :: r =>
    let y := runScript ns feed { s with tree := some (umountNode (s.eff ns) p name) } r
    (y.1, .tag "h-umount" :: y.2)

/-- the harness's handler: the script runs only while the nesting budget lasts -/
def runHandler (ns : Nodes) (feed : Feed) (s : St) (script : List Act) : St × List Ev :=
  if feed.isSome then runScript ns feed s script else (s, [])

/-- `executeUserCmd`: the session afterwards and the events -/
def userCmd (cfg : Cfg) (ns : Nodes) (feed : Feed) (s : St) (args : List Str) (cmd : Str) : St × List Ev :=
  match findNode ns cmd s.path with
  | none => (s, [.tx .out (errQ ++ cmd ++ qNotFound)])
  | some np =>
    match nodeAt ns (topOf np) with
    | none => (s, [.tx .out (errQ ++ cmd ++ qDeleted)])
    | some (.func script) =>
      let r := runHandler ns feed s script
      -- (patch 13) the callback that is running is a copy: the handler may have deleted the node it belongs to; in the code
      -- as found the `std::function` inside the deleted FuncNode is destroyed while it runs (its captures are freed)
      let gone : List Ev := if !cfg.funcCopy && (nodeAt (r.1.eff ns) (topOf np)).isNone then [.bad .useAfterFree] else []
      (r.1, .probe (topOf np) args :: (r.2 ++ (gone ++ [.tx .out (60 :: decBytes (topOf np) ++ 62 :: crlf)])))
    | some (.dir _) => ({ s with path := np }, [])

/-- what a history reference resolves to -/
inductive Sel
  | run (l : Str) (echo : Bool) (tag : String)    -- re-run this line (echoing it first for `!n`)
  | err (evs : List Ev)                           -- nothing is run
deriving DecidableEq, Repr

/-- the index logic of `executeRunHistoryCmd` (`arg0` = `args[0]`, starting with `!`) -/
def selectEntry (cfg : Cfg) (hist : List Str) (arg0 : Str) : Sel :=
  let sub := arg0.drop 1
  if sub = [33] then
    match hist.getLast? with
    | none =>
      if cfg.bangGuard then .err [.tag "bangbang-empty", .tx .out idxRange]
      else .err [.bad .emptyBack]
    | some l => .run l false "bangbang"
  else
    match stoi sub with
    | .invalid => .err [.tag "bang-invalid", .tx .out parseIdxFail]
    | .range =>
      if cfg.catchRange then .err [.tag "bang-range", .tx .out idxRange]
      else .err [.bad .uncaughtRange]
    | .val i =>
      if i ≥ 0 then
        if i.toNat < hist.length then
          (match hist[i.toNat]? with
           | some l => .run l true "bang-n"
           | none => .err [.bad .index])            -- `history.at()` would throw
        else .err [.tag "bang-oob", .tx .out idxRange]
      else if !cfg.wideNeg && i = intMin then .err [.bad .negOverflow]     -- `-index` overflows
      else if hist.length ≥ (-i).toNat then
        (match hist[hist.length - (-i).toNat]? with
         | some l => .run l true "bang-neg"
         | none => .err [.bad .index])
      else .err [.tag "bang-oob", .tx .out idxRange]

/-- `executeRunHistoryCmd`; `inner` is the recursive `execute(s, true)`; `rerun`: the line being
executed was itself put in by a history command -/
def runHistory (cfg : Cfg) (inner : St → ExecRes) (rerun : Bool) (s : St) (arg0 : Str) : ExecRes :=
  if cfg.rerunGuard && rerun then (s, [.tag "bang-recursive", .tx .out recursiveHist], false)
  else
    match selectEntry cfg s.hist arg0 with
    | .err evs => (s, evs, false)
    | .run l echo tag =>
      let r := inner { s with line := l, cursor := if cfg.cursorReset then l.length else s.cursor }
      (r.1, .tag tag :: ((if echo then [.tx .out (l ++ crlf)] else []) ++ r.2.1), r.2.2)

def executeCmd (cfg : Cfg) (ns0 : Nodes) (feed : Feed) (inner : St → ExecRes) (rerun : Bool) (s : St) (cmdline : Str) : ExecRes :=
  let ns := s.eff ns0       -- the tree as the handlers run so far in this delivery have left it
  if cmdline = [] then (s, [.tag "seg-empty"], false)
  else
    match splitCmdline cmdline with
    | none => (s, [.tag "parse-fail", .tx .out parseCmdFail], true)
    | some [] => (s, [.tag "parse-fail", .tx .out parseCmdFail], true)
    | some (cmd :: rest) =>
      let args := cmd :: rest
      if cmd = cmdLs then (s, [.tag "cmd-ls", .tx .out (lsCmd ns s args)], true)
      else if cmd = cmdPwd then (s, [.tag "cmd-pwd", .tx .out (pwdCmd s)], true)
      else if cmd = cmdCd then
        let r := cdCmd ns s args
        ({ s with path := r.1 }, [.tag "cmd-cd", .tx .out r.2], true)
      else if cmd = cmdHelp then (s, [.tag "cmd-help", .tx .out (helpCmd ns s args)], true)
      else if cmd = cmdHistory then (s, [.tag "cmd-history", .tx .out (historyCmd s)], false)
      else if cmd = cmdExit ∨ cmd = cmdQuit then
        (s, [.tag "cmd-exit"] ++ (if s.quiet then [] else [.tx .out bye]) ++ [.sched], true)
      else if cmd = cmdTree then
        let r := treeCmd ns s args
        if !cfg.treeRoot && treeRootGone ns s args then (s, [.bad .emptyBack], true)
        else if r.2 then (s, [.tag "cmd-tree", .tx .out r.1], true) else (s, [.bad .recursion], true)
      else if cmd.head? = some 33 then runHistory cfg inner rerun s cmd
      else
        let r := userCmd cfg ns feed s args cmd
        (r.1, .tag "cmd-user" :: r.2, true)

/-- the loop of `execute()` over the `;`-separated command lines (stops at the first `false`) -/
def runSegs (f : St → Str → ExecRes) : St → List Str → ExecRes
  | s, [] => (s, [], true)
  | s, c :: cs =>
    let r := f s c
    if r.2.2 then
      let r2 := runSegs f r.1 cs
      (r2.1, r.2.1 ++ r2.2.1, r2.2.2)
    else (r.1, r.2.1, false)

/-- `execute(s, rerun)`; `fuel` bounds the nesting of `execute → !n → execute`: with the guard of
patch 09 it never exceeds 2; without it a history line `!!` re-runs itself until the stack overflows
(the fuel then runs out: `Bad.recursion`; a history holds at most 20 lines, so a chain that ends is
shorter than the fuel) -/
def execute (cfg : Cfg) (ns : Nodes) (feed : Feed) : Nat → Bool → St → ExecRes
  | 0, _, s => (s, [.bad .recursion], false)
  | fuel + 1, rerun, s =>
    let r := runSegs (executeCmd cfg ns feed (execute cfg ns feed fuel true) rerun) s (splitOn 59 s.line)
    (r.1, .exec s.line :: r.2.1, r.2.2)

def execFuel : Nat := 32

/-- `onEnterKey`: an Enter fed by a command handler while an outer Enter is being executed is an
ordinary Enter, processed to completion on the session as it is at that moment -/
def onEnter (cfg : Cfg) (ns : Nodes) (feed : Feed) (s : St) : St × List Ev :=
  let pre : List Ev := if s.echo then [.entered, .tx .echo crlf] else [.entered]
  let r := execute cfg ns feed execFuel false s
  let s1 := r.1
  let (hist', st) : List Str × List Ev :=
    if r.2.2 then
      let h := s1.hist ++ [s1.line]
      (if h.length > histMax then (h.drop 1, [.stored s1.line, .tag "store-full"]) else (h, [.stored s1.line, .tag "store"]))
    else (s1.hist, [.tag "nostore"])
  let pr : List Ev := if s1.quiet then [] else [.tx .prompt prompt]
  ({ s1 with hist := hist', line := [], cursor := 0, hidx := 0 }, pre ++ r.2.1 ++ st ++ pr)

def onKey (cfg : Cfg) (ns : Nodes) (feed : Feed) (s : St) : Key → St × List Ev
  | .char c => onChar s c
  | .enter => onEnter cfg ns feed s
  | .backspace => onBackspace s
  | .tab => (s, [])
  | .up => onUp s
  | .down => onDown s
  | .left => onLeft s
  | .right => onRight s
  | .home => onHome s
  | .endKey => onEnd s
  | .delete => onDelete s

def runKeys (cfg : Cfg) (ns : Nodes) (feed : Feed) : St → List Key → St × List Ev
  | s, [] => (s, [])
  | s, k :: ks =>
    let r := onKey cfg ns feed s k
    let r2 := runKeys cfg ns feed r.1 ks
    (r2.1, r.2 ++ r2.2)

/-- `Terminal::Impl::onRecvString` on a live session, with `d` levels of handler nesting left -/
def recvStringD (cfg : Cfg) (ns : Nodes) : Nat → St → Str → St × List Ev
  | 0, s, bs => runKeys cfg ns none s (recvKeys bs)
  | d + 1, s, bs => runKeys cfg ns (some (recvStringD cfg ns d)) s (recvKeys bs)

/-- the feed a handler gets when `d` levels are left -/
def feedAt (cfg : Cfg) (ns : Nodes) : Nat → Feed
  | 0 => none
  | d + 1 => some (recvStringD cfg ns d)

/-! ## telnet / raw TCP front ends (service/telnetd.cpp, service/tcp_rpc.cpp) -/

def iac : UInt8 := 255
def isIac (x : UInt8) : Bool := x == iac
def notIac (x : UInt8) : Bool := !(isIac x)

/-- `onRecvSub` for the window-size option: `p[0..3]` are read at offsets 3..6 of the buffer -/
def subWindow (cfg : Cfg) (buf : Str) (len : Nat) : List Ev :=
  if cfg.subLen && len < 4 then []
  else match buf[3]?, buf[4]?, buf[5]?, buf[6]? with
    | some a, some b, some c, some d => [.tel (.win (a.toNat * 256 + b.toNat) (c.toNat * 256 + d.toNat))]
    | _, _, _, _ => [.bad .overread]

/-- one round of the `while` loop of `Telnetd::Impl::onTcpReceived` on the accumulated buffer:
`none` = stop (buffer empty, or an incomplete command: wait for more bytes, consume nothing);
`some (events, option word, n)` = handle one item and consume `n` bytes -/
def telStep (cfg : Cfg) (opts : Nat) (buf : Str) : Option (List Ev × Nat × Nat) :=
  if buf = [] then none
  else
    let d := buf.takeWhile notIac
    if d ≠ [] then some ([.tel (.str d)], opts, d.length)          -- data up to the next IAC
    else if buf.length < 2 then none
    else
      let cmd := buf.getD 1 0
      if 251 ≤ cmd ∧ cmd ≤ 254 then                                 -- WILL / WONT / DO / DONT
        if buf.length < 3 then none
        else
          -- DO ECHO switches the echo option on; DONT x is answered WONT x
          if cmd = 253 ∧ buf.getD 2 0 = 1 then some ([.tel (.setopt (opts ||| 1))], opts ||| 1, 3)
          else if cmd = 254 then some ([.tel (.reply [255, 252, buf.getD 2 0])], opts, 3)
          else some ([], opts, 3)
      else if cmd = 250 then                                        -- SB ... IAC x
        if buf.length < 6 then none
        else
          match (buf.drop 4).findIdx? isIac with
          | none => none
          | some k =>
            let p := k + 4                       -- position of the closing IAC
            if p + 1 = buf.length then none
            else some ((if buf.getD 2 0 = 31 then subWindow cfg buf (p - 3) else []), opts, p + 2)
      else if cmd = 241 then some ([.tel (.reply [255, 241])], opts, 2)   -- NOP is answered NOP
      else some ([], opts, 2)                                       -- any other command: two bytes

/-- the loop; returns the events, the option word and the unconsumed rest. `fuel` ≥ buffer
length + 1 (each round consumes at least one byte: `telStep_consumes`). -/
def telParse (cfg : Cfg) : Nat → Nat → Str → List Ev × Nat × Str
  | 0, opts, buf => ([], opts, buf)
  | fuel + 1, opts, buf =>
    match telStep cfg opts buf with
    | none => ([], opts, buf)
    | some (evs, opts', n) =>
      let r := telParse cfg fuel opts' (buf.drop n)
      (evs ++ r.1, r.2)

/-- one received segment: append to the pending bytes, parse -/
def telFeed (cfg : Cfg) (opts : Nat) (pending seg : Str) : List Ev × Nat × Str :=
  let buf := pending ++ seg
  telParse cfg (buf.length + 1) opts buf

structure FrontSt where
  state : Nat := 0          -- 0 never connected, 1 connected, 2 ended / disconnected
  pending : Str := []
  opts : Nat := 0
deriving DecidableEq, Repr

inductive FrontOp
  | conn | recv (bs : Str) | disc | endS | send
deriving DecidableEq, Repr

/-- world B: `none` = the harness refuses the op (`bad-op`) -/
def frontStep (cfg : Cfg) (isTel : Bool) (f : FrontSt) : FrontOp → Option (FrontSt × List Ev)
  | .conn =>
    if f.state = 0 then
      if isTel then some ({ f with state := 1 }, [.line "new", .line "begin"])
      else some ({ f with state := 1, opts := 2 }, [.line "new", .tel (.setopt 2), .line "begin"])
    else none
  | .recv bs =>
    if f.state = 1 then
      if isTel then
        let r := telFeed cfg f.opts f.pending bs
        some ({ f with pending := r.2.2, opts := r.2.1 }, r.1 ++ [.line ("rest=" ++ toString r.2.2.length)])
      else
        let buf := f.pending ++ bs
        some ({ f with pending := [] }, (if buf = [] then [] else [.tel (.str buf)]) ++ [.line "rest=0"])
    else none
  | .disc => if f.state = 1 then some ({ f with state := 2 }, [.line "del"]) else none
  | .endS =>
    if f.state = 1 then some ({ f with state := 2 }, [.line "ret=1"])
    else if f.state = 2 then
      (if cfg.findSend then some (f, [.line "ret=0"]) else some (f, [.bad .mapAt]))
    else none
  | .send =>
    if f.state = 1 then some (f, [.line "ret=11 valid=1"])
    else if f.state = 2 then
      (if cfg.findSend then some (f, [.line "ret=00 valid=0"]) else some (f, [.bad .mapAt]))
    else none

/-! ## the world the op files act on

One `Terminal` (one node tree) with eight session slots: 0-3 sessions on a recording connection,
4 and 5 two clients of one `Telnetd`, 6 a client of `TcpRpc`, 7 the `Stdio` service.  A slot's `gen`
counts the sessions it has had: a queued exit task names (slot, gen) — the session *token* — so a
task left over from an earlier session of the slot cannot touch a later one. -/

structure Slot where
  fstate : Nat := 0         -- 0 never attached, 1 attached, 2 detached (ended / token reset), 3 stopped
  gen : Nat := 0
  sess : Option St := none  -- the live SessionContext, if any
  pending : Str := []       -- telnet: received but not yet consumed bytes
  ending : Bool := false    -- telnet / raw TCP: a handler called endSession(): the disconnect task is queued
  kq : Str := []            -- telnet / raw TCP: bytes the client wrote that the service has not read yet (the kernel's queue)
  zfd : Nat := 0            -- telnet / raw TCP: descriptors of finished connections whose deferred `close` has not run yet
deriving DecidableEq, Repr

inductive Kind | direct | tel | rpc | stdio
deriving DecidableEq, Repr

def nSlots : Nat := 8
def kindOf (k : Nat) : Kind := if k < 4 then .direct else if k < 6 then .tel else if k = 6 then .rpc else .stdio

structure World where
  nodes : Nodes := [some (.dir [])]
  slots : List Slot := List.replicate nSlots {}
  cur : Nat := 0                      -- the selected direct slot
  exits : List (Nat × Nat) := []      -- exit tasks waiting in the loop's run-next queue: (slot, gen)
  depth : Nat := 2                    -- harness setting: how deep handlers may nest feeds into their session
  frontEnd : Bool := false            -- a Telnetd/TcpRpc endSession task queued by a handler waits for the next pass
  tel : FrontSt := {}                 -- world B
  rpc : FrontSt := {}
  mute : List Nat := []               -- telnet / raw-TCP slots whose socket answers every write with EPIPE: what is sent is dropped
  gone : List Nat := []               -- telnet / raw-TCP slots whose client closed its end; the service learns it in the next loop pass
deriving DecidableEq, Repr

def World.slot (w : World) (k : Nat) : Slot := w.slots.getD k {}
def World.setSlot (w : World) (k : Nat) (x : Slot) : World := { w with slots := w.slots.set k x }

inductive Op
  | sel (k : Nat) | depth (n : Nat) | openS (o : Nat) | recv (bs : Str) | pass | teardown | passdown | opt (n : Nat) | winsz (w h : Nat) | close
  | xconn (k : Nat) | xrecv (k : Nat) (bs : Str) | xdisc (k : Nat)
  | sstart | srecv (bs : Str) | sstop
  | mkdir | mkfunc (script : List Act) | mount (p c : Nat) (name : Str) | umount (p : Nat) (name : Str) | rmnode (i : Nat)
  | split (bs : Str)
  | front (isTel : Bool) (f : FrontOp)
  | wfault (k m : Nat)        -- the kernel's answers to write() on the client's socket: 0 all, 1 short counts, 2 EAGAIN every other call, 3 EPIPE
  | xclose (k : Nat)          -- the client closes its end without a word
  | xsock (k : Nat) (bs : Str) (chunks : List Nat) (term : Nat)
      -- the client writes `bs`; then ONE read event on the service's socket, the kernel answering the `readv` calls of
      -- `BufferedFd::onReadCallback` as scripted: `chunks` (sizes of the successful calls), then `term`: 0 ask the real
      -- kernel, 1 EAGAIN, 2 end of file, 3 ECONNRESET, 4 EINTR, 5 EIO
  | xconnf (k : Nat) (e : Nat)   -- a client connects but `accept` fails: 1 EAGAIN, 2 EMFILE, 3 ECONNABORTED, 4 EINTR (the connection is gone)
  | ssplit (sep bs : Str)     -- util::string::Split called directly
  | hexstr (bs : Str) (n : Nat) (upper : Bool) (delim : Str)    -- util::string::RawDataToHexStr(p, n, upper, delim) called directly
deriving DecidableEq, Repr

def maxNodes : Nat := 16

/-- is the session an exit task was queued for still there? -/
def Slot.has (x : Slot) (g : Nat) : Bool := x.gen = g && x.sess.isSome

/-- an exit task finds its session: `endSession` on the session's connection, then `deleteSession` -/
def exitSlot (k : Nat) (x : Slot) : Slot × List Ev :=
  match kindOf k with
  | .direct => ({ x with sess := none }, [.slot k, .endSess])
  | .tel => ({ x with sess := none, fstate := 2, pending := [], ending := false, kq := [] }, [.slot k, .closed, .sysc k "close"])
  | .rpc => ({ x with sess := none, fstate := 2, pending := [], ending := false, kq := [] }, [.slot k, .closed, .sysc k "close"])
  | .stdio => ({ x with sess := none, fstate := 2 }, [])

/-- the queued exit tasks run, in order (one drained loop pass) -/
def runExits (cfg : Cfg) : List (Nat × Nat) → List Slot → List Slot × List Ev
  | [], sl => (sl, [])
  | (k, g) :: rest, sl =>
    let x := sl.getD k {}
    if x.has g then
      let r := runExits cfg rest (sl.set k (exitSlot k x).1)
      (r.1, (exitSlot k x).2 ++ r.2)
    else if cfg.exitByToken then runExits cfg rest sl
    else (sl, [.bad .useAfterFree])      -- `s->wp_conn` of a freed, pooled SessionContext

def countSched (evs : List Ev) : Nat := (evs.filter (· = .sched)).length

def opLine (s : String) : List Ev := [.slot nSlots, .line s]
def retLine (b : Bool) : List Ev := opLine (if b then "ret=1" else "ret=0")

/-- what `onBegin` sends -/
def beginEvs (s : St) : List Ev :=
  if s.quiet then [] else [.tx .out (welcome ++ typeHelp), .tx .prompt prompt]

/-- the five negotiations `Telnetd` opens with -/
def telnetHello : Str := [255, 254, 1, 255, 253, 31, 255, 253, 32, 255, 251, 1, 255, 251, 3]

/-- what the telnet framing loop produced is handed to the terminal session, in order -/
def applyTel (cfg : Cfg) (ns : Nodes) (d : Nat) : Option St → List Ev → Option St × List Ev
  | s, [] => (s, [])
  | s, .tel (.str bs) :: r =>
    (match s with
     | some st =>
       let x := recvStringD cfg ns d st bs
       let y := applyTel cfg ns d (some x.1) r
       (y.1, x.2 ++ y.2)
     | none => applyTel cfg ns d none r)
  | s, .tel (.setopt o) :: r => applyTel cfg ns d (s.map fun st => { st with opts := o }) r
  | s, .tel (.win _ _) :: r => applyTel cfg ns d s r
  | s, .tel (.reply bs) :: r =>
    let y := applyTel cfg ns d s r
    (y.1, .tx .out bs :: y.2)
  | s, e :: r =>
    let y := applyTel cfg ns d s r
    (y.1, e :: y.2)

/-- the disconnect tasks queued by handlers' `endSession()` run (after the exit tasks of the pass) -/
def closeEnding : List Nat → List Slot → List Slot × List Ev
  | [], sl => (sl, [])
  | k :: ks, sl =>
    let x := sl.getD k {}
    if x.ending then
      if x.fstate = 1 then
        let r := closeEnding ks (sl.set k { x with ending := false, fstate := 2, sess := none, pending := [], kq := [] })
        (r.1, .slot k :: .closed :: .sysc k "close" :: r.2)
      else closeEnding ks (sl.set k { x with ending := false })
    else closeEnding ks sl

/-- the deferred deletions of finished connections run: their descriptors are closed -/
def closeZombies : List Nat → List Slot → List Slot × List Ev
  | [], sl => (sl, [])
  | k :: ks, sl =>
    let x := sl.getD k {}
    let r := closeZombies ks (if x.zfd = 0 then sl else sl.set k { x with zfd := 0 })
    (r.1, List.replicate x.zfd (.sysc k "close") ++ r.2)

/-- a drained loop pass: all queued tasks run -/
def doPass (cfg : Cfg) (w : World) : World × List Ev :=
  let z := closeZombies [4, 5, 6] w.slots
  let r := runExits cfg w.exits z.1
  let c := closeEnding [4, 5, 6] r.1
  ({ w with slots := c.1, exits := [], frontEnd := false }, z.2 ++ r.2 ++ c.2)

def isEndSess (e : Ev) : Bool := e = .endSess

/-- the session of slot `k` has processed a delivery: store its state, queue the exit tasks it
scheduled, and carry out what a handler's `endSession()` means for this kind of connection -/
def isDelS (e : Ev) : Bool := e = .delS

def isSysc : Ev → Bool
  | .sysc _ _ => true
  | _ => false

def isTx : Ev → Bool
  | .tx _ _ => true
  | _ => false

/-- what a handler's `deleteSession()` of its own session comes to once the delivery has been processed: with patch 11
the session is deleted now (it was kept until here); in the code as found it was freed on the spot and the rest of the
delivery ran on the freed, pooled `SessionContext` -/
def delOutcome (cfg : Cfg) (deleted : Bool) : List Ev :=
  if deleted && !cfg.delDefer then [.bad .useAfterFree] else []

/-- the stdio shell: `Stdio::stop()` disables the stream, what is sent afterwards is queued and never written -/
def dropTxAfterDel : List Ev → List Ev
  | [] => []
  | .delS :: r => .delS :: r.filter (fun e => !isTx e)
  | e :: r => e :: dropTxAfterDel r

def finishSlot (cfg : Cfg) (w : World) (k : Nat) (x : Slot) (s' : Option St) (evs : List Ev) : World × List Ev :=
  let ended := evs.any isEndSess
  let deleted := evs.any isDelS
  let s'' := if deleted then none else s'
  let exits' := w.exits ++ List.replicate (countSched evs) (k, x.gen)
  let out := evs.filter (fun e => !isDelS e) ++ delOutcome cfg deleted
  match kindOf k with
  | .direct =>      -- the recording connection just notes the call
    ({ w.setSlot k { x with sess := s'' } with exits := exits' }, .slot k :: out)
  | .stdio =>       -- Stdio::endSession resets its token at once; the next input starts a new session;
                    -- a handler's delete is `Stdio::stop()`: the service is stopped
    ({ w.setSlot k (if deleted then { x with sess := none, fstate := 3 }
                    else if ended then { x with sess := none, fstate := 2 } else { x with sess := s'' }) with exits := exits' },
     .slot k :: ((dropTxAfterDel evs).filter (fun e => !isDelS e) ++ delOutcome cfg deleted).filter (fun e => !isEndSess e))
  | _ =>            -- Telnetd / TcpRpc: the disconnect is a task for the next loop pass; after a delete the client stays
                    -- connected to a service whose terminal session is gone (its input is dropped)
    ({ w.setSlot k { x with sess := s'', ending := x.ending || ended } with exits := exits', frontEnd := w.frontEnd || ended },
     .slot k :: out.filter (fun e => !isEndSess e))

/-- the delivery has been processed: the tree its handlers left behind is the Terminal's tree -/
def landTree (w : World) (s' : Option St) : World :=
  match s' with
  | some s => { w with nodes := s.eff w.nodes }
  | none => w

/-- bytes for the session of slot `k` (already framed) -/
def deliver (cfg : Cfg) (w : World) (k : Nat) (bs : Str) : World × List Ev :=
  let x := w.slot k
  match x.sess with
  | none => (w, [])
  | some s =>
    let r := recvStringD cfg w.nodes w.depth s bs
    finishSlot cfg (landTree w (some r.1)) k x (some { r.1 with tree := none }) r.2

/-- what the client of slot `k` gets to see of these events: nothing that was sent while its socket refuses
every write (`BufferedFd::send` logs the error and drops the data) or after it closed its end -/
def heard (w : World) (k : Nat) (evs : List Ev) : List Ev :=
  if w.mute.contains k || w.gone.contains k then evs.filter (fun e => !isTx e) else evs

/-- bytes for a telnet / raw-TCP client's connection, as `onTcpReceived` gets them (the framing of the front end, then the
terminal session) -/
def recvSlot (cfg : Cfg) (w : World) (k : Nat) (bs : Str) : World × List Ev :=
  let x := w.slot k
  if k = 6 then
    let buf := x.pending ++ bs
    if buf = [] then (w, opLine "rest=0")
    else
      let r := deliver cfg w 6 buf
      (r.1, heard w 6 r.2 ++ opLine "rest=0")
  else
    let opts0 := match x.sess with | some s => s.opts | none => 0
    let f := telFeed cfg opts0 x.pending bs
    let a := applyTel cfg w.nodes w.depth x.sess f.1
    let r := finishSlot cfg (landTree w a.1) k { x with pending := f.2.2 } (a.1.map fun s => { s with tree := none }) a.2
    (r.1, heard w k r.2 ++ opLine ("rest=" ++ toString f.2.2.length))

/-! ### the socket read path (`BufferedFd::onReadCallback` on the service's end of a client's socket)

`readv` is called until it answers something that is not a positive count; everything read is appended to the receive
buffer and handed over in ONE delivery; the answer that ended the loop is looked at only when the very first call gave
it: end of file and every error but EAGAIN / EINTR close the connection (`onSocketClosed` → `onTcpDisconnected` →
`deleteSession`); EAGAIN and EINTR (fix 1c1abc6: it used to be reported as a read error and tore a live connection down)
mean "nothing read now, nothing wrong with the descriptor": nothing is delivered, the connection stays, the read event
fires again. The kernel's answers are an oracle: `chunks` are the counts of the
scripted successful calls (each at most what is queued), `term` what it says afterwards; `term = 0` and a scripted call
that meets an empty queue are answered by the real kernel: everything queued, then EAGAIN — or end of file when the client
has closed its end. -/

structure RdRes where
  data : Str            -- what the one delivery of this read event holds
  rest : Str            -- what stays queued in the kernel
  closed : Bool         -- the event ends the connection
  toks : List String    -- the calls made (M line)
deriving DecidableEq, Repr

def termName : Nat → String
  | 1 => "EAGAIN" | 2 => "EOF" | 3 => "ECONNRESET" | 4 => "EINTR" | _ => "EIO"

/-- the answers of `readv` that are not the end of the stream: EAGAIN (1) and EINTR (4) -/
def termTransient (term : Nat) : Bool := term = 1 || term = 4

/-- the scripted successful calls: (data, rest of the queue, tokens, "a scripted call met an empty queue") -/
def rdChunks : Str → List Nat → Str × Str × List String × Bool
  | kq, [] => ([], kq, [], false)
  | [], _ :: _ => ([], [], [], true)
  | kq, c :: cs =>
    let r := rdChunks (kq.drop c) cs
    (kq.take c ++ r.1, r.2.1, ("readv=" ++ toString (kq.take c).length) :: r.2.2.1, r.2.2.2)

def sockRead (kq : Str) (gone : Bool) (chunks : List Nat) (term : Nat) : RdRes :=
  let c := rdChunks kq chunks
  if c.2.2.2 || term = 0 then
    -- the real kernel goes on: the rest of the queue, then EAGAIN / end of file
    let data := c.1 ++ c.2.1
    { data := data, rest := [], closed := data.isEmpty && gone,
      toks := c.2.2.1 ++ (if c.2.1.isEmpty then [] else ["readv=+" ++ toString c.2.1.length]) ++ [if gone then "readv=EOF" else "readv=EAGAIN"] }
  else
    { data := c.1, rest := c.2.1, closed := c.1.isEmpty && !termTransient term, toks := c.2.2.1 ++ ["readv=" ++ termName term] }

/-- the connection of slot `k` is over for the service (end of file / read error found by its read event): the session is
deleted; the descriptor is closed by a deferred task -/
def sockClosed (w : World) (k : Nat) : World :=
  let x := w.slot k
  { w.setSlot k { x with fstate := 2, sess := none, pending := [], ending := false, kq := [], zfd := x.zfd + 1 } with
    mute := w.mute.filter (· ≠ k), gone := w.gone.filter (· ≠ k) }

/-- one read event on the socket of slot `k` -/
def sockEvent (cfg : Cfg) (w : World) (k : Nat) (chunks : List Nat) (term : Nat) : World × List Ev :=
  let x := w.slot k
  let r := sockRead x.kq (w.gone.contains k) chunks term
  let w1 := w.setSlot k { x with kq := r.rest }
  let d : World × List Ev := if r.data = [] then (w1, []) else recvSlot cfg w1 k r.data
  let toks : List Ev := r.toks.map (.sysc k)
  if r.closed then (sockClosed d.1 k, d.2 ++ toks) else (d.1, d.2 ++ toks)

/-- the read events of a loop pass: the sockets with queued bytes or whose client went away -/
def sockPass (cfg : Cfg) : List Nat → World → World × List Ev
  | [], w => (w, [])
  | k :: ks, w =>
    let x := w.slot k
    if x.fstate = 1 ∧ (x.kq ≠ [] ∨ w.gone.contains k) then
      let r := sockEvent cfg w k [] 0
      let r2 := sockPass cfg ks r.1
      (r2.1, r.2 ++ r2.2)
    else sockPass cfg ks w

/-! ### util::string helpers called directly -/

/-- `util::string::Split(src, sep)` for any non-empty separator: the chips between the non-overlapping occurrences of `sep`
found left to right (`acc` = the current chip, reversed; `fuel` ≥ length of the rest) -/
def splitByGo (sep : Str) : Nat → Str → Str → List Str
  | 0, _, acc => [acc.reverse]
  | _ + 1, [], acc => [acc.reverse]
  | fuel + 1, c :: cs, acc =>
    if sep.isPrefixOf (c :: cs) then acc.reverse :: splitByGo sep fuel ((c :: cs).drop sep.length) []
    else splitByGo sep fuel cs (c :: acc)

def splitBy (sep s : Str) : List Str := splitByGo sep (s.length + 1) s []

def hexDigit (upper : Bool) (n : Nat) : UInt8 :=
  if n < 10 then UInt8.ofNat (48 + n) else UInt8.ofNat ((if upper then 55 else 87) + n)

def hex2 (upper : Bool) (b : UInt8) : Str := [hexDigit upper (b.toNat / 16), hexDigit upper (b.toNat % 16)]

/-- `RawDataToHexStr(ptr, len, uppercase, delimiter)`: the length parameter is a `uint16_t` (a `size_t` argument is taken
modulo 2^16 — telnetd.cpp passes the payload length of a sub-negotiation) -/
def rawHex (data : Str) (n : Nat) (upper : Bool) (delim : Str) : Str :=
  delim.intercalate ((data.take (n % 65536)).map (hex2 upper))

/-- a client that closed its end does not see the service close its own (no `closed` observation for it) -/
def dropClosedOf (gone : List Nat) : Nat → List Ev → List Ev
  | _, [] => []
  | _, .slot k :: r => .slot k :: dropClosedOf gone k r
  | cur, .closed :: r => if gone.contains cur then dropClosedOf gone cur r else .closed :: dropClosedOf gone cur r
  | cur, e :: r => e :: dropClosedOf gone cur r

/-- one op; `none` = `bad-op` -/
def step (cfg : Cfg) (w : World) : Op → Option (World × List Ev)
  | .sel k => if k < 4 then some ({ w with cur := k }, opLine "sel") else none
  | .depth n => if n ≤ 3 then some ({ w with depth := n }, opLine "depth") else none
  | .openS o =>
    let x := w.slot w.cur
    if o < 4 ∧ x.sess = none then         -- a slot whose session is gone (never opened, closed, exited) takes a new one
      let s : St := { opts := o }
      some (w.setSlot w.cur { x with fstate := 1, gen := x.gen + 1, sess := some s },
            .slot w.cur :: beginEvs s ++ retLine true)
    else none
  | .recv bs =>
    let x := w.slot w.cur
    if x.fstate ≠ 0 then
      match x.sess with
      | none => some (w, retLine false)
      | some _ =>
        let r := deliver cfg w w.cur bs
        some (r.1, r.2 ++ retLine true)
    else none
  | .pass =>
    let e := sockPass cfg [4, 5, 6] w
    let r := doPass cfg e.1
    some (r.1, e.2 ++ dropClosedOf e.1.gone nSlots r.2 ++ opLine "pass")
  | .teardown =>
    -- services, Terminal, then the Loop are destroyed without draining: the Loop's cleanup runs what is still
    -- queued — an exit task of the destroyed Terminal, a disconnect task of the destroyed Telnetd / TcpRpc
    -- (queued by a handler's `endSession()`) — unless the destructors cancelled them
    let evs : List Ev :=
      if (w.exits ≠ [] ∧ !cfg.cancelExit) ∨ (w.frontEnd ∧ !cfg.cancelEnd) then [.bad .useAfterFree] else []
    some ({ tel := w.tel, rpc := w.rpc, depth := w.depth }, evs ++ opLine "teardown")
  | .passdown =>
    -- one loop pass whose last task destroys the services and the Terminal: the tasks queued before run (the
    -- disconnects asked for by handlers, the exit tasks), but the disconnect tasks that the exit tasks of
    -- telnet / raw-TCP sessions queue in this very pass are still in the loop when their service dies:
    -- cancelled by its destructor (patch 10), else run on the destroyed object. (All clients lose their
    -- connection when the service is destroyed; the harness reports none of that.)
    -- (refused while bytes are queued on a client's socket: the pass would deliver them to a dying service)
    if (w.slot 4).kq = [] ∧ (w.slot 5).kq = [] ∧ (w.slot 6).kq = [] then
      let c := closeEnding [4, 5, 6] w.slots
      let r := runExits cfg w.exits c.1
      let late := r.2.any (· = .closed)
      let evs : List Ev := if late ∧ !cfg.cancelEnd then [.bad .useAfterFree] else []
      some ({ tel := w.tel, rpc := w.rpc, depth := w.depth },
            (r.2.filter (· ≠ .closed)).filter (fun e => !isSysc e) ++ evs ++ opLine "passdown")
    else none
  | .opt n =>
    let x := w.slot w.cur
    if n < 4 ∧ x.fstate ≠ 0 then
      match x.sess with
      | none => some (w, opLine "opt=0")
      | some s => some (w.setSlot w.cur { x with sess := some { s with opts := n } }, opLine ("opt=" ++ toString n))
    else none
  | .winsz a b =>
    if a < 65536 ∧ b < 65536 ∧ (w.slot w.cur).fstate ≠ 0 then some (w, retLine (w.slot w.cur).sess.isSome) else none
  | .close =>
    let x := w.slot w.cur
    if x.fstate ≠ 0 then some (w.setSlot w.cur { x with sess := none }, retLine x.sess.isSome) else none
  | .xconn k =>
    let x := w.slot k
    if 4 ≤ k ∧ k < 7 ∧ x.fstate ≠ 1 then
      let s : St := { opts := if k = 6 then 2 else 0 }
      let hello : List Ev := if k = 6 then [] else [.tx .out telnetHello]
      some ({ w.setSlot k { fstate := 1, gen := x.gen + 1, sess := some s, pending := [], zfd := x.zfd } with
               mute := w.mute.filter (· ≠ k), gone := w.gone.filter (· ≠ k) },
            .slot k :: hello ++ beginEvs s ++ [.sysc k "accept=ok"] ++ opLine "conn")
    else none
  | .xrecv k bs =>
    let x := w.slot k
    if 4 ≤ k ∧ k < 7 ∧ x.fstate = 1 then some (recvSlot cfg w k bs) else none
  | .xdisc k =>
    let x := w.slot k
    if 4 ≤ k ∧ k < 7 ∧ x.fstate = 1 then
      some (sockClosed w k, opLine "disc")
    else none
  | .sstart =>
    let x := w.slot 7
    if x.fstate = 0 ∧ w.gone = [] ∧ (w.slot 4).kq = [] ∧ (w.slot 5).kq = [] ∧ (w.slot 6).kq = [] then      -- (the passes of the stdio ops would meet the closed sockets / queued bytes: kept apart)
      let s : St := { opts := 1 }
      let w1 := w.setSlot 7 { x with fstate := 1, gen := x.gen + 1, sess := some s }
      let r := doPass cfg w1
      some (r.1, .slot 7 :: beginEvs s ++ r.2 ++ retLine true)
    else none
  | .srecv bs =>
    let x := w.slot 7
    if (x.fstate = 1 ∨ x.fstate = 2) ∧ bs.length ≤ 512 then
      -- no bytes: no read event; token reset (after an exit): any input starts a new session and is dropped
      let r1 : World × List Ev :=
        if bs = [] then (w, [])
        else if x.fstate = 1 then deliver cfg w 7 bs
        else
          let s : St := { opts := 1 }
          (w.setSlot 7 { x with fstate := 1, gen := x.gen + 1, sess := some s }, .slot 7 :: beginEvs s)
      let r2 := doPass cfg r1.1
      some (r2.1, r1.2 ++ r2.2 ++ opLine "srecv")
    else none
  | .sstop =>
    let x := w.slot 7
    if x.fstate = 1 ∨ x.fstate = 2 then
      let r := doPass cfg (w.setSlot 7 { x with fstate := 3, sess := none })
      some (r.1, r.2 ++ opLine "sstop")
    else none
  | .mkdir =>
    if w.nodes.length < maxNodes then
      some ({ w with nodes := w.nodes ++ [some (.dir [])] }, opLine ("node=" ++ toString w.nodes.length))
    else none
  | .mkfunc script =>
    if w.nodes.length < maxNodes ∧ script.length ≤ 6 then
      some ({ w with nodes := w.nodes ++ [some (.func script)] }, opLine ("node=" ++ toString w.nodes.length))
    else none
  | .mount p c name =>
    if p < w.nodes.length ∧ c < w.nodes.length then
      match nodeAt w.nodes p, nodeAt w.nodes c with
      | some (.dir ch), some _ =>
        if name = [] ∨ name.head? = some 33 then some (w, retLine false)
        else if (ch.lookup name).isSome then some (w, retLine false)
        else some ({ w with nodes := w.nodes.set p (some (.dir (insertSorted name c ch))) }, retLine true)
      | _, _ => some (w, retLine false)
    else none
  | .umount p name =>
    if p < w.nodes.length then
      match nodeAt w.nodes p with
      | some (.dir ch) =>
        if (ch.lookup name).isSome then
          some ({ w with nodes := w.nodes.set p (some (.dir (ch.filter (fun c => c.1 ≠ name)))) }, retLine true)
        else some (w, retLine false)
      | _ => some (w, retLine false)
    else none
  | .rmnode i =>
    if i < w.nodes.length then
      match nodeAt w.nodes i with
      | some _ => some ({ w with nodes := w.nodes.set i none }, retLine true)
      | none => some (w, retLine false)
    else none
  | .split bs => some (w, [.split (splitCmdline bs)])
  | .front isTel f =>
    if isTel then (frontStep cfg true w.tel f).map (fun r => ({ w with tel := r.1 }, r.2))
    else (frontStep cfg false w.rpc f).map (fun r => ({ w with rpc := r.1 }, r.2))
  | .wfault k m =>
    if 4 ≤ k ∧ k < 7 ∧ m < 4 ∧ (w.slot k).fstate = 1 ∧ !w.gone.contains k then
      some ({ w with mute := if m = 3 then k :: w.mute.filter (· ≠ k) else w.mute.filter (· ≠ k) }, opLine "wfault")
    else none
  | .xclose k =>
    let f7 := (w.slot 7).fstate
    if 4 ≤ k ∧ k < 7 ∧ (w.slot k).fstate = 1 ∧ !w.gone.contains k ∧ (f7 = 0 ∨ f7 = 3) then
      some ({ w with gone := k :: w.gone }, opLine "xclose")
    else none
  | .xsock k bs chunks term =>
    let f7 := (w.slot 7).fstate
    let x := w.slot k
    if 4 ≤ k ∧ k < 7 ∧ x.fstate = 1 ∧ !w.gone.contains k ∧ (f7 = 0 ∨ f7 = 3) ∧ term ≤ 5 ∧ chunks.length ≤ 8 ∧
        chunks.all (fun c => 1 ≤ c && c ≤ 1024) then
      let r := sockEvent cfg (w.setSlot k { x with kq := x.kq ++ bs }) k chunks term
      some (r.1, r.2 ++ opLine "xsock")
    else none
  | .xconnf k e =>
    if 4 ≤ k ∧ k < 7 ∧ (w.slot k).fstate ≠ 1 ∧ 1 ≤ e ∧ e ≤ 4 then
      some (w, [.slot k, .sysc k ("accept=" ++ (if e = 1 then "EAGAIN" else if e = 2 then "EMFILE" else if e = 3 then "ECONNABORTED" else "EINTR"))] ++ opLine "conn-fail")
    else none
  | .ssplit sep bs => if sep = [] then none else some (w, [.split (some (splitBy sep bs))])
  | .hexstr bs n upper delim =>
    if n % 65536 ≤ bs.length then some (w, [.split (some [rawHex bs n upper delim])]) else none

/-- a whole op file (refused ops change nothing and print `bad-op`) -/
def run (cfg : Cfg) : World → List Op → World × List Ev
  | w, [] => (w, [])
  | w, op :: ops =>
    match step cfg w op with
    | none => run cfg w ops
    | some r =>
      let r2 := run cfg r.1 ops
      (r2.1, r.2 ++ r2.2)

end Tbox.C13
