/- C13 helper lemmas: what any stretch of processing — a key, a command, a handler's script, a nested
   Enter fed by a handler — does to options, history and the prompt count (`Good`). -/
import TboxModel.C13.ProofsEditor
namespace Tbox.C13

def isStored : Ev → Bool
  | .stored _ => true
  | _ => false

/-- no prompt, no history store, no Enter among the events -/
def Neutral (evs : List Ev) : Prop := ∀ e ∈ evs, isPrompt e = false ∧ isStored e = false ∧ isEntered e = false

theorem Neutral.nil : Neutral [] := by intro e he; simp at he
theorem Neutral.append {a b : List Ev} (ha : Neutral a) (hb : Neutral b) : Neutral (a ++ b) := by
  intro e he; rcases List.mem_append.mp he with h | h
  · exact ha e h
  · exact hb e h
theorem Neutral.cons {e : Ev} {a : List Ev} (he : isPrompt e = false ∧ isStored e = false ∧ isEntered e = false)
    (ha : Neutral a) : Neutral (e :: a) := by
  intro x hx; rcases List.mem_cons.mp hx with h | h
  · subst h; exact he
  · exact ha x h

theorem countPrompts_append (a b : List Ev) : countPrompts (a ++ b) = countPrompts a + countPrompts b := by
  simp [countPrompts]
theorem countEntered_append (a b : List Ev) : countEntered (a ++ b) = countEntered a + countEntered b := by
  simp [countEntered]
theorem storedLines_append (a b : List Ev) : storedLines (a ++ b) = storedLines a ++ storedLines b := by
  simp [storedLines]

theorem countPrompts_neutral {evs : List Ev} (h : Neutral evs) : countPrompts evs = 0 := by
  unfold countPrompts
  rw [List.length_eq_zero_iff, List.filter_eq_nil_iff]
  intro e he; simp [(h e he).1]
theorem countEntered_neutral {evs : List Ev} (h : Neutral evs) : countEntered evs = 0 := by
  unfold countEntered
  rw [List.length_eq_zero_iff, List.filter_eq_nil_iff]
  intro e he; simp [(h e he).2.2]
theorem storedLines_neutral {evs : List Ev} (h : Neutral evs) : storedLines evs = [] := by
  unfold storedLines
  rw [List.filterMap_eq_nil_iff]
  intro e he
  have := (h e he).2.1
  cases e <;> simp_all [isStored]

/-! ### `cap` -/

theorem cap_length (l : List Str) : (cap l).length ≤ histMax := by
  unfold cap; simp; omega
theorem cap_of_le (l : List Str) (h : l.length ≤ histMax) : cap l = l := by
  unfold cap; rw [show l.length - histMax = 0 by omega]; rfl
theorem cap_append_cap (a b : List Str) : cap (cap a ++ b) = cap (a ++ b) := by
  unfold cap
  by_cases h : a.length ≤ histMax
  · rw [show a.length - histMax = 0 by omega]; rfl
  · have hk : a.length - histMax ≤ a.length := by omega
    simp only [List.length_append, List.length_drop]
    rw [← List.drop_append_of_le_length hk, List.drop_drop]
    congr 1; omega
theorem cap_step (h : List Str) (l : Str) (hh : h.length ≤ histMax) :
    (if (h ++ [l]).length > histMax then (h ++ [l]).drop 1 else h ++ [l]) = cap (h ++ [l]) := by
  unfold cap
  simp only [List.length_append, List.length_cons, List.length_nil]
  split
  · congr 1; omega
  · rw [show h.length + (0 + 1) - histMax = 0 by omega]; rfl

/-! ### `Good` -/

/-- a stretch of processing from session state `s`: options untouched; the history grows by exactly
the lines stored, in order, capped at 20; every Enter handled is answered by exactly one prompt -/
structure Good (s : St) (r : St × List Ev) : Prop where
  opts : r.1.opts = s.opts
  hist : s.hist.length ≤ histMax → r.1.hist = cap (s.hist ++ storedLines r.2) ∧ r.1.hist.length ≤ histMax
  prompts : countPrompts r.2 = if s.quiet then 0 else countEntered r.2

def GoodFeed (feed : Feed) : Prop := ∀ f, feed = some f → ∀ s bs, Good s (f s bs)

theorem quiet_of_opts {a b : St} (h : a.opts = b.opts) : a.quiet = b.quiet := by unfold St.quiet; rw [h]

theorem good_neutral {s s' : St} {evs : List Ev} (ho : s'.opts = s.opts) (hh : s'.hist = s.hist) (hn : Neutral evs) :
    Good s (s', evs) :=
  ⟨ho, fun hle => by simp [hh, storedLines_neutral hn, cap_of_le _ hle, hle],
   by simp [countPrompts_neutral hn, countEntered_neutral hn]⟩

theorem Good.trans {s : St} {r1 r2 : St × List Ev} (h1 : Good s r1) (h2 : Good r1.1 r2) :
    Good s (r2.1, r1.2 ++ r2.2) := by
  refine ⟨h2.opts.trans h1.opts, fun hle => ?_, ?_⟩
  · obtain ⟨e1, l1⟩ := h1.hist hle
    obtain ⟨e2, l2⟩ := h2.hist l1
    refine ⟨?_, l2⟩
    rw [e2, e1, cap_append_cap, storedLines_append, List.append_assoc]
  · rw [countPrompts_append, countEntered_append, h1.prompts, h2.prompts, quiet_of_opts h1.opts]
    split <;> simp

/-- neutral events before / after do not matter -/
theorem Good.pre {s s' : St} {evs pre : List Ev} (h : Good s (s', evs)) (hp : Neutral pre) : Good s (s', pre ++ evs) := by
  have := Good.trans (good_neutral (s := s) (s' := s) rfl rfl hp) (r2 := (s', evs)) h
  simpa using this
theorem Good.post {s s' : St} {evs post : List Ev} (h : Good s (s', evs)) (hp : Neutral post) : Good s (s', evs ++ post) := by
  have := Good.trans h (r2 := (s', post)) (good_neutral rfl rfl hp)
  simpa using this

theorem neutral_single (e : Ev) (h : isPrompt e = false ∧ isStored e = false ∧ isEntered e = false) : Neutral [e] :=
  Neutral.cons h Neutral.nil

/-! ### scripts and commands -/

theorem runScript_good (ns : Nodes) (feed : Feed) (hf : GoodFeed feed) (acts : List Act) : ∀ s, Good s (runScript ns feed s acts) := by
  cases feed with
  | none =>
    induction acts with
    | nil => intro s; exact good_neutral rfl rfl Neutral.nil
    | cons a r ih =>
      intro s
      cases a with
      | send bs =>
        simp only [runScript]
        exact Good.pre (pre := [.tx .out bs]) (ih s) (neutral_single _ (by simp [isPrompt, isStored, isEntered]))
      | feed bs => simp only [runScript]; exact ih s
      | endS =>
        simp only [runScript]
        exact Good.pre (pre := [.endSess]) (ih s) (neutral_single _ (by simp [isPrompt, isStored, isEntered]))
      | del =>
        simp only [runScript]
        exact Good.pre (pre := [.delS]) (ih s) (neutral_single _ (by simp [isPrompt, isStored, isEntered]))
      | rm i =>
        simp only [runScript]
        have := Good.trans (good_neutral (s := s) (s' := { s with tree := some (rmNode (s.eff ns) i) }) rfl rfl
          (neutral_single (.tag "h-rm") (by simp [isPrompt, isStored, isEntered]))) (ih _)
        simpa using this
      | mnt p c name =>
        simp only [runScript]
        have := Good.trans (good_neutral (s := s) (s' := { s with tree := some (mountNode (s.eff ns) p c name) }) rfl rfl
          (neutral_single (.tag "h-mount") (by simp [isPrompt, isStored, isEntered]))) (ih _)
        simpa using this
      | umnt p name =>
        simp only [runScript]
        have := Good.trans (good_neutral (s := s) (s' := { s with tree := some (umountNode (s.eff ns) p name) }) rfl rfl
          (neutral_single (.tag "h-umount") (by simp [isPrompt, isStored, isEntered]))) (ih _)
        simpa using this
  | some f =>
    induction acts with
    | nil => intro s; exact good_neutral rfl rfl Neutral.nil
    | cons a r ih =>
      intro s
      cases a with
      | send bs =>
        simp only [runScript]
        exact Good.pre (pre := [.tx .out bs]) (ih s) (neutral_single _ (by simp [isPrompt, isStored, isEntered]))
      | feed bs =>
        simp only [runScript]
        have h1 := hf f rfl s bs
        have h2 := Good.trans h1 (ih (f s bs).1)
        exact Good.pre (pre := [.tag "nested-feed"]) h2 (neutral_single _ (by simp [isPrompt, isStored, isEntered]))
      | endS =>
        simp only [runScript]
        exact Good.pre (pre := [.endSess]) (ih s) (neutral_single _ (by simp [isPrompt, isStored, isEntered]))
      | del =>
        simp only [runScript]
        exact Good.pre (pre := [.delS]) (ih s) (neutral_single _ (by simp [isPrompt, isStored, isEntered]))
      | rm i =>
        simp only [runScript]
        have := Good.trans (good_neutral (s := s) (s' := { s with tree := some (rmNode (s.eff ns) i) }) rfl rfl
          (neutral_single (.tag "h-rm") (by simp [isPrompt, isStored, isEntered]))) (ih _)
        simpa using this
      | mnt p c name =>
        simp only [runScript]
        have := Good.trans (good_neutral (s := s) (s' := { s with tree := some (mountNode (s.eff ns) p c name) }) rfl rfl
          (neutral_single (.tag "h-mount") (by simp [isPrompt, isStored, isEntered]))) (ih _)
        simpa using this
      | umnt p name =>
        simp only [runScript]
        have := Good.trans (good_neutral (s := s) (s' := { s with tree := some (umountNode (s.eff ns) p name) }) rfl rfl
          (neutral_single (.tag "h-umount") (by simp [isPrompt, isStored, isEntered]))) (ih _)
        simpa using this

theorem userCmd_good (cfg : Cfg) (ns : Nodes) (feed : Feed) (hf : GoodFeed feed) (s : St) (args : List Str) (cmd : Str) :
    Good s (userCmd cfg ns feed s args cmd) := by
  unfold userCmd
  cases findNode ns cmd s.path with
  | none => exact good_neutral rfl rfl (neutral_single _ (by simp [isPrompt, isStored, isEntered]))
  | some np =>
    simp only
    cases nodeAt ns (topOf np) with
    | none => exact good_neutral rfl rfl (neutral_single _ (by simp [isPrompt, isStored, isEntered]))
    | some node =>
      cases node with
      | dir ch => exact good_neutral rfl rfl Neutral.nil
      | func script =>
        simp only
        have hr : Good s (runHandler ns feed s script) := by
          unfold runHandler; split
          · exact runScript_good ns feed hf script s
          · exact good_neutral rfl rfl Neutral.nil
        have h1 := Good.post (post := (if !cfg.funcCopy && (nodeAt ((runHandler ns feed s script).1.eff ns) (topOf np)).isNone
            then [Ev.bad .useAfterFree] else []) ++ [.tx .out (60 :: decBytes (topOf np) ++ 62 :: Msg.crlf)]) hr
          (by split <;> simp [Neutral, isPrompt, isStored, isEntered])
        exact Good.pre (pre := [.probe (topOf np) args]) h1 (neutral_single _ (by simp [isPrompt, isStored, isEntered]))

/-- the `ExecRes` form -/
def GoodX (s : St) (r : ExecRes) : Prop := Good s (r.1, r.2.1)

def Sel.neutral : Sel → Prop
  | .err evs => Neutral evs
  | .run _ _ _ => True

theorem selectEntry_neutral (cfg : Cfg) (hist : List Str) (a : Str) : (selectEntry cfg hist a).neutral := by
  unfold selectEntry
  simp only []
  by_cases h1 : List.drop 1 a = [33]
  · simp only [h1, if_true]
    cases hist.getLast? with
    | none => by_cases hb : cfg.bangGuard = true <;> simp [hb, Sel.neutral, Neutral, isPrompt, isStored, isEntered]
    | some l => simp [Sel.neutral]
  · simp only [h1, if_false]
    cases stoi (List.drop 1 a) with
    | invalid => simp [Sel.neutral, Neutral, isPrompt, isStored, isEntered]
    | range => by_cases hb : cfg.catchRange = true <;> simp [hb, Sel.neutral, Neutral, isPrompt, isStored, isEntered]
    | val i =>
      simp only []
      by_cases hi : i ≥ 0
      · simp only [hi, if_true]
        by_cases h2 : i.toNat < hist.length
        · simp only [h2, if_true]
          cases hist[i.toNat]? <;> simp [Sel.neutral, Neutral, isPrompt, isStored, isEntered]
        · simp [h2, Sel.neutral, Neutral, isPrompt, isStored, isEntered]
      · simp only [hi, if_false]
        by_cases h3 : (!cfg.wideNeg && decide (i = intMin)) = true
        · simp [h3, Sel.neutral, Neutral, isPrompt, isStored, isEntered]
        · simp only [h3]
          by_cases h4 : hist.length ≥ (-i).toNat
          · simp only [h4, if_true]
            cases hist[hist.length - (-i).toNat]? <;> simp [Sel.neutral, Neutral, isPrompt, isStored, isEntered]
          · simp [h4, Sel.neutral, Neutral, isPrompt, isStored, isEntered]

theorem runHistory_good (cfg : Cfg) (inner : St → ExecRes) (hin : ∀ s, GoodX s (inner s)) (rerun : Bool) (s : St) (a : Str) :
    GoodX s (runHistory cfg inner rerun s a) := by
  unfold runHistory GoodX
  split
  · exact good_neutral rfl rfl (by simp [Neutral, isPrompt, isStored, isEntered])
  · have hsel := selectEntry_neutral cfg s.hist a
    split
    · next evs h => rw [h] at hsel; exact good_neutral rfl rfl hsel
    · next l echo tag h =>
      simp only
      have hk := hin { s with line := l, cursor := if cfg.cursorReset = true then l.length else s.cursor }
      have hk' : Good s ((inner { s with line := l, cursor := if cfg.cursorReset = true then l.length else s.cursor }).1,
          (inner { s with line := l, cursor := if cfg.cursorReset = true then l.length else s.cursor }).2.1) :=
        ⟨hk.opts, hk.hist, hk.prompts⟩
      have : Neutral (.tag tag :: (if echo = true then [Ev.tx .out (l ++ Msg.crlf)] else [])) := by
        apply Neutral.cons (by simp [isPrompt, isStored, isEntered])
        split <;> simp [Neutral, isPrompt, isStored, isEntered]
      have := Good.pre hk' this
      simpa using this

theorem executeCmd_good (cfg : Cfg) (ns : Nodes) (feed : Feed) (hf : GoodFeed feed) (inner : St → ExecRes)
    (hin : ∀ s, GoodX s (inner s)) (rerun : Bool) (s : St) (c : Str) :
    GoodX s (executeCmd cfg ns feed inner rerun s c) := by
  unfold executeCmd
  simp only []
  repeat' split
  all_goals first
    | exact runHistory_good cfg inner hin rerun s _
    | (exact Good.pre (pre := [.tag "cmd-user"]) (userCmd_good cfg _ feed hf s _ _) (neutral_single _ (by simp [isPrompt, isStored, isEntered])))
    | (exact good_neutral rfl rfl (by simp [Neutral, isPrompt, isStored, isEntered]))
    | (refine good_neutral rfl rfl ?_; intro e he; simp at he; rcases he with rfl | rfl | rfl <;> simp [isPrompt, isStored, isEntered])
    | (refine good_neutral rfl rfl ?_; intro e he; simp at he; rcases he with rfl | rfl <;> simp [isPrompt, isStored, isEntered])
    | (simp only []; split <;> exact good_neutral rfl rfl (by simp [Neutral, isPrompt, isStored, isEntered]))

theorem runSegs_good (f : St → Str → ExecRes) (hf : ∀ s c, GoodX s (f s c)) (s : St) (cs : List Str) :
    GoodX s (runSegs f s cs) := by
  induction cs generalizing s with
  | nil => exact good_neutral rfl rfl Neutral.nil
  | cons c cs ih =>
    have h1 := hf s c
    unfold runSegs
    simp only
    split
    · exact Good.trans h1 (ih (f s c).1)
    · exact h1

theorem execute_good (cfg : Cfg) (ns : Nodes) (feed : Feed) (hf : GoodFeed feed) (fuel : Nat) :
    ∀ (rerun : Bool) (s : St), GoodX s (execute cfg ns feed fuel rerun s) := by
  induction fuel with
  | zero => intro rerun s; exact good_neutral rfl rfl (by simp [execute, Neutral, isPrompt, isStored, isEntered])
  | succ n ih =>
    intro rerun s
    have h := runSegs_good (executeCmd cfg ns feed (execute cfg ns feed n true) rerun)
      (fun s c => executeCmd_good cfg ns feed hf _ (ih true) rerun s c) s (splitOn 59 s.line)
    unfold execute GoodX
    exact Good.pre (pre := [.exec s.line]) h (neutral_single _ (by simp [isPrompt, isStored, isEntered]))

/-! ### keys -/

theorem onKey_nonEnter_good (cfg : Cfg) (ns : Nodes) (feed : Feed) (s : St) (k : Key) (hk : k ≠ .enter) :
    (onKey cfg ns feed s k).1.opts = s.opts ∧ (onKey cfg ns feed s k).1.hist = s.hist ∧ Neutral (onKey cfg ns feed s k).2 := by
  cases k with
  | enter => exact absurd rfl hk
  | tab => exact ⟨rfl, rfl, Neutral.nil⟩
  | char c => show (onChar s c).1.opts = _ ∧ (onChar s c).1.hist = _ ∧ Neutral (onChar s c).2
              unfold onChar; repeat' split
              all_goals exact ⟨rfl, rfl, by simp [Neutral, isPrompt, isStored, isEntered]⟩
  | backspace => show (onBackspace s).1.opts = _ ∧ (onBackspace s).1.hist = _ ∧ Neutral (onBackspace s).2
                 unfold onBackspace; repeat' split
                 all_goals exact ⟨rfl, rfl, by simp [Neutral, isPrompt, isStored, isEntered]⟩
  | delete => show (onDelete s).1.opts = _ ∧ (onDelete s).1.hist = _ ∧ Neutral (onDelete s).2
              unfold onDelete; repeat' split
              all_goals exact ⟨rfl, rfl, by simp [Neutral, isPrompt, isStored, isEntered]⟩
  | up => show (onUp s).1.opts = _ ∧ (onUp s).1.hist = _ ∧ Neutral (onUp s).2
          unfold onUp; repeat' (first | split | dsimp only)
          all_goals exact ⟨rfl, rfl, by simp [Neutral, isPrompt, isStored, isEntered]⟩
  | down => show (onDown s).1.opts = _ ∧ (onDown s).1.hist = _ ∧ Neutral (onDown s).2
            unfold onDown; repeat' (first | split | dsimp only)
            all_goals exact ⟨rfl, rfl, by simp [Neutral, isPrompt, isStored, isEntered]⟩
  | left => show (onLeft s).1.opts = _ ∧ (onLeft s).1.hist = _ ∧ Neutral (onLeft s).2
            unfold onLeft; repeat' split
            all_goals exact ⟨rfl, rfl, by simp [Neutral, isPrompt, isStored, isEntered]⟩
  | right => show (onRight s).1.opts = _ ∧ (onRight s).1.hist = _ ∧ Neutral (onRight s).2
             unfold onRight; repeat' split
             all_goals exact ⟨rfl, rfl, by simp [Neutral, isPrompt, isStored, isEntered]⟩
  | home => show (onHome s).1.opts = _ ∧ (onHome s).1.hist = _ ∧ Neutral (onHome s).2
            unfold onHome; exact ⟨rfl, rfl, by simp [Neutral, isPrompt, isStored, isEntered]⟩
  | endKey => show (onEnd s).1.opts = _ ∧ (onEnd s).1.hist = _ ∧ Neutral (onEnd s).2
              unfold onEnd; repeat' split
              all_goals exact ⟨rfl, rfl, by simp [Neutral, isPrompt, isStored, isEntered]⟩

theorem countPrompts_cons (e : Ev) (l : List Ev) : countPrompts (e :: l) = (if isPrompt e then 1 else 0) + countPrompts l := by
  unfold countPrompts; rw [List.filter_cons]; split <;> simp <;> omega
theorem countEntered_cons (e : Ev) (l : List Ev) : countEntered (e :: l) = (if isEntered e then 1 else 0) + countEntered l := by
  unfold countEntered; rw [List.filter_cons]; split <;> simp <;> omega

/-- one Enter: the Enters handled inside it (fed by handlers) each got their prompt, and so does this one;
its own line, if stored, comes after the lines stored inside -/
theorem onEnter_good (cfg : Cfg) (ns : Nodes) (feed : Feed) (hf : GoodFeed feed) (s : St) :
    Good s (onEnter cfg ns feed s) := by
  have hx := execute_good cfg ns feed hf execFuel false s
  unfold onEnter
  generalize execute cfg ns feed execFuel false s = r at hx
  obtain ⟨s1, evs, ok⟩ := r
  have hx : Good s (s1, evs) := hx
  have ho : s1.opts = s.opts := hx.opts
  have hq : s1.quiet = s.quiet := quiet_of_opts ho
  simp only
  have sl_pre : storedLines (if s.echo = true then [Ev.entered, Ev.tx .echo Msg.crlf] else [Ev.entered]) = [] := by
    split <;> simp [storedLines]
  have sl_pr : storedLines (if s.quiet = true then [] else [Ev.tx .prompt Msg.prompt]) = [] := by
    split <;> simp [storedLines]
  have sl_ns : storedLines [Ev.tag "nostore"] = [] := by simp [storedLines]
  have sl_st : ∀ (l : Str) (t : String), storedLines [Ev.stored l, Ev.tag t] = [l] := by intro l t; simp [storedLines]
  have cp_pre : countPrompts (if s.echo = true then [Ev.entered, Ev.tx .echo Msg.crlf] else [Ev.entered]) = 0 := by
    split <;> rfl
  have ce_pre : countEntered (if s.echo = true then [Ev.entered, Ev.tx .echo Msg.crlf] else [Ev.entered]) = 1 := by
    split <;> rfl
  have cp_pr : countPrompts (if s.quiet = true then [] else [Ev.tx .prompt Msg.prompt]) = if s.quiet then 0 else 1 := by
    split <;> rfl
  have ce_pr : countEntered (if s.quiet = true then [] else [Ev.tx .prompt Msg.prompt]) = 0 := by
    split <;> rfl
  have cp_ns : countPrompts [Ev.tag "nostore"] = 0 := by simp [countPrompts, isPrompt]
  have ce_ns : countEntered [Ev.tag "nostore"] = 0 := by simp [countEntered, isEntered]
  have cp_st : ∀ (l : Str) (t : String), countPrompts [Ev.stored l, Ev.tag t] = 0 := by intro l t; simp [countPrompts, isPrompt]
  have ce_st : ∀ (l : Str) (t : String), countEntered [Ev.stored l, Ev.tag t] = 0 := by intro l t; simp [countEntered, isEntered]
  refine ⟨?_, fun hle => ?_, ?_⟩
  · cases ok
    · exact ho
    · first | exact ho | (simp only [if_true]; split <;> exact ho)
  · obtain ⟨e1, l1⟩ := hx.hist hle
    have e1 : s1.hist = cap (s.hist ++ storedLines evs) := e1
    have l1 : s1.hist.length ≤ histMax := l1
    cases ok with
    | false =>
      simp only [Bool.false_eq_true, if_false, storedLines_append, sl_pre, hq, sl_pr, sl_ns, List.nil_append, List.append_nil]
      exact ⟨e1, l1⟩
    | true =>
      have hstep := cap_step s1.hist s1.line l1
      simp only [if_true]
      by_cases hl : (s1.hist ++ [s1.line]).length > histMax
      · simp only [hl, if_true] at hstep ⊢
        simp only [storedLines_append, sl_pre, hq, sl_pr, sl_st, List.nil_append, List.append_nil]
        rw [hstep, e1, cap_append_cap, List.append_assoc]
        exact ⟨rfl, cap_length _⟩
      · simp only [hl, if_false] at hstep ⊢
        simp only [storedLines_append, sl_pre, hq, sl_pr, sl_st, List.nil_append, List.append_nil]
        rw [hstep, e1, cap_append_cap, List.append_assoc]
        exact ⟨rfl, cap_length _⟩
  · have hp : countPrompts evs = if s.quiet then 0 else countEntered evs := hx.prompts
    cases ok with
    | false =>
      simp only [Bool.false_eq_true, if_false, countPrompts_append, countEntered_append, hq, cp_pre, ce_pre, cp_pr, ce_pr, cp_ns, ce_ns, hp]
      cases s.quiet <;> simp <;> omega
    | true =>
      simp only [if_true]
      by_cases hl : (s1.hist ++ [s1.line]).length > histMax
      · simp only [hl, if_true, countPrompts_append, countEntered_append, hq, cp_pre, ce_pre, cp_pr, ce_pr, cp_st, ce_st, hp]
        cases s.quiet <;> simp <;> omega
      · simp only [hl, if_false, countPrompts_append, countEntered_append, hq, cp_pre, ce_pre, cp_pr, ce_pr, cp_st, ce_st, hp]
        cases s.quiet <;> simp <;> omega

theorem onKey_good (cfg : Cfg) (ns : Nodes) (feed : Feed) (hf : GoodFeed feed) (s : St) (k : Key) :
    Good s (onKey cfg ns feed s k) := by
  by_cases hk : k = .enter
  · subst hk; exact onEnter_good cfg ns feed hf s
  · have := onKey_nonEnter_good cfg ns feed s k hk
    exact good_neutral this.1 this.2.1 this.2.2

theorem runKeys_good (cfg : Cfg) (ns : Nodes) (feed : Feed) (hf : GoodFeed feed) (ks : List Key) :
    ∀ s, Good s (runKeys cfg ns feed s ks) := by
  induction ks with
  | nil => intro s; exact good_neutral rfl rfl Neutral.nil
  | cons k ks ih =>
    intro s
    exact Good.trans (onKey_good cfg ns feed hf s k) (ih _)

theorem feedAt_good (cfg : Cfg) (ns : Nodes) (d : Nat) : GoodFeed (feedAt cfg ns d) := by
  induction d with
  | zero => intro f hf; simp [feedAt] at hf
  | succ n ih =>
    intro f hf s bs
    simp only [feedAt, Option.some.injEq] at hf
    subst hf
    cases n with
    | zero => exact runKeys_good cfg ns none (by intro f hf; simp at hf) _ s
    | succ m => exact runKeys_good cfg ns (some (recvStringD cfg ns m)) ih _ s

theorem recvStringD_good (cfg : Cfg) (ns : Nodes) (d : Nat) (s : St) (bs : Str) : Good s (recvStringD cfg ns d s bs) :=
  feedAt_good cfg ns (d + 1) _ rfl s bs

end Tbox.C13
