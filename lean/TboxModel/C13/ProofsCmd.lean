/- C13 helper lemmas: what `execute` leaves alone (options, history, cursor) and what it never emits
   (prompts, history stores). -/
import TboxModel.C13.ProofsEditor
namespace Tbox.C13

def isStored : Ev → Bool
  | .stored _ => true
  | _ => false

/-- no prompt and no history store among the events -/
def Quiet (evs : List Ev) : Prop := ∀ e ∈ evs, isPrompt e = false ∧ isStored e = false

/-- `execute` and its parts change at most the current input and the path -/
structure Keep (s : St) (r : ExecRes) : Prop where
  opts : r.1.opts = s.opts
  hist : r.1.hist = s.hist
  cursor : r.1.cursor = s.cursor
  hidx : r.1.hidx = s.hidx
  quiet : Quiet r.2.1

theorem Quiet.nil : Quiet [] := by intro e he; simp at he
theorem Quiet.append {a b : List Ev} (ha : Quiet a) (hb : Quiet b) : Quiet (a ++ b) := by
  intro e he; rcases List.mem_append.mp he with h | h
  · exact ha e h
  · exact hb e h
theorem Quiet.cons {e : Ev} {a : List Ev} (he : isPrompt e = false ∧ isStored e = false) (ha : Quiet a) : Quiet (e :: a) := by
  intro x hx; rcases List.mem_cons.mp hx with h | h
  · subst h; exact he
  · exact ha x h

theorem userCmd_quiet (ns : Nodes) (s : St) (args : List Str) (cmd : Str) : Quiet (userCmd ns s args cmd).2 := by
  unfold userCmd; repeat' split
  all_goals simp [Quiet, isPrompt, isStored]

def Sel.quiet : Sel → Prop
  | .err evs => Quiet evs
  | .run _ _ _ => True

theorem selectEntry_quiet (cfg : Cfg) (hist : List Str) (a : Str) : (selectEntry cfg hist a).quiet := by
  unfold selectEntry
  simp only []
  by_cases h1 : List.drop 1 a = [33]
  · simp only [h1, if_true]
    cases hist.getLast? with
    | none => by_cases hb : cfg.bangGuard = true <;> simp [hb, Sel.quiet, Quiet, isPrompt, isStored]
    | some l => simp [Sel.quiet]
  · simp only [h1, if_false]
    cases stoi (List.drop 1 a) with
    | invalid => simp [Sel.quiet, Quiet, isPrompt, isStored]
    | range => by_cases hb : cfg.catchRange = true <;> simp [hb, Sel.quiet, Quiet, isPrompt, isStored]
    | val i =>
      simp only []
      by_cases hi : i ≥ 0
      · simp only [hi, if_true]
        by_cases h2 : i.toNat < hist.length
        · simp only [h2, if_true]
          cases hist[i.toNat]? <;> simp [Sel.quiet, Quiet, isPrompt, isStored]
        · simp [h2, Sel.quiet, Quiet, isPrompt, isStored]
      · simp only [hi, if_false]
        by_cases h3 : (!cfg.wideNeg && decide (i = intMin)) = true
        · simp [h3, Sel.quiet, Quiet, isPrompt, isStored]
        · simp only [h3, if_false]
          by_cases h4 : hist.length ≥ (-i).toNat
          · simp only [h4, if_true]
            cases hist[hist.length - (-i).toNat]? <;> simp [Sel.quiet, Quiet, isPrompt, isStored]
          · simp [h4, Sel.quiet, Quiet, isPrompt, isStored]

theorem selectEntry_err_quiet (cfg : Cfg) (hist : List Str) (a : Str) (evs : List Ev)
    (h : selectEntry cfg hist a = .err evs) : Quiet evs := by
  have := selectEntry_quiet cfg hist a
  rw [h] at this; exact this

theorem runHistory_keep (cfg : Cfg) (inner : St → ExecRes) (hin : ∀ s, Keep s (inner s)) (s : St) (a : Str) :
    Keep s (runHistory cfg inner s a) := by
  unfold runHistory
  split
  · next evs h => exact ⟨rfl, rfl, rfl, rfl, selectEntry_err_quiet _ _ _ _ h⟩
  · next l echo tag h =>
    have hk := hin { s with line := l }
    refine ⟨hk.opts, hk.hist, hk.cursor, hk.hidx, ?_⟩
    apply Quiet.cons (by simp [isPrompt, isStored])
    apply Quiet.append _ hk.quiet
    split <;> simp [Quiet, isPrompt, isStored]

theorem executeCmd_keep (cfg : Cfg) (ns : Nodes) (inner : St → ExecRes) (hin : ∀ s, Keep s (inner s)) (s : St) (c : Str) :
    Keep s (executeCmd cfg ns inner s c) := by
  unfold executeCmd
  repeat' split
  all_goals first
    | exact runHistory_keep cfg inner hin s _
    | exact ⟨rfl, rfl, rfl, rfl, Quiet.cons (by simp [isPrompt, isStored]) (userCmd_quiet _ _ _ _)⟩
    | exact ⟨rfl, rfl, rfl, rfl, by simp [Quiet, isPrompt, isStored]⟩
    | (refine ⟨rfl, rfl, rfl, rfl, ?_⟩; intro e he; simp at he; rcases he with rfl | rfl | rfl <;> simp [isPrompt, isStored])
    | (refine ⟨rfl, rfl, rfl, rfl, ?_⟩; intro e he; simp at he; rcases he with rfl | rfl <;> simp [isPrompt, isStored])
    | (simp only []; split <;> exact ⟨rfl, rfl, rfl, rfl, by simp [Quiet, isPrompt, isStored]⟩)

theorem runSegs_keep (f : St → Str → ExecRes) (hf : ∀ s c, Keep s (f s c)) (s : St) (cs : List Str) :
    Keep s (runSegs f s cs) := by
  induction cs generalizing s with
  | nil => exact ⟨rfl, rfl, rfl, rfl, Quiet.nil⟩
  | cons c cs ih =>
    have h1 := hf s c
    unfold runSegs
    simp only
    split
    · have h2 := ih (f s c).1
      exact ⟨h2.opts.trans h1.opts, h2.hist.trans h1.hist, h2.cursor.trans h1.cursor, h2.hidx.trans h1.hidx,
             Quiet.append h1.quiet h2.quiet⟩
    · exact ⟨h1.opts, h1.hist, h1.cursor, h1.hidx, h1.quiet⟩

theorem execute_keep (cfg : Cfg) (ns : Nodes) (fuel : Nat) (s : St) : Keep s (execute cfg ns fuel s) := by
  induction fuel generalizing s with
  | zero => exact ⟨rfl, rfl, rfl, rfl, by simp [execute, Quiet, isPrompt, isStored]⟩
  | succ n ih =>
    have h := runSegs_keep (executeCmd cfg ns (execute cfg ns n)) (fun s c => executeCmd_keep cfg ns _ ih s c) s (splitOn 59 s.line)
    unfold execute
    exact ⟨h.opts, h.hist, h.cursor, h.hidx, Quiet.cons (by simp [isPrompt, isStored]) h.quiet⟩


/-- an editing key (anything but Enter) leaves history and options alone and sends no prompt -/
structure KeyKeep (s : St) (r : St × List Ev) : Prop where
  opts : r.1.opts = s.opts
  hist : r.1.hist = s.hist
  quiet : Quiet r.2

theorem onKey_keep (cfg : Cfg) (ns : Nodes) (s : St) (k : Key) (hk : k ≠ .enter) : KeyKeep s (onKey cfg ns s k) := by
  cases k with
  | enter => exact absurd rfl hk
  | tab => exact ⟨rfl, rfl, Quiet.nil⟩
  | char c => show KeyKeep s (onChar s c); unfold onChar; repeat' split
              all_goals exact ⟨rfl, rfl, by simp [Quiet, isPrompt, isStored]⟩
  | backspace => show KeyKeep s (onBackspace s); unfold onBackspace; repeat' split
                 all_goals exact ⟨rfl, rfl, by simp [Quiet, isPrompt, isStored]⟩
  | delete => show KeyKeep s (onDelete s); unfold onDelete; repeat' split
              all_goals exact ⟨rfl, rfl, by simp [Quiet, isPrompt, isStored]⟩
  | up => show KeyKeep s (onUp s); unfold onUp; repeat' (first | split | dsimp only)
          all_goals exact ⟨rfl, rfl, by simp [Quiet, isPrompt, isStored]⟩
  | down => show KeyKeep s (onDown s); unfold onDown; repeat' (first | split | dsimp only)
            all_goals exact ⟨rfl, rfl, by simp [Quiet, isPrompt, isStored]⟩
  | left => show KeyKeep s (onLeft s); unfold onLeft; repeat' split
            all_goals exact ⟨rfl, rfl, by simp [Quiet, isPrompt, isStored]⟩
  | right => show KeyKeep s (onRight s); unfold onRight; repeat' split
             all_goals exact ⟨rfl, rfl, by simp [Quiet, isPrompt, isStored]⟩
  | home => show KeyKeep s (onHome s); unfold onHome; exact ⟨rfl, rfl, by simp [Quiet, isPrompt, isStored]⟩
  | endKey => show KeyKeep s (onEnd s); unfold onEnd; repeat' split
              all_goals exact ⟨rfl, rfl, by simp [Quiet, isPrompt, isStored]⟩

theorem countPrompts_quiet {evs : List Ev} (h : Quiet evs) : countPrompts evs = 0 := by
  unfold countPrompts
  rw [List.length_eq_zero_iff, List.filter_eq_nil_iff]
  intro e he; simp [(h e he).1]

theorem storedLines_quiet {evs : List Ev} (h : Quiet evs) : storedLines evs = [] := by
  unfold storedLines
  rw [List.filterMap_eq_nil_iff]
  intro e he
  have := (h e he).2
  cases e <;> simp_all [isStored]

theorem countPrompts_append (a b : List Ev) : countPrompts (a ++ b) = countPrompts a + countPrompts b := by
  simp [countPrompts]
theorem storedLines_append (a b : List Ev) : storedLines (a ++ b) = storedLines a ++ storedLines b := by
  simp [storedLines]

end Tbox.C13
