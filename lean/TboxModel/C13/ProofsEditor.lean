/- C13 helper lemmas: the editing keys simulate the reference zipper editor. -/
import TboxModel.C13.Spec
namespace Tbox.C13

/-- the session shows what the reference editor holds -/
structure Rel (s : St) (e : RefEd) : Prop where
  line : s.line = e.line
  cursor : s.cursor = e.left.length
  hist : s.hist = e.hist
  hidx : s.hidx = e.hidx
  hle : s.hidx ≤ s.hist.length

def noBad (evs : List Ev) : Prop := ∀ e ∈ evs, e.isBad = false

theorem rel_take {s : St} {e : RefEd} (h : Rel s e) : s.line.take s.cursor = e.left.reverse := by
  rw [h.line, h.cursor, RefEd.line]; simp
theorem rel_drop {s : St} {e : RefEd} (h : Rel s e) : s.line.drop s.cursor = e.right := by
  rw [h.line, h.cursor, RefEd.line]; simp
theorem rel_len {s : St} {e : RefEd} (h : Rel s e) : s.line.length = e.left.length + e.right.length := by
  rw [h.line, RefEd.line]; simp

theorem recent_eq (hist : List Str) (k : Nat) (hk : 0 < k) (hle : k ≤ hist.length) :
    recent hist k = hist[hist.length - k]? := by
  unfold recent
  have : k ≠ 0 := by omega
  simp only [this, if_false]
  rw [List.getElem?_reverse (by omega)]
  congr 1; omega

theorem onChar_rel {s e} (h : Rel s e) (c : UInt8) :
    Rel (onChar s c).1 (e.key (.char c)) ∧ noBad (onChar s c).2 := by
  have hl := rel_len h
  have hc := h.cursor
  have hnot : ¬ s.cursor > s.line.length := by omega
  unfold onChar
  simp only [hnot, if_false]
  refine ⟨?_, ?_⟩
  · split <;> exact ⟨by simp [RefEd.key, RefEd.line, rel_take h, rel_drop h], by simp [RefEd.key, hc], h.hist, h.hidx, h.hle⟩
  · split <;> (intro x hx; simp at hx; rcases hx with rfl | rfl <;> rfl) 


theorem noBad_tag_tx (t : String) (k : TxKind) (bs : Str) : noBad [.tag t, .tx k bs] := by
  intro x hx; simp at hx; rcases hx with rfl | rfl <;> rfl
theorem noBad_tag (t : String) : noBad [.tag t] := by
  intro x hx; simp at hx; subst hx; rfl
theorem noBad_tx (k : TxKind) (bs : Str) : noBad [.tx k bs] := by
  intro x hx; simp at hx; subst hx; rfl
theorem noBad_nil : noBad [] := by intro x hx; simp at hx
theorem noBad_append {a b : List Ev} (ha : noBad a) (hb : noBad b) : noBad (a ++ b) := by
  intro x hx; rcases List.mem_append.mp hx with h | h
  · exact ha x h
  · exact hb x h

theorem onBackspace_rel {s e} (h : Rel s e) :
    Rel (onBackspace s).1 (e.key .backspace) ∧ noBad (onBackspace s).2 := by
  have hl := rel_len h
  have hc := h.cursor
  unfold onBackspace
  by_cases h0 : s.cursor = 0
  · simp only [h0, if_true]
    have : e.left = [] := by
      have : e.left.length = 0 := by omega
      exact List.eq_nil_of_length_eq_zero this
    exact ⟨⟨by simp [RefEd.key, RefEd.line, this, h.line], by simp [RefEd.key, this, h0], h.hist, h.hidx, h.hle⟩, noBad_tag _⟩
  · have hnot : ¬ s.cursor > s.line.length := by omega
    simp only [h0, hnot, if_false]
    obtain ⟨c, l, hcl⟩ : ∃ c l, e.left = c :: l := by
      cases hL : e.left with
      | nil => simp [hL] at hc; omega
      | cons c l => exact ⟨c, l, rfl⟩
    have htake : s.line.take (s.cursor - 1) = l.reverse := by
      rw [h.line, h.cursor, RefEd.line, hcl]; simp [List.take_append]
    refine ⟨?_, ?_⟩
    · split <;> exact ⟨by simp [RefEd.key, RefEd.line, htake, rel_drop h, hcl], by simp [RefEd.key, hc, hcl], h.hist, h.hidx, h.hle⟩
    · split
      · exact noBad_tag_tx _ _ _
      · exact noBad_tag _

theorem onDelete_rel {s e} (h : Rel s e) :
    Rel (onDelete s).1 (e.key .delete) ∧ noBad (onDelete s).2 := by
  have hl := rel_len h
  have hc := h.cursor
  unfold onDelete
  by_cases h0 : s.cursor ≥ s.line.length
  · simp only [h0, if_true]
    have : e.right = [] := List.eq_nil_of_length_eq_zero (by omega)
    exact ⟨⟨by simp [RefEd.key, RefEd.line, this, h.line], by simp [RefEd.key, hc], h.hist, h.hidx, h.hle⟩, noBad_tag _⟩
  · simp only [h0, if_false]
    have hdrop : s.line.drop (s.cursor + 1) = e.right.tail := by
      rw [← List.drop_drop, rel_drop h]; simp
    refine ⟨?_, ?_⟩
    · split <;> exact ⟨by simp [RefEd.key, RefEd.line, rel_take h, hdrop], by simp [RefEd.key, hc], h.hist, h.hidx, h.hle⟩
    · split
      · exact noBad_tag_tx _ _ _
      · exact noBad_tag _

theorem onLeft_rel {s e} (h : Rel s e) : Rel (onLeft s).1 (e.key .left) ∧ noBad (onLeft s).2 := by
  have hc := h.cursor
  unfold onLeft
  cases hL : e.left with
  | nil =>
    have : s.cursor = 0 := by simp [hL] at hc; exact hc
    have hk : e.key .left = e := by simp [RefEd.key, hL]
    simp only [this, if_true]; rw [hk]
    exact ⟨h, noBad_nil⟩
  | cons c l =>
    have : s.cursor ≠ 0 := by simp [hL] at hc; omega
    have hk : e.key .left = { e with left := l, right := c :: e.right } := by simp [RefEd.key, hL]
    simp only [this, if_false]; rw [hk]
    exact ⟨⟨by simp [hL, h.line, RefEd.line], by simp [hL, hc], h.hist, h.hidx, h.hle⟩, noBad_tx _ _⟩

theorem onRight_rel {s e} (h : Rel s e) : Rel (onRight s).1 (e.key .right) ∧ noBad (onRight s).2 := by
  have hc := h.cursor
  have hl := rel_len h
  unfold onRight
  cases hR : e.right with
  | nil =>
    have : s.cursor ≥ s.line.length := by simp [hR] at hl; omega
    have hk : e.key .right = e := by simp [RefEd.key, hR]
    simp only [this, if_true]; rw [hk]
    exact ⟨h, noBad_nil⟩
  | cons c r =>
    have : ¬ s.cursor ≥ s.line.length := by simp [hR] at hl; omega
    have hk : e.key .right = { e with left := c :: e.left, right := r } := by simp [RefEd.key, hR]
    simp only [this, if_false]; rw [hk]
    exact ⟨⟨by simp [hR, h.line, RefEd.line], by simp [hc], h.hist, h.hidx, h.hle⟩, noBad_tx _ _⟩

theorem onHome_rel {s e} (h : Rel s e) : Rel (onHome s).1 (e.key .home) ∧ noBad (onHome s).2 := by
  unfold onHome
  exact ⟨⟨by simp [RefEd.key, h.line, RefEd.line], by simp [RefEd.key], h.hist, h.hidx, h.hle⟩, noBad_tx _ _⟩

theorem onEnd_rel {s e} (h : Rel s e) : Rel (onEnd s).1 (e.key .endKey) ∧ noBad (onEnd s).2 := by
  have hc := h.cursor
  have hl := rel_len h
  unfold onEnd
  split
  · exact ⟨⟨by simp [RefEd.key, h.line, RefEd.line], by simp [RefEd.key, h.line, RefEd.line]; omega, h.hist, h.hidx, h.hle⟩, noBad_tx _ _⟩
  · have : e.right = [] := List.eq_nil_of_length_eq_zero (by omega)
    exact ⟨⟨by simp [RefEd.key, h.line, RefEd.line, this], by simp [RefEd.key, RefEd.line, this, hc], h.hist, h.hidx, h.hle⟩, noBad_nil⟩

theorem onUp_rel {s e} (h : Rel s e) : Rel (onUp s).1 (e.key .up) ∧ noBad (onUp s).2 := by
  have hle := h.hle
  unfold onUp
  by_cases htop : s.hidx = s.hist.length
  · simp only [htop, if_true]
    have : recent e.hist (e.hidx + 1) = none := by
      unfold recent; simp [← h.hist, ← h.hidx, htop]
    have hk : e.key .up = e := by simp [RefEd.key, this]
    rw [hk]; exact ⟨h, noBad_tag _⟩
  · have hlt : ¬ s.hidx + 1 > s.hist.length := by omega
    simp only [htop, hlt, if_false]
    have hrec := recent_eq s.hist (s.hidx + 1) (by omega) (by omega)
    have hidx : s.hist.length - (s.hidx + 1) < s.hist.length := by omega
    rw [List.getElem?_eq_getElem hidx] at hrec ⊢
    simp only
    have hrec' : recent e.hist (e.hidx + 1) = some s.hist[s.hist.length - (s.hidx + 1)] := by
      rw [← h.hist, ← h.hidx]; exact hrec
    have hk : e.key .up = { e with left := (s.hist[s.hist.length - (s.hidx + 1)]).reverse, right := [], hidx := e.hidx + 1 } := by
      simp [RefEd.key, hrec']
    rw [hk]
    exact ⟨⟨by simp [RefEd.line], by simp, h.hist, by simp [h.hidx], by simp; omega⟩, noBad_tag_tx _ _ _⟩

theorem onDown_rel {s e} (h : Rel s e) : Rel (onDown s).1 (e.key .down) ∧ noBad (onDown s).2 := by
  have hle := h.hle
  unfold onDown
  by_cases h0 : s.hidx = 0
  · simp only [h0, if_true]
    have : e.hidx = 0 := by rw [← h.hidx]; exact h0
    have hk : e.key .down = e := by simp [RefEd.key, this]
    rw [hk]; exact ⟨h, noBad_tag _⟩
  · simp only [h0, if_false]
    have he0 : e.hidx ≠ 0 := by rw [← h.hidx]; exact h0
    by_cases h1 : s.hidx - 1 > 0
    · have hlt : ¬ s.hidx - 1 > s.hist.length := by omega
      simp only [h1, hlt, if_true, if_false]
      have hrec := recent_eq s.hist (s.hidx - 1) (by omega) (by omega)
      have hidx : s.hist.length - (s.hidx - 1) < s.hist.length := by omega
      rw [List.getElem?_eq_getElem hidx] at hrec ⊢
      simp only
      have he1 : e.hidx ≠ 1 := by rw [← h.hidx]; omega
      have hrec' : recent e.hist (e.hidx - 1) = some s.hist[s.hist.length - (s.hidx - 1)] := by
        rw [← h.hist, ← h.hidx]; exact hrec
      have hk : e.key .down = { e with left := (s.hist[s.hist.length - (s.hidx - 1)]).reverse, right := [], hidx := e.hidx - 1 } := by
        simp [RefEd.key, he0, he1, hrec']
      rw [hk]
      exact ⟨⟨by simp [RefEd.line], by simp, h.hist, by simp [h.hidx], by simp; omega⟩, noBad_tag_tx _ _ _⟩
    · simp only [h1, if_false]
      have he1 : e.hidx = 1 := by rw [← h.hidx]; omega
      have hk : e.key .down = { e with left := [], right := [], hidx := 0 } := by simp [RefEd.key, he1]
      rw [hk]
      exact ⟨⟨by simp [RefEd.line], by simp, h.hist, by simp, by simp⟩, noBad_tag_tx _ _ _⟩

theorem onKey_rel (cfg : Cfg) (ns : Nodes) (feed : Feed) {s : St} {e : RefEd} (h : Rel s e) (k : Key) (hk : k ≠ .enter) :
    Rel (onKey cfg ns feed s k).1 (e.key k) ∧ noBad (onKey cfg ns feed s k).2 := by
  cases k with
  | char c => exact onChar_rel h c
  | enter => exact absurd rfl hk
  | backspace => exact onBackspace_rel h
  | tab => exact ⟨h, noBad_nil⟩
  | up => exact onUp_rel h
  | down => exact onDown_rel h
  | left => exact onLeft_rel h
  | right => exact onRight_rel h
  | home => exact onHome_rel h
  | endKey => exact onEnd_rel h
  | delete => exact onDelete_rel h

theorem runKeys_rel (cfg : Cfg) (ns : Nodes) (feed : Feed) (s : St) (e : RefEd) (ks : List Key) (h : Rel s e)
    (hne : Key.enter ∉ ks) : Rel (runKeys cfg ns feed s ks).1 (e.run ks) ∧ noBad (runKeys cfg ns feed s ks).2 := by
  induction ks generalizing s e with
  | nil => exact ⟨h, noBad_nil⟩
  | cons k ks ih =>
    have hk : k ≠ .enter := fun hh => hne (hh ▸ List.mem_cons_self)
    have h1 := onKey_rel cfg ns feed h k hk
    have h2 := ih (onKey cfg ns feed s k).1 (e.key k) h1.1 (fun hh => hne (List.mem_cons_of_mem _ hh))
    exact ⟨h2.1, noBad_append h1.2 h2.2⟩

end Tbox.C13
