/- C13 helper definitions and lemmas for the scanner theorems: `walk` follows one key encoding through
   the generated table; `walk_scan` lifts a per-encoding fact to the scanning loop of `onRecvString`. -/
import TboxModel.C13.Spec
namespace Tbox.C13

/-- follow an encoding from state `st`: every byte but the last must be `kUnsure`, the last `kEnsure` -/
def walk (st : Nat) : Str → Option Res
  | [] => none
  | [b] => (match scanNext st b with | .ensure r => some r | _ => none)
  | b :: b' :: bs => (match scanNext st b with | .unsure n => walk n (b' :: bs) | _ => none)

/-- the key encodings documented in key_event_scanner.h (F9–F12 as in key_event_scanner_test.cpp and
xterm: the header comment repeats `1b 5b 31 ..` for F10–F12, a typo) -/
def documented : List (Str × Res) := [
  ([9], .tab), ([127], .backspace), ([8], .backspace), ([10], .enter), ([13, 10], .enter), ([13, 0], .enter),
  ([27, 91, 65], .up), ([27, 91, 66], .down), ([27, 91, 67], .right), ([27, 91, 68], .left),
  ([27, 91, 49, 126], .home), ([27, 91, 50, 126], .insert), ([27, 91, 51, 126], .delete), ([27, 91, 52, 126], .endKey),
  ([27, 91, 53, 126], .pageup), ([27, 91, 54, 126], .pagedown),
  ([27, 79, 80], .f1), ([27, 79, 81], .f2), ([27, 79, 82], .f3), ([27, 79, 83], .f4),
  ([27, 91, 49, 53, 126], .f5), ([27, 91, 49, 55, 126], .f6), ([27, 91, 49, 56, 126], .f7), ([27, 91, 49, 57, 126], .f8),
  ([27, 91, 50, 48, 126], .f9), ([27, 91, 50, 49, 126], .f10), ([27, 91, 50, 51, 126], .f11), ([27, 91, 50, 52, 126], .f12),
  ([27, 120], .altplus), ([194, 129], .ctrlaltplus)]

/-- the editing keys with their documented encodings -/
def documentedKeys : List (Str × Key) := [
  ([9], .tab), ([127], .backspace), ([8], .backspace), ([10], .enter), ([13, 10], .enter), ([13, 0], .enter),
  ([27, 91, 65], .up), ([27, 91, 66], .down), ([27, 91, 67], .right), ([27, 91, 68], .left),
  ([27, 91, 49, 126], .home), ([27, 91, 51, 126], .delete), ([27, 91, 52, 126], .endKey)]

/-- `e` is a documented, complete encoding of key `k` -/
def encOk (p : Str × Key) : Bool :=
  match p.2 with
  | .char c => p.1 == [c] && decide (32 ≤ c.toNat) && decide (c.toNat ≤ 126)
  | _ => documentedKeys.contains p

theorem walk_scan (st : Nat) (e : Str) (r : Res) (h : walk st e = some r) (u : Bool) (rest : Str) :
    ∃ last, e.getLast? = some last ∧ scan st u (e ++ rest) = (r, last) :: scan 0 false rest := by
  induction e generalizing st u with
  | nil => simp [walk] at h
  | cons b bs ih =>
    cases bs with
    | nil =>
      simp only [walk] at h
      refine ⟨b, rfl, ?_⟩
      cases hn : scanNext st b with
      | ensure r' => simp [hn] at h; subst h; simp [scan, hn]
      | unsure n => simp [hn] at h
      | fail n => simp [hn] at h
    | cons b' bs' =>
      simp only [walk] at h
      cases hn : scanNext st b with
      | ensure r' => simp [hn] at h
      | fail n => simp [hn] at h
      | unsure n =>
        simp only [hn] at h
        obtain ⟨last, hl, hs⟩ := ih n h true
        refine ⟨last, by simpa using hl, ?_⟩
        have hs' : scan n true (b' :: (bs' ++ rest)) = (r, last) :: scan 0 false rest := by simpa using hs
        show scan st u (b :: b' :: (bs' ++ rest)) = _
        rw [scan, hn]; exact hs'

theorem printable_walk : ∀ n, n < 256 → 32 ≤ n → n ≤ 126 → walk 0 [UInt8.ofNat n] = some .printable := by
  decide +kernel

theorem documentedKeys_walk : ∀ p ∈ documentedKeys, (walk 0 p.1).bind (fun r => toKey (r, 0)) = some p.2 := by
  decide +kernel

theorem toKey_byte (r : Res) (b : UInt8) (hr : r ≠ .printable) : toKey (r, b) = toKey (r, 0) := by
  cases r <;> simp_all [toKey]

/-- one documented key encoding at the head of a segment is decoded to its key and the scanner restarts -/
theorem scan_key (p : Str × Key) (h : encOk p = true) (u : Bool) (rest : Str) :
    (scan 0 u (p.1 ++ rest)).filterMap toKey = p.2 :: (scan 0 false rest).filterMap toKey := by
  obtain ⟨e, k⟩ := p
  cases k with
  | char c =>
    simp only [encOk, Bool.and_eq_true, beq_iff_eq, decide_eq_true_eq] at h
    obtain ⟨⟨he, h1⟩, h2⟩ := h
    subst he
    have hw := printable_walk c.toNat (UInt8.toNat_lt c) h1 h2
    rw [UInt8.ofNat_toNat] at hw
    obtain ⟨last, hl, hs⟩ := walk_scan 0 [c] .printable hw u rest
    simp at hl; subst hl
    have hs' : scan 0 u (c :: rest) = (Res.printable, c) :: scan 0 false rest := by simpa using hs
    show List.filterMap toKey (scan 0 u (c :: rest)) = _
    rw [hs']; simp [toKey]
  | _ =>
    all_goals (
      simp only [encOk] at h
      have hm := List.contains_iff_mem.mp h
      have hw := documentedKeys_walk _ hm
      simp only at hw
      cases hwr : walk 0 e with
      | none => simp [hwr] at hw
      | some r =>
        simp only [hwr, Option.bind_some] at hw
        have hne : r ≠ .printable := by intro hh; subst hh; simp [toKey] at hw
        obtain ⟨last, _, hs⟩ := walk_scan 0 e r hwr u rest
        simp only [hs, List.filterMap_cons, toKey_byte r last hne, hw])

theorem scanStop_zero : scanStop 0 = none := by decide +kernel

theorem recvKeys_decodes (l : List (Str × Key)) (h : ∀ p ∈ l, encOk p = true) (u : Bool) :
    (scan 0 u (l.flatMap (·.1))).filterMap toKey = l.map (·.2) := by
  induction l generalizing u with
  | nil => cases u <;> simp [scan, scanStop_zero]
  | cons p l ih =>
    simp only [List.flatMap_cons, List.map_cons]
    rw [scan_key p (h p List.mem_cons_self) u, ih (fun q hq => h q (List.mem_cons_of_mem _ hq)) false]


theorem recvKeys_decodes_cr (l : List (Str × Key)) (h : ∀ p ∈ l, encOk p = true) (u : Bool) :
    (scan 0 u (l.flatMap (·.1) ++ [13])).filterMap toKey = l.map (·.2) ++ [.enter] := by
  induction l generalizing u with
  | nil => cases u <;> decide +kernel
  | cons p l ih =>
    simp only [List.flatMap_cons, List.map_cons, List.append_assoc, List.cons_append]
    rw [scan_key p (h p List.mem_cons_self) u, ih (fun q hq => h q (List.mem_cons_of_mem _ hq)) false]

/-! ### only glyphs ever reach the edit line -/

theorem table_printable_plain :
    (∀ row ∈ Gen.rows, ∀ e ∈ row, e.2 = Tr.ensure .printable → 32 ≤ e.1 ∧ e.1 ≤ 126) ∧
    (∀ o ∈ Gen.stops, o ≠ some Res.printable) := by
  decide +kernel

theorem lookup_mem {β} (k : Nat) (v : β) : ∀ (l : List (Nat × β)), l.lookup k = some v → (k, v) ∈ l
  | [], h => by simp [List.lookup] at h
  | (k', v') :: l, h => by
    simp only [List.lookup] at h
    by_cases hk : k = k'
    · subst hk; simp at h; subst h; exact List.mem_cons_self
    · have : (k == k') = false := by simpa using hk
      simp only [this] at h
      exact List.mem_cons_of_mem _ (lookup_mem k v l h)

theorem scanNext_printable (st : Nat) (b : UInt8) (h : scanNext st b = .ensure .printable) : plain b = true := by
  unfold scanNext at h
  cases hl : (Gen.rows.getD st []).lookup b.toNat with
  | none => rw [hl] at h; cases h
  | some t =>
    rw [hl] at h; simp only at h; subst h
    have hm := lookup_mem _ _ _ hl
    have hrow : Gen.rows.getD st [] ∈ Gen.rows := by
      by_cases hst : st < Gen.rows.length
      · rw [List.getD_eq_getElem?_getD, List.getElem?_eq_getElem hst]; exact List.getElem_mem hst
      · rw [List.getD_eq_getElem?_getD, List.getElem?_eq_none (by omega)] at hm; simp at hm
    have := table_printable_plain.1 _ hrow _ hm rfl
    simp only [plain, Bool.and_eq_true, decide_eq_true_eq]
    have hb := UInt8.toNat_lt b
    constructor
    · show (32 : UInt8).toNat ≤ b.toNat; exact this.1
    · show b.toNat ≤ (126 : UInt8).toNat; exact this.2

theorem scanStop_not_printable (st : Nat) : scanStop st ≠ some .printable := by
  unfold scanStop
  by_cases hst : st < Gen.stops.length
  · rw [List.getD_eq_getElem?_getD, List.getElem?_eq_getElem hst]
    exact table_printable_plain.2 _ (List.getElem_mem hst)
  · rw [List.getD_eq_getElem?_getD, List.getElem?_eq_none (by omega)]; simp

theorem scan_printable_plain (bs : Str) : ∀ (st : Nat) (u : Bool), ∀ p ∈ scan st u bs, p.1 = .printable → plain p.2 = true := by
  induction bs with
  | nil =>
    intro st u p hp hpr
    unfold scan at hp
    cases u with
    | false => simp at hp
    | true =>
      cases hs : scanStop st with
      | none => simp [hs] at hp
      | some r =>
        simp [hs] at hp; subst hp
        simp only at hpr; subst hpr
        exact absurd hs (scanStop_not_printable st)
  | cons b bs ih =>
    intro st u p hp hpr
    unfold scan at hp
    cases hn : scanNext st b with
    | ensure r =>
      simp only [hn] at hp
      rcases List.mem_cons.mp hp with h | h
      · subst h; simp only at hpr; subst hpr; exact scanNext_printable st b hn
      · exact ih 0 false p h hpr
    | unsure n => simp only [hn] at hp; exact ih n true p hp hpr
    | fail n => simp only [hn] at hp; exact ih n false p hp hpr

theorem recvKeys_plain (bs : Str) (c : UInt8) (h : Key.char c ∈ recvKeys bs) : plain c = true := by
  unfold recvKeys at h
  obtain ⟨p, hp, hk⟩ := List.mem_filterMap.mp h
  obtain ⟨r, b⟩ := p
  cases r <;> simp [toKey] at hk
  subst hk
  exact scan_printable_plain bs 0 true _ hp rfl

end Tbox.C13
