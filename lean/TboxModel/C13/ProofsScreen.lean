/- C13 helper lemmas for `C13_screen_matches_editor`: what the reference terminal row makes of the
   echo / redraw bytes of every editing key. -/
import TboxModel.C13.ProofsEditor
namespace Tbox.C13

theorem feed_append (r : Scr) (a b : Str) : r.feed (a ++ b) = (r.feed a).feed b := by
  induction a generalizing r with
  | nil => rfl
  | cons x xs ih => simp [Scr.feed, ih]

theorem plain_ne {c : UInt8} (h : plain c = true) : c ≠ 8 ∧ c ≠ 27 ∧ c ≠ 13 ∧ c ≠ 10 := by
  simp only [plain, Bool.and_eq_true, decide_eq_true_eq] at h
  refine ⟨?_, ?_, ?_, ?_⟩ <;> (intro hh; subst hh; exact absurd h.1 (by decide))

theorem byte_plain (r : Scr) (c : UInt8) (h : plain c = true) (he : r.esc = 0) : r.byte c = r.put c := by
  obtain ⟨h1, h2, h3, h4⟩ := plain_ne h
  simp [Scr.byte, he, h1, h2, h3, h4]

/-- a glyph written inside (or at the end of) the row -/
theorem put_at (A B : Str) (c : UInt8) (m : Nat) :
    ({ row := A ++ B, col := A.length, esc := 0, maxc := m } : Scr).put c =
      { row := (A ++ [c]) ++ B.drop 1, col := (A ++ [c]).length, esc := 0, maxc := max m (A.length + 1) } := by
  have h1 : List.drop (A.length + 1) (A ++ B) = B.drop 1 := by
    rw [← List.drop_drop]; simp
  simp [Scr.put, h1]

/-- writing glyphs over the row: they replace what stood there -/
theorem feed_plain (w : Str) (hw : ∀ c ∈ w, plain c = true) (A B : Str) (m : Nat) (hm : A.length ≤ m) :
    ({ row := A ++ B, col := A.length, esc := 0, maxc := m } : Scr).feed w =
      { row := A ++ w ++ B.drop w.length, col := A.length + w.length, esc := 0, maxc := max m (A.length + w.length) } := by
  induction w generalizing A B m with
  | nil =>
    have : max m A.length = m := by omega
    simp [Scr.feed, this]
  | cons c w ih =>
    have hc : plain c = true := hw c List.mem_cons_self
    have hw' : ∀ x ∈ w, plain x = true := fun x hx => hw x (List.mem_cons_of_mem _ hx)
    simp only [Scr.feed]
    rw [byte_plain _ c hc rfl, put_at, ih hw' (A ++ [c]) (B.drop 1) _ (by simp; omega)]
    have : max (max m (A.length + 1)) (A.length + 1 + w.length) = max m (A.length + (w.length + 1)) := by omega
    simp [Nat.add_comm, Nat.add_left_comm]

theorem feed_bs (n : Nat) (r : Scr) (h : r.esc = 0) : r.feed (List.replicate n 8) = { r with col := r.col - n } := by
  induction n generalizing r with
  | zero => rfl
  | succ n ih =>
    simp only [List.replicate_succ, Scr.feed]
    have : r.byte 8 = { r with col := r.col - 1 } := by simp [Scr.byte, h]
    rw [this, ih { r with col := r.col - 1 } h]
    simp; omega

theorem rep_succ (n : Nat) (bs : Str) : rep (n + 1) bs = bs ++ rep n bs := by
  simp [rep, List.replicate_succ]

theorem feed_left1 (r : Scr) (h : r.esc = 0) : r.feed Msg.moveLeft = { r with col := r.col - 1 } := by
  simp [Msg.moveLeft, Scr.feed, Scr.byte, h]

theorem feed_right1 (r : Scr) (h : r.esc = 0) :
    r.feed Msg.moveRight = { r with col := r.col + 1, maxc := max r.maxc (r.col + 1) } := by
  simp [Msg.moveRight, Scr.feed, Scr.byte, h]

theorem feed_lefts (n : Nat) (r : Scr) (h : r.esc = 0) : r.feed (rep n Msg.moveLeft) = { r with col := r.col - n } := by
  induction n generalizing r with
  | zero => rfl
  | succ n ih =>
    rw [rep_succ, feed_append, feed_left1 r h, ih { r with col := r.col - 1 } h]
    simp; omega

theorem feed_rights (n : Nat) (r : Scr) (h : r.esc = 0) (hm : r.col ≤ r.maxc) :
    r.feed (rep n Msg.moveRight) = { r with col := r.col + n, maxc := max r.maxc (r.col + n) } := by
  induction n generalizing r with
  | zero =>
    have : max r.maxc r.col = r.maxc := by omega
    simp [rep, Scr.feed, this]
  | succ n ih =>
    rw [rep_succ, feed_append, feed_right1 r h,
      ih { r with col := r.col + 1, maxc := max r.maxc (r.col + 1) } h (by simp; omega)]
    simp; omega

/-- `"\b \b"` n times from the end of `X`: `X` is rubbed out -/
theorem feed_bsb (n : Nat) : ∀ (A X B : Str) (m : Nat), X.length = n → A.length + n ≤ m →
    ({ row := A ++ X ++ B, col := A.length + n, esc := 0, maxc := m } : Scr).feed (rep n Msg.bsb) =
      { row := A ++ List.replicate n 32 ++ B, col := A.length, esc := 0, maxc := m } := by
  induction n with
  | zero =>
    intro A X B m hX _
    have : X = [] := List.eq_nil_of_length_eq_zero hX
    simp [this, rep, Scr.feed]
  | succ n ih =>
    intro A X B m hX hm
    rcases List.eq_nil_or_concat X with hnil | ⟨X', x, hx⟩
    · simp [hnil] at hX
    · rw [List.concat_eq_append] at hx
      subst hx
      have hX' : X'.length = n := by simpa using hX
      rw [rep_succ, feed_append]
      have step : ({ row := A ++ (X' ++ [x]) ++ B, col := A.length + (n + 1), esc := 0, maxc := m } : Scr).feed Msg.bsb =
          { row := A ++ X' ++ (32 :: B), col := A.length + n, esc := 0, maxc := m } := by
        have e1 : A ++ (X' ++ [x]) ++ B = (A ++ X') ++ (x :: B) := by simp
        have e2 : A.length + n = (A ++ X').length := by simp [hX']
        have hmm : max m ((A ++ X').length + 1) = m := by simp [hX']; omega
        simp only [Msg.bsb, Scr.feed]
        have b1 : ({ row := A ++ (X' ++ [x]) ++ B, col := A.length + (n + 1), esc := 0, maxc := m } : Scr).byte 8 =
            { row := (A ++ X') ++ (x :: B), col := (A ++ X').length, esc := 0, maxc := m } := by
          simp [Scr.byte, hX']
        rw [b1, byte_plain _ 32 (by decide) rfl, put_at, hmm]
        simp [Scr.byte, hX']
      rw [step, ih A X' (32 :: B) m hX' (by omega)]
      simp [List.replicate_succ']

theorem plain32 : plain 32 = true := by decide

theorem plain_append {a b : Str} (ha : ∀ c ∈ a, plain c = true) (hb : ∀ c ∈ b, plain c = true) :
    ∀ c ∈ a ++ b, plain c = true := by
  intro c hc; rcases List.mem_append.mp hc with h | h
  · exact ha c h
  · exact hb c h

theorem drop_pad (R : Str) (n k : Nat) :
    List.drop (R.length + k) (R ++ List.replicate n (32 : UInt8)) = List.replicate (n - k) 32 := by
  rw [← List.drop_drop]; simp

/-- echo of a character typed at the cursor -/
theorem scr_char (pre L R : Str) (n m : Nat) (c : UInt8) (hc : plain c = true) (hR : ∀ x ∈ R, plain x = true)
    (hm : (pre ++ L).length ≤ m) :
    ({ row := (pre ++ L) ++ (R ++ List.replicate n 32), col := (pre ++ L).length, esc := 0, maxc := m } : Scr).feed
        (c :: (R ++ List.replicate R.length 8)) =
      { row := (pre ++ (L ++ [c])) ++ (R ++ List.replicate (n - 1) 32), col := (pre ++ (L ++ [c])).length, esc := 0,
        maxc := max m ((pre ++ L).length + 1 + R.length) } := by
  simp only [Scr.feed]
  rw [byte_plain _ c hc rfl, put_at, feed_append,
    feed_plain R hR (pre ++ L ++ [c]) _ _ (by simp; omega), feed_bs _ _ rfl]
  have h1 : List.drop R.length (List.drop 1 (R ++ List.replicate n (32 : UInt8))) = List.replicate (n - 1) 32 := by
    rw [List.drop_drop, Nat.add_comm]; exact drop_pad R n 1
  have h2 : max (max m ((pre ++ L).length + 1)) ((pre ++ L ++ [c]).length + R.length) = max m ((pre ++ L).length + 1 + R.length) := by
    simp; omega
  simp only [h1, h2]
  simp

/-- redraw after Backspace -/
theorem scr_bs (pre L R : Str) (x : UInt8) (n m : Nat) (hR : ∀ y ∈ R, plain y = true)
    (hm : (pre ++ (L ++ [x])).length ≤ m) :
    ({ row := (pre ++ (L ++ [x])) ++ (R ++ List.replicate n 32), col := (pre ++ (L ++ [x])).length, esc := 0, maxc := m } : Scr).feed
        (8 :: (R ++ 32 :: List.replicate (R.length + 1) 8)) =
      { row := (pre ++ L) ++ (R ++ List.replicate (n + 1) 32), col := (pre ++ L).length, esc := 0,
        maxc := max m ((pre ++ L).length + (R.length + 1)) } := by
  simp only [Scr.feed]
  have b1 : ({ row := (pre ++ (L ++ [x])) ++ (R ++ List.replicate n 32), col := (pre ++ (L ++ [x])).length, esc := 0, maxc := m } : Scr).byte 8 =
      { row := (pre ++ L) ++ (x :: (R ++ List.replicate n 32)), col := (pre ++ L).length, esc := 0, maxc := m } := by
    simp [Scr.byte]
  have hw : ∀ y ∈ R ++ [32], plain y = true := plain_append hR (by intro y hy; simp at hy; subst hy; exact plain32)
  have e : R ++ 32 :: List.replicate (R.length + 1) 8 = (R ++ [32]) ++ List.replicate (R.length + 1) 8 := by simp
  rw [b1, e, feed_append, feed_plain _ hw (pre ++ L) _ _ (by simp at hm ⊢; omega), feed_bs _ _ rfl]
  have h1 : List.drop (R ++ [32]).length (x :: (R ++ List.replicate n (32 : UInt8))) = List.replicate n 32 := by
    simp
  simp only [h1]
  simp [List.replicate_succ]

/-- redraw after Delete -/
theorem scr_del (pre L R : Str) (x : UInt8) (n m : Nat) (hR : ∀ y ∈ R, plain y = true)
    (hm : (pre ++ L).length ≤ m) :
    ({ row := (pre ++ L) ++ (x :: R ++ List.replicate n 32), col := (pre ++ L).length, esc := 0, maxc := m } : Scr).feed
        (R ++ 32 :: List.replicate (R.length + 1) 8) =
      { row := (pre ++ L) ++ (R ++ List.replicate (n + 1) 32), col := (pre ++ L).length, esc := 0,
        maxc := max m ((pre ++ L).length + (R.length + 1)) } := by
  have hw : ∀ y ∈ R ++ [32], plain y = true := plain_append hR (by intro y hy; simp at hy; subst hy; exact plain32)
  have e : R ++ 32 :: List.replicate (R.length + 1) 8 = (R ++ [32]) ++ List.replicate (R.length + 1) 8 := by simp
  rw [e, feed_append, feed_plain _ hw (pre ++ L) _ _ hm, feed_bs _ _ rfl]
  have h1 : List.drop (R ++ [32]).length (x :: R ++ List.replicate n (32 : UInt8)) = List.replicate n 32 := by
    simp
  simp only [h1]
  simp [List.replicate_succ]

/-- `CleanupInput` followed by the history line that replaces the input -/
theorem scr_replace (pre L R l : Str) (n m : Nat) (hl : ∀ y ∈ l, plain y = true) (hm : (pre ++ L).length ≤ m) :
    ({ row := (pre ++ L) ++ (R ++ List.replicate n 32), col := (pre ++ L).length, esc := 0, maxc := m } : Scr).feed
        (rep R.length Msg.moveRight ++ rep (L.length + R.length) Msg.bsb ++ l) =
      { row := (pre ++ l) ++ List.replicate (L.length + R.length + n - l.length) 32, col := (pre ++ l).length, esc := 0,
        maxc := max (max m ((pre ++ L).length + R.length)) (pre.length + l.length) } := by
  rw [feed_append, feed_append, feed_rights _ _ rfl hm]
  have e1 : (pre ++ L) ++ (R ++ List.replicate n (32 : UInt8)) = pre ++ (L ++ R) ++ List.replicate n 32 := by simp
  have e2 : (pre ++ L).length + R.length = pre.length + (L.length + R.length) := by simp; omega
  simp only [e1, e2]
  rw [feed_bsb (L.length + R.length) pre (L ++ R) _ _ (by simp) (by omega)]
  have e3 : pre ++ List.replicate (L.length + R.length) (32 : UInt8) ++ List.replicate n 32 =
      pre ++ List.replicate (L.length + R.length + n) 32 := by simp [List.replicate_append_replicate]
  rw [e3, feed_plain l hl pre _ _ (by omega)]
  simp

/-! ### the session level -/

/-- the terminal row shows `pre ++ line` (then blanks), the terminal's cursor stands where the editor's
cursor is, and everything that can come onto the line consists of glyphs -/
structure Shows (pre : Str) (s : St) (r : Scr) : Prop where
  esc : r.esc = 0
  col : r.col = pre.length + s.cursor
  row : ∃ n, r.row = pre ++ s.line ++ List.replicate n 32
  cur : s.cursor ≤ s.line.length
  plainLine : ∀ c ∈ s.line, plain c = true
  plainHist : ∀ l ∈ s.hist, ∀ c ∈ l, plain c = true
  hidx : s.hidx ≤ s.hist.length
  mx : r.col ≤ r.maxc

/-- what one key must achieve -/
structure KeyOk (pre : Str) (s : St) (r : Scr) (o : St × List Ev) : Prop where
  shows : Shows pre o.1 (r.feed (txBytes o.2))
  width : (r.feed (txBytes o.2)).maxc ≤ max r.maxc (pre.length + max s.line.length o.1.line.length)
  opts : o.1.opts = s.opts

theorem shows_split {pre : Str} {s : St} {r : Scr} (h : Shows pre s r) :
    ∃ L R n m, s.line = L ++ R ∧ s.cursor = L.length ∧
      r = { row := (pre ++ L) ++ (R ++ List.replicate n 32), col := (pre ++ L).length, esc := 0, maxc := m } ∧
      (pre ++ L).length ≤ m := by
  obtain ⟨n, hn⟩ := h.row
  refine ⟨s.line.take s.cursor, s.line.drop s.cursor, n, r.maxc, by simp, ?_, ?_, ?_⟩
  · simp [List.length_take, Nat.min_eq_left h.cur]
  · obtain ⟨row, col, esc, maxc⟩ := r
    have h1 := h.esc; have h2 := h.col
    simp only at hn h1 h2
    subst hn h1 h2
    simp [List.length_take, Nat.min_eq_left h.cur]
    rw [← List.append_assoc, List.take_append_drop]
  · have := h.mx; rw [h.col] at this
    simp [List.length_take, Nat.min_eq_left h.cur]; exact this

theorem mem_of_getElem? {l : List Str} {i : Nat} {x : Str} (h : l[i]? = some x) : x ∈ l :=
  List.mem_of_getElem? h

theorem key_char {pre : Str} {s : St} {r : Scr} (h : Shows pre s r) (he : s.echo = true) (c : UInt8)
    (hc : plain c = true) : KeyOk pre s r (onChar s c) := by
  obtain ⟨L, R, n, m, hl, hcur, hr, hm⟩ := shows_split h
  have hpl := h.plainLine; have hph := h.plainHist; have hix := h.hidx
  obtain ⟨line, cursor, hist, hidx, opts, path⟩ := s
  simp only at hl hcur hpl hph hix
  subst hl hcur hr
  have hR : ∀ x ∈ R, plain x = true := fun x hx => hpl x (List.mem_append_right _ hx)
  have hLp : ∀ x ∈ L, plain x = true := fun x hx => hpl x (List.mem_append_left _ hx)
  have hnot : ¬ L.length > (L ++ R).length := by simp
  have d1 : List.drop (L.length + 1) (L ++ c :: R) = R := by rw [← List.drop_drop]; simp
  have l1 : (L ++ c :: R).length - (L.length + 1) = R.length := by simp; omega
  unfold onChar
  simp only [hnot, he, if_true, if_false, List.take_left', List.drop_left', d1, l1]
  have hs := scr_char pre L R n m c hc hR hm
  refine ⟨?_, ?_, rfl⟩
  · dsimp only [txBytes]; rw [List.append_nil, hs]
    refine ⟨rfl, by simp <;> omega, ⟨n - 1, by simp⟩, by simp, ?_, hph, hix, by simp <;> omega⟩
    intro x hx; simp at hx
    rcases hx with hx | hx | hx
    · exact hLp x hx
    · subst hx; exact hc
    · exact hR x hx
  · dsimp only [txBytes]; rw [List.append_nil, hs]; simp; omega

theorem keyok_nop {pre : Str} {s : St} {r : Scr} (h : Shows pre s r) (o : St × List Ev) (h1 : o.1 = s)
    (h2 : txBytes o.2 = []) : KeyOk pre s r o := by
  refine ⟨by rw [h1, h2]; exact h, by rw [h2]; simp [Scr.feed]; omega, by rw [h1]⟩

theorem key_backspace {pre : Str} {s : St} {r : Scr} (h : Shows pre s r) (he : s.echo = true) :
    KeyOk pre s r (onBackspace s) := by
  by_cases h0 : s.cursor = 0
  · exact keyok_nop h _ (by simp [onBackspace, h0]) (by simp [onBackspace, h0, txBytes])
  obtain ⟨L, R, n, m, hl, hcur, hr, hm⟩ := shows_split h
  have hpl := h.plainLine; have hph := h.plainHist; have hix := h.hidx
  obtain ⟨line, cursor, hist, hidx, opts, path⟩ := s
  simp only at hl hcur hpl hph hix h0
  subst hl hcur hr
  rcases List.eq_nil_or_concat L with hnil | ⟨L', x, hx⟩
  · simp [hnil] at h0
  rw [List.concat_eq_append] at hx
  subst hx
  have hR : ∀ y ∈ R, plain y = true := fun y hy => hpl y (List.mem_append_right _ hy)
  have hLp : ∀ y ∈ L', plain y = true := fun y hy => hpl y (List.mem_append_left _ (List.mem_append_left _ hy))
  have hnot : ¬ (L' ++ [x]).length > (L' ++ [x] ++ R).length := by simp
  have t1 : List.take ((L' ++ [x]).length - 1) (L' ++ [x] ++ R) = L' := by simp [List.take_append]
  have d1 : List.drop (L' ++ [x]).length (L' ++ [x] ++ R) = R := by simp
  have d2 : List.drop ((L' ++ [x]).length - 1) (L' ++ R) = R := by simp
  have l1 : (L' ++ R).length - ((L' ++ [x]).length - 1) + 1 = R.length + 1 := by simp
  unfold onBackspace
  simp only [h0, hnot, he, if_true, if_false, t1, d1, d2, l1]
  have hs := scr_bs pre L' R x n m hR hm
  refine ⟨?_, ?_, rfl⟩
  · dsimp only [txBytes]; rw [List.append_nil, hs]
    refine ⟨rfl, by simp, ⟨n + 1, by simp⟩, by simp, ?_, hph, hix, by simp <;> omega⟩
    intro y hy; rcases List.mem_append.mp hy with hy | hy
    · exact hLp y hy
    · exact hR y hy
  · dsimp only [txBytes]; rw [List.append_nil, hs]; simp; omega

theorem key_delete {pre : Str} {s : St} {r : Scr} (h : Shows pre s r) (he : s.echo = true) :
    KeyOk pre s r (onDelete s) := by
  by_cases h0 : s.cursor ≥ s.line.length
  · exact keyok_nop h _ (by simp [onDelete, h0]) (by simp [onDelete, h0, txBytes])
  obtain ⟨L, R, n, m, hl, hcur, hr, hm⟩ := shows_split h
  have hpl := h.plainLine; have hph := h.plainHist; have hix := h.hidx
  obtain ⟨line, cursor, hist, hidx, opts, path⟩ := s
  simp only at hl hcur hpl hph hix h0
  subst hl hcur hr
  cases R with
  | nil => simp at h0
  | cons x R' =>
  have hR : ∀ y ∈ R', plain y = true := fun y hy => hpl y (List.mem_append_right _ (List.mem_cons_of_mem _ hy))
  have hLp : ∀ y ∈ L, plain y = true := fun y hy => hpl y (List.mem_append_left _ hy)
  have d1 : List.drop (L.length + 1) (L ++ x :: R') = R' := by rw [← List.drop_drop]; simp
  have l1 : (L ++ R').length - L.length + 1 = R'.length + 1 := by simp
  unfold onDelete
  simp only [h0, he, if_true, if_false, List.take_left', List.drop_left', d1, l1]
  have hs := scr_del pre L R' x n m hR hm
  refine ⟨?_, ?_, rfl⟩
  · dsimp only [txBytes]; rw [List.append_nil, hs]
    refine ⟨rfl, by simp, ⟨n + 1, by simp⟩, by simp, ?_, hph, hix, by simp <;> omega⟩
    intro y hy; rcases List.mem_append.mp hy with hy | hy
    · exact hLp y hy
    · exact hR y hy
  · dsimp only [txBytes]; rw [List.append_nil, hs]; simp; omega

theorem key_left {pre : Str} {s : St} {r : Scr} (h : Shows pre s r) : KeyOk pre s r (onLeft s) := by
  by_cases h0 : s.cursor = 0
  · exact keyok_nop h _ (by simp [onLeft, h0]) (by simp [onLeft, h0, txBytes])
  have hs := feed_left1 r h.esc
  unfold onLeft
  simp only [h0, if_false]
  refine ⟨?_, ?_, rfl⟩
  · dsimp only [txBytes]; rw [List.append_nil, hs]
    exact ⟨h.esc, by have := h.col; simp; omega, h.row, by have := h.cur; simp; omega, h.plainLine, h.plainHist, h.hidx,
      by have := h.mx; simp; omega⟩
  · dsimp only [txBytes]; rw [List.append_nil, hs]; simp; omega

theorem key_right {pre : Str} {s : St} {r : Scr} (h : Shows pre s r) : KeyOk pre s r (onRight s) := by
  by_cases h0 : s.cursor ≥ s.line.length
  · exact keyok_nop h _ (by simp [onRight, h0]) (by simp [onRight, h0, txBytes])
  have hs := feed_right1 r h.esc
  unfold onRight
  simp only [h0, if_false]
  refine ⟨?_, ?_, rfl⟩
  · dsimp only [txBytes]; rw [List.append_nil, hs]
    exact ⟨h.esc, by have := h.col; simp; omega, h.row, by simp; omega, h.plainLine, h.plainHist, h.hidx, by simp; omega⟩
  · dsimp only [txBytes]; rw [List.append_nil, hs]
    have := h.col; have := h.mx; simp; omega

theorem key_home {pre : Str} {s : St} {r : Scr} (h : Shows pre s r) : KeyOk pre s r (onHome s) := by
  have hs := feed_lefts s.cursor r h.esc
  unfold onHome
  refine ⟨?_, ?_, rfl⟩
  · dsimp only [txBytes]; rw [List.append_nil, hs]
    exact ⟨h.esc, by have := h.col; simp; omega, h.row, by simp, h.plainLine, h.plainHist, h.hidx,
      by have := h.mx; simp; omega⟩
  · dsimp only [txBytes]; rw [List.append_nil, hs]; simp; omega

theorem key_end {pre : Str} {s : St} {r : Scr} (h : Shows pre s r) : KeyOk pre s r (onEnd s) := by
  by_cases h0 : s.cursor < s.line.length
  · have hs := feed_rights (s.line.length - s.cursor) r h.esc h.mx
    unfold onEnd
    simp only [h0, if_true]
    refine ⟨?_, ?_, rfl⟩
    · dsimp only [txBytes]; rw [List.append_nil, hs]
      exact ⟨h.esc, by have := h.col; simp; omega, h.row, by simp, h.plainLine, h.plainHist, h.hidx, by simp; omega⟩
    · dsimp only [txBytes]; rw [List.append_nil, hs]
      have := h.col; have := h.mx; simp; omega
  · exact keyok_nop h _ (by simp [onEnd, h0]) (by simp [onEnd, h0, txBytes])

/-- the input is replaced by `l` (a history line, or nothing) -/
theorem keyok_replace {pre : Str} {s : St} {r : Scr} (h : Shows pre s r) (l : Str) (hl : ∀ c ∈ l, plain c = true)
    (hidx' : Nat) (hle : hidx' ≤ s.hist.length) (t : String) :
    KeyOk pre s r ({ s with hidx := hidx', line := l, cursor := l.length }, [.tag t, .tx .echo (cleanupTx s ++ l)]) := by
  obtain ⟨L, R, n, m, hln, hcur, hr, hm⟩ := shows_split h
  have hph := h.plainHist
  obtain ⟨line, cursor, hist, hidx, opts, path, tree⟩ := s
  simp only at hln hcur hph hle
  subst hln hcur hr
  have c1 : cleanupTx { line := L ++ R, cursor := L.length, hist := hist, hidx := hidx, opts := opts, path := path, tree := tree } =
      rep R.length Msg.moveRight ++ rep (L.length + R.length) Msg.bsb := by
    have a : (L ++ R).length - L.length = R.length := by simp
    have b : max L.length (L ++ R).length = L.length + R.length := by simp
    simp only [cleanupTx, a, b]
  have hs := scr_replace pre L R l n m hl hm
  refine ⟨?_, ?_, rfl⟩
  · dsimp only [txBytes]; rw [List.append_nil, c1, hs]
    exact ⟨rfl, by simp, ⟨_, rfl⟩, by simp, hl, hph, hle, by simp <;> omega⟩
  · dsimp only [txBytes]; rw [List.append_nil, c1, hs]; simp; omega

theorem key_up {pre : Str} {s : St} {r : Scr} (h : Shows pre s r) : KeyOk pre s r (onUp s) := by
  have hle := h.hidx
  unfold onUp
  by_cases htop : s.hidx = s.hist.length
  · simp only [htop, if_true]
    exact keyok_nop h _ rfl rfl
  · have hlt : ¬ s.hidx + 1 > s.hist.length := by omega
    simp only [htop, hlt, if_false]
    have hidx : s.hist.length - (s.hidx + 1) < s.hist.length := by omega
    rw [List.getElem?_eq_getElem hidx]
    simp only
    exact keyok_replace h _ (h.plainHist _ (List.getElem_mem hidx)) _ (by omega) _

theorem key_down {pre : Str} {s : St} {r : Scr} (h : Shows pre s r) : KeyOk pre s r (onDown s) := by
  have hle := h.hidx
  unfold onDown
  by_cases h0 : s.hidx = 0
  · simp only [h0, if_true]
    exact keyok_nop h _ rfl rfl
  · simp only [h0, if_false]
    by_cases h1 : s.hidx - 1 > 0
    · have hlt : ¬ s.hidx - 1 > s.hist.length := by omega
      simp only [h1, hlt, if_true, if_false]
      have hidx : s.hist.length - (s.hidx - 1) < s.hist.length := by omega
      rw [List.getElem?_eq_getElem hidx]
      simp only
      exact keyok_replace h _ (h.plainHist _ (List.getElem_mem hidx)) _ (by omega) _
    · simp only [h1, if_false]
      have := keyok_replace h [] (by simp) 0 (by omega) "down-to-empty"
      simpa using this

theorem key_ok (cfg : Cfg) (ns : Nodes) (feed : Feed) {pre : Str} {s : St} {r : Scr} (h : Shows pre s r)
    (he : s.echo = true) (k : Key) (hk : k ≠ .enter) (hc : ∀ c, k = .char c → plain c = true) :
    KeyOk pre s r (onKey cfg ns feed s k) := by
  cases k with
  | char c => exact key_char h he c (hc c rfl)
  | enter => exact absurd rfl hk
  | backspace => exact key_backspace h he
  | tab => exact keyok_nop h _ rfl rfl
  | up => exact key_up h
  | down => exact key_down h
  | left => exact key_left h
  | right => exact key_right h
  | home => exact key_home h
  | endKey => exact key_end h
  | delete => exact key_delete h he

theorem txBytes_append (a b : List Ev) : txBytes (a ++ b) = txBytes a ++ txBytes b := by
  induction a with
  | nil => rfl
  | cons e a ih => cases e <;> simp [txBytes, ih]

theorem widest_ge (cfg : Cfg) (ns : Nodes) (feed : Feed) (s : St) (ks : List Key) :
    s.line.length ≤ widest cfg ns feed s ks := by
  cases ks with
  | nil => simp [widest]
  | cons k ks => simp only [widest]; omega

theorem runKeys_screen (cfg : Cfg) (ns : Nodes) (feed : Feed) (pre : Str) (ks : List Key) :
    ∀ (s : St) (r : Scr), Shows pre s r → s.echo = true → Key.enter ∉ ks →
      (∀ c, Key.char c ∈ ks → plain c = true) →
      Shows pre (runKeys cfg ns feed s ks).1 (r.feed (txBytes (runKeys cfg ns feed s ks).2)) ∧
      (r.feed (txBytes (runKeys cfg ns feed s ks).2)).maxc ≤ max r.maxc (pre.length + widest cfg ns feed s ks) := by
  induction ks with
  | nil =>
    intro s r h _ _ _
    exact ⟨h, by simp [runKeys, txBytes, Scr.feed]; omega⟩
  | cons k ks ih =>
    intro s r h he hne hc
    have hk : k ≠ .enter := fun hh => hne (hh ▸ List.mem_cons_self)
    have h1 := key_ok cfg ns feed h he k hk (fun c hh => hc c (hh ▸ List.mem_cons_self))
    have he' : (onKey cfg ns feed s k).1.echo = true := by
      have := h1.opts; unfold St.echo at he ⊢; rw [this]; exact he
    have h2 := ih _ _ h1.shows he' (fun hh => hne (List.mem_cons_of_mem _ hh)) (fun c hh => hc c (List.mem_cons_of_mem _ hh))
    simp only [runKeys, txBytes_append, feed_append]
    refine ⟨h2.1, ?_⟩
    have w1 := h1.width
    have w2 := h2.2
    have w3 := widest_ge cfg ns feed (onKey cfg ns feed s k).1 ks
    simp only [widest]
    omega

end Tbox.C13
