/- C13 helper lemmas: an op changes only the session slots it `touches`. -/
import TboxModel.C13.Spec
namespace Tbox.C13

theorem getD_set_ne (sl : List Slot) (k j : Nat) (y : Slot) (h : k ≠ j) : (sl.set k y).getD j {} = sl.getD j {} := by
  simp [List.getD_eq_getElem?_getD, List.getElem?_set_ne h]

theorem slot_setSlot_ne (w : World) (k j : Nat) (y : Slot) (h : k ≠ j) : (w.setSlot k y).slot j = w.slot j :=
  getD_set_ne w.slots k j y h

/-- a loop pass leaves slot `j` alone unless an exit task of slot `j`'s current session is queued -/
theorem runExits_other (cfg : Cfg) (ex : List (Nat × Nat)) : ∀ (sl : List Slot) (j : Nat),
    (j, (sl.getD j {}).gen) ∉ ex → (runExits cfg ex sl).1.getD j {} = sl.getD j {} := by
  induction ex with
  | nil => intro sl j _; rfl
  | cons e ex ih =>
    intro sl j hj
    obtain ⟨k, g⟩ := e
    have hrest : (j, (sl.getD j {}).gen) ∉ ex := fun hh => hj (List.mem_cons_of_mem _ hh)
    unfold runExits
    simp only
    split
    · next hhas =>
      have hkj : k ≠ j := by
        intro hh; subst hh
        simp only [Slot.has, Bool.and_eq_true, decide_eq_true_eq] at hhas
        apply hj; rw [hhas.1]; exact List.mem_cons_self
      have hsame := getD_set_ne sl k j (exitSlot k (sl.getD k {})).1 hkj
      rw [ih _ j (by rw [hsame]; exact hrest), hsame]
    · split
      · exact ih sl j hrest
      · rfl

theorem closeEnding_other (ks : List Nat) : ∀ (sl : List Slot) (j : Nat), (sl.getD j {}).ending = false →
    (closeEnding ks sl).1.getD j {} = sl.getD j {} := by
  induction ks with
  | nil => intro sl j _; rfl
  | cons k ks ih =>
    intro sl j hj
    unfold closeEnding
    simp only
    split
    · next he =>
      have hkj : k ≠ j := by intro hh; subst hh; rw [hj] at he; cases he
      split
      · have hsame := getD_set_ne sl k j { sl.getD k {} with ending := false, fstate := 2, sess := none, pending := [], kq := [] } hkj
        rw [ih _ j (by rw [hsame]; exact hj), hsame]
      · have hsame := getD_set_ne sl k j { sl.getD k {} with ending := false } hkj
        rw [ih _ j (by rw [hsame]; exact hj), hsame]
    · exact ih sl j hj

theorem closeZombies_other (ks : List Nat) : ∀ (sl : List Slot) (j : Nat), (sl.getD j {}).zfd = 0 →
    (closeZombies ks sl).1.getD j {} = sl.getD j {} := by
  induction ks with
  | nil => intro sl j _; rfl
  | cons k ks ih =>
    intro sl j hj
    unfold closeZombies
    simp only
    split
    · exact ih sl j hj
    · next hz =>
      have hkj : k ≠ j := by intro hh; subst hh; exact hz hj
      have hsame := getD_set_ne sl k j { sl.getD k {} with zfd := 0 } hkj
      rw [ih _ j (by rw [hsame]; exact hj), hsame]

theorem doPass_other (cfg : Cfg) (w : World) (j : Nat) (h : passTouches w j = false) :
    (doPass cfg w).1.slot j = w.slot j := by
  simp only [passTouches, Bool.or_eq_false_iff, bne_eq_false_iff_eq] at h
  have hz := closeZombies_other [4, 5, 6] w.slots j h.2
  have hn : (j, ((closeZombies [4, 5, 6] w.slots).1.getD j {}).gen) ∉ w.exits := by
    rw [hz]
    intro hh; have := List.contains_iff_mem.mpr hh; simp only [World.slot] at h; rw [h.1.1] at this; cases this
  have h1 := runExits_other cfg w.exits (closeZombies [4, 5, 6] w.slots).1 j hn
  show (closeEnding [4, 5, 6] (runExits cfg w.exits (closeZombies [4, 5, 6] w.slots).1).1).1.getD j {} = w.slots.getD j {}
  rw [closeEnding_other _ _ j (by rw [h1, hz]; exact h.1.2), h1, hz]

theorem finishSlot_other (cfg : Cfg) (w : World) (k j : Nat) (x : Slot) (so : Option St) (evs : List Ev) (h : k ≠ j) :
    (finishSlot cfg w k x so evs).1.slot j = w.slot j := by
  unfold finishSlot
  simp only
  cases kindOf k <;> exact getD_set_ne w.slots k j _ h

theorem finishSlot_exits (cfg : Cfg) (w : World) (k : Nat) (x : Slot) (so : Option St) (evs : List Ev) :
    ∃ n, (finishSlot cfg w k x so evs).1.exits = w.exits ++ List.replicate n (k, x.gen) := by
  unfold finishSlot
  simp only
  cases kindOf k <;> exact ⟨_, rfl⟩

theorem finishSlot_gone (cfg : Cfg) (w : World) (k : Nat) (x : Slot) (so : Option St) (evs : List Ev) :
    (finishSlot cfg w k x so evs).1.gone = w.gone := by
  unfold finishSlot
  simp only
  cases kindOf k <;> rfl

/-- the tree a delivery's handlers leave behind is the only thing `landTree` changes -/
theorem landTree_slots (w : World) (so : Option St) : (landTree w so).slots = w.slots := by
  unfold landTree; cases so <;> rfl
theorem landTree_slotj (w : World) (so : Option St) (j : Nat) : (landTree w so).slot j = w.slot j := by
  unfold landTree; cases so <;> rfl
theorem landTree_exits (w : World) (so : Option St) : (landTree w so).exits = w.exits := by
  unfold landTree; cases so <;> rfl
theorem landTree_gone (w : World) (so : Option St) : (landTree w so).gone = w.gone := by
  unfold landTree; cases so <;> rfl

theorem deliver_other (cfg : Cfg) (w : World) (k j : Nat) (bs : Str) (h : k ≠ j) :
    (deliver cfg w k bs).1.slot j = w.slot j := by
  unfold deliver
  simp only
  cases (w.slot k).sess with
  | none => rfl
  | some s => exact (finishSlot_other cfg _ k j _ _ _ h).trans (landTree_slotj w _ j)

theorem deliver_exits (cfg : Cfg) (w : World) (k : Nat) (bs : Str) :
    ∃ n, (deliver cfg w k bs).1.exits = w.exits ++ List.replicate n (k, (w.slot k).gen) := by
  unfold deliver
  simp only
  cases (w.slot k).sess with
  | none => exact ⟨0, by simp⟩
  | some s => obtain ⟨n, hn⟩ := finishSlot_exits cfg (landTree w (some (recvStringD cfg w.nodes w.depth s bs).1)) k (w.slot k) (some { (recvStringD cfg w.nodes w.depth s bs).1 with tree := none }) (recvStringD cfg w.nodes w.depth s bs).2; exact ⟨n, by rw [landTree_exits] at hn; exact hn⟩

theorem deliver_gone (cfg : Cfg) (w : World) (k : Nat) (bs : Str) : (deliver cfg w k bs).1.gone = w.gone := by
  unfold deliver
  simp only
  cases (w.slot k).sess with
  | none => rfl
  | some s => exact (finishSlot_gone cfg _ k _ _ _).trans (landTree_gone w _)

/-- what a delivery to slot `k` leaves alone: every other slot, the set of clients that went away, and the exit tasks
of every other slot -/
structure Apart (w w' : World) (k : Nat) : Prop where
  slot : ∀ j, k ≠ j → w'.slot j = w.slot j
  gone : ∀ j, k ≠ j → w'.gone.contains j = w.gone.contains j
  exits : ∀ j g, k ≠ j → (w'.exits.contains (j, g) = w.exits.contains (j, g))

theorem Apart.refl (w : World) (k : Nat) : Apart w w k := ⟨fun _ _ => rfl, fun _ _ => rfl, fun _ _ _ => rfl⟩

theorem Apart.trans {a b c : World} {k : Nat} (h1 : Apart a b k) (h2 : Apart b c k) : Apart a c k :=
  ⟨fun j h => (h2.slot j h).trans (h1.slot j h), fun j h => (h2.gone j h).trans (h1.gone j h),
   fun j g h => (h2.exits j g h).trans (h1.exits j g h)⟩

theorem passTouches_apart {w w' : World} {k j : Nat} (h : Apart w w' k) (hkj : k ≠ j) : passTouches w' j = passTouches w j := by
  simp only [passTouches]; rw [h.slot j hkj, h.exits j _ hkj]

theorem contains_append_replicate (l : List (Nat × Nat)) (n k g j g' : Nat) (h : k ≠ j) :
    (l ++ List.replicate n (k, g)).contains (j, g') = l.contains (j, g') := by
  cases hc : l.contains (j, g') with
  | true =>
    exact List.contains_iff_mem.mpr (List.mem_append_left _ (List.contains_iff_mem.mp hc))
  | false =>
    rw [Bool.eq_false_iff]; intro hh
    rcases List.mem_append.mp (List.contains_iff_mem.mp hh) with h2 | h2
    · have := List.contains_iff_mem.mpr h2; rw [hc] at this; cases this
    · have := (List.mem_replicate.mp h2).2; simp at this; exact h this.1.symm

theorem apart_of_exits {w w' : World} {k n g : Nat} (hs : ∀ j, k ≠ j → w'.slot j = w.slot j) (hg : w'.gone = w.gone)
    (he : w'.exits = w.exits ++ List.replicate n (k, g)) : Apart w w' k :=
  ⟨hs, fun _ _ => by rw [hg], fun j g' h => by rw [he]; exact contains_append_replicate _ _ _ _ _ _ h⟩

theorem deliver_apart (cfg : Cfg) (w : World) (k : Nat) (bs : Str) : Apart w (deliver cfg w k bs).1 k := by
  obtain ⟨n, hn⟩ := deliver_exits cfg w k bs
  exact apart_of_exits (fun j h => deliver_other cfg w k j bs h) (deliver_gone cfg w k bs) hn

theorem recvSlot_apart (cfg : Cfg) (w : World) (k : Nat) (bs : Str) : Apart w (recvSlot cfg w k bs).1 k := by
  unfold recvSlot
  simp only
  split
  · next h6 =>
    subst h6
    split
    · exact Apart.refl _ _
    · exact deliver_apart cfg w 6 _
  · obtain ⟨n, hn⟩ := finishSlot_exits cfg (landTree w (applyTel cfg w.nodes w.depth (w.slot k).sess (telFeed cfg
          (match (w.slot k).sess with | some s => s.opts | none => 0) (w.slot k).pending bs).1).1) k { w.slot k with pending := (telFeed cfg
        (match (w.slot k).sess with | some s => s.opts | none => 0) (w.slot k).pending bs).2.2 }
        ((applyTel cfg w.nodes w.depth (w.slot k).sess (telFeed cfg
          (match (w.slot k).sess with | some s => s.opts | none => 0) (w.slot k).pending bs).1).1.map fun s => { s with tree := none })
        (applyTel cfg w.nodes w.depth (w.slot k).sess (telFeed cfg
          (match (w.slot k).sess with | some s => s.opts | none => 0) (w.slot k).pending bs).1).2
    rw [landTree_exits] at hn
    exact apart_of_exits (fun j h => (finishSlot_other cfg _ k j _ _ _ h).trans (landTree_slotj w _ j))
      ((finishSlot_gone cfg _ k _ _ _).trans (landTree_gone w _)) hn

theorem contains_filter_ne (l : List Nat) (k j : Nat) (h : k ≠ j) : (l.filter (· ≠ k)).contains j = l.contains j := by
  rw [Bool.eq_iff_iff]
  simp only [List.contains_iff_mem, List.mem_filter, decide_eq_true_eq]
  exact ⟨fun hh => hh.1, fun hh => ⟨hh, fun e => h e.symm⟩⟩

theorem setSlot_apart (w : World) (k : Nat) (y : Slot) : Apart w (w.setSlot k y) k :=
  ⟨fun j h => slot_setSlot_ne w k j y h, fun _ _ => rfl, fun _ _ _ => rfl⟩

theorem sockClosed_apart (w : World) (k : Nat) : Apart w (sockClosed w k) k := by
  refine ⟨fun j h => slot_setSlot_ne w k j _ h, fun j h => ?_, fun _ _ _ => rfl⟩
  exact contains_filter_ne w.gone k j h

theorem sockEvent_apart (cfg : Cfg) (w : World) (k : Nat) (chunks : List Nat) (term : Nat) :
    Apart w (sockEvent cfg w k chunks term).1 k := by
  unfold sockEvent
  simp only
  have h1 := setSlot_apart w k { w.slot k with kq := (sockRead (w.slot k).kq (w.gone.contains k) chunks term).rest }
  split
  · split
    · exact h1.trans (sockClosed_apart _ k)
    · exact (h1.trans (recvSlot_apart cfg _ k _)).trans (sockClosed_apart _ k)
  · split
    · exact h1
    · exact h1.trans (recvSlot_apart cfg _ k _)

/-- the read events of a pass leave slot `j` alone (and what the rest of the pass looks at for it) when its socket has
nothing to report -/
theorem sockPass_other (cfg : Cfg) (ks : List Nat) : ∀ (w : World) (j : Nat), sockTouches w j = false →
    (sockPass cfg ks w).1.slot j = w.slot j ∧
    ∀ g, (sockPass cfg ks w).1.exits.contains (j, g) = w.exits.contains (j, g) := by
  induction ks with
  | nil => intro w j _; exact ⟨rfl, fun _ => rfl⟩
  | cons k ks ih =>
    intro w j hj
    unfold sockPass
    simp only
    split
    · next hk =>
      have hkj : k ≠ j := by
        intro hh; subst hh
        simp only [sockTouches, Bool.and_eq_false_iff, Bool.or_eq_false_iff] at hj
        rcases hj with h1 | h1
        · simp [hk.1] at h1
        · rcases hk.2 with h2 | h2
          · have := h1.1; simp at this; exact h2 this
          · rw [h2] at h1; cases h1.2
      have ha := sockEvent_apart cfg w k [] 0
      have hj' : sockTouches (sockEvent cfg w k [] 0).1 j = false := by
        simp only [sockTouches] at hj ⊢
        rw [ha.slot j hkj, ha.gone j hkj]; exact hj
      have := ih _ j hj'
      exact ⟨this.1.trans (ha.slot j hkj), fun g => (this.2 g).trans (ha.exits j g hkj)⟩
    · exact ih w j hj

end Tbox.C13
