/- C13 helper lemmas: an op changes only the session slots it `touches`. -/
import TboxModel.C13.Spec
namespace Tbox.C13

theorem getD_set_ne (sl : List Slot) (k j : Nat) (y : Slot) (h : k ≠ j) : (sl.set k y).getD j {} = sl.getD j {} := by
  simp [List.getD_eq_getElem?_getD, List.getElem?_set_ne h]

theorem slot_setSlot_ne (w : World) (k j : Nat) (y : Slot) (h : k ≠ j) : (w.setSlot k y).slot j = w.slot j :=
  getD_set_ne w.slots k j y h

/-- a loop pass leaves slot `j` alone unless an exit task of slot `j`'s current session is queued -/
theorem runExits_other (cfg : Cfg) (ex : List (Nat × Nat)) : ∀ (sl : List Slot) (j : Nat),
    (j, (sl.getD j {}).gen) ∉ ex → (runExits cfg ex sl).1.getD j {} = sl.getD j {} := by
  induction ex with
  | nil => intro sl j _; rfl
  | cons e ex ih =>
    intro sl j hj
    obtain ⟨k, g⟩ := e
    have hrest : (j, (sl.getD j {}).gen) ∉ ex := fun hh => hj (List.mem_cons_of_mem _ hh)
    unfold runExits
    simp only
    split
    · next hhas =>
      have hkj : k ≠ j := by
        intro hh; subst hh
        simp only [Slot.has, Bool.and_eq_true, decide_eq_true_eq] at hhas
        apply hj; rw [hhas.1]; exact List.mem_cons_self
      have hsame := getD_set_ne sl k j (exitSlot k (sl.getD k {})).1 hkj
      rw [ih _ j (by rw [hsame]; exact hrest), hsame]
    · split
      · exact ih sl j hrest
      · rfl

theorem doPass_other (cfg : Cfg) (w : World) (j : Nat) (h : w.exits.contains (j, (w.slot j).gen) = false) :
    (doPass cfg w).1.slot j = w.slot j := by
  have hn : (j, (w.slots.getD j {}).gen) ∉ w.exits := by
    intro hh; have := List.contains_iff_mem.mpr hh; simp [World.slot] at h; exact absurd hh (by simpa using h)
  exact runExits_other cfg w.exits w.slots j hn

theorem deliver_other (cfg : Cfg) (w : World) (k j : Nat) (bs : Str) (h : k ≠ j) :
    (deliver cfg w k bs).1.slot j = w.slot j := by
  unfold deliver
  simp only
  cases (w.slot k).sess with
  | none => rfl
  | some s => exact slot_setSlot_ne w k j _ h

theorem deliver_exits (cfg : Cfg) (w : World) (k : Nat) (bs : Str) :
    ∃ n, (deliver cfg w k bs).1.exits = w.exits ++ List.replicate n (k, (w.slot k).gen) := by
  unfold deliver
  simp only
  cases (w.slot k).sess with
  | none => exact ⟨0, by simp⟩
  | some s => exact ⟨_, rfl⟩

end Tbox.C13
