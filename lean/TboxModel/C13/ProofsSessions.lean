/- C13 helper lemmas: an op changes only the session slots it `touches`. -/
import TboxModel.C13.Spec
namespace Tbox.C13

theorem getD_set_ne (sl : List Slot) (k j : Nat) (y : Slot) (h : k ≠ j) : (sl.set k y).getD j {} = sl.getD j {} := by
  simp [List.getD_eq_getElem?_getD, List.getElem?_set_ne h]

theorem slot_setSlot_ne (w : World) (k j : Nat) (y : Slot) (h : k ≠ j) : (w.setSlot k y).slot j = w.slot j :=
  getD_set_ne w.slots k j y h

/-- a loop pass leaves slot `j` alone unless an exit task of slot `j`'s current session is queued -/
theorem runExits_other (cfg : Cfg) (ex : List (Nat × Nat)) : ∀ (sl : List Slot) (j : Nat),
    (j, (sl.getD j {}).gen) ∉ ex → (runExits cfg ex sl).1.getD j {} = sl.getD j {} := by
  induction ex with
  | nil => intro sl j _; rfl
  | cons e ex ih =>
    intro sl j hj
    obtain ⟨k, g⟩ := e
    have hrest : (j, (sl.getD j {}).gen) ∉ ex := fun hh => hj (List.mem_cons_of_mem _ hh)
    unfold runExits
    simp only
    split
    · next hhas =>
      have hkj : k ≠ j := by
        intro hh; subst hh
        simp only [Slot.has, Bool.and_eq_true, decide_eq_true_eq] at hhas
        apply hj; rw [hhas.1]; exact List.mem_cons_self
      have hsame := getD_set_ne sl k j (exitSlot k (sl.getD k {})).1 hkj
      rw [ih _ j (by rw [hsame]; exact hrest), hsame]
    · split
      · exact ih sl j hrest
      · rfl

theorem closeEnding_other (ks : List Nat) : ∀ (sl : List Slot) (j : Nat), (sl.getD j {}).ending = false →
    (closeEnding ks sl).1.getD j {} = sl.getD j {} := by
  induction ks with
  | nil => intro sl j _; rfl
  | cons k ks ih =>
    intro sl j hj
    unfold closeEnding
    simp only
    split
    · next he =>
      have hkj : k ≠ j := by intro hh; subst hh; rw [hj] at he; cases he
      split
      · have hsame := getD_set_ne sl k j { sl.getD k {} with ending := false, fstate := 2, sess := none, pending := [] } hkj
        rw [ih _ j (by rw [hsame]; exact hj), hsame]
      · have hsame := getD_set_ne sl k j { sl.getD k {} with ending := false } hkj
        rw [ih _ j (by rw [hsame]; exact hj), hsame]
    · exact ih sl j hj

theorem doPass_other (cfg : Cfg) (w : World) (j : Nat)
    (h : (w.exits.contains (j, (w.slot j).gen) || (w.slot j).ending) = false) :
    (doPass cfg w).1.slot j = w.slot j := by
  simp only [Bool.or_eq_false_iff] at h
  have hn : (j, (w.slots.getD j {}).gen) ∉ w.exits := by
    intro hh; have := List.contains_iff_mem.mpr hh; simp only [World.slot] at h; rw [h.1] at this; cases this
  have h1 := runExits_other cfg w.exits w.slots j hn
  show (closeEnding [4, 5, 6] (runExits cfg w.exits w.slots).1).1.getD j {} = w.slots.getD j {}
  rw [closeEnding_other _ _ j (by rw [h1]; exact h.2), h1]

theorem finishSlot_other (w : World) (k j : Nat) (x : Slot) (so : Option St) (evs : List Ev) (h : k ≠ j) :
    (finishSlot w k x so evs).1.slot j = w.slot j := by
  unfold finishSlot
  simp only
  cases kindOf k <;> exact getD_set_ne w.slots k j _ h

theorem finishSlot_exits (w : World) (k : Nat) (x : Slot) (so : Option St) (evs : List Ev) :
    ∃ n, (finishSlot w k x so evs).1.exits = w.exits ++ List.replicate n (k, x.gen) := by
  unfold finishSlot
  simp only
  cases kindOf k <;> exact ⟨_, rfl⟩

theorem deliver_other (cfg : Cfg) (w : World) (k j : Nat) (bs : Str) (h : k ≠ j) :
    (deliver cfg w k bs).1.slot j = w.slot j := by
  unfold deliver
  simp only
  cases (w.slot k).sess with
  | none => rfl
  | some s => exact finishSlot_other w k j _ _ _ h

theorem deliver_exits (cfg : Cfg) (w : World) (k : Nat) (bs : Str) :
    ∃ n, (deliver cfg w k bs).1.exits = w.exits ++ List.replicate n (k, (w.slot k).gen) := by
  unfold deliver
  simp only
  cases (w.slot k).sess with
  | none => exact ⟨0, by simp⟩
  | some s => exact finishSlot_exits w k _ _ _

theorem dropGone_other (ks : List Nat) : ∀ (w : World) (j : Nat), ks.contains j = false →
    (dropGone ks w).slot j = w.slot j ∧ (dropGone ks w).exits = w.exits := by
  induction ks with
  | nil => intro w j _; exact ⟨rfl, rfl⟩
  | cons k ks ih =>
    intro w j hj
    simp only [List.contains_cons, Bool.or_eq_false_iff, beq_eq_false_iff_ne] at hj
    unfold dropGone
    simp only
    split
    · have := ih (w.setSlot k { w.slot k with fstate := 2, sess := none, pending := [], ending := false }) j hj.2
      exact ⟨this.1.trans (slot_setSlot_ne w k j _ (Ne.symm hj.1)), this.2⟩
    · exact ih w j hj.2

end Tbox.C13
