/- C13 helper lemmas: the socket read path conserves the byte stream; the terminal with a right margin agrees with the
   unbounded one below the margin; util::string::Split / RawDataToHexStr. -/
import TboxModel.C13.ProofsScreen
namespace Tbox.C13

/-! ### `sockRead` -/

theorem rdChunks_conserve (cs : List Nat) : ∀ kq : Str,
    (rdChunks kq cs).1 ++ (rdChunks kq cs).2.1 = kq := by
  induction cs with
  | nil => intro kq; simp [rdChunks]
  | cons c cs ih =>
    intro kq
    cases kq with
    | nil => simp [rdChunks]
    | cons b bs =>
      simp only [rdChunks]
      rw [List.append_assoc, ih, List.take_append_drop]

theorem sockRead_conserve (kq : Str) (gone : Bool) (cs : List Nat) (term : Nat) :
    (sockRead kq gone cs term).data ++ (sockRead kq gone cs term).rest = kq := by
  unfold sockRead
  simp only
  split
  · simp [rdChunks_conserve]
  · exact rdChunks_conserve cs kq

theorem sockRead_closed (kq : Str) (gone : Bool) (cs : List Nat) (term : Nat)
    (h : (sockRead kq gone cs term).closed = true) : (sockRead kq gone cs term).data = [] := by
  unfold sockRead at h ⊢
  simp only at h ⊢
  split at h <;> split <;> simp_all

theorem sockRead_open (kq : Str) (gone : Bool) (c : Nat) (cs : List Nat) (term : Nat) (hk : kq ≠ []) (hc : 1 ≤ c) :
    (sockRead kq gone (c :: cs) term).closed = false := by
  have hne : (rdChunks kq (c :: cs)).1 ≠ [] := by
    cases kq with
    | nil => exact absurd rfl hk
    | cons b bs =>
      obtain ⟨c', rfl⟩ : ∃ c', c = c' + 1 := ⟨c - 1, by omega⟩
      simp [rdChunks]
  unfold sockRead
  simp only
  split <;> simp [hne]

/-- a transient answer (EAGAIN / EINTR) that the script really gives (no scripted call met an empty queue, where the real
kernel takes over) never closes -/
theorem sockRead_transient (kq : Str) (gone : Bool) (cs : List Nat) (term : Nat) (ht : termTransient term = true)
    (hs : (rdChunks kq cs).2.2.2 = false) : (sockRead kq gone cs term).closed = false := by
  have h0 : term ≠ 0 := by rintro rfl; simp [termTransient] at ht
  unfold sockRead
  simp [hs, h0, ht]

/-- the read path as found (before fix 1c1abc6): every errno other than EAGAIN was fatal, EINTR too -/
def sockReadAsFound (kq : Str) (gone : Bool) (chunks : List Nat) (term : Nat) : RdRes :=
  let c := rdChunks kq chunks
  if c.2.2.2 || term = 0 then sockRead kq gone chunks term
  else { data := c.1, rest := c.2.1, closed := c.1.isEmpty && term ≠ 1, toks := c.2.2.1 ++ ["readv=" ++ termName term] }

/-- successive read events on one queue (no new writes in between) -/
def sockReads (gone : Bool) : Str → List (List Nat × Nat) → List Str × Str
  | kq, [] => ([], kq)
  | kq, (cs, t) :: r =>
    let x := sockRead kq gone cs t
    let y := sockReads gone x.rest r
    (x.data :: y.1, y.2)

theorem sockReads_conserve (gone : Bool) (evs : List (List Nat × Nat)) : ∀ kq : Str,
    (sockReads gone kq evs).1.flatten ++ (sockReads gone kq evs).2 = kq := by
  induction evs with
  | nil => intro kq; simp [sockReads]
  | cons e r ih =>
    intro kq
    obtain ⟨cs, t⟩ := e
    simp only [sockReads, List.flatten_cons, List.append_assoc]
    rw [ih, sockRead_conserve]

/-! ### the terminal with a right margin -/

structure Sim (r : Scr) (q : ScrW) : Prop where
  row : q.row = r.row
  col : q.col = r.col
  esc : q.esc = r.esc

theorem scr_byte_maxc (r : Scr) (b : UInt8) : r.maxc ≤ (r.byte b).maxc := by
  unfold Scr.byte Scr.put
  repeat' split
  all_goals (first | omega | (simp only []; omega) | (dsimp only; omega))

theorem scr_feed_maxc (bs : Str) : ∀ r : Scr, r.maxc ≤ (r.feed bs).maxc := by
  induction bs with
  | nil => intro r; exact Nat.le_refl _
  | cons b bs ih => intro r; exact Nat.le_trans (scr_byte_maxc r b) (ih _)

theorem scr_byte_col (r : Scr) (b : UInt8) (h : r.col ≤ r.maxc) : (r.byte b).col ≤ (r.byte b).maxc := by
  unfold Scr.byte Scr.put
  repeat' split
  all_goals (first | omega | (simp only []; omega) | (dsimp only; omega))

/-- one byte: as long as the unbounded terminal's cursor stays left of the margin the two terminals do the same -/
local macro "sim_close" : tactic =>
  `(tactic| (refine ⟨⟨?_, ?_, ?_⟩, ?_⟩ <;> first | rfl | trivial | assumption))

theorem sim_byte (r : Scr) (q : ScrW) (b : UInt8) (h : Sim r q) (hW : (r.byte b).maxc < q.w) :
    Sim (r.byte b) (q.byte b) ∧ (q.byte b).w = q.w := by
  obtain ⟨h1, h2, h3⟩ := h
  unfold Scr.byte Scr.put at hW ⊢
  unfold ScrW.byte
  rw [h1, h2, h3]
  by_cases e0 : r.esc = 0
  · simp only [e0, if_true] at hW ⊢
    by_cases b8 : b = 8
    · simp only [b8, if_true]; sim_close
    · simp only [b8, if_false] at hW ⊢
      by_cases b27 : b = 27
      · simp only [b27, if_true]; sim_close
      · simp only [b27, if_false] at hW ⊢
        by_cases b13 : b = 13
        · simp only [b13, if_true]; sim_close
        · simp only [b13, if_false] at hW ⊢
          by_cases b10 : b = 10
          · simp only [b10, if_true]; sim_close
          · simp only [b10, if_false] at hW ⊢
            have : ¬ (r.col + 1 ≥ q.w) := by omega
            simp only [this, if_false]
            sim_close
  · simp only [e0, if_false] at hW ⊢
    by_cases e1 : r.esc = 1
    · simp only [e1, if_true]
      split <;> sim_close
    · simp only [e1, if_false] at hW ⊢
      by_cases c67 : b = 67
      · simp only [c67, if_true] at hW ⊢
        have : r.col + 1 < q.w := by omega
        simp only [this, if_true]
        sim_close
      · simp only [c67, if_false] at hW ⊢
        by_cases c68 : b = 68
        · simp only [c68, if_true]; sim_close
        · simp only [c68, if_false]
          split <;> sim_close

theorem sim_feed (bs : Str) : ∀ (r : Scr) (q : ScrW), Sim r q → (r.feed bs).maxc < q.w →
    Sim (r.feed bs) (q.feed bs) ∧ (q.feed bs).w = q.w := by
  induction bs with
  | nil => intro r q h _; exact ⟨h, rfl⟩
  | cons b bs ih =>
    intro r q h hW
    simp only [Scr.feed, ScrW.feed] at hW ⊢
    have hb : (r.byte b).maxc < q.w := Nat.lt_of_le_of_lt (scr_feed_maxc bs _) hW
    have s1 := sim_byte r q b h hb
    have s2 := ih (r.byte b) (q.byte b) s1.1 (by rw [s1.2]; exact hW)
    exact ⟨s2.1, s2.2.trans s1.2⟩

/-! ### util::string -/

theorem splitOn_ne_nil (c : UInt8) (s : Str) : splitOn c s ≠ [] := by
  induction s with
  | nil => simp [splitOn]
  | cons b bs ih =>
    simp only [splitOn]
    split
    · simp
    · cases h : splitOn c bs with
      | nil => exact absurd h ih
      | cons x xs => simp

theorem splitByGo_single (c : UInt8) : ∀ (fuel : Nat) (s acc : Str), s.length < fuel →
    splitByGo [c] fuel s acc = match splitOn c s with
      | [] => [acc.reverse]
      | x :: xs => (acc.reverse ++ x) :: xs := by
  intro fuel
  induction fuel with
  | zero => intro s acc h; omega
  | succ n ih =>
    intro s acc h
    cases s with
    | nil => simp [splitByGo, splitOn]
    | cons b bs =>
      have hl : bs.length < n := by simp at h; omega
      simp only [splitByGo, splitOn]
      by_cases hb : b = c
      · subst hb
        have hp : List.isPrefixOf [b] (b :: bs) = true := by simp [List.isPrefixOf]
        simp only [hp, if_true, List.length_cons, List.length_nil, List.drop_succ_cons, List.drop_zero]
        rw [ih bs [] hl]
        cases hsp : splitOn b bs with
        | nil => exact absurd hsp (splitOn_ne_nil b bs)
        | cons x xs => simp
      · have hp : List.isPrefixOf [c] (b :: bs) = false := by
          simp [List.isPrefixOf]; exact fun e => hb e.symm
        simp only [hp, hb, if_false, Bool.false_eq_true]
        rw [ih bs (b :: acc) hl]
        cases hsp : splitOn c bs with
        | nil => exact absurd hsp (splitOn_ne_nil c bs)
        | cons x xs => simp

theorem rawHex_length (data : Str) (n : Nat) (u : Bool) :
    (rawHex data n u []).length = 2 * min (n % 65536) data.length := by
  unfold rawHex
  have : ∀ d : Str, (List.intercalate [] (d.map (hex2 u))).length = 2 * d.length := by
    intro d
    induction d with
    | nil => rfl
    | cons x xs ih =>
      cases xs with
      | nil => simp [List.intercalate, hex2]
      | cons y ys =>
        simp only [List.intercalate, List.map_cons, List.intersperse_cons₂, List.flatten_cons, List.length_append,
          List.length_nil, List.length_cons] at ih ⊢
        simp only [hex2, List.length_cons, List.length_nil] at ih ⊢
        omega
  rw [this, List.length_take]

end Tbox.C13
