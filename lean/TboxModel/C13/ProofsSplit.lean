/- C13 helper lemmas for the SplitCmdline contract. -/
import TboxModel.C13.Spec
namespace Tbox.C13

def modeQuote : SplitMode → Option UInt8
  | .blank => none
  | .quoted q _ => some q
  | .tok _ => none
  | .tokQ q _ => some q

theorem blank_not_quote {c : UInt8} (h : isBlank c = true) : isQuote c = false := by
  simp only [isBlank, Bool.or_eq_true, decide_eq_true_eq] at h
  rcases h with h | h <;> subst h <;> decide

theorem splitGo_none_iff (s : Str) : ∀ (m : SplitMode) (args : List Str),
    splitGo m s args = none ↔ openQuote (modeQuote m) s ≠ none := by
  induction s with
  | nil => intro m args; cases m <;> simp [splitGo, openQuote, modeQuote]
  | cons c cs ih =>
    intro m args
    cases m with
    | blank =>
      simp only [splitGo, openQuote, modeQuote]
      by_cases hb : isBlank c = true
      · simp only [hb, if_true, blank_not_quote hb]; exact ih _ _
      · simp only [hb]
        by_cases hq : isQuote c = true
        · simp only [hq, if_true]; exact ih _ _
        · simp only [hq]; exact ih _ _
    | quoted q acc =>
      simp only [splitGo, openQuote, modeQuote]
      by_cases hc : c = q
      · simp only [hc, if_true]; exact ih _ _
      · simp only [hc, if_false]; exact ih _ _
    | tok acc =>
      simp only [splitGo, openQuote, modeQuote]
      by_cases hb : isBlank c = true
      · simp only [hb, if_true, blank_not_quote hb]; exact ih _ _
      · simp only [hb]
        by_cases hq : isQuote c = true
        · simp only [hq, if_true]; exact ih _ _
        · simp only [hq]; exact ih _ _
    | tokQ q acc =>
      simp only [splitGo, openQuote, modeQuote]
      by_cases hc : c = q
      · simp only [hc, if_true]; exact ih _ _
      · simp only [hc, if_false]; exact ih _ _

/-- an unquoted run of plain characters is accumulated -/
theorem tok_run (a : Str) (h : a.all plainChar = true) : ∀ (acc rest : Str) (args : List Str),
    splitGo (.tok acc) (a ++ rest) args = splitGo (.tok (a.reverse ++ acc)) rest args := by
  induction a with
  | nil => intro acc rest args; rfl
  | cons c a ih =>
    intro acc rest args
    simp only [List.all_cons, Bool.and_eq_true] at h
    have hc := h.1
    simp only [plainChar, Bool.and_eq_true, Bool.not_eq_true'] at hc
    simp only [List.cons_append, splitGo, hc.1, hc.2]
    rw [ih h.2]; simp

/-- inside quotes everything up to the closing quote is accumulated -/
theorem quoted_run (q : UInt8) (a : Str) (h : q ∉ a) : ∀ (acc rest : Str) (args : List Str),
    splitGo (.quoted q acc) (a ++ q :: rest) args = splitGo .blank rest ((a.reverse ++ acc).reverse :: args) := by
  induction a with
  | nil => intro acc rest args; simp [splitGo]
  | cons c a ih =>
    intro acc rest args
    have hc : c ≠ q := fun hh => h (hh ▸ List.mem_cons_self)
    simp only [List.cons_append, splitGo, hc, if_false]
    rw [ih (fun hh => h (List.mem_cons_of_mem _ hh))]; simp

theorem tokQ_run (q : UInt8) (a : Str) (h : q ∉ a) : ∀ (acc rest : Str) (args : List Str),
    splitGo (.tokQ q acc) (a ++ q :: rest) args = splitGo (.tok (q :: (a.reverse ++ acc))) rest args := by
  induction a with
  | nil => intro acc rest args; simp [splitGo]
  | cons c a ih =>
    intro acc rest args
    have hc : c ≠ q := fun hh => h (hh ▸ List.mem_cons_self)
    simp only [List.cons_append, splitGo, hc, if_false]
    rw [ih (fun hh => h (List.mem_cons_of_mem _ hh))]; simp

theorem split_join_aux (args : List Str) (h : ∀ a ∈ args, a ≠ [] ∧ a.all plainChar = true) : ∀ (done : List Str),
    splitGo .blank (joinSp args) done = some (done.reverse ++ args) := by
  induction args with
  | nil => intro done; simp [joinSp, splitGo]
  | cons a rest ih =>
    intro done
    obtain ⟨hne, hpl⟩ := h a List.mem_cons_self
    obtain ⟨c, a', rfl⟩ : ∃ c a', a = c :: a' := by
      cases a with
      | nil => exact absurd rfl hne
      | cons c a' => exact ⟨c, a', rfl⟩
    have hpl' := hpl
    simp only [List.all_cons, Bool.and_eq_true] at hpl
    have hc := hpl.1
    simp only [plainChar, Bool.and_eq_true, Bool.not_eq_true'] at hc
    cases rest with
    | nil =>
      simp only [joinSp, splitGo, hc.1, hc.2]
      have := tok_run a' hpl.2 [c] [] done
      simp only [List.append_nil] at this
      rw [this]; simp [splitGo]
    | cons b r =>
      simp only [joinSp, List.cons_append, splitGo, hc.1, hc.2]
      rw [tok_run a' hpl.2 [c] (32 :: joinSp (b :: r)) done]
      have hb32 : isBlank 32 = true := by decide
      simp only [splitGo, hb32, if_true]
      rw [ih (fun x hx => h x (List.mem_cons_of_mem _ hx))]
      simp

theorem pickQuote_spec (a : Str) (h : ¬ ((34 : UInt8) ∈ a ∧ (39 : UInt8) ∈ a)) :
    pickQuote a ∉ a ∧ isQuote (pickQuote a) = true ∧ isBlank (pickQuote a) = false := by
  unfold pickQuote
  by_cases h34 : (34 : UInt8) ∈ a
  · rw [if_pos h34]
    exact ⟨fun h39 => h ⟨h34, h39⟩, by decide, by decide⟩
  · rw [if_neg h34]
    exact ⟨h34, by decide, by decide⟩

theorem split_joinQuoted_aux (args : List Str) (h : ∀ a ∈ args, ¬ ((34 : UInt8) ∈ a ∧ (39 : UInt8) ∈ a)) : ∀ (done : List Str),
    splitGo .blank (joinQuoted args) done = some (done.reverse ++ args) := by
  induction args with
  | nil => intro done; simp [joinQuoted, splitGo]
  | cons a rest ih =>
    intro done
    obtain ⟨hq, hisq, hnb⟩ := pickQuote_spec a (h a List.mem_cons_self)
    cases rest with
    | nil =>
      simp only [joinQuoted, quoteArg, List.cons_append, splitGo, hnb, hisq, if_true]
      have := quoted_run (pickQuote a) a hq [] [] done
      rw [this]; simp [splitGo]
    | cons b r =>
      simp only [joinQuoted, quoteArg, List.cons_append, splitGo, hnb, hisq, if_true]
      have := quoted_run (pickQuote a) a hq [] (32 :: joinQuoted (b :: r)) done
      rw [List.append_assoc]
      simp only [List.cons_append, List.nil_append]
      rw [this]
      have hb32 : isBlank 32 = true := by decide
      simp only [splitGo, hb32, if_true]
      rw [ih (fun x hx => h x (List.mem_cons_of_mem _ hx))]
      simp

end Tbox.C13
