/- C13 helper lemmas for `C13_telnet_resumable`: the IAC framing loop decides the same way however the
   byte stream is cut into segments. -/
import TboxModel.C13.ProofsTotal
namespace Tbox.C13

/-! ### `mergeStr` -/

theorem mergeStr_cons_congr (x : Ev) {a b : List Ev} (h : mergeStr a = mergeStr b) :
    mergeStr (x :: a) = mergeStr (x :: b) := by
  cases x with
  | tel e => cases e <;> simp [mergeStr, h]
  | _ => simp [mergeStr, h]

theorem mergeStr_append_congr (l : List Ev) {a b : List Ev} (h : mergeStr a = mergeStr b) :
    mergeStr (l ++ a) = mergeStr (l ++ b) := by
  induction l with
  | nil => exact h
  | cons x l ih => exact mergeStr_cons_congr x ih

theorem mergeStr_str_str (a b : Str) (X : List Ev) :
    mergeStr (.tel (.str a) :: .tel (.str b) :: X) = mergeStr (.tel (.str (a ++ b)) :: X) := by
  simp only [mergeStr]
  cases h : mergeStr X with
  | nil => simp
  | cons e r =>
    cases e with
    | tel t => cases t <;> simp [List.append_assoc]
    | _ => simp

/-! ### one round -/

theorem telStep_str (cfg : Cfg) (opts : Nat) (buf : Str) (h : List.takeWhile notIac buf ≠ []) :
    telStep cfg opts buf = some ([.tel (.str (List.takeWhile notIac buf))], opts,
      (List.takeWhile notIac buf).length) := by
  have h0 : buf ≠ [] := by intro hh; subst hh; exact h rfl
  unfold telStep
  simp [h0, h]

theorem telStep_bounds (cfg : Cfg) (opts : Nat) (buf : Str) (evs : List Ev) (o c : Nat)
    (h : telStep cfg opts buf = some (evs, o, c)) : 1 ≤ c ∧ c ≤ buf.length := by
  unfold telStep at h
  by_cases h0 : buf = []
  · simp [h0] at h
  · simp only [h0, if_false] at h
    split at h
    · next hd =>
      cases h
      refine ⟨?_, (List.takeWhile_prefix notIac).length_le⟩
      exact Nat.pos_of_ne_zero (fun hz => hd (List.eq_nil_of_length_eq_zero hz))
    · by_cases h2 : buf.length < 2
      · simp [h2] at h
      · simp only [h2, if_false] at h
        by_cases hn : 251 ≤ buf.getD 1 0 ∧ buf.getD 1 0 ≤ 254
        · simp only [hn, and_self, if_true] at h
          by_cases h3 : buf.length < 3
          · simp [h3] at h
          · simp only [h3, if_false] at h
            repeat' split at h
            all_goals (cases h; omega)
        · simp only [hn, if_false] at h
          by_cases hsb : buf.getD 1 0 = 250
          · simp only [hsb, if_true] at h
            by_cases h6 : buf.length < 6
            · simp [h6] at h
            · simp only [h6, if_false] at h
              cases hk : List.findIdx? isIac (List.drop 4 buf) with
              | none => simp [hk] at h
              | some k =>
                simp only [hk] at h
                split at h
                · simp at h
                · cases h
                  obtain ⟨hlt, _⟩ := List.findIdx?_eq_some_iff_getElem.mp hk
                  simp at hlt; omega
          · simp only [hsb, if_false] at h
            split at h <;> (cases h; omega)


/-! ### the loop does not depend on the fuel once it exceeds the buffer length -/

theorem telParse_fuel (cfg : Cfg) (fuel : Nat) : ∀ (fuel' opts : Nat) (buf : Str),
    buf.length < fuel → buf.length < fuel' → telParse cfg fuel opts buf = telParse cfg fuel' opts buf := by
  induction fuel with
  | zero => intro _ _ _ h; omega
  | succ n ih =>
    intro fuel' opts buf h1 h2
    cases fuel' with
    | zero => omega
    | succ m =>
      unfold telParse
      cases hs : telStep cfg opts buf with
      | none => rfl
      | some x =>
        obtain ⟨evs, o, c⟩ := x
        have hb := telStep_bounds cfg opts buf evs o c hs
        have hl : (buf.drop c).length < buf.length := by simp; omega
        simp only
        rw [ih m o (buf.drop c) (by omega) (by omega)]

/-- the loop with its canonical fuel -/
def parse (cfg : Cfg) (opts : Nat) (buf : Str) : List Ev × Nat × Str := telParse cfg (buf.length + 1) opts buf

theorem parse_eq (cfg : Cfg) (opts : Nat) (buf : Str) :
    parse cfg opts buf = match telStep cfg opts buf with
      | none => ([], opts, buf)
      | some (evs, o, c) => (evs ++ (parse cfg o (buf.drop c)).1, (parse cfg o (buf.drop c)).2) := by
  unfold parse
  rw [telParse]
  cases hs : telStep cfg opts buf with
  | none => rfl
  | some x =>
    obtain ⟨evs, o, c⟩ := x
    have hb := telStep_bounds cfg opts buf evs o c hs
    simp only
    rw [telParse_fuel cfg buf.length ((buf.drop c).length + 1) o (buf.drop c) (by simp; omega) (by omega)]

theorem telFeed_eq (cfg : Cfg) (opts : Nat) (pending seg : Str) : telFeed cfg opts pending seg = parse cfg opts (pending ++ seg) := rfl

/-! ### a command that starts with IAC is decided the same way when more bytes follow -/

theorem subWindow_append (buf more : Str) (len : Nat) (h : len ≥ 4 → 7 ≤ buf.length) :
    subWindow Cfg.fixed (buf ++ more) len = subWindow Cfg.fixed buf len := by
  unfold subWindow
  by_cases hl : len < 4
  · simp [Cfg.fixed, hl]
  · have h7 := h (by omega)
    simp only [Cfg.fixed, Bool.true_and, decide_eq_true_eq, hl, if_false]
    rw [List.getElem?_append_left (show 3 < buf.length by omega), List.getElem?_append_left (show 4 < buf.length by omega),
        List.getElem?_append_left (show 5 < buf.length by omega), List.getElem?_append_left (show 6 < buf.length by omega)]

theorem getD_append_left (buf more : Str) (i : Nat) (h : i < buf.length) : (buf ++ more).getD i 0 = buf.getD i 0 := by
  simp [List.getD_eq_getElem?_getD, List.getElem?_append_left h]

theorem telStep_iac_mono (opts : Nat) (buf more : Str) (hd : List.takeWhile notIac buf = [])
    (x : List Ev × Nat × Nat) (hs : telStep Cfg.fixed opts buf = some x) :
    telStep Cfg.fixed opts (buf ++ more) = some x := by
  have h0 : buf ≠ [] := by intro hh; subst hh; simp [telStep] at hs
  obtain ⟨b, bs, hbs⟩ : ∃ b bs, buf = b :: bs := by
    cases buf with
    | nil => exact absurd rfl h0
    | cons b bs => exact ⟨b, bs, rfl⟩
  have hb : notIac b = false := by
    subst hbs
    by_cases hh : notIac b = true
    · simp [List.takeWhile, hh] at hd
    · simpa using hh
  have hd' : List.takeWhile notIac (buf ++ more) = [] := by
    subst hbs; simp [List.takeWhile, hb]
  have h0' : buf ++ more ≠ [] := by subst hbs; simp
  unfold telStep at hs ⊢
  simp only [h0, h0', hd, hd', if_false, ne_eq, not_true_eq_false] at hs ⊢
  by_cases h2 : buf.length < 2
  · simp [h2] at hs
  · have h2' : ¬ (buf ++ more).length < 2 := by simp; omega
    simp only [h2, h2', if_false] at hs ⊢
    rw [getD_append_left buf more 1 (by omega)]
    by_cases hn : 251 ≤ buf.getD 1 0 ∧ buf.getD 1 0 ≤ 254
    · simp only [hn, and_self, if_true] at hs ⊢
      by_cases h3 : buf.length < 3
      · simp [h3] at hs
      · have h3' : ¬ (buf ++ more).length < 3 := by simp; omega
        simp only [h3, h3', if_false] at hs ⊢
        rw [getD_append_left buf more 2 (by omega)]
        exact hs
    · simp only [hn, if_false] at hs ⊢
      by_cases hsb : buf.getD 1 0 = 250
      · simp only [hsb, if_true] at hs ⊢
        by_cases h6 : buf.length < 6
        · simp [h6] at hs
        · have h6' : ¬ (buf ++ more).length < 6 := by simp; omega
          simp only [h6, h6', if_false] at hs ⊢
          have hdrop : List.drop 4 (buf ++ more) = List.drop 4 buf ++ more := by
            rw [List.drop_append_of_le_length (by omega)]
          rw [hdrop, List.findIdx?_append]
          cases hk : List.findIdx? isIac (List.drop 4 buf) with
          | none => simp [hk] at hs
          | some k =>
            simp only [hk, Option.some_or] at hs ⊢
            obtain ⟨hlt, _⟩ := List.findIdx?_eq_some_iff_getElem.mp hk
            simp at hlt
            by_cases hp : k + 4 + 1 = buf.length
            · simp [hp] at hs
            · have hp' : ¬ k + 4 + 1 = (buf ++ more).length := by simp; omega
              simp only [hp, hp', if_false] at hs ⊢
              rw [getD_append_left buf more 2 (by omega), subWindow_append buf more _ (by omega)]
              exact hs
      · simp only [hsb, if_false] at hs ⊢
        exact hs


/-! ### the key lemma: parsing `buf ++ more` = parsing `buf`, then the rest with `more` -/

theorem takeWhile_append_stop (buf more : Str) (h : buf.drop (List.takeWhile notIac buf).length ≠ []) :
    List.takeWhile notIac (buf ++ more) = List.takeWhile notIac buf := by
  induction buf with
  | nil => simp at h
  | cons b bs ih =>
    by_cases hb : notIac b = true
    · simp only [List.cons_append, List.takeWhile_cons, hb, if_true] at h ⊢
      rw [ih (by simpa using h)]
    · simp [List.takeWhile_cons, hb]

theorem takeWhile_append_all (buf more : Str) (h : List.takeWhile notIac buf = buf) :
    List.takeWhile notIac (buf ++ more) = buf ++ List.takeWhile notIac more := by
  induction buf with
  | nil => simp
  | cons b bs ih =>
    by_cases hb : notIac b = true
    · simp only [List.takeWhile_cons, hb, if_true, List.cons.injEq, true_and] at h
      simp only [List.cons_append, List.takeWhile_cons, hb, if_true, ih h]
    · simp [List.takeWhile_cons, hb] at h

theorem takeWhile_eq_self_of_drop (buf : Str) (h : buf.drop (List.takeWhile notIac buf).length = []) :
    List.takeWhile notIac buf = buf := by
  have hp := List.takeWhile_prefix notIac (l := buf)
  have hl : buf.length ≤ (List.takeWhile notIac buf).length := by
    have := congrArg List.length h; simp at this; omega
  exact hp.eq_of_length_le hl

theorem parse_nil (cfg : Cfg) (opts : Nat) : parse cfg opts [] = ([], opts, []) := by
  rw [parse_eq]; simp [telStep]

theorem parse_resume : ∀ (n : Nat) (buf : Str), buf.length ≤ n → ∀ (opts : Nat) (more : Str),
    mergeStr (parse Cfg.fixed opts (buf ++ more)).1 =
      mergeStr ((parse Cfg.fixed opts buf).1 ++
        (parse Cfg.fixed (parse Cfg.fixed opts buf).2.1 ((parse Cfg.fixed opts buf).2.2 ++ more)).1) ∧
    (parse Cfg.fixed opts (buf ++ more)).2 =
      (parse Cfg.fixed (parse Cfg.fixed opts buf).2.1 ((parse Cfg.fixed opts buf).2.2 ++ more)).2 := by
  intro n
  induction n with
  | zero =>
    intro buf hle opts more
    have : buf = [] := List.eq_nil_of_length_eq_zero (by omega)
    subst this
    simp [parse_nil]
  | succ n ih =>
    intro buf hle opts more
    have hrec := parse_eq Cfg.fixed opts buf
    cases hs : telStep Cfg.fixed opts buf with
    | none =>
      rw [hs] at hrec; simp only at hrec
      rw [hrec]; simp
    | some x =>
      obtain ⟨evs, o, c⟩ := x
      rw [hs] at hrec; simp only at hrec
      have hb := telStep_bounds Cfg.fixed opts buf evs o c hs
      -- the generic continuation: the same round is taken on `buf ++ more`
      have cont : telStep Cfg.fixed opts (buf ++ more) = some (evs, o, c) →
          mergeStr (parse Cfg.fixed opts (buf ++ more)).1 =
            mergeStr ((parse Cfg.fixed opts buf).1 ++
              (parse Cfg.fixed (parse Cfg.fixed opts buf).2.1 ((parse Cfg.fixed opts buf).2.2 ++ more)).1) ∧
          (parse Cfg.fixed opts (buf ++ more)).2 =
            (parse Cfg.fixed (parse Cfg.fixed opts buf).2.1 ((parse Cfg.fixed opts buf).2.2 ++ more)).2 := by
        intro hs'
        have e2 := parse_eq Cfg.fixed opts (buf ++ more)
        rw [hs'] at e2; simp only at e2
        have hdrop : (buf ++ more).drop c = buf.drop c ++ more := List.drop_append_of_le_length hb.2
        rw [hdrop] at e2
        have ih' := ih (buf.drop c) (by simp; omega) o more
        rw [e2, hrec]; simp only
        refine ⟨?_, ih'.2⟩
        rw [List.append_assoc]; exact mergeStr_append_congr evs ih'.1
      by_cases hd : List.takeWhile notIac buf = []
      · exact cont (telStep_iac_mono opts buf more hd _ hs)
      · have hstr := telStep_str Cfg.fixed opts buf hd
        rw [hs] at hstr
        simp only [Option.some.injEq, Prod.mk.injEq] at hstr
        obtain ⟨he, ho, hc⟩ := hstr
        by_cases hrest : buf.drop (List.takeWhile notIac buf).length = []
        · -- the whole buffer is data: the delivery may grow when more bytes follow
          have hall := takeWhile_eq_self_of_drop buf hrest
          have hb0 : buf ≠ [] := by intro hh; subst hh; simp at hd
          have ho' := ho.symm
          subst he hc ho'
          rw [hall] at hrec
          simp only [List.drop_length, parse_nil] at hrec
          rw [hrec]; simp only [List.nil_append, List.append_nil]
          cases more with
          | nil => simp only [List.append_nil]; rw [hrec]; simp [parse_nil]
          | cons m ms =>
            have htw := takeWhile_append_all buf (m :: ms) hall
            have hne : List.takeWhile notIac (buf ++ m :: ms) ≠ [] := by rw [htw]; simp [hb0]
            have e2 := parse_eq Cfg.fixed opts (buf ++ m :: ms)
            rw [telStep_str Cfg.fixed opts _ hne, htw] at e2; simp only at e2
            have hdrop : (buf ++ m :: ms).drop (buf ++ List.takeWhile notIac (m :: ms)).length
                = (m :: ms).drop (List.takeWhile notIac (m :: ms)).length := by
              rw [List.length_append, List.drop_append]
              simp
            rw [hdrop] at e2
            by_cases hd2 : List.takeWhile notIac (m :: ms) = []
            · rw [hd2] at e2; simp only [List.append_nil, List.length_nil, List.drop_zero] at e2
              rw [e2]; simp
            · have e3 := parse_eq Cfg.fixed opts (m :: ms)
              rw [telStep_str Cfg.fixed opts _ hd2] at e3; simp only at e3
              rw [e2, e3]; simp only [List.singleton_append, List.cons_append, List.nil_append]
              exact ⟨(mergeStr_str_str _ _ _).symm, trivial⟩
        · have htw := takeWhile_append_stop buf more hrest
          have hne : List.takeWhile notIac (buf ++ more) ≠ [] := by rw [htw]; exact hd
          apply cont
          rw [telStep_str Cfg.fixed opts _ hne, htw, ← he, ← ho, ← hc]


/-- what the loop leaves unconsumed is left unconsumed again (an incomplete command) -/
theorem parse_rest_stable (cfg : Cfg) : ∀ (n : Nat) (buf : Str), buf.length ≤ n → ∀ opts,
    parse cfg (parse cfg opts buf).2.1 (parse cfg opts buf).2.2 = ([], (parse cfg opts buf).2.1, (parse cfg opts buf).2.2) := by
  intro n
  induction n with
  | zero =>
    intro buf hle opts
    have : buf = [] := List.eq_nil_of_length_eq_zero (by omega)
    subst this; simp [parse_nil]
  | succ n ih =>
    intro buf hle opts
    have hrec := parse_eq cfg opts buf
    cases hs : telStep cfg opts buf with
    | none =>
      rw [hs] at hrec; simp only at hrec
      rw [hrec]; simp only; exact hrec
    | some x =>
      obtain ⟨evs, o, c⟩ := x
      rw [hs] at hrec; simp only at hrec
      have hb := telStep_bounds cfg opts buf evs o c hs
      rw [hrec]; simp only
      exact ih (buf.drop c) (by simp; omega) o

theorem feedAll_resume (segs : List Str) : ∀ (opts : Nat) (pending : Str),
    parse Cfg.fixed opts pending = ([], opts, pending) →
    mergeStr (feedAll Cfg.fixed opts pending segs).1 = mergeStr (parse Cfg.fixed opts (pending ++ segs.flatten)).1 ∧
    (feedAll Cfg.fixed opts pending segs).2 = (parse Cfg.fixed opts (pending ++ segs.flatten)).2 := by
  induction segs with
  | nil => intro opts pending hst; simp [feedAll, hst]
  | cons seg segs ih =>
    intro opts pending hst
    simp only [feedAll, telFeed_eq, List.flatten_cons]
    have hstable := parse_rest_stable Cfg.fixed _ (pending ++ seg) (Nat.le_refl _) opts
    have ih' := ih _ _ hstable
    have key := parse_resume _ (pending ++ seg) (Nat.le_refl _) opts segs.flatten
    rw [← List.append_assoc]
    refine ⟨?_, ?_⟩
    · rw [key.1]; exact mergeStr_append_congr _ ih'.1
    · rw [key.2]; exact ih'.2

end Tbox.C13
