/- C13 helper lemmas for `C13_total`: under the repaired configuration no branch that stands for a
   crash / uncaught exception / invalid access is reachable. -/
import TboxModel.C13.ProofsCmd
namespace Tbox.C13

/-! ### `tree`: the depth fuel `nodes.length + 1` suffices (ancestors are distinct live tokens) -/

theorem foldr_isSome {α} (l : List α) (f : α → Option Str → Option Str)
    (h : ∀ a acc, a ∈ l → acc.isSome → (f a acc).isSome) : (l.foldr f (some [])).isSome := by
  induction l with
  | nil => rfl
  | cons a l ih =>
    simp only [List.foldr_cons]
    exact h a _ List.mem_cons_self (ih (fun b acc hb => h b acc (List.mem_cons_of_mem _ hb)))

theorem nodeAt_lt {ns : Nodes} {t : Nat} {n : Node} (h : nodeAt ns t = some n) : t < ns.length := by
  unfold nodeAt at h
  by_cases ht : t < ns.length
  · exact ht
  · rw [List.getD_eq_getElem?_getD, List.getElem?_eq_none (by omega)] at h; simp at h

theorem treeLevel_isSome (ns : Nodes) (fuel : Nat) (anc : List Nat) (indent : Str) (ch : List (Str × Nat))
    (hnd : anc.Nodup) (hb : ∀ t ∈ anc, t < ns.length) (hf : ns.length + 1 ≤ anc.length + fuel) :
    (treeLevel ns fuel anc indent ch).isSome := by
  have hlen : anc.length ≤ ns.length := by
    have := List.Nodup.length_le_of_subset hnd (l₂ := List.range ns.length) (fun x hx => List.mem_range.mpr (hb x hx))
    simpa using this
  induction fuel generalizing anc indent ch with
  | zero => omega
  | succ n ih =>
    unfold treeLevel
    apply foldr_isSome
    intro c acc _ hacc
    obtain ⟨a, ha⟩ := Option.isSome_iff_exists.mp hacc
    subst ha
    simp only
    cases hn : nodeAt ns c.1.2 with
    | none => simp
    | some node =>
      cases node with
      | func => simp
      | dir ch' =>
        simp only
        by_cases hrep : c.1.2 = 0 ∨ c.1.2 ∈ anc
        · simp [hrep]
        · by_cases hem : ch' = []
          · simp [hrep, hem]
          · have hnotin : c.1.2 ∉ anc := fun hin => hrep (Or.inr hin)
            have hnd' : (anc ++ [c.1.2]).Nodup := by
              rw [List.nodup_append]; refine ⟨hnd, by simp, ?_⟩
              intro x hx y hy; simp at hy; subst hy; intro hxy; subst hxy; exact hnotin hx
            have hb' : ∀ t ∈ anc ++ [c.1.2], t < ns.length := by
              intro t ht; rcases List.mem_append.mp ht with h | h
              · exact hb t h
              · simp at h; subst h; exact nodeAt_lt hn
            have hlen' : (anc ++ [c.1.2]).length ≤ ns.length := by
              have := List.Nodup.length_le_of_subset hnd' (l₂ := List.range ns.length) (fun x hx => List.mem_range.mpr (hb' x hx))
              simpa using this
            have := ih (anc ++ [c.1.2]) (indent ++ if c.2 = true then Msg.indentLast else Msg.indentMid) ch' hnd' hb'
              (by simp at hlen' ⊢; omega) hlen'
            obtain ⟨b, hbb⟩ := Option.isSome_iff_exists.mp this
            simp [hrep, hem, hbb]

theorem treeCmd_ok (ns : Nodes) (s : St) (args : List Str) : (treeCmd ns s args).2 = true := by
  unfold treeCmd
  simp only
  cases findNode ns (argOr args Msg.dot) s.path with
  | none => rfl
  | some np =>
    simp only
    cases nodeAt ns (topOf np) with
    | none => rfl
    | some node =>
      cases node with
      | func => rfl
      | dir ch =>
        simp only
        have := treeLevel_isSome ns (ns.length + 1) [] [] ch List.nodup_nil (by simp) (by simp)
        obtain ⟨b, hb⟩ := Option.isSome_iff_exists.mp this
        rw [hb]


/-! ### the session invariant: what every handler of the code relies on, also in the middle of `execute()` -/

structure SInv (s : St) : Prop where
  cur : s.cursor ≤ s.line.length
  hidx : s.hidx ≤ s.hist.length

/-- any consistent session is what some reference editor holds -/
theorem SInv.rel {s : St} (h : SInv s) :
    Rel s { left := (s.line.take s.cursor).reverse, right := s.line.drop s.cursor, hist := s.hist, hidx := s.hidx } :=
  ⟨by simp [RefEd.line], by simp [List.length_take]; exact (Nat.min_eq_left h.cur).symm, rfl, rfl, h.hidx⟩

def Safe (r : St × List Ev) : Prop := SInv r.1 ∧ noBad r.2
def SafeX (r : ExecRes) : Prop := SInv r.1 ∧ noBad r.2.1
def SafeFeed (feed : Feed) : Prop := ∀ f, feed = some f → ∀ s bs, SInv s → Safe (f s bs)

theorem noBad_cons {e : Ev} {l : List Ev} (he : e.isBad = false) (hl : noBad l) : noBad (e :: l) := by
  intro x hx; rcases List.mem_cons.mp hx with h | h
  · subst h; exact he
  · exact hl x h

theorem runScript_safe (ns : Nodes) (feed : Feed) (hf : SafeFeed feed) (acts : List Act) : ∀ s, SInv s → Safe (runScript ns feed s acts) := by
  cases feed with
  | none =>
    induction acts with
    | nil => intro s h; exact ⟨h, noBad_nil⟩
    | cons a r ih =>
      intro s h
      cases a with
      | send bs => simp only [runScript]; exact ⟨(ih s h).1, noBad_cons rfl (ih s h).2⟩
      | feed bs => simp only [runScript]; exact ih s h
      | endS => simp only [runScript]; exact ⟨(ih s h).1, noBad_cons rfl (ih s h).2⟩
      | del => simp only [runScript]; exact ⟨(ih s h).1, noBad_cons rfl (ih s h).2⟩
      | rm i =>
        simp only [runScript]
        have hi := ih { s with tree := some (rmNode (s.eff ns) i) } ⟨h.cur, h.hidx⟩
        exact ⟨hi.1, noBad_cons rfl hi.2⟩
      | mnt p c name =>
        simp only [runScript]
        have hi := ih { s with tree := some (mountNode (s.eff ns) p c name) } ⟨h.cur, h.hidx⟩
        exact ⟨hi.1, noBad_cons rfl hi.2⟩
      | umnt p name =>
        simp only [runScript]
        have hi := ih { s with tree := some (umountNode (s.eff ns) p name) } ⟨h.cur, h.hidx⟩
        exact ⟨hi.1, noBad_cons rfl hi.2⟩
  | some f =>
    induction acts with
    | nil => intro s h; exact ⟨h, noBad_nil⟩
    | cons a r ih =>
      intro s h
      cases a with
      | send bs => simp only [runScript]; exact ⟨(ih s h).1, noBad_cons rfl (ih s h).2⟩
      | feed bs =>
        simp only [runScript]
        have h1 := hf f rfl s bs h
        have h2 := ih (f s bs).1 h1.1
        exact ⟨h2.1, noBad_cons rfl (noBad_append h1.2 h2.2)⟩
      | endS => simp only [runScript]; exact ⟨(ih s h).1, noBad_cons rfl (ih s h).2⟩
      | del => simp only [runScript]; exact ⟨(ih s h).1, noBad_cons rfl (ih s h).2⟩
      | rm i =>
        simp only [runScript]
        have hi := ih { s with tree := some (rmNode (s.eff ns) i) } ⟨h.cur, h.hidx⟩
        exact ⟨hi.1, noBad_cons rfl hi.2⟩
      | mnt p c name =>
        simp only [runScript]
        have hi := ih { s with tree := some (mountNode (s.eff ns) p c name) } ⟨h.cur, h.hidx⟩
        exact ⟨hi.1, noBad_cons rfl hi.2⟩
      | umnt p name =>
        simp only [runScript]
        have hi := ih { s with tree := some (umountNode (s.eff ns) p name) } ⟨h.cur, h.hidx⟩
        exact ⟨hi.1, noBad_cons rfl hi.2⟩

theorem userCmd_safe (ns : Nodes) (feed : Feed) (hf : SafeFeed feed) (s : St) (args : List Str) (cmd : Str) (h : SInv s) :
    Safe (userCmd Cfg.fixed ns feed s args cmd) := by
  unfold userCmd
  cases findNode ns cmd s.path with
  | none => exact ⟨h, by simp [noBad, Ev.isBad]⟩
  | some np =>
    simp only
    cases nodeAt ns (topOf np) with
    | none => exact ⟨h, by simp [noBad, Ev.isBad]⟩
    | some node =>
      cases node with
      | dir ch => exact ⟨⟨h.cur, h.hidx⟩, noBad_nil⟩
      | func script =>
        simp only
        have hr : Safe (runHandler ns feed s script) := by
          unfold runHandler; split
          · exact runScript_safe ns feed hf script s h
          · exact ⟨h, noBad_nil⟩
        exact ⟨hr.1, noBad_cons rfl (noBad_append hr.2 (by simp [noBad, Ev.isBad, Cfg.fixed]))⟩

/-- the repaired index logic: an error is a message, never an invalid access; a selected line is a
history entry -/
theorem selectEntry_fixed (hist : List Str) (a : Str) :
    match selectEntry Cfg.fixed hist a with
    | .err evs => noBad evs
    | .run l _ _ => l ∈ hist := by
  unfold selectEntry
  simp only []
  by_cases h1 : List.drop 1 a = [33]
  · simp only [h1, if_true]
    cases hl : hist.getLast? with
    | none => simp [Cfg.fixed, noBad, Ev.isBad]
    | some l => exact List.mem_of_getLast? hl
  · simp only [h1, if_false]
    cases stoi (List.drop 1 a) with
    | invalid => simp [noBad, Ev.isBad]
    | range => simp [Cfg.fixed, noBad, Ev.isBad]
    | val i =>
      simp only []
      by_cases hi : i ≥ 0
      · simp only [hi, if_true]
        by_cases h2 : i.toNat < hist.length
        · simp only [h2, if_true]
          rw [List.getElem?_eq_getElem h2]
          exact List.getElem_mem h2
        · simp [h2, noBad, Ev.isBad]
      · simp only [hi, if_false]
        have h3 : (!Cfg.fixed.wideNeg && decide (i = intMin)) = false := by simp [Cfg.fixed]
        simp only [h3]
        by_cases h4 : hist.length ≥ (-i).toNat
        · simp only [h4, if_true]
          have hpos : 0 < (-i).toNat := by omega
          have hlt : hist.length - (-i).toNat < hist.length := by omega
          rw [List.getElem?_eq_getElem hlt]
          exact List.getElem_mem hlt
        · simp [h4, noBad, Ev.isBad]



theorem runHistory_safe (inner : St → ExecRes) (rerun : Bool)
    (hin : rerun = false → ∀ s, SInv s → SafeX (inner s)) (s : St) (a : Str) (h : SInv s) :
    SafeX (runHistory Cfg.fixed inner rerun s a) := by
  unfold runHistory
  cases rerun with
  | true => simp only [Cfg.fixed, Bool.and_self, if_true]; exact ⟨h, by simp [noBad, Ev.isBad]⟩
  | false =>
    simp only [Cfg.fixed, Bool.and_false, Bool.false_eq_true, if_false, if_true]
    have hsel := selectEntry_fixed s.hist a
    simp only [Cfg.fixed] at hsel
    split
    · next evs he => rw [he] at hsel; exact ⟨h, hsel⟩
    · next l echo tag he =>
      have hs' : SInv { s with line := l, cursor := l.length } := ⟨by simp, h.hidx⟩
      have hk := hin rfl _ hs'
      refine ⟨hk.1, noBad_cons rfl (noBad_append ?_ hk.2)⟩
      split <;> simp [noBad, Ev.isBad]

theorem executeCmd_safe (ns : Nodes) (feed : Feed) (hf : SafeFeed feed) (inner : St → ExecRes) (rerun : Bool)
    (hin : rerun = false → ∀ s, SInv s → SafeX (inner s)) (s : St) (c : Str) (h : SInv s) :
    SafeX (executeCmd Cfg.fixed ns feed inner rerun s c) := by
  unfold executeCmd
  simp only []
  by_cases h0 : c = []
  · simp only [h0, if_true]; exact ⟨h, by simp [noBad, Ev.isBad]⟩
  · simp only [h0, if_false]
    cases splitCmdline c with
    | none => exact ⟨h, by simp [noBad, Ev.isBad]⟩
    | some args =>
      cases args with
      | nil => exact ⟨h, by simp [noBad, Ev.isBad]⟩
      | cons cmd rest =>
        simp only
        repeat' split
        all_goals first
          | exact runHistory_safe inner rerun hin s _ h
          | (have hu := userCmd_safe (s.eff ns) feed hf s (cmd :: rest) cmd h
             exact ⟨hu.1, noBad_cons rfl hu.2⟩)
          | (rename_i hne; exact absurd (treeCmd_ok _ _ _) hne)
          | (rename_i hne; simp [Cfg.fixed] at hne; done)
          | (refine ⟨⟨h.cur, h.hidx⟩, ?_⟩; simp [noBad, Ev.isBad]; done)

theorem runSegs_safe' (f : St → Str → ExecRes) (hf : ∀ s c, SInv s → SafeX (f s c)) (cs : List Str) :
    ∀ s, SInv s → SafeX (runSegs f s cs) := by
  induction cs with
  | nil => intro s h; exact ⟨h, noBad_nil⟩
  | cons c cs ih =>
    intro s h
    have h1 := hf s c h
    unfold runSegs
    simp only
    split
    · have h2 := ih (f s c).1 h1.1
      exact ⟨h2.1, noBad_append h1.2 h2.2⟩
    · exact h1

/-- with the guard of patch 09 `execute` nests at most twice: no fuel exhaustion -/
theorem execute_safe (ns : Nodes) (feed : Feed) (hf : SafeFeed feed) (fuel : Nat) : ∀ s, SInv s →
    (fuel ≥ 1 → SafeX (execute Cfg.fixed ns feed fuel true s)) ∧
    (fuel ≥ 2 → SafeX (execute Cfg.fixed ns feed fuel false s)) := by
  induction fuel with
  | zero => intro s _; exact ⟨fun h => by omega, fun h => by omega⟩
  | succ n ih =>
    intro s h
    constructor
    · intro _
      have := runSegs_safe' (executeCmd Cfg.fixed ns feed (execute Cfg.fixed ns feed n true) true)
        (fun s c hs => executeCmd_safe ns feed hf _ true (fun hh => by cases hh) s c hs) (splitOn 59 s.line) s h
      unfold execute
      exact ⟨this.1, noBad_cons rfl this.2⟩
    · intro hn
      have := runSegs_safe' (executeCmd Cfg.fixed ns feed (execute Cfg.fixed ns feed n true) false)
        (fun s c hs => executeCmd_safe ns feed hf _ false (fun _ s' hs' => (ih s' hs').1 (by omega)) s c hs) (splitOn 59 s.line) s h
      unfold execute
      exact ⟨this.1, noBad_cons rfl this.2⟩

theorem onEnter_safe (ns : Nodes) (feed : Feed) (hf : SafeFeed feed) (s : St) (h : SInv s) :
    Safe (onEnter Cfg.fixed ns feed s) := by
  have hB := (execute_safe ns feed hf execFuel s h).2 (by decide)
  unfold onEnter
  generalize execute Cfg.fixed ns feed execFuel false s = r at hB
  obtain ⟨s1, evs, ok⟩ := r
  have hb : noBad evs := hB.2
  simp only
  refine ⟨⟨by simp, by simp⟩, ?_⟩
  refine noBad_append (noBad_append (noBad_append ?_ hb) ?_) ?_
  · split <;> simp [noBad, Ev.isBad]
  · cases ok
    · simp [noBad, Ev.isBad]
    · simp only [if_true]; split <;> simp [noBad, Ev.isBad]
  · split <;> simp [noBad, Ev.isBad]

theorem onKey_safe (ns : Nodes) (feed : Feed) (hf : SafeFeed feed) (s : St) (k : Key) (h : SInv s) :
    Safe (onKey Cfg.fixed ns feed s k) := by
  by_cases hk : k = .enter
  · subst hk; exact onEnter_safe ns feed hf s h
  · have hr := onKey_rel Cfg.fixed ns feed h.rel k hk
    refine ⟨⟨?_, hr.1.hle⟩, hr.2⟩
    rw [rel_len hr.1, hr.1.cursor]; omega

theorem runKeys_safe (ns : Nodes) (feed : Feed) (hf : SafeFeed feed) (ks : List Key) :
    ∀ s, SInv s → Safe (runKeys Cfg.fixed ns feed s ks) := by
  induction ks with
  | nil => intro s h; exact ⟨h, noBad_nil⟩
  | cons k ks ih =>
    intro s h
    have h1 := onKey_safe ns feed hf s k h
    have h2 := ih (onKey Cfg.fixed ns feed s k).1 h1.1
    exact ⟨h2.1, noBad_append h1.2 h2.2⟩

theorem feedAt_safe (ns : Nodes) (d : Nat) : SafeFeed (feedAt Cfg.fixed ns d) := by
  induction d with
  | zero => intro f hf; simp [feedAt] at hf
  | succ n ih =>
    intro f hf s bs hs
    simp only [feedAt, Option.some.injEq] at hf
    subst hf
    cases n with
    | zero => exact runKeys_safe ns none (by intro f hf; simp at hf) _ s hs
    | succ m => exact runKeys_safe ns (some (recvStringD Cfg.fixed ns m)) ih _ s hs

theorem recvStringD_safe (ns : Nodes) (d : Nat) (s : St) (bs : Str) (h : SInv s) : Safe (recvStringD Cfg.fixed ns d s bs) :=
  feedAt_safe ns (d + 1) _ rfl s bs h

/-! ### the front ends -/

theorem subWindow_fixed (buf : Str) (len : Nat) (h : len ≥ 4 → 7 ≤ buf.length) : noBad (subWindow Cfg.fixed buf len) := by
  unfold subWindow
  by_cases hl : len < 4
  · simp [Cfg.fixed, hl, noBad]
  · have h7 := h (by omega)
    simp only [Cfg.fixed, Bool.true_and, decide_eq_true_eq, hl, if_false]
    rw [List.getElem?_eq_getElem (show 3 < buf.length by omega), List.getElem?_eq_getElem (show 4 < buf.length by omega),
        List.getElem?_eq_getElem (show 5 < buf.length by omega), List.getElem?_eq_getElem (show 6 < buf.length by omega)]
    simp [noBad, Ev.isBad]

theorem telStep_noBad (opts : Nat) (buf : Str) :
    ∀ x, telStep Cfg.fixed opts buf = some x → noBad x.1 := by
  intro x hx
  unfold telStep at hx
  by_cases h0 : buf = []
  · simp [h0] at hx
  · simp only [h0, if_false] at hx
    split at hx
    · cases hx; simp [noBad, Ev.isBad]
    · by_cases h2 : buf.length < 2
      · simp [h2] at hx
      · simp only [h2, if_false] at hx
        by_cases hn : 251 ≤ buf.getD 1 0 ∧ buf.getD 1 0 ≤ 254
        · simp only [hn, and_self, if_true] at hx
          by_cases h3 : buf.length < 3
          · simp [h3] at hx
          · simp only [h3, if_false] at hx
            repeat' split at hx
            all_goals (cases hx; simp [noBad, Ev.isBad])
        · simp only [hn, if_false] at hx
          by_cases hsb : buf.getD 1 0 = 250
          · simp only [hsb, if_true] at hx
            by_cases h6 : buf.length < 6
            · simp [h6] at hx
            · simp only [h6, if_false] at hx
              cases hk : List.findIdx? isIac (List.drop 4 buf) with
              | none => simp [hk] at hx
              | some k =>
                simp only [hk] at hx
                split at hx
                · simp at hx
                · cases hx
                  simp only
                  split
                  · apply subWindow_fixed
                    intro _
                    obtain ⟨hlt, _⟩ := List.findIdx?_eq_some_iff_getElem.mp hk
                    simp at hlt; omega
                  · exact noBad_nil
          · simp only [hsb, if_false] at hx
            split at hx <;> (cases hx; simp [noBad, Ev.isBad])

theorem telParse_noBad (fuel opts : Nat) (buf : Str) : noBad (telParse Cfg.fixed fuel opts buf).1 := by
  induction fuel generalizing opts buf with
  | zero => simp [telParse, noBad]
  | succ n ih =>
    unfold telParse
    cases hs : telStep Cfg.fixed opts buf with
    | none => exact noBad_nil
    | some x =>
      obtain ⟨evs, o', c⟩ := x
      exact noBad_append (telStep_noBad opts buf _ hs) (ih _ _)

theorem frontStep_noBad (isTel : Bool) (f : FrontSt) (op : FrontOp) :
    ∀ r, frontStep Cfg.fixed isTel f op = some r → noBad r.2 := by
  intro r hr
  cases op <;> simp only [frontStep, Cfg.fixed, if_true] at hr <;> repeat' split at hr
  all_goals first
    | (cases hr; exact noBad_append (telParse_noBad _ _ _) (by simp [noBad, Ev.isBad]))
    | (cases hr; refine noBad_append ?_ (by simp [noBad, Ev.isBad]); split <;> simp [noBad, Ev.isBad]; done)
    | (cases hr; simp [noBad, Ev.isBad]; done)
    | (simp at hr; done)

/-! ### the world -/

/-- a stored session is consistent and carries no private node tree (that exists only while a delivery is processed) -/
def SlotInv (x : Slot) : Prop := ∀ s, x.sess = some s → SInv s ∧ s.tree = none
def WInv (w : World) : Prop := ∀ x ∈ w.slots, SlotInv x

theorem slotInv_default : SlotInv ({} : Slot) := by intro s hs; simp at hs

theorem getD_inv (sl : List Slot) (h : ∀ x ∈ sl, SlotInv x) (k : Nat) : SlotInv (sl.getD k {}) := by
  rw [List.getD_eq_getElem?_getD]
  cases hk : sl[k]? with
  | none => exact slotInv_default
  | some x => exact h x (List.mem_of_getElem? hk)

theorem set_inv (sl : List Slot) (h : ∀ x ∈ sl, SlotInv x) (k : Nat) (y : Slot) (hy : SlotInv y) :
    ∀ x ∈ sl.set k y, SlotInv x := by
  intro x hx
  rcases List.mem_or_eq_of_mem_set hx with h1 | h1
  · exact h x h1
  · exact h1 ▸ hy

theorem WInv.slot {w : World} (h : WInv w) (k : Nat) : SlotInv (w.slot k) := getD_inv w.slots h k

theorem WInv.setSlot {w : World} (h : WInv w) (k : Nat) (y : Slot) (hy : SlotInv y) : WInv (w.setSlot k y) :=
  set_inv w.slots h k y hy

theorem sinv_fresh (o : Nat) : SInv { opts := o } := ⟨by simp, by simp⟩

theorem exitSlot_spec (k : Nat) (x : Slot) : (exitSlot k x).1.sess = none ∧ noBad (exitSlot k x).2 := by
  unfold exitSlot; cases kindOf k <;> simp [noBad, Ev.isBad]

theorem noBad_replicate (n : Nat) (e : Ev) (he : e.isBad = false) : noBad (List.replicate n e) := by
  intro x hx; rw [(List.mem_replicate.mp hx).2]; exact he

theorem closeZombies_safe (ks : List Nat) : ∀ (sl : List Slot), (∀ x ∈ sl, SlotInv x) →
    (∀ x ∈ (closeZombies ks sl).1, SlotInv x) ∧ noBad (closeZombies ks sl).2 := by
  induction ks with
  | nil => intro sl h; exact ⟨h, noBad_nil⟩
  | cons k ks ih =>
    intro sl h
    unfold closeZombies
    simp only
    split
    · have := ih sl h
      exact ⟨this.1, noBad_append (noBad_replicate _ _ rfl) this.2⟩
    · have := ih _ (set_inv sl h k { sl.getD k {} with zfd := 0 } (by intro s hs; exact getD_inv sl h k s hs))
      exact ⟨this.1, noBad_append (noBad_replicate _ _ rfl) this.2⟩

theorem runExits_safe (ex : List (Nat × Nat)) (sl : List Slot) (h : ∀ x ∈ sl, SlotInv x) :
    (∀ x ∈ (runExits Cfg.fixed ex sl).1, SlotInv x) ∧ noBad (runExits Cfg.fixed ex sl).2 := by
  induction ex generalizing sl with
  | nil => exact ⟨h, noBad_nil⟩
  | cons e ex ih =>
    obtain ⟨k, g⟩ := e
    unfold runExits
    simp only
    split
    · have hsp := exitSlot_spec k (sl.getD k {})
      have := ih (sl.set k (exitSlot k (sl.getD k {})).1)
        (set_inv sl h k _ (by intro s hs; rw [hsp.1] at hs; cases hs))
      exact ⟨this.1, noBad_append hsp.2 this.2⟩
    · simp only [Cfg.fixed, if_true]; exact ih sl h

theorem closeEnding_safe (ks : List Nat) : ∀ (sl : List Slot), (∀ x ∈ sl, SlotInv x) →
    (∀ x ∈ (closeEnding ks sl).1, SlotInv x) ∧ noBad (closeEnding ks sl).2 := by
  induction ks with
  | nil => intro sl h; exact ⟨h, noBad_nil⟩
  | cons k ks ih =>
    intro sl h
    unfold closeEnding
    simp only
    split
    · split
      · have := ih _ (set_inv sl h k { sl.getD k {} with ending := false, fstate := 2, sess := none, pending := [], kq := [] }
          (by intro s hs; cases hs))
        exact ⟨this.1, noBad_cons rfl (noBad_cons rfl (noBad_cons rfl this.2))⟩
      · exact ih _ (set_inv sl h k { sl.getD k {} with ending := false } (by intro s hs; exact getD_inv sl h k s hs))
    · exact ih sl h

theorem runExits_noBad (ex : List (Nat × Nat)) : ∀ sl : List Slot, noBad (runExits Cfg.fixed ex sl).2 := by
  induction ex with
  | nil => intro sl; exact noBad_nil
  | cons e ex ih =>
    intro sl
    obtain ⟨k, g⟩ := e
    unfold runExits
    simp only
    split
    · exact noBad_append (exitSlot_spec k _).2 (ih _)
    · simp only [Cfg.fixed, if_true]; exact ih sl

theorem closeEnding_noBad (ks : List Nat) : ∀ sl : List Slot, noBad (closeEnding ks sl).2 := by
  induction ks with
  | nil => intro sl; exact noBad_nil
  | cons k ks ih =>
    intro sl
    unfold closeEnding
    simp only
    split
    · split
      · exact noBad_cons rfl (noBad_cons rfl (noBad_cons rfl (ih _)))
      · exact ih _
    · exact ih sl

theorem doPass_safe (w : World) (h : WInv w) : WInv (doPass Cfg.fixed w).1 ∧ noBad (doPass Cfg.fixed w).2 := by
  have h0 := closeZombies_safe [4, 5, 6] w.slots h
  have h1 := runExits_safe w.exits _ h0.1
  have h2 := closeEnding_safe [4, 5, 6] _ h1.1
  exact ⟨h2.1, noBad_append (noBad_append h0.2 h1.2) h2.2⟩

theorem noBad_filter {evs : List Ev} (p : Ev → Bool) (h : noBad evs) : noBad (evs.filter p) :=
  fun e he => h e (List.mem_filter.mp he).1

theorem delOutcome_fixed (b : Bool) : delOutcome Cfg.fixed b = [] := by
  unfold delOutcome; simp [Cfg.fixed]

theorem finishSlot_safe (w : World) (k : Nat) (x : Slot) (so : Option St) (evs : List Ev) (h : WInv w)
    (hx : SlotInv x) (hso : ∀ s, so = some s → SInv s ∧ s.tree = none) (hb : noBad evs) :
    WInv (finishSlot Cfg.fixed w k x so evs).1 ∧ noBad (finishSlot Cfg.fixed w k x so evs).2 := by
  have hso' : ∀ s, (if evs.any isDelS = true then none else so) = some s → SInv s ∧ s.tree = none := by
    intro s hs; split at hs
    · cases hs
    · exact hso s hs
  have hdrop : noBad (dropTxAfterDel evs) := by
    clear hso hso' hx h
    induction evs with
    | nil => exact noBad_nil
    | cons e r ih =>
      have hr : noBad r := fun y hy => hb y (List.mem_cons_of_mem _ hy)
      have he : e.isBad = false := hb e List.mem_cons_self
      cases e <;> first
        | exact noBad_cons he (ih hr)
        | exact noBad_cons rfl (noBad_filter _ hr)
  unfold finishSlot
  simp only [delOutcome_fixed, List.append_nil]
  cases kindOf k <;> simp only
  · exact ⟨h.setSlot k _ (fun s hs => hso' s hs), noBad_cons rfl (noBad_filter _ hb)⟩
  · exact ⟨h.setSlot k _ (fun s hs => hso' s hs), noBad_cons rfl (noBad_filter _ (noBad_filter _ hb))⟩
  · exact ⟨h.setSlot k _ (fun s hs => hso' s hs), noBad_cons rfl (noBad_filter _ (noBad_filter _ hb))⟩
  · refine ⟨h.setSlot k _ ?_, noBad_cons rfl (noBad_filter _ (noBad_filter _ hdrop))⟩
    split
    · intro s hs; cases hs
    · split
      · intro s hs; cases hs
      · first | exact fun s hs => hso' s hs | exact fun s hs => hso s hs

theorem landTree_inv (w : World) (so : Option St) (h : WInv w) : WInv (landTree w so) := by
  unfold landTree; cases so <;> exact h

theorem landTree_slot (w : World) (so : Option St) (k : Nat) : (landTree w so).slot k = w.slot k := by
  unfold landTree; cases so <;> rfl

theorem deliver_safe (w : World) (k : Nat) (bs : Str) (h : WInv w) :
    WInv (deliver Cfg.fixed w k bs).1 ∧ noBad (deliver Cfg.fixed w k bs).2 := by
  unfold deliver
  simp only
  cases hs : (w.slot k).sess with
  | none => exact ⟨h, noBad_nil⟩
  | some s =>
    have hsafe := recvStringD_safe w.nodes w.depth s bs (h.slot k s hs).1
    exact finishSlot_safe _ k _ _ _ (landTree_inv w _ h) (h.slot k)
      (by intro s' hs'; simp at hs'; subst hs'; exact ⟨⟨hsafe.1.cur, hsafe.1.hidx⟩, rfl⟩) hsafe.2

theorem applyTel_safe (ns : Nodes) (d : Nat) (evs : List Ev) : ∀ (so : Option St), (∀ s, so = some s → SInv s) → noBad evs →
    (∀ s, (applyTel Cfg.fixed ns d so evs).1 = some s → SInv s) ∧ noBad (applyTel Cfg.fixed ns d so evs).2 := by
  induction evs with
  | nil => intro so h _; exact ⟨h, noBad_nil⟩
  | cons e r ih =>
    intro so h hb
    have hr : noBad r := fun x hx => hb x (List.mem_cons_of_mem _ hx)
    have he : e.isBad = false := hb e List.mem_cons_self
    cases e with
    | tel t =>
      cases t with
      | str bs =>
        cases so with
        | none => simpa [applyTel] using ih none h hr
        | some st =>
          have hsafe := recvStringD_safe ns d st bs (h st rfl)
          have := ih (some (recvStringD Cfg.fixed ns d st bs).1) (by intro s hs; simp at hs; subst hs; exact hsafe.1) hr
          simp only [applyTel]
          exact ⟨this.1, noBad_append hsafe.2 this.2⟩
      | setopt o =>
        simp only [applyTel]
        apply ih _ _ hr
        intro s hs
        cases so with
        | none => simp at hs
        | some st =>
          simp at hs; subst hs
          have := h st rfl
          exact ⟨this.cur, this.hidx⟩
      | win a b => simpa [applyTel] using ih so h hr
      | reply bs =>
        have := ih so h hr
        simp only [applyTel]
        exact ⟨this.1, noBad_cons rfl this.2⟩
    | _ =>
      all_goals (
        have := ih so h hr
        simp only [applyTel]
        exact ⟨this.1, noBad_cons he this.2⟩)

theorem noBad_opLine (s : String) : noBad (opLine s) := by simp [opLine, noBad, Ev.isBad]
theorem noBad_retLine (b : Bool) : noBad (retLine b) := noBad_opLine _
theorem noBad_beginEvs (s : St) : noBad (beginEvs s) := by
  unfold beginEvs; split <;> simp [noBad, Ev.isBad]

theorem slotInv_fresh (x : Slot) (o : Nat) (hx : x.sess = some { opts := o }) : SlotInv x := by
  intro s hs; rw [hx] at hs; cases hs; exact ⟨sinv_fresh o, rfl⟩

theorem winv_replicate (n : Nat) : ∀ x ∈ List.replicate n ({} : Slot), SlotInv x := by
  intro x hx; rw [(List.mem_replicate.mp hx).2]; exact slotInv_default

theorem noBad_heard (w : World) (k : Nat) {evs : List Ev} (h : noBad evs) : noBad (heard w k evs) := by
  unfold heard
  split
  · exact noBad_filter _ h
  · exact h

theorem recvSlot_safe (w : World) (k : Nat) (bs : Str) (h : WInv w) :
    WInv (recvSlot Cfg.fixed w k bs).1 ∧ noBad (recvSlot Cfg.fixed w k bs).2 := by
  unfold recvSlot
  simp only
  split
  · split
    · exact ⟨h, noBad_opLine _⟩
    · have := deliver_safe w 6 ((w.slot k).pending ++ bs) h
      exact ⟨this.1, noBad_append (noBad_heard _ _ this.2) (noBad_opLine _)⟩
  · have hf := telParse_noBad (((w.slot k).pending ++ bs).length + 1)
      (match (w.slot k).sess with | some s => s.opts | none => 0) ((w.slot k).pending ++ bs)
    have ha := applyTel_safe w.nodes w.depth _ (w.slot k).sess (fun s hs => (h.slot k s hs).1) hf
    have hfin := finishSlot_safe (landTree w (applyTel Cfg.fixed w.nodes w.depth (w.slot k).sess (telFeed Cfg.fixed
      (match (w.slot k).sess with | some s => s.opts | none => 0) (w.slot k).pending bs).1).1) k { w.slot k with pending := (telFeed Cfg.fixed
      (match (w.slot k).sess with | some s => s.opts | none => 0) (w.slot k).pending bs).2.2 }
      ((applyTel Cfg.fixed w.nodes w.depth (w.slot k).sess (telFeed Cfg.fixed
      (match (w.slot k).sess with | some s => s.opts | none => 0) (w.slot k).pending bs).1).1.map fun s => { s with tree := none }) _ (landTree_inv w _ h)
      (fun s hs => h.slot k s hs)
      (by intro s hs
          cases ho : (applyTel Cfg.fixed w.nodes w.depth (w.slot k).sess (telFeed Cfg.fixed
            (match (w.slot k).sess with | some s => s.opts | none => 0) (w.slot k).pending bs).1).1 with
          | none => rw [ho] at hs; cases hs
          | some s0 => rw [ho] at hs; simp at hs; subst hs; have := ha.1 s0 ho; exact ⟨⟨this.cur, this.hidx⟩, rfl⟩) ha.2
    exact ⟨hfin.1, noBad_append (noBad_heard _ _ hfin.2) (noBad_opLine _)⟩

theorem noBad_sysc (k : Nat) (l : List String) : noBad (l.map (Ev.sysc k)) := by
  intro e he; obtain ⟨t, _, rfl⟩ := List.mem_map.mp he; rfl

theorem sockClosed_inv (w : World) (k : Nat) (h : WInv w) : WInv (sockClosed w k) :=
  h.setSlot _ _ (by intro s hs; simp at hs)

theorem sockEvent_safe (w : World) (k : Nat) (chunks : List Nat) (term : Nat) (h : WInv w) :
    WInv (sockEvent Cfg.fixed w k chunks term).1 ∧ noBad (sockEvent Cfg.fixed w k chunks term).2 := by
  unfold sockEvent
  simp only
  have h1 : WInv (w.setSlot k { w.slot k with kq := (sockRead (w.slot k).kq (w.gone.contains k) chunks term).rest }) :=
    h.setSlot _ _ (fun s hs => h.slot k s hs)
  split
  · split
    · exact ⟨sockClosed_inv _ k h1, noBad_append noBad_nil (noBad_sysc _ _)⟩
    · have := recvSlot_safe _ k (sockRead (w.slot k).kq (w.gone.contains k) chunks term).data h1
      exact ⟨sockClosed_inv _ k this.1, noBad_append this.2 (noBad_sysc _ _)⟩
  · split
    · exact ⟨h1, noBad_append noBad_nil (noBad_sysc _ _)⟩
    · have := recvSlot_safe _ k (sockRead (w.slot k).kq (w.gone.contains k) chunks term).data h1
      exact ⟨this.1, noBad_append this.2 (noBad_sysc _ _)⟩

theorem sockPass_safe (ks : List Nat) : ∀ w : World, WInv w →
    WInv (sockPass Cfg.fixed ks w).1 ∧ noBad (sockPass Cfg.fixed ks w).2 := by
  induction ks with
  | nil => intro w h; exact ⟨h, noBad_nil⟩
  | cons k ks ih =>
    intro w h
    unfold sockPass
    simp only
    split
    · have h1 := sockEvent_safe w k [] 0 h
      have h2 := ih _ h1.1
      exact ⟨h2.1, noBad_append h1.2 h2.2⟩
    · exact ih w h

theorem noBad_dropClosedOf (gone : List Nat) (evs : List Ev) : ∀ cur, noBad evs → noBad (dropClosedOf gone cur evs) := by
  induction evs with
  | nil => intro _ _; exact noBad_nil
  | cons e r ih =>
    intro cur hb
    have hr : noBad r := fun y hy => hb y (List.mem_cons_of_mem _ hy)
    have he : e.isBad = false := hb e List.mem_cons_self
    cases e <;> simp only [dropClosedOf] <;> first
      | exact noBad_cons he (ih _ hr)
      | (split <;> first | exact ih _ hr | exact noBad_cons rfl (ih _ hr))

theorem step_safe (w : World) (op : Op) (h : WInv w) :
    ∀ r, step Cfg.fixed w op = some r → WInv r.1 ∧ noBad r.2 := by
  intro r hr
  cases op with
  | sel k =>
    simp only [step] at hr; split at hr
    · cases hr; exact ⟨h, noBad_opLine _⟩
    · simp at hr
  | depth n =>
    simp only [step] at hr; split at hr
    · cases hr; exact ⟨h, noBad_opLine _⟩
    · simp at hr
  | openS o =>
    simp only [step] at hr; split at hr
    · cases hr
      exact ⟨h.setSlot _ _ (slotInv_fresh _ o rfl), noBad_cons rfl (noBad_append (noBad_beginEvs _) (noBad_retLine _))⟩
    · simp at hr
  | recv bs =>
    simp only [step] at hr; split at hr
    · split at hr
      · cases hr; exact ⟨h, noBad_retLine _⟩
      · cases hr
        have := deliver_safe w w.cur bs h
        exact ⟨this.1, noBad_append this.2 (noBad_retLine _)⟩
    · simp at hr
  | pass =>
    simp only [step] at hr; cases hr
    have h' := sockPass_safe [4, 5, 6] w h
    have := doPass_safe _ h'.1
    exact ⟨this.1, noBad_append (noBad_append h'.2 (noBad_dropClosedOf _ _ _ this.2)) (noBad_opLine _)⟩
  | teardown =>
    simp only [step] at hr; cases hr
    refine ⟨winv_replicate _, noBad_append ?_ (noBad_opLine _)⟩
    simp [Cfg.fixed, noBad]
  | passdown =>
    simp only [step] at hr; split at hr
    · cases hr
      have h1 := closeEnding_safe [4, 5, 6] w.slots h
      have h2 := runExits_safe w.exits _ h1.1
      refine ⟨winv_replicate _, ?_⟩
      refine noBad_append (noBad_append (noBad_filter _ (noBad_filter _ h2.2)) ?_) (noBad_opLine _)
      simp [Cfg.fixed, noBad]
    · simp at hr
  | opt n =>
    simp only [step] at hr; split at hr
    · split at hr
      · cases hr; exact ⟨h, noBad_opLine _⟩
      · next s hs =>
        cases hr
        refine ⟨h.setSlot _ _ ?_, noBad_opLine _⟩
        intro s' hs'; simp at hs'; subst hs'
        have := h.slot w.cur s hs
        exact ⟨⟨this.1.cur, this.1.hidx⟩, this.2⟩
    · simp at hr
  | winsz a b =>
    simp only [step] at hr; split at hr
    · cases hr; exact ⟨h, noBad_retLine _⟩
    · simp at hr
  | close =>
    simp only [step] at hr; split at hr
    · cases hr; exact ⟨h.setSlot _ _ (by intro s hs; simp at hs), noBad_retLine _⟩
    · simp at hr
  | xconn k =>
    simp only [step] at hr; split at hr
    · cases hr
      refine ⟨h.setSlot _ _ (slotInv_fresh _ _ rfl), noBad_cons rfl (noBad_append (noBad_append (noBad_append ?_ (noBad_beginEvs _)) (by simp [noBad, Ev.isBad])) (noBad_opLine _))⟩
      split <;> simp [noBad, Ev.isBad]
    · simp at hr
  | xrecv k bs =>
    simp only [step] at hr; split at hr
    · cases hr; exact recvSlot_safe w k bs h
    · simp at hr
  | xdisc k =>
    simp only [step] at hr; split at hr
    · cases hr; exact ⟨sockClosed_inv w k h, noBad_opLine _⟩
    · simp at hr
  | sstart =>
    simp only [step] at hr; split at hr
    · cases hr
      have := doPass_safe _ (h.setSlot 7 { w.slot 7 with fstate := 1, gen := (w.slot 7).gen + 1, sess := some { opts := 1 } }
        (slotInv_fresh _ 1 rfl))
      exact ⟨this.1, noBad_cons rfl (noBad_append (noBad_append (noBad_beginEvs _) this.2) (noBad_retLine _))⟩
    · simp at hr
  | srecv bs =>
    simp only [step] at hr; split at hr
    · cases hr
      have h1 : WInv (if bs = [] then (w, ([] : List Ev))
          else if (w.slot 7).fstate = 1 then deliver Cfg.fixed w 7 bs
          else (w.setSlot 7 { w.slot 7 with fstate := 1, gen := (w.slot 7).gen + 1, sess := some { opts := 1 } },
                .slot 7 :: beginEvs { opts := 1 })).1 ∧
          noBad (if bs = [] then (w, ([] : List Ev))
          else if (w.slot 7).fstate = 1 then deliver Cfg.fixed w 7 bs
          else (w.setSlot 7 { w.slot 7 with fstate := 1, gen := (w.slot 7).gen + 1, sess := some { opts := 1 } },
                .slot 7 :: beginEvs { opts := 1 })).2 := by
        split
        · exact ⟨h, noBad_nil⟩
        · split
          · exact deliver_safe w 7 bs h
          · exact ⟨h.setSlot 7 _ (slotInv_fresh _ 1 rfl), noBad_cons rfl (noBad_beginEvs _)⟩
      have h2 := doPass_safe _ h1.1
      exact ⟨h2.1, noBad_append (noBad_append h1.2 h2.2) (noBad_opLine _)⟩
    · simp at hr
  | sstop =>
    simp only [step] at hr; split at hr
    · cases hr
      have := doPass_safe _ (h.setSlot 7 { w.slot 7 with fstate := 3, sess := none } (by intro s hs; simp at hs))
      exact ⟨this.1, noBad_append this.2 (noBad_opLine _)⟩
    · simp at hr
  | mkdir =>
    simp only [step] at hr; split at hr
    · cases hr; exact ⟨h, noBad_opLine _⟩
    · simp at hr
  | mkfunc sc =>
    simp only [step] at hr; split at hr
    · cases hr; exact ⟨h, noBad_opLine _⟩
    · simp at hr
  | mount p c name =>
    simp only [step] at hr; repeat' split at hr
    all_goals first | (cases hr; exact ⟨h, noBad_retLine _⟩) | simp at hr
  | umount p name =>
    simp only [step] at hr; repeat' split at hr
    all_goals first | (cases hr; exact ⟨h, noBad_retLine _⟩) | simp at hr
  | rmnode i =>
    simp only [step] at hr; repeat' split at hr
    all_goals first | (cases hr; exact ⟨h, noBad_retLine _⟩) | simp at hr
  | split bs =>
    simp only [step] at hr; cases hr; exact ⟨h, by simp [noBad, Ev.isBad]⟩
  | front isTel f =>
    simp only [step] at hr
    split at hr
    · cases hf : frontStep Cfg.fixed true w.tel f with
      | none => simp [hf] at hr
      | some x => simp [hf] at hr; cases hr; exact ⟨h, frontStep_noBad _ _ _ _ hf⟩
    · cases hf : frontStep Cfg.fixed false w.rpc f with
      | none => simp [hf] at hr
      | some x => simp [hf] at hr; cases hr; exact ⟨h, frontStep_noBad _ _ _ _ hf⟩
  | wfault k m =>
    simp only [step] at hr; split at hr
    · cases hr; exact ⟨h, noBad_opLine _⟩
    · simp at hr
  | xclose k =>
    simp only [step] at hr; split at hr
    · cases hr; exact ⟨h, noBad_opLine _⟩
    · simp at hr
  | xsock k bs chunks term =>
    simp only [step] at hr; split at hr
    · cases hr
      have := sockEvent_safe (w.setSlot k { w.slot k with kq := (w.slot k).kq ++ bs }) k chunks term
        (h.setSlot _ _ (fun s hs => h.slot k s hs))
      exact ⟨this.1, noBad_append this.2 (noBad_opLine _)⟩
    · simp at hr
  | xconnf k e =>
    simp only [step] at hr; split at hr
    · cases hr; exact ⟨h, noBad_cons rfl (noBad_cons rfl (noBad_opLine _))⟩
    · simp at hr
  | ssplit sep bs =>
    simp only [step] at hr; split at hr
    · simp at hr
    · cases hr; exact ⟨h, by simp [noBad, Ev.isBad]⟩
  | hexstr bs n upper delim =>
    simp only [step] at hr; split at hr
    · cases hr; exact ⟨h, by simp [noBad, Ev.isBad]⟩
    · simp at hr

theorem run_safe (w : World) (ops : List Op) (h : WInv w) : noBad (run Cfg.fixed w ops).2 := by
  induction ops generalizing w with
  | nil => exact noBad_nil
  | cons op ops ih =>
    unfold run
    cases hs : step Cfg.fixed w op with
    | none => exact ih w h
    | some r =>
      have := step_safe w op h r hs
      exact noBad_append this.2 (ih r.1 this.1)

theorem winv_init : WInv {} := winv_replicate _

/-- the invariant holds after every op sequence -/
theorem run_inv (w : World) (ops : List Op) (h : WInv w) : WInv (run Cfg.fixed w ops).1 := by
  induction ops generalizing w with
  | nil => exact h
  | cons op ops ih =>
    unfold run
    cases hs : step Cfg.fixed w op with
    | none => exact ih w h
    | some r => exact ih r.1 (step_safe w op h r hs).1

end Tbox.C13
