/- C13 helper lemmas for `C13_total`: under the repaired configuration no branch that stands for a
   crash / uncaught exception / invalid access is reachable. -/
import TboxModel.C13.ProofsCmd
namespace Tbox.C13

/-! ### `tree`: the depth fuel `nodes.length + 1` suffices (ancestors are distinct live tokens) -/

theorem foldr_isSome {α} (l : List α) (f : α → Option Str → Option Str)
    (h : ∀ a acc, a ∈ l → acc.isSome → (f a acc).isSome) : (l.foldr f (some [])).isSome := by
  induction l with
  | nil => rfl
  | cons a l ih =>
    simp only [List.foldr_cons]
    exact h a _ List.mem_cons_self (ih (fun b acc hb => h b acc (List.mem_cons_of_mem _ hb)))

theorem nodeAt_lt {ns : Nodes} {t : Nat} {n : Node} (h : nodeAt ns t = some n) : t < ns.length := by
  unfold nodeAt at h
  by_cases ht : t < ns.length
  · exact ht
  · rw [List.getD_eq_getElem?_getD, List.getElem?_eq_none (by omega)] at h; simp at h

theorem treeLevel_isSome (ns : Nodes) (fuel : Nat) (anc : List Nat) (indent : Str) (ch : List (Str × Nat))
    (hnd : anc.Nodup) (hb : ∀ t ∈ anc, t < ns.length) (hf : ns.length + 1 ≤ anc.length + fuel) :
    (treeLevel ns fuel anc indent ch).isSome := by
  have hlen : anc.length ≤ ns.length := by
    have := List.Nodup.length_le_of_subset hnd (l₂ := List.range ns.length) (fun x hx => List.mem_range.mpr (hb x hx))
    simpa using this
  induction fuel generalizing anc indent ch with
  | zero => omega
  | succ n ih =>
    unfold treeLevel
    apply foldr_isSome
    intro c acc _ hacc
    obtain ⟨a, ha⟩ := Option.isSome_iff_exists.mp hacc
    subst ha
    simp only
    cases hn : nodeAt ns c.1.2 with
    | none => simp
    | some node =>
      cases node with
      | func => simp
      | dir ch' =>
        simp only
        by_cases hrep : c.1.2 = 0 ∨ c.1.2 ∈ anc
        · simp [hrep]
        · by_cases hem : ch' = []
          · simp [hrep, hem]
          · have hnotin : c.1.2 ∉ anc := fun hin => hrep (Or.inr hin)
            have hnd' : (anc ++ [c.1.2]).Nodup := by
              rw [List.nodup_append]; refine ⟨hnd, by simp, ?_⟩
              intro x hx y hy; simp at hy; subst hy; intro hxy; subst hxy; exact hnotin hx
            have hb' : ∀ t ∈ anc ++ [c.1.2], t < ns.length := by
              intro t ht; rcases List.mem_append.mp ht with h | h
              · exact hb t h
              · simp at h; subst h; exact nodeAt_lt hn
            have hlen' : (anc ++ [c.1.2]).length ≤ ns.length := by
              have := List.Nodup.length_le_of_subset hnd' (l₂ := List.range ns.length) (fun x hx => List.mem_range.mpr (hb' x hx))
              simpa using this
            have := ih (anc ++ [c.1.2]) (indent ++ if c.2 = true then Msg.indentLast else Msg.indentMid) ch' hnd' hb'
              (by simp at hlen' ⊢; omega) hlen'
            obtain ⟨b, hbb⟩ := Option.isSome_iff_exists.mp this
            simp [hrep, hem, hbb]

theorem treeCmd_ok (ns : Nodes) (s : St) (args : List Str) : (treeCmd ns s args).2 = true := by
  unfold treeCmd
  simp only
  cases findNode ns (argOr args Msg.dot) s.path with
  | none => rfl
  | some np =>
    simp only
    cases nodeAt ns (topOf np) with
    | none => rfl
    | some node =>
      cases node with
      | func => rfl
      | dir ch =>
        simp only
        have := treeLevel_isSome ns (ns.length + 1) [] [] ch List.nodup_nil (by simp) (by simp)
        obtain ⟨b, hb⟩ := Option.isSome_iff_exists.mp this
        rw [hb]


/-! ### history references: a history entry never contains one, so `execute` nests at most twice -/

/-- this `;`-segment is dispatched to `executeRunHistoryCmd` -/
def isBangSeg (seg : Str) : Bool :=
  !(seg == []) && (match splitCmdline seg with
    | some (cmd :: _) => cmd.head? == some 33
    | _ => false)

def BangFree (l : Str) : Prop := ∀ seg ∈ splitOn 59 l, isBangSeg seg = false
def HistBF (h : List Str) : Prop := ∀ l ∈ h, BangFree l

theorem noBad_cons {e : Ev} {l : List Ev} (he : e.isBad = false) (hl : noBad l) : noBad (e :: l) := by
  intro x hx; rcases List.mem_cons.mp hx with h | h
  · subst h; exact he
  · exact hl x h

theorem userCmd_noBad (ns : Nodes) (s : St) (args : List Str) (cmd : Str) : noBad (userCmd ns s args cmd).2 := by
  unfold userCmd; repeat' split
  all_goals simp [noBad, Ev.isBad]

/-- a segment that is not a history reference: `inner` is not called, the current input stays, and no
invalid access happens (whatever the configuration) -/
theorem executeCmd_nonbang (cfg : Cfg) (ns : Nodes) (inner : St → ExecRes) (s : St) (seg : Str)
    (h : isBangSeg seg = false) :
    (executeCmd cfg ns inner s seg).1.line = s.line ∧ noBad (executeCmd cfg ns inner s seg).2.1 := by
  unfold executeCmd
  by_cases h0 : seg = []
  · simp [h0, noBad, Ev.isBad]
  · simp only [h0, if_false]
    cases hs : splitCmdline seg with
    | none => simp [noBad, Ev.isBad]
    | some args =>
      cases args with
      | nil => simp [noBad, Ev.isBad]
      | cons cmd rest =>
        have hb : ¬ cmd.head? = some 33 := by
          intro hh; simp [isBangSeg, h0, hs, hh] at h
        simp only
        repeat' split
        all_goals first
          | exact ⟨rfl, noBad_cons rfl (userCmd_noBad _ _ _ _)⟩
          | (exfalso; apply hb; assumption)
          | (rename_i hne; exact absurd (treeCmd_ok _ _ _) hne)
          | (refine ⟨rfl, ?_⟩; simp [noBad, Ev.isBad]; done)

theorem runSegs_nonbang (cfg : Cfg) (ns : Nodes) (inner : St → ExecRes) (s : St) (segs : List Str)
    (h : ∀ seg ∈ segs, isBangSeg seg = false) :
    (runSegs (executeCmd cfg ns inner) s segs).1.line = s.line ∧ noBad (runSegs (executeCmd cfg ns inner) s segs).2.1 := by
  induction segs generalizing s with
  | nil => exact ⟨rfl, noBad_nil⟩
  | cons c cs ih =>
    have h1 := executeCmd_nonbang cfg ns inner s c (h c List.mem_cons_self)
    unfold runSegs
    simp only
    split
    · have h2 := ih (executeCmd cfg ns inner s c).1 (fun x hx => h x (List.mem_cons_of_mem _ hx))
      exact ⟨h2.1.trans h1.1, noBad_append h1.2 h2.2⟩
    · exact h1

/-- Lemma A: executing a line without history references needs one level only -/
theorem execute_bangfree (cfg : Cfg) (ns : Nodes) (n : Nat) (s : St) (h : BangFree s.line) :
    (execute cfg ns (n + 1) s).1.line = s.line ∧ noBad (execute cfg ns (n + 1) s).2.1 := by
  have := runSegs_nonbang cfg ns (execute cfg ns n) s (splitOn 59 s.line) h
  unfold execute
  exact ⟨this.1, noBad_cons rfl this.2⟩

/-- the repaired index logic: an error is a message, never an invalid access; a selected line is a
history entry -/
theorem selectEntry_fixed (hist : List Str) (a : Str) :
    match selectEntry Cfg.fixed hist a with
    | .err evs => noBad evs
    | .run l _ _ => l ∈ hist := by
  unfold selectEntry
  simp only []
  by_cases h1 : List.drop 1 a = [33]
  · simp only [h1, if_true]
    cases hl : hist.getLast? with
    | none => simp [Cfg.fixed, noBad, Ev.isBad]
    | some l => exact List.mem_of_getLast? hl
  · simp only [h1, if_false]
    cases stoi (List.drop 1 a) with
    | invalid => simp [noBad, Ev.isBad]
    | range => simp [Cfg.fixed, noBad, Ev.isBad]
    | val i =>
      simp only []
      by_cases hi : i ≥ 0
      · simp only [hi, if_true]
        by_cases h2 : i.toNat < hist.length
        · simp only [h2, if_true]
          rw [List.getElem?_eq_getElem h2]
          exact List.getElem_mem h2
        · simp [h2, noBad, Ev.isBad]
      · simp only [hi, if_false]
        have h3 : (!Cfg.fixed.wideNeg && decide (i = intMin)) = false := by simp [Cfg.fixed]
        simp only [h3]
        by_cases h4 : hist.length ≥ (-i).toNat
        · simp only [h4, if_true]
          have hpos : 0 < (-i).toNat := by omega
          have hlt : hist.length - (-i).toNat < hist.length := by omega
          rw [List.getElem?_eq_getElem hlt]
          exact List.getElem_mem hlt
        · simp [h4, noBad, Ev.isBad]


theorem executeCmd_bang (cfg : Cfg) (ns : Nodes) (inner : St → ExecRes) (s : St) (seg : Str)
    (h : isBangSeg seg = true) :
    ∃ cmd, executeCmd cfg ns inner s seg = runHistory cfg inner s cmd := by
  unfold isBangSeg at h
  have h0 : seg ≠ [] := by intro hh; simp [hh] at h
  cases hs : splitCmdline seg with
  | none => simp [hs] at h
  | some args =>
    cases args with
    | nil => simp [hs] at h
    | cons cmd rest =>
      have hb : cmd.head? = some 33 := by simpa [hs, h0] using h
      refine ⟨cmd, ?_⟩
      have n1 : cmd ≠ Msg.cmdLs := by intro hh; subst hh; simp [Msg.cmdLs] at hb
      have n2 : cmd ≠ Msg.cmdPwd := by intro hh; subst hh; simp [Msg.cmdPwd] at hb
      have n3 : cmd ≠ Msg.cmdCd := by intro hh; subst hh; simp [Msg.cmdCd] at hb
      have n4 : cmd ≠ Msg.cmdHelp := by intro hh; subst hh; simp [Msg.cmdHelp] at hb
      have n5 : cmd ≠ Msg.cmdHistory := by intro hh; subst hh; simp [Msg.cmdHistory] at hb
      have n6 : cmd ≠ Msg.cmdExit := by intro hh; subst hh; simp [Msg.cmdExit] at hb
      have n7 : cmd ≠ Msg.cmdQuit := by intro hh; subst hh; simp [Msg.cmdQuit] at hb
      have n8 : cmd ≠ Msg.cmdTree := by intro hh; subst hh; simp [Msg.cmdTree] at hb
      unfold executeCmd
      simp [h0, hs, n1, n2, n3, n4, n5, n6, n7, n8, hb]

/-- one `;`-segment at the outer level of the repaired code -/
theorem seg_step (ns : Nodes) (n : Nat) (st : St) (seg : Str) (hH : HistBF st.hist) :
    let r := executeCmd Cfg.fixed ns (execute Cfg.fixed ns (n + 1)) st seg
    noBad r.2.1 ∧
    ((r.1.line = st.line ∧ (isBangSeg seg = false ∨ r.2.2 = false)) ∨ r.1.line ∈ st.hist) := by
  dsimp only
  cases hb : isBangSeg seg with
  | false =>
    have := executeCmd_nonbang Cfg.fixed ns (execute Cfg.fixed ns (n + 1)) st seg hb
    exact ⟨this.2, Or.inl ⟨this.1, Or.inl rfl⟩⟩
  | true =>
    obtain ⟨cmd, hc⟩ := executeCmd_bang Cfg.fixed ns (execute Cfg.fixed ns (n + 1)) st seg hb
    have hsel := selectEntry_fixed st.hist cmd
    rw [hc]
    unfold runHistory
    cases hse : selectEntry Cfg.fixed st.hist cmd with
    | err evs =>
      rw [hse] at hsel
      exact ⟨hsel, Or.inl ⟨rfl, Or.inr rfl⟩⟩
    | run l echo tag =>
      rw [hse] at hsel
      have hA := execute_bangfree Cfg.fixed ns n { st with line := l } (hH l hsel)
      simp only
      refine ⟨noBad_cons rfl (noBad_append ?_ hA.2), Or.inr ?_⟩
      · split <;> simp [noBad, Ev.isBad]
      · show (execute Cfg.fixed ns (n + 1) { st with line := l }).1.line ∈ st.hist
        rw [hA.1]; exact hsel

theorem runSegs_safe (ns : Nodes) (n : Nat) (st : St) (segs : List Str) (hH : HistBF st.hist) :
    let r := runSegs (executeCmd Cfg.fixed ns (execute Cfg.fixed ns (n + 1))) st segs
    noBad r.2.1 ∧
    (r.2.2 = true → (r.1.line = st.line ∧ ∀ seg ∈ segs, isBangSeg seg = false) ∨ r.1.line ∈ st.hist) := by
  induction segs generalizing st with
  | nil => exact ⟨noBad_nil, fun _ => Or.inl ⟨rfl, by simp⟩⟩
  | cons c cs ih =>
    have h1 := seg_step ns n st c hH
    have hk := executeCmd_keep Cfg.fixed ns (execute Cfg.fixed ns (n + 1)) (fun s => execute_keep _ _ _ s) st c
    simp only at h1
    unfold runSegs
    simp only
    generalize executeCmd Cfg.fixed ns (execute Cfg.fixed ns (n + 1)) st c = r1 at h1 hk
    obtain ⟨s1, ev1, ok1⟩ := r1
    cases ok1 with
    | false => exact ⟨h1.1, fun hh => by simp at hh⟩
    | true =>
      simp only [if_true]
      have hh1 : s1.hist = st.hist := hk.hist
      have h2 := ih s1 (by rw [hh1]; exact hH)
      simp only at h2
      refine ⟨noBad_append h1.1 h2.1, fun hok => ?_⟩
      rcases h2.2 hok with ⟨hl, hcs⟩ | hin
      · rcases h1.2 with ⟨hl1, hb | hf⟩ | hin1
        · left; refine ⟨hl.trans hl1, ?_⟩
          intro seg hseg; rcases List.mem_cons.mp hseg with h | h
          · subst h; exact hb
          · exact hcs seg h
        · simp at hf
        · right; rw [hl]; exact hin1
      · right; rw [← hh1]; exact hin

/-- Lemma B: with a history free of history references, two levels of `execute` suffice and a line
that gets stored is again free of history references -/
theorem execute_safe (ns : Nodes) (n : Nat) (s : St) (hH : HistBF s.hist) :
    noBad (execute Cfg.fixed ns (n + 2) s).2.1 ∧
    ((execute Cfg.fixed ns (n + 2) s).2.2 = true → BangFree (execute Cfg.fixed ns (n + 2) s).1.line) := by
  have h := runSegs_safe ns n s (splitOn 59 s.line) hH
  simp only at h
  unfold execute
  refine ⟨noBad_cons rfl h.1, fun hok => ?_⟩
  rcases h.2 hok with ⟨hl, hb⟩ | hin
  · show BangFree (runSegs _ s (splitOn 59 s.line)).1.line
    rw [hl]; exact hb
  · exact hH _ hin


/-! ### the session invariant -/

structure SInv (s : St) : Prop where
  cur : s.cursor ≤ s.line.length
  hidx : s.hidx ≤ s.hist.length
  bf : HistBF s.hist

/-- any consistent session is what some reference editor holds -/
theorem SInv.rel {s : St} (h : SInv s) :
    Rel s { left := (s.line.take s.cursor).reverse, right := s.line.drop s.cursor, hist := s.hist, hidx := s.hidx } :=
  ⟨by simp [RefEd.line], by simp [List.length_take]; exact (Nat.min_eq_left h.cur).symm, rfl, rfl, h.hidx⟩

theorem onEnter_safe (ns : Nodes) (s : St) (h : SInv s) :
    SInv (onEnter Cfg.fixed ns s).1 ∧ noBad (onEnter Cfg.fixed ns s).2 := by
  have hB := execute_safe ns 0 s h.bf
  have hk := execute_keep Cfg.fixed ns execFuel s
  unfold onEnter
  have he : execFuel = 0 + 2 := rfl
  rw [he] at hk ⊢
  generalize execute Cfg.fixed ns (0 + 2) s = r at hB hk
  obtain ⟨s1, evs, ok⟩ := r
  have hh : s1.hist = s.hist := hk.hist
  simp only at hB
  cases ok with
  | false =>
    refine ⟨⟨by simp, by simp, ?_⟩, ?_⟩
    · simp only [hh]; exact h.bf
    · simp only []
      refine noBad_append (noBad_append (noBad_append ?_ hB.1) (by simp [noBad, Ev.isBad])) ?_
      · split <;> simp [noBad, Ev.isBad]
      · split <;> simp [noBad, Ev.isBad]
  | true =>
    have hbf : BangFree s1.line := hB.2 rfl
    have hall : HistBF (s1.hist ++ [s1.line]) := by
      intro l hl; rcases List.mem_append.mp hl with h1 | h1
      · rw [hh] at h1; exact h.bf l h1
      · simp at h1; subst h1; exact hbf
    refine ⟨⟨by simp, by simp, ?_⟩, ?_⟩
    · simp only [if_true]
      split
      · intro l hl; exact hall l (List.mem_of_mem_drop hl)
      · exact hall
    · simp only [if_true]
      refine noBad_append (noBad_append (noBad_append ?_ hB.1) ?_) ?_
      · split <;> simp [noBad, Ev.isBad]
      · split <;> simp [noBad, Ev.isBad]
      · split <;> simp [noBad, Ev.isBad]

theorem onKey_safe (ns : Nodes) (s : St) (k : Key) (h : SInv s) :
    SInv (onKey Cfg.fixed ns s k).1 ∧ noBad (onKey Cfg.fixed ns s k).2 := by
  by_cases hk : k = .enter
  · subst hk; exact onEnter_safe ns s h
  · have hr := onKey_rel Cfg.fixed ns h.rel k hk
    have kk := onKey_keep Cfg.fixed ns s k hk
    refine ⟨⟨?_, hr.1.hle, by rw [kk.hist]; exact h.bf⟩, hr.2⟩
    rw [rel_len hr.1, hr.1.cursor]; omega


theorem runKeys_safe (ns : Nodes) (s : St) (ks : List Key) (h : SInv s) :
    SInv (runKeys Cfg.fixed ns s ks).1 ∧ noBad (runKeys Cfg.fixed ns s ks).2 := by
  induction ks generalizing s with
  | nil => exact ⟨h, noBad_nil⟩
  | cons k ks ih =>
    have h1 := onKey_safe ns s k h
    have h2 := ih (onKey Cfg.fixed ns s k).1 h1.1
    exact ⟨h2.1, noBad_append h1.2 h2.2⟩

/-! ### the front ends -/

theorem subWindow_fixed (buf : Str) (len : Nat) (h : len ≥ 4 → 7 ≤ buf.length) : noBad (subWindow Cfg.fixed buf len) := by
  unfold subWindow
  by_cases hl : len < 4
  · simp [Cfg.fixed, hl, noBad]
  · have h7 := h (by omega)
    simp only [Cfg.fixed, Bool.true_and, decide_eq_true_eq, hl, if_false]
    rw [List.getElem?_eq_getElem (show 3 < buf.length by omega), List.getElem?_eq_getElem (show 4 < buf.length by omega),
        List.getElem?_eq_getElem (show 5 < buf.length by omega), List.getElem?_eq_getElem (show 6 < buf.length by omega)]
    simp [noBad, Ev.isBad]

theorem telStep_noBad (opts : Nat) (buf : Str) :
    ∀ x, telStep Cfg.fixed opts buf = some x → noBad x.1 := by
  intro x hx
  unfold telStep at hx
  by_cases h0 : buf = []
  · simp [h0] at hx
  · simp only [h0, if_false] at hx
    split at hx
    · cases hx; simp [noBad, Ev.isBad]
    · by_cases h2 : buf.length < 2
      · simp [h2] at hx
      · simp only [h2, if_false] at hx
        by_cases hn : 251 ≤ buf.getD 1 0 ∧ buf.getD 1 0 ≤ 254
        · simp only [hn, and_self, if_true] at hx
          by_cases h3 : buf.length < 3
          · simp [h3] at hx
          · simp only [h3, if_false] at hx
            repeat' split at hx
            all_goals (cases hx; simp [noBad, Ev.isBad])
        · simp only [hn, if_false] at hx
          by_cases hsb : buf.getD 1 0 = 250
          · simp only [hsb, if_true] at hx
            by_cases h6 : buf.length < 6
            · simp [h6] at hx
            · simp only [h6, if_false] at hx
              cases hk : List.findIdx? isIac (List.drop 4 buf) with
              | none => simp [hk] at hx
              | some k =>
                simp only [hk] at hx
                split at hx
                · simp at hx
                · cases hx
                  simp only
                  split
                  · apply subWindow_fixed
                    intro _
                    obtain ⟨hlt, _⟩ := List.findIdx?_eq_some_iff_getElem.mp hk
                    simp at hlt; omega
                  · exact noBad_nil
          · simp only [hsb, if_false] at hx
            split at hx <;> (cases hx; simp [noBad, Ev.isBad])

theorem telParse_noBad (fuel opts : Nat) (buf : Str) : noBad (telParse Cfg.fixed fuel opts buf).1 := by
  induction fuel generalizing opts buf with
  | zero => simp [telParse, noBad]
  | succ n ih =>
    unfold telParse
    cases hs : telStep Cfg.fixed opts buf with
    | none => exact noBad_nil
    | some x =>
      obtain ⟨evs, o', c⟩ := x
      exact noBad_append (telStep_noBad opts buf _ hs) (ih _ _)

theorem frontStep_noBad (isTel : Bool) (f : FrontSt) (op : FrontOp) :
    ∀ r, frontStep Cfg.fixed isTel f op = some r → noBad r.2 := by
  intro r hr
  cases op <;> simp only [frontStep, Cfg.fixed, if_true] at hr <;> repeat' split at hr
  all_goals first
    | (cases hr; exact noBad_append (telParse_noBad _ _ _) (by simp [noBad, Ev.isBad]))
    | (cases hr; refine noBad_append ?_ (by simp [noBad, Ev.isBad]); split <;> simp [noBad, Ev.isBad]; done)
    | (cases hr; simp [noBad, Ev.isBad]; done)
    | (simp at hr; done)

/-! ### the world -/

def SlotInv (x : Slot) : Prop := ∀ s, x.sess = some s → SInv s
def WInv (w : World) : Prop := ∀ x ∈ w.slots, SlotInv x

theorem slotInv_default : SlotInv ({} : Slot) := by intro s hs; simp at hs

theorem getD_inv (sl : List Slot) (h : ∀ x ∈ sl, SlotInv x) (k : Nat) : SlotInv (sl.getD k {}) := by
  rw [List.getD_eq_getElem?_getD]
  cases hk : sl[k]? with
  | none => exact slotInv_default
  | some x => exact h x (List.mem_of_getElem? hk)

theorem set_inv (sl : List Slot) (h : ∀ x ∈ sl, SlotInv x) (k : Nat) (y : Slot) (hy : SlotInv y) :
    ∀ x ∈ sl.set k y, SlotInv x := by
  intro x hx
  rcases List.mem_or_eq_of_mem_set hx with h1 | h1
  · exact h x h1
  · exact h1 ▸ hy

theorem WInv.slot {w : World} (h : WInv w) (k : Nat) : SlotInv (w.slot k) := getD_inv w.slots h k

theorem WInv.setSlot {w : World} (h : WInv w) (k : Nat) (y : Slot) (hy : SlotInv y) : WInv (w.setSlot k y) :=
  set_inv w.slots h k y hy

theorem slotInv_none (x : Slot) (f g : Nat) (p : Str) : SlotInv { x with sess := none, fstate := f, gen := g, pending := p } := by
  intro s hs; simp at hs

theorem sinv_fresh (o : Nat) : SInv { opts := o } :=
  ⟨by simp, by simp, by intro l hl; simp at hl⟩

theorem slotInv_fresh (f g o : Nat) (p : Str) : SlotInv { fstate := f, gen := g, sess := some { opts := o }, pending := p } := by
  intro s hs; simp at hs; subst hs; exact sinv_fresh o

theorem exitSlot_spec (k : Nat) (x : Slot) : (exitSlot k x).1.sess = none ∧ noBad (exitSlot k x).2 := by
  unfold exitSlot; cases kindOf k <;> simp [noBad, Ev.isBad]

theorem runExits_safe (ex : List (Nat × Nat)) (sl : List Slot) (h : ∀ x ∈ sl, SlotInv x) :
    (∀ x ∈ (runExits Cfg.fixed ex sl).1, SlotInv x) ∧ noBad (runExits Cfg.fixed ex sl).2 := by
  induction ex generalizing sl with
  | nil => exact ⟨h, noBad_nil⟩
  | cons e ex ih =>
    obtain ⟨k, g⟩ := e
    unfold runExits
    simp only
    split
    · have hsp := exitSlot_spec k (sl.getD k {})
      have := ih (sl.set k (exitSlot k (sl.getD k {})).1)
        (set_inv sl h k _ (by intro s hs; rw [hsp.1] at hs; cases hs))
      exact ⟨this.1, noBad_append hsp.2 this.2⟩
    · simp only [Cfg.fixed, if_true]; exact ih sl h

theorem doPass_safe (w : World) (h : WInv w) : WInv (doPass Cfg.fixed w).1 ∧ noBad (doPass Cfg.fixed w).2 := by
  have := runExits_safe w.exits w.slots h
  exact ⟨this.1, this.2⟩

theorem deliver_safe (w : World) (k : Nat) (bs : Str) (h : WInv w) :
    WInv (deliver Cfg.fixed w k bs).1 ∧ noBad (deliver Cfg.fixed w k bs).2 := by
  unfold deliver
  simp only
  cases hs : (w.slot k).sess with
  | none => exact ⟨h, noBad_nil⟩
  | some s =>
    have hsafe := runKeys_safe w.nodes s (recvKeys bs) (h.slot k s hs)
    simp only
    refine ⟨?_, noBad_cons rfl hsafe.2⟩
    have : WInv (w.setSlot k { w.slot k with sess := some (recvString Cfg.fixed w.nodes s bs).1 }) :=
      h.setSlot k _ (by intro s' hs'; simp at hs'; subst hs'; exact hsafe.1)
    exact this

theorem applyTel_safe (ns : Nodes) (evs : List Ev) : ∀ (so : Option St), (∀ s, so = some s → SInv s) → noBad evs →
    (∀ s, (applyTel Cfg.fixed ns so evs).1 = some s → SInv s) ∧ noBad (applyTel Cfg.fixed ns so evs).2 := by
  induction evs with
  | nil => intro so h _; exact ⟨h, noBad_nil⟩
  | cons e r ih =>
    intro so h hb
    have hr : noBad r := fun x hx => hb x (List.mem_cons_of_mem _ hx)
    have he : e.isBad = false := hb e List.mem_cons_self
    cases e with
    | tel t =>
      cases t with
      | str d =>
        cases so with
        | none => simpa [applyTel] using ih none h hr
        | some st =>
          have hsafe := runKeys_safe ns st (recvKeys d) (h st rfl)
          have := ih (some (recvString Cfg.fixed ns st d).1) (by intro s hs; simp at hs; subst hs; exact hsafe.1) hr
          simp only [applyTel]
          exact ⟨this.1, noBad_append hsafe.2 this.2⟩
      | setopt o =>
        simp only [applyTel]
        apply ih _ _ hr
        intro s hs
        cases so with
        | none => simp at hs
        | some st =>
          simp at hs; subst hs
          have := h st rfl
          exact ⟨this.cur, this.hidx, this.bf⟩
      | win a b => simpa [applyTel] using ih so h hr
      | reply bs =>
        have := ih so h hr
        simp only [applyTel]
        exact ⟨this.1, noBad_cons rfl this.2⟩
    | _ =>
      all_goals (
        have := ih so h hr
        simp only [applyTel]
        exact ⟨this.1, noBad_cons he this.2⟩)

theorem noBad_opLine (s : String) : noBad (opLine s) := by simp [opLine, noBad, Ev.isBad]
theorem noBad_retLine (b : Bool) : noBad (retLine b) := noBad_opLine _
theorem noBad_beginEvs (s : St) : noBad (beginEvs s) := by
  unfold beginEvs; split <;> simp [noBad, Ev.isBad]

theorem step_safe (w : World) (op : Op) (h : WInv w) :
    ∀ r, step Cfg.fixed w op = some r → WInv r.1 ∧ noBad r.2 := by
  intro r hr
  cases op with
  | sel k =>
    simp only [step] at hr; split at hr
    · cases hr; exact ⟨h, noBad_opLine _⟩
    · simp at hr
  | openS o =>
    simp only [step] at hr; split at hr
    · cases hr
      exact ⟨h.setSlot _ _ (slotInv_fresh _ _ _ _), noBad_cons rfl (noBad_append (noBad_beginEvs _) (noBad_retLine _))⟩
    · simp at hr
  | recv bs =>
    simp only [step] at hr; split at hr
    · split at hr
      · cases hr; exact ⟨h, noBad_retLine _⟩
      · cases hr
        have := deliver_safe w w.cur bs h
        exact ⟨this.1, noBad_append this.2 (noBad_retLine _)⟩
    · simp at hr
  | pass =>
    simp only [step] at hr; cases hr
    have := doPass_safe w h
    exact ⟨this.1, noBad_append this.2 (noBad_opLine _)⟩
  | teardown =>
    simp only [step] at hr; cases hr
    refine ⟨?_, noBad_append ?_ (noBad_opLine _)⟩
    · intro x hx
      simp [nSlots] at hx
      rw [hx]; exact slotInv_default
    · simp [Cfg.fixed, noBad]
  | opt n =>
    simp only [step] at hr; split at hr
    · split at hr
      · cases hr; exact ⟨h, noBad_opLine _⟩
      · next s hs =>
        cases hr
        refine ⟨h.setSlot _ _ ?_, noBad_opLine _⟩
        intro s' hs'; simp at hs'; subst hs'
        have := h.slot w.cur s hs
        exact ⟨this.cur, this.hidx, this.bf⟩
    · simp at hr
  | winsz a b =>
    simp only [step] at hr; split at hr
    · cases hr; exact ⟨h, noBad_retLine _⟩
    · simp at hr
  | close =>
    simp only [step] at hr; split at hr
    · cases hr; exact ⟨h.setSlot _ _ (by intro s hs; simp at hs), noBad_retLine _⟩
    · simp at hr
  | xconn k =>
    simp only [step] at hr; split at hr
    · cases hr
      refine ⟨h.setSlot _ _ (slotInv_fresh _ _ _ _), noBad_cons rfl (noBad_append (noBad_append ?_ (noBad_beginEvs _)) (noBad_opLine _))⟩
      split <;> simp [noBad, Ev.isBad]
    · simp at hr
  | xrecv k bs =>
    simp only [step] at hr; split at hr
    · split at hr
      · split at hr
        · cases hr; exact ⟨h, noBad_opLine _⟩
        · cases hr
          have := deliver_safe w 6 ((w.slot k).pending ++ bs) h
          exact ⟨this.1, noBad_append this.2 (noBad_opLine _)⟩
      · cases hr
        have hf := telParse_noBad (((w.slot k).pending ++ bs).length + 1)
          (match (w.slot k).sess with | some s => s.opts | none => 0) ((w.slot k).pending ++ bs)
        have ha := applyTel_safe w.nodes _ (w.slot k).sess (h.slot k) hf
        refine ⟨?_, noBad_cons rfl (noBad_append ha.2 (noBad_opLine _))⟩
        apply WInv.setSlot h
        intro s hs; exact ha.1 s hs
    · simp at hr
  | xdisc k =>
    simp only [step] at hr; split at hr
    · cases hr; exact ⟨h.setSlot _ _ (by intro s hs; simp at hs), noBad_opLine _⟩
    · simp at hr
  | sstart =>
    simp only [step] at hr; split at hr
    · cases hr
      have := doPass_safe _ (h.setSlot 7 { w.slot 7 with fstate := 1, gen := (w.slot 7).gen + 1, sess := some { opts := 1 } }
        (by intro s hs; simp at hs; subst hs; exact sinv_fresh 1))
      exact ⟨this.1, noBad_cons rfl (noBad_append (noBad_append (noBad_beginEvs _) this.2) (noBad_retLine _))⟩
    · simp at hr
  | srecv bs =>
    simp only [step] at hr; split at hr
    · cases hr
      have h1 : WInv (if bs = [] then (w, ([] : List Ev))
          else if (w.slot 7).fstate = 1 then deliver Cfg.fixed w 7 bs
          else (w.setSlot 7 { w.slot 7 with fstate := 1, gen := (w.slot 7).gen + 1, sess := some { opts := 1 } },
                .slot 7 :: beginEvs { opts := 1 })).1 ∧
          noBad (if bs = [] then (w, ([] : List Ev))
          else if (w.slot 7).fstate = 1 then deliver Cfg.fixed w 7 bs
          else (w.setSlot 7 { w.slot 7 with fstate := 1, gen := (w.slot 7).gen + 1, sess := some { opts := 1 } },
                .slot 7 :: beginEvs { opts := 1 })).2 := by
        split
        · exact ⟨h, noBad_nil⟩
        · split
          · exact deliver_safe w 7 bs h
          · exact ⟨h.setSlot 7 _ (by intro s hs; simp at hs; subst hs; exact sinv_fresh 1), noBad_cons rfl (noBad_beginEvs _)⟩
      have h2 := doPass_safe _ h1.1
      exact ⟨h2.1, noBad_append (noBad_append h1.2 h2.2) (noBad_opLine _)⟩
    · simp at hr
  | sstop =>
    simp only [step] at hr; split at hr
    · cases hr
      have := doPass_safe _ (h.setSlot 7 { w.slot 7 with fstate := 3, sess := none } (by intro s hs; simp at hs))
      exact ⟨this.1, noBad_append this.2 (noBad_opLine _)⟩
    · simp at hr
  | mkdir =>
    simp only [step] at hr; split at hr
    · cases hr; exact ⟨h, noBad_opLine _⟩
    · simp at hr
  | mkfunc =>
    simp only [step] at hr; split at hr
    · cases hr; exact ⟨h, noBad_opLine _⟩
    · simp at hr
  | mount p c name =>
    simp only [step] at hr; repeat' split at hr
    all_goals first | (cases hr; exact ⟨h, noBad_retLine _⟩) | simp at hr
  | umount p name =>
    simp only [step] at hr; repeat' split at hr
    all_goals first | (cases hr; exact ⟨h, noBad_retLine _⟩) | simp at hr
  | rmnode i =>
    simp only [step] at hr; repeat' split at hr
    all_goals first | (cases hr; exact ⟨h, noBad_retLine _⟩) | simp at hr
  | split bs =>
    simp only [step] at hr; cases hr; exact ⟨h, by simp [noBad, Ev.isBad]⟩
  | front isTel f =>
    simp only [step] at hr
    split at hr
    · cases hf : frontStep Cfg.fixed true w.tel f with
      | none => simp [hf] at hr
      | some x => simp [hf] at hr; cases hr; exact ⟨h, frontStep_noBad _ _ _ _ hf⟩
    · cases hf : frontStep Cfg.fixed false w.rpc f with
      | none => simp [hf] at hr
      | some x => simp [hf] at hr; cases hr; exact ⟨h, frontStep_noBad _ _ _ _ hf⟩

theorem run_safe (w : World) (ops : List Op) (h : WInv w) : noBad (run Cfg.fixed w ops).2 := by
  induction ops generalizing w with
  | nil => exact noBad_nil
  | cons op ops ih =>
    unfold run
    cases hs : step Cfg.fixed w op with
    | none => exact ih w h
    | some r =>
      have := step_safe w op h r hs
      exact noBad_append this.2 (ih r.1 this.1)

theorem winv_init : WInv {} := by
  intro x hx; simp [nSlots] at hx; rw [hx]; exact slotInv_default

end Tbox.C13
