/-
C13 — PROPERTY THEOREMS (helper lemmas live in Proofs*.lean).

Property: "No sequence of bytes sent by a terminal client - telnet negotiation, control sequences or
arbitrary data, in any segmentation - can crash the process, raise an uncaught exception, or corrupt
memory. The line executed when Enter arrives equals the line a reference line editor (insert at
cursor, backspace, delete, left/right/home/end, history up/down) produces from the same keystrokes,
and each Enter is answered by exactly one new prompt. The command history keeps the most recent 20
stored lines in order, and !n, !-n and !! re-run exactly the addressed entry or report an error
when it does not exist."

`Cfg.fixed` is the code with patches/C13-01..10 applied (what the model describes and the check
runs against); `Cfg.legacy` the code as found, for which the counterexamples are proved.
-/
import TboxModel.C13.ProofsTelnet
import TboxModel.C13.ProofsScan
import TboxModel.C13.ProofsSessions
import TboxModel.C13.ProofsSplit
import TboxModel.C13.ProofsScreen
import TboxModel.C13.ProofsSock
namespace Tbox.C13

/-! ## C13_editor_refines

Everything below holds for every handler nesting budget `d`: `feedAt cfg ns d` is what a command
handler that feeds bytes into its own session reaches (`onRecvString` one level further in, until the
budget is used up). A nested Enter is an ordinary Enter: `onEnter` processed to completion on the
session as it is at that moment, inside the outer one. -/

theorem execLines_onEnter (cfg : Cfg) (ns : Nodes) (feed : Feed) (s : St) :
    (execLines (onEnter cfg ns feed s).2).head? = some s.line := by
  unfold onEnter
  simp only [execFuel, execute]
  split <;> split <;> simp [execLines]

theorem onEnter_fresh (cfg : Cfg) (ns : Nodes) (feed : Feed) (s : St) :
    Rel (onEnter cfg ns feed s).1 (RefEd.fresh (onEnter cfg ns feed s).1.hist) := by
  unfold onEnter
  exact ⟨by simp [RefEd.fresh, RefEd.line], by simp [RefEd.fresh], rfl, by simp [RefEd.fresh], by simp⟩

/-- **C13_editor_refines.** From any state in which the session shows what the reference editor holds
(in particular right after session start or after any Enter: `onEnter_fresh`; and, with patch 08, at
the moment a command handler starts feeding keys into its session: `SInv.rel`), for EVERY sequence of
editing keys — printable characters inserted at the cursor, backspace, delete, left, right, home,
end, history up/down, tab — typed by the client or fed by a handler, the session keeps showing what
the reference zipper editor holds, no key handler touches the line outside `[0, length]`, the line
`execute()` is entered with when Enter arrives is exactly the reference editor's line, and after that
Enter — whatever Enters were nested inside it — the session is again related to the fresh reference
editor (so the statement chains over any number of Enters). -/
theorem C13_editor_refines (cfg : Cfg) (ns : Nodes) (d : Nat) (s : St) (e : RefEd) (ks : List Key)
    (hR : Rel s e) (hne : Key.enter ∉ ks) :
    Rel (runKeys cfg ns (feedAt cfg ns d) s ks).1 (e.run ks) ∧
    noBad (runKeys cfg ns (feedAt cfg ns d) s ks).2 ∧
    (execLines (onEnter cfg ns (feedAt cfg ns d) (runKeys cfg ns (feedAt cfg ns d) s ks).1).2).head? = some (e.run ks).line ∧
    Rel (onEnter cfg ns (feedAt cfg ns d) (runKeys cfg ns (feedAt cfg ns d) s ks).1).1
        (RefEd.fresh (onEnter cfg ns (feedAt cfg ns d) (runKeys cfg ns (feedAt cfg ns d) s ks).1).1.hist) := by
  have h := runKeys_rel cfg ns (feedAt cfg ns d) s e ks hR hne
  refine ⟨h.1, h.2, ?_, onEnter_fresh _ _ _ _⟩
  rw [execLines_onEnter, h.1.line]

/-- **C13_cursor_in_line.** The invariant behind it: the cursor column never leaves the line. -/
theorem C13_cursor_in_line (cfg : Cfg) (ns : Nodes) (d : Nat) (s : St) (e : RefEd) (ks : List Key)
    (hR : Rel s e) (hne : Key.enter ∉ ks) :
    (runKeys cfg ns (feedAt cfg ns d) s ks).1.cursor ≤ (runKeys cfg ns (feedAt cfg ns d) s ks).1.line.length := by
  have h := (runKeys_rel cfg ns (feedAt cfg ns d) s e ks hR hne).1
  rw [rel_len h, h.cursor]; omega

-- non-vacuity: a fresh session is related to the fresh reference editor, and a mid-line edit
example : Rel ({ hist := [[97]] } : St) (RefEd.fresh [[97]]) := ⟨rfl, rfl, rfl, rfl, by simp⟩
example : (RefEd.fresh [[108, 115]]).run [.char 97, .char 99, .left, .char 98, .home, .delete, .endKey, .backspace, .up, .down, .up] =
    { left := [115, 108], right := [], hist := [[108, 115]], hidx := 1 } := by decide

/-! ## C13_screen_matches_editor -/

/-- **C13_screen_matches_editor.** What the client SEES. Take a reference terminal (`Scr`: glyphs overwrite
at the cursor, BS, CR, LF, `ESC [ C`, `ESC [ D`; an unbounded row whose high-water mark `maxc` records the
largest column the cursor ever stood in) whose current row shows `pre ++ line` (followed by blanks) with
its cursor at column `|pre| + cursor` — `pre` is whatever stands left of the input, normally the prompt
`# ` (see the example below: that is the state right after the prompt of any Enter). For an echoing
session and EVERY sequence of editing keys — glyphs inserted at the cursor, Backspace, Delete, Left,
Right, Home, End, history Up / Down, Tab; typed, or fed by a command handler — apply all bytes the shell
sends back (echo, redraw, cursor moves, `CleanupInput`'s rub-out) to that terminal: afterwards the row
again shows `pre ++` the editor's line (followed by blanks only), the terminal's cursor stands exactly
where the editor's cursor is, no escape sequence is left unfinished, and the cursor never went further
right than `|pre| +` the longest the line got — so in a window of width `W` with `|pre| + longest < W`
nothing ever wraps and a real terminal behaves as this one. With `C13_editor_refines` the row therefore
shows the reference editor's line. (Glyph = `plain`: 0x20..0x7e; `C13_scanner_chars_plain`: the key
scanner never produces any other character key.) -/
theorem C13_screen_matches_editor (cfg : Cfg) (ns : Nodes) (d : Nat) (pre : Str) (s : St) (r : Scr) (ks : List Key) (W : Nat)
    (hS : Shows pre s r) (he : s.echo = true) (hne : Key.enter ∉ ks) (hc : ∀ c, Key.char c ∈ ks → plain c = true)
    (hW0 : r.maxc < W) (hW : pre.length + widest cfg ns (feedAt cfg ns d) s ks < W) :
    (∃ n, (r.feed (txBytes (runKeys cfg ns (feedAt cfg ns d) s ks).2)).row =
        pre ++ (runKeys cfg ns (feedAt cfg ns d) s ks).1.line ++ List.replicate n 32) ∧
    (r.feed (txBytes (runKeys cfg ns (feedAt cfg ns d) s ks).2)).col = pre.length + (runKeys cfg ns (feedAt cfg ns d) s ks).1.cursor ∧
    (r.feed (txBytes (runKeys cfg ns (feedAt cfg ns d) s ks).2)).esc = 0 ∧
    (r.feed (txBytes (runKeys cfg ns (feedAt cfg ns d) s ks).2)).maxc < W ∧
    Shows pre (runKeys cfg ns (feedAt cfg ns d) s ks).1 (r.feed (txBytes (runKeys cfg ns (feedAt cfg ns d) s ks).2)) := by
  have h := runKeys_screen cfg ns (feedAt cfg ns d) pre ks s r hS he hne hc
  exact ⟨h.1.row, h.1.col, h.1.esc, by have := h.2; omega, h.1⟩

/-- **C13_scanner_chars_plain.** Whatever bytes arrive, the character keys the scanner hands to the editor
are glyphs (0x20..0x7e) — by evaluation of the whole generated table, lifted to every byte string. So the
hypothesis on character keys in `C13_screen_matches_editor` holds for everything a client can send. -/
theorem C13_scanner_chars_plain (bs : Str) (c : UInt8) (h : Key.char c ∈ recvKeys bs) : plain c = true :=
  recvKeys_plain bs c h

-- non-vacuity: after CR LF and the prompt the row shows the prompt and a fresh session (with a history);
-- then a mid-line insertion, a deletion, a history walk and a return to the edited line's successor
example : Shows Msg.prompt ({ opts := 1, hist := [[108, 115]] } : St) (({} : Scr).feed (Msg.crlf ++ Msg.prompt)) :=
  ⟨rfl, rfl, ⟨0, rfl⟩, by decide, by simp, by decide, by decide, by decide⟩
example :
    let s : St := { opts := 1, hist := [[108, 115]] }
    let ks : List Key := [.char 97, .char 99, .left, .char 98, .home, .delete, .endKey, .backspace, .up, .char 32, .down, .char 120]
    let o := runKeys Cfg.fixed [] none s ks
    let r := (({} : Scr).feed (Msg.crlf ++ Msg.prompt)).feed (txBytes o.2)
    o.1.line = [120] ∧ o.1.cursor = 1 ∧ r.row = [35, 32, 120, 32, 32] ∧ r.col = 3 ∧ r.maxc = 5 ∧
    widest Cfg.fixed [] none s ks = 3 := by
  decide +kernel

/-! ## C13_one_prompt_per_enter, C13_history -/

theorem countEntered_onKey (cfg : Cfg) (ns : Nodes) (feed : Feed) (s : St) (k : Key) :
    (if k = .enter then 1 else 0) ≤ countEntered (onKey cfg ns feed s k).2 := by
  by_cases hk : k = .enter
  · subst hk
    show _ ≤ countEntered (onEnter cfg ns feed s).2
    unfold onEnter
    simp only [countEntered_append, if_true]
    have : countEntered (if s.echo = true then [Ev.entered, Ev.tx .echo Msg.crlf] else [Ev.entered]) = 1 := by
      split <;> rfl
    omega
  · simp [hk]

/-- **C13_one_prompt_per_enter.** For every key sequence (any mixture of editing keys and Enters, any
commands, any node tree, handlers feeding further lines into the session to any nesting depth): every
Enter handled — typed, or fed by a handler and processed inside the outer one — is answered by exactly
one prompt (none in quiet mode: the raw-TCP front end); every typed Enter is among the Enters handled;
and the prompt of an Enter is the last thing sent for it. -/
theorem C13_one_prompt_per_enter (cfg : Cfg) (ns : Nodes) (d : Nat) (s : St) (ks : List Key) :
    countPrompts (runKeys cfg ns (feedAt cfg ns d) s ks).2 =
      (if s.quiet then 0 else countEntered (runKeys cfg ns (feedAt cfg ns d) s ks).2) ∧
    ks.count .enter ≤ countEntered (runKeys cfg ns (feedAt cfg ns d) s ks).2 ∧
    (s.quiet = false → (onEnter cfg ns (feedAt cfg ns d) s).2.getLast? = some (.tx .prompt Msg.prompt)) := by
  refine ⟨(runKeys_good cfg ns _ (feedAt_good cfg ns d) ks s).prompts, ?_, ?_⟩
  · induction ks generalizing s with
    | nil => simp
    | cons k ks ih =>
      simp only [runKeys, countEntered_append, List.count_cons]
      have h1 := countEntered_onKey cfg ns (feedAt cfg ns d) s k
      have h2 := ih (onKey cfg ns (feedAt cfg ns d) s k).1
      by_cases hk : k = .enter
      · subst hk; simp at h1 ⊢; omega
      · have : (k == Key.enter) = false := by simpa using hk
        simp [this]; omega
  · intro hq
    have hg := execute_good cfg ns _ (feedAt_good cfg ns d) execFuel false s
    have ho : (execute cfg ns (feedAt cfg ns d) execFuel false s).1.quiet = s.quiet := quiet_of_opts hg.opts
    unfold onEnter
    simp only [ho, hq]
    simp

/-- **C13_history.** For every key sequence with handlers nesting to any depth, from any state whose
history is within the limit: the history afterwards is the most recent 20 of (the history before,
followed by the lines stored by the Enters handled — the lines of nested Enters before the line of
the Enter they are nested in — in order): nothing else is ever added, removed or reordered, and the
history never exceeds 20 entries, not even in the middle of an Enter. -/
theorem C13_history (cfg : Cfg) (ns : Nodes) (d : Nat) (s : St) (ks : List Key) (hh : s.hist.length ≤ histMax) :
    (runKeys cfg ns (feedAt cfg ns d) s ks).1.hist = cap (s.hist ++ storedLines (runKeys cfg ns (feedAt cfg ns d) s ks).2) ∧
    (runKeys cfg ns (feedAt cfg ns d) s ks).1.hist.length ≤ histMax :=
  (runKeys_good cfg ns _ (feedAt_good cfg ns d) ks s).hist hh

-- non-vacuity (the seeded change C13-4 in miniature): 19 lines stored, then a line whose handler feeds a
-- line + Enter into the session: both are stored, the oldest one goes, 20 remain
example :
    let ns : Nodes := [some (.dir [([112], 1)]), some (.func [.feed [120, 13, 10]])]
    let s : St := { hist := List.replicate 19 [110], opts := 2 }
    let r := recvStringD Cfg.fixed ns 1 s [112, 13, 10]
    r.1.hist.length = 20 ∧ storedLines r.2 = [[112, 120], []] ∧ r.1.hist.drop 18 = [[112, 120], []] ∧
    countEntered r.2 = 2 := by
  decide +kernel

/-! ## C13_history_never_stored, C13_history_rerun -/

/-- this `;`-segment is the `history` command -/
def isHistorySeg (seg : Str) : Bool :=
  !(seg == []) && (match splitCmdline seg with
    | some (cmd :: _) => cmd == Msg.cmdHistory
    | _ => false)

theorem runSegs_false (f : St → Str → ExecRes) (s : St) (segs : List Str)
    (h : ∃ seg ∈ segs, ∀ st, (f st seg).2.2 = false) : (runSegs f s segs).2.2 = false := by
  induction segs generalizing s with
  | nil => obtain ⟨seg, hs, _⟩ := h; simp at hs
  | cons c cs ih =>
    unfold runSegs
    simp only
    split
    · next hok =>
      obtain ⟨seg, hs, hf⟩ := h
      rcases List.mem_cons.mp hs with h1 | h1
      · subst h1; rw [hf s] at hok; simp at hok
      · exact ih _ ⟨seg, h1, hf⟩
    · rfl

theorem executeCmd_history (cfg : Cfg) (ns : Nodes) (feed : Feed) (inner : St → ExecRes) (rerun : Bool) (s : St) (seg : Str)
    (h : isHistorySeg seg = true) : (executeCmd cfg ns feed inner rerun s seg).2.2 = false := by
  unfold isHistorySeg at h
  have h0 : seg ≠ [] := by intro hh; simp [hh] at h
  cases hs : splitCmdline seg with
  | none => simp [hs] at h
  | some args =>
    cases args with
    | nil => simp [hs] at h
    | cons cmd rest =>
      have hb : cmd = Msg.cmdHistory := by simpa [hs, h0] using h
      subst hb
      unfold executeCmd
      simp [h0, hs, Msg.cmdHistory, Msg.cmdLs, Msg.cmdPwd, Msg.cmdCd, Msg.cmdHelp]

/-- **C13_history_never_stored.** If any `;`-segment of the line on which Enter is pressed is the
`history` command, `execute()` answers "do not store" and that Enter stores nothing: the history after
it is the history `execute()` left (only Enters that handlers nested inside may have stored lines). -/
theorem C13_history_never_stored (cfg : Cfg) (ns : Nodes) (feed : Feed) (s : St)
    (h : ∃ seg ∈ splitOn 59 s.line, isHistorySeg seg = true) :
    (execute cfg ns feed execFuel false s).2.2 = false ∧
    (onEnter cfg ns feed s).1.hist = (execute cfg ns feed execFuel false s).1.hist ∧
    storedLines (onEnter cfg ns feed s).2 = storedLines (execute cfg ns feed execFuel false s).2.1 := by
  have hf : (execute cfg ns feed execFuel false s).2.2 = false := by
    obtain ⟨seg, hs, hh⟩ := h
    simp only [execFuel, execute]
    exact runSegs_false _ s _ ⟨seg, hs, fun st => executeCmd_history cfg ns feed _ false st seg hh⟩
  refine ⟨hf, ?_, ?_⟩
  · unfold onEnter; simp only [hf]; simp
  · unfold onEnter; simp only [hf, storedLines_append]
    have a : storedLines (if s.echo = true then [Ev.entered, Ev.tx .echo Msg.crlf] else [Ev.entered]) = [] := by
      split <;> rfl
    have c : ∀ q : Bool, storedLines (if q = true then [] else [Ev.tx .prompt Msg.prompt]) = [] := by
      intro q; cases q <;> rfl
    have d : storedLines [Ev.tag "nostore"] = [] := rfl
    simp only [Bool.false_eq_true, if_false, storedLines_append, a, c, d, List.nil_append, List.append_nil]

example : isHistorySeg [104, 105, 115, 116, 111, 114, 121] = true ∧ isHistorySeg [32, 104, 105, 115, 116, 111, 114, 121, 32, 120] = true := by
  decide

/-- **C13_history_rerun.** For EVERY integer text `t` after the `!` (any bytes at all) and every
history within the limit, the repaired index logic selects exactly what the specification `address`
says — `t` read as a mathematical integer `i`: entry `i` from the oldest for `i ≥ 0`, entry `|i|` back
from the newest for `i < 0` — and otherwise reports the specified error; it never selects a position
outside `[0, size)` (that would be `Ev.bad .index`). `!!` selects the newest entry or reports an
error when there is none. What is selected is what `execute` is re-entered with, the cursor at its end
(`runHistory`); a history command inside a re-run line is refused (patch 09). -/
theorem C13_history_rerun (hist : List Str) (t : Str) (hl : hist.length ≤ histMax) :
    (t ≠ [33] →
      match address hist t with
      | .entry l => ∃ tag, selectEntry Cfg.fixed hist (33 :: t) = .run l true tag
      | .noEntry => ∃ tag, selectEntry Cfg.fixed hist (33 :: t) = .err [.tag tag, .tx .out Msg.idxRange]
      | .parseError => selectEntry Cfg.fixed hist (33 :: t) = .err [.tag "bang-invalid", .tx .out Msg.parseIdxFail]) ∧
    (selectEntry Cfg.fixed hist [33, 33] =
      match hist.getLast? with
      | some l => .run l false "bangbang"
      | none => .err [.tag "bangbang-empty", .tx .out Msg.idxRange]) ∧
    (∀ (inner : St → ExecRes) (s : St) (a l : Str) (echo : Bool) (tag : String),
      selectEntry Cfg.fixed s.hist a = .run l echo tag →
      (runHistory Cfg.fixed inner false s a).1 = (inner { s with line := l, cursor := l.length }).1 ∧
      (runHistory Cfg.fixed inner false s a).2.2 = (inner { s with line := l, cursor := l.length }).2.2 ∧
      untag (runHistory Cfg.fixed inner false s a).2.1 =
        (if echo then [.tx .out (l ++ Msg.crlf)] else []) ++ untag (inner { s with line := l, cursor := l.length }).2.1) ∧
    (∀ (inner : St → ExecRes) (s : St) (a : Str),
      runHistory Cfg.fixed inner true s a = (s, [.tag "bang-recursive", .tx .out Msg.recursiveHist], false)) := by
  refine ⟨fun ht => ?_, ?_, ?_, ?_⟩
  · unfold address selectEntry stoi
    have hd : List.drop 1 (33 :: t) = t := rfl
    simp only [hd, ht, if_false]
    have hm : histMax = 20 := rfl
    cases hp : parseInt t with
    | none => rfl
    | some i =>
      simp only
      by_cases hr : i < intMin ∨ i > intMax
      · simp only [hr, if_true, Cfg.fixed]
        unfold intMin intMax at hr
        by_cases h0 : 0 ≤ i
        · simp only [h0, if_true]
          rw [List.getElem?_eq_none (by omega)]
          exact ⟨_, rfl⟩
        · simp only [h0, if_false]
          have : ¬ i.natAbs ≤ hist.length := by omega
          simp only [this, if_false]
          exact ⟨_, rfl⟩
      · simp only [hr, if_false]
        by_cases h0 : 0 ≤ i
        · have h0' : i ≥ 0 := h0
          simp only [h0, h0', if_true]
          by_cases h2 : i.toNat < hist.length
          · simp only [h2, if_true]
            rw [List.getElem?_eq_getElem h2]
            exact ⟨_, rfl⟩
          · simp only [h2, if_false]
            rw [List.getElem?_eq_none (by omega)]
            exact ⟨_, rfl⟩
        · have h0' : ¬ i ≥ 0 := h0
          have h3 : (!Cfg.fixed.wideNeg && decide (i = intMin)) = false := by simp [Cfg.fixed]
          simp only [h0, h0', h3, if_false]
          have hna : (-i).toNat = i.natAbs := by omega
          rw [hna]
          by_cases h4 : i.natAbs ≤ hist.length
          · have h4' : hist.length ≥ i.natAbs := h4
            simp only [h4, h4', if_true]
            have hlt : hist.length - i.natAbs < hist.length := by omega
            rw [List.getElem?_eq_getElem hlt]
            exact ⟨_, rfl⟩
          · have h4' : ¬ hist.length ≥ i.natAbs := h4
            simp only [h4, h4', if_false]
            exact ⟨_, rfl⟩
  · unfold selectEntry
    simp only [List.drop_succ_cons, List.drop_zero, if_true]
    cases hist.getLast? <;> simp [Cfg.fixed]
  · intro inner s a l echo tag hsel
    unfold runHistory
    simp only [Cfg.fixed, Bool.and_false, Bool.false_eq_true, if_false, if_true] at hsel ⊢
    rw [hsel]
    refine ⟨rfl, rfl, ?_⟩
    cases echo <;> simp [untag, isTag]
  · intro inner s a
    unfold runHistory
    simp [Cfg.fixed]

/-! ## C13_total -/

/-- **C13_total.** For EVERY op sequence — any node tree, any number of interleaved sessions on the
eight slots (recording connections, two telnet clients, a raw-TCP client, the stdio service), option
changes, connects / disconnects / reconnects, loop passes, a teardown of the whole terminal while exit
tasks are queued, command handlers that act on their own session while the command is executing (send,
feed keys and whole lines — `exit`, `!!`, `!n` included — nested to the depth set, end or delete the session,
delete / mount / umount ANY node of the tree, their own node and the root included, with the rest of the line still to run),
and in particular any received byte strings in any segmentation — the repaired code
never reaches an outcome that stands for a crash, an uncaught exception or an invalid access: no use
of a freed session or terminal, no `back()` of an empty history, no escaping `std::out_of_range`, no
`-INT_MIN`, no history index outside `[0, size)`, no cursor outside the line, no unbounded `execute`
recursion, no `tree` fuel exhaustion, no read past the received telnet bytes, no `map::at` with an
absent session. -/
theorem C13_total (ops : List Op) : ∀ e ∈ (run Cfg.fixed {} ops).2, e.isBad = false :=
  run_safe {} ops winv_init

/-- The code as found violates it: `exit;exit` + a loop pass (freed session used), `!!` with an empty
history, `!99999999999` (uncaught `std::out_of_range`), `!-2147483648` (negation overflow),
`send()` after the session ended (`map::at`), `exit` followed by the destruction of the terminal
before the next loop pass (still with patches 01..06); and, with patches 01..07, under re-entrant use:
`!!` re-running a shorter line while a handler feeds a key (the cursor of the typed line is still in
force: `string::insert` throws), and a handler that leaves `!!` in the input so that it is stored:
the next `!!` re-runs itself without end (stack overflow); and, with patches 01..09, a telnet client's
`exit` followed by the destruction of the services in the same loop pass, or a handler's `endSession()`
followed by a teardown: the queued disconnect task runs on the destroyed `Telnetd` / `TcpRpc`; and, with patches 01..10, a
command handler through which `Terminal::deleteSession` is called on the session it runs in (a command of the stdio shell that
stops the service, a connection whose `endSession()` deletes): the rest of the command runs on the freed `SessionContext`. -/
theorem C13_total_legacy_counterexample :
    (run Cfg.legacy {} [.openS 0, .recv [101, 120, 105, 116, 59, 101, 120, 105, 116, 13, 10], .pass]).2.contains (.bad .useAfterFree) = true ∧
    (run Cfg.legacy {} [.openS 0, .recv [33, 33, 13, 10]]).2.contains (.bad .emptyBack) = true ∧
    (run Cfg.legacy {} [.openS 0, .recv [33, 57, 57, 57, 57, 57, 57, 57, 57, 57, 57, 57, 13, 10]]).2.contains (.bad .uncaughtRange) = true ∧
    (run Cfg.legacy {} [.openS 0, .recv [33, 45, 50, 49, 52, 55, 52, 56, 51, 54, 52, 56, 13, 10]]).2.contains (.bad .negOverflow) = true ∧
    (run Cfg.legacy {} [.front true .conn, .front true .endS, .front true .send]).2.contains (.bad .mapAt) = true ∧
    (run { Cfg.fixed with cancelExit := false } {} [.xconn 4, .xrecv 4 [101, 120, 105, 116, 13, 10], .teardown]).2.contains (.bad .useAfterFree) = true ∧
    (run { Cfg.fixed with cursorReset := false } {}
      [.depth 0, .mkfunc [.feed [120]], .mount 0 1 [112], .openS 0, .recv [112, 13, 10], .depth 1, .recv [33, 33, 32, 32, 32, 32, 32, 13, 10]]).2.contains (.bad .cursor) = true ∧
    (run { Cfg.fixed with rerunGuard := false } {}
      [.depth 1, .mkfunc [.feed [13, 10, 33, 33]], .mount 0 1 [112], .openS 0, .recv [112, 13, 10], .recv [33, 33, 13, 10]]).2.contains (.bad .recursion) = true ∧
    (run { Cfg.fixed with cancelEnd := false } {} [.xconn 4, .xrecv 4 [101, 120, 105, 116, 13, 10], .passdown]).2.contains (.bad .useAfterFree) = true ∧
    (run { Cfg.fixed with cancelEnd := false } {}
      [.mkfunc [.endS], .mount 0 1 [112], .xconn 6, .xrecv 6 [112, 13, 10], .teardown]).2.contains (.bad .useAfterFree) = true ∧
    (run { Cfg.fixed with delDefer := false } {}
      [.mkfunc [.del], .mount 0 1 [112], .openS 1, .recv [112, 13, 10]]).2.contains (.bad .useAfterFree) = true := by
  decide +kernel

-- non-vacuity of C13_total: the same inputs on the repaired model, with what is sent instead
example : untag (run Cfg.fixed {} [.openS 2, .recv [33, 33, 13, 10]]).2 =
    [.slot 0, .slot 8, .line "ret=1", .slot 0, .entered, .exec [33, 33], .tx .out Msg.idxRange, .slot 8, .line "ret=1"] := by
  decide +kernel


/-! ## C13_telnet_resumable, C13_telnet_in_bounds -/

/-- **C13_telnet_resumable.** For EVERY byte stream and EVERY way of cutting it into received segments
(empty segments included), the telnet front end of the repaired code hands the terminal the same
thing as when the whole stream arrives at once: the same option changes and window sizes in the same
order, the same data bytes between them (adjacent string deliveries glued: where a segment ends inside
a run of data the run is delivered in pieces), the same option word, and the same unconsumed
incomplete command at the end. Incomplete commands are never consumed early. -/
theorem C13_telnet_resumable (opts : Nat) (segs : List Str) :
    mergeStr (feedAll Cfg.fixed opts [] segs).1 = mergeStr (telFeed Cfg.fixed opts [] segs.flatten).1 ∧
    (feedAll Cfg.fixed opts [] segs).2 = (telFeed Cfg.fixed opts [] segs.flatten).2 := by
  have h := feedAll_resume segs opts [] (parse_nil _ _)
  simpa [telFeed_eq] using h

/-- **C13_telnet_in_bounds.** The repaired framing code never reads past the bytes received, whatever
is pending and whatever arrives. -/
theorem C13_telnet_in_bounds (opts : Nat) (pending seg : Str) :
    ∀ e ∈ (telFeed Cfg.fixed opts pending seg).1, e.isBad = false :=
  telParse_noBad _ _ _

/-- The code as found reads `p[1..3]` of a one-byte window-size sub-negotiation: the last of them lies
past the six bytes received. (Also: `send()`/`endSession()` after the session ended throw from
`map::at`, see `C13_total_legacy_counterexample`.) -/
theorem C13_telnet_legacy_counterexample :
    (telFeed Cfg.legacy 0 [] [255, 250, 31, 1, 255, 240]).1 = [.bad .overread] ∧
    (telFeed Cfg.fixed 0 [] [255, 250, 31, 1, 255, 240]) = ([], 0, []) := by
  decide +kernel

-- non-vacuity: a stream cut inside a data run, inside a negotiation and inside a sub-negotiation
example :
    (feedAll Cfg.fixed 0 [] [[97, 98], [99, 255], [253, 1, 255, 250, 31, 0], [80, 0, 24, 255], [240, 100]]).1 =
      [.tel (.str [97, 98]), .tel (.str [99]), .tel (.setopt 1), .tel (.win 80 24), .tel (.str [100])] ∧
    (telFeed Cfg.fixed 0 [] [97, 98, 99, 255, 253, 1, 255, 250, 31, 0, 80, 0, 24, 255, 240, 100]).1 =
      [.tel (.str [97, 98, 99]), .tel (.setopt 1), .tel (.win 80 24), .tel (.str [100])] := by
  decide +kernel

/-! ## C13_scanner_table (over `Gen.lean`, regenerated from the running scanner on every check) -/

/-- **C13_scanner_table.** The dumped transition table is closed (from every state every byte leads to
a state of the table: the scanner is total, and the table has a row and a `stop()` entry per state),
every documented key encoding is recognised as its key — each byte but the last answered `kUnsure`,
the last `kEnsure` with the documented result — every printable byte 0x20..0x7e is a printable key,
a lone CR / ESC at the end of a segment is recognised by `stop()` as Enter / ESC, and from the
initial state `stop()` fails. All by evaluation of the whole finite table. -/
theorem C13_scanner_table :
    Gen.rows.length = Gen.nStates ∧ Gen.stops.length = Gen.nStates ∧
    (∀ row ∈ Gen.rows, ∀ e ∈ row, e.2.target < Gen.nStates ∧ e.1 < 256) ∧
    (∀ p ∈ documented, walk 0 p.1 = some p.2) ∧
    (∀ n, n < 256 → 32 ≤ n → n ≤ 126 → walk 0 [UInt8.ofNat n] = some .printable) ∧
    scan 0 true [13] = [(.enter, 0)] ∧ scan 0 true [27] = [(.esc, 0)] ∧ scanStop 0 = none := by
  decide +kernel

/-- **C13_scanner_decodes.** Lifted to all inputs: for EVERY sequence of keys, each delivered unsplit
in one of its documented encodings (printable characters as themselves; Enter as LF, CR LF or CR NUL),
the scanning loop of `onRecvString` decodes the concatenated bytes of a segment to exactly that key
sequence; and a bare CR at the very end of the segment is one more Enter. -/
theorem C13_scanner_decodes (l : List (Str × Key)) (h : ∀ p ∈ l, encOk p = true) :
    recvKeys (l.flatMap (·.1)) = l.map (·.2) ∧
    recvKeys (l.flatMap (·.1) ++ [13]) = l.map (·.2) ++ [.enter] := by
  exact ⟨recvKeys_decodes l h true, recvKeys_decodes_cr l h true⟩

example : encOk ([27, 91, 68], .left) = true ∧ encOk ([97], .char 97) = true ∧ encOk ([13, 0], .enter) = true := by decide

/-! ## C13_teardown_drops_queued -/

/-- **C13_teardown_drops_queued.** What becomes of queued tasks when the host tears the services down
(repaired code, every world): a teardown without draining drops everything that is queued — exit tasks
of the terminal, disconnect tasks of `Telnetd`/`TcpRpc` — silently: no event at all, and every session
slot is back to "never attached". A teardown inside the loop pass that runs the exit tasks (`passdown`)
notes the `endSession` of the sessions on recording connections, but none of the disconnect tasks that
the exit tasks of this pass queue for telnet / raw-TCP clients is ever run — they are cancelled with
their service (patch 10): no `closed`, nothing bad. (All clients lose their connection when the service
is destroyed; that is not an event of the model. `passdown` is defined only while no client has unread bytes queued: `hq`.) -/
theorem C13_teardown_drops_queued (w : World) (hq : (w.slot 4).kq = [] ∧ (w.slot 5).kq = [] ∧ (w.slot 6).kq = []) :
    step Cfg.fixed w .teardown = some ({ tel := w.tel, rpc := w.rpc, depth := w.depth }, opLine "teardown") ∧
    (∃ evs, step Cfg.fixed w .passdown = some ({ tel := w.tel, rpc := w.rpc, depth := w.depth }, evs ++ opLine "passdown") ∧
      (∀ e ∈ evs, e.isBad = false) ∧ countClosed evs = 0) ∧
    ({ tel := w.tel, rpc := w.rpc, depth := w.depth } : World).slots = List.replicate nSlots {} ∧
    ({ tel := w.tel, rpc := w.rpc, depth := w.depth } : World).exits = [] := by
  refine ⟨by simp [step, Cfg.fixed], ?_, rfl, rfl⟩
  refine ⟨((runExits Cfg.fixed w.exits (closeEnding [4, 5, 6] w.slots).1).2.filter (· ≠ .closed)).filter (fun e => !isSysc e), ?_, ?_, ?_⟩
  · simp [step, Cfg.fixed, hq]
  · exact noBad_filter _ (noBad_filter _ (runExits_noBad _ _))
  · simp only [countClosed, List.filter_filter, List.length_eq_zero_iff, List.filter_eq_nil_iff]
    intro a _; simp; intro h1 _; exact h1

/-! ## C13_sessions_independent -/

/-- **C13_sessions_independent.** Sessions do not disturb each other (code as found and repaired code
alike): an op changes no session slot other than those it `touches` — its own slot; and a loop pass
(also the passes inside the stdio ops) changes slot `j` only if an exit task of slot `j`'s CURRENT
session — (slot, generation), i.e. the session token — is queued. In particular `exit` typed in one
session ends that session only, editor state and history of every other session stay what they were,
and an exit task left over from an earlier session of a slot (a stale token) never touches the
session that now occupies the slot. -/
theorem C13_sessions_independent (cfg : Cfg) (w : World) (op : Op) (r : World × List Ev) (j : Nat)
    (hs : step cfg w op = some r) (ht : touches w op j = false) : r.1.slot j = w.slot j := by
  cases op with
  | sel k => simp only [step] at hs; split at hs <;> first | (cases hs; rfl) | simp at hs
  | depth n => simp only [step] at hs; split at hs <;> first | (cases hs; rfl) | simp at hs
  | openS o =>
    simp only [touches, beq_eq_false_iff_ne] at ht
    simp only [step] at hs; split at hs
    · cases hs; exact slot_setSlot_ne w _ j _ (Ne.symm ht)
    · simp at hs
  | recv bs =>
    simp only [touches, beq_eq_false_iff_ne] at ht
    simp only [step] at hs; split at hs
    · split at hs
      · cases hs; rfl
      · cases hs; exact deliver_other cfg w _ j bs (Ne.symm ht)
    · simp at hs
  | pass =>
    simp only [touches, Bool.or_eq_false_iff] at ht
    simp only [step] at hs; cases hs
    have hg := sockPass_other cfg [4, 5, 6] w j ht.2
    rw [← hg.1]
    apply doPass_other
    have hp := ht.1
    simp only [passTouches] at hp ⊢
    rw [hg.1, hg.2]; exact hp
  | teardown => simp [touches] at ht
  | passdown => simp [touches] at ht
  | opt n =>
    simp only [touches, beq_eq_false_iff_ne] at ht
    simp only [step] at hs; split at hs
    · split at hs
      · cases hs; rfl
      · cases hs; exact slot_setSlot_ne w _ j _ (Ne.symm ht)
    · simp at hs
  | winsz a b => simp only [step] at hs; split at hs <;> first | (cases hs; rfl) | simp at hs
  | close =>
    simp only [touches, beq_eq_false_iff_ne] at ht
    simp only [step] at hs; split at hs
    · cases hs; exact slot_setSlot_ne w _ j _ (Ne.symm ht)
    · simp at hs
  | xconn k =>
    simp only [touches, beq_eq_false_iff_ne] at ht
    simp only [step] at hs; split at hs
    · cases hs; exact slot_setSlot_ne w _ j _ (Ne.symm ht)
    · simp at hs
  | xrecv k bs =>
    simp only [touches, beq_eq_false_iff_ne] at ht
    simp only [step] at hs; split at hs
    · cases hs; exact (recvSlot_apart cfg w k bs).slot j (Ne.symm ht)
    · simp at hs
  | xsock k bs chunks term =>
    simp only [touches, beq_eq_false_iff_ne] at ht
    simp only [step] at hs; split at hs
    · cases hs
      exact ((sockEvent_apart cfg _ k chunks term).slot j (Ne.symm ht)).trans (slot_setSlot_ne w k j _ (Ne.symm ht))
    · simp at hs
  | xconnf k e => simp only [step] at hs; split at hs <;> first | (cases hs; rfl) | simp at hs
  | ssplit sep bs => simp only [step] at hs; split at hs <;> first | (cases hs; rfl) | simp at hs
  | hexstr bs n u dl => simp only [step] at hs; split at hs <;> first | (cases hs; rfl) | simp at hs
  | xdisc k =>
    simp only [touches, beq_eq_false_iff_ne] at ht
    simp only [step] at hs; split at hs
    · cases hs; exact slot_setSlot_ne w _ j _ (Ne.symm ht)
    · simp at hs
  | sstart =>
    simp only [touches, Bool.or_eq_false_iff, beq_eq_false_iff_ne] at ht
    have hne : (7 : Nat) ≠ j := Ne.symm ht.1
    simp only [step] at hs; split at hs
    · cases hs
      have ha := setSlot_apart w 7 { w.slot 7 with fstate := 1, gen := (w.slot 7).gen + 1, sess := some { opts := 1 } }
      rw [doPass_other cfg _ j (by rw [passTouches_apart ha hne]; exact ht.2), ha.slot j hne]
    · simp at hs
  | srecv bs =>
    simp only [touches, Bool.or_eq_false_iff, beq_eq_false_iff_ne] at ht
    have hne : (7 : Nat) ≠ j := Ne.symm ht.1
    simp only [step] at hs; split at hs
    · cases hs
      simp only
      by_cases hb : bs = []
      · simp only [hb, if_true]; exact doPass_other cfg w j ht.2
      · simp only [hb, if_false]
        by_cases h1 : (w.slot 7).fstate = 1
        · simp only [h1, if_true]
          have ha := deliver_apart cfg w 7 bs
          rw [doPass_other cfg _ j (by rw [passTouches_apart ha hne]; exact ht.2), ha.slot j hne]
        · simp only [h1, if_false]
          have ha := setSlot_apart w 7 { w.slot 7 with fstate := 1, gen := (w.slot 7).gen + 1, sess := some { opts := 1 } }
          rw [doPass_other cfg _ j (by rw [passTouches_apart ha hne]; exact ht.2), ha.slot j hne]
    · simp at hs
  | sstop =>
    simp only [touches, Bool.or_eq_false_iff, beq_eq_false_iff_ne] at ht
    have hne : (7 : Nat) ≠ j := Ne.symm ht.1
    simp only [step] at hs; split at hs
    · cases hs
      have ha := setSlot_apart w 7 { w.slot 7 with fstate := 3, sess := none }
      rw [doPass_other cfg _ j (by rw [passTouches_apart ha hne]; exact ht.2), ha.slot j hne]
    · simp at hs
  | mkdir => simp only [step] at hs; split at hs <;> first | (cases hs; rfl) | simp at hs
  | mkfunc sc => simp only [step] at hs; split at hs <;> first | (cases hs; rfl) | simp at hs
  | mount p c name =>
    simp only [step] at hs; repeat' split at hs
    all_goals first | (cases hs; rfl) | simp at hs
  | umount p name =>
    simp only [step] at hs; repeat' split at hs
    all_goals first | (cases hs; rfl) | simp at hs
  | rmnode i =>
    simp only [step] at hs; repeat' split at hs
    all_goals first | (cases hs; rfl) | simp at hs
  | split bs => simp only [step] at hs; cases hs; rfl
  | front isTel f =>
    simp only [step] at hs
    split at hs
    · cases hf : frontStep cfg true w.tel f with
      | none => simp [hf] at hs
      | some x => simp [hf] at hs; cases hs; rfl
    · cases hf : frontStep cfg false w.rpc f with
      | none => simp [hf] at hs
      | some x => simp [hf] at hs; cases hs; rfl
  | wfault k m => simp only [step] at hs; split at hs <;> first | (cases hs; rfl) | simp at hs
  | xclose k => simp only [step] at hs; split at hs <;> first | (cases hs; rfl) | simp at hs

-- non-vacuity: two telnet clients and a raw-TCP client; client 4 exits; the others keep their state
example :
    let w := (run Cfg.fixed {} [.xconn 4, .xconn 5, .xconn 6, .xrecv 5 [112, 119, 100, 13, 10], .xrecv 4 [101, 120, 105, 116, 13, 10]]).1
    touches w .pass 5 = false ∧ touches w .pass 6 = false ∧ touches w .pass 4 = true ∧
    ((step Cfg.fixed w .pass).map fun r => ((r.1.slot 4).fstate, (r.1.slot 5).sess.map (·.hist))) =
      some (2, some [[112, 119, 100]]) := by
  decide +kernel

/-! ## C13_split (util::SplitCmdline) -/

/-- **C13_split_unbalanced.** `SplitCmdline` fails exactly when a quote is left open — for every input;
otherwise it returns a list of arguments. (A clean `false`: the model is total, and the code is tied
to it by direct `split` ops, every byte string included.) -/
theorem C13_split_unbalanced (s : Str) : splitCmdline s = none ↔ openQuote none s ≠ none :=
  splitGo_none_iff s .blank []

/-- **C13_split_words.** Arguments without blanks and quotes, joined by single blanks, are split back
into exactly those arguments — for every such list. -/
theorem C13_split_words (args : List Str) (h : ∀ a ∈ args, a ≠ [] ∧ a.all plainChar = true) :
    splitCmdline (joinSp args) = some args := by
  have := split_join_aux args h []
  simpa [splitCmdline] using this

/-- **C13_split_quoted.** The quoting rules: an argument that starts with a quote runs to the matching
quote, blanks and the other quote character included, and loses the quotes; a quoted part inside an
unquoted argument (`--key="hello world"and'more'`) keeps the argument whole, quotes included. -/
theorem C13_split_quoted (q : UInt8) (hq : isQuote q = true) (a : Str) (ha : q ∉ a)
    (pre : Str) (hpre : pre ≠ [] ∧ pre.all plainChar = true) (post : Str) (hpost : post.all plainChar = true) :
    splitCmdline (q :: a ++ [q]) = some [a] ∧
    splitCmdline (pre ++ q :: a ++ q :: post) = some [pre ++ q :: a ++ q :: post] := by
  constructor
  · have hb : isBlank q = false := by
      cases hh : isBlank q with
      | false => rfl
      | true => rw [blank_not_quote hh] at hq; cases hq
    simp only [splitCmdline, List.cons_append, splitGo, hb, hq, if_true]
    have := quoted_run q a ha [] [] []
    simp only [List.append_nil] at this
    rw [this]; simp [splitGo]
  · obtain ⟨c, p', rfl⟩ : ∃ c p', pre = c :: p' := by
      cases pre with
      | nil => exact absurd rfl hpre.1
      | cons c p' => exact ⟨c, p', rfl⟩
    have hp := hpre.2
    simp only [List.all_cons, Bool.and_eq_true] at hp
    have hc := hp.1
    simp only [plainChar, Bool.and_eq_true, Bool.not_eq_true'] at hc
    have hb : isBlank q = false := by
      cases hh : isBlank q with
      | false => rfl
      | true => rw [blank_not_quote hh] at hq; cases hq
    simp only [splitCmdline, List.cons_append, splitGo, hc.1, hc.2]
    rw [List.append_assoc, tok_run p' hp.2 [c]]
    simp only [List.cons_append, splitGo, hb, hq, if_true]
    rw [tokQ_run q a ha]
    have := tok_run post hpost (q :: (a.reverse ++ q :: (p'.reverse ++ [c]))) [] []
    simp only [List.append_nil] at this
    rw [this]
    simp [splitGo]

/-- **C13_split_roundtrip.** Every list of arguments of ARBITRARY bytes (blanks, tabs, NUL, control bytes,
one kind of quote; empty arguments too) can be passed: wrap each argument in the quote character it does
not contain, join with single spaces — `SplitCmdline` returns exactly those arguments. The only
arguments that cannot be passed this way are those containing both `'` and `"` (hypothesis). -/
theorem C13_split_roundtrip (args : List Str) (h : ∀ a ∈ args, ¬ ((34 : UInt8) ∈ a ∧ (39 : UInt8) ∈ a)) :
    splitCmdline (joinQuoted args) = some args := by
  have := split_joinQuoted_aux args h []
  simpa [splitCmdline] using this

example : joinQuoted [[97, 32, 98], [], [0, 39, 9]] = [34, 97, 32, 98, 34, 32, 34, 34, 32, 34, 0, 39, 9, 34] ∧
    splitCmdline (joinQuoted [[97, 32, 98], [], [0, 39, 9], [34]]) = some [[97, 32, 98], [], [0, 39, 9], [34]] := by decide

example : splitCmdline [97, 32, 34, 98, 32, 99, 34, 32, 45, 107, 61, 39, 118, 32, 119, 39, 122] =
    some [[97], [98, 32, 99], [45, 107, 61, 39, 118, 32, 119, 39, 122]] ∧
    splitCmdline [97, 32, 34, 98] = none := by decide

/-! ## C13_delete_in_handler (patch 11) -/

/-- **C13_delete_in_handler.** `Terminal::deleteSession` called from a command handler on the very session the handler runs
in — for EVERY script, world, slot and delivery: (1) the deletion changes nothing of the processing that is under way: the
rest of the handler's script, of the command line and of the segment run on the session exactly as without it, the call is
only noted; (2) when the delivery has been processed the slot's session is gone, (3) no other slot is touched, and nothing
that stands for an invalid access is produced on the way (the delivery's own events are passed on unchanged apart from the
note). The code as found freed the pooled context on the spot and went on using it: last conjunct of
`C13_total_legacy_counterexample`. -/
theorem C13_delete_in_handler (ns : Nodes) (feed : Feed) (s : St) (r : List Act)
    (w : World) (k : Nat) (x : Slot) (so : Option St) (evs : List Ev) (hk : k < w.slots.length) (hd : Ev.delS ∈ evs) :
    runScript ns feed s (.del :: r) = ((runScript ns feed s r).1, .delS :: (runScript ns feed s r).2) ∧
    ((finishSlot Cfg.fixed w k x so evs).1.slot k).sess = none ∧
    (∀ j, k ≠ j → (finishSlot Cfg.fixed w k x so evs).1.slot j = w.slot j) ∧
    ((∀ e ∈ evs, e.isBad = false) → ∀ e ∈ (finishSlot Cfg.fixed w k x so evs).2, e.isBad = false) := by
  have hany : evs.any isDelS = true := List.any_eq_true.mpr ⟨_, hd, by simp [isDelS]⟩
  refine ⟨by simp [runScript], ?_, fun j h => finishSlot_other Cfg.fixed w k j x so evs h, ?_⟩
  · have hget : ∀ y : Slot, (w.setSlot k y).slot k = y := by
      intro y; simp [World.slot, World.setSlot, List.getD_eq_getElem?_getD, hk]
    unfold finishSlot
    simp only [hany, if_true]
    cases kindOf k <;> simp only [] <;> first | (rw [hget]) | (show ((w.setSlot k _).slot k).sess = none; rw [hget])
  · intro hb
    have hdrop : noBad (dropTxAfterDel evs) := by
      clear hd hany
      induction evs with
      | nil => exact noBad_nil
      | cons e r ih =>
        have hr : noBad r := fun y hy => hb y (List.mem_cons_of_mem _ hy)
        have he : e.isBad = false := hb e List.mem_cons_self
        cases e <;> first
          | exact noBad_cons he (ih hr)
          | exact noBad_cons rfl (noBad_filter _ hr)
    unfold finishSlot
    simp only [delOutcome_fixed, List.append_nil]
    cases kindOf k <;> simp only []
    · exact noBad_cons rfl (noBad_filter _ hb)
    · exact noBad_cons rfl (noBad_filter _ (noBad_filter _ hb))
    · exact noBad_cons rfl (noBad_filter _ (noBad_filter _ hb))
    · exact noBad_cons rfl (noBad_filter _ (noBad_filter _ hdrop))

-- non-vacuity: `p;pwd` where p's handler deletes the session and sends a text: everything is still answered (text, `<1>`,
-- the path, the prompt), then the session is gone and further input is refused
example : untag (run Cfg.fixed {} [.mkfunc [.del, .send [104]], .mount 0 1 [112], .openS 0, .recv [112, 59, 112, 119, 100, 13, 10], .recv [13, 10]]).2 =
    [.slot 8, .line "node=1", .slot 8, .line "ret=1", .slot 0, .tx .out (Msg.welcome ++ Msg.typeHelp), .tx .prompt Msg.prompt, .slot 8, .line "ret=1",
     .slot 0, .entered, .exec [112, 59, 112, 119, 100], .probe 1 [[112]], .tx .out [104], .tx .out [60, 49, 62, 13, 10],
     .tx .out [47, 13, 10], .stored [112, 59, 112, 119, 100], .tx .prompt Msg.prompt, .slot 8, .line "ret=1", .slot 8, .line "ret=0"] := by
  decide +kernel

/-! ## C13_sock_* — the real socket read path (`BufferedFd::onReadCallback` under any kernel answers) -/

/-- **C13_sock_stream_conserved.** Whatever the kernel answers to the `readv` calls — any sizes of the successful calls, EAGAIN /
end of file / ECONNRESET / EINTR / EIO at any point, over any number of read events (EINTR, like EAGAIN, delivers nothing and
leaves the queue alone) — the deliveries the front end receives,
glued together, followed by what is still queued, are exactly the bytes the client wrote: nothing lost, duplicated or
reordered by the read path (with `C13_telnet_resumable`: the terminal is handed the same thing whatever the segmentation). -/
theorem C13_sock_stream_conserved (gone : Bool) (kq : Str) (evs : List (List Nat × Nat)) :
    (sockReads gone kq evs).1.flatten ++ (sockReads gone kq evs).2 = kq :=
  sockReads_conserve gone evs kq

/-- **C13_sock_close_rule.** (restated for the repaired read path, fix 1c1abc6.) A read event ends the connection only when its
FIRST `readv` is answered end of file or an error other than EAGAIN / EINTR — then nothing is delivered. For a scripted first
answer `term` the event closes exactly when `term` is not transient; EAGAIN and EINTR, wherever in the event the script gives
them, never close; as the first answer nothing is delivered, the
queue is untouched, the connection stays (the read event fires again: an EINTR event in front of any sequence of events adds
one empty delivery and changes nothing else). An answer that follows data in the same event is not looked at (it comes back
with the next event). -/
theorem C13_sock_close_rule (kq : Str) (gone : Bool) (cs : List Nat) (term : Nat) :
    ((sockRead kq gone cs term).closed = true → (sockRead kq gone cs term).data = []) ∧
    (term ≠ 0 → (sockRead kq gone [] term).closed = !termTransient term) ∧
    (termTransient term = true → (rdChunks kq cs).2.2.2 = false → (sockRead kq gone cs term).closed = false) ∧
    (termTransient term = true → (sockRead kq gone [] term).data = [] ∧ (sockRead kq gone [] term).rest = kq) ∧
    termTransient 1 = true ∧ termTransient 4 = true ∧
    (∀ evs, sockReads gone kq (([], 4) :: evs) = ([] :: (sockReads gone kq evs).1, (sockReads gone kq evs).2)) ∧
    (kq ≠ [] → cs ≠ [] → (∀ c ∈ cs, 1 ≤ c) → (sockRead kq gone cs term).closed = false) := by
  refine ⟨sockRead_closed kq gone cs term, fun h0 => by simp [sockRead, rdChunks, h0], sockRead_transient kq gone cs term,
    fun ht => ?_, rfl, rfl, fun evs => ?_, ?_⟩
  · have h0 : term ≠ 0 := by rintro rfl; simp [termTransient] at ht
    simp [sockRead, rdChunks, h0]
  · simp [sockReads, sockRead, rdChunks]
  · intro hk hc h1
    cases cs with
    | nil => exact absurd rfl hc
    | cons c cs => exact sockRead_open kq gone c cs term hk (h1 c List.mem_cons_self)

-- non-vacuity: EINTR in front of three queued bytes on a live connection: nothing delivered, all three stay, not closed;
-- ECONNRESET in the same place closes
example : sockRead [1, 2, 3] false [] 4 = { data := [], rest := [1, 2, 3], closed := false, toks := ["readv=EINTR"] } ∧
    (sockRead [1, 2, 3] false [] 3).closed = true := by decide

/-- **C13_sock_eintr_as_found.** The read path as found (before fix 1c1abc6: every errno but EAGAIN was fatal) closed a live
connection on EINTR with the client's bytes still unread; the repaired one keeps it and delivers them with the next event. -/
theorem C13_sock_eintr_as_found :
    (sockReadAsFound [1, 2, 3] false [] 4).closed = true ∧ (sockReadAsFound [1, 2, 3] false [] 4).data = [] ∧
    (sockRead [1, 2, 3] false [] 4).closed = false ∧
    sockReads false [1, 2, 3] [([], 4), ([], 0)] = ([[], [1, 2, 3]], []) := by decide

example : sockReads false [1, 2, 3, 4, 5] [([2], 1), ([], 1), ([1, 5], 2), ([], 0)] = ([[1, 2], [], [3, 4, 5], []], []) := by decide

/-! ## the client's window has a right margin -/

/-- **C13_wrap_agrees_below_width.** The terminal with a right margin (`ScrW`, the machine the harness's independent emulator
is compared with on every run) and the unbounded one of `C13_screen_matches_editor` do the same, byte for byte, for EVERY
byte string during which the unbounded terminal's cursor stays left of the margin. -/
theorem C13_wrap_agrees_below_width (bs : Str) (r : Scr) (q : ScrW) (h : Sim r q) (hW : (r.feed bs).maxc < q.w) :
    (q.feed bs).row = (r.feed bs).row ∧ (q.feed bs).col = (r.feed bs).col ∧ (q.feed bs).esc = (r.feed bs).esc := by
  have := (sim_feed bs r q h hW).1
  exact ⟨this.row, this.col, this.esc⟩

-- OPEN (false as it stands, see the counterexample): for EVERY window width `W` the client's terminal shows `pre ++ line`
-- (folded at the margin) with its cursor where the editor's cursor is.
/-- **C13_screen_in_window_partial.** What a client with a window of `W` columns sees — the terminal WITH a right margin — for an
echoing session and every sequence of editing keys, under the decidable hypothesis that prompt + the longest the line gets
fits the window (`pre.length + widest < W`): the current row shows `pre ++` the editor's line, the cursor stands where the
editor's cursor is, no escape sequence is left open. -/
theorem C13_screen_in_window_partial (cfg : Cfg) (ns : Nodes) (d : Nat) (pre : Str) (s : St) (r : Scr) (q : ScrW) (ks : List Key)
    (hS : Shows pre s r) (hq : Sim r q) (he : s.echo = true) (hne : Key.enter ∉ ks) (hc : ∀ c, Key.char c ∈ ks → plain c = true)
    (hW0 : r.maxc < q.w) (hW : pre.length + widest cfg ns (feedAt cfg ns d) s ks < q.w) :
    (∃ n, (q.feed (txBytes (runKeys cfg ns (feedAt cfg ns d) s ks).2)).row =
        pre ++ (runKeys cfg ns (feedAt cfg ns d) s ks).1.line ++ List.replicate n 32) ∧
    (q.feed (txBytes (runKeys cfg ns (feedAt cfg ns d) s ks).2)).col = pre.length + (runKeys cfg ns (feedAt cfg ns d) s ks).1.cursor ∧
    (q.feed (txBytes (runKeys cfg ns (feedAt cfg ns d) s ks).2)).esc = 0 := by
  have h := C13_screen_matches_editor cfg ns d pre s r ks q.w hS he hne hc hW0 hW
  have a := C13_wrap_agrees_below_width (txBytes (runKeys cfg ns (feedAt cfg ns d) s ks).2) r q hq h.2.2.2.1
  rw [a.1, a.2.1, a.2.2]
  exact ⟨h.1, h.2.1, h.2.2.1⟩

/-- Beyond the margin it is false, of the code as found and as repaired: window of 8 columns, prompt `# `, eight letters typed
(the line wraps after `# abcdef`), Home, then `X`. The editor holds `Xabcdefgh` with the cursor behind the `X`; the shell sent
eight `ESC [ D` for Home — the terminal's cursor cannot leave its row and stops at column 0 of the SECOND row — and redraws
the line from there: the client sees the rows `# abcdef`, `Xabcdefg`, `h`, its cursor at the start of the third one. -/
theorem C13_screen_in_window_counterexample :
    let s : St := { opts := 1 }
    let ks : List Key := [.char 97, .char 98, .char 99, .char 100, .char 101, .char 102, .char 103, .char 104, .home, .char 88]
    let o := runKeys Cfg.fixed [] none s ks
    let q := (({ w := 8 } : ScrW).feed Msg.prompt).feed (txBytes o.2)
    o.1.line = [88, 97, 98, 99, 100, 101, 102, 103, 104] ∧ o.1.cursor = 1 ∧
    q.up = 2 ∧ q.row = [104] ∧ q.col = 0 ∧ widest Cfg.fixed [] none s ks = 9 := by
  decide +kernel

example : Sim (({} : Scr).feed (Msg.crlf ++ Msg.prompt)) (({ w := 80 } : ScrW).feed (Msg.crlf ++ Msg.prompt)) :=
  ⟨by decide, by decide, by decide⟩

/-! ## util::string helpers used by the anchored files: `Split` (execute: `;`, findNode: `/`), `RawDataToHexStr` (telnetd trace) -/

/-- **C13_strsplit_single.** `util::string::Split` with a one-character separator — the only way the terminal calls it — is the
`splitOn` the shell model is built on, for every input. -/
theorem C13_strsplit_single (c : UInt8) (s : Str) : splitBy [c] s = splitOn c s := by
  unfold splitBy
  rw [splitByGo_single c (s.length + 1) s [] (by omega)]
  cases h : splitOn c s with
  | nil => exact absurd h (splitOn_ne_nil c s)
  | cons x xs => simp

/-- **C13_hexstr_width.** `RawDataToHexStr` takes its length as `uint16_t`; `Telnetd::onRecvSub` passes a `size_t`. For every
length below 2^16 the first `n` bytes are rendered, two digits each (2n characters without delimiter); a length of 2^16 or more
is taken modulo 2^16 — fewer bytes are READ than were received, never more: the call stays inside the received bytes. -/
theorem C13_hexstr_width (data : Str) (n : Nat) (u : Bool) (delim : Str) :
    (n < 65536 → rawHex data n u delim = delim.intercalate ((data.take n).map (hex2 u))) ∧
    rawHex data (n + 65536) u delim = rawHex data n u delim ∧
    (rawHex data n u []).length = 2 * min (n % 65536) data.length ∧
    n % 65536 ≤ n := by
  refine ⟨fun h => by unfold rawHex; rw [Nat.mod_eq_of_lt h], by unfold rawHex; rw [Nat.add_mod_right], rawHex_length data n u, Nat.mod_le _ _⟩

example : rawHex [0, 255, 16] 3 false [58] = [48, 48, 58, 102, 102, 58, 49, 48] ∧ rawHex [0, 255, 16] 65538 true [] = [48, 48, 70, 70] ∧
    splitBy [97, 98] [120, 97, 98, 121, 97, 98, 97, 98] = [[120], [121], [], []] := by decide

/-! ## C13_tree_in_handler (patches 12, 13) — command handlers that change the node tree -/

theorem eff_eff (s : St) (ns : Nodes) : s.eff (s.eff ns) = s.eff ns := by
  unfold St.eff; cases s.tree <;> rfl

theorem finishSlot_nodes (cfg : Cfg) (w : World) (k : Nat) (x : Slot) (so : Option St) (evs : List Ev) :
    (finishSlot cfg w k x so evs).1.nodes = w.nodes := by
  unfold finishSlot; simp only; cases kindOf k <;> rfl

theorem finishSlot_sess_tree (cfg : Cfg) (w : World) (k : Nat) (x : Slot) (so : Option St) (evs : List Ev)
    (hk : k < w.slots.length) (hso : ∀ s, so = some s → s.tree = none) :
    ∀ s', ((finishSlot cfg w k x so evs).1.slot k).sess = some s' → s'.tree = none := by
  have hget : ∀ y : Slot, (w.setSlot k y).slot k = y := by
    intro y; simp [World.slot, World.setSlot, List.getD_eq_getElem?_getD, hk]
  have hif : ∀ (b : Bool) s', (if b = true then none else so) = some s' → s'.tree = none := by
    intro b s' h; split at h
    · cases h
    · exact hso s' h
  unfold finishSlot
  simp only
  cases kindOf k <;> simp only []
  · intro s' h; rw [show ∀ y e, (({ w.setSlot k y with exits := e } : World).slot k) = (w.setSlot k y).slot k from fun _ _ => rfl, hget] at h
    exact hif _ s' h
  · intro s' h; rw [show ∀ y e f, (({ w.setSlot k y with exits := e, frontEnd := f } : World).slot k) = (w.setSlot k y).slot k from fun _ _ _ => rfl, hget] at h
    exact hif _ s' h
  · intro s' h; rw [show ∀ y e f, (({ w.setSlot k y with exits := e, frontEnd := f } : World).slot k) = (w.setSlot k y).slot k from fun _ _ _ => rfl, hget] at h
    exact hif _ s' h
  · intro s' h; rw [show ∀ y e, (({ w.setSlot k y with exits := e } : World).slot k) = (w.setSlot k y).slot k from fun _ _ => rfl, hget] at h
    split at h
    · cases h
    · split at h
      · cases h
      · first | exact hif _ s' h | exact hso s' h

/-- **C13_tree_in_handler.** Command handlers that change the Terminal's node tree (`deleteNode`, `mountNode`, `umountNode` of ANY
node: the handler's own node, the directory it is mounted in, the current directory of the session, the root) while the input
line that called them is still being executed — for EVERY tree, script, session, nesting of feeds and input:
(1) the change is in force at once: the rest of the handler's script runs on the changed tree; (2) every later command of the
same line, of the same segment and of nested feeds looks at the tree the handlers have left (`St.eff`), whatever the tree
was when the delivery began; (3) a whole delivery on ANY tree (root deleted, dangling or stale tokens in the session's path,
cycles) with ANY scripts never produces an outcome that stands for an invalid access — in particular `tree` of a deleted root
answers with a message (patch 12) and a handler that deleted its own node is run to its end (patch 13); (4) when the delivery
has been processed the World's tree IS the tree the handlers left, the stored session carries no private tree any more, and (5)
no other session slot is touched. -/
theorem C13_tree_in_handler (cfg : Cfg) (ns : Nodes) (feed : Feed) (s : St) (r : List Act) (i p c : Nat) (name : Str) :
    (runScript ns feed s (.rm i :: r) =
      ((runScript ns feed { s with tree := some (rmNode (s.eff ns) i) } r).1,
       .tag "h-rm" :: (runScript ns feed { s with tree := some (rmNode (s.eff ns) i) } r).2) ∧
     runScript ns feed s (.mnt p c name :: r) =
      ((runScript ns feed { s with tree := some (mountNode (s.eff ns) p c name) } r).1,
       .tag "h-mount" :: (runScript ns feed { s with tree := some (mountNode (s.eff ns) p c name) } r).2) ∧
     runScript ns feed s (.umnt p name :: r) =
      ((runScript ns feed { s with tree := some (umountNode (s.eff ns) p name) } r).1,
       .tag "h-umount" :: (runScript ns feed { s with tree := some (umountNode (s.eff ns) p name) } r).2)) ∧
    (∀ inner rerun line, executeCmd cfg ns feed inner rerun s line = executeCmd cfg (s.eff ns) feed inner rerun s line) ∧
    (∀ d bs, SInv s → ∀ e ∈ (recvStringD Cfg.fixed ns d s bs).2, e.isBad = false) ∧
    (∀ (w : World) (k : Nat) (bs : Str) (s0 : St), k < w.slots.length → (w.slot k).sess = some s0 →
      (deliver cfg w k bs).1.nodes = (recvStringD cfg w.nodes w.depth s0 bs).1.eff w.nodes ∧
      (∀ s', ((deliver cfg w k bs).1.slot k).sess = some s' → s'.tree = none) ∧
      (∀ j, k ≠ j → (deliver cfg w k bs).1.slot j = w.slot j)) := by
  refine ⟨⟨rfl, rfl, rfl⟩, ?_, ?_, ?_⟩
  · intro inner rerun line
    unfold executeCmd
    rw [eff_eff]
  · intro d bs hs
    exact (recvStringD_safe ns d s bs hs).2
  · intro w k bs s0 hk hs0
    refine ⟨?_, ?_, fun j h => deliver_other cfg w k j bs h⟩
    · unfold deliver; simp only [hs0]; rw [finishSlot_nodes]; rfl
    · unfold deliver; simp only [hs0]
      have hk' : k < (landTree w (some (recvStringD cfg w.nodes w.depth s0 bs).1)).slots.length := by
        rw [landTree_slots]; exact hk
      exact finishSlot_sess_tree cfg _ k _ _ _ hk' (by intro s1 h1; cases h1; rfl)

/-- **C13_no_stale_tree.** The global form of (4), repaired code: after EVERY op sequence no stored session carries a private
node tree — the tree a handler left behind has always been handed over to the Terminal (`landTree`) by the time the delivery
is over, so a later delivery to any session starts from the World's tree and can never be shadowed by a stale copy. -/
theorem C13_no_stale_tree (ops : List Op) (k : Nat) (s : St) (h : ((run Cfg.fixed {} ops).1.slot k).sess = some s) :
    s.tree = none :=
  ((run_inv {} ops winv_init).slot k s h).2

-- non-vacuity: a session exists after a delivery whose handler changed the tree, and the World's tree is the changed one
example : ((run Cfg.fixed {} [.mkfunc [.rm 1], .mount 0 1 [102], .openS 2, .recv [102, 13, 10]]).1.slot 0).sess.isSome = true ∧
    (run Cfg.fixed {} [.mkfunc [.rm 1], .mount 0 1 [102], .openS 2, .recv [102, 13, 10]]).1.nodes = [some (.dir [([102], 1)]), none] := by
  decide +kernel

-- non-vacuity: the session stands in `/d`; `f` (mounted in `d`) deletes `d` and then the root; the same line goes on: `tree`
-- names the deleted current directory, `cd ..` finds the deleted root, `tree /` answers `/ node has been deleted.`
example : (untag (run Cfg.fixed {} [.mkdir, .mkfunc [.rm 1, .rm 0], .mount 0 1 [100], .mount 1 2 [102], .openS 2, .recv [99, 100, 32, 100, 13, 10],
      .recv ([102, 59, 116, 114, 101, 101, 59, 99, 100, 32, 46, 46, 59, 116, 114, 101, 101, 32, 47] ++ [13, 10])]).2).drop 18 =
    [.slot 0, .entered, .exec [102, 59, 116, 114, 101, 101, 59, 99, 100, 32, 46, 46, 59, 116, 114, 101, 101, 32, 47], .probe 2 [[102]],
     .tx .out [60, 50, 62, 13, 10], .tx .out ([100] ++ Msg.nodeDeleted), .tx .out (Msg.errQ ++ [46, 46] ++ Msg.qDeleted),
     .tx .out ([47] ++ Msg.nodeDeleted),
     .stored [102, 59, 116, 114, 101, 101, 59, 99, 100, 32, 46, 46, 59, 116, 114, 101, 101, 32, 47], .slot 8, .line "ret=1"] := by
  decide +kernel

/-- **C13_tree_legacy_counterexample.** The code as found: `tree` after `deleteNode(rootNode())` calls `back()` on the empty
path (with patches 01..11); a handler that deletes its own node destroys the `std::function` it is running in (with patches
01..12). -/
theorem C13_tree_legacy_counterexample :
    (run { Cfg.fixed with treeRoot := false } {} [.rmnode 0, .openS 1, .recv [116, 114, 101, 101, 13, 10]]).2.contains (.bad .emptyBack) = true ∧
    (run { Cfg.fixed with treeRoot := false } {}
      [.mkfunc [.rm 0], .mount 0 1 [102], .openS 1, .recv [102, 59, 116, 114, 101, 101, 13, 10]]).2.contains (.bad .emptyBack) = true ∧
    (run { Cfg.fixed with funcCopy := false } {}
      [.mkfunc [.rm 1, .send [104]], .mount 0 1 [102], .openS 1, .recv [102, 13, 10]]).2.contains (.bad .useAfterFree) = true ∧
    (run Cfg.fixed {} [.mkfunc [.rm 1, .rm 0, .send [104]], .mount 0 1 [102], .openS 1, .recv [102, 59, 116, 114, 101, 101, 13, 10]]).2.all (fun e => !e.isBad) = true := by
  decide +kernel

end Tbox.C13
