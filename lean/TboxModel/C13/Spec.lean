/-
C13 — abstract specifications the property statement speaks about.

* `RefEd`: the reference line editor — a zipper (characters left of the cursor, nearest first,
  and characters right of it) with insert at cursor, backspace, delete, left/right/home/end and
  history up/down.
* `address`: which history entry an integer text addresses (`!n`, `!-n`), over mathematical
  integers — no machine arithmetic.
* `cap`: "the most recent 20".
* `frames`-free statement of telnet resumability: `mergeStr` glues adjacent string deliveries.
-/
import TboxModel.C13.Model
namespace Tbox.C13

/-! ### reference editor -/

structure RefEd where
  left : Str := []         -- reversed
  right : Str := []
  hist : List Str := []    -- oldest first
  hidx : Nat := 0          -- 0 = the fresh line, k = showing the k-th most recent entry
deriving DecidableEq, Repr

def RefEd.line (e : RefEd) : Str := e.left.reverse ++ e.right

/-- the k-th most recent entry (k = 1 is the newest) -/
def recent (hist : List Str) (k : Nat) : Option Str := if k = 0 then none else hist.reverse[k - 1]?

def RefEd.key (e : RefEd) : Key → RefEd
  | .char c => { e with left := c :: e.left }
  | .backspace => { e with left := e.left.tail }
  | .delete => { e with right := e.right.tail }
  | .left => (match e.left with | [] => e | c :: l => { e with left := l, right := c :: e.right })
  | .right => (match e.right with | [] => e | c :: r => { e with left := c :: e.left, right := r })
  | .home => { e with left := [], right := e.line }
  | .endKey => { e with left := e.line.reverse, right := [] }
  | .up => (match recent e.hist (e.hidx + 1) with
      | some l => { e with left := l.reverse, right := [], hidx := e.hidx + 1 }
      | none => e)
  | .down =>
      if e.hidx = 0 then e
      else if e.hidx = 1 then { e with left := [], right := [], hidx := 0 }
      else (match recent e.hist (e.hidx - 1) with
        | some l => { e with left := l.reverse, right := [], hidx := e.hidx - 1 }
        | none => e)
  | .tab => e
  | .enter => e            -- Enter is not an editing key; see `C13_editor_refines`

def RefEd.run (e : RefEd) : List Key → RefEd
  | [] => e
  | k :: ks => (e.key k).run ks

/-- the reference editor right after an Enter / at session start -/
def RefEd.fresh (hist : List Str) : RefEd := { hist := hist }

/-! ### history -/

/-- the most recent `histMax` entries -/
def cap (l : List Str) : List Str := l.drop (l.length - histMax)

inductive Addressed
  | entry (l : Str)     -- re-run exactly this line
  | noEntry             -- "Error: index out of range."
  | parseError          -- "Error: parse index fail."
deriving DecidableEq, Repr

/-- `!t`: `t` read as a mathematical integer `i`; `i ≥ 0` addresses entry `i` counted from the
oldest kept line, `i < 0` entry `|i|` counted back from the newest -/
def address (hist : List Str) (t : Str) : Addressed :=
  match parseInt t with
  | none => .parseError
  | some i =>
    if 0 ≤ i then (match hist[i.toNat]? with | some l => .entry l | none => .noEntry)
    else if i.natAbs ≤ hist.length then
      (match hist[hist.length - i.natAbs]? with | some l => .entry l | none => .noEntry)
    else .noEntry

/-! ### event projections -/

def execLines (evs : List Ev) : List Str := evs.filterMap fun | .exec l => some l | _ => none
def storedLines (evs : List Ev) : List Str := evs.filterMap fun | .stored l => some l | _ => none
def isPrompt : Ev → Bool
  | .tx .prompt _ => true
  | _ => false
def countPrompts (evs : List Ev) : Nat := (evs.filter isPrompt).length
def isEntered : Ev → Bool
  | .entered => true
  | _ => false
/-- the Enter keys handled: typed by the client or fed by a command handler into its own session -/
def countEntered (evs : List Ev) : Nat := (evs.filter isEntered).length
def isTag : Ev → Bool
  | .tag _ => true
  | _ => false
/-- events without the statistics tags -/
def untag (evs : List Ev) : List Ev := evs.filter (fun e => !isTag e)

/-- adjacent string deliveries glued together (what the byte stream means, whatever the segmentation) -/
def mergeStr : List Ev → List Ev
  | .tel (.str a) :: rest =>
    (match mergeStr rest with
     | .tel (.str b) :: r => .tel (.str (a ++ b)) :: r
     | r => .tel (.str a) :: r)
  | e :: rest => e :: mergeStr rest
  | [] => []


/-- the telnet front end fed with the segments one after the other, as they arrive -/
def feedAll (cfg : Cfg) : Nat → Str → List Str → List Ev × Nat × Str
  | opts, pending, [] => ([], opts, pending)
  | opts, pending, seg :: segs =>
    let r := telFeed cfg opts pending seg
    let r2 := feedAll cfg r.2.1 r.2.2 segs
    (r.1 ++ r2.1, r2.2)

/-! ### reference terminal: one screen row

What a VT100-style terminal makes of the bytes the shell sends, as far as the row the cursor is in is
concerned: a glyph is written at the cursor column (the row is padded with blanks when the cursor stands
beyond its end) and the cursor advances; BS moves left (not below column 0); CR goes to column 0; LF
starts an empty row; `ESC [ C` / `ESC [ D` move right / left by one; every other escape sequence is
skipped up to its final byte. The row is unbounded: `maxc`, the largest column the cursor has stood in,
is what must stay below the window width for a real terminal to behave like this one (no wrapping). -/

structure Scr where
  row : Str := []
  col : Nat := 0
  esc : Nat := 0        -- 0 ground, 1 after ESC, 2 inside `ESC [`
  maxc : Nat := 0
deriving DecidableEq, Repr

def Scr.put (r : Scr) (b : UInt8) : Scr :=
  { r with row := (r.row ++ List.replicate (r.col - r.row.length) 32).take r.col ++ b :: r.row.drop (r.col + 1),
           col := r.col + 1, maxc := max r.maxc (r.col + 1) }

def Scr.byte (r : Scr) (b : UInt8) : Scr :=
  if r.esc = 0 then
    if b = 8 then { r with col := r.col - 1 }
    else if b = 27 then { r with esc := 1 }
    else if b = 13 then { r with col := 0 }
    else if b = 10 then { r with row := [] }
    else r.put b
  else if r.esc = 1 then
    (if b = 91 then { r with esc := 2 } else { r with esc := 0 })
  else
    if b = 67 then { r with esc := 0, col := r.col + 1, maxc := max r.maxc (r.col + 1) }
    else if b = 68 then { r with esc := 0, col := r.col - 1 }
    else if 64 ≤ b ∧ b ≤ 126 then { r with esc := 0 }
    else r

def Scr.feed (r : Scr) : Str → Scr
  | [] => r
  | b :: bs => (r.byte b).feed bs

/-! ### a terminal WITH a right margin

The same terminal in a window `w` columns wide, as the client sees it (immediate autowrap; the harness carries an
independently written emulator of this machine, fed with the bytes the real shell sends, and the two are compared on every
run as `P scr` lines): a glyph written in the last column moves the cursor to column 0 of the next row; BS and `ESC [ D`
stop at column 0 (no way back to the row above); `ESC [ C` stops at the last column; CR, LF as before. `up` counts the rows
the cursor has left behind by wrapping or LF. -/

structure ScrW where
  w : Nat := 80
  row : Str := []
  col : Nat := 0
  esc : Nat := 0
  up : Nat := 0
deriving DecidableEq, Repr

def ScrW.byte (r : ScrW) (b : UInt8) : ScrW :=
  if r.esc = 0 then
    if b = 8 then { r with col := r.col - 1 }
    else if b = 27 then { r with esc := 1 }
    else if b = 13 then { r with col := 0 }
    else if b = 10 then { r with row := [], up := r.up + 1 }
    else
      let row' := (r.row ++ List.replicate (r.col - r.row.length) 32).take r.col ++ b :: r.row.drop (r.col + 1)
      if r.col + 1 ≥ r.w then { r with row := [], col := 0, up := r.up + 1 }
      else { r with row := row', col := r.col + 1 }
  else if r.esc = 1 then
    (if b = 91 then { r with esc := 2 } else { r with esc := 0 })
  else
    if b = 67 then { r with esc := 0, col := if r.col + 1 < r.w then r.col + 1 else r.col }
    else if b = 68 then { r with esc := 0, col := r.col - 1 }
    else if 64 ≤ b ∧ b ≤ 126 then { r with esc := 0 }
    else r

def ScrW.feed (r : ScrW) : Str → ScrW
  | [] => r
  | b :: bs => (r.byte b).feed bs

/-- the row without trailing blanks (what `P scr` prints) -/
def stripBlanks (row : Str) : Str := (row.reverse.dropWhile (· = 32)).reverse

/-- a glyph: what the key scanner calls printable is one (`C13_scanner_chars_plain`) -/
def plain (c : UInt8) : Bool := 32 ≤ c && c ≤ 126

/-- all bytes sent to the client, in order -/
def txBytes : List Ev → Str
  | [] => []
  | .tx _ bs :: r => bs ++ txBytes r
  | _ :: r => txBytes r

/-- the longest the edit line gets while these keys are handled -/
def widest (cfg : Cfg) (ns : Nodes) (feed : Feed) : St → List Key → Nat
  | s, [] => s.line.length
  | s, k :: ks => max s.line.length (widest cfg ns feed (onKey cfg ns feed s k).1 ks)

/-! ### sessions -/

/-- a loop pass has something to do for slot `j`: an exit task of its current session or a handler's disconnect is queued,
a descriptor of a finished connection awaits its `close`, its socket has bytes queued or its client closed its end -/
def passTouches (w : World) (j : Nat) : Bool :=
  w.exits.contains (j, (w.slot j).gen) || (w.slot j).ending || (w.slot j).zfd != 0

def sockTouches (w : World) (j : Nat) : Bool :=
  (w.slot j).fstate == 1 && (!(w.slot j).kq.isEmpty || w.gone.contains j)

/-- the session slots an op may change: its own slot, and for a loop pass exactly the slots whose
CURRENT session (slot, generation = the session token) has an exit task queued, or whose disconnect was
requested by a command handler (`endSession()`), or whose socket has something to report -/
def touches (w : World) : Op → Nat → Bool
  | .openS _, j => j == w.cur
  | .recv _, j => j == w.cur
  | .opt _, j => j == w.cur
  | .close, j => j == w.cur
  | .xconn k, j => j == k
  | .xrecv k _, j => j == k
  | .xdisc k, j => j == k
  | .xsock k _ _ _, j => j == k
  | .pass, j => passTouches w j || sockTouches w j
  | .sstart, j => j == 7 || passTouches w j
  | .srecv _, j => j == 7 || passTouches w j
  | .sstop, j => j == 7 || passTouches w j
  | .teardown, _ => true
  | .passdown, _ => true
  | _, _ => false

/-- disconnects carried out (`TcpServer::disconnect` of a session's client) -/
def countClosed (evs : List Ev) : Nat := (evs.filter (· = .closed)).length

/-! ### SplitCmdline -/

/-- the quote (if any) still open after `s`, starting inside `q` -/
def openQuote : Option UInt8 → Str → Option UInt8
  | q, [] => q
  | none, c :: cs => if isQuote c then openQuote (some c) cs else openQuote none cs
  | some q, c :: cs => if c = q then openQuote none cs else openQuote (some q) cs

/-- neither blank nor quote -/
def plainChar (c : UInt8) : Bool := !isBlank c && !isQuote c

/-- arguments joined by single spaces -/
def joinSp : List Str → Str
  | [] => []
  | [a] => a
  | a :: b :: r => a ++ 32 :: joinSp (b :: r)

/-- the quote character that does not occur in `a` (when at most one of them does) -/
def pickQuote (a : Str) : UInt8 := if (34 : UInt8) ∈ a then 39 else 34

/-- an argument wrapped in quotes -/
def quoteArg (a : Str) : Str := pickQuote a :: a ++ [pickQuote a]

/-- arguments, each wrapped in quotes, joined by single spaces: how a client passes arbitrary bytes -/
def joinQuoted : List Str → Str
  | [] => []
  | [a] => quoteArg a
  | a :: b :: r => quoteArg a ++ 32 :: joinQuoted (b :: r)

end Tbox.C13
