/-
C14 — model of the JSON-RPC framings and of the pending-request bookkeeping.

Transcribed from
  modules/jsonrpc/protos/header_stream_proto.cpp   (`encodeHeader`, `decodeHeader`)
  modules/util/serializer.cpp                      (`be16enc/dec`, `be32enc/dec`, `fetchNoCopy`)
  modules/util/json.cpp  `FindEndPos`              (`findEndPos`)
  modules/jsonrpc/protos/raw_stream_proto.cpp      (`decodeRaw`)
  modules/jsonrpc/protos/packet_proto.cpp          (`decodePacket`)
  modules/jsonrpc/rpc.cpp + eventx/timeout_monitor_impl.hpp   (`Rpc`, `step`, `tick`, `advance`)

`nlohmann::json` is abstract: `parse : List Byte → Option μ` (a failing parse is a value, the
code wraps it in `CatchThrow`).  Sizes are `Nat` (`size_t` is 64 bit), the length field of the
header framing is a `UInt32` and the size check is modelled with exactly the C++ arithmetic.
-/
namespace Tbox.C14

abbrev Byte := UInt8

/-! ## util::Serializer / util::Deserializer, big endian -/

/-- `Serializer::append(uint16_t)`: `p[1] = in & 0xff; in >>= 8; p[0] = in & 0xff` -/
def be16enc (v : UInt16) : List Byte := [(v >>> 8).toUInt8, v.toUInt8]

/-- `Serializer::append(uint32_t)` -/
def be32enc (v : UInt32) : List Byte :=
  [(v >>> 24).toUInt8, (v >>> 16).toUInt8, (v >>> 8).toUInt8, v.toUInt8]

/-- `Deserializer::fetch(uint16_t&)`: `out = p[0]; out <<= 8; out |= p[1]` -/
def be16dec (b0 b1 : Byte) : UInt16 := (b0.toUInt16 <<< 8) ||| b1.toUInt16

/-- `Deserializer::fetch(uint32_t&)` -/
def be32dec (b0 b1 b2 b3 : Byte) : UInt32 :=
  ((((b0.toUInt32 <<< 8) ||| b1.toUInt32) <<< 8 ||| b2.toUInt32) <<< 8) ||| b3.toUInt32

/-- `Deserializer::fetchNoCopy(size)` at position `pos` of a `size`-byte input:
`none` = `nullptr` (the `checkSize` failed) -/
def fetchNoCopy (dataSize pos n : Nat) : Option Nat :=
  if pos + n ≤ dataSize then some pos else none

/-! ## result of one `onRecvData` call, before JSON parsing -/

/-- what one `onRecvData` call decides about the bytes it was given -/
inductive Frame where
  | needMore                                   -- return 0
  | err (code : Int)                           -- return code (< 0) decided by the framing itself
  | frame (text : List Byte) (consumed : Nat)  -- a complete JSON text; parse decides −1 / `consumed`
  | throws                                     -- an exception leaves `onRecvData` (std::string(nullptr, n), n > 0)
deriving Repr, DecidableEq

def kHeadSize : Nat := 6

/-- `HeaderStreamProto::sendJson`: magic, `static_cast<uint32_t>(json_text.size())`, text -/
def encodeHeader (magic : UInt16) (text : List Byte) : List Byte :=
  be16enc magic ++ be32enc (UInt32.ofNat text.length) ++ text

/-- the size test of `HeaderStreamProto::onRecvData`; `fixed = false` is the arithmetic of the
unrepaired tree: `content_size + kHeadSize > data_size` evaluated in 32 bit (`uint32_t + uint16_t`)
and then widened; `fixed = true` is `content_size > data_size - kHeadSize` in `size_t`
(patches/C14-01-header-length-wrap.diff; `data_size ≥ kHeadSize` holds at that point). -/
def headerNotEnough (fixed : Bool) (contentSize : UInt32) (dataSize : Nat) : Bool :=
  if fixed then decide (contentSize.toNat > dataSize - kHeadSize)
  else decide ((contentSize + 6).toNat > dataSize)

/-- `HeaderStreamProto::onRecvData` up to (not including) `Json::parse` -/
def decodeHeaderG (fixed : Bool) (magic : UInt16) (data : List Byte) : Frame :=
  if data.length < kHeadSize then .needMore
  else
    match data with
    | b0 :: b1 :: b2 :: b3 :: b4 :: b5 :: _ =>
      let headerMagic := be16dec b0 b1
      let contentSize := be32dec b2 b3 b4 b5
      if headerMagic ≠ magic then .err (-2)
      else if headerNotEnough fixed contentSize data.length then .needMore
      else
        match fetchNoCopy data.length kHeadSize contentSize.toNat with
        | none =>
            -- str_ptr = nullptr: std::string(nullptr, n) throws std::logic_error unless n = 0
            if contentSize.toNat = 0 then .frame [] kHeadSize else .throws
        | some p => .frame ((data.drop p).take contentSize.toNat) (p + contentSize.toNat)
    | _ => .needMore   -- unreachable: length ≥ 6

/-- the repaired code (the tree this package describes) -/
def decodeHeader (magic : UInt16) (data : List Byte) : Frame := decodeHeaderG true magic data
/-- the code as found (kept for the counterexample) -/
def decodeHeaderOrig (magic : UInt16) (data : List Byte) : Frame := decodeHeaderG false magic data

/-! ## util::json::FindEndPos -/

structure Scan where
  started : Bool := false   -- is_started
  braces  : Int := 0        -- braces_level
  square  : Int := 0        -- square_level
  inStr   : Bool := false   -- in_string
deriving Repr, DecidableEq

/-- `::isgraph(ch)` in the "C" locale (`char` is signed: bytes ≥ 0x80 are not graphic) -/
def isGraph (c : Byte) : Bool := 0x21 ≤ c && c ≤ 0x7e

def cQuote : Byte := 34   -- '"'
def cBack  : Byte := 92   -- '\\'
def cLsq   : Byte := 91   -- '['
def cRsq   : Byte := 93   -- ']'
def cLbr   : Byte := 123  -- '{'
def cRbr   : Byte := 125  -- '}'

/-- `for (size_t j = i - 1; j != 0 && str_ptr[j] == '\\'; --j) in_string = !in_string;`
`seen` is `str[0..i)` reversed (so its head is `str[i-1]` and its last element `str[0]`, which the
loop never inspects because of `j != 0`).  With `seen = []` (i = 0) the C++ would start at
`j = SIZE_MAX`; `C14_raw_total` shows that case is never reached. -/
def backToggle : List Byte → Bool → Bool
  | [], acc => acc
  | [_], acc => acc
  | c :: rest, acc => if c = cBack then backToggle rest (!acc) else acc

/-- outcome of scanning some bytes: still scanning, or `return` taken at a position -/
inductive ScanRes where
  | cont (st : Scan) (seen : List Byte)
  | done (pos : Nat)     -- `return i + 1`
  | neg (pos : Nat)      -- `return -1` (taken at index pos-1)
deriving Repr, DecidableEq

/-- the two tests at the end of the loop body -/
def scanCheck (st : Scan) (seen : List Byte) : ScanRes :=
  if st.braces = 0 ∧ st.square = 0 ∧ st.inStr = false ∧ st.started = true then .done seen.length
  else if st.braces < 0 ∨ st.square < 0 then .neg seen.length
  else .cont st seen

/-- the `switch (ch)` outside strings -/
def scanBracket (st : Scan) (ch : Byte) : Scan :=
  if ch = cLsq then { st with square := st.square + 1 }
  else if ch = cRsq then { st with square := st.square - 1 }
  else if ch = cLbr then { st with braces := st.braces + 1 }
  else if ch = cRbr then { st with braces := st.braces - 1 }
  else st

/-- one iteration of the `for` loop on character `ch = str[i]`, `seen = reverse str[0..i)` -/
def scanStep (st : Scan) (seen : List Byte) (ch : Byte) : ScanRes :=
  let st0 : Scan := { st with started := st.started || isGraph ch }
  if ch = cQuote then
    scanCheck { st0 with inStr := if st.inStr then backToggle seen false else true } (ch :: seen)
  else if st.inStr then
    .cont st0 (ch :: seen)      -- `continue`
  else
    scanCheck (scanBracket st0 ch) (ch :: seen)

/-- the loop over the remaining input -/
def scanRun (st : Scan) (seen : List Byte) : List Byte → ScanRes
  | [] => .cont st seen
  | ch :: rest =>
    match scanStep st seen ch with
    | .cont st' seen' => scanRun st' seen' rest
    | r => r

/-- `int FindEndPos(const char*, size_t)`: end position (> 0), 0 = not complete, −1 = unbalanced -/
def findEndPos (s : List Byte) : Int :=
  match scanRun {} [] s with
  | .cont _ _ => 0
  | .done p => p
  | .neg _ => -1

/-- `RawStreamProto::onRecvData` up to `Json::parse`.  `fixed = false` is the tree before
patches/C14-03-raw-unbalanced-is-an-error.diff: a −1 of `FindEndPos` (a closing bracket without
its opening one — no continuation can repair it) fell through to `return 0` ("need more bytes"),
so the malformed input was never reported and the stream stalled for ever; `fixed = true`
returns −2 (the code the header framing uses for a framing error). -/
def decodeRawG (fixed : Bool) (data : List Byte) : Frame :=
  if data.length < 2 then .needMore
  else
    let e := findEndPos data
    if e > 0 then .frame (data.take e.toNat) e.toNat
    else if fixed ∧ e < 0 then .err (-2)
    else .needMore

/-- the repaired code (the tree this package describes) -/
def decodeRaw (data : List Byte) : Frame := decodeRawG true data
/-- the code as found (kept for the counterexample) -/
def decodeRawOrig (data : List Byte) : Frame := decodeRawG false data

/-- `PacketProto::onRecvData` up to `Json::parse`: the datagram is the text -/
def decodePacket (data : List Byte) : Frame :=
  if data.length < 2 then .needMore else .frame data data.length

/-! ## one `onRecvData` call including the (abstract) JSON parse, and the stream loop
that every user of a stream framing runs (examples/jsonrpc/*: consume `ret` bytes while
`ret > 0`, stop on 0, give the connection up on `ret < 0`) -/

inductive Ev (μ : Type) where
  | msg (m : μ) (consumed : Nat)    -- onRecvJson(m); return consumed
  | err (code : Int)                -- negative return value
  | threw                           -- exception out of onRecvData
  | stuck                           -- a positive return value of 0 / beyond the input (never happens)
deriving Repr, DecidableEq

/-- result of `onRecvData` as the caller sees it -/
def recvData {μ} (dec : List Byte → Frame) (parse : List Byte → Option μ) (data : List Byte) :
    Option (Ev μ) :=     -- none = return 0
  match dec data with
  | .needMore => none
  | .err c => some (.err c)
  | .throws => some .threw
  | .frame t n =>
    match parse t with
    | none => some (.err (-1))
    | some m => some (.msg m n)

/-- the receive loop on a buffer: events in order and the unconsumed rest (`none` = the
connection was given up after an error) -/
def drain {μ} (dec : List Byte → Frame) (parse : List Byte → Option μ) (buf : List Byte) :
    List (Ev μ) × Option (List Byte) :=
  match recvData dec parse buf with
  | none => ([], some buf)
  | some (.msg m n) =>
    if _h : 0 < n ∧ n ≤ buf.length then
      let r := drain dec parse (buf.drop n)
      (.msg m n :: r.1, r.2)
    else ([.stuck], none)
  | some e => ([e], none)
termination_by buf.length
decreasing_by simp [List.length_drop]; omega

/-- a connection: bytes not yet consumed, or dead -/
abbrev Conn := Option (List Byte)

/-- a segment arrives -/
def feed {μ} (dec : List Byte → Frame) (parse : List Byte → Option μ) (c : Conn) (seg : List Byte) :
    List (Ev μ) × Conn :=
  match c with
  | none => ([], none)
  | some buf => drain dec parse (buf ++ seg)

def feedAll {μ} (dec : List Byte → Frame) (parse : List Byte → Option μ) (c : Conn) :
    List (List Byte) → List (Ev μ) × Conn
  | [] => ([], c)
  | seg :: segs =>
    let r1 := feed dec parse c seg
    let r2 := feedAll dec parse r1.2 segs
    (r1.1 ++ r2.1, r2.2)

/-- `static_cast<int>` of a 64-bit integer (two's complement wrap, as g++ does) -/
def wrap32 (v : Int) : Int := (v + 2147483648) % 4294967296 - 2147483648

/-- the `id` member of a response written as the integer literal `v`, as `Proto::onRecvJson`
obtains it through `util::json::GetField(js, "id", int&)`.  `none` = the getter fails (the response
is dropped, or handed on with id 0 which is never pending).  `fixed = false` is the tree before
patches/C14-04-json-get-int-range.diff: every literal that nlohmann stores as a 64-bit integer was
accepted and truncated by `get<int>()` (literals beyond 64 bit become floating point and fail);
`fixed = true` accepts exactly the values of `int`. -/
def respIdG (fixed : Bool) (v : Int) : Option Int :=
  if fixed then
    (if -2147483648 ≤ v ∧ v ≤ 2147483647 then some v else none)
  else
    (if -9223372036854775808 ≤ v ∧ v < 18446744073709551616 then some (wrap32 v) else none)

/-! ## proto.cpp: the three message encoders and the dispatch of a received JSON value

The JSON value is abstract data (`J`); `Json::dump`/`Json::parse` stay abstract functions in the
theorems (hypothesis `parse (dump j) = some j`). An object is a finite map: an association list
looked up by the first match (the encoders below build objects with distinct keys). -/

inductive J where
  | null
  | bool (b : Bool)
  | int (v : Int)              -- number_integer / number_unsigned (any size)
  | float
  | str (s : String)
  | arr                        -- an array (content irrelevant to the object dispatch)
  | obj (fields : List (String × J))
deriving Repr

def J.isNull : J → Bool
  | .null => true
  | _ => false

/-- `js.contains(key)` / `js.at(key)`; `false`/`none` for anything that is not an object -/
def J.lookup (j : J) (key : String) : Option J :=
  match j with
  | .obj fields => (fields.find? (fun f => f.1 == key)).map (·.2)
  | _ => none

/-- `util::json::GetField(js, key, std::string&)` -/
def J.getStr (j : J) (key : String) : Option String :=
  match j.lookup key with
  | some (.str s) => some s
  | _ => none

/-- `util::json::GetField(js, key, int&)` with the range check of patches/C14-04 -/
def J.getInt (j : J) (key : String) : Option Int :=
  match j.lookup key with
  | some (.int v) => respIdG true v
  | _ => none

/-- what `Proto::onRecvJson` hands to the registered callbacks for an object -/
inductive RMsg where
  | request (id : Int) (method : String) (params : J)
  | response (id : Int) (errcode : Int) (result : J)
deriving Repr

/-- `Proto::onRecvJson` for an object (both callbacks registered) -/
def recvJsonObj (j : J) : List RMsg :=
  match j.getStr "jsonrpc" with
  | none => []
  | some version =>
    if version ≠ "2.0" then []
    else if (j.lookup "method").isSome then
      match j.getStr "method" with
      | none => []
      | some method =>
        [.request ((j.getInt "id").getD 0) method ((j.lookup "params").getD .null)]
    else if (j.lookup "result").isSome then
      match j.getInt "id" with
      | none => []
      | some id => [.response id 0 ((j.lookup "result").getD .null)]
    else
      match j.lookup "error" with
      | none => []
      | some jerr =>
        match jerr.getInt "code" with
        | none => []
        | some code => [.response ((j.getInt "id").getD 0) code .null]

/-- `Proto::sendRequest(id, method, params)` (`id` and `errcode` are C++ `int`s) -/
def mkRequest (id : Int) (method : String) (params : J) : J :=
  .obj ([("jsonrpc", .str "2.0"), ("method", .str method)] ++
        (if id ≠ 0 then [("id", .int id)] else []) ++
        (if params.isNull then [] else [("params", params)]))

/-- `Proto::sendResult(id, result)` -/
def mkResult (id : Int) (result : J) : J :=
  .obj [("jsonrpc", .str "2.0"), ("id", .int id), ("result", result)]

/-- `Proto::sendError(id, errcode, message)` -/
def mkError (id : Int) (errcode : Int) (message : String) : J :=
  .obj [("jsonrpc", .str "2.0"), ("id", .int id),
        ("error", .obj ([("code", .int errcode)] ++ (if message.isEmpty then [] else [("message", .str message)])))]

/-- a C++ `int` -/
def isInt32 (v : Int) : Prop := -2147483648 ≤ v ∧ v ≤ 2147483647
instance (v : Int) : Decidable (isInt32 v) := by unfold isInt32; exact inferInstance

/-! ## Rpc: pending-request map + TimeoutMonitor ring -/

/-- a completion callback as the harness scripts it: `tag` identifies it, `chain` = it issues one
further (plain) request from inside the callback -/
structure Cb where
  tag : Nat
  chain : Bool
deriving Repr, DecidableEq

inductive REv where
  | sent (id : Nat)                   -- proto_->sendRequest(id, …)
  | fired (tag : Nat) (code : Int)    -- the completion callback `tag` ran with errcode `code`
deriving Repr, DecidableEq

def kRequestTimeout : Int := -32000

structure Rpc where
  n       : Nat                         -- check_times (timeout_sec)
  idAlloc : Nat := 0                    -- id_alloc_
  nTag    : Nat := 0                    -- callbacks handed out by the harness so far
  pending : List (Nat × Cb) := []       -- request_callback_
  ring    : List (List Nat) := []       -- TimeoutMonitor ring, head = curr_item_
  vn      : Nat := 0                    -- value_number_
  timerOn : Bool := false               -- sp_timer_ enabled
  now     : Nat := 0                    -- steady clock (ms)
  due     : Nat := 0                    -- expiry of the persistent 1 s timer while enabled
deriving Repr, DecidableEq

/-- `Rpc::initialize(proto, timeout_sec)` with `timeout_sec ≥ 1` -/
def Rpc.init (n : Nat) : Rpc := { n := n, ring := List.replicate n [] }

def pendingFind (p : List (Nat × Cb)) (id : Int) : Option (Nat × Cb) :=
  p.find? (fun e => (e.1 : Int) = id)

def pendingErase (p : List (Nat × Cb)) (id : Nat) : List (Nat × Cb) :=
  p.filter (fun e => e.1 ≠ id)

/-- `TimeoutMonitor::add`: push to the current slot; enable the timer on 0 → 1 -/
def Rpc.monitorAdd (s : Rpc) (id : Nat) : Rpc :=
  let ring' := match s.ring with
    | [] => []
    | cur :: rest => (cur ++ [id]) :: rest
  let s1 := { s with ring := ring' }
  let s2 := if s.vn = 0 then { s1 with timerOn := true, due := s.now + 1000 } else s1
  { s2 with vn := s.vn + 1 }

/-- `Rpc::request(method, params, cb)` with a callback -/
def Rpc.request (s : Rpc) (chain : Bool) : Rpc × List REv :=
  let id := s.idAlloc + 1
  let cb : Cb := { tag := s.nTag, chain := chain }
  let s1 := { s with idAlloc := id, nTag := s.nTag + 1,
                     pending := pendingErase s.pending id ++ [(id, cb)] }
  (s1.monitorAdd id, [.sent id])

/-- run callback `cb` with `code`: the event, and the chained request if it is scripted -/
def Rpc.fire (s : Rpc) (cb : Cb) (code : Int) : Rpc × List REv :=
  if cb.chain then
    let r := s.request false
    (r.1, .fired cb.tag code :: r.2)
  else (s, [.fired cb.tag code])

/-- `Rpc::onRecvRespond` / `Rpc::onRequestTimeout`: find, call, erase -/
def Rpc.complete (s : Rpc) (id : Int) (code : Int) : Rpc × List REv :=
  match pendingFind s.pending id with
  | none => (s, [])
  | some (k, cb) =>
    let r := s.fire cb code
    ({ r.1 with pending := pendingErase r.1.pending k }, r.2)

def Rpc.completeAll (s : Rpc) (code : Int) : List Nat → Rpc × List REv
  | [] => (s, [])
  | id :: ids =>
    let r1 := s.complete id code
    let r2 := Rpc.completeAll r1.1 code ids
    (r2.1, r1.2 ++ r2.2)

/-- `TimeoutMonitor::onTimerTick` -/
def Rpc.tick (s : Rpc) : Rpc × List REv :=
  match s.ring with
  | [] => (s, [])
  | cur :: rest =>
    -- curr_item_ = curr_item_->next; swap(tobe_handle, curr_item_->items)
    match rest ++ [cur] with
    | [] => (s, [])
    | items :: others =>
      let vn' := s.vn - items.length
      let s1 := { s with ring := [] :: others, vn := vn', timerOn := if vn' = 0 then false else s.timerOn }
      s1.completeAll kRequestTimeout items

/-- a response with id literal `rid` arrives -/
def Rpc.respondG (fixed : Bool) (s : Rpc) (rid : Int) (code : Int) : Rpc × List REv :=
  match respIdG fixed rid with
  | none => (s, [])
  | some id => s.complete id code

def Rpc.respond (s : Rpc) (rid : Int) (code : Int) : Rpc × List REv := s.respondG true rid code

inductive Op where
  | request (chain : Bool)
  | notify
  | response (id : Int) (code : Int)     -- id: the integer literal in the message, any size
  | tick
deriving Repr, DecidableEq

def step (s : Rpc) : Op → Rpc × List REv
  | .request chain => s.request chain
  | .notify => (s, [.sent 0])
  | .response id code => s.respond id code
  | .tick => s.tick

def run (s : Rpc) : List Op → Rpc × List REv
  | [] => (s, [])
  | op :: ops =>
    let r1 := step s op
    let r2 := run r1.1 ops
    (r2.1, r1.2 ++ r2.2)

/-- the loop's `handleExpiredTimers` for the monitor's persistent timer after the clock moved:
`while (enabled && expired <= now) { expired += interval; onTimerTick(); }` -/
def Rpc.expire : Nat → Rpc → Rpc × List REv
  | 0, s => (s, [])
  | fuel + 1, s =>
    if s.timerOn ∧ s.due ≤ s.now then
      let r1 := ({ s with due := s.due + 1000 }).tick
      let r2 := Rpc.expire fuel r1.1
      (r2.1, r1.2 ++ r2.2)
    else (s, [])

/-- the clock advances by `ms` and the loop runs -/
def Rpc.advance (s : Rpc) (ms : Nat) : Rpc × List REv :=
  Rpc.expire (ms / 1000 + 2) { s with now := s.now + ms }

/-! ## Rpc, server half: `onRecvRequest`, `respond()`, `tobe_respond_`, `respond_timeout_`

The two halves of an `Rpc` object share nothing but `proto_`: the client half (`Rpc` above:
`id_alloc_`, `request_callback_`, `request_timeout_`) and the server half (`Srv`:
`method_services_`, `tobe_respond_`, `respond_timeout_`, a second `TimeoutMonitor` with its own
1-s timer). -/

/-- how the harness scripts the method a request names -/
inductive Service where
  | sync (errcode : Int)   -- registered; the callback returns true with this errcode (0 = a result)
  | async                  -- registered; the callback returns false, the application calls respond() later
  | unknown                -- not registered
deriving Repr, DecidableEq

inductive SEv where
  | called (id : Int)               -- the service callback ran
  | sent (id : Int) (code : Int)    -- proto_->sendResult(id, …) (code 0) / proto_->sendError(id, code)
deriving Repr, DecidableEq

def kMethodNotFound : Int := -32601

structure Srv where
  n       : Nat
  tobe    : List Int := []            -- tobe_respond_ (a set)
  ring    : List (List Int) := []     -- respond_timeout_ ring, head = curr_item_
  vn      : Nat := 0
  timerOn : Bool := false
  now     : Nat := 0
  due     : Nat := 0
deriving Repr, DecidableEq

def Srv.init (n : Nat) : Srv := { n := n, ring := List.replicate n [] }

/-- `TimeoutMonitor::add` -/
def Srv.monitorAdd (s : Srv) (id : Int) : Srv :=
  let ring' := match s.ring with
    | [] => []
    | cur :: rest => (cur ++ [id]) :: rest
  let s1 := { s with ring := ring' }
  let s2 := if s.vn = 0 then { s1 with timerOn := true, due := s.now + 1000 } else s1
  { s2 with vn := s.vn + 1 }

/-- `Rpc::respond(id, errcode, result)` / `respond(id, result)` / `respond(id, errcode)`:
sends whenever `id ≠ 0` — `tobe_respond_` is not consulted — and erases the id -/
def Srv.respond (s : Srv) (id code : Int) : Srv × List SEv :=
  if id = 0 then (s, [])
  else ({ s with tobe := s.tobe.filter (· ≠ id) }, [.sent id code])

/-- `Rpc::onRecvRequest(id, method, params)` -/
def Srv.recvRequest (s : Srv) (id : Int) (svc : Service) : Srv × List SEv :=
  match svc with
  | .unknown => (s, [.sent id kMethodNotFound])
  | .sync code =>
    if id ≠ 0 then
      let s1 := { s with tobe := if s.tobe.contains id then s.tobe else s.tobe ++ [id] }
      let r := s1.respond id code
      (r.1, .called id :: r.2)
    else (s, [.called 0])
  | .async =>
    if id ≠ 0 then
      let s1 := { s with tobe := if s.tobe.contains id then s.tobe else s.tobe ++ [id] }
      (s1.monitorAdd id, [.called id])
    else (s, [.called 0])

/-- `TimeoutMonitor::onTimerTick` + `Rpc::onRespondTimeout` for each id: only bookkeeping -/
def Srv.tick (s : Srv) : Srv :=
  match s.ring with
  | [] => s
  | cur :: rest =>
    match rest ++ [cur] with
    | [] => s
    | items :: others =>
      let vn' := s.vn - items.length
      { s with ring := [] :: others, vn := vn', timerOn := if vn' = 0 then false else s.timerOn,
               tobe := items.foldl (fun t id => t.filter (· ≠ id)) s.tobe }

def Srv.expire : Nat → Srv → Srv
  | 0, s => s
  | fuel + 1, s =>
    if s.timerOn ∧ s.due ≤ s.now then Srv.expire fuel ({ s with due := s.due + 1000 }).tick else s

def Srv.advance (s : Srv) (ms : Nat) : Srv := Srv.expire (ms / 1000 + 2) { s with now := s.now + ms }

/-! ## two peers over a scripted pipe (lossy, reordering, duplicating) -/

structure World where
  c   : Rpc                          -- the client peer (client half)
  v   : Srv                          -- the server peer (server half)
  c2s : List (Int × Service) := []   -- requests in flight: id, the method's kind
  s2c : List (Int × Int) := []       -- responses in flight: id, code (0 = result)
deriving Repr

/-- the service chained requests (issued from inside a completion callback) name -/
def chainSvc : Service := .sync 0

def reqMsgs (svc : Service) (evs : List REv) : List (Int × Service) :=
  evs.filterMap fun | .sent id => some ((id : Int), svc) | _ => none

def rspMsgs (evs : List SEv) : List (Int × Int) :=
  evs.filterMap fun | .sent id code => some (id, code) | _ => none

inductive WOp where
  | request (chain : Bool) (svc : Service)
  | notify (svc : Service)
  | deliver (toServer : Bool) (i : Nat)
  | drop (toServer : Bool) (i : Nat)
  | dup (toServer : Bool) (i : Nat)
  | srespond (id code : Int)           -- the server application calls respond()
  | ctick                              -- the client's request_timeout_ timer fires
  | stick                              -- the server's respond_timeout_ timer fires
deriving Repr, DecidableEq

/-- the client receives a response message -/
def World.clientRecv (w : World) (m : Int × Int) : World × List REv :=
  let r := w.c.respond m.1 m.2
  ({ w with c := r.1, c2s := w.c2s ++ reqMsgs chainSvc r.2 }, r.2)

/-- the server receives a request message -/
def World.serverRecv (w : World) (m : Int × Service) : World × List SEv :=
  let r := w.v.recvRequest m.1 m.2
  ({ w with v := r.1, s2c := w.s2c ++ rspMsgs r.2 }, r.2)

def World.step (w : World) : WOp → World × List REv × List SEv
  | .request chain svc =>
    let r := w.c.request chain
    ({ w with c := r.1, c2s := w.c2s ++ reqMsgs svc r.2 }, r.2, [])
  | .notify svc => ({ w with c2s := w.c2s ++ [(0, svc)] }, [.sent 0], [])
  | .deliver true i =>
    match w.c2s[i]? with
    | none => (w, [], [])
    | some m => let r := ({ w with c2s := w.c2s.eraseIdx i }).serverRecv m; (r.1, [], r.2)
  | .deliver false i =>
    match w.s2c[i]? with
    | none => (w, [], [])
    | some m => let r := ({ w with s2c := w.s2c.eraseIdx i }).clientRecv m; (r.1, r.2, [])
  | .drop true i => ({ w with c2s := w.c2s.eraseIdx i }, [], [])
  | .drop false i => ({ w with s2c := w.s2c.eraseIdx i }, [], [])
  | .dup true i => ({ w with c2s := w.c2s ++ (w.c2s[i]?).toList }, [], [])
  | .dup false i => ({ w with s2c := w.s2c ++ (w.s2c[i]?).toList }, [], [])
  | .srespond id code =>
    let r := w.v.respond id code
    ({ w with v := r.1, s2c := w.s2c ++ rspMsgs r.2 }, [], r.2)
  | .ctick =>
    let r := w.c.tick
    ({ w with c := r.1, c2s := w.c2s ++ reqMsgs chainSvc r.2 }, r.2, [])
  | .stick => ({ w with v := w.v.tick }, [], [])

def World.run (w : World) : List WOp → World × List REv × List SEv
  | [] => (w, [], [])
  | op :: ops =>
    let r1 := w.step op
    let r2 := World.run r1.1 ops
    (r2.1, r1.2.1 ++ r2.2.1, r1.2.2 ++ r2.2.2)

/-- both clocks advance by `ms` and the loop runs (the driver's timed op) -/
def World.advance (w : World) (ms : Nat) : World × List REv :=
  let r := w.c.advance ms
  ({ w with c := r.1, v := w.v.advance ms, c2s := w.c2s ++ reqMsgs chainSvc r.2 }, r.2)

end Tbox.C14
