/-
C14 — model of the JSON-RPC framings and of the pending-request bookkeeping.

Transcribed from
  modules/jsonrpc/protos/header_stream_proto.cpp   (`encodeHeader`, `decodeHeader`)
  modules/util/serializer.cpp                      (`be16enc/dec`, `be32enc/dec`, `fetchNoCopy`)
  modules/util/json.cpp  `FindEndPos`              (`findEndPos`)
  modules/jsonrpc/protos/raw_stream_proto.cpp      (`decodeRaw`)
  modules/jsonrpc/protos/packet_proto.cpp          (`decodePacket`)
  modules/jsonrpc/rpc.cpp + eventx/timeout_monitor_impl.hpp   (`Rpc`, `step`, `tick`, `advance`)

`nlohmann::json` is abstract: `parse : List Byte → Option μ` (a failing parse is a value, the
code wraps it in `CatchThrow`).  Sizes are `Nat` (`size_t` is 64 bit), the length field of the
header framing is a `UInt32` and the size check is modelled with exactly the C++ arithmetic.
-/
namespace Tbox.C14

abbrev Byte := UInt8

/-! ## util::Serializer / util::Deserializer, big endian -/

/-- `Serializer::append(uint16_t)`: `p[1] = in & 0xff; in >>= 8; p[0] = in & 0xff` -/
def be16enc (v : UInt16) : List Byte := [(v >>> 8).toUInt8, v.toUInt8]

/-- `Serializer::append(uint32_t)` -/
def be32enc (v : UInt32) : List Byte :=
  [(v >>> 24).toUInt8, (v >>> 16).toUInt8, (v >>> 8).toUInt8, v.toUInt8]

/-- `Deserializer::fetch(uint16_t&)`: `out = p[0]; out <<= 8; out |= p[1]` -/
def be16dec (b0 b1 : Byte) : UInt16 := (b0.toUInt16 <<< 8) ||| b1.toUInt16

/-- `Deserializer::fetch(uint32_t&)` -/
def be32dec (b0 b1 b2 b3 : Byte) : UInt32 :=
  ((((b0.toUInt32 <<< 8) ||| b1.toUInt32) <<< 8 ||| b2.toUInt32) <<< 8) ||| b3.toUInt32

/-- `Deserializer::fetchNoCopy(size)` at position `pos` of a `size`-byte input:
`none` = `nullptr` (the `checkSize` failed) -/
def fetchNoCopy (dataSize pos n : Nat) : Option Nat :=
  if pos + n ≤ dataSize then some pos else none

/-! ## result of one `onRecvData` call, before JSON parsing -/

/-- what one `onRecvData` call decides about the bytes it was given -/
inductive Frame where
  | needMore                                   -- return 0
  | err (code : Int)                           -- return code (< 0) decided by the framing itself
  | frame (text : List Byte) (consumed : Nat)  -- a complete JSON text; parse decides −1 / `consumed`
  | throws                                     -- an exception leaves `onRecvData` (std::string(nullptr, n), n > 0)
deriving Repr, DecidableEq

def kHeadSize : Nat := 6

/-- `HeaderStreamProto::sendJson`: magic, `static_cast<uint32_t>(json_text.size())`, text -/
def encodeHeader (magic : UInt16) (text : List Byte) : List Byte :=
  be16enc magic ++ be32enc (UInt32.ofNat text.length) ++ text

/-- the size test of `HeaderStreamProto::onRecvData`; `fixed = false` is the arithmetic of the
unrepaired tree: `content_size + kHeadSize > data_size` evaluated in 32 bit (`uint32_t + uint16_t`)
and then widened; `fixed = true` is `content_size > data_size - kHeadSize` in `size_t`
(patches/C14-01-header-length-wrap.diff; `data_size ≥ kHeadSize` holds at that point). -/
def headerNotEnough (fixed : Bool) (contentSize : UInt32) (dataSize : Nat) : Bool :=
  if fixed then decide (contentSize.toNat > dataSize - kHeadSize)
  else decide ((contentSize + 6).toNat > dataSize)

/-- `HeaderStreamProto::onRecvData` up to (not including) `Json::parse` -/
def decodeHeaderG (fixed : Bool) (magic : UInt16) (data : List Byte) : Frame :=
  if data.length < kHeadSize then .needMore
  else
    match data with
    | b0 :: b1 :: b2 :: b3 :: b4 :: b5 :: _ =>
      let headerMagic := be16dec b0 b1
      let contentSize := be32dec b2 b3 b4 b5
      if headerMagic ≠ magic then .err (-2)
      else if headerNotEnough fixed contentSize data.length then .needMore
      else
        match fetchNoCopy data.length kHeadSize contentSize.toNat with
        | none =>
            -- str_ptr = nullptr: std::string(nullptr, n) throws std::logic_error unless n = 0
            if contentSize.toNat = 0 then .frame [] kHeadSize else .throws
        | some p => .frame ((data.drop p).take contentSize.toNat) (p + contentSize.toNat)
    | _ => .needMore   -- unreachable: length ≥ 6

/-- the repaired code (the tree this package describes) -/
def decodeHeader (magic : UInt16) (data : List Byte) : Frame := decodeHeaderG true magic data
/-- the code as found (kept for the counterexample) -/
def decodeHeaderOrig (magic : UInt16) (data : List Byte) : Frame := decodeHeaderG false magic data

/-! ## util::json::FindEndPos -/

structure Scan where
  started : Bool := false   -- is_started
  braces  : Int := 0        -- braces_level
  square  : Int := 0        -- square_level
  inStr   : Bool := false   -- in_string
deriving Repr, DecidableEq

/-- `::isgraph(ch)` in the "C" locale (`char` is signed: bytes ≥ 0x80 are not graphic) -/
def isGraph (c : Byte) : Bool := 0x21 ≤ c && c ≤ 0x7e

def cQuote : Byte := 34   -- '"'
def cBack  : Byte := 92   -- '\\'
def cLsq   : Byte := 91   -- '['
def cRsq   : Byte := 93   -- ']'
def cLbr   : Byte := 123  -- '{'
def cRbr   : Byte := 125  -- '}'

/-- `for (size_t j = i - 1; j != 0 && str_ptr[j] == '\\'; --j) in_string = !in_string;`
`seen` is `str[0..i)` reversed (so its head is `str[i-1]` and its last element `str[0]`, which the
loop never inspects because of `j != 0`).  With `seen = []` (i = 0) the C++ would start at
`j = SIZE_MAX`; `C14_raw_total` shows that case is never reached. -/
def backToggle : List Byte → Bool → Bool
  | [], acc => acc
  | [_], acc => acc
  | c :: rest, acc => if c = cBack then backToggle rest (!acc) else acc

/-- outcome of scanning some bytes: still scanning, or `return` taken at a position -/
inductive ScanRes where
  | cont (st : Scan) (seen : List Byte)
  | done (pos : Nat)     -- `return i + 1`
  | neg (pos : Nat)      -- `return -1` (taken at index pos-1)
deriving Repr, DecidableEq

/-- the two tests at the end of the loop body -/
def scanCheck (st : Scan) (seen : List Byte) : ScanRes :=
  if st.braces = 0 ∧ st.square = 0 ∧ st.inStr = false ∧ st.started = true then .done seen.length
  else if st.braces < 0 ∨ st.square < 0 then .neg seen.length
  else .cont st seen

/-- the `switch (ch)` outside strings -/
def scanBracket (st : Scan) (ch : Byte) : Scan :=
  if ch = cLsq then { st with square := st.square + 1 }
  else if ch = cRsq then { st with square := st.square - 1 }
  else if ch = cLbr then { st with braces := st.braces + 1 }
  else if ch = cRbr then { st with braces := st.braces - 1 }
  else st

/-- one iteration of the `for` loop on character `ch = str[i]`, `seen = reverse str[0..i)` -/
def scanStep (st : Scan) (seen : List Byte) (ch : Byte) : ScanRes :=
  let st0 : Scan := { st with started := st.started || isGraph ch }
  if ch = cQuote then
    scanCheck { st0 with inStr := if st.inStr then backToggle seen false else true } (ch :: seen)
  else if st.inStr then
    .cont st0 (ch :: seen)      -- `continue`
  else
    scanCheck (scanBracket st0 ch) (ch :: seen)

/-- the loop over the remaining input -/
def scanRun (st : Scan) (seen : List Byte) : List Byte → ScanRes
  | [] => .cont st seen
  | ch :: rest =>
    match scanStep st seen ch with
    | .cont st' seen' => scanRun st' seen' rest
    | r => r

/-- `int FindEndPos(const char*, size_t)`: end position (> 0), 0 = not complete, −1 = unbalanced -/
def findEndPos (s : List Byte) : Int :=
  match scanRun {} [] s with
  | .cont _ _ => 0
  | .done p => p
  | .neg _ => -1

/-- `RawStreamProto::onRecvData` up to `Json::parse`.  `fixed = false` is the tree before
patches/C14-03-raw-unbalanced-is-an-error.diff: a −1 of `FindEndPos` (a closing bracket without
its opening one — no continuation can repair it) fell through to `return 0` ("need more bytes"),
so the malformed input was never reported and the stream stalled for ever; `fixed = true`
returns −2 (the code the header framing uses for a framing error). -/
def decodeRawG (fixed : Bool) (data : List Byte) : Frame :=
  if data.length < 2 then .needMore
  else
    let e := findEndPos data
    if e > 0 then .frame (data.take e.toNat) e.toNat
    else if fixed ∧ e < 0 then .err (-2)
    else .needMore

/-- the repaired code (the tree this package describes) -/
def decodeRaw (data : List Byte) : Frame := decodeRawG true data
/-- the code as found (kept for the counterexample) -/
def decodeRawOrig (data : List Byte) : Frame := decodeRawG false data

/-- `PacketProto::onRecvData` up to `Json::parse`: the datagram is the text -/
def decodePacket (data : List Byte) : Frame :=
  if data.length < 2 then .needMore else .frame data data.length

/-! ## one `onRecvData` call including the (abstract) JSON parse, and the stream loop
that every user of a stream framing runs (examples/jsonrpc/*: consume `ret` bytes while
`ret > 0`, stop on 0, give the connection up on `ret < 0`) -/

inductive Ev (μ : Type) where
  | msg (m : μ) (consumed : Nat)    -- onRecvJson(m); return consumed
  | err (code : Int)                -- negative return value
  | threw                           -- exception out of onRecvData
  | stuck                           -- a positive return value of 0 / beyond the input (never happens)
deriving Repr, DecidableEq

/-- result of `onRecvData` as the caller sees it -/
def recvData {μ} (dec : List Byte → Frame) (parse : List Byte → Option μ) (data : List Byte) :
    Option (Ev μ) :=     -- none = return 0
  match dec data with
  | .needMore => none
  | .err c => some (.err c)
  | .throws => some .threw
  | .frame t n =>
    match parse t with
    | none => some (.err (-1))
    | some m => some (.msg m n)

/-- the receive loop on a buffer: events in order and the unconsumed rest (`none` = the
connection was given up after an error) -/
def drain {μ} (dec : List Byte → Frame) (parse : List Byte → Option μ) (buf : List Byte) :
    List (Ev μ) × Option (List Byte) :=
  match recvData dec parse buf with
  | none => ([], some buf)
  | some (.msg m n) =>
    if _h : 0 < n ∧ n ≤ buf.length then
      let r := drain dec parse (buf.drop n)
      (.msg m n :: r.1, r.2)
    else ([.stuck], none)
  | some e => ([e], none)
termination_by buf.length
decreasing_by simp [List.length_drop]; omega

/-- a connection: bytes not yet consumed, or dead -/
abbrev Conn := Option (List Byte)

/-- a segment arrives -/
def feed {μ} (dec : List Byte → Frame) (parse : List Byte → Option μ) (c : Conn) (seg : List Byte) :
    List (Ev μ) × Conn :=
  match c with
  | none => ([], none)
  | some buf => drain dec parse (buf ++ seg)

def feedAll {μ} (dec : List Byte → Frame) (parse : List Byte → Option μ) (c : Conn) :
    List (List Byte) → List (Ev μ) × Conn
  | [] => ([], c)
  | seg :: segs =>
    let r1 := feed dec parse c seg
    let r2 := feedAll dec parse r1.2 segs
    (r1.1 ++ r2.1, r2.2)

/-- `static_cast<int>` of a 64-bit integer (two's complement wrap, as g++ does) -/
def wrap32 (v : Int) : Int := (v + 2147483648) % 4294967296 - 2147483648

/-- the `id` member of a response written as the integer literal `v`, as `Proto::onRecvJson`
obtains it through `util::json::GetField(js, "id", int&)`.  `none` = the getter fails (the response
is dropped, or handed on with id 0 which is never pending).  `fixed = false` is the tree before
patches/C14-04-json-get-int-range.diff: every literal that nlohmann stores as a 64-bit integer was
accepted and truncated by `get<int>()` (literals beyond 64 bit become floating point and fail);
`fixed = true` accepts exactly the values of `int`. -/
def respIdG (fixed : Bool) (v : Int) : Option Int :=
  if fixed then
    (if -2147483648 ≤ v ∧ v ≤ 2147483647 then some v else none)
  else
    (if -9223372036854775808 ≤ v ∧ v < 18446744073709551616 then some (wrap32 v) else none)

/-! ## proto.cpp: the three message encoders and the dispatch of a received JSON value

The JSON value is abstract data (`J`); `Json::dump`/`Json::parse` stay abstract functions in the
theorems (hypothesis `parse (dump j) = some j`). An object is a finite map: an association list
looked up by the first match (the encoders below build objects with distinct keys). -/

inductive J where
  | null
  | bool (b : Bool)
  | int (v : Int)              -- number_integer / number_unsigned (any size)
  | float
  | str (s : String)
  | arr (items : List J)       -- an array (a batch: items are dispatched one by one, nested arrays flattened)
  | obj (fields : List (String × J))
deriving Repr

def J.isNull : J → Bool
  | .null => true
  | _ => false

/-- `js.contains(key)` / `js.at(key)`; `false`/`none` for anything that is not an object -/
def J.lookup (j : J) (key : String) : Option J :=
  match j with
  | .obj fields => (fields.find? (fun f => f.1 == key)).map (·.2)
  | _ => none

/-- `util::json::GetField(js, key, std::string&)` -/
def J.getStr (j : J) (key : String) : Option String :=
  match j.lookup key with
  | some (.str s) => some s
  | _ => none

/-- `util::json::GetField(js, key, int&)` with the range check of patches/C14-04 -/
def J.getInt (j : J) (key : String) : Option Int :=
  match j.lookup key with
  | some (.int v) => respIdG true v
  | _ => none

/-- what `Proto::onRecvJson` hands to the registered callbacks for an object -/
inductive RMsg where
  | request (id : Int) (method : String) (params : J)
  | response (id : Int) (errcode : Int) (result : J)
deriving Repr

/-- `Proto::onRecvJson` for an object (both callbacks registered) -/
def recvJsonObj (j : J) : List RMsg :=
  match j.getStr "jsonrpc" with
  | none => []
  | some version =>
    if version ≠ "2.0" then []
    else if (j.lookup "method").isSome then
      match j.getStr "method" with
      | none => []
      | some method =>
        [.request ((j.getInt "id").getD 0) method ((j.lookup "params").getD .null)]
    else if (j.lookup "result").isSome then
      match j.getInt "id" with
      | none => []
      | some id => [.response id 0 ((j.lookup "result").getD .null)]
    else
      match j.lookup "error" with
      | none => []
      | some jerr =>
        match jerr.getInt "code" with
        | none => []
        | some code => [.response ((j.getInt "id").getD 0) code .null]

/-- `Proto::sendRequest(id, method, params)` (`id` and `errcode` are C++ `int`s) -/
def mkRequest (id : Int) (method : String) (params : J) : J :=
  .obj ([("jsonrpc", .str "2.0"), ("method", .str method)] ++
        (if id ≠ 0 then [("id", .int id)] else []) ++
        (if params.isNull then [] else [("params", params)]))

/-- `Proto::sendResult(id, result)` -/
def mkResult (id : Int) (result : J) : J :=
  .obj [("jsonrpc", .str "2.0"), ("id", .int id), ("result", result)]

/-- `Proto::sendError(id, errcode, message)` -/
def mkError (id : Int) (errcode : Int) (message : String) : J :=
  .obj [("jsonrpc", .str "2.0"), ("id", .int id),
        ("error", .obj ([("code", .int errcode)] ++ (if message.isEmpty then [] else [("message", .str message)])))]

/-- a C++ `int` -/
def isInt32 (v : Int) : Prop := -2147483648 ≤ v ∧ v ≤ 2147483647
instance (v : Int) : Decidable (isInt32 v) := by unfold isInt32; exact inferInstance

/-! ### `Proto::onRecvJson` for any value: an object is dispatched; an array is walked depth first
(explicit stack in the code, patches/C14-02), each non-array item dispatched like a message of its
own; everything else is ignored. -/

mutual
def recvJson : J → List RMsg
  | .obj fields => recvJsonObj (.obj fields)
  | .arr items => recvItems items
  | _ => []
def recvItems : List J → List RMsg
  | [] => []
  | x :: xs => recvJson x ++ recvItems xs
end

/-! ### util::json::Get / GetField family (json.cpp), as found

`none` = the getter returns `false` and does not write its output argument. nlohmann stores a
non-negative integer literal below 2⁶⁴ as `number_unsigned`, a negative one down to −2⁶³ as
`number_integer`, anything beyond as `number_float` (`J.int v` outside that range is a float). -/

def inI64U64 (v : Int) : Bool := decide (-9223372036854775808 ≤ v ∧ v < 18446744073709551616)

inductive GVal where
  | b (v : Bool)
  | u (v : Nat)          -- unsigned int
  | i (v : Int)          -- int
  | d (exact : Option Int)  -- double: `some v` when it comes from an integer literal (value v), `none` = some float
  | s (v : String)
deriving Repr, DecidableEq

/-- `Get(js, bool&)` -/
def J.getB : J → Option GVal
  | .bool b => some (.b b)
  | _ => none
/-- `Get(js, unsigned int&)`: `is_number_unsigned()`, then `get<unsigned int>()` — **no range check**:
values ≥ 2³² are truncated (as found; not used by jsonrpc) -/
def J.getU : J → Option GVal
  | .int v => if 0 ≤ v ∧ v < 18446744073709551616 then some (.u (v.toNat % 4294967296)) else none
  | _ => none
/-- `Get(js, int&)` with the range check of patches/C14-04 -/
def J.getI : J → Option GVal
  | .int v => if inI64U64 v then (respIdG true v).map .i else none
  | _ => none
/-- `Get(js, double&)`: any number -/
def J.getD : J → Option GVal
  | .int v => some (.d (if inI64U64 v then some v else none))
  | .float => some (.d none)
  | _ => none
/-- `Get(js, std::string&)` -/
def J.getS : J → Option GVal
  | .str s => some (.s s)
  | _ => none

inductive GKind where | b | u | i | d | s
deriving Repr, DecidableEq

def J.get (k : GKind) (j : J) : Option GVal :=
  match k with
  | .b => j.getB | .u => j.getU | .i => j.getI | .d => j.getD | .s => j.getS

/-- `GetField(js, key, out)`: `(return value, out afterwards)`; `old` is what `out` held before -/
def getField (k : GKind) (j : J) (key : String) (old : GVal) : Bool × GVal :=
  match (j.lookup key).bind (J.get k) with
  | some v => (true, v)
  | none => (false, old)

/-- `Has<Kind>Field(js, key)`: o object, a array, b boolean, n number, f float, i integer, u unsigned, s string -/
def hasField (kind : Char) (j : J) (key : String) : Bool :=
  match j.lookup key with
  | none => false
  | some v =>
    match kind, v with
    | 'o', .obj _ => true
    | 'a', .arr _ => true
    | 'b', .bool _ => true
    | 'n', .int _ => true
    | 'n', .float => true
    | 'f', .float => true
    | 'f', .int x => !inI64U64 x
    | 'i', .int x => inI64U64 x
    | 'u', .int x => decide (0 ≤ x) && inI64U64 x
    | 's', .str _ => true
    | _, _ => false

/-! ### request ids at the C++ width

`int id_alloc_`.  As found: `id = ++id_alloc_` — `cppIncr` is that C++ expression: at `INT_MAX` the
increment is a signed overflow (undefined behaviour; `ub = true`), which g++ executes as the two's
complement wrap.  Repaired (patches/C14-08): `Rpc::allocRequestId` walks cyclically through
`[1, INT_MAX]` and skips ids that are still pending (`nextIdF` below, after `pendingFind`). -/

def kIntMax : Nat := 2147483647

def cppIncr (cur : Int) : Int × Bool := (wrap32 (cur + 1), decide (cur = 2147483647))

/-! ## Rpc

One `Rpc` object has two halves that share nothing but `proto_`: the client half (`id_alloc_`,
`request_callback_`, `request_timeout_`) and the server half (`method_services_`,
`tobe_respond_`, `respond_timeout_` — a second `TimeoutMonitor` with its own 1-s timer, `Srv`).
User callbacks (completion callbacks, service handlers) are *scripts*: lists of API calls made
from inside the callback on the same object (`Act`), kept in a static program table (`Prog`). -/

/-- what a service handler returns -/
inductive Ret where
  | sync (code : Int)      -- true: the library answers right away with this errcode (0 = a result)
  | async                  -- false: the application calls respond() later (or never)
deriving Repr, DecidableEq

/-- one API call made from inside a callback -/
inductive Act where
  | request (cb : Nat) (m : Nat)        -- rpc.request(method m, params, completion script #cb)
  | notify (m : Nat)                    -- rpc.notify(method m)
  | respond (id code : Int)             -- rpc.respond(id, …) for some inbound request id
  | respondCur (code : Int)             -- in a handler: rpc.respond(<the id being served>, …)
  | inject (rid code : Int)             -- a response frame with id literal `rid` is fed to the proto
                                        --   from inside the callback (synchronous transport, re-entrant)
  | setService (m : Nat) (h : Option Nat)   -- rpc.addService(method m, handler #h) / an empty callback
  | cleanup                             -- rpc.cleanup()
deriving Repr, DecidableEq

structure Handler where
  acts : List Act
  ret  : Ret
deriving Repr, DecidableEq

/-- the user's code: completion scripts and service handlers, referred to by index -/
structure Prog where
  cbs : List (List Act) := []
  hs  : List Handler := []
deriving Repr, DecidableEq

/-- a completion callback: `tag` identifies the `request()` call that installed it -/
structure Cb where
  tag : Nat
  script : Nat
deriving Repr, DecidableEq

inductive REv where
  | sent (id : Nat) (m : Nat)           -- proto_->sendRequest(id, method m, …)
  | fired (tag : Nat) (code : Int)      -- the completion callback `tag` ran with errcode `code`
  | called (id : Int) (h : Nat)         -- service handler #h ran for inbound request id
  | answered (id : Int) (code : Int)    -- proto_->sendResult(id, …) (code 0) / sendError(id, code)
  | overflow                            -- the model's nesting budget ran out (never in accepted runs)
  | misuse                              -- request/notify/respond/cleanup on a cleaned-up object (null proto_):
                                        --   a precondition violation; refused and flagged, never executed
deriving Repr, DecidableEq

def kRequestTimeout : Int := -32000
def kMethodNotFound : Int := -32601

/-- server half: inbound ids awaiting an answer + the respond-timeout monitor -/
structure Srv where
  tobe    : List Int := []            -- tobe_respond_ (a set)
  ring    : List (List Int) := []     -- respond_timeout_ ring, head = curr_item_
  vn      : Nat := 0
  timerOn : Bool := false
  now     : Nat := 0
  due     : Nat := 0
deriving Repr, DecidableEq

def Srv.init (n : Nat) : Srv := { ring := List.replicate n [] }

def Srv.insert (s : Srv) (id : Int) : Srv :=
  { s with tobe := if s.tobe.contains id then s.tobe else s.tobe ++ [id] }

def Srv.erase (s : Srv) (id : Int) : Srv := { s with tobe := s.tobe.filter (· ≠ id) }

/-- `TimeoutMonitor::add` -/
def Srv.monitorAdd (s : Srv) (id : Int) : Srv :=
  let ring' := match s.ring with
    | [] => []
    | cur :: rest => (cur ++ [id]) :: rest
  let s1 := { s with ring := ring' }
  let s2 := if s.vn = 0 then { s1 with timerOn := true, due := s.now + 1000 } else s1
  { s2 with vn := s.vn + 1 }

/-- `TimeoutMonitor::onTimerTick` + `Rpc::onRespondTimeout` for each id: only bookkeeping -/
def Srv.tick (s : Srv) : Srv :=
  match s.ring with
  | [] => s
  | cur :: rest =>
    match rest ++ [cur] with
    | [] => s
    | items :: others =>
      let vn' := s.vn - items.length
      { s with ring := [] :: others, vn := vn', timerOn := if vn' = 0 then false else s.timerOn,
               tobe := items.foldl (fun t id => t.filter (· ≠ id)) s.tobe }

def Srv.expire : Nat → Srv → Srv
  | 0, s => s
  | fuel + 1, s =>
    if s.timerOn ∧ s.due ≤ s.now then Srv.expire fuel ({ s with due := s.due + 1000 }).tick else s

def Srv.advance (s : Srv) (ms : Nat) : Srv := Srv.expire (ms / 1000 + 2) { s with now := s.now + ms }

def Srv.cleanup (s : Srv) : Srv := { s with tobe := [], ring := [], vn := 0, timerOn := false }

structure Rpc where
  n        : Nat                         -- check_times (timeout_sec)
  idAlloc  : Nat := 0                    -- id_alloc_
  nTag     : Nat := 0                    -- callbacks handed to request() so far (= request_seq_)
  pending  : List (Nat × Cb) := []       -- request_callback_ (id ↦ {seq = tag + 1, cb})
  ring     : List (List Nat) := []       -- request_timeout_ ring (the tokens' seq), head = curr_item_
  vn       : Nat := 0                    -- value_number_
  timerOn  : Bool := false               -- sp_timer_ enabled
  now      : Nat := 0                    -- steady clock (ms)
  due      : Nat := 0                    -- expiry of the persistent 1 s timer while enabled
  prog     : Prog := {}                  -- the user's callbacks (static)
  services : List (Option Nat) := []     -- method_services_: method index ↦ handler index
  srv      : Srv := {}                   -- server half
  dead     : Bool := false               -- cleanup() has been called
deriving Repr, DecidableEq

/-- `Rpc::initialize(proto, timeout_sec)` with `timeout_sec ≥ 1` -/
def Rpc.init (n : Nat) : Rpc := { n := n, ring := List.replicate n [], srv := Srv.init n }

/-- `Rpc::initialize(proto, timeout_sec)`: `none` = it returns `false` and the object stays uninitialised.
`fixed = false` is the tree before patches/C14-10: both `TimeoutMonitor::initialize` calls refuse
`check_times < 1` (no ring is built, `curr_item_` stays null) but their result was ignored and `true`
returned — the first `request()` then dereferences the null ring (`ring = []` in the model). -/
def Rpc.initializeG (fixed : Bool) (timeoutSec : Int) : Option Rpc :=
  if timeoutSec < 1 then (if fixed then none else some (Rpc.init 0)) else some (Rpc.init timeoutSec.toNat)

def Rpc.initialize (timeoutSec : Int) : Option Rpc := Rpc.initializeG true timeoutSec

def pendingFind (p : List (Nat × Cb)) (id : Int) : Option (Nat × Cb) :=
  p.find? (fun e => (e.1 : Int) = id)

def pendingErase (p : List (Nat × Cb)) (id : Nat) : List (Nat × Cb) :=
  p.filter (fun e => e.1 ≠ id)

/-- `Rpc::allocRequestId` (patches/C14-08):
`do { id_alloc_ = id_alloc_ < INT_MAX ? id_alloc_ + 1 : 1; } while (request_callback_ has id_alloc_);`
`fuel` bounds the iterations of the model; `none` = the loop did not end within `fuel` candidates
(with `fuel = pending.length + 1` that never happens while fewer than `INT_MAX` requests are pending:
`C14_alloc_total`; the C++ loop would spin for ever on a table holding all 2³¹−1 ids). -/
def nextIdF : Nat → Nat → List (Nat × Cb) → Option Nat
  | 0, _, _ => none
  | fuel + 1, cur, p =>
    let c := if cur < kIntMax then cur + 1 else 1
    if (pendingFind p (c : Int)).isSome then nextIdF fuel c p else some c

def Rpc.nextId (s : Rpc) : Option Nat := nextIdF (s.pending.length + 1) s.idAlloc s.pending

/-- `TimeoutMonitor::add`: push to the current slot; enable the timer on 0 → 1.
The payload of the request monitor is `RequestToken{id, seq}` (patches/C14-09); the model's ring keeps
the `seq` component — `seq = ++request_seq_`, the model's `nTag + 1`, one per `request()` with a
callback, never reused — which identifies the pending entry it was added with (entries are never
modified: the entry carrying `seq`, if it still exists, has the `id` of the token). -/
def Rpc.monitorAdd (s : Rpc) (id : Nat) : Rpc :=
  let ring' := match s.ring with
    | [] => []
    | cur :: rest => (cur ++ [id]) :: rest
  let s1 := { s with ring := ring' }
  let s2 := if s.vn = 0 then { s1 with timerOn := true, due := s.now + 1000 } else s1
  { s2 with vn := s.vn + 1 }

/-- `Rpc::request(method m, params, cb)` with a completion callback running script #`script`
(meaningful when `nextId` is `some`: `guardReq`).  `request_callback_[id] = {seq, cb}` and
`request_timeout_.add({id, seq})` with `seq = ++request_seq_` (`nTag + 1`). -/
def Rpc.request (s : Rpc) (script : Nat) (m : Nat := 0) : Rpc × List REv :=
  let id := s.nextId.getD 0
  let cb : Cb := { tag := s.nTag, script := script }
  let s1 := { s with idAlloc := id, nTag := s.nTag + 1,
                     pending := pendingErase s.pending id ++ [(id, cb)] }
  (s1.monitorAdd (s.nTag + 1), [.sent id m])

/-- `Rpc::respond(id, …)` (all three overloads): sends whenever `id ≠ 0` — `tobe_respond_` is not
consulted — and erases the id -/
def Rpc.apiRespond (s : Rpc) (id code : Int) : Rpc × List REv :=
  if id = 0 then (s, []) else if s.dead then (s, [.misuse])
  else ({ s with srv := s.srv.erase id }, [.answered id code])

/-- calls that dereference `proto_`: on a cleaned-up object they are refused (and flagged) -/
def Rpc.guard (s : Rpc) (r : Rpc × List REv) : Rpc × List REv := if s.dead then (s, [.misuse]) else r

/-- `request()` with a completion callback additionally allocates an id: when the allocation loop
would not end (every id of `[1, INT_MAX]` pending — `nextId = none`, unreachable below 2³¹−1 pending
requests) the call is, like the null `proto_`, refused and flagged (`misuse`), never executed.  The
counter of every reachable state is a C++ `int` in `[0, INT_MAX]` (`C14_id_width`). -/
def Rpc.guardReq (s : Rpc) (r : Rpc × List REv) : Rpc × List REv :=
  if s.dead ∨ s.nextId = none then (s, [.misuse]) else r

/-- test-only: `id_alloc_ = v` (see `JOp` in Spec.lean) -/
def Rpc.jump (s : Rpc) (v : Nat) : Rpc := if v ≤ kIntMax then { s with idAlloc := v } else s

/-- `Rpc::cleanup()` -/
def Rpc.cleanup (s : Rpc) : Rpc :=
  { s with pending := [], ring := [], vn := 0, timerOn := false, services := [],
           srv := s.srv.cleanup, dead := true }

/-- `Rpc::addService(method m, handler #h)` (`none` = an empty callback: the method becomes unknown) -/
def Rpc.setService (s : Rpc) (m : Nat) (h : Option Nat) : Rpc :=
  { s with services := (s.services ++ List.replicate (m + 1 - s.services.length) none).set m h }

/-- one act of a callback script; `k` handles a response arriving re-entrantly, `cur` is the id
being served when the script is a service handler -/
def doAct (k : Rpc → Int → Int → Rpc × List REv) (cur : Int) (s : Rpc) : Act → Rpc × List REv
  | .request cb m => s.guardReq (s.request cb m)
  | .notify m => s.guard (s, [.sent 0 m])
  | .respond id code => s.apiRespond id code
  | .respondCur code => s.apiRespond cur code
  | .inject rid code =>
    match respIdG true rid with
    | none => (s, [])
    | some id => k s id code
  | .setService m h => (s.setService m h, [])
  | .cleanup => s.guard (s.cleanup, [])

def runActsWith (k : Rpc → Int → Int → Rpc × List REv) (cur : Int) (s : Rpc) : List Act → Rpc × List REv
  | [] => (s, [])
  | a :: as =>
    let r1 := doAct k cur s a
    let r2 := runActsWith k cur r1.1 as
    (r2.1, r1.2 ++ r2.2)

/-- `Rpc::onRecvRespond` / `Rpc::onRequestTimeout` as repaired by patches/C14-05: find, take the
callback out and erase, then call it.  `fuel` bounds the nesting of responses injected from inside
callbacks (the C++ call stack). -/
def Rpc.completeF : Nat → Rpc → Int → Int → Rpc × List REv
  | 0, s, _, _ => (s, [.overflow])
  | fuel + 1, s, id, code =>
    match pendingFind s.pending id with
    | none => (s, [])
    | some (k, cb) =>
      let s1 := { s with pending := pendingErase s.pending k }
      let r := runActsWith (Rpc.completeF fuel) 0 s1 (s.prog.cbs.getD cb.script [])
      (r.1, .fired cb.tag code :: r.2)

/-- the code before patches/C14-05: call first, erase afterwards (kept for the counterexample) -/
def Rpc.completeOrigF : Nat → Rpc → Int → Int → Rpc × List REv
  | 0, s, _, _ => (s, [.overflow])
  | fuel + 1, s, id, code =>
    match pendingFind s.pending id with
    | none => (s, [])
    | some (k, cb) =>
      let r := runActsWith (Rpc.completeOrigF fuel) 0 s (s.prog.cbs.getD cb.script [])
      ({ r.1 with pending := pendingErase r.1.pending k }, .fired cb.tag code :: r.2)

/-- nesting budget of the executable model -/
def maxDepth : Nat := 32

def Rpc.complete (s : Rpc) (id : Int) (code : Int) : Rpc × List REv := Rpc.completeF maxDepth s id code

def Rpc.runActs (cur : Int) (s : Rpc) (as : List Act) : Rpc × List REv :=
  runActsWith (Rpc.completeF maxDepth) cur s as

/-- `Rpc::onRequestTimeout(token)` (patches/C14-09): the pending entry the token was added with — found
by its `seq` — is completed with the timeout code; a token whose entry is gone (answered, or its id
re-used by a newer request, which has a different `seq`) does nothing.
(C++: `find(token.id)`, then `iter->second.seq == token.seq`.) -/
def Rpc.expireOne (s : Rpc) (seq : Nat) (code : Int) : Rpc × List REv :=
  match s.pending.find? (fun e => e.2.tag + 1 = seq) with
  | none => (s, [])
  | some e => s.complete (e.1 : Int) code

def Rpc.completeAll (s : Rpc) (code : Int) : List Nat → Rpc × List REv
  | [] => (s, [])
  | seq :: seqs =>
    let r1 := s.expireOne seq code
    let r2 := Rpc.completeAll r1.1 code seqs
    (r2.1, r1.2 ++ r2.2)

/-- `TimeoutMonitor::onTimerTick` (patches/C14-06: a copy of the callback is called, so a
`cleanup()` made by one timeout callback does not stop the sweep: the remaining ids find nothing) -/
def Rpc.tick (s : Rpc) : Rpc × List REv :=
  match s.ring with
  | [] => (s, [])
  | cur :: rest =>
    -- curr_item_ = curr_item_->next; swap(tobe_handle, curr_item_->items)
    match rest ++ [cur] with
    | [] => (s, [])
    | items :: others =>
      let vn' := s.vn - items.length
      let s1 := { s with ring := [] :: others, vn := vn', timerOn := if vn' = 0 then false else s.timerOn }
      s1.completeAll kRequestTimeout items

/-- a response with id literal `rid` arrives -/
def Rpc.respondG (fixed : Bool) (s : Rpc) (rid : Int) (code : Int) : Rpc × List REv :=
  match respIdG fixed rid with
  | none => (s, [])
  | some id => s.complete id code

def Rpc.respond (s : Rpc) (rid : Int) (code : Int) : Rpc × List REv := s.respondG true rid code

/-- `Rpc::onRecvRequest(id, method m, params)` (patches/C14-07: a copy of the handler is called; if
the handler cleaned the object up nothing more is done) -/
def Rpc.onRequest (s : Rpc) (id : Int) (m : Nat) : Rpc × List REv :=
  match (s.services.getD m none).bind (fun h => (s.prog.hs[h]?).map (fun hd => (h, hd))) with
  | none => (s, [.answered id kMethodNotFound])
  | some (h, hd) =>
    if id ≠ 0 then
      let s1 := { s with srv := s.srv.insert id }
      let r := s1.runActs id hd.acts
      if r.1.dead then (r.1, .called id h :: r.2)
      else
        match hd.ret with
        | .sync code => let r2 := r.1.apiRespond id code; (r2.1, .called id h :: (r.2 ++ r2.2))
        | .async => ({ r.1 with srv := r.1.srv.monitorAdd id }, .called id h :: r.2)
    else
      let r := s.runActs 0 hd.acts
      (r.1, .called 0 h :: r.2)

inductive Op where
  | request (script : Nat) (m : Nat)
  | notify (m : Nat)
  | response (id : Int) (code : Int)     -- a response arrives; id: the integer literal in the message, any size
  | tick                                 -- the request_timeout_ timer fires
  | apiRespond (id code : Int)           -- the application calls respond()
  | inRequest (id : Int) (m : Nat)       -- a request arrives (id as the int getter delivers it)
  | stick                                -- the respond_timeout_ timer fires
  | setService (m : Nat) (h : Option Nat)
  | cleanup
deriving Repr, DecidableEq

def step (s : Rpc) : Op → Rpc × List REv
  | .request script m => s.guardReq (s.request script m)
  | .notify m => s.guard (s, [.sent 0 m])
  | .response id code => s.respond id code
  | .tick => s.tick
  | .apiRespond id code => s.apiRespond id code
  | .inRequest id m => if s.dead then (s, []) else s.onRequest id m   -- cleanup() cleared the proto's callbacks
  | .stick => ({ s with srv := s.srv.tick }, [])
  | .setService m h => (s.setService m h, [])
  | .cleanup => s.guard (s.cleanup, [])

def run (s : Rpc) : List Op → Rpc × List REv
  | [] => (s, [])
  | op :: ops =>
    let r1 := step s op
    let r2 := run r1.1 ops
    (r2.1, r1.2 ++ r2.2)

/-- the loop's `handleExpiredTimers` for the monitor's persistent timer after the clock moved:
`while (enabled && expired <= now) { expired += interval; onTimerTick(); }` -/
def Rpc.expire : Nat → Rpc → Rpc × List REv
  | 0, s => (s, [])
  | fuel + 1, s =>
    if s.timerOn ∧ s.due ≤ s.now then
      let r1 := ({ s with due := s.due + 1000 }).tick
      let r2 := Rpc.expire fuel r1.1
      (r2.1, r1.2 ++ r2.2)
    else (s, [])

/-- the clock advances by `ms` and the loop runs (client half; `advanceAll` does both halves) -/
def Rpc.advance (s : Rpc) (ms : Nat) : Rpc × List REv :=
  Rpc.expire (ms / 1000 + 2) { s with now := s.now + ms }

def Rpc.advanceAll (s : Rpc) (ms : Nat) : Rpc × List REv :=
  let r := s.advance ms
  ({ r.1 with srv := r.1.srv.advance ms }, r.2)

/-! ## two peers over a scripted pipe (lossy, reordering, duplicating) -/

inductive Msg where
  | req (id : Int) (m : Nat)
  | rsp (id : Int) (code : Int)
deriving Repr, DecidableEq

/-- what a peer's events put on the wire -/
def outMsgs (evs : List REv) : List Msg :=
  evs.filterMap fun
    | .sent id m => some (.req (id : Int) m)
    | .answered id code => some (.rsp id code)
    | _ => none

structure World where
  a  : Rpc
  b  : Rpc
  ab : List Msg := []      -- frames in flight from a to b
  ba : List Msg := []
deriving Repr

/-- the op a received message amounts to -/
def Msg.op : Msg → Op
  | .req id m => .inRequest id m
  | .rsp id code => .response id code

inductive WOp where
  | api (onB : Bool) (op : Op)           -- an API call / timer tick at peer a (false) or b (true)
  | deliver (toB : Bool) (i : Nat)
  | drop (toB : Bool) (i : Nat)
  | dup (toB : Bool) (i : Nat)
deriving Repr, DecidableEq

def World.apply (w : World) (onB : Bool) (op : Op) : World × List REv :=
  if onB then
    let r := step w.b op
    ({ w with b := r.1, ba := w.ba ++ outMsgs r.2 }, r.2)
  else
    let r := step w.a op
    ({ w with a := r.1, ab := w.ab ++ outMsgs r.2 }, r.2)

/-- events: (peer a's, peer b's) -/
def World.step (w : World) : WOp → World × List REv × List REv
  | .api onB op => let r := w.apply onB op; (r.1, if onB then ([], r.2) else (r.2, []))
  | .deliver true i =>
    match w.ab[i]? with
    | none => (w, [], [])
    | some m => let r := ({ w with ab := w.ab.eraseIdx i }).apply true m.op; (r.1, [], r.2)
  | .deliver false i =>
    match w.ba[i]? with
    | none => (w, [], [])
    | some m => let r := ({ w with ba := w.ba.eraseIdx i }).apply false m.op; (r.1, r.2, [])
  | .drop true i => ({ w with ab := w.ab.eraseIdx i }, [], [])
  | .drop false i => ({ w with ba := w.ba.eraseIdx i }, [], [])
  | .dup true i => ({ w with ab := w.ab ++ (w.ab[i]?).toList }, [], [])
  | .dup false i => ({ w with ba := w.ba ++ (w.ba[i]?).toList }, [], [])

def World.run (w : World) : List WOp → World × List REv × List REv
  | [] => (w, [], [])
  | op :: ops =>
    let r1 := w.step op
    let r2 := World.run r1.1 ops
    (r2.1, r1.2.1 ++ r2.2.1, r1.2.2 ++ r2.2.2)

/-- both peers' clocks advance by `ms` and the loop runs (the driver's timed op) -/
def World.advance (w : World) (ms : Nat) : World × List REv × List REv :=
  let ra := w.a.advanceAll ms
  let rb := w.b.advanceAll ms
  ({ w with a := ra.1, b := rb.1, ab := w.ab ++ outMsgs ra.2, ba := w.ba ++ outMsgs rb.2 }, ra.2, rb.2)

end Tbox.C14
