/- C14 — helper lemmas: big-endian (de)serialisation, header framing. -/
import TboxModel.C14.Model
namespace Tbox.C14

theorem orStep32 (x : UInt32) (b : UInt8) (h : x.toNat < 2^24) :
    ((x <<< 8) ||| b.toUInt32).toNat = x.toNat * 256 + b.toNat := by
  have hb := b.toNat_lt
  simp only [UInt32.toNat_or, UInt32.toNat_shiftLeft, UInt8.toNat_toUInt32]
  have : (8 : UInt32).toNat % 32 = 8 := by decide
  rw [this]
  have h2 : x.toNat <<< 8 % 2^32 = x.toNat <<< 8 := by
    rw [Nat.shiftLeft_eq]; apply Nat.mod_eq_of_lt; omega
  rw [h2, ← Nat.shiftLeft_add_eq_or_of_lt (by omega : b.toNat < 2^8), Nat.shiftLeft_eq]

theorem be32dec_toNat (b0 b1 b2 b3 : UInt8) :
    (be32dec b0 b1 b2 b3).toNat = ((b0.toNat * 256 + b1.toNat) * 256 + b2.toNat) * 256 + b3.toNat := by
  unfold be32dec
  have h0 := b0.toNat_lt; have h1 := b1.toNat_lt; have h2 := b2.toNat_lt
  have e1 : ((b0.toUInt32 <<< 8) ||| b1.toUInt32).toNat = b0.toNat * 256 + b1.toNat := by
    rw [orStep32 _ _ (by simp; omega)]; simp
  have e2 : ((((b0.toUInt32 <<< 8) ||| b1.toUInt32) <<< 8) ||| b2.toUInt32).toNat
      = (b0.toNat * 256 + b1.toNat) * 256 + b2.toNat := by
    rw [orStep32 _ _ (by rw [e1]; omega), e1]
  rw [orStep32 _ _ (by rw [e2]; omega), e2]

/-- `Deserializer::fetch(uint32_t&)` inverts `Serializer::append(uint32_t)` -/
theorem be32_roundtrip (v : UInt32) :
    be32dec (v >>> 24).toUInt8 (v >>> 16).toUInt8 (v >>> 8).toUInt8 v.toUInt8 = v := by
  apply UInt32.toNat_inj.mp
  rw [be32dec_toNat]
  have := v.toNat_lt
  simp only [UInt32.toNat_toUInt8, UInt32.toNat_shiftRight]
  have a : (24 : UInt32).toNat % 32 = 24 := by decide
  have b : (16 : UInt32).toNat % 32 = 16 := by decide
  have c : (8 : UInt32).toNat % 32 = 8 := by decide
  rw [a, b, c]
  simp only [Nat.shiftRight_eq_div_pow]
  omega

/-- `Deserializer::fetch(uint16_t&)` inverts `Serializer::append(uint16_t)` -/
theorem be16_roundtrip (v : UInt16) : be16dec (v >>> 8).toUInt8 v.toUInt8 = v := by
  apply UInt16.toNat_inj.mp
  unfold be16dec
  have := v.toNat_lt
  simp only [UInt16.toNat_or, UInt16.toNat_shiftLeft, UInt8.toNat_toUInt16, UInt16.toNat_toUInt8,
    UInt16.toNat_shiftRight]
  have c : (8 : UInt16).toNat % 16 = 8 := by decide
  rw [c]
  have h2 : (v.toNat >>> 8 % 256) <<< 8 % 2^16 = (v.toNat >>> 8 % 256) <<< 8 := by
    rw [Nat.shiftLeft_eq]; apply Nat.mod_eq_of_lt; omega
  rw [h2, ← Nat.shiftLeft_add_eq_or_of_lt (by omega : v.toNat % 256 < 2^8), Nat.shiftLeft_eq,
    Nat.shiftRight_eq_div_pow]
  omega

/-- what `decodeHeader` (repaired size test) computes, as a specification -/
theorem decodeHeader_spec (magic : UInt16) (b0 b1 b2 b3 b4 b5 : Byte) (rest : List Byte) :
    decodeHeader magic (b0 :: b1 :: b2 :: b3 :: b4 :: b5 :: rest) =
      if be16dec b0 b1 ≠ magic then .err (-2)
      else if (be32dec b2 b3 b4 b5).toNat > rest.length then .needMore
      else .frame (rest.take (be32dec b2 b3 b4 b5).toNat) (6 + (be32dec b2 b3 b4 b5).toNat) := by
  unfold decodeHeader decodeHeaderG
  simp only [List.length_cons, kHeadSize, headerNotEnough, fetchNoCopy]
  have h6 : ¬ (rest.length + 1 + 1 + 1 + 1 + 1 + 1 < 6) := by omega
  simp only [h6, if_false, if_true]
  by_cases hm : be16dec b0 b1 ≠ magic
  · simp [hm]
  · simp only [hm, if_false]
    by_cases hn : (be32dec b2 b3 b4 b5).toNat > rest.length
    · have : (be32dec b2 b3 b4 b5).toNat > rest.length + 1 + 1 + 1 + 1 + 1 + 1 - 6 := by omega
      simp [this, hn]
    · have h1 : ¬ (be32dec b2 b3 b4 b5).toNat > rest.length + 1 + 1 + 1 + 1 + 1 + 1 - 6 := by omega
      have h2 : 6 + (be32dec b2 b3 b4 b5).toNat ≤ rest.length + 1 + 1 + 1 + 1 + 1 + 1 := by omega
      simp [h1, hn, h2]

theorem decodeHeader_short (magic : UInt16) (data : List Byte) (h : data.length < 6) :
    decodeHeader magic data = .needMore := by
  unfold decodeHeader decodeHeaderG; simp [kHeadSize, h]

/-- every list of ≥ 6 bytes is a 6-byte header plus a rest -/
theorem six_split (data : List Byte) (h : 6 ≤ data.length) :
    ∃ b0 b1 b2 b3 b4 b5 rest, data = b0 :: b1 :: b2 :: b3 :: b4 :: b5 :: rest := by
  match data, h with
  | b0 :: b1 :: b2 :: b3 :: b4 :: b5 :: rest, _ => exact ⟨b0, b1, b2, b3, b4, b5, rest, rfl⟩

end Tbox.C14
