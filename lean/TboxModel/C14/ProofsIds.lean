/- C14 — helper lemmas: request ids at the C++ width (`int id_alloc_`), the `jump` layer. -/
import TboxModel.C14.ProofsRing
namespace Tbox.C14

theorem goodIdInv : Good (fun a b => b.prog = a.prog ∧ (IdInv a → IdInv b)) (fun _ => True) (fun _ => True) where
  refl := fun s => ⟨rfl, fun h => h⟩
  trans := fun a b c h1 h2 => ⟨h2.1.trans h1.1, fun h => h2.2 (h1.2 h)⟩
  prog := fun _ _ h => h.1
  frame := fun s s' h => ⟨h.2.2.2.2.2.2.2.2.2.1, fun hi => by
    obtain ⟨_, fa, _, fp, _⟩ := h
    unfold IdInv at hi ⊢; rw [fa, fp]; exact hi⟩
  req := fun s c m _ hw => ⟨request_prog s c m, fun hi => by
    obtain ⟨i, hn⟩ := hw
    obtain ⟨_, f2, f3, _⟩ := request_fields s c m
    obtain ⟨_, n1, n2⟩ := nextId_spec s i hn
    unfold IdInv at hi ⊢
    rw [f2, f3, hn, Option.getD_some]
    refine ⟨n2, fun e he => ?_⟩
    rcases List.mem_append.mp he with h | h
    · exact hi.2 e (mem_pendingErase _ _ _ h).1
    · simp at h; subst h; exact ⟨n1, n2⟩⟩
  erase := fun s k _ => ⟨rfl, fun hi => ⟨hi.1, fun e he => hi.2 e (mem_pendingErase _ _ _ he).1⟩⟩
  nc := fun a _ => by cases a <;> simp [injectOk]
  clean := fun s _ _ => ⟨rfl, fun hi => ⟨hi.1, fun e he => by simp [Rpc.cleanup] at he⟩⟩

theorem IdInv_tick (s : Rpc) (h : IdInv s) : IdInv s.tick.1 := by
  by_cases hr : s.ring = []
  · unfold Rpc.tick; rw [hr]; exact h
  · rw [tick_eq s hr]
    have h0 : IdInv s.afterSwap := h
    exact (goodIdInv.completeAll kRequestTimeout s.nextItems s.afterSwap (progAll_true _) (fun _ => trivial)).2 h0

theorem IdInv_step (s : Rpc) (op : Op) (h : IdInv s) : IdInv (step s op).1 := by
  have g := goodIdInv
  have hp := progAll_true s.prog
  cases op with
  | request c m =>
    show IdInv (s.guardReq (s.request c m)).1
    rcases guardReq_cases' s (s.request c m) with ⟨hd, hw, e⟩ | e <;> rw [e]
    · exact (g.req s c m hd hw).2 h
    · exact h
  | notify m =>
    show IdInv (s.guard (s, [.sent 0 m])).1
    rcases guard_cases s (s, [.sent 0 m]) with e | e <;> rw [e] <;> exact h
  | response rid code => exact (g.respond s hp rid code (fun _ _ => trivial)).2 h
  | tick => exact IdInv_tick s h
  | apiRespond id code => exact (g.frame _ _ (apiRespond_frame s id code)).2 h
  | inRequest id m =>
    simp only [step]
    split
    · exact h
    · exact (g.onRequest s hp id m).2 h
  | stick => exact (g.frame s _ ⟨rfl, rfl, rfl, rfl, rfl, rfl, rfl, rfl, rfl, rfl, rfl⟩).2 h
  | setService m hh => exact (g.frame s _ ⟨rfl, rfl, rfl, rfl, rfl, rfl, rfl, rfl, rfl, rfl, rfl⟩).2 h
  | cleanup =>
    show IdInv (s.guard (s.cleanup, [])).1
    rcases guard_cases' s (s.cleanup, []) with ⟨hd, e⟩ | ⟨_, e⟩ <;> rw [e]
    · exact (g.clean s trivial hd).2 h
    · exact h

theorem IdInv_stepJ (s : Rpc) (op : JOp) (h : IdInv s) : IdInv (stepJ s op).1 := by
  cases op with
  | op o => exact IdInv_step s o h
  | jump v =>
    show IdInv (s.jump v)
    unfold Rpc.jump; split
    · exact ⟨by assumption, h.2⟩
    · exact h

theorem IdInv_runJ (ops : List JOp) : ∀ s : Rpc, IdInv s → IdInv (runJ s ops).1 := by
  induction ops with
  | nil => intro s h; exact h
  | cons op ops ih => intro s h; simp only [runJ]; exact ih _ (IdInv_stepJ s op h)

theorem Delta_stepJ (s : Rpc) (op : JOp) : Delta s (stepJ s op).1 (stepJ s op).2 := by
  cases op with
  | op o => exact Delta_step s o
  | jump v =>
    show Delta s (s.jump v) []
    unfold Rpc.jump; split
    · refine ⟨Nat.le_refl _, ?_⟩; intro t; simp [firedCount]
    · exact Delta_refl s

theorem Delta_runJ (ops : List JOp) : ∀ s : Rpc, Delta s (runJ s ops).1 (runJ s ops).2 := by
  induction ops with
  | nil => intro s; exact Delta_refl s
  | cons op ops ih =>
    intro s
    simp only [runJ]
    exact Delta_trans _ _ _ _ _ (Delta_stepJ s op) (ih _)

theorem pendingFind_zero (p : List (Nat × Cb)) (h : ∀ e ∈ p, 1 ≤ e.1) : pendingFind p 0 = none := by
  unfold pendingFind
  rw [List.find?_eq_none]
  intro e he
  have := h e he
  simp; omega

/-! ### the allocation loop ends: pigeonhole over the cyclic scan -/

/-- cyclic successor in `[1, INT_MAX]` -/
def succId (c : Nat) : Nat := if c < kIntMax then c + 1 else 1

/-- steps from `c` to `c0` along the cycle -/
def cdist (c c0 : Nat) : Nat := if c ≤ c0 then c0 - c else c0 + kIntMax - c

theorem nextIdF_succ (fuel cur : Nat) (p : List (Nat × Cb)) :
    nextIdF (fuel + 1) cur p =
      if (pendingFind p (succId cur : Int)).isSome then nextIdF fuel (succId cur) p else some (succId cur) := rfl

theorem kIntMax_val : kIntMax = 2147483647 := rfl

/-- entries with key `c` do not matter while the scan cannot come back to `c` -/
theorem nextIdF_erase (c : Nat) (hc : 1 ≤ c ∧ c ≤ kIntMax) : ∀ (fuel c0 : Nat) (p : List (Nat × Cb)),
    1 ≤ c0 → c0 ≤ kIntMax → cdist c c0 + fuel < kIntMax →
    nextIdF fuel c0 (pendingErase p c) = nextIdF fuel c0 p := by
  intro fuel
  induction fuel with
  | zero => intro c0 p _ _ _; rfl
  | succ fuel ih =>
    intro c0 p h1 h2 hd
    have hM := kIntMax_val
    have hne : c ≠ succId c0 := by
      unfold succId cdist at *; split <;> split at hd <;> omega
    have hd' : cdist c (succId c0) + fuel < kIntMax := by
      unfold succId cdist at *; split <;> split <;> split at hd <;> omega
    have hr : 1 ≤ succId c0 ∧ succId c0 ≤ kIntMax := by unfold succId; split <;> omega
    rw [nextIdF_succ, nextIdF_succ, find_erase_ne _ _ _ hne, ih _ p hr.1 hr.2 hd']

theorem erase_length_lt (p : List (Nat × Cb)) (c : Nat) (h : (pendingFind p (c : Int)).isSome = true) :
    (pendingErase p c).length < p.length := by
  induction p with
  | nil => simp [pendingFind] at h
  | cons e es ih =>
    rw [pendingErase_cons]
    by_cases hk : e.1 = c
    · simp only [hk, if_true, List.length_cons]
      have : (pendingErase es c).length ≤ es.length := by unfold pendingErase; exact List.length_filter_le _ _
      omega
    · simp only [hk, if_false, List.length_cons]
      have hk' : ¬ ((e.1 : Int) = (c : Int)) := by intro h'; exact hk (Int.ofNat_inj.mp h')
      rw [find_cons, if_neg hk'] at h
      have := ih h; omega

theorem nextIdF_total : ∀ (fuel cur : Nat) (p : List (Nat × Cb)), cur ≤ kIntMax → p.length < fuel → fuel ≤ kIntMax →
    (nextIdF fuel cur p).isSome = true := by
  intro fuel
  induction fuel with
  | zero => intro cur p _ h _; omega
  | succ fuel ih =>
    intro cur p hcur hlen hf
    have hM := kIntMax_val
    have hr : 1 ≤ succId cur ∧ succId cur ≤ kIntMax := by unfold succId; split <;> omega
    rw [nextIdF_succ]
    by_cases hp : (pendingFind p (succId cur : Int)).isSome = true
    · rw [if_pos hp]
      have hlt := erase_length_lt p _ hp
      have hd : cdist (succId cur) (succId cur) + fuel < kIntMax := by unfold cdist; simp; omega
      rw [← nextIdF_erase (succId cur) hr fuel (succId cur) p hr.1 hr.2 hd]
      exact ih _ _ hr.2 (by omega) (by omega)
    · rw [if_neg hp]; rfl

/-- the allocation loop returns an id while fewer than `INT_MAX` requests are pending -/
theorem nextId_total (s : Rpc) (hi : s.idAlloc ≤ kIntMax) (hl : s.pending.length < kIntMax) :
    ∃ id, s.nextId = some id := by
  have := nextIdF_total (s.pending.length + 1) s.idAlloc s.pending hi (by omega) (by omega)
  unfold Rpc.nextId
  cases h : nextIdF (s.pending.length + 1) s.idAlloc s.pending with
  | none => rw [h] at this; cases this
  | some id => exact ⟨id, rfl⟩

end Tbox.C14
