/- C14 — helper lemmas: request ids at the C++ width (`int id_alloc_`), the `jump` layer. -/
import TboxModel.C14.ProofsRing
namespace Tbox.C14

theorem goodIdInv : Good (fun a b => b.prog = a.prog ∧ (IdInv a → IdInv b)) (fun _ => True) (fun _ => True) where
  refl := fun s => ⟨rfl, fun h => h⟩
  trans := fun a b c h1 h2 => ⟨h2.1.trans h1.1, fun h => h2.2 (h1.2 h)⟩
  prog := fun _ _ h => h.1
  frame := fun s s' h => ⟨h.2.2.2.2.2.2.2.2.2.1, fun hi => by
    obtain ⟨_, fa, _, fp, _⟩ := h
    unfold IdInv at hi ⊢; rw [fa, fp]; exact hi⟩
  req := fun s c m _ hw => ⟨request_prog s c m, fun hi => by
    obtain ⟨_, f2, f3, _⟩ := request_fields s c m
    unfold IdInv at hi ⊢
    rw [f2, f3]
    refine ⟨by omega, fun e he => ?_⟩
    rcases List.mem_append.mp he with h | h
    · exact hi.2 e (mem_pendingErase _ _ _ h).1
    · simp at h; subst h; simp; omega⟩
  erase := fun s k _ => ⟨rfl, fun hi => ⟨hi.1, fun e he => hi.2 e (mem_pendingErase _ _ _ he).1⟩⟩
  nc := fun a _ => by cases a <;> simp [injectOk]
  clean := fun s _ _ => ⟨rfl, fun hi => ⟨hi.1, fun e he => by simp [Rpc.cleanup] at he⟩⟩

theorem IdInv_tick (s : Rpc) (h : IdInv s) : IdInv s.tick.1 := by
  by_cases hr : s.ring = []
  · unfold Rpc.tick; rw [hr]; exact h
  · rw [tick_eq s hr]
    have h0 : IdInv s.afterSwap := h
    exact (goodIdInv.completeAll kRequestTimeout s.nextItems s.afterSwap (progAll_true _) (fun _ _ => trivial)).2 h0

theorem IdInv_step (s : Rpc) (op : Op) (h : IdInv s) : IdInv (step s op).1 := by
  have g := goodIdInv
  have hp := progAll_true s.prog
  cases op with
  | request c m =>
    show IdInv (s.guardReq (s.request c m)).1
    rcases guardReq_cases' s (s.request c m) with ⟨hd, hw, e⟩ | e <;> rw [e]
    · exact (g.req s c m hd hw).2 h
    · exact h
  | notify m =>
    show IdInv (s.guard (s, [.sent 0 m])).1
    rcases guard_cases s (s, [.sent 0 m]) with e | e <;> rw [e] <;> exact h
  | response rid code => exact (g.respond s hp rid code (fun _ _ => trivial)).2 h
  | tick => exact IdInv_tick s h
  | apiRespond id code => exact (g.frame _ _ (apiRespond_frame s id code)).2 h
  | inRequest id m =>
    simp only [step]
    split
    · exact h
    · exact (g.onRequest s hp id m).2 h
  | stick => exact (g.frame s _ ⟨rfl, rfl, rfl, rfl, rfl, rfl, rfl, rfl, rfl, rfl, rfl⟩).2 h
  | setService m hh => exact (g.frame s _ ⟨rfl, rfl, rfl, rfl, rfl, rfl, rfl, rfl, rfl, rfl, rfl⟩).2 h
  | cleanup =>
    show IdInv (s.guard (s.cleanup, [])).1
    rcases guard_cases' s (s.cleanup, []) with ⟨hd, e⟩ | ⟨_, e⟩ <;> rw [e]
    · exact (g.clean s trivial hd).2 h
    · exact h

theorem IdInv_stepJ (s : Rpc) (op : JOp) (h : IdInv s) : IdInv (stepJ s op).1 := by
  cases op with
  | op o => exact IdInv_step s o h
  | jump v =>
    show IdInv (s.jump v)
    unfold Rpc.jump; split
    · exact ⟨by assumption, h.2⟩
    · exact h

theorem IdInv_runJ (ops : List JOp) : ∀ s : Rpc, IdInv s → IdInv (runJ s ops).1 := by
  induction ops with
  | nil => intro s h; exact h
  | cons op ops ih => intro s h; simp only [runJ]; exact ih _ (IdInv_stepJ s op h)

theorem Delta_stepJ (s : Rpc) (op : JOp) : Delta s (stepJ s op).1 (stepJ s op).2 := by
  cases op with
  | op o => exact Delta_step s o
  | jump v =>
    show Delta s (s.jump v) []
    unfold Rpc.jump; split
    · refine ⟨Nat.le_refl _, ?_⟩; intro t; simp [firedCount]
    · exact Delta_refl s

theorem Delta_runJ (ops : List JOp) : ∀ s : Rpc, Delta s (runJ s ops).1 (runJ s ops).2 := by
  induction ops with
  | nil => intro s; exact Delta_refl s
  | cons op ops ih =>
    intro s
    simp only [runJ]
    exact Delta_trans _ _ _ _ _ (Delta_stepJ s op) (ih _)

theorem pendingFind_zero (p : List (Nat × Cb)) (h : ∀ e ∈ p, 1 ≤ e.1) : pendingFind p 0 = none := by
  unfold pendingFind
  rw [List.find?_eq_none]
  intro e he
  have := h e he
  simp; omega

end Tbox.C14
