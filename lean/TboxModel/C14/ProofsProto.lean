/- C14 — helper lemmas: proto.cpp encoders and dispatch on the abstract JSON value. -/
import TboxModel.C14.Model
namespace Tbox.C14

theorem isNull_eq (p : J) (h : p.isNull = true) : p = .null := by
  cases p <;> simp [J.isNull] at h ⊢

theorem respId_int32 (v : Int) (h : isInt32 v) : respIdG true v = some v := by
  unfold respIdG; unfold isInt32 at h; simp [h]

theorem rt_request (id : Int) (hid : isInt32 id) (method : String) (params : J) :
    recvJsonObj (mkRequest id method params) = [.request id method params] := by
  unfold recvJsonObj mkRequest
  by_cases h0 : id = 0 <;> cases hp : params.isNull
  all_goals simp [J.getStr, J.getInt, J.lookup, List.find?, h0, respId_int32 id hid]
  all_goals first | exact (isNull_eq params hp).symm | skip

theorem rt_result (id : Int) (hid : isInt32 id) (result : J) :
    recvJsonObj (mkResult id result) = [.response id 0 result] := by
  unfold recvJsonObj mkResult
  simp [J.getStr, J.getInt, J.lookup, List.find?, respId_int32 id hid]

theorem rt_error (id code : Int) (hid : isInt32 id) (hc : isInt32 code) (msg : String) :
    recvJsonObj (mkError id code msg) = [.response id code .null] := by
  unfold recvJsonObj mkError
  by_cases hm : msg.isEmpty
  all_goals simp [J.getStr, J.getInt, J.lookup, List.find?, hm, respId_int32 id hid, respId_int32 code hc]
end Tbox.C14
