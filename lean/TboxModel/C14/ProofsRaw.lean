/- C14 — helper lemmas about the `FindEndPos` scanner. -/
import TboxModel.C14.Spec
namespace Tbox.C14

/-! ### the backward backslash count -/

def par (seen : List Byte) : Bool := backToggle seen false

theorem backToggle_not (s : List Byte) (a : Bool) : backToggle s (!a) = !(backToggle s a) := by
  induction s generalizing a with
  | nil => simp [backToggle]
  | cons c rest ih =>
    cases rest with
    | nil => simp [backToggle]
    | cons d rest' =>
      simp only [backToggle]
      split
      · exact ih (!a)
      · rfl

theorem par_cons_ne (c : Byte) (seen : List Byte) (h : c ≠ cBack) : par (c :: seen) = false := by
  unfold par
  cases seen with
  | nil => simp [backToggle]
  | cons d rest => simp [backToggle, h]

theorem par_cons_back (seen : List Byte) (h : seen ≠ []) : par (cBack :: seen) = !par seen := by
  unfold par
  cases seen with
  | nil => exact absurd rfl h
  | cons d rest =>
    simp only [backToggle, if_true]
    exact backToggle_not (d :: rest) false

/-! ### generic facts about `scanRun` -/

theorem scanRun_append (st : Scan) (seen x y : List Byte) :
    scanRun st seen (x ++ y) =
      match scanRun st seen x with
      | .cont st' seen' => scanRun st' seen' y
      | r => r := by
  induction x generalizing st seen with
  | nil => simp [scanRun]
  | cons c x ih =>
    simp only [List.cons_append, scanRun]
    cases h : scanStep st seen c with
    | cont st' seen' => simp only; exact ih st' seen'
    | done p => simp
    | neg p => simp

theorem scanCheck_res (st : Scan) (seen : List Byte) :
    (∀ st' seen', scanCheck st seen = .cont st' seen' → st' = st ∧ seen' = seen) ∧
    (∀ p, scanCheck st seen = .done p → p = seen.length) ∧
    (∀ p, scanCheck st seen = .neg p → p = seen.length) := by
  unfold scanCheck
  refine ⟨?_, ?_, ?_⟩
  · intro st' seen' h
    split at h
    · simp at h
    · split at h
      · simp at h
      · simp at h; exact ⟨h.1.symm, h.2.symm⟩
  · intro p h
    split at h
    · simp at h; exact h.symm
    · split at h <;> simp at h
  · intro p h
    split at h
    · simp at h
    · split at h
      · simp at h; exact h.symm
      · simp at h

theorem scanStep_cont_seen (st : Scan) (seen : List Byte) (c : Byte) (st' : Scan) (seen' : List Byte)
    (h : scanStep st seen c = .cont st' seen') : seen' = c :: seen := by
  unfold scanStep at h
  simp only at h
  split at h
  · exact ((scanCheck_res _ _).1 _ _ h).2
  · split at h
    · simp at h; exact h.2.symm
    · exact ((scanCheck_res _ _).1 _ _ h).2

theorem scanStep_pos (st : Scan) (seen : List Byte) (c : Byte) :
    (∀ p, scanStep st seen c = .done p → p = seen.length + 1) ∧
    (∀ p, scanStep st seen c = .neg p → p = seen.length + 1) := by
  unfold scanStep
  simp only
  constructor <;> intro p h
  · split at h
    · simpa using (scanCheck_res _ _).2.1 _ h
    · split at h
      · simp at h
      · simpa using (scanCheck_res _ _).2.1 _ h
  · split at h
    · simpa using (scanCheck_res _ _).2.2 _ h
    · split at h
      · simp at h
      · simpa using (scanCheck_res _ _).2.2 _ h

theorem scanRun_cont_seen (st : Scan) (seen x : List Byte) (st' : Scan) (seen' : List Byte)
    (h : scanRun st seen x = .cont st' seen') : seen' = x.reverse ++ seen := by
  induction x generalizing st seen with
  | nil => simp [scanRun] at h; simp [h.2]
  | cons c x ih =>
    simp only [scanRun] at h
    cases hs : scanStep st seen c with
    | cont s1 seen1 =>
      rw [hs] at h
      have := scanStep_cont_seen _ _ _ _ _ hs
      subst this
      rw [ih _ _ h]; simp
    | done p => rw [hs] at h; simp at h
    | neg p => rw [hs] at h; simp at h

/-- a `return` is taken at a position inside the scanned bytes -/
theorem scanRun_pos (st : Scan) (seen x : List Byte) :
    (∀ p, scanRun st seen x = .done p → seen.length < p ∧ p ≤ seen.length + x.length) ∧
    (∀ p, scanRun st seen x = .neg p → seen.length < p ∧ p ≤ seen.length + x.length) := by
  induction x generalizing st seen with
  | nil => simp [scanRun]
  | cons c x ih =>
    simp only [scanRun]
    cases hs : scanStep st seen c with
    | cont s1 seen1 =>
      have := scanStep_cont_seen _ _ _ _ _ hs
      subst this
      have := ih s1 (c :: seen)
      simp only [List.length_cons] at this ⊢
      constructor
      · intro p hp; have := this.1 p hp; omega
      · intro p hp; have := this.2 p hp; omega
    | done p =>
      have := (scanStep_pos st seen c).1 p hs
      simp only [List.length_cons]
      constructor
      · intro q hq; simp at hq; omega
      · intro q hq; simp at hq
    | neg p =>
      have := (scanStep_pos st seen c).2 p hs
      simp only [List.length_cons]
      constructor
      · intro q hq; simp at hq
      · intro q hq; simp at hq; omega

/-! ### the scanner on well-shaped text -/

theorem scanCheck_cont (st : Scan) (seen : List Byte) (hb : 0 ≤ st.braces) (hq : 0 ≤ st.square)
    (h : 0 < st.braces + st.square ∨ st.inStr = true ∨ st.started = false) :
    scanCheck st seen = .cont st seen := by
  unfold scanCheck
  have h1 : ¬ (st.braces = 0 ∧ st.square = 0 ∧ st.inStr = false ∧ st.started = true) := by
    rintro ⟨a, b, c, d⟩
    rcases h with h | h | h
    · omega
    · rw [c] at h; cases h
    · rw [d] at h; cases h
  have h2 : ¬ (st.braces < 0 ∨ st.square < 0) := by omega
  simp [h1, h2]

/-- inside an array/object, outside strings -/
structure Inside (st : Scan) : Prop where
  started : st.started = true
  notStr : st.inStr = false
  b0 : 0 ≤ st.braces
  q0 : 0 ≤ st.square
  pos : 0 < st.braces + st.square

theorem started_eta (st : Scan) (c : Byte) (h : st.started = true) :
    ({ st with started := st.started || isGraph c } : Scan) = st := by
  cases st; simp_all

theorem scanStep_started (st : Scan) (seen : List Byte) (c : Byte) (hs : st.started = true) :
    scanStep st seen c =
      if c = cQuote then
        scanCheck { st with inStr := if st.inStr then backToggle seen false else true } (c :: seen)
      else if st.inStr then .cont st (c :: seen)
      else scanCheck (scanBracket st c) (c :: seen) := by
  unfold scanStep
  simp only
  rw [started_eta st c hs]
  simp [hs]

theorem step_filler (st : Scan) (seen : List Byte) (c : Byte) (hc : isFiller c = true) (hi : Inside st) :
    scanStep st seen c = .cont st (c :: seen) := by
  unfold isFiller at hc
  simp only [Bool.and_eq_true, decide_eq_true_eq, ne_eq] at hc
  obtain ⟨⟨⟨⟨h1, h2⟩, h3⟩, h4⟩, h5⟩ := hc
  rw [scanStep_started st seen c hi.started]
  have : scanBracket st c = st := by simp [scanBracket, h2, h3, h4, h5]
  rw [this, if_neg h1, if_neg (by rw [hi.notStr]; simp)]
  exact scanCheck_cont st _ hi.b0 hi.q0 (Or.inl hi.pos)

def openByte (sq : Bool) : Byte := if sq then cLsq else cLbr
def closeByte (sq : Bool) : Byte := if sq then cRsq else cRbr
def bump (sq : Bool) (st : Scan) : Scan :=
  if sq then { st with square := st.square + 1 } else { st with braces := st.braces + 1 }

theorem bump_inside (sq : Bool) (st : Scan) (hs : st.started = true) (hn : st.inStr = false)
    (hb : 0 ≤ st.braces) (hq : 0 ≤ st.square) : Inside (bump sq st) := by
  cases sq <;> simp only [bump] <;> constructor <;> simp_all <;> omega

/-- an opening bracket outside strings, levels not negative, already started -/
theorem step_open (sq : Bool) (st : Scan) (seen : List Byte) (hs : st.started = true) (hn : st.inStr = false)
    (hb : 0 ≤ st.braces) (hq : 0 ≤ st.square) :
    scanStep st seen (openByte sq) = .cont (bump sq st) (openByte sq :: seen) := by
  have hnq : openByte sq ≠ cQuote := by cases sq <;> decide
  rw [scanStep_started st seen _ hs, if_neg hnq, if_neg (by rw [hn]; simp)]
  have : scanBracket st (openByte sq) = bump sq st := by
    cases sq
    · simp [scanBracket, openByte, bump, cLbr, cLsq, cRsq]
    · simp [scanBracket, openByte, bump]
  rw [this]
  have hin := bump_inside sq st hs hn hb hq
  exact scanCheck_cont _ _ hin.b0 hin.q0 (Or.inl hin.pos)

/-- the matching closing bracket -/
theorem step_close (sq : Bool) (st : Scan) (seen : List Byte) (hs : st.started = true)
    (hn : st.inStr = false) (hb : 0 ≤ st.braces) (hq : 0 ≤ st.square) :
    scanStep (bump sq st) seen (closeByte sq) =
      if st.braces = 0 ∧ st.square = 0 then .done (seen.length + 1) else .cont st (closeByte sq :: seen) := by
  have hnq : closeByte sq ≠ cQuote := by cases sq <;> decide
  have hs' : (bump sq st).started = true := by cases sq <;> simp [bump, hs]
  have hn' : (bump sq st).inStr = false := by cases sq <;> simp [bump, hn]
  rw [scanStep_started _ seen _ hs', if_neg hnq, if_neg (by rw [hn']; simp)]
  have : scanBracket (bump sq st) (closeByte sq) = st := by
    cases st
    cases sq
    · simp [scanBracket, closeByte, bump, cLbr, cLsq, cRsq, cRbr]
    · simp [scanBracket, closeByte, bump, cLbr, cLsq, cRsq, cRbr]
  rw [this]
  by_cases hz : st.braces = 0 ∧ st.square = 0
  · simp [scanCheck, hz, hn, hs]
  · simp only [hz, if_false]
    exact scanCheck_cont st _ hb hq (Or.inl (by omega))

/-! ### string literals -/

theorem instr_eta (st : Scan) (h : st.inStr = true) : ({ st with inStr := true } : Scan) = st := by
  cases st; simp_all

theorem step_instr_other (st : Scan) (seen : List Byte) (c : Byte) (hs : st.started = true)
    (hi : st.inStr = true) (hc : c ≠ cQuote) : scanStep st seen c = .cont st (c :: seen) := by
  rw [scanStep_started st seen c hs, if_neg hc, if_pos hi]

theorem step_instr_quote (st : Scan) (seen : List Byte) (hs : st.started = true) (hi : st.inStr = true) :
    scanStep st seen cQuote = scanCheck { st with inStr := par seen } (cQuote :: seen) := by
  rw [scanStep_started st seen _ hs, if_pos rfl]
  simp [hi, par]

theorem run_body (st : Scan) (hs : st.started = true) (hi : st.inStr = true) (hb : 0 ≤ st.braces)
    (hq : 0 ≤ st.square) (body : List SChar) (hok : body.all SChar.ok = true) :
    ∀ seen, seen ≠ [] → par seen = false →
      ∃ seen', scanRun st seen (printBody body) = .cont st seen' ∧ seen' ≠ [] ∧ par seen' = false := by
  induction body with
  | nil => intro seen h1 h2; exact ⟨seen, by simp [printBody, scanRun], h1, h2⟩
  | cons x xs ih =>
    intro seen h1 h2
    simp only [List.all_cons, Bool.and_eq_true] at hok
    have ih' := ih hok.2
    cases x with
    | plain c =>
      have hc : c ≠ cQuote ∧ c ≠ cBack := by simpa [SChar.ok] using hok.1
      obtain ⟨seen', hr, hne, hp⟩ := ih' (c :: seen) (by simp) (par_cons_ne c seen hc.2)
      refine ⟨seen', ?_, hne, hp⟩
      simp only [printBody, List.flatMap_cons, SChar.print, List.cons_append, List.nil_append, scanRun,
        step_instr_other st seen c hs hi hc.1]
      exact hr
    | esc c =>
      have hbq : cBack ≠ cQuote := by decide
      have hp1 : par (cBack :: seen) = true := by rw [par_cons_back seen h1, h2]; rfl
      have hstep2 : scanStep st (cBack :: seen) c = .cont st (c :: cBack :: seen) := by
        by_cases hcq : c = cQuote
        · subst hcq
          rw [step_instr_quote st _ hs hi, hp1, instr_eta st hi]
          exact scanCheck_cont st _ hb hq (Or.inr (Or.inl hi))
        · exact step_instr_other st _ c hs hi hcq
      have hp2 : par (c :: cBack :: seen) = false := by
        by_cases hcb : c = cBack
        · subst hcb; rw [par_cons_back _ (by simp), hp1]; rfl
        · exact par_cons_ne c _ hcb
      obtain ⟨seen', hr, hne, hp⟩ := ih' (c :: cBack :: seen) (by simp) hp2
      refine ⟨seen', ?_, hne, hp⟩
      simp only [printBody, List.flatMap_cons, SChar.print, List.cons_append, List.nil_append, scanRun,
        step_instr_other st seen cBack hs hi hbq, hstep2]
      exact hr

/-- opening quote outside a string (levels not negative): the scanner is now inside the string -/
theorem step_open_quote (st : Scan) (seen : List Byte) (hn : st.inStr = false) (hb : 0 ≤ st.braces)
    (hq : 0 ≤ st.square) :
    scanStep st seen cQuote = .cont { st with started := true, inStr := true } (cQuote :: seen) := by
  unfold scanStep
  have hg : isGraph cQuote = true := by decide
  simp only [hg, Bool.or_true, if_true, hn, Bool.false_eq_true, if_false]
  exact scanCheck_cont _ _ hb hq (Or.inr (Or.inl rfl))

/-- a whole string literal inside an array/object is skipped -/
theorem run_str_inside (st : Scan) (hi : Inside st) (seen : List Byte) (body : List SChar)
    (hok : body.all SChar.ok = true) :
    ∃ seen', scanRun st seen (Tok.print (.str body)) = .cont st seen' := by
  have hq : par (cQuote :: seen) = false := par_cons_ne _ _ (by decide)
  obtain ⟨seen', hr, hne, hp⟩ := run_body { st with started := true, inStr := true } rfl rfl hi.b0 hi.q0
    body hok (cQuote :: seen) (by simp) hq
  refine ⟨cQuote :: seen', ?_⟩
  have hcl := step_instr_quote { st with started := true, inStr := true } seen' rfl rfl
  rw [hp] at hcl
  have heq : ({ ({ st with started := true, inStr := true } : Scan) with inStr := false } : Scan) = st := by
    have h1 := hi.started; have h2 := hi.notStr
    cases st; simp_all
  rw [heq, scanCheck_cont st _ hi.b0 hi.q0 (Or.inl hi.pos)] at hcl
  simp only [Tok.print, List.cons_append, scanRun, step_open_quote st seen hi.notStr hi.b0 hi.q0]
  rw [scanRun_append, hr]
  simp only [scanRun, hcl]

/-! ### balanced token sequences -/

theorem printToks_cons (t : Tok) (ts : List Tok) : printToks (t :: ts) = t.print ++ printToks ts := by
  simp [printToks]

theorem printToks_append (a b : List Tok) : printToks (a ++ b) = printToks a ++ printToks b := by
  simp [printToks]

theorem run_bal (a : List Tok) (h : Bal a) :
    ∀ (st : Scan) (seen : List Byte), Inside st → ∃ seen', scanRun st seen (printToks a) = .cont st seen' := by
  induction h with
  | nil => intro st seen _; exact ⟨seen, by simp [printToks, scanRun]⟩
  | leaf t ts hl _ ih =>
    intro st seen hi
    cases t with
    | filler c =>
      obtain ⟨s', hr⟩ := ih st (c :: seen) hi
      refine ⟨s', ?_⟩
      simp only [printToks_cons, Tok.print, List.cons_append, List.nil_append, scanRun,
        step_filler st seen c (by simpa [Tok.leafOk] using hl) hi]
      exact hr
    | str body =>
      obtain ⟨s1, h1⟩ := run_str_inside st hi seen body (by simpa [Tok.leafOk] using hl)
      obtain ⟨s', hr⟩ := ih st s1 hi
      refine ⟨s', ?_⟩
      rw [printToks_cons, scanRun_append, h1]
      exact hr
    | opn sq => simp [Tok.leafOk] at hl
    | cls sq => simp [Tok.leafOk] at hl
  | wrap sq a b _ _ iha ihb =>
    intro st seen hi
    have hin := bump_inside sq st hi.started hi.notStr hi.b0 hi.q0
    obtain ⟨s1, h1⟩ := iha (bump sq st) (openByte sq :: seen) hin
    obtain ⟨s', hr⟩ := ihb st (closeByte sq :: s1) hi
    refine ⟨s', ?_⟩
    have hne : ¬ (st.braces = 0 ∧ st.square = 0) := by have := hi.pos; omega
    have e1 : Tok.print (.opn sq) = [openByte sq] := by cases sq <;> rfl
    have e2 : Tok.print (.cls sq) = [closeByte sq] := by cases sq <;> rfl
    rw [printToks_append, printToks_cons, printToks_cons, e1, e2]
    simp only [List.cons_append, List.nil_append, scanRun, step_open sq st seen hi.started hi.notStr hi.b0 hi.q0]
    rw [scanRun_append, h1]
    simp only [scanRun, step_close sq st s1 hi.started hi.notStr hi.b0 hi.q0, hne, if_false]
    exact hr

/-! ### top level -/

theorem run_ws (ws : List Byte) (h : ∀ c ∈ ws, isGraph c = false) :
    ∀ seen, scanRun {} seen ws = .cont {} (ws.reverse ++ seen) := by
  induction ws with
  | nil => intro seen; simp [scanRun]
  | cons c ws ih =>
    intro seen
    have hc : isGraph c = false := h c (by simp)
    have hstep : scanStep {} seen c = .cont {} (c :: seen) := by
      have h1 : c ≠ cQuote := by intro e; subst e; revert hc; decide
      have h2 : c ≠ cLsq := by intro e; subst e; revert hc; decide
      have h3 : c ≠ cRsq := by intro e; subst e; revert hc; decide
      have h4 : c ≠ cLbr := by intro e; subst e; revert hc; decide
      have h5 : c ≠ cRbr := by intro e; subst e; revert hc; decide
      unfold scanStep
      simp only [hc, Bool.or_false, h1, if_false, Bool.false_eq_true]
      have : scanBracket ({} : Scan) c = {} := by simp [scanBracket, h2, h3, h4, h5]
      rw [this]
      exact scanCheck_cont _ _ (by decide) (by decide) (Or.inr (Or.inr rfl))
    simp only [scanRun, hstep]
    rw [ih (fun d hd => h d (by simp [hd]))]
    simp

theorem step_open_top (sq : Bool) (seen : List Byte) :
    scanStep {} seen (openByte sq) = .cont (bump sq { started := true }) (openByte sq :: seen) := by
  cases sq <;> rfl

/-- the scanner on white space, a top-level value and anything after it -/
theorem scan_top (ws : List Byte) (hws : ∀ c ∈ ws, isGraph c = false) (v : List Tok) (hv : TopValue v)
    (rest : List Byte) :
    scanRun {} [] (ws ++ printToks v ++ rest) = .done (ws ++ printToks v).length := by
  rw [List.append_assoc, scanRun_append, run_ws ws hws []]
  simp only [List.append_nil]
  cases hv with
  | bracket sq a ha =>
    have e1 : Tok.print (.opn sq) = [openByte sq] := by cases sq <;> rfl
    have e2 : Tok.print (.cls sq) = [closeByte sq] := by cases sq <;> rfl
    have hin : Inside (bump sq { started := true }) := bump_inside sq _ rfl rfl (by decide) (by decide)
    obtain ⟨s1, h1⟩ := run_bal a ha _ (openByte sq :: ws.reverse) hin
    have hs1 := scanRun_cont_seen _ _ _ _ _ h1
    have hpt : printToks (Tok.opn sq :: a ++ [Tok.cls sq]) = openByte sq :: (printToks a ++ [closeByte sq]) := by
      rw [printToks_append, printToks_cons, printToks_cons, e1, e2]; simp [printToks]
    rw [hpt]
    simp only [List.cons_append, List.nil_append, List.append_assoc, scanRun, step_open_top]
    rw [scanRun_append, h1]
    simp only [scanRun, step_close sq { started := true } s1 rfl rfl (by decide) (by decide)]
    simp [hs1]
    omega
  | str body hok =>
    have hq : par (cQuote :: ws.reverse) = false := par_cons_ne _ _ (by decide)
    obtain ⟨seen', hr, hne, hp⟩ := run_body { started := true, inStr := true } rfl rfl (by decide) (by decide)
      body hok (cQuote :: ws.reverse) (by simp) hq
    have hs1 := scanRun_cont_seen _ _ _ _ _ hr
    have hcl := step_instr_quote { started := true, inStr := true } seen' rfl rfl
    rw [hp] at hcl
    have hop : scanStep {} ws.reverse cQuote = .cont { started := true, inStr := true } (cQuote :: ws.reverse) := rfl
    simp only [printToks, List.flatMap_cons, List.flatMap_nil, List.append_nil, Tok.print, List.cons_append,
      List.append_assoc, scanRun, hop]
    rw [scanRun_append, hr]
    simp only [List.cons_append, List.nil_append, scanRun, hcl]
    simp [scanCheck, hs1]
    omega

theorem findEndPos_range (s : List Byte) : -1 ≤ findEndPos s ∧ findEndPos s ≤ s.length := by
  unfold findEndPos
  cases h : scanRun {} [] s with
  | cont st seen => simp
  | done p => have := (scanRun_pos {} [] s).1 p h; simp at this ⊢; omega
  | neg p => simp

/-- the scanner's decisions are final: more bytes do not change a `return` already taken -/
theorem scanRun_stable (s x : List Byte) :
    (∀ p, scanRun {} [] s = .done p → scanRun {} [] (s ++ x) = .done p) ∧
    (∀ p, scanRun {} [] s = .neg p → scanRun {} [] (s ++ x) = .neg p) := by
  constructor <;> intro p h <;> rw [scanRun_append, h]

end Tbox.C14
