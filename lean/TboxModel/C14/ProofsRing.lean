/- C14 — helper lemmas: the timeout ring (slot positions, expiry), pending ⊆ ring, timer on. -/
import TboxModel.C14.ProofsRpc
namespace Tbox.C14

/-! ### the two ring operations -/

/-- `TimeoutMonitor::add` on the ring: push to the current slot -/
def addRing (ring : List (List Nat)) (y : Nat) : List (List Nat) :=
  match ring with
  | [] => []
  | cur :: rest => (cur ++ [y]) :: rest

/-- the state right after `swap(tobe_handle, curr_item_->items)` and the `value_number_` update -/
def Rpc.afterSwap (s : Rpc) : Rpc :=
  { s with ring := [] :: (order s.ring).tail, vn := s.vn - s.nextItems.length,
           timerOn := if s.vn - s.nextItems.length = 0 then false else s.timerOn }

theorem monitorAdd_fields (s : Rpc) (id : Nat) :
    (s.monitorAdd id).ring = addRing s.ring id ∧ (s.monitorAdd id).idAlloc = s.idAlloc ∧
    (s.monitorAdd id).pending = s.pending ∧ (s.monitorAdd id).nTag = s.nTag ∧
    (s.monitorAdd id).vn = s.vn + 1 ∧
    (s.monitorAdd id).timerOn = (if s.vn = 0 then true else s.timerOn) := by
  unfold Rpc.monitorAdd addRing
  simp only
  cases s.ring <;> split <;> simp

theorem tick_eq (s : Rpc) (h : s.ring ≠ []) :
    s.tick = Rpc.completeAll s.afterSwap kRequestTimeout s.nextItems := by
  cases hr : s.ring with
  | nil => exact absurd hr h
  | cons cur rest =>
    cases ho : rest ++ [cur] with
    | nil => simp at ho
    | cons items others =>
      unfold Rpc.tick
      simp only [hr, ho, Rpc.afterSwap, Rpc.nextItems, order, List.headD_cons, List.tail_cons]

theorem request_fields (s : Rpc) (c m : Nat) :
    (s.request c m).1.ring = addRing s.ring (s.nTag + 1) ∧ (s.request c m).1.idAlloc = s.nextId.getD 0 ∧
    (s.request c m).1.pending = pendingErase s.pending (s.nextId.getD 0) ++ [(s.nextId.getD 0, { tag := s.nTag, script := c })] ∧
    (s.request c m).1.nTag = s.nTag + 1 ∧ (s.request c m).1.vn = s.vn + 1 ∧
    (s.request c m).1.timerOn = (if s.vn = 0 then true else s.timerOn) := by
  unfold Rpc.request
  simp only
  have := monitorAdd_fields
    { s with idAlloc := s.nextId.getD 0, nTag := s.nTag + 1,
             pending := pendingErase s.pending (s.nextId.getD 0) ++ [(s.nextId.getD 0, { tag := s.nTag, script := c })] }
    (s.nTag + 1)
  simpa using this

/-- no callback script of the object's program calls `cleanup()` -/
abbrev Safe (s : Rpc) : Prop := ProgAll Act.noCleanup s.prog

theorem Safe_of_prog (s s' : Rpc) (h : s'.prog = s.prog) (hs : Safe s) : Safe s' := by
  unfold Safe; rw [h]; exact hs

theorem noCleanup_nc (okId : Int → Prop) (hall : ∀ y, okId y) (a : Act) (_h : a.noCleanup) :
    injectOk okId a := by
  cases a <;> simp_all [injectOk]

/-! ### "only fresh tokens are added" (`seq = ++request_seq_` is never reused) -/

def Adds (s s' : Rpc) : Prop :=
  s.nTag ≤ s'.nTag ∧
  ∃ ys : List Nat, s'.ring = ys.foldl addRing s.ring ∧ ∀ y ∈ ys, s.nTag < y ∧ y ≤ s'.nTag

theorem Adds_refl (s : Rpc) : Adds s s := ⟨Nat.le_refl _, [], rfl, by simp⟩

theorem Adds_of_eq (s s' : Rpc) (h1 : s'.ring = s.ring) (h2 : s'.nTag = s.nTag) : Adds s s' :=
  ⟨by omega, [], by simp [h1], by simp⟩

theorem Adds_trans (a b c : Rpc) (h1 : Adds a b) (h2 : Adds b c) : Adds a c := by
  obtain ⟨m1, ys1, r1, b1⟩ := h1
  obtain ⟨m2, ys2, r2, b2⟩ := h2
  refine ⟨by omega, ys1 ++ ys2, by rw [r2, r1, List.foldl_append], ?_⟩
  intro y hy
  rcases List.mem_append.mp hy with hy | hy
  · have := b1 y hy; omega
  · have := b2 y hy; omega

theorem Adds_request (s : Rpc) (c m : Nat) : Adds s (s.request c m).1 := by
  obtain ⟨hr, _, _, hi, _⟩ := request_fields s c m
  refine ⟨by omega, [s.nTag + 1], by simp [hr], ?_⟩
  intro y hy; simp at hy; omega

theorem Adds_frame (s s' : Rpc) (h : CFrame s s') : Adds s s' := Adds_of_eq _ _ h.2.2.2.2.1 h.2.2.1

theorem goodAdds : Good (fun a b => b.prog = a.prog ∧ Adds a b) Act.noCleanup (fun _ => True) where
  refl := fun s => ⟨rfl, Adds_refl s⟩
  trans := fun a b c h1 h2 => ⟨h2.1.trans h1.1, Adds_trans a b c h1.2 h2.2⟩
  prog := fun _ _ h => h.1
  frame := fun s s' h => ⟨h.2.2.2.2.2.2.2.2.2.1, Adds_frame s s' h⟩
  req := fun s c m _ _ => ⟨request_prog s c m, Adds_request s c m⟩
  erase := fun s k _ => ⟨rfl, Adds_of_eq _ _ rfl rfl⟩
  nc := fun a h => noCleanup_nc _ (fun _ => trivial) a h
  clean := fun _ h => absurd h (by simp [Act.noCleanup])

theorem Adds_complete (s : Rpc) (hs : Safe s) (id code : Int) : Adds s (s.complete id code).1 :=
  (goodAdds.complete s hs id code trivial).2

theorem Adds_completeAll (code : Int) (ids : List Nat) (s : Rpc) (hs : Safe s) : Adds s (s.completeAll code ids).1 :=
  (goodAdds.completeAll code ids s hs (fun _ => trivial)).2

theorem Adds_respond (s : Rpc) (hs : Safe s) (rid code : Int) : Adds s (s.respond rid code).1 :=
  (goodAdds.respond s hs rid code (fun _ _ => trivial)).2

theorem Adds_onRequest (s : Rpc) (hs : Safe s) (id : Int) (m : Nat) : Adds s (s.onRequest id m).1 :=
  (goodAdds.onRequest s hs id m).2

/-- a ring property kept by every addition of an id above `lo` is kept along `Adds` -/
theorem Adds_pres (P : List (List Nat) → Prop) (lo : Nat)
    (hP : ∀ r y, lo < y → P r → P (addRing r y)) (s s' : Rpc) (h : Adds s s') (hlo : lo ≤ s.nTag)
    (hs : P s.ring) : P s'.ring := by
  obtain ⟨_, ys, hr, hb⟩ := h
  rw [hr]
  clear hr
  have : ∀ (ys : List Nat) (r : List (List Nat)), (∀ y ∈ ys, lo < y) → P r → P (ys.foldl addRing r) := by
    intro ys
    induction ys with
    | nil => intro r _ h; exact h
    | cons y ys ih =>
      intro r hy h
      simp only [List.foldl_cons]
      exact ih _ (fun z hz => hy z (by simp [hz])) (hP r y (hy y (by simp)) h)
  exact this ys s.ring (fun y hy => by have := hb y hy; omega) hs

/-! ### positions in the ring -/

/-- `x` sits in the slot that the `(m+1)`-th coming tick hands out, and in none handed out earlier -/
def InSlot (ring : List (List Nat)) (x m : Nat) : Prop :=
  ∃ pre slot post, order ring = pre ++ slot :: post ∧ pre.length = m ∧ x ∈ slot ∧ x ∉ pre.flatten

/-- occurrences of `x` in the whole ring -/
def cnt (x : Nat) (ring : List (List Nat)) : Nat := ring.flatten.count x

theorem cnt_order (x : Nat) (ring : List (List Nat)) : (order ring).flatten.count x = cnt x ring := by
  cases ring with
  | nil => rfl
  | cons cur rest => simp [order, cnt, List.count_append]; omega

theorem mem_order (x : Nat) (ring : List (List Nat)) : x ∈ (order ring).flatten ↔ x ∈ ring.flatten := by
  cases ring with
  | nil => simp [order]
  | cons cur rest => simp [order]; constructor <;> (intro h; rcases h with h | h <;> simp [h])

theorem cnt_add (x y : Nat) (ring : List (List Nat)) (h : y ≠ x) : cnt x (addRing ring y) = cnt x ring := by
  cases ring with
  | nil => rfl
  | cons cur rest => simp [addRing, cnt, List.count_append, List.count_cons, h]

theorem InSlot_add (ring : List (List Nat)) (x m y : Nat) (h : InSlot ring x m) :
    InSlot (addRing ring y) x m := by
  obtain ⟨pre, slot, post, ho, hl, hx, hn⟩ := h
  cases ring with
  | nil => simp [order] at ho
  | cons cur rest =>
    simp only [order] at ho
    rcases List.eq_nil_or_concat post with hp | ⟨post', l, hp⟩
    · subst hp
      obtain ⟨h1, h2⟩ := List.append_inj' ho (by simp)
      simp only [List.cons.injEq, and_true] at h2
      refine ⟨pre, slot ++ [y], [], ?_, hl, by simp [hx], hn⟩
      simp [addRing, order, h1, h2]
    · subst hp
      have ho' : rest ++ [cur] = (pre ++ slot :: post') ++ [l] := by simpa using ho
      obtain ⟨h1, h2⟩ := List.append_inj' ho' (by simp)
      simp only [List.cons.injEq, and_true] at h2
      refine ⟨pre, slot, post' ++ [l ++ [y]], ?_, hl, hx, hn⟩
      simp [addRing, order, h1, h2]

theorem afterSwap_order (s : Rpc) (h : s.ring ≠ []) :
    order s.afterSwap.ring = (order s.ring).tail ++ [[]] ∧
    order s.ring = s.nextItems :: (order s.ring).tail := by
  cases hr : s.ring with
  | nil => exact absurd hr h
  | cons cur rest =>
    cases ho : rest ++ [cur] with
    | nil => simp at ho
    | cons items others => simp [Rpc.afterSwap, Rpc.nextItems, order, hr, ho]

theorem InSlot_swap_succ (s : Rpc) (x m : Nat) (h : InSlot s.ring x (m + 1)) :
    InSlot s.afterSwap.ring x m ∧ x ∉ s.nextItems := by
  obtain ⟨pre, slot, post, ho, hl, hx, hn⟩ := h
  have hne : s.ring ≠ [] := by intro e; rw [e] at ho; simp [order] at ho
  obtain ⟨h1, h2⟩ := afterSwap_order s hne
  cases pre with
  | nil => simp at hl
  | cons p0 pre' =>
    rw [ho] at h2
    simp only [List.cons_append, List.cons.injEq] at h2
    simp only [List.flatten_cons, List.mem_append, not_or] at hn
    refine ⟨⟨pre', slot, post ++ [[]], ?_, by simpa using hl, hx, hn.2⟩, by rw [← h2.1]; exact hn.1⟩
    rw [h1, ho]; simp

theorem InSlot_swap_zero (s : Rpc) (x : Nat) (h : InSlot s.ring x 0) : x ∈ s.nextItems := by
  obtain ⟨pre, slot, post, ho, hl, hx, _⟩ := h
  have hne : s.ring ≠ [] := by intro e; rw [e] at ho; simp [order] at ho
  obtain ⟨_, h2⟩ := afterSwap_order s hne
  have : pre = [] := List.eq_nil_of_length_eq_zero hl
  subst this
  rw [ho] at h2
  simp only [List.nil_append, List.cons.injEq] at h2
  rw [← h2.1]; exact hx

theorem cnt_afterSwap (s : Rpc) (x : Nat) (h : s.ring ≠ []) :
    cnt x s.afterSwap.ring + s.nextItems.count x = cnt x s.ring := by
  obtain ⟨h1, h2⟩ := afterSwap_order s h
  have a := cnt_order x s.afterSwap.ring
  have b := cnt_order x s.ring
  rw [h1] at a
  rw [h2] at b
  simp [List.count_append] at a b
  omega

theorem afterSwap_ring_ne (s : Rpc) : s.afterSwap.ring ≠ [] := by simp [Rpc.afterSwap]

theorem addRing_ne (r : List (List Nat)) (y : Nat) (h : r ≠ []) : addRing r y ≠ [] := by
  cases r with
  | nil => exact absurd rfl h
  | cons c rest => simp [addRing]

theorem Adds_ring_ne (s s' : Rpc) (h : Adds s s') (hr : s.ring ≠ []) : s'.ring ≠ [] :=
  Adds_pres (fun r => r ≠ []) 0 (fun r y _ hr => addRing_ne r y hr) s s' h (Nat.zero_le _) hr

/-! ### expiry of one id -/

def Live (s : Rpc) (x m : Nat) : Prop := x ≤ s.nTag ∧ InSlot s.ring x m ∧ cnt x s.ring = 1
def Gone (s : Rpc) (x : Nat) : Prop := x ≤ s.nTag ∧ s.ring ≠ [] ∧ cnt x s.ring = 0

theorem Live_adds (s s' : Rpc) (x m : Nat) (h : Adds s s') (hl : Live s x m) : Live s' x m := by
  obtain ⟨h1, h2, h3⟩ := hl
  have := Adds_pres (fun r => InSlot r x m ∧ cnt x r = 1) x
    (fun r y hy hr => ⟨InSlot_add r x m y hr.1, by rw [cnt_add x y r (by omega)]; exact hr.2⟩)
    s s' h h1 ⟨h2, h3⟩
  exact ⟨by have := h.1; omega, this.1, this.2⟩

theorem Gone_adds (s s' : Rpc) (x : Nat) (h : Adds s s') (hg : Gone s x) : Gone s' x := by
  obtain ⟨h1, h2, h3⟩ := hg
  have := Adds_pres (fun r => cnt x r = 0) x
    (fun r y hy hr => by rw [cnt_add x y r (by omega)]; exact hr) s s' h h1 h3
  exact ⟨by have := h.1; omega, Adds_ring_ne s s' h h2, this⟩

theorem step_nontick_adds (s : Rpc) (hs : Safe s) (op : Op) (h : op ≠ .tick) (hc : op ≠ .cleanup) :
    Adds s (step s op).1 := by
  cases op with
  | request c m =>
    show Adds s (s.guardReq (s.request c m)).1
    rcases guardReq_cases s (s.request c m) with e | e <;> rw [e]
    · exact Adds_request s c m
    · exact Adds_refl s
  | notify m =>
    show Adds s (s.guard (s, [.sent 0 m])).1
    rcases guard_cases s (s, [.sent 0 m]) with e | e <;> rw [e] <;> exact Adds_refl s
  | response id code => exact Adds_respond s hs id code
  | tick => exact absurd rfl h
  | apiRespond id code => exact Adds_frame _ _ (apiRespond_frame s id code)
  | inRequest id m =>
    simp only [step]
    split
    · exact Adds_refl s
    · exact Adds_onRequest s hs id m
  | stick => exact Adds_of_eq _ _ rfl rfl
  | setService m h => exact Adds_of_eq _ _ rfl rfl
  | cleanup => exact absurd rfl hc

theorem tick_adds (s : Rpc) (hs : Safe s) (h : s.ring ≠ []) : Adds s.afterSwap s.tick.1 := by
  rw [tick_eq s h]; exact Adds_completeAll _ _ _ hs

theorem Gone_tick (s : Rpc) (hs : Safe s) (x : Nat) (hg : Gone s x) : Gone s.tick.1 x ∧ s.nextItems.count x = 0 := by
  obtain ⟨h1, h2, h3⟩ := hg
  have hc := cnt_afterSwap s x h2
  refine ⟨Gone_adds _ _ x (tick_adds s hs h2) ⟨h1, afterSwap_ring_ne s, by omega⟩, by omega⟩

theorem runHanded_tick (s : Rpc) (ops : List Op) :
    runHanded s (.tick :: ops) = s.nextItems :: runHanded s.tick.1 ops := rfl

theorem runHanded_nontick (s : Rpc) (op : Op) (ops : List Op) (h : op ≠ .tick) :
    runHanded s (op :: ops) = runHanded (step s op).1 ops := by
  cases op with
  | tick => exact absurd rfl h
  | _ => rfl

theorem Gone_run (x : Nat) (ops : List Op) : ∀ (s : Rpc), Safe s → NoCleanupOps ops → Gone s x →
    ∀ (j : Nat) (items : List Nat), (runHanded s ops)[j]? = some items → items.count x = 0 := by
  induction ops with
  | nil => intro s _ _ _ j items h; simp [runHanded] at h
  | cons op ops ih =>
    intro s hs hnc hg j items h
    have hnc' : NoCleanupOps ops := fun o ho => hnc o (List.mem_cons_of_mem _ ho)
    have hs' : Safe (step s op).1 := Safe_of_prog _ _ (step_prog s op) hs
    by_cases ht : op = .tick
    · subst ht
      rw [runHanded_tick] at h
      obtain ⟨hg', hc⟩ := Gone_tick s hs x hg
      cases j with
      | zero => simp at h; rw [← h]; exact hc
      | succ j => rw [List.getElem?_cons_succ] at h; exact ih _ hs' hnc' hg' j items h
    · rw [runHanded_nontick s op ops ht] at h
      exact ih _ hs' hnc' (Gone_adds _ _ x (step_nontick_adds s hs op ht (hnc op (by simp))) hg) j items h

theorem Live_run (x : Nat) (ops : List Op) : ∀ (s : Rpc) (m : Nat), Safe s → NoCleanupOps ops → Live s x m →
    ∀ (j : Nat) (items : List Nat), (runHanded s ops)[j]? = some items →
      items.count x = if j = m then 1 else 0 := by
  induction ops with
  | nil => intro s m _ _ _ j items h; simp [runHanded] at h
  | cons op ops ih =>
    intro s m hs hnc hl j items h
    have hnc' : NoCleanupOps ops := fun o ho => hnc o (List.mem_cons_of_mem _ ho)
    have hs' : Safe (step s op).1 := Safe_of_prog _ _ (step_prog s op) hs
    by_cases ht : op = .tick
    · subst ht
      rw [runHanded_tick] at h
      obtain ⟨h1, h2, h3⟩ := hl
      have hne : s.ring ≠ [] := by
        obtain ⟨pre, slot, post, ho, _⟩ := h2
        intro e; rw [e] at ho; simp [order] at ho
      have hc := cnt_afterSwap s x hne
      cases m with
      | zero =>
        have hmem := InSlot_swap_zero s x h2
        have hpos : 0 < s.nextItems.count x := List.count_pos_iff.mpr hmem
        have hg : Gone s.tick.1 x :=
          Gone_adds _ _ x (tick_adds s hs hne) ⟨h1, afterSwap_ring_ne s, by omega⟩
        cases j with
        | zero => simp at h; rw [← h]; simp; omega
        | succ j =>
          rw [List.getElem?_cons_succ] at h
          rw [Gone_run x ops _ hs' hnc' hg j items h]; simp
      | succ m =>
        obtain ⟨hin, hnot⟩ := InSlot_swap_succ s x m h2
        have hz : s.nextItems.count x = 0 := List.count_eq_zero.mpr hnot
        have hl' : Live s.tick.1 x m :=
          Live_adds _ _ x m (tick_adds s hs hne) ⟨h1, hin, by omega⟩
        cases j with
        | zero => simp at h; rw [← h, hz]; simp
        | succ j =>
          rw [List.getElem?_cons_succ] at h
          rw [ih _ m hs' hnc' hl' j items h]; simp
    · rw [runHanded_nontick s op ops ht] at h
      exact ih _ m hs' hnc' (Live_adds _ _ x m (step_nontick_adds s hs op ht (hnc op (by simp))) hl) j items h

/-- a fresh request's token sits in the last slot of the order: `n` ticks to go -/
theorem Live_request (s : Rpc) (c m : Nat) (hr : s.ring ≠ []) (hf : ∀ y ∈ s.ring.flatten, y ≤ s.nTag) :
    Live (s.request c m).1 (s.nTag + 1) (s.ring.length - 1) := by
  obtain ⟨h1, _, _, h2, _⟩ := request_fields s c m
  cases hring : s.ring with
  | nil => exact absurd hring hr
  | cons cur rest =>
    have hfresh : ∀ l : List Nat, (∀ y ∈ l, y ≤ s.nTag) → s.nTag + 1 ∉ l := by
      intro l hl hm; have := hl _ hm; omega
    rw [hring] at hf
    refine ⟨by omega, ⟨rest, cur ++ [s.nTag + 1], [], ?_, by simp, by simp, ?_⟩, ?_⟩
    · rw [h1, hring]; rfl
    · apply hfresh; intro y hy; exact hf y (by simp [hy])
    · rw [h1, hring]
      have : cnt (s.nTag + 1) (cur :: rest) = 0 := by
        unfold cnt; exact List.count_eq_zero.mpr (hfresh _ hf)
      simp only [addRing, cnt, List.flatten_cons, List.count_append] at this ⊢
      simp; omega

/-! ### a pending request stays pending until its own completion -/

/-- `(id, cb)` is pending, and it is the only entry with that id and the only one with that tag
(token) -/
def Pend (s : Rpc) (id : Nat) (cb : Cb) : Prop :=
  pendingFind s.pending (id : Int) = some (id, cb) ∧
  (∀ e ∈ s.pending, e.1 = id ∨ e.2.tag = cb.tag → e = (id, cb)) ∧ cb.tag < s.nTag

theorem find_cons (e : Nat × Cb) (p : List (Nat × Cb)) (id : Int) :
    pendingFind (e :: p) id = if (e.1 : Int) = id then some e else pendingFind p id := by
  unfold pendingFind
  rw [List.find?_cons]
  by_cases h : (e.1 : Int) = id <;> simp [h]

theorem find_erase_ne (p : List (Nat × Cb)) (k id : Nat) (h : k ≠ id) :
    pendingFind (pendingErase p k) (id : Int) = pendingFind p (id : Int) := by
  induction p with
  | nil => rfl
  | cons e es ih =>
    rw [pendingErase_cons]
    by_cases hk : e.1 = k
    · have : ¬ ((e.1 : Int) = (id : Int)) := by rw [hk]; intro h'; exact h (Int.ofNat_inj.mp h')
      simp only [hk, if_true, find_cons]
      rw [hk] at this
      simp only [this, if_false]; exact ih
    · simp only [hk, if_false, find_cons, ih]

theorem find_erase_self (p : List (Nat × Cb)) (k : Nat) : pendingFind (pendingErase p k) (k : Int) = none := by
  induction p with
  | nil => rfl
  | cons e es ih =>
    rw [pendingErase_cons]
    by_cases hk : e.1 = k
    · simp only [hk, if_true]; exact ih
    · have : ¬ ((e.1 : Int) = (k : Int)) := by intro h'; exact hk (Int.ofNat_inj.mp h')
      simp only [hk, if_false, find_cons, this, ih]

theorem find_append (p q : List (Nat × Cb)) (id : Int) :
    pendingFind (p ++ q) id = (pendingFind p id).or (pendingFind q id) := by
  unfold pendingFind; exact List.find?_append

theorem mem_of_mem_erase (p : List (Nat × Cb)) (k : Nat) (e : Nat × Cb) (h : e ∈ pendingErase p k) :
    e ∈ p ∧ e.1 ≠ k := by
  unfold pendingErase at h
  simpa using h

theorem pendCount_zero_mem (t : Nat) (p : List (Nat × Cb)) (h : pendCount t p = 0) : ∀ e ∈ p, e.2.tag ≠ t := by
  induction p with
  | nil => intro e he; simp at he
  | cons x xs ih =>
    intro e he
    simp only [pendCount] at h
    rcases List.mem_cons.mp he with he | he
    · subst he; intro ht; simp [ht] at h
    · exact ih (by omega) e he

/-- a new request never takes the id of a pending one (the allocation loop skips it) -/
theorem Pend_request (s : Rpc) (c m : Nat) (id : Nat) (cb : Cb) (hn : ∃ i, s.nextId = some i) (h : Pend s id cb) :
    Pend (s.request c m).1 id cb := by
  obtain ⟨i, hi⟩ := hn
  obtain ⟨_, _, h3, h4, _⟩ := request_fields s c m
  rw [hi, Option.getD_some] at h3
  obtain ⟨hf, hu, ht⟩ := h
  have hfree := (nextId_spec s i hi).1
  have hne : i ≠ id := by
    intro e; subst e; rw [hf] at hfree; cases hfree
  refine ⟨?_, ?_, by omega⟩
  · rw [h3, find_append, find_erase_ne _ _ _ hne, hf]; rfl
  · intro e he hk
    rw [h3] at he
    rcases List.mem_append.mp he with he | he
    · exact hu e (mem_of_mem_erase _ _ _ he).1 hk
    · simp at he; subst he
      rcases hk with hk | hk
      · exact absurd hk hne
      · simp at hk; omega

theorem Pend_new (s : Rpc) (hinv : RInv s) (c m : Nat) (id : Nat) (hi : s.nextId = some id) :
    Pend (s.request c m).1 id { tag := s.nTag, script := c } := by
  obtain ⟨_, _, h3, h4, _⟩ := request_fields s c m
  rw [hi, Option.getD_some] at h3
  refine ⟨?_, ?_, by simp [h4]⟩
  · rw [h3, find_append, find_erase_self, find_cons]; simp
  · intro e he hk
    rw [h3] at he
    rcases List.mem_append.mp he with he | he
    · obtain ⟨hm, hne⟩ := mem_of_mem_erase _ _ _ he
      rcases hk with hk | hk
      · exact absurd hk hne
      · have h0 : pendCount s.nTag s.pending = 0 := by
          have := hinv s.nTag; simp at this; exact this
        exact absurd hk (pendCount_zero_mem _ _ h0 e hm)
    · simpa using he

/-- an act that neither calls `cleanup()` nor injects a response for `id` -/
def actOkFor (id : Nat) (a : Act) : Prop := a.noCleanup ∧ injectOk (fun y => y ≠ (id : Int)) a

/-- no callback script of the program injects a response for `id` (or calls `cleanup()`) -/
abbrev QuietFor (s : Rpc) (id : Nat) : Prop := ProgAll (actOkFor id) s.prog

theorem QuietFor_safe (s : Rpc) (id : Nat) (h : QuietFor s id) : Safe s :=
  ⟨fun sc hsc a ha => (h.1 sc hsc a ha).1, fun hd hh a ha => (h.2 hd hh a ha).1⟩

theorem QuietFor_of_prog (s s' : Rpc) (id : Nat) (h : s'.prog = s.prog) (hq : QuietFor s id) : QuietFor s' id := by
  unfold QuietFor; rw [h]; exact hq

theorem goodPend (id : Nat) (cb : Cb) :
    Good (fun a b => b.prog = a.prog ∧ (Pend a id cb → Pend b id cb)) (actOkFor id) (fun y => y ≠ (id : Int)) where
  refl := fun s => ⟨rfl, fun h => h⟩
  trans := fun a b c h1 h2 => ⟨h2.1.trans h1.1, fun h => h2.2 (h1.2 h)⟩
  prog := fun _ _ h => h.1
  frame := fun s s' h => ⟨h.2.2.2.2.2.2.2.2.2.1, fun hp => by
    unfold Pend at hp ⊢; rw [h.2.2.2.1, h.2.2.1]; exact hp⟩
  req := fun s c m _ hn => ⟨request_prog s c m, Pend_request s c m id cb hn⟩
  erase := fun s k hk => ⟨rfl, fun hp => by
    have hne : k ≠ id := fun e => hk (by rw [e])
    refine ⟨by simp only; rw [find_erase_ne _ _ _ hne]; exact hp.1, ?_, hp.2.2⟩
    intro e he hke
    exact hp.2.1 e (mem_of_mem_erase _ _ _ he).1 hke⟩
  nc := fun a h => by
    cases a <;> simp_all [actOkFor, Act.noCleanup, injectOk]
  clean := fun _ h => absurd h.1 (by simp [Act.noCleanup])

theorem Pend_complete (s : Rpc) (y code : Int) (id : Nat) (cb : Cb) (hq : QuietFor s id) (h : Pend s id cb)
    (hy : y ≠ (id : Int)) : Pend (s.complete y code).1 id cb :=
  ((goodPend id cb).complete s hq y code hy).2 h

theorem Pend_fires (s : Rpc) (code : Int) (id : Nat) (cb : Cb) (h : Pend s id cb) :
    REv.fired cb.tag code ∈ (s.complete (id : Int) code).2 := by
  simp [Rpc.complete, maxDepth, Rpc.completeF, h.1]

/-- a token other than the request's own leaves it pending -/
theorem Pend_expire_other (s : Rpc) (y : Nat) (code : Int) (id : Nat) (cb : Cb) (hq : QuietFor s id) (h : Pend s id cb)
    (hy : y ≠ cb.tag + 1) : Pend (s.expireOne y code).1 id cb := by
  unfold Rpc.expireOne
  split
  · exact h
  · rename_i e he
    have hmem := List.mem_of_find?_eq_some he
    have htag : e.2.tag + 1 = y := by simpa using List.find?_some he
    have hne : e.1 ≠ id := by
      intro hk
      have := h.2.1 e hmem (Or.inl hk)
      rw [this] at htag; exact hy htag.symm
    exact Pend_complete s _ code id cb hq h (by intro e'; exact hne (Int.ofNat_inj.mp e'))

/-- the request's own token completes it -/
theorem Pend_expire_self (s : Rpc) (code : Int) (id : Nat) (cb : Cb) (h : Pend s id cb) :
    REv.fired cb.tag code ∈ (s.expireOne (cb.tag + 1) code).2 := by
  unfold Rpc.expireOne
  have hmem := (pendingFind_mem _ _ _ _ h.1).1
  split
  · rename_i hnone
    have := List.find?_eq_none.mp hnone (id, cb) hmem
    simp at this
  · rename_i e he
    have hm := List.mem_of_find?_eq_some he
    have htag : e.2.tag + 1 = cb.tag + 1 := by simpa using List.find?_some he
    have he' : e = (id, cb) := h.2.1 e hm (Or.inr (by omega))
    rw [he']
    exact Pend_fires s code id cb h

theorem Pend_completeAll (code : Int) (id : Nat) (cb : Cb) (items : List Nat) :
    ∀ s : Rpc, QuietFor s id → Pend s id cb →
      (cb.tag + 1 ∉ items → Pend (s.completeAll code items).1 id cb) ∧
      (cb.tag + 1 ∈ items → REv.fired cb.tag code ∈ (s.completeAll code items).2) := by
  induction items with
  | nil => intro s _ h; exact ⟨fun _ => h, fun hm => by simp at hm⟩
  | cons y ys ih =>
    intro s hq h
    simp only [Rpc.completeAll]
    by_cases hy : y = cb.tag + 1
    · subst hy
      refine ⟨fun hn => by simp at hn, fun _ => ?_⟩
      exact List.mem_append_left _ (Pend_expire_self s code id cb h)
    · have h' := Pend_expire_other s y code id cb hq h hy
      have hq' : QuietFor (s.expireOne y code).1 id := QuietFor_of_prog _ _ id (expireOne_prog s y code) hq
      have := ih _ hq' h'
      refine ⟨fun hn => this.1 (by simp at hn; exact hn.2), fun hm => ?_⟩
      have hm' : cb.tag + 1 ∈ ys := by
        rcases List.mem_cons.mp hm with e | e
        · exact absurd e.symm hy
        · exact e
      exact List.mem_append_right _ (this.2 hm')

theorem InSlot_adds (s s' : Rpc) (x m : Nat) (h : Adds s s') (hi : InSlot s.ring x m) : InSlot s'.ring x m :=
  Adds_pres (fun r => InSlot r x m) 0 (fun r y _ hr => InSlot_add r x m y hr) s s' h (Nat.zero_le _) hi

/-- no response in `ops` carries (after the getter) the id `id` -/
def NoResponseFor (id : Nat) (ops : List Op) : Prop :=
  ∀ rid code, Op.response rid code ∈ ops → respIdG true rid ≠ some (id : Int)

/-- one op that is neither a tick, nor `cleanup()`, nor a response for `id` keeps the request pending -/
theorem Pend_step (s : Rpc) (op : Op) (id : Nat) (cb : Cb) (hq : QuietFor s id) (ht : op ≠ .tick)
    (hc : op ≠ .cleanup) (hr : ∀ rid code, op = .response rid code → respIdG true rid ≠ some (id : Int))
    (h : Pend s id cb) : Pend (step s op).1 id cb := by
  have g := goodPend id cb
  cases op with
  | request c m =>
    show Pend (s.guardReq (s.request c m)).1 id cb
    rcases guardReq_cases' s (s.request c m) with ⟨_, hn, e⟩ | e <;> rw [e]
    · exact Pend_request s c m id cb hn h
    · exact h
  | notify m =>
    show Pend (s.guard (s, [.sent 0 m])).1 id cb
    rcases guard_cases s (s, [.sent 0 m]) with e | e <;> rw [e] <;> exact h
  | response rid code =>
    exact (g.respond s hq rid code (fun y hy e => hr rid code rfl (by rw [hy, e]))).2 h
  | tick => exact absurd rfl ht
  | apiRespond i code => exact (g.frame _ _ (apiRespond_frame s i code)).2 h
  | inRequest i m =>
    simp only [step]
    split
    · exact h
    · exact (g.onRequest s hq i m).2 h
  | stick => exact (g.frame s _ ⟨rfl, rfl, rfl, rfl, rfl, rfl, rfl, rfl, rfl, rfl, rfl⟩).2 h
  | setService m hh => exact (g.frame s _ ⟨rfl, rfl, rfl, rfl, rfl, rfl, rfl, rfl, rfl, rfl, rfl⟩).2 h
  | cleanup => exact absurd rfl hc

theorem Track_run (id : Nat) (cb : Cb) (ops : List Op) : ∀ (s : Rpc) (m : Nat), QuietFor s id →
    Pend s id cb → InSlot s.ring (cb.tag + 1) m → NoResponseFor id ops → NoCleanupOps ops → ticks ops = m →
    Pend (run s ops).1 id cb ∧ InSlot (run s ops).1.ring (cb.tag + 1) 0 := by
  induction ops with
  | nil => intro s m _ hp hi _ _ ht; simp [ticks] at ht; subst ht; exact ⟨hp, hi⟩
  | cons op ops ih =>
    intro s m hq hp hi hno hnc ht
    have hno' : NoResponseFor id ops := fun rid code hm => hno rid code (List.mem_cons_of_mem _ hm)
    have hnc' : NoCleanupOps ops := fun o ho => hnc o (List.mem_cons_of_mem _ ho)
    have hq' : QuietFor (step s op).1 id := QuietFor_of_prog _ _ id (step_prog s op) hq
    have hs : Safe s := QuietFor_safe s id hq
    simp only [run]
    by_cases hti : op = .tick
    · subst hti
      simp only [ticks] at ht
      subst ht
      have hne : s.ring ≠ [] := by
        obtain ⟨pre, slot, post, ho, _⟩ := hi
        intro e; rw [e] at ho; simp [order] at ho
      obtain ⟨hin, hnot⟩ := InSlot_swap_succ s (cb.tag + 1) (ticks ops) hi
      have hqa : QuietFor s.afterSwap id := hq
      have hp' : Pend s.tick.1 id cb := by
        rw [tick_eq s hne]
        exact (Pend_completeAll kRequestTimeout id cb s.nextItems s.afterSwap hqa hp).1 hnot
      exact ih _ _ hq' hp' (InSlot_adds _ _ (cb.tag + 1) _ (tick_adds s hs hne) hin) hno' hnc' rfl
    · have hcl : op ≠ .cleanup := hnc op (by simp)
      have ht' : ticks ops = m := by
        cases op <;> first | exact absurd rfl hti | simpa [ticks] using ht
      have hp' := Pend_step s op id cb hq hti hcl
        (fun rid code e => hno rid code (by rw [e]; simp)) hp
      exact ih _ _ hq' hp' (InSlot_adds _ _ (cb.tag + 1) m (step_nontick_adds s hs op hti hcl) hi) hno' hnc' ht'

theorem Track_run_le (id : Nat) (cb : Cb) (ops : List Op) : ∀ (s : Rpc) (m : Nat), QuietFor s id →
    Pend s id cb → InSlot s.ring (cb.tag + 1) m → NoResponseFor id ops → NoCleanupOps ops → ticks ops ≤ m →
    Pend (run s ops).1 id cb := by
  induction ops with
  | nil => intro s m _ hp _ _ _ _; exact hp
  | cons op ops ih =>
    intro s m hq hp hi hno hnc ht
    have hno' : NoResponseFor id ops := fun rid code hm => hno rid code (List.mem_cons_of_mem _ hm)
    have hnc' : NoCleanupOps ops := fun o ho => hnc o (List.mem_cons_of_mem _ ho)
    have hq' : QuietFor (step s op).1 id := QuietFor_of_prog _ _ id (step_prog s op) hq
    have hs : Safe s := QuietFor_safe s id hq
    simp only [run]
    by_cases hti : op = .tick
    · subst hti
      simp only [ticks] at ht
      obtain ⟨m', rfl⟩ : ∃ m', m = m' + 1 := ⟨m - 1, by omega⟩
      have hne : s.ring ≠ [] := by
        obtain ⟨pre, slot, post, ho, _⟩ := hi
        intro e; rw [e] at ho; simp [order] at ho
      obtain ⟨hin, hnot⟩ := InSlot_swap_succ s (cb.tag + 1) m' hi
      have hqa : QuietFor s.afterSwap id := hq
      have hp' : Pend s.tick.1 id cb := by
        rw [tick_eq s hne]
        exact (Pend_completeAll kRequestTimeout id cb s.nextItems s.afterSwap hqa hp).1 hnot
      exact ih _ m' hq' hp' (InSlot_adds _ _ (cb.tag + 1) _ (tick_adds s hs hne) hin) hno' hnc' (by omega)
    · have hcl : op ≠ .cleanup := hnc op (by simp)
      have ht' : ticks ops ≤ m := by
        cases op <;> first | exact absurd rfl hti | simpa [ticks] using ht
      have hp' := Pend_step s op id cb hq hti hcl
        (fun rid code e => hno rid code (by rw [e]; simp)) hp
      exact ih _ m hq' hp' (InSlot_adds _ _ (cb.tag + 1) m (step_nontick_adds s hs op hti hcl) hi) hno' hnc' ht'

/-- the tick that hands the id out completes the request with the timeout code -/
theorem Track_fire (s : Rpc) (id : Nat) (cb : Cb) (hq : QuietFor s id) (hp : Pend s id cb)
    (hi : InSlot s.ring (cb.tag + 1) 0) : REv.fired cb.tag kRequestTimeout ∈ s.tick.2 := by
  have hne : s.ring ≠ [] := by
    obtain ⟨pre, slot, post, ho, _⟩ := hi
    intro e; rw [e] at ho; simp [order] at ho
  rw [tick_eq s hne]
  exact (Pend_completeAll kRequestTimeout id cb s.nextItems s.afterSwap hq hp).2 (InSlot_swap_zero s (cb.tag + 1) hi)

/-! ### pending ⊆ ring, `value_number_` = ring size, timer enabled iff non-empty -/

/-- `todo` = tokens already swapped out of the ring by the running tick and not yet handled -/
def TInv (s : Rpc) (todo : List Nat) : Prop :=
  s.ring ≠ [] ∧ s.vn = s.ring.flatten.length ∧ (s.timerOn = true ↔ 0 < s.vn) ∧
  (∀ e ∈ s.pending, e.2.tag + 1 ∈ s.ring.flatten ∨ e.2.tag + 1 ∈ todo) ∧ RInv s

theorem RInv_of_Delta (s s' : Rpc) (evs : List REv) (hd : Delta s s' evs) (h : RInv s) : RInv s' := by
  intro u
  have h1 := hd.2 u
  have h2 := h u
  have hm := hd.1
  split at h1 <;> split at h2 <;> split <;> omega

theorem RInv_request (s : Rpc) (hinv : RInv s) (c m : Nat) : RInv (s.request c m).1 :=
  RInv_of_Delta _ _ _ (Delta_request s c m) hinv

theorem RInv_erase (s : Rpc) (k : Nat) (h : RInv s) : RInv { s with pending := pendingErase s.pending k } := by
  intro t
  have h1 := pendCount_erase_le t k s.pending
  have h2 := h t
  show pendCount t (pendingErase s.pending k) ≤ (if t < s.nTag then 1 else 0)
  omega

theorem flatten_addRing (ring : List (List Nat)) (y : Nat) (h : ring ≠ []) :
    (addRing ring y).flatten.length = ring.flatten.length + 1 ∧
    (∀ z, z ∈ ring.flatten → z ∈ (addRing ring y).flatten) ∧ y ∈ (addRing ring y).flatten := by
  cases ring with
  | nil => exact absurd rfl h
  | cons cur rest =>
    refine ⟨by simp [addRing]; omega, ?_, by simp [addRing]⟩
    intro z hz
    simp only [addRing, List.flatten_cons, List.mem_append] at hz ⊢
    rcases hz with hz | hz
    · exact Or.inl (Or.inl hz)
    · exact Or.inr hz

theorem mem_pendingErase (p : List (Nat × Cb)) (k : Nat) (e : Nat × Cb) (h : e ∈ pendingErase p k) :
    e ∈ p ∧ e.1 ≠ k := mem_of_mem_erase p k e h

theorem TInv_request (s : Rpc) (c m : Nat) (todo : List Nat) (h : TInv s todo) : TInv (s.request c m).1 todo := by
  obtain ⟨h1, h2, h3, h4, h5⟩ := h
  obtain ⟨r1, _, r3, _, r5, r6⟩ := request_fields s c m
  obtain ⟨f1, f2, f3⟩ := flatten_addRing s.ring (s.nTag + 1) h1
  refine ⟨by rw [r1]; exact addRing_ne _ _ h1, by rw [r5, r1, f1, h2], ?_, ?_, RInv_request s h5 c m⟩
  · rw [r5, r6]
    by_cases hv : s.vn = 0
    · simp [hv]
    · simp only [hv, if_false]; constructor
      · intro _; omega
      · intro _; exact h3.mpr (by omega)
  · intro e he
    rw [r3] at he
    rw [r1]
    rcases List.mem_append.mp he with he | he
    · rcases h4 e (mem_pendingErase _ _ _ he).1 with h | h
      · exact Or.inl (f2 _ h)
      · exact Or.inr h
    · simp at he; subst he; exact Or.inl f3

theorem TInv_erase (s : Rpc) (k : Nat) (todo : List Nat) (h : TInv s todo) :
    TInv { s with pending := pendingErase s.pending k } todo := by
  obtain ⟨h1, h2, h3, h4, h5⟩ := h
  exact ⟨h1, h2, h3, fun e he => h4 e (mem_pendingErase _ _ _ he).1, RInv_erase s k h5⟩

theorem TInv_frame (s s' : Rpc) (todo : List Nat) (hf : CFrame s s') (h : TInv s todo) : TInv s' todo := by
  obtain ⟨_, _, fn, fp, fr, fv, ft, _, _, _, _⟩ := hf
  unfold TInv RInv at h ⊢
  rw [fp, fr, fv, ft, fn]; exact h

theorem goodTInv : Good (fun a b => b.prog = a.prog ∧ ∀ todo, TInv a todo → TInv b todo) Act.noCleanup (fun _ => True) where
  refl := fun s => ⟨rfl, fun _ h => h⟩
  trans := fun a b c h1 h2 => ⟨h2.1.trans h1.1, fun t h => h2.2 t (h1.2 t h)⟩
  prog := fun _ _ h => h.1
  frame := fun s s' h => ⟨h.2.2.2.2.2.2.2.2.2.1, fun t ht => TInv_frame s s' t h ht⟩
  req := fun s c m _ _ => ⟨request_prog s c m, fun t h => TInv_request s c m t h⟩
  erase := fun s k _ => ⟨rfl, fun t h => TInv_erase s k t h⟩
  nc := fun a h => noCleanup_nc _ (fun _ => trivial) a h
  clean := fun _ h => absurd h (by simp [Act.noCleanup])

theorem TInv_complete (s : Rpc) (hs : Safe s) (y code : Int) (todo : List Nat) (h : TInv s todo) :
    TInv (s.complete y code).1 todo :=
  (goodTInv.complete s hs y code trivial).2 todo h

/-- once the entry carrying token `y` is gone, `y` leaves the to-do list -/
theorem TInv_drop (y : Nat) (todo : List Nat) (t : Rpc) (h : TInv t (y :: todo)) (hne : ∀ e ∈ t.pending, e.2.tag + 1 ≠ y) :
    TInv t todo := by
  obtain ⟨h1, h2, h3, h4, h5⟩ := h
  refine ⟨h1, h2, h3, fun e he => ?_, h5⟩
  rcases h4 e he with h | h
  · exact Or.inl h
  · rcases List.mem_cons.mp h with h | h
    · exact absurd h (hne e he)
    · exact Or.inr h

/-- the state right after the entry found by token `y` has been taken out of the table: no entry carries
`y` any more (tags are unique: `RInv`) -/
theorem TInv_expire_erased (s : Rpc) (y : Nat) (todo : List Nat) (h : TInv s (y :: todo)) (e : Nat × Cb)
    (hm : e ∈ s.pending) (htag : e.2.tag + 1 = y) :
    TInv ({ s with pending := pendingErase s.pending e.1 } : Rpc) todo := by
  apply TInv_drop y todo _ (TInv_erase s e.1 _ h)
  intro e' hm' heq
  have hm'' : e' ∈ pendingErase s.pending e.1 := hm'
  have hle := pendCount_erase_mem e.2.tag e.1 e.2 s.pending hm
  have hr := h.2.2.2.2 e.2.tag
  have h0 : pendCount e.2.tag (pendingErase s.pending e.1) = 0 := by
    simp only [if_true] at hle
    split at hr <;> omega
  exact pendCount_zero_mem _ _ h0 e' hm'' (by omega)

/-- handling the head of the to-do list discharges it -/
theorem TInv_complete_head (s : Rpc) (hs : Safe s) (y : Nat) (code : Int) (todo : List Nat) (h : TInv s (y :: todo)) :
    TInv (s.expireOne y code).1 todo := by
  unfold Rpc.expireOne
  split
  · rename_i hnone
    apply TInv_drop y todo s h
    intro e hm heq
    have := List.find?_eq_none.mp hnone e hm
    simp [heq] at this
  · rename_i e he
    have hm := List.mem_of_find?_eq_some he
    have htag : e.2.tag + 1 = y := by simpa using List.find?_some he
    show TInv (Rpc.completeF (31 + 1) s (e.1 : Int) code).1 todo
    rw [Rpc.completeF]
    cases hfind : pendingFind s.pending (e.1 : Int) with
    | none => exact absurd rfl (pendingFind_none_mem _ _ hfind e hm)
    | some e1 =>
      obtain ⟨k, cb⟩ := e1
      simp only
      have hk : k = e.1 := Int.ofNat_inj.mp (pendingFind_mem _ _ _ _ hfind).2
      have h1 : TInv ({ s with pending := pendingErase s.pending k } : Rpc) todo := by
        rw [hk]; exact TInv_expire_erased s y todo h e hm htag
      exact (goodTInv.runActsF 31 0 _ (script_allowed Act.noCleanup s.prog hs cb.script)
        ({ s with pending := pendingErase s.pending k } : Rpc) hs).2 todo h1

theorem TInv_completeAll (code : Int) (items : List Nat) : ∀ (s : Rpc) (todo : List Nat), Safe s →
    TInv s (items ++ todo) → TInv (s.completeAll code items).1 todo := by
  induction items with
  | nil => intro s todo _ h; exact h
  | cons y ys ih =>
    intro s todo hs h
    simp only [Rpc.completeAll]
    exact ih _ todo (Safe_of_prog _ _ (expireOne_prog s y code) hs) (TInv_complete_head s hs y code (ys ++ todo) h)

theorem TInv_afterSwap (s : Rpc) (h : TInv s []) : TInv s.afterSwap (s.nextItems ++ []) := by
  obtain ⟨h1, h2, h3, h4, h5⟩ := h
  obtain ⟨_, o2⟩ := afterSwap_order s h1
  have hflat : (order s.ring).flatten = s.nextItems ++ s.afterSwap.ring.flatten := by
    rw [o2]; simp [Rpc.afterSwap]
  have hlen : s.ring.flatten.length = s.nextItems.length + s.afterSwap.ring.flatten.length := by
    have : (order s.ring).flatten.length = s.ring.flatten.length := by
      cases hr : s.ring with
      | nil => rfl
      | cons cur rest => simp [order]; omega
    rw [← this, hflat]; simp
  refine ⟨afterSwap_ring_ne s, ?_, ?_, ?_, h5⟩
  · show s.vn - s.nextItems.length = _
    omega
  · show (if s.vn - s.nextItems.length = 0 then false else s.timerOn) = true ↔ 0 < s.vn - s.nextItems.length
    by_cases hz : s.vn - s.nextItems.length = 0
    · simp [hz]
    · simp only [hz, if_false]; constructor
      · intro _; omega
      · intro _; exact h3.mpr (by omega)
  · intro e he
    have he' : e ∈ s.pending := he
    rcases h4 e he' with hm | hm
    · have := (mem_order (e.2.tag + 1) s.ring).mpr hm
      rw [hflat] at this
      rcases List.mem_append.mp this with h | h
      · exact Or.inr (by simp [h])
      · exact Or.inl h
    · simp at hm

theorem TInv_tick (s : Rpc) (hs : Safe s) (h : TInv s []) : TInv s.tick.1 [] := by
  rw [tick_eq s h.1]
  exact TInv_completeAll _ _ _ [] hs (TInv_afterSwap s h)

theorem TInv_step (s : Rpc) (hs : Safe s) (op : Op) (hc : op ≠ .cleanup) (h : TInv s []) : TInv (step s op).1 [] := by
  cases op with
  | request c m =>
    show TInv (s.guardReq (s.request c m)).1 []
    rcases guardReq_cases s (s.request c m) with e | e <;> rw [e]
    · exact TInv_request s c m [] h
    · exact h
  | notify m =>
    show TInv (s.guard (s, [.sent 0 m])).1 []
    rcases guard_cases s (s, [.sent 0 m]) with e | e <;> rw [e] <;> exact h
  | response rid code => exact (goodTInv.respond s hs rid code (fun _ _ => trivial)).2 [] h
  | tick => exact TInv_tick s hs h
  | apiRespond id code => exact TInv_frame _ _ [] (apiRespond_frame s id code) h
  | inRequest id m =>
    simp only [step]
    split
    · exact h
    · exact (goodTInv.onRequest s hs id m).2 [] h
  | stick => exact h
  | setService m hh => exact h
  | cleanup => exact absurd rfl hc

theorem TInv_run (ops : List Op) : ∀ s : Rpc, Safe s → NoCleanupOps ops → TInv s [] → TInv (run s ops).1 [] := by
  induction ops with
  | nil => intro s _ _ h; exact h
  | cons op ops ih =>
    intro s hs hnc h
    simp only [run]
    exact ih _ (Safe_of_prog _ _ (step_prog s op) hs) (fun o ho => hnc o (List.mem_cons_of_mem _ ho))
      (TInv_step s hs op (hnc op (by simp)) h)

theorem TInv_init (n : Nat) (h : 1 ≤ n) : TInv (Rpc.init n) [] := by
  refine ⟨?_, ?_, ?_, ?_, ?_⟩
  · simp [Rpc.init]; omega
  · simp [Rpc.init]
  · simp [Rpc.init]
  · simp [Rpc.init]
  · intro t; simp [Rpc.init, pendCount]

/-! ### the same invariant for every program — scripts that call `cleanup()` included -/

/-- cleaned up, or alive with the monitor invariant -/
def MInv (s : Rpc) (todo : List Nat) : Prop := Cleaned s ∨ (s.dead = false ∧ TInv s todo)

theorem request_dead (s : Rpc) (c m : Nat) : (s.request c m).1.dead = s.dead := by
  unfold Rpc.request Rpc.monitorAdd; simp only; split <;> rfl

theorem goodMInv : Good (fun a b => b.prog = a.prog ∧ ∀ todo, MInv a todo → MInv b todo) (fun _ => True) (fun _ => True) where
  refl := fun s => ⟨rfl, fun _ h => h⟩
  trans := fun a b c h1 h2 => ⟨h2.1.trans h1.1, fun t h => h2.2 t (h1.2 t h)⟩
  prog := fun _ _ h => h.1
  frame := fun s s' h => ⟨h.2.2.2.2.2.2.2.2.2.1, fun t ht => by
    have h' := h
    obtain ⟨_, _, _, fp, fr, fv, ft, _, _, _, fd⟩ := h'
    rcases ht with hc | ⟨hd, ht⟩
    · left; unfold Cleaned at hc ⊢; rw [fp, fr, fv, ft, fd]; exact hc
    · right; exact ⟨by rw [fd]; exact hd, TInv_frame s s' t h ht⟩⟩
  req := fun s c m hd _ => ⟨request_prog s c m, fun t h => by
    rcases h with hc | ⟨_, ht⟩
    · rw [hc.1] at hd; cases hd
    · exact Or.inr ⟨by rw [request_dead]; exact hd, TInv_request s c m t ht⟩⟩
  erase := fun s k _ => ⟨rfl, fun t h => by
    rcases h with hc | ⟨hd, ht⟩
    · left; obtain ⟨h1, h2, h3, h4, h5⟩ := hc
      exact ⟨h1, by show pendingErase s.pending k = []; rw [h2]; rfl, h3, h4, h5⟩
    · exact Or.inr ⟨hd, TInv_erase s k t ht⟩⟩
  nc := fun a _ => by cases a <;> simp [injectOk]
  clean := fun s _ _ => ⟨rfl, fun _ _ => Or.inl ⟨rfl, rfl, rfl, rfl, rfl⟩⟩

theorem complete_cleaned (s : Rpc) (h : Cleaned s) (y code : Int) : s.complete y code = (s, []) := by
  show Rpc.completeF (31 + 1) s y code = (s, [])
  rw [Rpc.completeF]
  have : pendingFind s.pending y = none := by rw [h.2.1]; rfl
  rw [this]

theorem expireOne_cleaned (s : Rpc) (h : Cleaned s) (y : Nat) (code : Int) : s.expireOne y code = (s, []) := by
  unfold Rpc.expireOne; rw [h.2.1]; rfl

theorem MInv_complete_head (s : Rpc) (y : Nat) (code : Int) (todo : List Nat) (h : MInv s (y :: todo)) :
    MInv (s.expireOne y code).1 todo := by
  rcases h with hc | ⟨hd, h⟩
  · rw [expireOne_cleaned s hc]; exact Or.inl hc
  unfold Rpc.expireOne
  split
  · rename_i hnone
    refine Or.inr ⟨hd, TInv_drop y todo s h ?_⟩
    intro e hm heq
    have := List.find?_eq_none.mp hnone e hm
    simp [heq] at this
  · rename_i e he
    have hm := List.mem_of_find?_eq_some he
    have htag : e.2.tag + 1 = y := by simpa using List.find?_some he
    show MInv (Rpc.completeF (31 + 1) s (e.1 : Int) code).1 todo
    rw [Rpc.completeF]
    cases hfind : pendingFind s.pending (e.1 : Int) with
    | none => exact absurd rfl (pendingFind_none_mem _ _ hfind e hm)
    | some e1 =>
      obtain ⟨k, cb⟩ := e1
      simp only
      have hk : k = e.1 := Int.ofNat_inj.mp (pendingFind_mem _ _ _ _ hfind).2
      have h1 : MInv ({ s with pending := pendingErase s.pending k } : Rpc) todo := by
        rw [hk]; exact Or.inr ⟨hd, TInv_expire_erased s y todo h e hm htag⟩
      exact (goodMInv.runActsF 31 0 _ (fun _ _ => trivial)
        ({ s with pending := pendingErase s.pending k } : Rpc) (progAll_true _)).2 todo h1

theorem MInv_completeAll (code : Int) (items : List Nat) : ∀ (s : Rpc) (todo : List Nat),
    MInv s (items ++ todo) → MInv (s.completeAll code items).1 todo := by
  induction items with
  | nil => intro s todo h; exact h
  | cons y ys ih =>
    intro s todo h
    simp only [Rpc.completeAll]
    exact ih _ todo (MInv_complete_head s y code (ys ++ todo) h)

theorem tick_cleaned (s : Rpc) (h : Cleaned s) : s.tick = (s, []) := by
  unfold Rpc.tick; rw [h.2.2.1]

theorem MInv_tick (s : Rpc) (h : MInv s []) : MInv s.tick.1 [] := by
  rcases h with hc | ⟨hd, h⟩
  · rw [tick_cleaned s hc]; exact Or.inl hc
  · rw [tick_eq s h.1]
    exact MInv_completeAll _ _ _ [] (Or.inr ⟨hd, TInv_afterSwap s h⟩)

theorem MInv_step (s : Rpc) (op : Op) (h : MInv s []) : MInv (step s op).1 [] := by
  have g := goodMInv
  have hp := progAll_true s.prog
  cases op with
  | request c m =>
    show MInv (s.guardReq (s.request c m)).1 []
    rcases guardReq_cases' s (s.request c m) with ⟨hd, hw, e⟩ | e <;> rw [e]
    · exact (g.req s c m hd hw).2 [] h
    · exact h
  | notify m =>
    show MInv (s.guard (s, [.sent 0 m])).1 []
    rcases guard_cases s (s, [.sent 0 m]) with e | e <;> rw [e] <;> exact h
  | response rid code => exact (g.respond s hp rid code (fun _ _ => trivial)).2 [] h
  | tick => exact MInv_tick s h
  | apiRespond id code => exact (g.frame _ _ (apiRespond_frame s id code)).2 [] h
  | inRequest id m =>
    simp only [step]
    split
    · exact h
    · exact (g.onRequest s hp id m).2 [] h
  | stick => exact (g.frame s _ ⟨rfl, rfl, rfl, rfl, rfl, rfl, rfl, rfl, rfl, rfl, rfl⟩).2 [] h
  | setService m hh => exact (g.frame s _ ⟨rfl, rfl, rfl, rfl, rfl, rfl, rfl, rfl, rfl, rfl, rfl⟩).2 [] h
  | cleanup =>
    show MInv (s.guard (s.cleanup, [])).1 []
    rcases guard_cases' s (s.cleanup, []) with ⟨hd, e⟩ | ⟨_, e⟩ <;> rw [e]
    · exact (g.clean s trivial hd).2 [] h
    · exact h

theorem MInv_run (ops : List Op) : ∀ s : Rpc, MInv s [] → MInv (run s ops).1 [] := by
  induction ops with
  | nil => intro s h; exact h
  | cons op ops ih => intro s h; simp only [run]; exact ih _ (MInv_step s op h)

theorem MInv_init (n : Nat) (h : 1 ≤ n) (p : Prog) : MInv ({ Rpc.init n with prog := p }) [] :=
  Or.inr ⟨rfl, TInv_init n h⟩

theorem MInv_monitored (s : Rpc) (h : MInv s []) : Monitored s ∧ (s.dead = true → Cleaned s) := by
  rcases h with hc | ⟨hd, h1, h2, h3, h4, _⟩
  · obtain ⟨c1, c2, c3, c4, c5⟩ := hc
    refine ⟨⟨by rw [c2]; simp, by rw [c3, c4]; rfl, by rw [c4, c5]; simp⟩, fun _ => ⟨c1, c2, c3, c4, c5⟩⟩
  · refine ⟨⟨fun e he => ?_, h2, h3⟩, fun hdd => by rw [hd] at hdd; cases hdd⟩
    rcases h4 e he with h | h
    · exact h
    · simp at h

/-! ### `cleanup()` from inside a script: the object is dead when the script returns -/

theorem goodDead : Good (fun a b => b.prog = a.prog ∧ (a.dead = true → b.dead = true)) (fun _ => True) (fun _ => True) where
  refl := fun s => ⟨rfl, fun h => h⟩
  trans := fun a b c h1 h2 => ⟨h2.1.trans h1.1, fun h => h2.2 (h1.2 h)⟩
  prog := fun _ _ h => h.1
  frame := fun s s' h => ⟨h.2.2.2.2.2.2.2.2.2.1, fun hd => by rw [h.2.2.2.2.2.2.2.2.2.2]; exact hd⟩
  req := fun s c m _ _ => ⟨request_prog s c m, fun hd => by rw [request_dead]; exact hd⟩
  erase := fun s k _ => ⟨rfl, fun h => h⟩
  nc := fun a _ => by cases a <;> simp [injectOk]
  clean := fun s _ _ => ⟨rfl, fun _ => rfl⟩

theorem runActsF_cleanup_dead (fuel : Nat) (cur : Int) : ∀ (as : List Act) (s : Rpc), Act.cleanup ∈ as →
    (runActsWith (Rpc.completeF fuel) cur s as).1.dead = true := by
  intro as
  induction as with
  | nil => intro s h; simp at h
  | cons a as ih =>
    intro s h
    simp only [runActsWith]
    by_cases ha : a = .cleanup
    · subst ha
      have hd : (doAct (Rpc.completeF fuel) cur s .cleanup).1.dead = true := by
        show (s.guard (s.cleanup, [])).1.dead = true
        rcases guard_cases' s (s.cleanup, []) with ⟨_, e⟩ | ⟨hd, e⟩ <;> rw [e]
        · rfl
        · exact hd
      exact (goodDead.runActsF fuel cur as (fun _ _ => trivial) _ (progAll_true _)).2 hd
    · rcases List.mem_cons.mp h with h | h
      · exact absurd h.symm ha
      · exact ih _ h

/-! ### once cleaned up, nothing ever fires -/

theorem Cleaned_step (s : Rpc) (op : Op) (h : Cleaned s) :
    Cleaned (step s op).1 ∧ ∀ t, firedCount t (step s op).2 = 0 := by
  have hd := h.1
  have keep : ∀ s' : Rpc, CFrame s s' → Cleaned s' := by
    intro s' hf
    obtain ⟨_, _, _, fp, fr, fv, ft, _, _, _, fd⟩ := hf
    unfold Cleaned at h ⊢; rw [fp, fr, fv, ft, fd]; exact h
  cases op with
  | request c m => simp [step, Rpc.guardReq, hd, h, firedCount]
  | notify m => simp [step, Rpc.guard, hd, h, firedCount]
  | response rid code =>
    simp only [step, Rpc.respond, Rpc.respondG]
    split
    · exact ⟨h, fun _ => rfl⟩
    · rw [complete_cleaned s h]; exact ⟨h, fun _ => rfl⟩
  | tick => simp only [step]; rw [tick_cleaned s h]; exact ⟨h, fun _ => rfl⟩
  | apiRespond id code =>
    refine ⟨keep _ (apiRespond_frame s id code), fun t => ?_⟩
    simp only [step, Rpc.apiRespond, hd]
    split <;> simp [firedCount]
  | inRequest id m => simp [step, hd, h, firedCount]
  | stick => exact ⟨keep _ ⟨rfl, rfl, rfl, rfl, rfl, rfl, rfl, rfl, rfl, rfl, rfl⟩, fun _ => rfl⟩
  | setService m hh => exact ⟨keep _ ⟨rfl, rfl, rfl, rfl, rfl, rfl, rfl, rfl, rfl, rfl, rfl⟩, fun _ => rfl⟩
  | cleanup => simp [step, Rpc.guard, hd, h, firedCount]

theorem Cleaned_run (ops : List Op) : ∀ s : Rpc, Cleaned s →
    Cleaned (run s ops).1 ∧ ∀ t, firedCount t (run s ops).2 = 0 := by
  induction ops with
  | nil => intro s h; exact ⟨h, fun _ => rfl⟩
  | cons op ops ih =>
    intro s h
    simp only [run]
    obtain ⟨h1, f1⟩ := Cleaned_step s op h
    obtain ⟨h2, f2⟩ := ih _ h1
    exact ⟨h2, fun t => by rw [firedCount_append, f1, f2]⟩

end Tbox.C14
