/- C14 — helper lemmas: the timeout ring (slot positions, expiry), pending ⊆ ring, timer on. -/
import TboxModel.C14.ProofsRpc
namespace Tbox.C14

/-! ### the two ring operations -/

/-- `TimeoutMonitor::add` on the ring: push to the current slot -/
def addRing (ring : List (List Nat)) (y : Nat) : List (List Nat) :=
  match ring with
  | [] => []
  | cur :: rest => (cur ++ [y]) :: rest

/-- the state right after `swap(tobe_handle, curr_item_->items)` and the `value_number_` update -/
def Rpc.afterSwap (s : Rpc) : Rpc :=
  { s with ring := [] :: (order s.ring).tail, vn := s.vn - s.nextItems.length,
           timerOn := if s.vn - s.nextItems.length = 0 then false else s.timerOn }

theorem monitorAdd_fields (s : Rpc) (id : Nat) :
    (s.monitorAdd id).ring = addRing s.ring id ∧ (s.monitorAdd id).idAlloc = s.idAlloc ∧
    (s.monitorAdd id).pending = s.pending ∧ (s.monitorAdd id).nTag = s.nTag ∧
    (s.monitorAdd id).vn = s.vn + 1 ∧
    (s.monitorAdd id).timerOn = (if s.vn = 0 then true else s.timerOn) := by
  unfold Rpc.monitorAdd addRing
  simp only
  cases s.ring <;> split <;> simp

theorem tick_eq (s : Rpc) (h : s.ring ≠ []) :
    s.tick = Rpc.completeAll s.afterSwap kRequestTimeout s.nextItems := by
  cases hr : s.ring with
  | nil => exact absurd hr h
  | cons cur rest =>
    cases ho : rest ++ [cur] with
    | nil => simp at ho
    | cons items others =>
      unfold Rpc.tick
      simp only [hr, ho, Rpc.afterSwap, Rpc.nextItems, order, List.headD_cons, List.tail_cons]

theorem request_fields (s : Rpc) (c m : Nat) :
    (s.request c m).1.ring = addRing s.ring (s.idAlloc + 1) ∧ (s.request c m).1.idAlloc = s.idAlloc + 1 ∧
    (s.request c m).1.pending = pendingErase s.pending (s.idAlloc + 1) ++ [(s.idAlloc + 1, { tag := s.nTag, script := c })] ∧
    (s.request c m).1.nTag = s.nTag + 1 ∧ (s.request c m).1.vn = s.vn + 1 ∧
    (s.request c m).1.timerOn = (if s.vn = 0 then true else s.timerOn) := by
  unfold Rpc.request
  simp only
  have := monitorAdd_fields
    { s with idAlloc := s.idAlloc + 1, nTag := s.nTag + 1,
             pending := pendingErase s.pending (s.idAlloc + 1) ++ [(s.idAlloc + 1, { tag := s.nTag, script := c })] }
    (s.idAlloc + 1)
  simpa using this

/-- no callback script of the object's program calls `cleanup()` -/
abbrev Safe (s : Rpc) : Prop := ProgAll Act.noCleanup s.prog

theorem Safe_of_prog (s s' : Rpc) (h : s'.prog = s.prog) (hs : Safe s) : Safe s' := by
  unfold Safe; rw [h]; exact hs

theorem noCleanup_nc (okId : Int → Prop) (hall : ∀ y, okId y) (a : Act) (_h : a.noCleanup) :
    injectOk okId a := by
  cases a <;> simp_all [injectOk]

/-! ### "only fresh ids are added" -/

def Adds (s s' : Rpc) : Prop :=
  s.idAlloc ≤ s'.idAlloc ∧
  ∃ ys : List Nat, s'.ring = ys.foldl addRing s.ring ∧ ∀ y ∈ ys, s.idAlloc < y ∧ y ≤ s'.idAlloc

theorem Adds_refl (s : Rpc) : Adds s s := ⟨Nat.le_refl _, [], rfl, by simp⟩

theorem Adds_of_eq (s s' : Rpc) (h1 : s'.ring = s.ring) (h2 : s'.idAlloc = s.idAlloc) : Adds s s' :=
  ⟨by omega, [], by simp [h1], by simp⟩

theorem Adds_trans (a b c : Rpc) (h1 : Adds a b) (h2 : Adds b c) : Adds a c := by
  obtain ⟨m1, ys1, r1, b1⟩ := h1
  obtain ⟨m2, ys2, r2, b2⟩ := h2
  refine ⟨by omega, ys1 ++ ys2, by rw [r2, r1, List.foldl_append], ?_⟩
  intro y hy
  rcases List.mem_append.mp hy with hy | hy
  · have := b1 y hy; omega
  · have := b2 y hy; omega

theorem Adds_request (s : Rpc) (c m : Nat) : Adds s (s.request c m).1 := by
  obtain ⟨hr, hi, _⟩ := request_fields s c m
  refine ⟨by omega, [s.idAlloc + 1], by simp [hr], ?_⟩
  intro y hy; simp at hy; omega

theorem Adds_frame (s s' : Rpc) (h : CFrame s s') : Adds s s' := Adds_of_eq _ _ h.2.2.2.2.1 h.2.1

theorem goodAdds : Good (fun a b => b.prog = a.prog ∧ Adds a b) Act.noCleanup (fun _ => True) where
  refl := fun s => ⟨rfl, Adds_refl s⟩
  trans := fun a b c h1 h2 => ⟨h2.1.trans h1.1, Adds_trans a b c h1.2 h2.2⟩
  prog := fun _ _ h => h.1
  frame := fun s s' h => ⟨h.2.2.2.2.2.2.2.2.2.1, Adds_frame s s' h⟩
  req := fun s c m _ _ => ⟨request_prog s c m, Adds_request s c m⟩
  erase := fun s k _ => ⟨rfl, Adds_of_eq _ _ rfl rfl⟩
  nc := fun a h => noCleanup_nc _ (fun _ => trivial) a h
  clean := fun _ h => absurd h (by simp [Act.noCleanup])

theorem Adds_complete (s : Rpc) (hs : Safe s) (id code : Int) : Adds s (s.complete id code).1 :=
  (goodAdds.complete s hs id code trivial).2

theorem Adds_completeAll (code : Int) (ids : List Nat) (s : Rpc) (hs : Safe s) : Adds s (s.completeAll code ids).1 :=
  (goodAdds.completeAll code ids s hs (fun _ _ => trivial)).2

theorem Adds_respond (s : Rpc) (hs : Safe s) (rid code : Int) : Adds s (s.respond rid code).1 :=
  (goodAdds.respond s hs rid code (fun _ _ => trivial)).2

theorem Adds_onRequest (s : Rpc) (hs : Safe s) (id : Int) (m : Nat) : Adds s (s.onRequest id m).1 :=
  (goodAdds.onRequest s hs id m).2

/-- a ring property kept by every addition of an id above `lo` is kept along `Adds` -/
theorem Adds_pres (P : List (List Nat) → Prop) (lo : Nat)
    (hP : ∀ r y, lo < y → P r → P (addRing r y)) (s s' : Rpc) (h : Adds s s') (hlo : lo ≤ s.idAlloc)
    (hs : P s.ring) : P s'.ring := by
  obtain ⟨_, ys, hr, hb⟩ := h
  rw [hr]
  clear hr
  have : ∀ (ys : List Nat) (r : List (List Nat)), (∀ y ∈ ys, lo < y) → P r → P (ys.foldl addRing r) := by
    intro ys
    induction ys with
    | nil => intro r _ h; exact h
    | cons y ys ih =>
      intro r hy h
      simp only [List.foldl_cons]
      exact ih _ (fun z hz => hy z (by simp [hz])) (hP r y (hy y (by simp)) h)
  exact this ys s.ring (fun y hy => by have := hb y hy; omega) hs

/-! ### positions in the ring -/

/-- `x` sits in the slot that the `(m+1)`-th coming tick hands out, and in none handed out earlier -/
def InSlot (ring : List (List Nat)) (x m : Nat) : Prop :=
  ∃ pre slot post, order ring = pre ++ slot :: post ∧ pre.length = m ∧ x ∈ slot ∧ x ∉ pre.flatten

/-- occurrences of `x` in the whole ring -/
def cnt (x : Nat) (ring : List (List Nat)) : Nat := ring.flatten.count x

theorem cnt_order (x : Nat) (ring : List (List Nat)) : (order ring).flatten.count x = cnt x ring := by
  cases ring with
  | nil => rfl
  | cons cur rest => simp [order, cnt, List.count_append]; omega

theorem mem_order (x : Nat) (ring : List (List Nat)) : x ∈ (order ring).flatten ↔ x ∈ ring.flatten := by
  cases ring with
  | nil => simp [order]
  | cons cur rest => simp [order]; constructor <;> (intro h; rcases h with h | h <;> simp [h])

theorem cnt_add (x y : Nat) (ring : List (List Nat)) (h : y ≠ x) : cnt x (addRing ring y) = cnt x ring := by
  cases ring with
  | nil => rfl
  | cons cur rest => simp [addRing, cnt, List.count_append, List.count_cons, h]

theorem InSlot_add (ring : List (List Nat)) (x m y : Nat) (h : InSlot ring x m) :
    InSlot (addRing ring y) x m := by
  obtain ⟨pre, slot, post, ho, hl, hx, hn⟩ := h
  cases ring with
  | nil => simp [order] at ho
  | cons cur rest =>
    simp only [order] at ho
    rcases List.eq_nil_or_concat post with hp | ⟨post', l, hp⟩
    · subst hp
      obtain ⟨h1, h2⟩ := List.append_inj' ho (by simp)
      simp only [List.cons.injEq, and_true] at h2
      refine ⟨pre, slot ++ [y], [], ?_, hl, by simp [hx], hn⟩
      simp [addRing, order, h1, h2]
    · subst hp
      have ho' : rest ++ [cur] = (pre ++ slot :: post') ++ [l] := by simpa using ho
      obtain ⟨h1, h2⟩ := List.append_inj' ho' (by simp)
      simp only [List.cons.injEq, and_true] at h2
      refine ⟨pre, slot, post' ++ [l ++ [y]], ?_, hl, hx, hn⟩
      simp [addRing, order, h1, h2]

theorem afterSwap_order (s : Rpc) (h : s.ring ≠ []) :
    order s.afterSwap.ring = (order s.ring).tail ++ [[]] ∧
    order s.ring = s.nextItems :: (order s.ring).tail := by
  cases hr : s.ring with
  | nil => exact absurd hr h
  | cons cur rest =>
    cases ho : rest ++ [cur] with
    | nil => simp at ho
    | cons items others => simp [Rpc.afterSwap, Rpc.nextItems, order, hr, ho]

theorem InSlot_swap_succ (s : Rpc) (x m : Nat) (h : InSlot s.ring x (m + 1)) :
    InSlot s.afterSwap.ring x m ∧ x ∉ s.nextItems := by
  obtain ⟨pre, slot, post, ho, hl, hx, hn⟩ := h
  have hne : s.ring ≠ [] := by intro e; rw [e] at ho; simp [order] at ho
  obtain ⟨h1, h2⟩ := afterSwap_order s hne
  cases pre with
  | nil => simp at hl
  | cons p0 pre' =>
    rw [ho] at h2
    simp only [List.cons_append, List.cons.injEq] at h2
    simp only [List.flatten_cons, List.mem_append, not_or] at hn
    refine ⟨⟨pre', slot, post ++ [[]], ?_, by simpa using hl, hx, hn.2⟩, by rw [← h2.1]; exact hn.1⟩
    rw [h1, ho]; simp

theorem InSlot_swap_zero (s : Rpc) (x : Nat) (h : InSlot s.ring x 0) : x ∈ s.nextItems := by
  obtain ⟨pre, slot, post, ho, hl, hx, _⟩ := h
  have hne : s.ring ≠ [] := by intro e; rw [e] at ho; simp [order] at ho
  obtain ⟨_, h2⟩ := afterSwap_order s hne
  have : pre = [] := List.eq_nil_of_length_eq_zero hl
  subst this
  rw [ho] at h2
  simp only [List.nil_append, List.cons.injEq] at h2
  rw [← h2.1]; exact hx

theorem cnt_afterSwap (s : Rpc) (x : Nat) (h : s.ring ≠ []) :
    cnt x s.afterSwap.ring + s.nextItems.count x = cnt x s.ring := by
  obtain ⟨h1, h2⟩ := afterSwap_order s h
  have a := cnt_order x s.afterSwap.ring
  have b := cnt_order x s.ring
  rw [h1] at a
  rw [h2] at b
  simp [List.count_append] at a b
  omega

theorem afterSwap_ring_ne (s : Rpc) : s.afterSwap.ring ≠ [] := by simp [Rpc.afterSwap]

theorem addRing_ne (r : List (List Nat)) (y : Nat) (h : r ≠ []) : addRing r y ≠ [] := by
  cases r with
  | nil => exact absurd rfl h
  | cons c rest => simp [addRing]

theorem Adds_ring_ne (s s' : Rpc) (h : Adds s s') (hr : s.ring ≠ []) : s'.ring ≠ [] :=
  Adds_pres (fun r => r ≠ []) 0 (fun r y _ hr => addRing_ne r y hr) s s' h (Nat.zero_le _) hr

/-! ### expiry of one id -/

def Live (s : Rpc) (x m : Nat) : Prop := x ≤ s.idAlloc ∧ InSlot s.ring x m ∧ cnt x s.ring = 1
def Gone (s : Rpc) (x : Nat) : Prop := x ≤ s.idAlloc ∧ s.ring ≠ [] ∧ cnt x s.ring = 0

theorem Live_adds (s s' : Rpc) (x m : Nat) (h : Adds s s') (hl : Live s x m) : Live s' x m := by
  obtain ⟨h1, h2, h3⟩ := hl
  have := Adds_pres (fun r => InSlot r x m ∧ cnt x r = 1) x
    (fun r y hy hr => ⟨InSlot_add r x m y hr.1, by rw [cnt_add x y r (by omega)]; exact hr.2⟩)
    s s' h h1 ⟨h2, h3⟩
  exact ⟨by have := h.1; omega, this.1, this.2⟩

theorem Gone_adds (s s' : Rpc) (x : Nat) (h : Adds s s') (hg : Gone s x) : Gone s' x := by
  obtain ⟨h1, h2, h3⟩ := hg
  have := Adds_pres (fun r => cnt x r = 0) x
    (fun r y hy hr => by rw [cnt_add x y r (by omega)]; exact hr) s s' h h1 h3
  exact ⟨by have := h.1; omega, Adds_ring_ne s s' h h2, this⟩

theorem step_nontick_adds (s : Rpc) (hs : Safe s) (op : Op) (h : op ≠ .tick) (hc : op ≠ .cleanup) :
    Adds s (step s op).1 := by
  cases op with
  | request c m =>
    show Adds s (s.guardReq (s.request c m)).1
    rcases guardReq_cases s (s.request c m) with e | e <;> rw [e]
    · exact Adds_request s c m
    · exact Adds_refl s
  | notify m =>
    show Adds s (s.guard (s, [.sent 0 m])).1
    rcases guard_cases s (s, [.sent 0 m]) with e | e <;> rw [e] <;> exact Adds_refl s
  | response id code => exact Adds_respond s hs id code
  | tick => exact absurd rfl h
  | apiRespond id code => exact Adds_frame _ _ (apiRespond_frame s id code)
  | inRequest id m =>
    simp only [step]
    split
    · exact Adds_refl s
    · exact Adds_onRequest s hs id m
  | stick => exact Adds_of_eq _ _ rfl rfl
  | setService m h => exact Adds_of_eq _ _ rfl rfl
  | cleanup => exact absurd rfl hc

theorem tick_adds (s : Rpc) (hs : Safe s) (h : s.ring ≠ []) : Adds s.afterSwap s.tick.1 := by
  rw [tick_eq s h]; exact Adds_completeAll _ _ _ hs

theorem Gone_tick (s : Rpc) (hs : Safe s) (x : Nat) (hg : Gone s x) : Gone s.tick.1 x ∧ s.nextItems.count x = 0 := by
  obtain ⟨h1, h2, h3⟩ := hg
  have hc := cnt_afterSwap s x h2
  refine ⟨Gone_adds _ _ x (tick_adds s hs h2) ⟨h1, afterSwap_ring_ne s, by omega⟩, by omega⟩

theorem runHanded_tick (s : Rpc) (ops : List Op) :
    runHanded s (.tick :: ops) = s.nextItems :: runHanded s.tick.1 ops := rfl

theorem runHanded_nontick (s : Rpc) (op : Op) (ops : List Op) (h : op ≠ .tick) :
    runHanded s (op :: ops) = runHanded (step s op).1 ops := by
  cases op with
  | tick => exact absurd rfl h
  | _ => rfl

theorem Gone_run (x : Nat) (ops : List Op) : ∀ (s : Rpc), Safe s → NoCleanupOps ops → Gone s x →
    ∀ (j : Nat) (items : List Nat), (runHanded s ops)[j]? = some items → items.count x = 0 := by
  induction ops with
  | nil => intro s _ _ _ j items h; simp [runHanded] at h
  | cons op ops ih =>
    intro s hs hnc hg j items h
    have hnc' : NoCleanupOps ops := fun o ho => hnc o (List.mem_cons_of_mem _ ho)
    have hs' : Safe (step s op).1 := Safe_of_prog _ _ (step_prog s op) hs
    by_cases ht : op = .tick
    · subst ht
      rw [runHanded_tick] at h
      obtain ⟨hg', hc⟩ := Gone_tick s hs x hg
      cases j with
      | zero => simp at h; rw [← h]; exact hc
      | succ j => rw [List.getElem?_cons_succ] at h; exact ih _ hs' hnc' hg' j items h
    · rw [runHanded_nontick s op ops ht] at h
      exact ih _ hs' hnc' (Gone_adds _ _ x (step_nontick_adds s hs op ht (hnc op (by simp))) hg) j items h

theorem Live_run (x : Nat) (ops : List Op) : ∀ (s : Rpc) (m : Nat), Safe s → NoCleanupOps ops → Live s x m →
    ∀ (j : Nat) (items : List Nat), (runHanded s ops)[j]? = some items →
      items.count x = if j = m then 1 else 0 := by
  induction ops with
  | nil => intro s m _ _ _ j items h; simp [runHanded] at h
  | cons op ops ih =>
    intro s m hs hnc hl j items h
    have hnc' : NoCleanupOps ops := fun o ho => hnc o (List.mem_cons_of_mem _ ho)
    have hs' : Safe (step s op).1 := Safe_of_prog _ _ (step_prog s op) hs
    by_cases ht : op = .tick
    · subst ht
      rw [runHanded_tick] at h
      obtain ⟨h1, h2, h3⟩ := hl
      have hne : s.ring ≠ [] := by
        obtain ⟨pre, slot, post, ho, _⟩ := h2
        intro e; rw [e] at ho; simp [order] at ho
      have hc := cnt_afterSwap s x hne
      cases m with
      | zero =>
        have hmem := InSlot_swap_zero s x h2
        have hpos : 0 < s.nextItems.count x := List.count_pos_iff.mpr hmem
        have hg : Gone s.tick.1 x :=
          Gone_adds _ _ x (tick_adds s hs hne) ⟨h1, afterSwap_ring_ne s, by omega⟩
        cases j with
        | zero => simp at h; rw [← h]; simp; omega
        | succ j =>
          rw [List.getElem?_cons_succ] at h
          rw [Gone_run x ops _ hs' hnc' hg j items h]; simp
      | succ m =>
        obtain ⟨hin, hnot⟩ := InSlot_swap_succ s x m h2
        have hz : s.nextItems.count x = 0 := List.count_eq_zero.mpr hnot
        have hl' : Live s.tick.1 x m :=
          Live_adds _ _ x m (tick_adds s hs hne) ⟨h1, hin, by omega⟩
        cases j with
        | zero => simp at h; rw [← h, hz]; simp
        | succ j =>
          rw [List.getElem?_cons_succ] at h
          rw [ih _ m hs' hnc' hl' j items h]; simp
    · rw [runHanded_nontick s op ops ht] at h
      exact ih _ m hs' hnc' (Live_adds _ _ x m (step_nontick_adds s hs op ht (hnc op (by simp))) hl) j items h

/-- a fresh request sits in the last slot of the order: `n` ticks to go -/
theorem Live_request (s : Rpc) (c m : Nat) (hr : s.ring ≠ []) (hf : ∀ y ∈ s.ring.flatten, y ≤ s.idAlloc) :
    Live (s.request c m).1 (s.idAlloc + 1) (s.ring.length - 1) := by
  obtain ⟨h1, h2, _⟩ := request_fields s c m
  cases hring : s.ring with
  | nil => exact absurd hring hr
  | cons cur rest =>
    have hfresh : ∀ l : List Nat, (∀ y ∈ l, y ≤ s.idAlloc) → s.idAlloc + 1 ∉ l := by
      intro l hl hm; have := hl _ hm; omega
    rw [hring] at hf
    refine ⟨by omega, ⟨rest, cur ++ [s.idAlloc + 1], [], ?_, by simp, by simp, ?_⟩, ?_⟩
    · rw [h1, hring]; rfl
    · apply hfresh; intro y hy; exact hf y (by simp [hy])
    · rw [h1, hring]
      have : cnt (s.idAlloc + 1) (cur :: rest) = 0 := by
        unfold cnt; exact List.count_eq_zero.mpr (hfresh _ hf)
      simp only [addRing, cnt, List.flatten_cons, List.count_append] at this ⊢
      simp; omega

/-! ### a pending request stays pending until its own completion -/

def Pend (s : Rpc) (id : Nat) (cb : Cb) : Prop :=
  pendingFind s.pending (id : Int) = some (id, cb) ∧ id ≤ s.idAlloc

theorem find_cons (e : Nat × Cb) (p : List (Nat × Cb)) (id : Int) :
    pendingFind (e :: p) id = if (e.1 : Int) = id then some e else pendingFind p id := by
  unfold pendingFind
  rw [List.find?_cons]
  by_cases h : (e.1 : Int) = id <;> simp [h]

theorem find_erase_ne (p : List (Nat × Cb)) (k id : Nat) (h : k ≠ id) :
    pendingFind (pendingErase p k) (id : Int) = pendingFind p (id : Int) := by
  induction p with
  | nil => rfl
  | cons e es ih =>
    rw [pendingErase_cons]
    by_cases hk : e.1 = k
    · have : ¬ ((e.1 : Int) = (id : Int)) := by rw [hk]; intro h'; exact h (Int.ofNat_inj.mp h')
      simp only [hk, if_true, find_cons]
      rw [hk] at this
      simp only [this, if_false]; exact ih
    · simp only [hk, if_false, find_cons, ih]

theorem find_erase_self (p : List (Nat × Cb)) (k : Nat) : pendingFind (pendingErase p k) (k : Int) = none := by
  induction p with
  | nil => rfl
  | cons e es ih =>
    rw [pendingErase_cons]
    by_cases hk : e.1 = k
    · simp only [hk, if_true]; exact ih
    · have : ¬ ((e.1 : Int) = (k : Int)) := by intro h'; exact hk (Int.ofNat_inj.mp h')
      simp only [hk, if_false, find_cons, this, ih]

theorem find_append (p q : List (Nat × Cb)) (id : Int) :
    pendingFind (p ++ q) id = (pendingFind p id).or (pendingFind q id) := by
  unfold pendingFind; exact List.find?_append

theorem Pend_request (s : Rpc) (c m : Nat) (id : Nat) (cb : Cb) (h : Pend s id cb) : Pend (s.request c m).1 id cb := by
  obtain ⟨_, h2, h3, _⟩ := request_fields s c m
  obtain ⟨hf, hi⟩ := h
  refine ⟨?_, by omega⟩
  rw [h3, find_append, find_erase_ne _ _ _ (by omega), hf]; rfl

theorem Pend_new (s : Rpc) (c m : Nat) :
    Pend (s.request c m).1 (s.idAlloc + 1) { tag := s.nTag, script := c } := by
  obtain ⟨_, h2, h3, _⟩ := request_fields s c m
  refine ⟨?_, by omega⟩
  rw [h3, find_append, find_erase_self, find_cons]; simp

/-- an act that neither calls `cleanup()` nor injects a response for `id` -/
def actOkFor (id : Nat) (a : Act) : Prop := a.noCleanup ∧ injectOk (fun y => y ≠ (id : Int)) a

/-- no callback script of the program injects a response for `id` (or calls `cleanup()`) -/
abbrev QuietFor (s : Rpc) (id : Nat) : Prop := ProgAll (actOkFor id) s.prog

theorem QuietFor_safe (s : Rpc) (id : Nat) (h : QuietFor s id) : Safe s :=
  ⟨fun sc hsc a ha => (h.1 sc hsc a ha).1, fun hd hh a ha => (h.2 hd hh a ha).1⟩

theorem QuietFor_of_prog (s s' : Rpc) (id : Nat) (h : s'.prog = s.prog) (hq : QuietFor s id) : QuietFor s' id := by
  unfold QuietFor; rw [h]; exact hq

theorem goodPend (id : Nat) (cb : Cb) :
    Good (fun a b => b.prog = a.prog ∧ (Pend a id cb → Pend b id cb)) (actOkFor id) (fun y => y ≠ (id : Int)) where
  refl := fun s => ⟨rfl, fun h => h⟩
  trans := fun a b c h1 h2 => ⟨h2.1.trans h1.1, fun h => h2.2 (h1.2 h)⟩
  prog := fun _ _ h => h.1
  frame := fun s s' h => ⟨h.2.2.2.2.2.2.2.2.2.1, fun hp => by
    unfold Pend at hp ⊢; rw [h.2.2.2.1, h.2.1]; exact hp⟩
  req := fun s c m _ _ => ⟨request_prog s c m, Pend_request s c m id cb⟩
  erase := fun s k hk => ⟨rfl, fun hp => by
    have hne : k ≠ id := fun e => hk (by rw [e])
    exact ⟨by simp only; rw [find_erase_ne _ _ _ hne]; exact hp.1, hp.2⟩⟩
  nc := fun a h => by
    cases a <;> simp_all [actOkFor, Act.noCleanup, injectOk]
  clean := fun _ h => absurd h.1 (by simp [Act.noCleanup])

theorem Pend_complete (s : Rpc) (y code : Int) (id : Nat) (cb : Cb) (hq : QuietFor s id) (h : Pend s id cb)
    (hy : y ≠ (id : Int)) : Pend (s.complete y code).1 id cb :=
  ((goodPend id cb).complete s hq y code hy).2 h

theorem Pend_fires (s : Rpc) (code : Int) (id : Nat) (cb : Cb) (h : Pend s id cb) :
    REv.fired cb.tag code ∈ (s.complete (id : Int) code).2 := by
  simp [Rpc.complete, maxDepth, Rpc.completeF, h.1]

theorem Pend_completeAll (code : Int) (id : Nat) (cb : Cb) (items : List Nat) :
    ∀ s : Rpc, QuietFor s id → Pend s id cb →
      (id ∉ items → Pend (s.completeAll code items).1 id cb) ∧
      (id ∈ items → REv.fired cb.tag code ∈ (s.completeAll code items).2) := by
  induction items with
  | nil => intro s _ h; exact ⟨fun _ => h, fun hm => by simp at hm⟩
  | cons y ys ih =>
    intro s hq h
    simp only [Rpc.completeAll]
    by_cases hy : y = id
    · subst hy
      refine ⟨fun hn => by simp at hn, fun _ => ?_⟩
      exact List.mem_append_left _ (Pend_fires s code y cb h)
    · have hyi : (y : Int) ≠ (id : Int) := by intro e; exact hy (Int.ofNat_inj.mp e)
      have h' := Pend_complete s y code id cb hq h hyi
      have hq' : QuietFor (s.complete y code).1 id := QuietFor_of_prog _ _ id (complete_prog s y code) hq
      have := ih _ hq' h'
      refine ⟨fun hn => this.1 (by simp at hn; exact hn.2), fun hm => ?_⟩
      have hm' : id ∈ ys := by
        rcases List.mem_cons.mp hm with e | e
        · exact absurd e.symm hy
        · exact e
      exact List.mem_append_right _ (this.2 hm')

theorem InSlot_adds (s s' : Rpc) (x m : Nat) (h : Adds s s') (hi : InSlot s.ring x m) : InSlot s'.ring x m :=
  Adds_pres (fun r => InSlot r x m) 0 (fun r y _ hr => InSlot_add r x m y hr) s s' h (Nat.zero_le _) hi

/-- no response in `ops` carries (after the getter) the id `id` -/
def NoResponseFor (id : Nat) (ops : List Op) : Prop :=
  ∀ rid code, Op.response rid code ∈ ops → respIdG true rid ≠ some (id : Int)

/-- one op that is neither a tick, nor `cleanup()`, nor a response for `id` keeps the request pending -/
theorem Pend_step (s : Rpc) (op : Op) (id : Nat) (cb : Cb) (hq : QuietFor s id) (ht : op ≠ .tick)
    (hc : op ≠ .cleanup) (hr : ∀ rid code, op = .response rid code → respIdG true rid ≠ some (id : Int))
    (h : Pend s id cb) : Pend (step s op).1 id cb := by
  have g := goodPend id cb
  cases op with
  | request c m =>
    show Pend (s.guardReq (s.request c m)).1 id cb
    rcases guardReq_cases s (s.request c m) with e | e <;> rw [e]
    · exact Pend_request s c m id cb h
    · exact h
  | notify m =>
    show Pend (s.guard (s, [.sent 0 m])).1 id cb
    rcases guard_cases s (s, [.sent 0 m]) with e | e <;> rw [e] <;> exact h
  | response rid code =>
    exact (g.respond s hq rid code (fun y hy e => hr rid code rfl (by rw [hy, e]))).2 h
  | tick => exact absurd rfl ht
  | apiRespond i code => exact (g.frame _ _ (apiRespond_frame s i code)).2 h
  | inRequest i m =>
    simp only [step]
    split
    · exact h
    · exact (g.onRequest s hq i m).2 h
  | stick => exact (g.frame s _ ⟨rfl, rfl, rfl, rfl, rfl, rfl, rfl, rfl, rfl, rfl, rfl⟩).2 h
  | setService m hh => exact (g.frame s _ ⟨rfl, rfl, rfl, rfl, rfl, rfl, rfl, rfl, rfl, rfl, rfl⟩).2 h
  | cleanup => exact absurd rfl hc

theorem Track_run (id : Nat) (cb : Cb) (ops : List Op) : ∀ (s : Rpc) (m : Nat), QuietFor s id →
    Pend s id cb → InSlot s.ring id m → NoResponseFor id ops → NoCleanupOps ops → ticks ops = m →
    Pend (run s ops).1 id cb ∧ InSlot (run s ops).1.ring id 0 := by
  induction ops with
  | nil => intro s m _ hp hi _ _ ht; simp [ticks] at ht; subst ht; exact ⟨hp, hi⟩
  | cons op ops ih =>
    intro s m hq hp hi hno hnc ht
    have hno' : NoResponseFor id ops := fun rid code hm => hno rid code (List.mem_cons_of_mem _ hm)
    have hnc' : NoCleanupOps ops := fun o ho => hnc o (List.mem_cons_of_mem _ ho)
    have hq' : QuietFor (step s op).1 id := QuietFor_of_prog _ _ id (step_prog s op) hq
    have hs : Safe s := QuietFor_safe s id hq
    simp only [run]
    by_cases hti : op = .tick
    · subst hti
      simp only [ticks] at ht
      subst ht
      have hne : s.ring ≠ [] := by
        obtain ⟨pre, slot, post, ho, _⟩ := hi
        intro e; rw [e] at ho; simp [order] at ho
      obtain ⟨hin, hnot⟩ := InSlot_swap_succ s id (ticks ops) hi
      have hqa : QuietFor s.afterSwap id := hq
      have hp' : Pend s.tick.1 id cb := by
        rw [tick_eq s hne]
        exact (Pend_completeAll kRequestTimeout id cb s.nextItems s.afterSwap hqa hp).1 hnot
      exact ih _ _ hq' hp' (InSlot_adds _ _ id _ (tick_adds s hs hne) hin) hno' hnc' rfl
    · have hcl : op ≠ .cleanup := hnc op (by simp)
      have ht' : ticks ops = m := by
        cases op <;> first | exact absurd rfl hti | simpa [ticks] using ht
      have hp' := Pend_step s op id cb hq hti hcl
        (fun rid code e => hno rid code (by rw [e]; simp)) hp
      exact ih _ _ hq' hp' (InSlot_adds _ _ id m (step_nontick_adds s hs op hti hcl) hi) hno' hnc' ht'

theorem Track_run_le (id : Nat) (cb : Cb) (ops : List Op) : ∀ (s : Rpc) (m : Nat), QuietFor s id →
    Pend s id cb → InSlot s.ring id m → NoResponseFor id ops → NoCleanupOps ops → ticks ops ≤ m →
    Pend (run s ops).1 id cb := by
  induction ops with
  | nil => intro s m _ hp _ _ _ _; exact hp
  | cons op ops ih =>
    intro s m hq hp hi hno hnc ht
    have hno' : NoResponseFor id ops := fun rid code hm => hno rid code (List.mem_cons_of_mem _ hm)
    have hnc' : NoCleanupOps ops := fun o ho => hnc o (List.mem_cons_of_mem _ ho)
    have hq' : QuietFor (step s op).1 id := QuietFor_of_prog _ _ id (step_prog s op) hq
    have hs : Safe s := QuietFor_safe s id hq
    simp only [run]
    by_cases hti : op = .tick
    · subst hti
      simp only [ticks] at ht
      obtain ⟨m', rfl⟩ : ∃ m', m = m' + 1 := ⟨m - 1, by omega⟩
      have hne : s.ring ≠ [] := by
        obtain ⟨pre, slot, post, ho, _⟩ := hi
        intro e; rw [e] at ho; simp [order] at ho
      obtain ⟨hin, hnot⟩ := InSlot_swap_succ s id m' hi
      have hqa : QuietFor s.afterSwap id := hq
      have hp' : Pend s.tick.1 id cb := by
        rw [tick_eq s hne]
        exact (Pend_completeAll kRequestTimeout id cb s.nextItems s.afterSwap hqa hp).1 hnot
      exact ih _ m' hq' hp' (InSlot_adds _ _ id _ (tick_adds s hs hne) hin) hno' hnc' (by omega)
    · have hcl : op ≠ .cleanup := hnc op (by simp)
      have ht' : ticks ops ≤ m := by
        cases op <;> first | exact absurd rfl hti | simpa [ticks] using ht
      have hp' := Pend_step s op id cb hq hti hcl
        (fun rid code e => hno rid code (by rw [e]; simp)) hp
      exact ih _ m hq' hp' (InSlot_adds _ _ id m (step_nontick_adds s hs op hti hcl) hi) hno' hnc' ht'

/-- the tick that hands the id out completes the request with the timeout code -/
theorem Track_fire (s : Rpc) (id : Nat) (cb : Cb) (hq : QuietFor s id) (hp : Pend s id cb)
    (hi : InSlot s.ring id 0) : REv.fired cb.tag kRequestTimeout ∈ s.tick.2 := by
  have hne : s.ring ≠ [] := by
    obtain ⟨pre, slot, post, ho, _⟩ := hi
    intro e; rw [e] at ho; simp [order] at ho
  rw [tick_eq s hne]
  exact (Pend_completeAll kRequestTimeout id cb s.nextItems s.afterSwap hq hp).2 (InSlot_swap_zero s id hi)

/-! ### pending ⊆ ring, `value_number_` = ring size, timer enabled iff non-empty -/

/-- `todo` = ids already swapped out of the ring by the running tick and not yet handled -/
def TInv (s : Rpc) (todo : List Nat) : Prop :=
  s.ring ≠ [] ∧ s.vn = s.ring.flatten.length ∧ (s.timerOn = true ↔ 0 < s.vn) ∧
  ∀ e ∈ s.pending, e.1 ∈ s.ring.flatten ∨ e.1 ∈ todo

theorem flatten_addRing (ring : List (List Nat)) (y : Nat) (h : ring ≠ []) :
    (addRing ring y).flatten.length = ring.flatten.length + 1 ∧
    (∀ z, z ∈ ring.flatten → z ∈ (addRing ring y).flatten) ∧ y ∈ (addRing ring y).flatten := by
  cases ring with
  | nil => exact absurd rfl h
  | cons cur rest =>
    refine ⟨by simp [addRing]; omega, ?_, by simp [addRing]⟩
    intro z hz
    simp only [addRing, List.flatten_cons, List.mem_append] at hz ⊢
    rcases hz with hz | hz
    · exact Or.inl (Or.inl hz)
    · exact Or.inr hz

theorem mem_pendingErase (p : List (Nat × Cb)) (k : Nat) (e : Nat × Cb) (h : e ∈ pendingErase p k) :
    e ∈ p ∧ e.1 ≠ k := by
  unfold pendingErase at h
  simpa using h

theorem TInv_request (s : Rpc) (c m : Nat) (todo : List Nat) (h : TInv s todo) : TInv (s.request c m).1 todo := by
  obtain ⟨h1, h2, h3, h4⟩ := h
  obtain ⟨r1, _, r3, _, r5, r6⟩ := request_fields s c m
  obtain ⟨f1, f2, f3⟩ := flatten_addRing s.ring (s.idAlloc + 1) h1
  refine ⟨by rw [r1]; exact addRing_ne _ _ h1, by rw [r5, r1, f1, h2], ?_, ?_⟩
  · rw [r5, r6]
    by_cases hv : s.vn = 0
    · simp [hv]
    · simp only [hv, if_false]; constructor
      · intro _; omega
      · intro _; exact h3.mpr (by omega)
  · intro e he
    rw [r3] at he
    rw [r1]
    rcases List.mem_append.mp he with he | he
    · rcases h4 e (mem_pendingErase _ _ _ he).1 with h | h
      · exact Or.inl (f2 _ h)
      · exact Or.inr h
    · simp at he; subst he; exact Or.inl f3

theorem TInv_erase (s : Rpc) (k : Nat) (todo : List Nat) (h : TInv s todo) :
    TInv { s with pending := pendingErase s.pending k } todo := by
  obtain ⟨h1, h2, h3, h4⟩ := h
  exact ⟨h1, h2, h3, fun e he => h4 e (mem_pendingErase _ _ _ he).1⟩

theorem TInv_frame (s s' : Rpc) (todo : List Nat) (hf : CFrame s s') (h : TInv s todo) : TInv s' todo := by
  obtain ⟨_, _, _, fp, fr, fv, ft, _, _, _, _⟩ := hf
  unfold TInv at h ⊢
  rw [fp, fr, fv, ft]; exact h

theorem goodTInv : Good (fun a b => b.prog = a.prog ∧ ∀ todo, TInv a todo → TInv b todo) Act.noCleanup (fun _ => True) where
  refl := fun s => ⟨rfl, fun _ h => h⟩
  trans := fun a b c h1 h2 => ⟨h2.1.trans h1.1, fun t h => h2.2 t (h1.2 t h)⟩
  prog := fun _ _ h => h.1
  frame := fun s s' h => ⟨h.2.2.2.2.2.2.2.2.2.1, fun t ht => TInv_frame s s' t h ht⟩
  req := fun s c m _ _ => ⟨request_prog s c m, fun t h => TInv_request s c m t h⟩
  erase := fun s k _ => ⟨rfl, fun t h => TInv_erase s k t h⟩
  nc := fun a h => noCleanup_nc _ (fun _ => trivial) a h
  clean := fun _ h => absurd h (by simp [Act.noCleanup])

theorem TInv_complete (s : Rpc) (hs : Safe s) (y code : Int) (todo : List Nat) (h : TInv s todo) :
    TInv (s.complete y code).1 todo :=
  (goodTInv.complete s hs y code trivial).2 todo h

/-- handling the head of the to-do list discharges it -/
theorem TInv_complete_head (s : Rpc) (hs : Safe s) (y : Nat) (code : Int) (todo : List Nat) (h : TInv s (y :: todo)) :
    TInv (s.complete (y : Int) code).1 todo := by
  have drop : ∀ (t : Rpc), TInv t (y :: todo) → (∀ e ∈ t.pending, e.1 ≠ y) → TInv t todo := by
    intro t ⟨h1, h2, h3, h4⟩ hne
    refine ⟨h1, h2, h3, fun e he => ?_⟩
    rcases h4 e he with h | h
    · exact Or.inl h
    · rcases List.mem_cons.mp h with h | h
      · exact absurd h (hne e he)
      · exact Or.inr h
  show TInv (Rpc.completeF (31 + 1) s (y : Int) code).1 todo
  rw [Rpc.completeF]
  cases hfind : pendingFind s.pending (y : Int) with
  | none =>
    apply drop s h
    intro e hm heq
    unfold pendingFind at hfind
    have := List.find?_eq_none.mp hfind e hm
    simp [heq] at this
  | some e =>
    obtain ⟨k, cb⟩ := e
    simp only
    have hk : k = y := Int.ofNat_inj.mp (pendingFind_mem _ _ _ _ hfind).2
    have h1 : TInv ({ s with pending := pendingErase s.pending k } : Rpc) todo := by
      apply drop _ (TInv_erase s k _ h)
      intro e hm
      rw [← hk]; exact (mem_pendingErase _ _ _ hm).2
    -- the script runs from the erased state
    exact (goodTInv.runActsF 31 0 _ (script_allowed Act.noCleanup s.prog hs cb.script)
      ({ s with pending := pendingErase s.pending k } : Rpc) hs).2 todo h1

theorem TInv_completeAll (code : Int) (items : List Nat) : ∀ (s : Rpc) (todo : List Nat), Safe s →
    TInv s (items ++ todo) → TInv (s.completeAll code items).1 todo := by
  induction items with
  | nil => intro s todo _ h; exact h
  | cons y ys ih =>
    intro s todo hs h
    simp only [Rpc.completeAll]
    exact ih _ todo (Safe_of_prog _ _ (complete_prog s y code) hs) (TInv_complete_head s hs y code (ys ++ todo) h)

theorem TInv_afterSwap (s : Rpc) (h : TInv s []) : TInv s.afterSwap (s.nextItems ++ []) := by
  obtain ⟨h1, h2, h3, h4⟩ := h
  obtain ⟨_, o2⟩ := afterSwap_order s h1
  have hflat : (order s.ring).flatten = s.nextItems ++ s.afterSwap.ring.flatten := by
    rw [o2]; simp [Rpc.afterSwap]
  have hlen : s.ring.flatten.length = s.nextItems.length + s.afterSwap.ring.flatten.length := by
    have : (order s.ring).flatten.length = s.ring.flatten.length := by
      cases hr : s.ring with
      | nil => rfl
      | cons cur rest => simp [order]; omega
    rw [← this, hflat]; simp
  refine ⟨afterSwap_ring_ne s, ?_, ?_, ?_⟩
  · show s.vn - s.nextItems.length = _
    omega
  · show (if s.vn - s.nextItems.length = 0 then false else s.timerOn) = true ↔ 0 < s.vn - s.nextItems.length
    by_cases hz : s.vn - s.nextItems.length = 0
    · simp [hz]
    · simp only [hz, if_false]; constructor
      · intro _; omega
      · intro _; exact h3.mpr (by omega)
  · intro e he
    have he' : e ∈ s.pending := he
    rcases h4 e he' with hm | hm
    · have := (mem_order e.1 s.ring).mpr hm
      rw [hflat] at this
      rcases List.mem_append.mp this with h | h
      · exact Or.inr (by simp [h])
      · exact Or.inl h
    · simp at hm

theorem TInv_tick (s : Rpc) (hs : Safe s) (h : TInv s []) : TInv s.tick.1 [] := by
  rw [tick_eq s h.1]
  exact TInv_completeAll _ _ _ [] hs (TInv_afterSwap s h)

theorem TInv_step (s : Rpc) (hs : Safe s) (op : Op) (hc : op ≠ .cleanup) (h : TInv s []) : TInv (step s op).1 [] := by
  cases op with
  | request c m =>
    show TInv (s.guardReq (s.request c m)).1 []
    rcases guardReq_cases s (s.request c m) with e | e <;> rw [e]
    · exact TInv_request s c m [] h
    · exact h
  | notify m =>
    show TInv (s.guard (s, [.sent 0 m])).1 []
    rcases guard_cases s (s, [.sent 0 m]) with e | e <;> rw [e] <;> exact h
  | response rid code => exact (goodTInv.respond s hs rid code (fun _ _ => trivial)).2 [] h
  | tick => exact TInv_tick s hs h
  | apiRespond id code => exact TInv_frame _ _ [] (apiRespond_frame s id code) h
  | inRequest id m =>
    simp only [step]
    split
    · exact h
    · exact (goodTInv.onRequest s hs id m).2 [] h
  | stick => exact h
  | setService m hh => exact h
  | cleanup => exact absurd rfl hc

theorem TInv_run (ops : List Op) : ∀ s : Rpc, Safe s → NoCleanupOps ops → TInv s [] → TInv (run s ops).1 [] := by
  induction ops with
  | nil => intro s _ _ h; exact h
  | cons op ops ih =>
    intro s hs hnc h
    simp only [run]
    exact ih _ (Safe_of_prog _ _ (step_prog s op) hs) (fun o ho => hnc o (List.mem_cons_of_mem _ ho))
      (TInv_step s hs op (hnc op (by simp)) h)

theorem TInv_init (n : Nat) (h : 1 ≤ n) : TInv (Rpc.init n) [] := by
  refine ⟨?_, ?_, ?_, ?_⟩
  · simp [Rpc.init]; omega
  · simp [Rpc.init]
  · simp [Rpc.init]
  · simp [Rpc.init]

/-! ### the same invariant for every program — scripts that call `cleanup()` included -/

/-- cleaned up, or alive with the monitor invariant -/
def MInv (s : Rpc) (todo : List Nat) : Prop := Cleaned s ∨ (s.dead = false ∧ TInv s todo)

theorem request_dead (s : Rpc) (c m : Nat) : (s.request c m).1.dead = s.dead := by
  unfold Rpc.request Rpc.monitorAdd; simp only; split <;> rfl

theorem goodMInv : Good (fun a b => b.prog = a.prog ∧ ∀ todo, MInv a todo → MInv b todo) (fun _ => True) (fun _ => True) where
  refl := fun s => ⟨rfl, fun _ h => h⟩
  trans := fun a b c h1 h2 => ⟨h2.1.trans h1.1, fun t h => h2.2 t (h1.2 t h)⟩
  prog := fun _ _ h => h.1
  frame := fun s s' h => ⟨h.2.2.2.2.2.2.2.2.2.1, fun t ht => by
    obtain ⟨_, _, _, fp, fr, fv, ft, _, _, _, fd⟩ := h
    rcases ht with hc | ⟨hd, ht⟩
    · left; unfold Cleaned at hc ⊢; rw [fp, fr, fv, ft, fd]; exact hc
    · right; refine ⟨by rw [fd]; exact hd, ?_⟩
      unfold TInv at ht ⊢; rw [fp, fr, fv, ft]; exact ht⟩
  req := fun s c m hd _ => ⟨request_prog s c m, fun t h => by
    rcases h with hc | ⟨_, ht⟩
    · rw [hc.1] at hd; cases hd
    · exact Or.inr ⟨by rw [request_dead]; exact hd, TInv_request s c m t ht⟩⟩
  erase := fun s k _ => ⟨rfl, fun t h => by
    rcases h with hc | ⟨hd, ht⟩
    · left; obtain ⟨h1, h2, h3, h4, h5⟩ := hc
      exact ⟨h1, by show pendingErase s.pending k = []; rw [h2]; rfl, h3, h4, h5⟩
    · exact Or.inr ⟨hd, TInv_erase s k t ht⟩⟩
  nc := fun a _ => by cases a <;> simp [injectOk]
  clean := fun s _ _ => ⟨rfl, fun _ _ => Or.inl ⟨rfl, rfl, rfl, rfl, rfl⟩⟩

theorem complete_cleaned (s : Rpc) (h : Cleaned s) (y code : Int) : s.complete y code = (s, []) := by
  show Rpc.completeF (31 + 1) s y code = (s, [])
  rw [Rpc.completeF]
  have : pendingFind s.pending y = none := by rw [h.2.1]; rfl
  rw [this]

theorem MInv_complete_head (s : Rpc) (y : Nat) (code : Int) (todo : List Nat) (h : MInv s (y :: todo)) :
    MInv (s.complete (y : Int) code).1 todo := by
  rcases h with hc | ⟨hd, h⟩
  · rw [complete_cleaned s hc]; exact Or.inl hc
  have drop : ∀ (t : Rpc), TInv t (y :: todo) → (∀ e ∈ t.pending, e.1 ≠ y) → TInv t todo := by
    intro t ⟨h1, h2, h3, h4⟩ hne
    refine ⟨h1, h2, h3, fun e he => ?_⟩
    rcases h4 e he with h | h
    · exact Or.inl h
    · rcases List.mem_cons.mp h with h | h
      · exact absurd h (hne e he)
      · exact Or.inr h
  show MInv (Rpc.completeF (31 + 1) s (y : Int) code).1 todo
  rw [Rpc.completeF]
  cases hfind : pendingFind s.pending (y : Int) with
  | none =>
    refine Or.inr ⟨hd, drop s h ?_⟩
    intro e hm heq
    unfold pendingFind at hfind
    have := List.find?_eq_none.mp hfind e hm
    simp [heq] at this
  | some e =>
    obtain ⟨k, cb⟩ := e
    simp only
    have hk : k = y := Int.ofNat_inj.mp (pendingFind_mem _ _ _ _ hfind).2
    have h1 : MInv ({ s with pending := pendingErase s.pending k } : Rpc) todo := by
      refine Or.inr ⟨hd, drop _ (TInv_erase s k _ h) ?_⟩
      intro e hm
      rw [← hk]; exact (mem_pendingErase _ _ _ hm).2
    exact (goodMInv.runActsF 31 0 _ (fun _ _ => trivial)
      ({ s with pending := pendingErase s.pending k } : Rpc) (progAll_true _)).2 todo h1

theorem MInv_completeAll (code : Int) (items : List Nat) : ∀ (s : Rpc) (todo : List Nat),
    MInv s (items ++ todo) → MInv (s.completeAll code items).1 todo := by
  induction items with
  | nil => intro s todo h; exact h
  | cons y ys ih =>
    intro s todo h
    simp only [Rpc.completeAll]
    exact ih _ todo (MInv_complete_head s y code (ys ++ todo) h)

theorem tick_cleaned (s : Rpc) (h : Cleaned s) : s.tick = (s, []) := by
  unfold Rpc.tick; rw [h.2.2.1]

theorem MInv_tick (s : Rpc) (h : MInv s []) : MInv s.tick.1 [] := by
  rcases h with hc | ⟨hd, h⟩
  · rw [tick_cleaned s hc]; exact Or.inl hc
  · rw [tick_eq s h.1]
    exact MInv_completeAll _ _ _ [] (Or.inr ⟨hd, TInv_afterSwap s h⟩)

theorem MInv_step (s : Rpc) (op : Op) (h : MInv s []) : MInv (step s op).1 [] := by
  have g := goodMInv
  have hp := progAll_true s.prog
  cases op with
  | request c m =>
    show MInv (s.guardReq (s.request c m)).1 []
    rcases guardReq_cases' s (s.request c m) with ⟨hd, hw, e⟩ | e <;> rw [e]
    · exact (g.req s c m hd hw).2 [] h
    · exact h
  | notify m =>
    show MInv (s.guard (s, [.sent 0 m])).1 []
    rcases guard_cases s (s, [.sent 0 m]) with e | e <;> rw [e] <;> exact h
  | response rid code => exact (g.respond s hp rid code (fun _ _ => trivial)).2 [] h
  | tick => exact MInv_tick s h
  | apiRespond id code => exact (g.frame _ _ (apiRespond_frame s id code)).2 [] h
  | inRequest id m =>
    simp only [step]
    split
    · exact h
    · exact (g.onRequest s hp id m).2 [] h
  | stick => exact (g.frame s _ ⟨rfl, rfl, rfl, rfl, rfl, rfl, rfl, rfl, rfl, rfl, rfl⟩).2 [] h
  | setService m hh => exact (g.frame s _ ⟨rfl, rfl, rfl, rfl, rfl, rfl, rfl, rfl, rfl, rfl, rfl⟩).2 [] h
  | cleanup =>
    show MInv (s.guard (s.cleanup, [])).1 []
    rcases guard_cases' s (s.cleanup, []) with ⟨hd, e⟩ | ⟨_, e⟩ <;> rw [e]
    · exact (g.clean s trivial hd).2 [] h
    · exact h

theorem MInv_run (ops : List Op) : ∀ s : Rpc, MInv s [] → MInv (run s ops).1 [] := by
  induction ops with
  | nil => intro s h; exact h
  | cons op ops ih => intro s h; simp only [run]; exact ih _ (MInv_step s op h)

theorem MInv_init (n : Nat) (h : 1 ≤ n) (p : Prog) : MInv ({ Rpc.init n with prog := p }) [] :=
  Or.inr ⟨rfl, TInv_init n h⟩

theorem MInv_monitored (s : Rpc) (h : MInv s []) : Monitored s ∧ (s.dead = true → Cleaned s) := by
  rcases h with hc | ⟨hd, h1, h2, h3, h4⟩
  · obtain ⟨c1, c2, c3, c4, c5⟩ := hc
    refine ⟨⟨by rw [c2]; simp, by rw [c3, c4]; rfl, by rw [c4, c5]; simp⟩, fun _ => ⟨c1, c2, c3, c4, c5⟩⟩
  · refine ⟨⟨fun e he => ?_, h2, h3⟩, fun hdd => by rw [hd] at hdd; cases hdd⟩
    rcases h4 e he with h | h
    · exact h
    · simp at h

/-! ### a completed id is not pending again: ids are never reused -/

def NotPend (id : Nat) (s : Rpc) : Prop := id ≤ s.idAlloc ∧ pendingFind s.pending (id : Int) = none

theorem find_erase_none (p : List (Nat × Cb)) (k id : Nat) (h : pendingFind p (id : Int) = none) :
    pendingFind (pendingErase p k) (id : Int) = none := by
  by_cases e : k = id
  · rw [e]; exact find_erase_self p id
  · rw [find_erase_ne _ _ _ e]; exact h

theorem goodNotPend (id : Nat) :
    Good (fun a b => b.prog = a.prog ∧ (NotPend id a → NotPend id b)) (fun _ => True) (fun _ => True) where
  refl := fun s => ⟨rfl, fun h => h⟩
  trans := fun a b c h1 h2 => ⟨h2.1.trans h1.1, fun h => h2.2 (h1.2 h)⟩
  prog := fun _ _ h => h.1
  frame := fun s s' h => ⟨h.2.2.2.2.2.2.2.2.2.1, fun hp => by
    unfold NotPend at hp ⊢; rw [h.2.2.2.1, h.2.1]; exact hp⟩
  req := fun s c m _ _ => ⟨request_prog s c m, fun hp => by
    obtain ⟨_, h2, h3, _⟩ := request_fields s c m
    refine ⟨by rw [h2]; have := hp.1; omega, ?_⟩
    rw [h3, find_append, find_erase_none _ _ _ hp.2, find_cons]
    have : ¬ (((s.idAlloc + 1 : Nat) : Int) = (id : Int)) := by
      intro e; have := Int.ofNat_inj.mp e; have := hp.1; omega
    rw [if_neg this]; rfl⟩
  erase := fun s k _ => ⟨rfl, fun hp => ⟨hp.1, find_erase_none _ _ _ hp.2⟩⟩
  nc := fun a _ => by cases a <;> simp [injectOk]
  clean := fun s _ _ => ⟨rfl, fun hp => ⟨hp.1, rfl⟩⟩

/-- after the completion of `id` — whatever its callback script does — `id` is not pending -/
theorem NotPend_complete (s : Rpc) (id : Nat) (code : Int) (hle : id ≤ s.idAlloc) :
    NotPend id (s.complete (id : Int) code).1 := by
  show NotPend id (Rpc.completeF (31 + 1) s (id : Int) code).1
  rw [Rpc.completeF]
  cases hfind : pendingFind s.pending (id : Int) with
  | none => exact ⟨hle, hfind⟩
  | some e =>
    obtain ⟨k, cb⟩ := e
    simp only
    have hk : k = id := Int.ofNat_inj.mp (pendingFind_mem _ _ _ _ hfind).2
    have h1 : NotPend id ({ s with pending := pendingErase s.pending k } : Rpc) :=
      ⟨hle, by show pendingFind (pendingErase s.pending k) (id : Int) = none; rw [hk]; exact find_erase_self _ _⟩
    exact ((goodNotPend id).runActsF 31 0 _ (fun _ _ => trivial)
      ({ s with pending := pendingErase s.pending k } : Rpc) (progAll_true _)).2 h1

/-! ### `cleanup()` from inside a script: the object is dead when the script returns -/

theorem goodDead : Good (fun a b => b.prog = a.prog ∧ (a.dead = true → b.dead = true)) (fun _ => True) (fun _ => True) where
  refl := fun s => ⟨rfl, fun h => h⟩
  trans := fun a b c h1 h2 => ⟨h2.1.trans h1.1, fun h => h2.2 (h1.2 h)⟩
  prog := fun _ _ h => h.1
  frame := fun s s' h => ⟨h.2.2.2.2.2.2.2.2.2.1, fun hd => by rw [h.2.2.2.2.2.2.2.2.2.2]; exact hd⟩
  req := fun s c m _ _ => ⟨request_prog s c m, fun hd => by rw [request_dead]; exact hd⟩
  erase := fun s k _ => ⟨rfl, fun h => h⟩
  nc := fun a _ => by cases a <;> simp [injectOk]
  clean := fun s _ _ => ⟨rfl, fun _ => rfl⟩

theorem runActsF_cleanup_dead (fuel : Nat) (cur : Int) : ∀ (as : List Act) (s : Rpc), Act.cleanup ∈ as →
    (runActsWith (Rpc.completeF fuel) cur s as).1.dead = true := by
  intro as
  induction as with
  | nil => intro s h; simp at h
  | cons a as ih =>
    intro s h
    simp only [runActsWith]
    by_cases ha : a = .cleanup
    · subst ha
      have hd : (doAct (Rpc.completeF fuel) cur s .cleanup).1.dead = true := by
        show (s.guard (s.cleanup, [])).1.dead = true
        rcases guard_cases' s (s.cleanup, []) with ⟨_, e⟩ | ⟨hd, e⟩ <;> rw [e]
        · rfl
        · exact hd
      exact (goodDead.runActsF fuel cur as (fun _ _ => trivial) _ (progAll_true _)).2 hd
    · rcases List.mem_cons.mp h with h | h
      · exact absurd h.symm ha
      · exact ih _ h

/-! ### once cleaned up, nothing ever fires -/

theorem Cleaned_step (s : Rpc) (op : Op) (h : Cleaned s) :
    Cleaned (step s op).1 ∧ ∀ t, firedCount t (step s op).2 = 0 := by
  have hd := h.1
  have keep : ∀ s' : Rpc, CFrame s s' → Cleaned s' := by
    intro s' hf
    obtain ⟨_, _, _, fp, fr, fv, ft, _, _, _, fd⟩ := hf
    unfold Cleaned at h ⊢; rw [fp, fr, fv, ft, fd]; exact h
  cases op with
  | request c m => simp [step, Rpc.guardReq, hd, h, firedCount]
  | notify m => simp [step, Rpc.guard, hd, h, firedCount]
  | response rid code =>
    simp only [step, Rpc.respond, Rpc.respondG]
    split
    · exact ⟨h, fun _ => rfl⟩
    · rw [complete_cleaned s h]; exact ⟨h, fun _ => rfl⟩
  | tick => simp only [step]; rw [tick_cleaned s h]; exact ⟨h, fun _ => rfl⟩
  | apiRespond id code =>
    refine ⟨keep _ (apiRespond_frame s id code), fun t => ?_⟩
    simp only [step, Rpc.apiRespond, hd]
    split <;> simp [firedCount]
  | inRequest id m => simp [step, hd, h, firedCount]
  | stick => exact ⟨keep _ ⟨rfl, rfl, rfl, rfl, rfl, rfl, rfl, rfl, rfl, rfl, rfl⟩, fun _ => rfl⟩
  | setService m hh => exact ⟨keep _ ⟨rfl, rfl, rfl, rfl, rfl, rfl, rfl, rfl, rfl, rfl, rfl⟩, fun _ => rfl⟩
  | cleanup => simp [step, Rpc.guard, hd, h, firedCount]

theorem Cleaned_run (ops : List Op) : ∀ s : Rpc, Cleaned s →
    Cleaned (run s ops).1 ∧ ∀ t, firedCount t (run s ops).2 = 0 := by
  induction ops with
  | nil => intro s h; exact ⟨h, fun _ => rfl⟩
  | cons op ops ih =>
    intro s h
    simp only [run]
    obtain ⟨h1, f1⟩ := Cleaned_step s op h
    obtain ⟨h2, f2⟩ := ih _ h1
    exact ⟨h2, fun t => by rw [firedCount_append, f1, f2]⟩

end Tbox.C14
