/- C14 — helper lemmas: pending-request map, callbacks fire at most once. -/
import TboxModel.C14.Spec
namespace Tbox.C14

/-- how often callback `t` ran in an event list -/
def firedCount (t : Nat) : List REv → Nat
  | [] => 0
  | .fired t' _ :: es => (if t' = t then 1 else 0) + firedCount t es
  | _ :: es => firedCount t es

theorem firedCount_append (t : Nat) (a b : List REv) :
    firedCount t (a ++ b) = firedCount t a + firedCount t b := by
  induction a with
  | nil => simp [firedCount]
  | cons e es ih => cases e <;> simp [firedCount, ih] <;> omega

/-- how often tag `t` is among the pending callbacks -/
def pendCount (t : Nat) : List (Nat × Cb) → Nat
  | [] => 0
  | e :: es => (if e.2.tag = t then 1 else 0) + pendCount t es

theorem pendCount_append (t : Nat) (a b : List (Nat × Cb)) :
    pendCount t (a ++ b) = pendCount t a + pendCount t b := by
  induction a with
  | nil => simp [pendCount]
  | cons e es ih => simp [pendCount, ih]; omega

theorem pendingErase_cons (e : Nat × Cb) (es : List (Nat × Cb)) (k : Nat) :
    pendingErase (e :: es) k = if e.1 = k then pendingErase es k else e :: pendingErase es k := by
  simp only [pendingErase, List.filter_cons]
  by_cases h : e.1 = k <;> simp [h]

theorem pendCount_erase_le (t k : Nat) (p : List (Nat × Cb)) :
    pendCount t (pendingErase p k) ≤ pendCount t p := by
  induction p with
  | nil => simp [pendCount, pendingErase]
  | cons e es ih =>
    rw [pendingErase_cons]
    split
    · simp only [pendCount]; omega
    · simp only [pendCount]; omega

theorem pendCount_erase_mem (t k : Nat) (cb : Cb) (p : List (Nat × Cb)) (h : (k, cb) ∈ p) :
    pendCount t (pendingErase p k) + (if cb.tag = t then 1 else 0) ≤ pendCount t p := by
  induction p with
  | nil => simp at h
  | cons e es ih =>
    rw [pendingErase_cons]
    rcases List.mem_cons.mp h with h | h
    · subst h
      have := pendCount_erase_le t k es
      simp only [if_true, pendCount]
      omega
    · have := ih h
      split
      · simp only [pendCount]; omega
      · simp only [pendCount]; omega

theorem pendingErase_comm (p : List (Nat × Cb)) (j k : Nat) :
    pendingErase (pendingErase p j) k = pendingErase (pendingErase p k) j := by
  simp [pendingErase, List.filter_filter, Bool.and_comm]

theorem pendingFind_mem (p : List (Nat × Cb)) (id : Int) (k : Nat) (cb : Cb)
    (h : pendingFind p id = some (k, cb)) : (k, cb) ∈ p ∧ (k : Int) = id := by
  unfold pendingFind at h
  have h1 := List.mem_of_find?_eq_some h
  have h2 := List.find?_some h
  simp at h2
  exact ⟨h1, h2⟩

/-! ### generic: properties of a library call that hold through every callback script -/

/-- `R` is kept by everything a callback script can do, hence by completions at any nesting depth -/
theorem runActs_rel (R : Rpc → Rpc → Prop) (hrefl : ∀ s, R s s) (htrans : ∀ a b c, R a b → R b c → R a c)
    (allowed : Act → Prop)
    (hact : ∀ (k : Rpc → Int → Int → Rpc × List REv), (∀ s id code, R s (k s id code).1) →
      ∀ cur s a, allowed a → R s (doAct k cur s a).1)
    (k : Rpc → Int → Int → Rpc × List REv) (hk : ∀ s id code, R s (k s id code).1) (cur : Int) :
    ∀ (as : List Act), (∀ a ∈ as, allowed a) → ∀ s, R s (runActsWith k cur s as).1 := by
  intro as
  induction as with
  | nil => intro _ s; exact hrefl s
  | cons a as ih =>
    intro hall s
    simp only [runActsWith]
    exact htrans _ _ _ (hact k hk cur s a (hall a (by simp))) (ih (fun b hb => hall b (by simp [hb])) _)

/-- all acts of all scripts of the program satisfy `allowed` -/
def ProgAll (allowed : Act → Prop) (p : Prog) : Prop :=
  (∀ sc ∈ p.cbs, ∀ a ∈ sc, allowed a) ∧ (∀ h ∈ p.hs, ∀ a ∈ h.acts, allowed a)

theorem getD_mem_or_nil {α} (l : List (List α)) (i : Nat) : l.getD i [] ∈ l ∨ l.getD i [] = [] := by
  rw [List.getD_eq_getElem?_getD]
  cases h : l[i]? with
  | none => right; rfl
  | some x => left; exact List.mem_of_getElem? h

theorem script_allowed (allowed : Act → Prop) (p : Prog) (h : ProgAll allowed p) (i : Nat) :
    ∀ a ∈ p.cbs.getD i [], allowed a := by
  rcases getD_mem_or_nil p.cbs i with hm | hn
  · exact h.1 _ hm
  · rw [hn]; intro a ha; simp at ha

/-- ids a nested (injected) response may carry, as far as the acts say -/
def injectOk (okId : Int → Prop) : Act → Prop
  | .inject rid _ => ∀ y, respIdG true rid = some y → okId y
  | _ => True

/-- … for relations that imply "same program", under a condition on the program's acts; `okId`
restricts the ids that are completed (at top level and by injected responses) -/
theorem completeF_rel (R : Rpc → Rpc → Prop) (hrefl : ∀ s, R s s) (htrans : ∀ a b c, R a b → R b c → R a c)
    (hprog : ∀ a b, R a b → b.prog = a.prog) (allowed : Act → Prop) (okId : Int → Prop)
    (hact : ∀ (k : Rpc → Int → Int → Rpc × List REv),
      (∀ s, ProgAll allowed s.prog → ∀ id code, okId id → R s (k s id code).1) →
      ∀ cur s a, ProgAll allowed s.prog → allowed a → R s (doAct k cur s a).1)
    (herase : ∀ s (k : Nat), okId (k : Int) → R s { s with pending := pendingErase s.pending k }) :
    ∀ (fuel : Nat) (s : Rpc), ProgAll allowed s.prog → ∀ id code, okId id → R s (Rpc.completeF fuel s id code).1 := by
  intro fuel
  induction fuel with
  | zero => intro s _ id code _; exact hrefl s
  | succ fuel ih =>
    intro s hp id code hid
    simp only [Rpc.completeF]
    cases hf : pendingFind s.pending id with
    | none => exact hrefl s
    | some e =>
      obtain ⟨k, cb⟩ := e
      simp only
      have hk : (k : Int) = id := by
        unfold pendingFind at hf
        have := List.find?_some hf
        simpa using this
      refine htrans _ _ _ (herase s k (by rw [hk]; exact hid)) ?_
      have key : ∀ (as : List Act), (∀ a ∈ as, allowed a) → ∀ t : Rpc, ProgAll allowed t.prog →
          R t (runActsWith (Rpc.completeF fuel) 0 t as).1 := by
        intro as
        induction as with
        | nil => intro _ t _; exact hrefl t
        | cons a as iha =>
          intro hall t ht
          simp only [runActsWith]
          have h1 := hact (Rpc.completeF fuel) ih 0 t a ht (hall a (by simp))
          have hp1 : ProgAll allowed (doAct (Rpc.completeF fuel) 0 t a).1.prog := by rw [hprog _ _ h1]; exact ht
          exact htrans _ _ _ h1 (iha (fun b hb => hall b (by simp [hb])) _ hp1)
      exact key _ (script_allowed allowed s.prog hp cb.script) _ hp

/-- the same for a whole script run at top nesting level (service handlers) -/
theorem runActs_rel' (R : Rpc → Rpc → Prop) (hrefl : ∀ s, R s s) (htrans : ∀ a b c, R a b → R b c → R a c)
    (hprog : ∀ a b, R a b → b.prog = a.prog) (allowed : Act → Prop) (okId : Int → Prop)
    (hact : ∀ (k : Rpc → Int → Int → Rpc × List REv),
      (∀ s, ProgAll allowed s.prog → ∀ id code, okId id → R s (k s id code).1) →
      ∀ cur s a, ProgAll allowed s.prog → allowed a → R s (doAct k cur s a).1)
    (herase : ∀ s (k : Nat), okId (k : Int) → R s { s with pending := pendingErase s.pending k }) (cur : Int) :
    ∀ (as : List Act), (∀ a ∈ as, allowed a) → ∀ t : Rpc, ProgAll allowed t.prog → R t (t.runActs cur as).1 := by
  have ih := completeF_rel R hrefl htrans hprog allowed okId hact herase maxDepth
  intro as
  induction as with
  | nil => intro _ t _; exact hrefl t
  | cons a as iha =>
    intro hall t ht
    simp only [Rpc.runActs, runActsWith]
    have h1 := hact (Rpc.completeF maxDepth) ih cur t a ht (hall a (by simp))
    have hp1 : ProgAll allowed (doAct (Rpc.completeF maxDepth) cur t a).1.prog := by rw [hprog _ _ h1]; exact ht
    exact htrans _ _ _ h1 (iha (fun b hb => hall b (by simp [hb])) _ hp1)

/-! ### acts that do not touch the client half -/

/-- `s'` differs from `s` at most in the server half / service table / dead flag -/
def CFrame (s s' : Rpc) : Prop :=
  s'.n = s.n ∧ s'.idAlloc = s.idAlloc ∧ s'.nTag = s.nTag ∧ s'.pending = s.pending ∧ s'.ring = s.ring ∧
  s'.vn = s.vn ∧ s'.timerOn = s.timerOn ∧ s'.now = s.now ∧ s'.due = s.due ∧ s'.prog = s.prog ∧ s'.dead = s.dead

theorem CFrame_refl (s : Rpc) : CFrame s s := ⟨rfl, rfl, rfl, rfl, rfl, rfl, rfl, rfl, rfl, rfl, rfl⟩

theorem apiRespond_frame (s : Rpc) (id code : Int) : CFrame s (s.apiRespond id code).1 := by
  unfold Rpc.apiRespond; split
  · exact CFrame_refl s
  · split <;> exact CFrame_refl s

theorem guard_cases (s : Rpc) (r : Rpc × List REv) : s.guard r = r ∨ s.guard r = (s, [.misuse]) := by
  unfold Rpc.guard; split <;> simp

theorem guardReq_cases (s : Rpc) (r : Rpc × List REv) : s.guardReq r = r ∨ s.guardReq r = (s, [.misuse]) := by
  unfold Rpc.guardReq; split <;> simp

theorem guardReq_cases' (s : Rpc) (r : Rpc × List REv) :
    (s.dead = false ∧ (∃ id, s.nextId = some id) ∧ s.guardReq r = r) ∨ (s.guardReq r = (s, [.misuse])) := by
  unfold Rpc.guardReq
  by_cases h2 : s.dead = true ∨ s.nextId = none
  · right; rw [if_pos h2]
  · left; rw [if_neg h2]
    refine ⟨by cases h : s.dead <;> simp_all, ?_, rfl⟩
    cases h : s.nextId with
    | none => exact absurd (Or.inr h) h2
    | some id => exact ⟨id, rfl⟩

/-! ### the id allocation loop -/

theorem nextIdF_spec : ∀ (fuel cur : Nat) (p : List (Nat × Cb)) (id : Nat), nextIdF fuel cur p = some id →
    pendingFind p (id : Int) = none ∧ 1 ≤ id ∧ id ≤ kIntMax := by
  intro fuel
  induction fuel with
  | zero => intro cur p id h; simp [nextIdF] at h
  | succ fuel ih =>
    intro cur p id h
    simp only [nextIdF] at h
    generalize hc : (if cur < kIntMax then cur + 1 else 1) = c at h
    have hcr : 1 ≤ c ∧ c ≤ kIntMax := by
      subst hc; split <;> simp [kIntMax] at * <;> omega
    by_cases hn : (pendingFind p (c : Int)).isSome = true
    · rw [if_pos hn] at h; exact ih _ p id h
    · rw [if_neg hn] at h
      simp only [Option.some.injEq] at h
      subst h
      exact ⟨by simpa using hn, hcr.1, hcr.2⟩

theorem nextId_spec (s : Rpc) (id : Nat) (h : s.nextId = some id) :
    pendingFind s.pending (id : Int) = none ∧ 1 ≤ id ∧ id ≤ kIntMax :=
  nextIdF_spec _ _ _ _ h

theorem pendingFind_none_mem (p : List (Nat × Cb)) (id : Nat) (h : pendingFind p (id : Int) = none) :
    ∀ e ∈ p, e.1 ≠ id := by
  intro e he heq
  unfold pendingFind at h
  have := List.find?_eq_none.mp h e he
  simp [heq] at this

theorem guard_cases' (s : Rpc) (r : Rpc × List REv) :
    (s.dead = false ∧ s.guard r = r) ∨ (s.dead = true ∧ s.guard r = (s, [.misuse])) := by
  unfold Rpc.guard; cases h : s.dead <;> simp

/-- the standard instance of `completeF_rel`: a relation implied by `CFrame`, kept by `request`
and by erasing a pending entry, over acts satisfying `allowed` (which excludes `cleanup`) -/
theorem frame_doAct (R : Rpc → Rpc → Prop) (hframe : ∀ s s', CFrame s s' → R s s')
    (hreq : ∀ s c m, s.dead = false → (∃ id, s.nextId = some id) → R s (s.request c m).1) (allowed : Act → Prop) (okId : Int → Prop)
    (hnc : ∀ a, allowed a → injectOk okId a) (hclean : ∀ s, allowed .cleanup → s.dead = false → R s s.cleanup)
    (k : Rpc → Int → Int → Rpc × List REv)
    (hk : ∀ s, ProgAll allowed s.prog → ∀ id code, okId id → R s (k s id code).1)
    (cur : Int) (s : Rpc) (a : Act) (hp : ProgAll allowed s.prog) (ha : allowed a) : R s (doAct k cur s a).1 := by
  cases a with
  | request cb m =>
    show R s (s.guardReq (s.request cb m)).1
    rcases guardReq_cases' s (s.request cb m) with ⟨hd, hw, h⟩ | h <;> rw [h]
    · exact hreq s cb m hd hw
    · exact hframe _ _ (CFrame_refl s)
  | notify m =>
    show R s (s.guard (s, [.sent 0 m])).1
    rcases guard_cases s (s, [.sent 0 m]) with h | h <;> rw [h] <;> exact hframe _ _ (CFrame_refl s)
  | respond id code => exact hframe _ _ (apiRespond_frame s id code)
  | respondCur code => exact hframe _ _ (apiRespond_frame s cur code)
  | inject rid code =>
    simp only [doAct]
    cases hr : respIdG true rid with
    | none => exact hframe _ _ (CFrame_refl s)
    | some y => exact hk s hp _ _ (hnc _ ha y hr)
  | setService m h => exact hframe _ _ (CFrame_refl s)
  | cleanup =>
    show R s (s.guard (s.cleanup, [])).1
    rcases guard_cases' s (s.cleanup, []) with ⟨hd, h⟩ | ⟨_, h⟩ <;> rw [h]
    · exact hclean s ha hd
    · exact hframe _ _ (CFrame_refl s)

/-- a relation between the states before and after a library call that is kept by everything a
callback script (whose acts satisfy `allowed`) can do -/
structure Good (R : Rpc → Rpc → Prop) (allowed : Act → Prop) (okId : Int → Prop) : Prop where
  refl : ∀ s, R s s
  trans : ∀ a b c, R a b → R b c → R a c
  prog : ∀ a b, R a b → b.prog = a.prog
  frame : ∀ s s', CFrame s s' → R s s'
  req : ∀ s c m, s.dead = false → (∃ id, s.nextId = some id) → R s (s.request c m).1
  erase : ∀ s (k : Nat), okId (k : Int) → R s { s with pending := pendingErase s.pending k }
  nc : ∀ a, allowed a → injectOk okId a
  clean : ∀ s, allowed .cleanup → s.dead = false → R s s.cleanup

theorem Good.completeF {R : Rpc → Rpc → Prop} {allowed : Act → Prop} {okId : Int → Prop} (g : Good R allowed okId)
    (fuel : Nat) (s : Rpc) (hp : ProgAll allowed s.prog) (id code : Int) (hid : okId id) :
    R s (Rpc.completeF fuel s id code).1 :=
  completeF_rel R g.refl g.trans g.prog allowed okId
    (fun k hk cur s a hp ha => frame_doAct R g.frame g.req allowed okId g.nc g.clean k hk cur s a hp ha) g.erase fuel s hp id code hid

theorem Good.complete {R : Rpc → Rpc → Prop} {allowed : Act → Prop} {okId : Int → Prop} (g : Good R allowed okId)
    (s : Rpc) (hp : ProgAll allowed s.prog) (id code : Int) (hid : okId id) : R s (s.complete id code).1 :=
  g.completeF maxDepth s hp id code hid

theorem Good.runActs {R : Rpc → Rpc → Prop} {allowed : Act → Prop} {okId : Int → Prop} (g : Good R allowed okId)
    (cur : Int) (as : List Act) (hall : ∀ a ∈ as, allowed a) (s : Rpc) (hp : ProgAll allowed s.prog) :
    R s (s.runActs cur as).1 :=
  runActs_rel' R g.refl g.trans g.prog allowed okId
    (fun k hk cur s a hp ha => frame_doAct R g.frame g.req allowed okId g.nc g.clean k hk cur s a hp ha) g.erase cur as hall s hp

theorem Good.runActsF {R : Rpc → Rpc → Prop} {allowed : Act → Prop} {okId : Int → Prop} (g : Good R allowed okId)
    (fuel : Nat) (cur : Int) : ∀ (as : List Act), (∀ a ∈ as, allowed a) → ∀ s : Rpc, ProgAll allowed s.prog →
      R s (runActsWith (Rpc.completeF fuel) cur s as).1 := by
  intro as
  induction as with
  | nil => intro _ t _; exact g.refl t
  | cons a as iha =>
    intro hall t ht
    simp only [runActsWith]
    have h1 := frame_doAct R g.frame g.req allowed okId g.nc g.clean (Rpc.completeF fuel)
      (fun s hp id code hid => g.completeF fuel s hp id code hid) cur t a ht (hall a (by simp))
    have hp1 : ProgAll allowed (doAct (Rpc.completeF fuel) cur t a).1.prog := by rw [g.prog _ _ h1]; exact ht
    exact g.trans _ _ _ h1 (iha (fun b hb => hall b (by simp [hb])) _ hp1)

theorem progAll_true (p : Prog) : ProgAll (fun _ => True) p := ⟨fun _ _ _ _ => trivial, fun _ _ _ _ => trivial⟩

theorem Good.expireOne {R : Rpc → Rpc → Prop} {allowed : Act → Prop} {okId : Int → Prop} (g : Good R allowed okId)
    (s : Rpc) (hp : ProgAll allowed s.prog) (seq : Nat) (code : Int) (hok : ∀ y, okId y) :
    R s (s.expireOne seq code).1 := by
  unfold Rpc.expireOne
  split
  · exact g.refl s
  · exact g.complete s hp _ code (hok _)

theorem Good.completeAll {R : Rpc → Rpc → Prop} {allowed : Act → Prop} {okId : Int → Prop} (g : Good R allowed okId)
    (code : Int) (ids : List Nat) : ∀ s : Rpc, ProgAll allowed s.prog → (∀ y, okId y) →
      R s (s.completeAll code ids).1 := by
  induction ids with
  | nil => intro s _ _; exact g.refl s
  | cons id ids ih =>
    intro s hp hok
    simp only [Rpc.completeAll]
    have h1 := g.expireOne s hp id code hok
    exact g.trans _ _ _ h1 (ih _ (by rw [g.prog _ _ h1]; exact hp) hok)

theorem Good.respond {R : Rpc → Rpc → Prop} {allowed : Act → Prop} {okId : Int → Prop} (g : Good R allowed okId)
    (s : Rpc) (hp : ProgAll allowed s.prog) (rid code : Int) (hid : ∀ y, respIdG true rid = some y → okId y) :
    R s (s.respond rid code).1 := by
  unfold Rpc.respond Rpc.respondG
  cases hr : respIdG true rid with
  | none => exact g.refl s
  | some y => exact g.complete s hp _ code (hid y hr)

theorem handler_mem (s : Rpc) (m h : Nat) (hd : Handler)
    (hl : (s.services.getD m none).bind (fun h => (s.prog.hs[h]?).map (fun hd => (h, hd))) = some (h, hd)) :
    hd ∈ s.prog.hs := by
  generalize s.services.getD m none = o at hl
  cases o with
  | none => simp at hl
  | some h' =>
    simp only [Option.bind_some, Option.map_eq_some_iff] at hl
    obtain ⟨a, ha, he⟩ := hl
    simp only [Prod.mk.injEq] at he
    rw [← he.2]; exact List.mem_of_getElem? ha

theorem Good.onRequest {R : Rpc → Rpc → Prop} {allowed : Act → Prop} {okId : Int → Prop} (g : Good R allowed okId) (s : Rpc)
    (hp : ProgAll allowed s.prog) (id : Int) (m : Nat) : R s (s.onRequest id m).1 := by
  unfold Rpc.onRequest
  split
  · exact g.refl s
  · rename_i h hd hl
    have hmem := handler_mem s m h hd hl
    have hall : ∀ a ∈ hd.acts, allowed a := hp.2 hd hmem
    split
    · simp only
      have h0 : R s ({ s with srv := s.srv.insert id } : Rpc) :=
        g.frame _ _ ⟨rfl, rfl, rfl, rfl, rfl, rfl, rfl, rfl, rfl, rfl, rfl⟩
      have h1 := g.runActs id hd.acts hall ({ s with srv := s.srv.insert id } : Rpc) hp
      have h01 := g.trans _ _ _ h0 h1
      split
      · exact h01
      · split
        · exact g.trans _ _ _ h01 (g.frame _ _ (apiRespond_frame _ id _))
        · exact g.trans _ _ _ h01 (g.frame _ _ ⟨rfl, rfl, rfl, rfl, rfl, rfl, rfl, rfl, rfl, rfl, rfl⟩)
    · exact g.runActs 0 hd.acts hall s hp

/-! ### the program never changes -/

theorem request_prog (s : Rpc) (c m : Nat) : (s.request c m).1.prog = s.prog := by
  unfold Rpc.request Rpc.monitorAdd; simp only; split <;> rfl

theorem doAct_prog (k : Rpc → Int → Int → Rpc × List REv) (hk : ∀ s id code, (k s id code).1.prog = s.prog)
    (cur : Int) (s : Rpc) (a : Act) : (doAct k cur s a).1.prog = s.prog := by
  cases a with
  | request cb m =>
    show (s.guardReq (s.request cb m)).1.prog = s.prog
    rcases guardReq_cases s (s.request cb m) with h | h <;> rw [h]
    · exact request_prog s cb m
  | notify m =>
    show (s.guard (s, [.sent 0 m])).1.prog = s.prog
    rcases guard_cases s (s, [.sent 0 m]) with h | h <;> rw [h]
  | respond id code => exact (apiRespond_frame s id code).2.2.2.2.2.2.2.2.2.1
  | respondCur code => exact (apiRespond_frame s cur code).2.2.2.2.2.2.2.2.2.1
  | inject rid code => simp only [doAct]; split; rfl; exact hk _ _ _
  | setService m h => rfl
  | cleanup =>
    show (s.guard (s.cleanup, [])).1.prog = s.prog
    rcases guard_cases s (s.cleanup, []) with h | h <;> rw [h] <;> rfl

theorem completeF_prog (fuel : Nat) (s : Rpc) (id code : Int) : (Rpc.completeF fuel s id code).1.prog = s.prog :=
  completeF_rel (fun a b => b.prog = a.prog) (fun _ => rfl) (fun _ _ _ h1 h2 => h2.trans h1) (fun _ _ h => h)
    (fun _ => True) (fun _ => True)
    (fun k hk cur s a _ _ => doAct_prog k (fun t id code => hk t ⟨fun _ _ _ _ => trivial, fun _ _ _ _ => trivial⟩ id code trivial) cur s a)
    (fun _ _ _ => rfl) fuel s ⟨fun _ _ _ _ => trivial, fun _ _ _ _ => trivial⟩ id code trivial

theorem runActs_prog (cur : Int) (s : Rpc) (as : List Act) : (s.runActs cur as).1.prog = s.prog := by
  unfold Rpc.runActs
  exact runActs_rel (fun a b => b.prog = a.prog) (fun _ => rfl) (fun _ _ _ h1 h2 => h2.trans h1) (fun _ => True)
    (fun k hk cur s a _ => doAct_prog k hk cur s a) _ (completeF_prog maxDepth) cur as (fun _ _ => trivial) s

theorem complete_prog (s : Rpc) (id code : Int) : (s.complete id code).1.prog = s.prog := completeF_prog _ s id code

theorem expireOne_prog (s : Rpc) (seq : Nat) (code : Int) : (s.expireOne seq code).1.prog = s.prog := by
  unfold Rpc.expireOne; split
  · rfl
  · exact complete_prog _ _ _

theorem completeAll_prog (code : Int) (ids : List Nat) : ∀ s : Rpc, (s.completeAll code ids).1.prog = s.prog := by
  induction ids with
  | nil => intro s; rfl
  | cons id ids ih => intro s; simp only [Rpc.completeAll]; rw [ih, expireOne_prog]

theorem tick_prog (s : Rpc) : s.tick.1.prog = s.prog := by
  unfold Rpc.tick
  split
  · rfl
  · split
    · rfl
    · rw [completeAll_prog]

theorem onRequest_prog (s : Rpc) (id : Int) (m : Nat) : (s.onRequest id m).1.prog = s.prog := by
  unfold Rpc.onRequest
  split
  · rfl
  · split
    · simp only
      split
      · rw [runActs_prog]
      · split
        · simp only [(apiRespond_frame _ _ _).2.2.2.2.2.2.2.2.2.1, runActs_prog]
        · simp [runActs_prog]
    · simp [runActs_prog]

theorem step_prog (s : Rpc) (op : Op) : (step s op).1.prog = s.prog := by
  cases op with
  | request c m =>
    show (s.guardReq (s.request c m)).1.prog = s.prog
    rcases guardReq_cases s (s.request c m) with h | h <;> rw [h]
    · exact request_prog s c m
  | notify m =>
    show (s.guard (s, [.sent 0 m])).1.prog = s.prog
    rcases guard_cases s (s, [.sent 0 m]) with h | h <;> rw [h]
  | response id code => simp only [step, Rpc.respond, Rpc.respondG]; split; rfl; exact complete_prog _ _ _
  | tick => exact tick_prog s
  | apiRespond id code => exact (apiRespond_frame s id code).2.2.2.2.2.2.2.2.2.1
  | inRequest id m => simp only [step]; split; rfl; exact onRequest_prog s id m
  | stick => rfl
  | setService m h => rfl
  | cleanup =>
    show (s.guard (s.cleanup, [])).1.prog = s.prog
    rcases guard_cases s (s.cleanup, []) with h | h <;> rw [h] <;> rfl

theorem run_prog (ops : List Op) : ∀ s : Rpc, (run s ops).1.prog = s.prog := by
  induction ops with
  | nil => intro s; rfl
  | cons op ops ih => intro s; simp only [run]; rw [ih, step_prog]

/-- the per-step accounting: a callback that runs leaves the pending map; new tags are fresh -/
def Delta (s s' : Rpc) (evs : List REv) : Prop :=
  s.nTag ≤ s'.nTag ∧
  ∀ t, firedCount t evs + pendCount t s'.pending ≤
        pendCount t s.pending + (if s.nTag ≤ t ∧ t < s'.nTag then 1 else 0)

theorem Delta_refl (s : Rpc) : Delta s s [] := by
  refine ⟨Nat.le_refl _, ?_⟩; intro t; simp [firedCount]

theorem Delta_trans (s s1 s2 : Rpc) (e1 e2 : List REv) (h1 : Delta s s1 e1) (h2 : Delta s1 s2 e2) :
    Delta s s2 (e1 ++ e2) := by
  refine ⟨Nat.le_trans h1.1 h2.1, ?_⟩
  intro t
  have a := h1.2 t; have b := h2.2 t; have m1 := h1.1; have m2 := h2.1
  rw [firedCount_append]
  split at a <;> split at b <;> split <;> omega

/-- a call that leaves the pending map and the tag counter alone and runs no completion callback -/
theorem Delta_quiet (s s' : Rpc) (evs : List REv) (hp : ∀ t, pendCount t s'.pending ≤ pendCount t s.pending) (hn : s'.nTag = s.nTag)
    (hf : ∀ t, firedCount t evs = 0) : Delta s s' evs := by
  refine ⟨by omega, ?_⟩
  intro t; rw [hf t]; have := hp t; split <;> omega

theorem monitorAdd_pending (s : Rpc) (id : Nat) :
    (s.monitorAdd id).pending = s.pending ∧ (s.monitorAdd id).nTag = s.nTag := by
  unfold Rpc.monitorAdd; simp only; split <;> simp

theorem Delta_request (s : Rpc) (c m : Nat) : Delta s (s.request c m).1 (s.request c m).2 := by
  unfold Rpc.request
  simp only
  obtain ⟨hp, hn⟩ := monitorAdd_pending
    { s with idAlloc := s.nextId.getD 0, nTag := s.nTag + 1,
             pending := pendingErase s.pending (s.nextId.getD 0) ++ [(s.nextId.getD 0, { tag := s.nTag, script := c })] }
    (s.nTag + 1)
  refine ⟨by rw [hn]; simp, ?_⟩
  intro t
  rw [hp, hn]
  simp only [firedCount, pendCount_append]
  have := pendCount_erase_le t (s.nextId.getD 0) s.pending
  simp only [pendCount]
  split <;> split <;> omega

theorem Delta_misuse (s : Rpc) : Delta s s [.misuse] :=
  Delta_quiet _ _ _ (fun _ => Nat.le_refl _) rfl (fun t => by simp [firedCount])

theorem Delta_guard (s : Rpc) (r : Rpc × List REv) (h : Delta s r.1 r.2) : Delta s (s.guard r).1 (s.guard r).2 := by
  rcases guard_cases s r with e | e <;> rw [e]
  · exact h
  · exact Delta_misuse s

theorem Delta_guardReq (s : Rpc) (r : Rpc × List REv) (h : Delta s r.1 r.2) : Delta s (s.guardReq r).1 (s.guardReq r).2 := by
  rcases guardReq_cases s r with e | e <;> rw [e]
  · exact h
  · exact Delta_misuse s

theorem Delta_apiRespond (s : Rpc) (id code : Int) : Delta s (s.apiRespond id code).1 (s.apiRespond id code).2 := by
  unfold Rpc.apiRespond
  split
  · exact Delta_refl s
  · split
    · exact Delta_misuse s
    · exact Delta_quiet _ _ _ (fun _ => Nat.le_refl _) rfl (fun t => by simp [firedCount])

theorem Delta_cleanup (s : Rpc) : Delta s s.cleanup [] :=
  Delta_quiet _ _ _ (fun t => by simp [Rpc.cleanup, pendCount]) rfl (fun t => by simp [firedCount])

theorem Delta_doAct (k : Rpc → Int → Int → Rpc × List REv)
    (hk : ∀ s id code, Delta s (k s id code).1 (k s id code).2) (cur : Int) (s : Rpc) (a : Act) :
    Delta s (doAct k cur s a).1 (doAct k cur s a).2 := by
  cases a with
  | request cb m => exact Delta_guardReq s _ (Delta_request s cb m)
  | notify m => exact Delta_guard s (s, [.sent 0 m]) (Delta_quiet _ _ _ (fun _ => Nat.le_refl _) rfl (fun t => by simp [firedCount]))
  | respond id code => exact Delta_apiRespond s id code
  | respondCur code => exact Delta_apiRespond s cur code
  | inject rid code =>
    simp only [doAct]
    split
    · exact Delta_refl s
    · exact hk _ _ _
  | setService m h => exact Delta_quiet _ _ _ (fun _ => Nat.le_refl _) rfl (fun t => by first | rfl | simp [firedCount])
  | cleanup => exact Delta_guard s (s.cleanup, []) (Delta_cleanup s)

theorem Delta_runActsWith (k : Rpc → Int → Int → Rpc × List REv)
    (hk : ∀ s id code, Delta s (k s id code).1 (k s id code).2) (cur : Int) (as : List Act) :
    ∀ s, Delta s (runActsWith k cur s as).1 (runActsWith k cur s as).2 := by
  induction as with
  | nil => intro s; exact Delta_refl s
  | cons a as ih =>
    intro s
    simp only [runActsWith]
    exact Delta_trans _ _ _ _ _ (Delta_doAct k hk cur s a) (ih _)

theorem Delta_completeF (fuel : Nat) : ∀ (s : Rpc) (id code : Int),
    Delta s (Rpc.completeF fuel s id code).1 (Rpc.completeF fuel s id code).2 := by
  induction fuel with
  | zero =>
    intro s id code
    exact Delta_quiet _ _ _ (fun _ => Nat.le_refl _) rfl (fun t => by first | rfl | simp [Rpc.completeF, firedCount])
  | succ fuel ih =>
    intro s id code
    simp only [Rpc.completeF]
    cases hf : pendingFind s.pending id with
    | none => exact Delta_refl s
    | some e =>
      obtain ⟨k, cb⟩ := e
      simp only
      have hmem := (pendingFind_mem _ _ _ _ hf).1
      have hr := Delta_runActsWith (Rpc.completeF fuel) ih 0 (s.prog.cbs.getD cb.script [])
        { s with pending := pendingErase s.pending k }
      refine ⟨hr.1, ?_⟩
      intro t
      have a1 := hr.2 t
      have a2 := pendCount_erase_mem t k cb s.pending hmem
      simp only [firedCount] at a1 ⊢
      split at a1 <;> split at a2 <;> split <;> omega

theorem Delta_complete (s : Rpc) (id code : Int) : Delta s (s.complete id code).1 (s.complete id code).2 :=
  Delta_completeF maxDepth s id code

theorem Delta_runActs (cur : Int) (s : Rpc) (as : List Act) : Delta s (s.runActs cur as).1 (s.runActs cur as).2 :=
  Delta_runActsWith _ (Delta_completeF maxDepth) cur as s

theorem Delta_expireOne (s : Rpc) (seq : Nat) (code : Int) :
    Delta s (s.expireOne seq code).1 (s.expireOne seq code).2 := by
  unfold Rpc.expireOne; split
  · exact Delta_refl s
  · exact Delta_complete s _ code

theorem Delta_completeAll (code : Int) (ids : List Nat) :
    ∀ s : Rpc, Delta s (s.completeAll code ids).1 (s.completeAll code ids).2 := by
  induction ids with
  | nil => intro s; exact Delta_refl s
  | cons id ids ih =>
    intro s
    simp only [Rpc.completeAll]
    exact Delta_trans _ _ _ _ _ (Delta_expireOne s id code) (ih _)

theorem Delta_tick (s : Rpc) : Delta s s.tick.1 s.tick.2 := by
  unfold Rpc.tick
  split
  · exact Delta_refl s
  · split
    · exact Delta_refl s
    · rename_i items others _
      have := Delta_completeAll kRequestTimeout items
        { s with ring := [] :: others, vn := s.vn - items.length,
                 timerOn := if s.vn - items.length = 0 then false else s.timerOn }
      exact this

theorem Delta_cons_quiet (s s' : Rpc) (e : REv) (evs : List REv) (he : ∀ t, firedCount t [e] = 0)
    (h : Delta s s' evs) : Delta s s' (e :: evs) := by
  refine ⟨h.1, ?_⟩
  intro t
  have := h.2 t
  have he' := he t
  have : firedCount t (e :: evs) = firedCount t evs := by
    have := firedCount_append t [e] evs
    simp only [List.singleton_append] at this
    omega
  omega

theorem Delta_onRequest (s : Rpc) (id : Int) (m : Nat) : Delta s (s.onRequest id m).1 (s.onRequest id m).2 := by
  unfold Rpc.onRequest
  split
  · exact Delta_quiet _ _ _ (fun _ => Nat.le_refl _) rfl (fun t => by first | rfl | simp [firedCount])
  · rename_i h hd _
    split
    · simp only
      have hr := Delta_runActs id { s with srv := s.srv.insert id } hd.acts
      have hbase : Delta s (({ s with srv := s.srv.insert id } : Rpc).runActs id hd.acts).1
          (({ s with srv := s.srv.insert id } : Rpc).runActs id hd.acts).2 := hr
      split
      · exact Delta_cons_quiet _ _ _ _ (fun t => by first | rfl | simp [firedCount]) hbase
      · split
        · refine Delta_cons_quiet _ _ _ _ (fun t => by first | rfl | simp [firedCount]) ?_
          exact Delta_trans _ _ _ _ _ hbase (Delta_apiRespond _ _ _)
        · refine Delta_cons_quiet _ _ _ _ (fun t => by first | rfl | simp [firedCount]) ?_
          have := Delta_trans _ _ _ _ [] hbase
            (Delta_quiet _ ({ (({ s with srv := s.srv.insert id } : Rpc).runActs id hd.acts).1 with
              srv := (({ s with srv := s.srv.insert id } : Rpc).runActs id hd.acts).1.srv.monitorAdd id }) []
              (fun _ => Nat.le_refl _) rfl (fun t => by first | rfl | simp [firedCount]))
          simpa using this
    · exact Delta_cons_quiet _ _ _ _ (fun t => by first | rfl | simp [firedCount]) (Delta_runActs 0 s hd.acts)

theorem Delta_step (s : Rpc) (op : Op) : Delta s (step s op).1 (step s op).2 := by
  cases op with
  | request c m => exact Delta_guardReq s _ (Delta_request s c m)
  | notify m => exact Delta_guard s (s, [.sent 0 m]) (Delta_quiet _ _ _ (fun _ => Nat.le_refl _) rfl (fun t => by simp [firedCount]))
  | response id code =>
    simp only [step, Rpc.respond, Rpc.respondG]
    split
    · exact Delta_refl s
    · exact Delta_complete s _ code
  | tick => exact Delta_tick s
  | apiRespond id code => exact Delta_apiRespond s id code
  | inRequest id m =>
    simp only [step]
    split
    · exact Delta_refl s
    · exact Delta_onRequest s id m
  | stick => exact Delta_quiet _ _ _ (fun _ => Nat.le_refl _) rfl (fun t => by first | rfl | simp [firedCount])
  | setService m h => exact Delta_quiet _ _ _ (fun _ => Nat.le_refl _) rfl (fun t => by first | rfl | simp [firedCount])
  | cleanup => exact Delta_guard s (s.cleanup, []) (Delta_cleanup s)

theorem Delta_run (ops : List Op) : ∀ s : Rpc, Delta s (run s ops).1 (run s ops).2 := by
  induction ops with
  | nil => intro s; exact Delta_refl s
  | cons op ops ih =>
    intro s
    simp only [run]
    exact Delta_trans _ _ _ _ _ (Delta_step s op) (ih _)

/-- no callback tag is pending twice and every pending tag has been handed out -/
def RInv (s : Rpc) : Prop := ∀ t, pendCount t s.pending ≤ (if t < s.nTag then 1 else 0)

end Tbox.C14
