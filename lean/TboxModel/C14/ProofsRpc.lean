/- C14 — helper lemmas: pending-request map, callbacks fire at most once. -/
import TboxModel.C14.Spec
namespace Tbox.C14

/-- how often callback `t` ran in an event list -/
def firedCount (t : Nat) : List REv → Nat
  | [] => 0
  | .fired t' _ :: es => (if t' = t then 1 else 0) + firedCount t es
  | .sent _ :: es => firedCount t es

theorem firedCount_append (t : Nat) (a b : List REv) :
    firedCount t (a ++ b) = firedCount t a + firedCount t b := by
  induction a with
  | nil => simp [firedCount]
  | cons e es ih => cases e <;> simp [firedCount, ih] <;> omega

/-- how often tag `t` is among the pending callbacks -/
def pendCount (t : Nat) : List (Nat × Cb) → Nat
  | [] => 0
  | e :: es => (if e.2.tag = t then 1 else 0) + pendCount t es

theorem pendCount_append (t : Nat) (a b : List (Nat × Cb)) :
    pendCount t (a ++ b) = pendCount t a + pendCount t b := by
  induction a with
  | nil => simp [pendCount]
  | cons e es ih => simp [pendCount, ih]; omega

theorem pendingErase_cons (e : Nat × Cb) (es : List (Nat × Cb)) (k : Nat) :
    pendingErase (e :: es) k = if e.1 = k then pendingErase es k else e :: pendingErase es k := by
  simp only [pendingErase, List.filter_cons]
  by_cases h : e.1 = k <;> simp [h]

theorem pendCount_erase_le (t k : Nat) (p : List (Nat × Cb)) :
    pendCount t (pendingErase p k) ≤ pendCount t p := by
  induction p with
  | nil => simp [pendCount, pendingErase]
  | cons e es ih =>
    rw [pendingErase_cons]
    split
    · simp only [pendCount]; omega
    · simp only [pendCount]; omega

theorem pendCount_erase_mem (t k : Nat) (cb : Cb) (p : List (Nat × Cb)) (h : (k, cb) ∈ p) :
    pendCount t (pendingErase p k) + (if cb.tag = t then 1 else 0) ≤ pendCount t p := by
  induction p with
  | nil => simp at h
  | cons e es ih =>
    rw [pendingErase_cons]
    rcases List.mem_cons.mp h with h | h
    · subst h
      have := pendCount_erase_le t k es
      simp only [if_true, pendCount]
      omega
    · have := ih h
      split
      · simp only [pendCount]; omega
      · simp only [pendCount]; omega

theorem pendingErase_comm (p : List (Nat × Cb)) (j k : Nat) :
    pendingErase (pendingErase p j) k = pendingErase (pendingErase p k) j := by
  simp [pendingErase, List.filter_filter, Bool.and_comm]

theorem pendingFind_mem (p : List (Nat × Cb)) (id : Int) (k : Nat) (cb : Cb)
    (h : pendingFind p id = some (k, cb)) : (k, cb) ∈ p ∧ (k : Int) = id := by
  unfold pendingFind at h
  have h1 := List.mem_of_find?_eq_some h
  have h2 := List.find?_some h
  simp at h2
  exact ⟨h1, h2⟩

/-- the per-step accounting: a callback that runs leaves the pending map; new tags are fresh -/
def Delta (s s' : Rpc) (evs : List REv) : Prop :=
  s.nTag ≤ s'.nTag ∧
  ∀ t, firedCount t evs + pendCount t s'.pending ≤
        pendCount t s.pending + (if s.nTag ≤ t ∧ t < s'.nTag then 1 else 0)

theorem Delta_refl (s : Rpc) : Delta s s [] := by
  refine ⟨Nat.le_refl _, ?_⟩; intro t; simp [firedCount]

theorem Delta_trans (s s1 s2 : Rpc) (e1 e2 : List REv) (h1 : Delta s s1 e1) (h2 : Delta s1 s2 e2) :
    Delta s s2 (e1 ++ e2) := by
  refine ⟨Nat.le_trans h1.1 h2.1, ?_⟩
  intro t
  have a := h1.2 t; have b := h2.2 t; have m1 := h1.1; have m2 := h2.1
  rw [firedCount_append]
  split at a <;> split at b <;> split <;> omega

theorem monitorAdd_pending (s : Rpc) (id : Nat) :
    (s.monitorAdd id).pending = s.pending ∧ (s.monitorAdd id).nTag = s.nTag := by
  unfold Rpc.monitorAdd; simp only; split <;> simp

theorem Delta_request (s : Rpc) (chain : Bool) : Delta s (s.request chain).1 (s.request chain).2 := by
  unfold Rpc.request
  simp only
  obtain ⟨hp, hn⟩ := monitorAdd_pending
    { s with idAlloc := s.idAlloc + 1, nTag := s.nTag + 1,
             pending := pendingErase s.pending (s.idAlloc + 1) ++ [(s.idAlloc + 1, { tag := s.nTag, chain := chain })] }
    (s.idAlloc + 1)
  refine ⟨by rw [hn]; simp, ?_⟩
  intro t
  rw [hp, hn]
  simp only [firedCount, pendCount_append]
  have := pendCount_erase_le t (s.idAlloc + 1) s.pending
  simp only [pendCount]
  split <;> split <;> omega

theorem Delta_complete (s : Rpc) (id code : Int) : Delta s (s.complete id code).1 (s.complete id code).2 := by
  unfold Rpc.complete
  cases hf : pendingFind s.pending id with
  | none => simp only; exact Delta_refl s
  | some e =>
    obtain ⟨k, cb⟩ := e
    simp only
    have hmem := (pendingFind_mem _ _ _ _ hf).1
    unfold Rpc.fire
    by_cases hc : cb.chain = true
    · simp only [hc, if_true]
      have hr := Delta_request s false
      refine ⟨hr.1, ?_⟩
      intro t
      unfold Rpc.request
      simp only
      obtain ⟨hp, hn⟩ := monitorAdd_pending
        { s with idAlloc := s.idAlloc + 1, nTag := s.nTag + 1,
                 pending := pendingErase s.pending (s.idAlloc + 1) ++ [(s.idAlloc + 1, { tag := s.nTag, chain := false })] }
        (s.idAlloc + 1)
      rw [hp, hn]
      simp only
      have e1 : pendingErase (pendingErase s.pending (s.idAlloc + 1) ++ [(s.idAlloc + 1, ({ tag := s.nTag, chain := false } : Cb))]) k
          = pendingErase (pendingErase s.pending k) (s.idAlloc + 1) ++
            pendingErase [(s.idAlloc + 1, ({ tag := s.nTag, chain := false } : Cb))] k := by
        rw [← pendingErase_comm]; simp [pendingErase]
      rw [e1, pendCount_append]
      have a1 := pendCount_erase_le t (s.idAlloc + 1) (pendingErase s.pending k)
      have a2 := pendCount_erase_mem t k cb s.pending hmem
      have a3 := pendCount_erase_le t k [(s.idAlloc + 1, ({ tag := s.nTag, chain := false } : Cb))]
      have a4 : pendCount t [(s.idAlloc + 1, ({ tag := s.nTag, chain := false } : Cb))] = if s.nTag = t then 1 else 0 := by
        simp [pendCount]
      have a5 : firedCount t [REv.sent (s.idAlloc + 1)] = 0 := rfl
      simp only [firedCount, a5]
      rw [a4] at a3
      by_cases h1 : cb.tag = t <;> by_cases h2 : s.nTag = t <;>
        simp only [h1, h2, if_true, if_false] at a2 a3 ⊢ <;> split <;> omega
    · simp only [hc, if_false, Bool.false_eq_true]
      refine ⟨Nat.le_refl _, ?_⟩
      intro t
      have a2 := pendCount_erase_mem t k cb s.pending hmem
      simp only [firedCount]
      split at a2 <;> split <;> simp <;> omega

theorem Delta_completeAll (code : Int) (ids : List Nat) :
    ∀ s : Rpc, Delta s (s.completeAll code ids).1 (s.completeAll code ids).2 := by
  induction ids with
  | nil => intro s; exact Delta_refl s
  | cons id ids ih =>
    intro s
    simp only [Rpc.completeAll]
    exact Delta_trans _ _ _ _ _ (Delta_complete s id code) (ih _)

theorem Delta_tick (s : Rpc) : Delta s s.tick.1 s.tick.2 := by
  unfold Rpc.tick
  split
  · exact Delta_refl s
  · split
    · exact Delta_refl s
    · rename_i items others _
      have := Delta_completeAll kRequestTimeout items
        { s with ring := [] :: others, vn := s.vn - items.length,
                 timerOn := if s.vn - items.length = 0 then false else s.timerOn }
      exact this

theorem Delta_step (s : Rpc) (op : Op) : Delta s (step s op).1 (step s op).2 := by
  cases op with
  | request c => exact Delta_request s c
  | notify => refine ⟨Nat.le_refl _, ?_⟩; intro t; simp [step, firedCount]
  | response id code =>
    simp only [step, Rpc.respond, Rpc.respondG]
    split
    · exact Delta_refl s
    · exact Delta_complete s _ code
  | tick => exact Delta_tick s

theorem Delta_run (ops : List Op) : ∀ s : Rpc, Delta s (run s ops).1 (run s ops).2 := by
  induction ops with
  | nil => intro s; exact Delta_refl s
  | cons op ops ih =>
    intro s
    simp only [run]
    exact Delta_trans _ _ _ _ _ (Delta_step s op) (ih _)

end Tbox.C14
