/- C14 — helper lemmas: server half of Rpc. -/
import TboxModel.C14.Spec
namespace Tbox.C14

theorem sentCount_append (i : Int) (a b : List SEv) : sentCount i (a ++ b) = sentCount i a + sentCount i b := by
  induction a with
  | nil => simp [sentCount]
  | cons e es ih => cases e <;> simp [sentCount, ih] <;> omega

theorem Srv_step_sends (s : Srv) (op : SOp) (i : Int) :
    sentCount i (s.step op).2 = expectedSends i [op] := by
  cases op with
  | recv id svc =>
    cases svc with
    | sync code =>
      simp only [Srv.step, Srv.recvRequest, Srv.respond, expectedSends]
      by_cases h0 : id = 0
      · simp [h0, sentCount]
      · by_cases hi : id = i
        · subst hi; simp [h0, sentCount]
        · simp [h0, hi, sentCount]
    | async =>
      simp only [Srv.step, Srv.recvRequest, expectedSends]
      by_cases h0 : id = 0 <;> simp [h0, sentCount]
    | unknown =>
      simp only [Srv.step, Srv.recvRequest, expectedSends]
      by_cases hi : id = i <;> simp [hi, sentCount]
  | respond id code =>
    simp only [Srv.step, Srv.respond, expectedSends]
    by_cases h0 : id = 0
    · simp [h0, sentCount]
    · by_cases hi : id = i
      · subst hi; simp [h0, sentCount]
      · simp [h0, hi, sentCount]
  | tick => simp [Srv.step, expectedSends, sentCount]

theorem expectedSends_cons (i : Int) (op : SOp) (ops : List SOp) :
    expectedSends i (op :: ops) = expectedSends i [op] + expectedSends i ops := by
  cases op with
  | recv id svc => cases svc <;> simp [expectedSends]
  | respond id code => simp [expectedSends]
  | tick => simp [expectedSends]

theorem Srv_run_sends (ops : List SOp) (i : Int) : ∀ s : Srv,
    sentCount i (s.run ops).2 = expectedSends i ops := by
  induction ops with
  | nil => intro s; rfl
  | cons op ops ih =>
    intro s
    simp only [Srv.run, sentCount_append, Srv_step_sends, ih]
    exact (expectedSends_cons i op ops).symm

end Tbox.C14
