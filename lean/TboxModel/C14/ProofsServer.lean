/- C14 — helper lemmas: server half of Rpc; two peers. -/
import TboxModel.C14.ProofsRpc
namespace Tbox.C14

/-- responses written with id `i` -/
def answeredCount (i : Int) : List REv → Nat
  | [] => 0
  | .answered j _ :: es => (if j = i then 1 else 0) + answeredCount i es
  | _ :: es => answeredCount i es

theorem answeredCount_append (i : Int) (a b : List REv) :
    answeredCount i (a ++ b) = answeredCount i a + answeredCount i b := by
  induction a with
  | nil => simp [answeredCount]
  | cons e es ih => cases e <;> simp [answeredCount, ih] <;> omega

/-- the peer a world op acts on -/
def World.peer (w : World) (onB : Bool) : Rpc := if onB then w.b else w.a

def peerEvs (r : List REv × List REv) (onB : Bool) : List REv := if onB then r.2 else r.1

theorem run_one (s : Rpc) (op : Op) : run s [op] = step s op := by simp [run]

theorem world_step_peer (w : World) (op : WOp) (onB : Bool) :
    (w.step op).1.peer onB = (run (w.peer onB) (peerOp w onB op)).1 ∧
    peerEvs (w.step op).2 onB = (run (w.peer onB) (peerOp w onB op)).2 := by
  cases op with
  | api b o =>
    cases b <;> cases onB <;> simp [World.step, World.apply, peerOp, World.peer, peerEvs, run]
  | deliver toB i =>
    cases toB <;> cases onB <;> simp only [World.step, peerOp, World.peer, peerEvs]
    · cases h : w.ba[i]? <;> simp [World.apply, run]
    · cases h : w.ba[i]? <;> simp [World.apply, run]
    · cases h : w.ab[i]? <;> simp [World.apply, run]
    · cases h : w.ab[i]? <;> simp [World.apply, run]
  | drop toB i => cases toB <;> cases onB <;> simp [World.step, peerOp, World.peer, peerEvs, run]
  | dup toB i => cases toB <;> cases onB <;> simp [World.step, peerOp, World.peer, peerEvs, run]

theorem run_append (s : Rpc) (a b : List Op) :
    run s (a ++ b) = ((run (run s a).1 b).1, (run s a).2 ++ (run (run s a).1 b).2) := by
  induction a generalizing s with
  | nil => simp [run]
  | cons op a ih => simp only [List.cons_append, run, ih, List.append_assoc]

end Tbox.C14
