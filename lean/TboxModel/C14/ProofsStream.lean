/- C14 — helper lemmas: the receive loop is segmentation independent for stable decoders. -/
import TboxModel.C14.Spec
namespace Tbox.C14

variable {μ : Type}

theorem drain_none (dec : List Byte → Frame) (parse : List Byte → Option μ) (b : List Byte)
    (h : recvData dec parse b = none) : drain dec parse b = ([], some b) := by
  unfold drain; simp [h]

theorem drain_msg (dec : List Byte → Frame) (parse : List Byte → Option μ) (b : List Byte) (m : μ) (k : Nat)
    (h : recvData dec parse b = some (.msg m k)) :
    drain dec parse b = if 0 < k ∧ k ≤ b.length then
        (.msg m k :: (drain dec parse (b.drop k)).1, (drain dec parse (b.drop k)).2)
      else ([.stuck], none) := by
  rw [drain]; simp only [h]; split <;> rfl

theorem drain_other (dec : List Byte → Frame) (parse : List Byte → Option μ) (b : List Byte) (e : Ev μ)
    (h : recvData dec parse b = some e) (hm : ∀ m k, e ≠ .msg m k) : drain dec parse b = ([e], none) := by
  cases e with
  | msg m k => exact absurd rfl (hm m k)
  | err c => rw [drain]; simp only [h]
  | threw => rw [drain]; simp only [h]
  | stuck => rw [drain]; simp only [h]

theorem recvData_stable (dec : List Byte → Frame) (parse : List Byte → Option μ) (hs : Stable dec)
    (b x : List Byte) (h : recvData dec parse b ≠ none) :
    recvData dec parse (b ++ x) = recvData dec parse b := by
  have hd : dec b ≠ .needMore := by
    intro hd; apply h; unfold recvData; simp [hd]
  unfold recvData; rw [hs b x hd]

theorem recvData_msg_progress (dec : List Byte → Frame) (parse : List Byte → Option μ) (hp : Progress dec)
    (b : List Byte) (m : μ) (k : Nat) (h : recvData dec parse b = some (.msg m k)) : 0 < k ∧ k ≤ b.length := by
  unfold recvData at h
  cases hd : dec b with
  | needMore => simp [hd] at h
  | err c => simp [hd] at h
  | throws => simp [hd] at h
  | frame t n =>
    simp only [hd] at h
    cases hp' : parse t with
    | none => simp [hp'] at h
    | some m' =>
      simp only [hp', Option.some.injEq, Ev.msg.injEq] at h
      rw [← h.2]; exact hp b t n hd

theorem drain_append (dec : List Byte → Frame) (parse : List Byte → Option μ) (hs : Stable dec)
    (hp : Progress dec) (x : List Byte) : ∀ (n : Nat) (b : List Byte), b.length < n →
    drain dec parse (b ++ x) = andThen (drain dec parse b) (fun left => drain dec parse (left ++ x)) := by
  intro n
  induction n with
  | zero => intro b hb; omega
  | succ n ih =>
    intro b hb
    cases h : recvData dec parse b with
    | none => rw [drain_none _ _ _ h]; simp [andThen]
    | some e =>
      have hst := recvData_stable dec parse hs b x (by simp [h])
      cases e with
      | msg m k =>
        rw [drain_msg _ _ _ m k h, drain_msg _ _ _ m k (by rw [hst, h])]
        have hk := recvData_msg_progress dec parse hp b m k h
        have hk2 : 0 < k ∧ k ≤ (b ++ x).length := by simp; omega
        simp only [hk, hk2, and_self, if_true]
        have hd : (b ++ x).drop k = b.drop k ++ x := by
          rw [List.drop_append_of_le_length hk.2]
        rw [hd, ih (b.drop k) (by simp [List.length_drop]; omega)]
        simp only [andThen]
        cases (drain dec parse (b.drop k)).2 <;> simp
      | err c =>
        rw [drain_other _ _ _ _ h (by intros; simp), drain_other _ _ _ _ (by rw [hst, h]) (by intros; simp)]
        simp [andThen]
      | threw =>
        rw [drain_other _ _ _ _ h (by intros; simp), drain_other _ _ _ _ (by rw [hst, h]) (by intros; simp)]
        simp [andThen]
      | stuck =>
        rw [drain_other _ _ _ _ h (by intros; simp), drain_other _ _ _ _ (by rw [hst, h]) (by intros; simp)]
        simp [andThen]

/-- what the loop leaves unconsumed is quiescent: the decoder wants more bytes -/
theorem drain_rest_quiescent (dec : List Byte → Frame) (parse : List Byte → Option μ) :
    ∀ (n : Nat) (b : List Byte), b.length < n → ∀ left, (drain dec parse b).2 = some left →
      recvData dec parse left = none := by
  intro n
  induction n with
  | zero => intro b hb; omega
  | succ n ih =>
    intro b hb left hl
    cases h : recvData dec parse b with
    | none => rw [drain_none _ _ _ h] at hl; simp at hl; rw [← hl]; exact h
    | some e =>
      cases e with
      | msg m k =>
        rw [drain_msg _ _ _ m k h] at hl
        by_cases hk : 0 < k ∧ k ≤ b.length
        · simp only [hk, and_self, if_true] at hl
          exact ih (b.drop k) (by simp [List.length_drop]; omega) left hl
        · simp [hk] at hl
      | err c => rw [drain_other _ _ _ _ h (by intros; simp)] at hl; simp at hl
      | threw => rw [drain_other _ _ _ _ h (by intros; simp)] at hl; simp at hl
      | stuck => rw [drain_other _ _ _ _ h (by intros; simp)] at hl; simp at hl

theorem feedAll_dead (dec : List Byte → Frame) (parse : List Byte → Option μ) (segs : List (List Byte)) :
    feedAll dec parse none segs = ([], none) := by
  induction segs with
  | nil => rfl
  | cons seg segs ih => simp [feedAll, feed, ih]

/-- feeding segments one by one = running the loop once on the concatenation -/
theorem feedAll_eq_drain (dec : List Byte → Frame) (parse : List Byte → Option μ) (hs : Stable dec)
    (hp : Progress dec) (segs : List (List Byte)) : ∀ (buf : List Byte),
    recvData dec parse buf = none →
    (feedAll dec parse (some buf) segs).1 = (drain dec parse (buf ++ segs.flatten)).1 ∧
    ((feedAll dec parse (some buf) segs).2 = none ↔ (drain dec parse (buf ++ segs.flatten)).2 = none) ∧
    (∀ l, (drain dec parse (buf ++ segs.flatten)).2 = some l → (feedAll dec parse (some buf) segs).2 = some l) := by
  induction segs with
  | nil =>
    intro buf hq
    simp [feedAll, drain_none _ _ _ hq]
  | cons seg segs ih =>
    intro buf hq
    have hA := drain_append dec parse hs hp segs.flatten ((buf ++ seg).length + 1) (buf ++ seg) (by omega)
    simp only [feedAll, feed, List.flatten_cons]
    rw [← List.append_assoc, hA]
    cases hr : (drain dec parse (buf ++ seg)).2 with
    | none => simp [andThen, hr, feedAll_dead]
    | some left =>
      have hql := drain_rest_quiescent dec parse ((buf ++ seg).length + 1) (buf ++ seg) (by omega) left hr
      have := ih left hql
      simp only [andThen, hr]
      refine ⟨by rw [this.1], this.2.1, this.2.2⟩

end Tbox.C14
