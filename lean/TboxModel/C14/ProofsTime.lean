/- C14 — helper lemmas: the timed layer (clock advances, timer phase, millisecond deadline). -/
import TboxModel.C14.ProofsRing
namespace Tbox.C14

/-! ### operations that only add to the monitor leave a running timer alone -/

def Keep (s s' : Rpc) : Prop :=
  s.vn ≤ s'.vn ∧ s'.now = s.now ∧ (s.vn ≠ 0 → s'.due = s.due ∧ s'.timerOn = s.timerOn)

theorem Keep_refl (s : Rpc) : Keep s s := ⟨Nat.le_refl _, rfl, fun _ => ⟨rfl, rfl⟩⟩

theorem Keep_trans (a b c : Rpc) (h1 : Keep a b) (h2 : Keep b c) : Keep a c := by
  obtain ⟨v1, n1, k1⟩ := h1
  obtain ⟨v2, n2, k2⟩ := h2
  refine ⟨by omega, by rw [n2, n1], fun h => ?_⟩
  obtain ⟨d1, t1⟩ := k1 h
  obtain ⟨d2, t2⟩ := k2 (by omega)
  exact ⟨by rw [d2, d1], by rw [t2, t1]⟩

theorem request_time (s : Rpc) (c m : Nat) :
    (s.request c m).1.now = s.now ∧ (s.request c m).1.due = (if s.vn = 0 then s.now + 1000 else s.due) := by
  unfold Rpc.request Rpc.monitorAdd
  simp only
  split <;> simp

theorem Keep_request (s : Rpc) (c m : Nat) : Keep s (s.request c m).1 := by
  obtain ⟨_, _, _, _, r5, r6⟩ := request_fields s c m
  obtain ⟨t1, t2⟩ := request_time s c m
  refine ⟨by omega, t1, fun h => ?_⟩
  rw [t2, r6]; simp [h]

theorem Keep_frame (s s' : Rpc) (h : CFrame s s') : Keep s s' := by
  obtain ⟨_, _, _, _, _, fv, ft, fn, fd, _, _⟩ := h
  exact ⟨by omega, fn, fun _ => ⟨fd, ft⟩⟩

theorem goodKeep : Good (fun a b => b.prog = a.prog ∧ Keep a b) Act.noCleanup (fun _ => True) where
  refl := fun s => ⟨rfl, Keep_refl s⟩
  trans := fun a b c h1 h2 => ⟨h2.1.trans h1.1, Keep_trans a b c h1.2 h2.2⟩
  prog := fun _ _ h => h.1
  frame := fun s s' h => ⟨h.2.2.2.2.2.2.2.2.2.1, Keep_frame s s' h⟩
  req := fun s c m _ _ => ⟨request_prog s c m, Keep_request s c m⟩
  erase := fun s k _ => ⟨rfl, Nat.le_refl _, rfl, fun _ => ⟨rfl, rfl⟩⟩
  nc := fun a h => noCleanup_nc _ (fun _ => trivial) a h
  clean := fun _ h => absurd h (by simp [Act.noCleanup])

theorem Keep_completeAll (code : Int) (ids : List Nat) (s : Rpc) (hs : Safe s) : Keep s (s.completeAll code ids).1 :=
  (goodKeep.completeAll code ids s hs (fun _ => trivial)).2

/-! ### the deadline of one request, in milliseconds -/

/-- with `m` ticks still to go after the next one, the scheduled expiry of the handing tick
(`due + m·1000`) lies in `(t0 + (n−1)·1000, t0 + n·1000]` -/
def Qb (t0 n due m : Nat) : Prop :=
  t0 + (n - 1) * 1000 < due + m * 1000 ∧ due + m * 1000 ≤ t0 + n * 1000

def DL (t0 n x : Nat) (s : Rpc) (m : Nat) : Prop := Live s x m ∧ TInv s [] ∧ Qb t0 n s.due m

/-- what is claimed of a tick that hands `x` out -/
def Bnd (t0 n : Nat) (e : TickRec) : Prop :=
  t0 + (n - 1) * 1000 < e.sched ∧ e.sched ≤ t0 + n * 1000 ∧ e.sched ≤ e.clock

theorem Live_vn_pos (s : Rpc) (x m : Nat) (todo : List Nat) (hl : Live s x m) (ht : TInv s todo) : s.vn ≠ 0 := by
  obtain ⟨_, _, hc⟩ := hl
  obtain ⟨_, hv, _, _⟩ := ht
  have : x ∈ s.ring.flatten := by
    apply List.count_pos_iff.mp; unfold cnt at hc; omega
  have := List.length_pos_of_mem this
  omega

theorem DL_keep (t0 n x : Nat) (s s' : Rpc) (m : Nat) (ha : Adds s s') (hk : Keep s s') (ht : TInv s' [])
    (h : DL t0 n x s m) : DL t0 n x s' m := by
  obtain ⟨hl, hti, hq⟩ := h
  have hv := Live_vn_pos s x m [] hl hti
  refine ⟨Live_adds s s' x m ha hl, ht, ?_⟩
  rw [(hk.2.2 hv).1]; exact hq

theorem TInv_due (s : Rpc) (d : Nat) (todo : List Nat) (h : TInv s todo) : TInv { s with due := d } todo := h
theorem TInv_now (s : Rpc) (d : Nat) (todo : List Nat) (h : TInv s todo) : TInv { s with now := d } todo := h

/-- the tick executed by `expire` (expiry advanced first) when `x` still has `m + 1` ticks to go -/
theorem DL_tick_succ (t0 n x : Nat) (s : Rpc) (hs : Safe s) (m : Nat) (h : DL t0 n x s (m + 1)) :
    DL t0 n x (({ s with due := s.due + 1000 }).tick).1 m ∧ x ∉ s.nextItems := by
  obtain ⟨hl, hti, hq⟩ := h
  let sd : Rpc := { s with due := s.due + 1000 }
  have hlsd : Live sd x (m + 1) := hl
  have htsd : TInv sd [] := hti
  obtain ⟨h1, h2, h3⟩ := hlsd
  have hne : sd.ring ≠ [] := htsd.1
  obtain ⟨hin, hnot⟩ := InSlot_swap_succ sd x m h2
  have hz : sd.nextItems.count x = 0 := List.count_eq_zero.mpr hnot
  have hc := cnt_afterSwap sd x hne
  have hlas : Live sd.afterSwap x m := ⟨h1, hin, by omega⟩
  have htas := TInv_afterSwap sd htsd
  have hvas : sd.afterSwap.vn ≠ 0 := Live_vn_pos _ x m _ hlas htas
  have hssd : Safe sd := hs
  have hk : Keep sd.afterSwap sd.tick.1 := by rw [tick_eq sd hne]; exact Keep_completeAll _ _ _ hssd
  refine ⟨⟨Live_adds _ _ x m (tick_adds sd hssd hne) hlas, TInv_tick sd hssd htsd, ?_⟩, hnot⟩
  rw [(hk.2.2 hvas).1]
  show Qb t0 n (s.due + 1000) m
  unfold Qb at hq ⊢
  omega

theorem DL_tick_zero (t0 n x : Nat) (s : Rpc) (hs : Safe s) (h : DL t0 n x s 0) :
    x ∈ s.nextItems ∧ Gone (({ s with due := s.due + 1000 }).tick).1 x := by
  obtain ⟨hl, hti, _⟩ := h
  let sd : Rpc := { s with due := s.due + 1000 }
  have hlsd : Live sd x 0 := hl
  have htsd : TInv sd [] := hti
  obtain ⟨h1, h2, h3⟩ := hlsd
  have hne : sd.ring ≠ [] := htsd.1
  have hmem := InSlot_swap_zero sd x h2
  have hpos : 0 < sd.nextItems.count x := List.count_pos_iff.mpr hmem
  have hc := cnt_afterSwap sd x hne
  have hssd : Safe sd := hs
  exact ⟨hmem, Gone_adds _ _ x (tick_adds sd hssd hne) ⟨h1, afterSwap_ring_ne sd, by omega⟩⟩

theorem expireLog_pos (fuel : Nat) (s : Rpc) (h : s.timerOn = true ∧ s.due ≤ s.now) :
    Rpc.expireLog (fuel + 1) s =
      ⟨s.due, s.now, s.nextItems⟩ :: Rpc.expireLog fuel (({ s with due := s.due + 1000 }).tick).1 := by
  rw [Rpc.expireLog, if_pos h]

theorem expireLog_neg (fuel : Nat) (s : Rpc) (h : ¬ (s.timerOn = true ∧ s.due ≤ s.now)) :
    Rpc.expireLog (fuel + 1) s = [] := by
  rw [Rpc.expireLog, if_neg h]

theorem expire_pos (fuel : Nat) (s : Rpc) (h : s.timerOn = true ∧ s.due ≤ s.now) :
    (Rpc.expire (fuel + 1) s).1 = (Rpc.expire fuel (({ s with due := s.due + 1000 }).tick).1).1 := by
  rw [Rpc.expire, if_pos h]

theorem expire_neg (fuel : Nat) (s : Rpc) (h : ¬ (s.timerOn = true ∧ s.due ≤ s.now)) :
    (Rpc.expire (fuel + 1) s).1 = s := by
  rw [Rpc.expire, if_neg h]

theorem expire_prog : ∀ (fuel : Nat) (s : Rpc), (Rpc.expire fuel s).1.prog = s.prog := by
  intro fuel
  induction fuel with
  | zero => intro s; rfl
  | succ fuel ih =>
    intro s
    rw [Rpc.expire]
    split
    · simp only; rw [ih, tick_prog]
    · rfl

theorem expire_Gone (x : Nat) : ∀ (fuel : Nat) (s : Rpc), Safe s → Gone s x →
    (∀ e ∈ Rpc.expireLog fuel s, x ∉ e.items) ∧ Gone (Rpc.expire fuel s).1 x := by
  intro fuel
  induction fuel with
  | zero => intro s _ h; exact ⟨by simp [Rpc.expireLog], by simpa [Rpc.expire] using h⟩
  | succ fuel ih =>
    intro s hs h
    by_cases hc : s.timerOn = true ∧ s.due ≤ s.now
    · have hg : Gone ({ s with due := s.due + 1000 } : Rpc) x := h
      have hsd : Safe ({ s with due := s.due + 1000 } : Rpc) := hs
      obtain ⟨hg', hz⟩ := Gone_tick _ hsd x hg
      obtain ⟨i1, i2⟩ := ih _ (Safe_of_prog _ _ (tick_prog _) hsd) hg'
      rw [expireLog_pos fuel s hc, expire_pos fuel s hc]
      refine ⟨?_, i2⟩
      intro e he
      rcases List.mem_cons.mp he with he | he
      · subst he; exact List.count_eq_zero.mp hz
      · exact i1 e he
    · rw [expireLog_neg fuel s hc, expire_neg fuel s hc]
      exact ⟨by simp, h⟩

theorem expire_DL (t0 n x : Nat) : ∀ (fuel : Nat) (s : Rpc) (m : Nat), Safe s → DL t0 n x s m →
    (∀ e ∈ Rpc.expireLog fuel s, x ∈ e.items → Bnd t0 n e) ∧
    ((∃ m', DL t0 n x (Rpc.expire fuel s).1 m') ∨ Gone (Rpc.expire fuel s).1 x) := by
  intro fuel
  induction fuel with
  | zero => intro s m _ h; exact ⟨by simp [Rpc.expireLog], Or.inl ⟨m, by simpa [Rpc.expire] using h⟩⟩
  | succ fuel ih =>
    intro s m hs h
    have hs' : Safe (({ s with due := s.due + 1000 } : Rpc).tick).1 := Safe_of_prog _ _ (tick_prog _) hs
    by_cases hc : s.timerOn = true ∧ s.due ≤ s.now
    · rw [expireLog_pos fuel s hc, expire_pos fuel s hc]
      cases m with
      | zero =>
        obtain ⟨hmem, hg⟩ := DL_tick_zero t0 n x s hs h
        obtain ⟨g1, g2⟩ := expire_Gone x fuel _ hs' hg
        refine ⟨?_, Or.inr g2⟩
        intro e he hx
        rcases List.mem_cons.mp he with he | he
        · subst he
          have hq := h.2.2
          unfold Qb at hq
          exact ⟨by simpa using hq.1, by simpa using hq.2, hc.2⟩
        · exact absurd hx (g1 e he)
      | succ m =>
        obtain ⟨hd, hnot⟩ := DL_tick_succ t0 n x s hs m h
        obtain ⟨i1, i2⟩ := ih _ m hs' hd
        refine ⟨?_, i2⟩
        intro e he hx
        rcases List.mem_cons.mp he with he | he
        · subst he; exact absurd hx hnot
        · exact i1 e he hx
    · rw [expireLog_neg fuel s hc, expire_neg fuel s hc]
      exact ⟨by simp, Or.inl ⟨m, h⟩⟩

theorem Keep_step_nontick (s : Rpc) (hs : Safe s) (op : Op) (h : op ≠ .tick) (hc : op ≠ .cleanup) :
    Keep s (step s op).1 := by
  have g := goodKeep
  cases op with
  | request c m =>
    show Keep s (s.guardReq (s.request c m)).1
    rcases guardReq_cases s (s.request c m) with e | e <;> rw [e]
    · exact Keep_request s c m
    · exact Keep_refl s
  | notify m =>
    show Keep s (s.guard (s, [.sent 0 m])).1
    rcases guard_cases s (s, [.sent 0 m]) with e | e <;> rw [e] <;> exact Keep_refl s
  | response id code => exact (g.respond s hs id code (fun _ _ => trivial)).2
  | tick => exact absurd rfl h
  | apiRespond id code => exact Keep_frame _ _ (apiRespond_frame s id code)
  | inRequest id m =>
    simp only [step]
    split
    · exact Keep_refl s
    · exact (g.onRequest s hs id m).2
  | stick => exact Keep_frame _ _ ⟨rfl, rfl, rfl, rfl, rfl, rfl, rfl, rfl, rfl, rfl, rfl⟩
  | setService m hh => exact Keep_frame _ _ ⟨rfl, rfl, rfl, rfl, rfl, rfl, rfl, rfl, rfl, rfl, rfl⟩
  | cleanup => exact absurd rfl hc

theorem stepT_prog (s : Rpc) (op : TOp) : (stepT s op).1.prog = s.prog := by
  cases op with
  | op o => simp only [stepT]; split; rfl; exact step_prog s o
  | adv ms => simp only [stepT, Rpc.advance]; rw [expire_prog]

/-- one timed step keeps "the id is on schedule, or already handed out" -/
theorem stepT_DL (t0 n x : Nat) (s : Rpc) (hs : Safe s) (op : TOp) (hc : op ≠ .op .cleanup)
    (h : (∃ m, DL t0 n x s m) ∨ Gone s x) :
    (∀ e ∈ (match op with
            | .adv ms => Rpc.expireLog (ms / 1000 + 2) { s with now := s.now + ms }
            | _ => []), x ∈ e.items → Bnd t0 n e) ∧
    ((∃ m, DL t0 n x (stepT s op).1 m) ∨ Gone (stepT s op).1 x) := by
  cases op with
  | op o =>
    refine ⟨by simp, ?_⟩
    simp only [stepT]
    by_cases ht : o = .tick
    · simp only [ht, if_true]; exact h
    · simp only [ht, if_false]
      have hco : o ≠ .cleanup := fun e => hc (by rw [e])
      rcases h with ⟨m, hd⟩ | hg
      · exact Or.inl ⟨m, DL_keep t0 n x s _ m (step_nontick_adds s hs o ht hco) (Keep_step_nontick s hs o ht hco)
          (TInv_step s hs o hco hd.2.1) hd⟩
      · exact Or.inr (Gone_adds _ _ x (step_nontick_adds s hs o ht hco) hg)
  | adv ms =>
    simp only [stepT, Rpc.advance]
    have hs' : Safe ({ s with now := s.now + ms } : Rpc) := hs
    rcases h with ⟨m, hd⟩ | hg
    · have hd' : DL t0 n x ({ s with now := s.now + ms } : Rpc) m := hd
      exact expire_DL t0 n x _ _ m hs' hd'
    · have hg' : Gone ({ s with now := s.now + ms } : Rpc) x := hg
      obtain ⟨g1, g2⟩ := expire_Gone x (ms / 1000 + 2) _ hs' hg'
      exact ⟨fun e he hx => absurd hx (g1 e he), Or.inr g2⟩

theorem logT_bound (t0 n x : Nat) (ops : List TOp) : ∀ s : Rpc, Safe s → NoCleanupT ops →
    ((∃ m, DL t0 n x s m) ∨ Gone s x) → ∀ e ∈ logT s ops, x ∈ e.items → Bnd t0 n e := by
  induction ops with
  | nil => intro s _ _ _ e he; simp [logT] at he
  | cons op ops ih =>
    intro s hs hnc h e he hx
    obtain ⟨h1, h2⟩ := stepT_DL t0 n x s hs op (hnc op (by simp)) h
    simp only [logT] at he
    rcases List.mem_append.mp he with he | he
    · exact h1 e he hx
    · exact ih _ (Safe_of_prog _ _ (stepT_prog s op) hs) (fun o ho => hnc o (List.mem_cons_of_mem _ ho)) h2 e he hx

theorem runT_DL (t0 n x : Nat) (ops : List TOp) : ∀ s : Rpc, Safe s → NoCleanupT ops →
    ((∃ m, DL t0 n x s m) ∨ Gone s x) → ((∃ m, DL t0 n x (runT s ops).1 m) ∨ Gone (runT s ops).1 x) := by
  induction ops with
  | nil => intro s _ _ h; exact h
  | cons op ops ih =>
    intro s hs hnc h
    simp only [runT]
    exact ih _ (Safe_of_prog _ _ (stepT_prog s op) hs) (fun o ho => hnc o (List.mem_cons_of_mem _ ho))
      (stepT_DL t0 n x s hs op (hnc op (by simp)) h).2

/-! ### the timer's phase; the fuel of `expire` suffices -/

def TStep (s s' : Rpc) : Prop :=
  s'.now = s.now ∧ (s'.timerOn = true → (s.timerOn = true ∧ s'.due = s.due) ∨ s'.due = s.now + 1000)

theorem TStep_refl (s : Rpc) : TStep s s := ⟨rfl, fun h => Or.inl ⟨h, rfl⟩⟩

theorem TStep_trans (a b c : Rpc) (h1 : TStep a b) (h2 : TStep b c) : TStep a c := by
  obtain ⟨n1, k1⟩ := h1
  obtain ⟨n2, k2⟩ := h2
  refine ⟨by rw [n2, n1], fun h => ?_⟩
  rcases k2 h with ⟨hb, hd⟩ | hd
  · rcases k1 hb with ⟨ha, hd'⟩ | hd'
    · exact Or.inl ⟨ha, by rw [hd, hd']⟩
    · exact Or.inr (by rw [hd, hd'])
  · exact Or.inr (by rw [hd, n1])

theorem TStep_request (s : Rpc) (c m : Nat) : TStep s (s.request c m).1 := by
  obtain ⟨_, _, _, _, _, r6⟩ := request_fields s c m
  obtain ⟨t1, t2⟩ := request_time s c m
  refine ⟨t1, fun h => ?_⟩
  rw [t2]
  by_cases hv : s.vn = 0
  · exact Or.inr (by simp [hv])
  · rw [r6] at h; simp only [hv, if_false] at h ⊢; exact Or.inl (by simpa using h)

theorem TStep_frame (s s' : Rpc) (h : CFrame s s') : TStep s s' := by
  obtain ⟨_, _, _, _, _, _, ft, fn, fd, _, _⟩ := h
  exact ⟨fn, fun hon => Or.inl ⟨by rw [← ft]; exact hon, fd⟩⟩

/-- the timer's phase is kept by every script, `cleanup()` included (it disables the timer) -/
theorem goodTStep : Good (fun a b => b.prog = a.prog ∧ TStep a b) (fun _ => True) (fun _ => True) where
  refl := fun s => ⟨rfl, TStep_refl s⟩
  trans := fun a b c h1 h2 => ⟨h2.1.trans h1.1, TStep_trans a b c h1.2 h2.2⟩
  prog := fun _ _ h => h.1
  frame := fun s s' h => ⟨h.2.2.2.2.2.2.2.2.2.1, TStep_frame s s' h⟩
  req := fun s c m _ _ => ⟨request_prog s c m, TStep_request s c m⟩
  erase := fun s k _ => ⟨rfl, rfl, fun h => Or.inl ⟨h, rfl⟩⟩
  nc := fun a _ => by cases a <;> simp [injectOk]
  clean := fun s _ _ => ⟨rfl, rfl, fun h => by cases h⟩

theorem TStep_completeAll (code : Int) (ids : List Nat) (s : Rpc) : TStep s (s.completeAll code ids).1 :=
  (goodTStep.completeAll code ids s (progAll_true _) (fun _ => trivial)).2

theorem TStep_tick (s : Rpc) : TStep s s.tick.1 := by
  by_cases hr : s.ring = []
  · have : s.tick = (s, []) := by unfold Rpc.tick; simp [hr]
    rw [this]; exact TStep_refl s
  · rw [tick_eq s hr]
    refine TStep_trans _ _ _ ?_ (TStep_completeAll _ _ _)
    refine ⟨rfl, fun h => Or.inl ⟨?_, rfl⟩⟩
    have h' : (if s.vn - s.nextItems.length = 0 then false else s.timerOn) = true := h
    split at h'
    · cases h'
    · exact h'

theorem TStep_step (s : Rpc) (op : Op) : TStep s (step s op).1 := by
  have g := goodTStep
  have hp := progAll_true s.prog
  cases op with
  | request c m =>
    show TStep s (s.guardReq (s.request c m)).1
    rcases guardReq_cases s (s.request c m) with e | e <;> rw [e]
    · exact TStep_request s c m
    · exact TStep_refl s
  | notify m =>
    show TStep s (s.guard (s, [.sent 0 m])).1
    rcases guard_cases s (s, [.sent 0 m]) with e | e <;> rw [e] <;> exact TStep_refl s
  | response id code => exact (g.respond s hp id code (fun _ _ => trivial)).2
  | tick => exact TStep_tick s
  | apiRespond id code => exact TStep_frame _ _ (apiRespond_frame s id code)
  | inRequest id m =>
    simp only [step]
    split
    · exact TStep_refl s
    · exact (g.onRequest s hp id m).2
  | stick => exact TStep_frame _ _ ⟨rfl, rfl, rfl, rfl, rfl, rfl, rfl, rfl, rfl, rfl, rfl⟩
  | setService m hh => exact TStep_frame _ _ ⟨rfl, rfl, rfl, rfl, rfl, rfl, rfl, rfl, rfl, rfl, rfl⟩
  | cleanup =>
    show TStep s (s.guard (s.cleanup, [])).1
    rcases guard_cases' s (s.cleanup, []) with ⟨hd, e⟩ | ⟨_, e⟩ <;> rw [e]
    · exact (g.clean s trivial hd).2
    · exact TStep_refl s

theorem TimeInv_of_TStep (s s' : Rpc) (h : TStep s s') (hi : TimeInv s) : TimeInv s' := by
  intro hon
  rcases h.2 hon with ⟨ha, hd⟩ | hd
  · have := hi ha; rw [hd, h.1]; exact this
  · rw [hd, h.1]; omega

theorem expire_phase : ∀ (fuel : Nat) (s : Rpc),
    (s.timerOn = true → s.due ≤ s.now + 1000 ∧ s.now < s.due + fuel * 1000) →
    TimeInv (Rpc.expire fuel s).1 := by
  intro fuel
  induction fuel with
  | zero =>
    intro s h
    have he : (Rpc.expire 0 s).1 = s := rfl
    rw [he]
    intro hon
    have := h hon
    exact ⟨by simpa using this.2, this.1⟩
  | succ fuel ih =>
    intro s h
    by_cases hc : s.timerOn = true ∧ s.due ≤ s.now
    · rw [expire_pos fuel s hc]
      apply ih
      intro hon
      have hp := h hc.1
      have ht := TStep_tick ({ s with due := s.due + 1000 } : Rpc)
      rcases ht.2 hon with ⟨_, hd⟩ | hd
      · have hn : (({ s with due := s.due + 1000 } : Rpc).tick).1.now = s.now := ht.1
        rw [hd, hn]
        show s.due + 1000 ≤ s.now + 1000 ∧ s.now < s.due + 1000 + fuel * 1000
        have := hc.2
        refine ⟨by omega, ?_⟩
        have := hp.2
        rw [Nat.add_mul] at this
        omega
      · have hn : (({ s with due := s.due + 1000 } : Rpc).tick).1.now = s.now := ht.1
        rw [hd, hn]
        show s.now + 1000 ≤ s.now + 1000 ∧ s.now < s.now + 1000 + fuel * 1000
        omega
    · rw [expire_neg fuel s hc]
      intro hon
      have hp := h hon
      refine ⟨?_, hp.1⟩
      have : ¬ s.due ≤ s.now := fun hle => hc ⟨hon, hle⟩
      omega

theorem TimeInv_stepT (s : Rpc) (op : TOp) (h : TimeInv s) : TimeInv (stepT s op).1 := by
  cases op with
  | op o =>
    simp only [stepT]
    split
    · exact h
    · exact TimeInv_of_TStep _ _ (TStep_step s o) h
  | adv ms =>
    simp only [stepT, Rpc.advance]
    apply expire_phase
    intro hon
    have hon' : s.timerOn = true := hon
    have := h hon'
    show s.due ≤ s.now + ms + 1000 ∧ s.now + ms < s.due + (ms / 1000 + 2) * 1000
    omega

theorem TimeInv_runT (ops : List TOp) : ∀ s : Rpc, TimeInv s → TimeInv (runT s ops).1 := by
  induction ops with
  | nil => intro s h; exact h
  | cons op ops ih => intro s h; simp only [runT]; exact ih _ (TimeInv_stepT s op h)

theorem MInv_stepT (s : Rpc) (op : TOp) (h : MInv s []) : MInv (stepT s op).1 [] := by
  cases op with
  | op o =>
    simp only [stepT]
    split
    · exact h
    · exact MInv_step s o h
  | adv ms =>
    simp only [stepT, Rpc.advance]
    have : ∀ (fuel : Nat) (t : Rpc), MInv t [] → MInv (Rpc.expire fuel t).1 [] := by
      intro fuel
      induction fuel with
      | zero => intro t ht; simpa [Rpc.expire] using ht
      | succ fuel ih =>
        intro t ht
        by_cases hc : t.timerOn = true ∧ t.due ≤ t.now
        · rw [expire_pos fuel t hc]
          have ht' : MInv ({ t with due := t.due + 1000 } : Rpc) [] := ht
          exact ih _ (MInv_tick _ ht')
        · rw [expire_neg fuel t hc]; exact ht
    have h' : MInv ({ s with now := s.now + ms } : Rpc) [] := h
    exact this _ _ h'

theorem MInv_runT (ops : List TOp) : ∀ s : Rpc, MInv s [] → MInv (runT s ops).1 [] := by
  induction ops with
  | nil => intro s h; exact h
  | cons op ops ih => intro s h; simp only [runT]; exact ih _ (MInv_stepT s op h)

end Tbox.C14
