/-
C14 — PROPERTY THEOREMS (statements rely on Model.lean / Spec.lean only; helper lemmas live in
ProofsHeader / ProofsRaw / ProofsStream / ProofsRpc / ProofsRing / ProofsTime / ProofsServer).

Property: "For each of the three framings, any byte stream - however segmented - is decoded into
the same sequence of JSON messages as the unsegmented stream, every message written by the
framing's own encoder decodes to an equal JSON value, and malformed or hostile input is reported
through the return value, never by an exception, crash or out-of-bounds access.  Every request
issued with a completion callback has that callback invoked exactly once: with the matching
response if one arrives before the deadline, otherwise with a timeout error; duplicate, late and
unknown-id responses are ignored."

`nlohmann::json` is abstract: `parse : List Byte → Option μ` is any function.
-/
import TboxModel.C14.ProofsHeader
import TboxModel.C14.ProofsRaw
import TboxModel.C14.ProofsStream
import TboxModel.C14.ProofsRpc
import TboxModel.C14.ProofsRing
import TboxModel.C14.ProofsServer
import TboxModel.C14.ProofsProto
import TboxModel.C14.ProofsTime
import TboxModel.C14.ProofsIds
namespace Tbox.C14

/-! ## (1) header-stream framing -/

/-- **C14_header_roundtrip.** What the encoder writes (magic, 32-bit length, text), followed by
anything, is delimited by the decoder as exactly that text and exactly its bytes are consumed.
(`text.length < 2^32`: the encoder casts the size to `uint32_t`.) -/
theorem C14_header_roundtrip (magic : UInt16) (text rest : List Byte) (h : text.length < 2^32) :
    decodeHeader magic (encodeHeader magic text ++ rest) = .frame text (6 + text.length) := by
  have hl : (UInt32.ofNat text.length).toNat = text.length := by
    simp [UInt32.toNat_ofNat']; omega
  simp only [encodeHeader, be16enc, be32enc, List.cons_append, List.nil_append]
  rw [decodeHeader_spec, be16_roundtrip, be32_roundtrip, hl]
  simp

/-- **C14_header_total.** For every byte string and every length field up to 2³²−1 the repaired
decoder never lets an exception escape, and a delimited frame lies inside the input:
it is `data[6 .. n)` with `6 ≤ n ≤ |data|`. -/
theorem C14_header_total (magic : UInt16) (data : List Byte) :
    decodeHeader magic data ≠ .throws ∧
    ∀ t n, decodeHeader magic data = .frame t n →
      6 ≤ n ∧ n ≤ data.length ∧ t = (data.drop 6).take (n - 6) := by
  by_cases hlen : data.length < 6
  · rw [decodeHeader_short magic data hlen]; simp
  · obtain ⟨b0, b1, b2, b3, b4, b5, rest, rfl⟩ := six_split data (by omega)
    rw [decodeHeader_spec]
    split
    · simp
    · split
      · simp
      · refine ⟨by simp, ?_⟩
        intro t n h
        simp only [Frame.frame.injEq] at h
        obtain ⟨h1, h2⟩ := h
        subst h2 h1
        simp only [List.length_cons, List.drop_succ_cons, List.drop_zero]
        refine ⟨by omega, by omega, ?_⟩
        congr 1; omega

/-- **C14_header_total_counterexample** (DESIGN §7 row 8; the tree before
patches/C14-01-header-length-wrap.diff): with the 32-bit sum `content_size + kHeadSize`, a frame
announcing 0xFFFFFFFF bytes passes the size check (the sum wraps to 5) and `std::string(nullptr, n)`
throws. -/
theorem C14_header_total_counterexample :
    decodeHeaderOrig 0x3e5a [0x3e, 0x5a, 0xff, 0xff, 0xff, 0xff, 0x78, 0x79] = .throws ∧
    ((0xffffffff : UInt32) + 6).toNat = 5 := by decide

/-- **C14_header_resumable.** A decision of the header decoder other than "need more bytes" is
not changed by more bytes, and a frame consumes between 1 and |data| bytes. -/
theorem C14_header_resumable (magic : UInt16) :
    Stable (decodeHeader magic) ∧ Progress (decodeHeader magic) := by
  constructor
  · intro b x hne
    by_cases hlen : b.length < 6
    · exact absurd (decodeHeader_short magic b hlen) hne
    · obtain ⟨b0, b1, b2, b3, b4, b5, rest, rfl⟩ := six_split b (by omega)
      simp only [List.cons_append] at hne ⊢
      rw [decodeHeader_spec] at hne ⊢
      rw [decodeHeader_spec]
      by_cases hm : be16dec b0 b1 ≠ magic
      · rw [if_pos hm, if_pos hm]
      · simp only [hm, if_false] at hne ⊢
        by_cases hn : (be32dec b2 b3 b4 b5).toNat > rest.length
        · simp only [hn, if_true] at hne; exact absurd rfl hne
        · have : ¬ (be32dec b2 b3 b4 b5).toNat > (rest ++ x).length := by simp; omega
          simp only [hn, this, if_false]
          congr 1
          rw [List.take_append_of_le_length (by omega)]
  · intro b t k h
    have := (C14_header_total magic b).2 t k h
    omega

/-! ## (2) raw-stream framing: the `FindEndPos` scanner -/

/-- **C14_raw_end.** For every well-shaped top-level value text (array/object with arbitrarily
nested content, strings containing quotes, backslashes, brackets and arbitrary bytes; or a string
literal), preceded by any non-graphic bytes (white space) and followed by *anything*, the scanner
returns exactly the end of the value. -/
theorem C14_raw_end (ws : List Byte) (hws : ∀ c ∈ ws, isGraph c = false) (v : List Tok)
    (hv : TopValue v) (rest : List Byte) :
    findEndPos (ws ++ printToks v ++ rest) = ((ws ++ printToks v).length : Int) := by
  unfold findEndPos
  rw [scan_top ws hws v hv rest]

/-- **C14_raw_prefix.** … and on every proper prefix of it the scanner returns 0 ("not complete"),
never a position and never −1. -/
theorem C14_raw_prefix (ws : List Byte) (hws : ∀ c ∈ ws, isGraph c = false) (v : List Tok)
    (hv : TopValue v) (p y : List Byte) (hp : p ++ y = ws ++ printToks v) (hy : y ≠ []) :
    findEndPos p = 0 := by
  have hfull := scan_top ws hws v hv []
  rw [List.append_nil, ← hp] at hfull
  have hylen : 0 < y.length := List.length_pos_iff.mpr hy
  unfold findEndPos
  cases h : scanRun {} [] p with
  | cont st seen => rfl
  | done q =>
    have h1 := (scanRun_stable p y).1 q h
    have h2 := (scanRun_pos {} [] p).1 q h
    rw [h1] at hfull
    simp at hfull h2
    omega
  | neg q =>
    have h1 := (scanRun_stable p y).2 q h
    rw [h1] at hfull
    simp at hfull

/-- **C14_raw_total.** For arbitrary bytes the scanner's result is −1, 0 or a position inside the
input; the raw-stream decoder never throws; a frame it delimits is a prefix of the input; and
unbalanced input (a closing bracket without its opening one — the scanner's −1) is *reported*:
the repaired decoder returns −2 for it (≥ 2 bytes given). -/
theorem C14_raw_total (data : List Byte) :
    (-1 ≤ findEndPos data ∧ findEndPos data ≤ data.length) ∧
    decodeRaw data ≠ .throws ∧
    (∀ t n, decodeRaw data = .frame t n → 0 < n ∧ n ≤ data.length ∧ t = data.take n) ∧
    (2 ≤ data.length → findEndPos data < 0 → decodeRaw data = .err (-2)) := by
  have hr := findEndPos_range data
  refine ⟨hr, ?_, ?_, ?_⟩
  · unfold decodeRaw decodeRawG; split
    · simp
    · simp only; split
      · simp
      · split <;> simp
  · intro t n h
    unfold decodeRaw decodeRawG at h
    split at h
    · simp at h
    · simp only at h
      split at h
      · simp only [Frame.frame.injEq] at h
        obtain ⟨h1, h2⟩ := h
        subst h2 h1
        refine ⟨by omega, by omega, rfl⟩
      · split at h <;> simp at h
  · intro h2 hneg
    unfold decodeRaw decodeRawG
    have : ¬ data.length < 2 := by omega
    have h3 : ¬ findEndPos data > 0 := by omega
    simp [this, h3, hneg]

/-- **C14_raw_unbalanced_counterexample** (the tree before
patches/C14-03-raw-unbalanced-is-an-error.diff): a stray `]` is answered "need more bytes" and so is
every extension of it — the malformed input is never reported and the stream never recovers. -/
theorem C14_raw_unbalanced_counterexample :
    decodeRawOrig [0x5d, 0x7b, 0x7d] = .needMore ∧
    (∀ x, decodeRawOrig ([0x5d, 0x7b] ++ x) = .needMore) ∧
    decodeRaw [0x5d, 0x7b, 0x7d] = .err (-2) := by
  refine ⟨by decide, ?_, by decide⟩
  intro x
  have h : scanRun {} [] ([0x5d, 0x7b] ++ x) = .neg 1 := by
    rw [scanRun_append]; rfl
  unfold decodeRawOrig decodeRawG findEndPos
  rw [h]
  simp

/-- **C14_raw_resumable.** The raw-stream decoder is prefix stable and makes progress. -/
theorem C14_raw_resumable : Stable decodeRaw ∧ Progress decodeRaw := by
  constructor
  · intro b x hne
    unfold decodeRaw decodeRawG at hne ⊢
    by_cases hlen : b.length < 2
    · simp [hlen] at hne
    · have hlen2 : ¬ (b ++ x).length < 2 := by simp; omega
      simp only [hlen, hlen2, if_false] at hne ⊢
      have hsame : findEndPos b ≠ 0 → findEndPos (b ++ x) = findEndPos b := by
        intro h0
        unfold findEndPos at h0 ⊢
        cases h : scanRun {} [] b with
        | cont st seen => rw [h] at h0; simp at h0
        | done p => rw [(scanRun_stable b x).1 p h]
        | neg p => rw [(scanRun_stable b x).2 p h]
      by_cases he : findEndPos b > 0
      · rw [hsame (by omega)]
        simp only [he, if_true]
        have hle := (findEndPos_range b).2
        congr 1
        rw [List.take_append_of_le_length (by omega)]
      · by_cases hn : findEndPos b < 0
        · rw [hsame (by omega)]
          simp only [he, if_false]
        · have : findEndPos b = 0 := by omega
          simp [this] at hne
  · intro b t k h
    have := (C14_raw_total b).2.2.1 t k h
    omega

/-- **C14_raw_roundtrip.** Any printed top-level value (what `dump()` writes for an object or an
array is one), after white space and before anything, is delimited by the raw-stream decoder as
exactly that text. -/
theorem C14_raw_roundtrip (ws : List Byte) (hws : ∀ c ∈ ws, isGraph c = false) (v : List Tok)
    (hv : TopValue v) (rest : List Byte) :
    decodeRaw (ws ++ printToks v ++ rest) = .frame (ws ++ printToks v) (ws ++ printToks v).length := by
  have hlen : 2 ≤ (printToks v).length := by
    cases hv with
    | bracket sq a _ => simp [printToks, Tok.print]
    | str body _ => simp [printToks, Tok.print]
  unfold decodeRaw decodeRawG
  have h2 : ¬ (ws ++ printToks v ++ rest).length < 2 := by simp; omega
  simp only [h2, if_false, C14_raw_end ws hws v hv rest]
  have hpos : ((ws ++ printToks v).length : Int) > 0 := by simp; omega
  simp only [hpos, if_true, Int.toNat_natCast]
  congr 1
  exact List.take_left

/-- **C14_raw_scalar_counterexample.** The scanner is *not* right for top-level numbers and
literals (outside the property, which speaks of objects and arrays): `123` "ends" after `1`. -/
theorem C14_raw_scalar_counterexample :
    findEndPos [0x31, 0x32, 0x33] = 1 ∧ decodeRaw [0x31, 0x32, 0x33] = .frame [0x31] 1 := by decide

/-! ## (3) packet framing -/

/-- **C14_packet_roundtrip.** One datagram is one text; it never throws and consumes the datagram. -/
theorem C14_packet_roundtrip (text : List Byte) :
    decodePacket text ≠ .throws ∧ (2 ≤ text.length → decodePacket text = .frame text text.length) := by
  unfold decodePacket
  constructor
  · split <;> simp
  · intro h; have : ¬ text.length < 2 := by omega
    simp [this]

/-! ## segmentation independence of the receive loop -/

/-- **C14_stream_segmentation.** For every prefix-stable decoder that makes progress (the header
and raw framings are, `C14_header_resumable`, `C14_raw_resumable`), every JSON parser, every byte
stream and *every* segmentation of it: feeding the segments one by one yields the same events
(messages, errors) in the same order, the same dead/alive state and the same unconsumed rest as
running the loop once on the whole stream. -/
theorem C14_stream_segmentation {μ : Type} (dec : List Byte → Frame) (parse : List Byte → Option μ)
    (hs : Stable dec) (hp : Progress dec) (h0 : dec [] = .needMore) (segs : List (List Byte)) :
    (feedAll dec parse (some []) segs).1 = (drain dec parse segs.flatten).1 ∧
    ((feedAll dec parse (some []) segs).2 = none ↔ (drain dec parse segs.flatten).2 = none) ∧
    (∀ l, (drain dec parse segs.flatten).2 = some l → (feedAll dec parse (some []) segs).2 = some l) := by
  have hq : recvData dec parse [] = none := by unfold recvData; simp [h0]
  simpa using feedAll_eq_drain dec parse hs hp segs [] hq

/-- **C14_header_segmentation / C14_raw_segmentation.** The two stream framings, unconditionally. -/
theorem C14_header_segmentation {μ : Type} (magic : UInt16) (parse : List Byte → Option μ)
    (segs : List (List Byte)) :
    (feedAll (decodeHeader magic) parse (some []) segs).1 = (drain (decodeHeader magic) parse segs.flatten).1 ∧
    ((feedAll (decodeHeader magic) parse (some []) segs).2 = none ↔
      (drain (decodeHeader magic) parse segs.flatten).2 = none) :=
  have h := C14_stream_segmentation (decodeHeader magic) parse (C14_header_resumable magic).1
    (C14_header_resumable magic).2 (decodeHeader_short magic [] (by decide)) segs
  ⟨h.1, h.2.1⟩

theorem C14_raw_segmentation {μ : Type} (parse : List Byte → Option μ) (segs : List (List Byte)) :
    (feedAll decodeRaw parse (some []) segs).1 = (drain decodeRaw parse segs.flatten).1 ∧
    ((feedAll decodeRaw parse (some []) segs).2 = none ↔ (drain decodeRaw parse segs.flatten).2 = none) :=
  have h := C14_stream_segmentation decodeRaw parse C14_raw_resumable.1 C14_raw_resumable.2 (by decide) segs
  ⟨h.1, h.2.1⟩

/-! ## (4) pending requests: each completion callback runs exactly once

User callbacks are *scripts* (`Prog`): completion callbacks (also run by the timeout), and service
handlers, that call back into the same object — `request`, `notify`, `respond`, a response frame fed
to the proto from inside the callback, `addService`, `cleanup()` — nested to any depth. -/

-- `RInv s` (ProofsRpc): no callback tag is pending twice and every pending tag has been handed out

theorem RInv_init (n : Nat) (p : Prog) : RInv { Rpc.init n with prog := p } := by
  intro t; simp [Rpc.init, pendCount]

/-- **C14_callback_once.** For every program of callback scripts (re-entrant requests, duplicate
responses injected from inside callbacks, `cleanup()`, service replacement — anything), every sequence
of requests, notifications, responses (any id, any order, duplicated, unknown), inbound requests,
`respond()` calls, `cleanup()` and ticks, from any consistent state: every completion callback runs at
most once; a callback that has run is no longer pending (so nothing can run it again); and no
callback runs that was never handed to `request`. -/
theorem C14_callback_once (s : Rpc) (h : RInv s) (ops : List Op) (t : Nat) :
    firedCount t (run s ops).2 ≤ 1 ∧
    firedCount t (run s ops).2 + pendCount t (run s ops).1.pending ≤ 1 ∧
    ((run s ops).1.nTag ≤ t → firedCount t (run s ops).2 = 0) ∧
    RInv (run s ops).1 := by
  have hd := Delta_run ops s
  have h1 := hd.2 t
  have h2 := h t
  have hm := hd.1
  refine ⟨?_, ?_, ?_, ?_⟩
  · split at h1 <;> split at h2 <;> omega
  · split at h1 <;> split at h2 <;> omega
  · intro hge; split at h1 <;> split at h2 <;> omega
  · intro u
    have h1 := hd.2 u
    have h2 := h u
    split at h1 <;> split at h2 <;> split <;> omega

/-- **C14_callback_once_counterexample** (the tree before
patches/C14-05-completion-callback-reentrancy.diff: `iter->second(...)` first, `erase(iter)` afterwards):
a completion callback that feeds the same response again (a duplicate arriving while the callback
runs) is run a second time — and again from there, until the stack is exhausted; the repaired order
runs it once. -/
theorem C14_callback_once_counterexample :
    let s := (({ Rpc.init 2 with prog := { cbs := [[.inject 1 0]] } } : Rpc).request 0).1
    (Rpc.completeOrigF 2 s 1 0).2 = [.fired 0 0, .fired 0 0, .overflow] ∧
    (s.complete 1 0).2 = [.fired 0 0] := by decide

theorem firedCount_pos_of_mem (t : Nat) (code : Int) (evs : List REv) (h : REv.fired t code ∈ evs) :
    1 ≤ firedCount t evs := by
  induction evs with
  | nil => simp at h
  | cons e es ih =>
    rcases List.mem_cons.mp h with h | h
    · subst h; simp [firedCount]
    · have := ih h
      cases e <;> simp [firedCount] <;> omega

theorem complete_head (s : Rpc) (id code : Int) (k : Nat) (cb : Cb)
    (h : pendingFind s.pending id = some (k, cb)) :
    ∃ rest, (s.complete id code).2 = .fired cb.tag code :: rest := by
  show ∃ rest, (Rpc.completeF (31 + 1) s id code).2 = _
  rw [Rpc.completeF, h]
  exact ⟨_, rfl⟩

/-- **C14_callback_code.** A response whose id is pending runs exactly that request's callback,
first, with the response's code (`0` + result, or the error code). -/
theorem C14_callback_code (s : Rpc) (id code : Int) (k : Nat) (cb : Cb)
    (h : pendingFind s.pending id = some (k, cb)) :
    (s.complete id code).2.head? = some (.fired cb.tag code) ∧ (k : Int) = id := by
  obtain ⟨rest, hr⟩ := complete_head s id code k cb h
  exact ⟨by rw [hr]; rfl, (pendingFind_mem _ _ _ _ h).2⟩

/-- **C14_callback_ignored.** (a) A response whose id is not pending — unknown, duplicate, or late
(already completed by a response or by the timeout) — causes no callback and changes nothing.
(b) While the completion of `id` is in progress the entry is already gone: whatever the callback
script does — feed the same response again (at any nesting depth), issue new requests, clean up —
the callback runs exactly once during the completion and is not pending afterwards (so nothing can run
it again: `C14_callback_once`).  (With the cyclic allocation the *id* may be handed to a new request by
the script — then a later response with that id is that request's, not a duplicate.) -/
theorem C14_callback_ignored (s : Rpc) (id code : Int) :
    (pendingFind s.pending id = none → s.complete id code = (s, [])) ∧
    (∀ k cb, pendingFind s.pending id = some (k, cb) → RInv s →
      firedCount cb.tag (s.complete id code).2 = 1 ∧
      pendCount cb.tag (s.complete id code).1.pending = 0) := by
  constructor
  · intro h
    show Rpc.completeF (31 + 1) s id code = (s, [])
    rw [Rpc.completeF, h]
  · intro k cb h hinv
    obtain ⟨hmem, hk⟩ := pendingFind_mem _ _ _ _ h
    obtain ⟨rest, hr⟩ := complete_head s id code k cb h
    have hge : 1 ≤ firedCount cb.tag (s.complete id code).2 :=
      firedCount_pos_of_mem _ code _ (by rw [hr]; simp)
    have hpc : 1 ≤ pendCount cb.tag s.pending := by
      have := pendCount_erase_mem cb.tag k cb s.pending hmem
      simp at this; omega
    have hd := (Delta_complete s id code).2 cb.tag
    have hi := hinv cb.tag
    constructor <;> (split at hd <;> split at hi <;> omega)

/-- **C14_tick_slot.** A tick hands exactly the tokens of the slot that follows the current one to
the timeout handler (each completes the entry it was added with, with the timeout code, if that entry
is still pending; a stale token is ignored) and leaves that slot empty as the new current slot. -/
theorem C14_tick_slot (s : Rpc) (cur nxt : List Nat) (rest : List (List Nat)) (h : s.ring = cur :: nxt :: rest) :
    s.tick = Rpc.completeAll
      { s with ring := [] :: (rest ++ [cur]), vn := s.vn - nxt.length,
               timerOn := if s.vn - nxt.length = 0 then false else s.timerOn }
      kRequestTimeout nxt := by
  unfold Rpc.tick; simp [h]

/-- **C14_response_id_range.** A response whose id literal is outside the range of `int` is
ignored (repaired `util::json::Get(int&)`): no callback, no state change. -/
theorem C14_response_id_range (s : Rpc) (rid code : Int)
    (h : ¬ (-2147483648 ≤ rid ∧ rid ≤ 2147483647)) : s.respond rid code = (s, []) := by
  unfold Rpc.respond Rpc.respondG respIdG; simp [h]

/-- **C14_response_id_counterexample** (the tree before patches/C14-04-json-get-int-range.diff):
`get<int>()` truncates, so the unknown id 4294967297 (= 2³² + 1) completes request 1. -/
theorem C14_response_id_counterexample :
    (Rpc.respondG false ((Rpc.init 3).request 0).1 4294967297 0).2 = [.fired 0 0] ∧
    (((Rpc.init 3).request 0).1.respond 4294967297 0).2 = [] := by decide

/-- **C14_ring_expiry.** From any state of the monitor (non-degenerate ring, tokens in it not above
the sequence counter — `seq = ++request_seq_`, the model's `nTag + 1`, is never reused, so no freshness
assumption about *ids* is needed), a request adds its token `x`; then for *every* continuation —
requests (also ones that re-use the same id after the counter has wrapped), responses, notifications,
inbound requests, ticks, and every callback script run on the way — as long as the object is not cleaned
up, the list of tokens handed to the timeout handler by the `j`-th following tick (counted from 0)
contains `x` exactly once if `j + 1 = N` (the number of slots) and not at all otherwise: `x` expires at
exactly the `N`-th following tick, once, never earlier, never again.  (`cleanup()` empties the ring by
design: `C14_cleanup_final`.) -/
theorem C14_ring_expiry (s : Rpc) (hs : Prog.safe s.prog) (hr : s.ring ≠ [])
    (hf : ∀ y ∈ s.ring.flatten, y ≤ s.nTag)
    (c m : Nat) (ops : List Op) (hnc : NoCleanupOps ops) (j : Nat) (items : List Nat)
    (h : (runHanded (s.request c m).1 ops)[j]? = some items) :
    items.count (s.nTag + 1) = if j + 1 = s.ring.length then 1 else 0 := by
  have hl := Live_request s c m hr hf
  have hs' : Safe (s.request c m).1 := Safe_of_prog _ _ (request_prog s c m) hs
  rw [Live_run (s.nTag + 1) ops _ _ hs' hnc hl j items h]
  have : 0 < s.ring.length := List.length_pos_iff.mpr hr
  by_cases hj : j = s.ring.length - 1
  · have : j + 1 = s.ring.length := by omega
    rw [if_pos hj, if_pos this]
  · have : ¬ j + 1 = s.ring.length := by omega
    rw [if_neg hj, if_neg this]

/-- **C14_stale_token_ignored.** A token whose entry is gone — the request was answered, and its id may
meanwhile belong to a newer request, which carries a different `seq` — does nothing at all when its slot
comes up: no callback, no state change (patches/C14-09; `C14_id_wrap_counterexample` (3) for the ring of
bare ids). -/
theorem C14_stale_token_ignored (s : Rpc) (seq : Nat) (code : Int)
    (h : ∀ e ∈ s.pending, e.2.tag + 1 ≠ seq) : s.expireOne seq code = (s, []) := by
  unfold Rpc.expireOne
  have : s.pending.find? (fun e => e.2.tag + 1 = seq) = none := by
    rw [List.find?_eq_none]; intro e he; simpa using h e he
  rw [this]

theorem Pend_not_fired (s : Rpc) (hinv : RInv s) (ops : List Op) (id : Nat) (cb : Cb)
    (hp : Pend (run s ops).1 id cb) : firedCount cb.tag (run s ops).2 = 0 := by
  have hacc := (C14_callback_once s hinv ops cb.tag).2.1
  have hmem := (pendingFind_mem _ _ _ _ hp.1).1
  have := pendCount_erase_mem cb.tag id cb _ hmem
  simp at this; omega

/-- **C14_callback_timeout.** A request (callback tag `s.nTag`, id `id` = what the allocation loop
returns: any position of the counter, before or after a wrap) whose id gets no response — neither from
the peer nor fed re-entrantly by a callback script (`QuietFor`: no script injects a response for this id
or calls `cleanup()`) — whatever else happens: other requests, responses to other ids (duplicated,
unknown, beyond `int`), notifications, inbound requests, scripts re-entering the object — is still
pending after `N − 1` ticks, its callback has not run, and the `N`-th tick runs it with the timeout
code.  (`hf`: the tokens in the ring are not above the sequence counter — an invariant of every
reachable state; stale tokens of earlier uses of the same id are allowed.) -/
theorem C14_callback_timeout (s : Rpc) (hr : s.ring ≠ []) (hf : ∀ y ∈ s.ring.flatten, y ≤ s.nTag)
    (hinv : RInv s) (id : Nat) (hid : s.nextId = some id) (hq : QuietFor s id) (c m : Nat) (ops : List Op)
    (hno : NoResponseFor id ops) (hnc : NoCleanupOps ops)
    (ht : ticks ops + 1 = s.ring.length) :
    firedCount s.nTag (run (s.request c m).1 ops).2 = 0 ∧
    REv.fired s.nTag kRequestTimeout ∈ (run (s.request c m).1 ops).1.tick.2 := by
  have hl := Live_request s c m hr hf
  have hp := Pend_new s hinv c m id hid
  have hq1 : QuietFor (s.request c m).1 id := QuietFor_of_prog _ _ _ (request_prog s c m) hq
  obtain ⟨hp', hi'⟩ := Track_run id { tag := s.nTag, script := c } ops (s.request c m).1
    (s.ring.length - 1) hq1 hp hl.2.1 hno hnc (by omega)
  have hq2 : QuietFor (run (s.request c m).1 ops).1 id :=
    QuietFor_of_prog _ _ _ (run_prog ops _) hq1
  exact ⟨Pend_not_fired _ (RInv_request s hinv c m) ops _ _ hp', Track_fire _ _ _ hq2 hp' hi'⟩

/-- **C14_callback_exactly_once.** … hence, in every history in which the request gets no
response and at least `N` ticks happen, its callback runs exactly once (that run is the timeout of
the `N`-th tick) — whatever follows (`more`: late responses, duplicates, `cleanup()`, anything).
This holds across the wrap of the id counter: the only thing asked of the allocation is that it
returns (`hid`; `C14_alloc_total`: it does while fewer than `INT_MAX` requests are pending). -/
theorem C14_callback_exactly_once (s : Rpc) (hr : s.ring ≠ []) (hf : ∀ y ∈ s.ring.flatten, y ≤ s.nTag)
    (hinv : RInv s) (id : Nat) (hid : s.nextId = some id) (hq : QuietFor s id) (c m : Nat) (ops more : List Op)
    (hno : NoResponseFor id ops) (hnc : NoCleanupOps ops)
    (ht : ticks ops + 1 = s.ring.length) :
    firedCount s.nTag (run (s.request c m).1 (ops ++ .tick :: more)).2 = 1 := by
  have hinv1 := RInv_request s hinv c m
  have hmost := (C14_callback_once (s.request c m).1 hinv1 (ops ++ .tick :: more) s.nTag).1
  have hfire := (C14_callback_timeout s hr hf hinv id hid hq c m ops hno hnc ht).2
  have : 1 ≤ firedCount s.nTag (run (s.request c m).1 (ops ++ .tick :: more)).2 := by
    rw [run_append]
    simp only [run, step, firedCount_append]
    have := firedCount_pos_of_mem _ _ _ hfire
    omega
  omega

/-- **C14_callback_response.** The other half: a request that gets no response while fewer than `N`
ticks happen (`pre`) and then the first response carrying its id (after the `int` getter) — its
callback has not run before, runs at that response, first, with the response's code, and exactly once
in the whole history, whatever follows (`more`: duplicates, ticks past the deadline, re-entrant
duplicates fed by the callback itself, `cleanup()`). -/
theorem C14_callback_response (s : Rpc) (hr : s.ring ≠ []) (hf : ∀ y ∈ s.ring.flatten, y ≤ s.nTag)
    (hinv : RInv s) (id : Nat) (hid : s.nextId = some id) (hq : QuietFor s id) (c m : Nat) (pre more : List Op)
    (rid code : Int)
    (hno : NoResponseFor id pre) (hnc : NoCleanupOps pre) (ht : ticks pre < s.ring.length)
    (hrid : respIdG true rid = some (id : Int)) :
    firedCount s.nTag (run (s.request c m).1 pre).2 = 0 ∧
    (step (run (s.request c m).1 pre).1 (.response rid code)).2.head? = some (.fired s.nTag code) ∧
    firedCount s.nTag (run (s.request c m).1 (pre ++ .response rid code :: more)).2 = 1 := by
  have hl := Live_request s c m hr hf
  have hp := Pend_new s hinv c m id hid
  have hq1 : QuietFor (s.request c m).1 id := QuietFor_of_prog _ _ _ (request_prog s c m) hq
  have hp' := Track_run_le id { tag := s.nTag, script := c } pre (s.request c m).1
    (s.ring.length - 1) hq1 hp hl.2.1 hno hnc (by omega)
  have hinv1 := RInv_request s hinv c m
  have h0 := Pend_not_fired _ hinv1 pre _ _ hp'
  obtain ⟨rest, hrest⟩ := complete_head (run (s.request c m).1 pre).1 _ code _ _ hp'.1
  have hstep : (step (run (s.request c m).1 pre).1 (.response rid code)).2 = .fired s.nTag code :: rest := by
    simp only [step, Rpc.respond, Rpc.respondG, hrid]
    exact hrest
  refine ⟨h0, by rw [hstep]; rfl, ?_⟩
  have hmost := (C14_callback_once (s.request c m).1 hinv1 (pre ++ .response rid code :: more) s.nTag).1
  have : 1 ≤ firedCount s.nTag (run (s.request c m).1 (pre ++ .response rid code :: more)).2 := by
    rw [run_append]
    simp only [run, firedCount_append, hstep, firedCount]
    simp only [if_true]
    omega
  omega

/-- **C14_pending_timer_on.** In every state reachable from `initialize(proto, N)` (`N ≥ 1`) with any
program of callback scripts (`cleanup()` from inside callbacks included) by any op sequence: every
pending request's id is in the ring, `value_number_` is the ring's size, the 1-s timer is enabled iff
something is monitored — so while a request is pending the ticks that will time it out do happen — and
an object that has been cleaned up (at top level or from inside a completion callback, a timeout
callback or a service handler) has nothing pending, nothing monitored and its timer off. -/
theorem C14_pending_timer_on (n : Nat) (hn : 1 ≤ n) (p : Prog) (ops : List Op) :
    let s := (run { Rpc.init n with prog := p } ops).1
    (s.pending ≠ [] → s.timerOn = true) ∧ Monitored s ∧ (s.dead = true → Cleaned s) := by
  have h := MInv_monitored _ (MInv_run ops _ (MInv_init n hn p))
  obtain ⟨⟨hmem, h2, h3⟩, hdead⟩ := h
  refine ⟨?_, ⟨hmem, h2, h3⟩, hdead⟩
  intro hne
  obtain ⟨e, he⟩ := List.exists_mem_of_ne_nil _ hne
  have := hmem e he
  apply h3.mpr
  rw [h2]
  exact List.length_pos_of_mem this

/-- **C14_pending_timer_on_counterexample** (the reordering of seeded/C14-1: idle decided before
the callbacks, timer disabled after them): a request re-issued from its own timeout callback stays
pending with the timer off, so it never completes. -/
theorem C14_pending_timer_on_counterexample :
    let s := ((({ Rpc.init 1 with prog := { cbs := [[.request 1 0]] } } : Rpc).request 0).1.tickSeeded).1
    s.pending ≠ [] ∧ s.timerOn = false := by decide

/-- **C14_cleanup_in_callback.** A callback script that calls `cleanup()` — a completion callback run
by a response or by the timeout, or a service handler; at top level or nested inside other callbacks —
returns with the object cleaned up (whatever its other acts are: calls after the `cleanup()` are refused,
`misuse`), … -/
theorem C14_cleanup_in_callback (s : Rpc) (cur : Int) (as : List Act) (h : Act.cleanup ∈ as) :
    (s.runActs cur as).1.dead = true ∧
    (∀ id code k cb, pendingFind s.pending id = some (k, cb) → Act.cleanup ∈ s.prog.cbs.getD cb.script [] →
      (s.complete id code).1.dead = true) := by
  refine ⟨runActsF_cleanup_dead maxDepth cur as s h, ?_⟩
  intro id code k cb hf hc
  show (Rpc.completeF (31 + 1) s id code).1.dead = true
  rw [Rpc.completeF, hf]
  exact runActsF_cleanup_dead 31 0 _ _ hc

/-- **C14_cleanup_final.** … and from a cleaned-up object (`C14_pending_timer_on`: dead ⇒ nothing
pending, nothing monitored, timer off) no completion callback ever runs again, whatever arrives:
late responses, ticks, requests, and it stays cleaned up.  In particular a `cleanup()` made by one
timeout callback lets the rest of the sweep find nothing (`C14_timeout_cleanup_counterexample` for the
code as found). -/
theorem C14_cleanup_final (s : Rpc) (h : Cleaned s) (ops : List Op) :
    Cleaned (run s ops).1 ∧ ∀ t, firedCount t (run s ops).2 = 0 :=
  Cleaned_run ops s h

/-- **C14_timeout_cleanup_counterexample** (the tree before
patches/C14-06-timeout-monitor-cleanup-in-callback.diff): three requests expire at the same tick, the
first timeout callback calls `cleanup()` — which clears `cb_`, the very function object the sweep is
calling: the next id calls an empty `std::function` and `std::bad_function_call` leaves `onTimerTick`
(`true`).  The repaired sweep calls a copy: one callback, the other two ids find nothing. -/
theorem C14_timeout_cleanup_counterexample :
    let s := (run ({ Rpc.init 1 with prog := { cbs := [[.cleanup], []] } } : Rpc)
                [.request 0 0, .request 1 0, .request 1 1]).1
    s.tickOrig.2 = ([.fired 0 kRequestTimeout], true) ∧
    s.tick.2 = [.fired 0 kRequestTimeout] ∧ Cleaned s.tick.1 := by decide

/-! ## (6) server half -/

/-- **C14_server_request_answer.** One inbound request, for every handler script: an unknown method
(never added, or replaced by an empty callback) is answered with exactly one `kMethodNotFound` error;
otherwise the handler that was registered *when the request arrived* runs (a handler replacing or
removing itself does not change what runs), then: a synchronous service is answered by the library
exactly once, after the script, with the service's code (a notification, id 0, is not answered); an
asynchronous one is not answered by the library and its id is handed to the respond-timeout monitor; and
if the handler cleaned the object up the library does nothing more with it. -/
theorem C14_server_request_answer (s : Rpc) (id : Int) (m : Nat) :
    ((s.services.getD m none).bind (fun h => (s.prog.hs[h]?).map (fun hd => (h, hd))) = none →
      s.onRequest id m = (s, [.answered id kMethodNotFound])) ∧
    (∀ h hd, (s.services.getD m none).bind (fun h => (s.prog.hs[h]?).map (fun hd => (h, hd))) = some (h, hd) →
      let r := ({ s with srv := s.srv.insert id } : Rpc).runActs id hd.acts
      (id = 0 → (s.onRequest id m).2 = .called 0 h :: (s.runActs 0 hd.acts).2) ∧
      (id ≠ 0 → r.1.dead = true → s.onRequest id m = (r.1, .called id h :: r.2)) ∧
      (id ≠ 0 → r.1.dead = false → ∀ code, hd.ret = .sync code →
        (s.onRequest id m).2 = .called id h :: (r.2 ++ [.answered id code])) ∧
      (id ≠ 0 → r.1.dead = false → hd.ret = .async →
        s.onRequest id m = ({ r.1 with srv := r.1.srv.monitorAdd id }, .called id h :: r.2))) := by
  constructor
  · intro h; unfold Rpc.onRequest; rw [h]
  · intro h hd hl
    refine ⟨?_, ?_, ?_, ?_⟩
    · intro h0; subst h0; unfold Rpc.onRequest; rw [hl]; simp
    · intro h0 hdead; unfold Rpc.onRequest; rw [hl]; simp [h0, hdead]
    · intro h0 hdead code hret
      unfold Rpc.onRequest; rw [hl]; simp [h0, hdead, hret, Rpc.apiRespond]
    · intro h0 hdead hret
      unfold Rpc.onRequest; rw [hl]; simp [h0, hdead, hret]

/-- **C14_handler_cleanup_counterexample** (the tree before
patches/C14-07-service-handler-reentrancy.diff): a synchronous handler that calls `cleanup()` — the
library goes on to `respond()` through the null `proto_` (`misuse`: a null dereference); the repaired
code stops after the handler. -/
theorem C14_handler_cleanup_counterexample :
    let s := ({ Rpc.init 2 with prog := { hs := [⟨[.cleanup], .sync 0⟩] } } : Rpc).setService 0 (some 0)
    (s.onRequestOrig 1 0).2 = [.called 1 0, .misuse] ∧ (s.onRequest 1 0).2 = [.called 1 0] ∧
    Cleaned (s.onRequest 1 0).1 := by decide

/-- **C14_server_respond_unchecked** (as coded; outside the statement of C14, which speaks of the
requesting side): `respond()` does not consult `tobe_respond_` — it sends for an id that was never
requested, sends again when called twice, and still sends after the respond timeout has dropped
the id. -/
theorem C14_server_respond_unchecked :
    let s := ({ Rpc.init 1 with prog := { hs := [⟨[], .async⟩] } } : Rpc).setService 0 (some 0)
    ((Rpc.init 2).apiRespond 9 0).2 = [.answered 9 0] ∧
    (run s [.inRequest 1 0, .apiRespond 1 0, .apiRespond 1 0]).2 = [.called 1 0, .answered 1 0, .answered 1 0] ∧
    (run s [.inRequest 1 0, .stick, .apiRespond 1 0]).2 = [.called 1 0, .answered 1 0] ∧
    (run s [.inRequest 1 0, .stick]).1.srv.tobe = [] := by decide

/-! ## (7) two peers: each peer's guarantees hold against any other peer and any pipe -/

/-- **C14_world_peer_simulation.** Whatever the other peer and the pipe do (answer late, never,
twice; drop, duplicate, reorder), what happens at a peer is a run of the one-object model on the op
sequence `peerOps` (its own API calls, the frames actually delivered to it). -/
theorem C14_world_peer_simulation (onB : Bool) (ops : List WOp) : ∀ w : World,
    (w.run ops).1.peer onB = (run (w.peer onB) (peerOps w onB ops)).1 ∧
    peerEvs (w.run ops).2 onB = (run (w.peer onB) (peerOps w onB ops)).2 := by
  induction ops with
  | nil => intro w; cases onB <;> simp [World.run, peerOps, run, peerEvs]
  | cons op ops ih =>
    intro w
    obtain ⟨h1, h2⟩ := world_step_peer w op onB
    obtain ⟨i1, i2⟩ := ih (w.step op).1
    simp only [World.run, peerOps, run_append]
    rw [← h1, ← h2, ← i1, ← i2]
    cases onB <;> exact ⟨rfl, rfl⟩

/-- **C14_world_callback_once.** … hence, in the two-peer system, every completion callback of either
peer runs at most once, for every program of scripts, every behaviour of the other peer and of the pipe. -/
theorem C14_world_callback_once (w : World) (onB : Bool) (h : RInv (w.peer onB)) (ops : List WOp) (t : Nat) :
    firedCount t (peerEvs (w.run ops).2 onB) ≤ 1 := by
  rw [(C14_world_peer_simulation onB ops w).2]
  exact (C14_callback_once _ h _ t).1

/-- **C14_world_callback_exactly_once.** … and a request of peer a for which no response with its id is
delivered while a sees `N − 1` of its ticks (the other peer answers never, or late, or its answers are
lost) is completed exactly once, by the timeout of the `N`-th tick — later deliveries of late or
duplicated answers included (`more`).  (`hd`, `hid`: the `request()` call itself is made — the object is
not cleaned up and the allocation loop returns `id`.) -/
theorem C14_world_callback_exactly_once (w : World) (hr : w.a.ring ≠ [])
    (hf : ∀ y ∈ w.a.ring.flatten, y ≤ w.a.nTag) (hinv : RInv w.a) (hd : w.a.dead = false)
    (id : Nat) (hid : w.a.nextId = some id)
    (hq : QuietFor w.a id) (c m : Nat) (ops more : List WOp)
    (hno : NoResponseFor id (peerOps (w.step (.api false (.request c m))).1 false ops))
    (hnc : NoCleanupOps (peerOps (w.step (.api false (.request c m))).1 false ops))
    (ht : ticks (peerOps (w.step (.api false (.request c m))).1 false ops) + 1 = w.a.ring.length) :
    firedCount w.a.nTag (w.run (.api false (.request c m) :: (ops ++ .api false .tick :: more))).2.1 = 1 := by
  have hsim := (C14_world_peer_simulation false (.api false (.request c m) :: (ops ++ .api false .tick :: more)) w).2
  simp only [peerEvs, World.peer, Bool.false_eq_true, if_false] at hsim
  rw [hsim]
  have happ : ∀ (a b : List WOp) (v : World), peerOps v false (a ++ b) = peerOps v false a ++ peerOps (v.run a).1 false b := by
    intro a
    induction a with
    | nil => intro b v; simp [peerOps, World.run]
    | cons x xs ih => intro b v; simp only [List.cons_append, peerOps, World.run, ih, List.append_assoc]
  have hsplit : peerOps w false (.api false (.request c m) :: (ops ++ .api false .tick :: more)) =
      .request c m :: (peerOps (w.step (.api false (.request c m))).1 false ops ++
        .tick :: peerOps (((w.step (.api false (.request c m))).1.run ops).1.step (.api false .tick)).1 false more) := by
    simp only [peerOps, peerOp, happ, if_true, List.cons_append, List.nil_append]
  rw [hsplit]
  simp only [run]
  have hg : step w.a (.request c m) = w.a.request c m := by
    simp [step, Rpc.guardReq, hd, hid]
  have ha : (w.step (.api false (.request c m))).1.a = (w.a.request c m).1 := by
    simp [World.step, World.apply, hg]
  rw [hg]
  have := C14_callback_exactly_once w.a hr hf hinv id hid hq c m _
    (peerOps (((w.step (.api false (.request c m))).1.run ops).1.step (.api false .tick)).1 false more) hno hnc ht
  simp only [firedCount_append]
  have h0 : firedCount w.a.nTag (w.a.request c m).2 = 0 := by simp [Rpc.request, firedCount]
  omega

/-! ## (8) the deadline in milliseconds, under the tick timer as coded -/

/-- **C14_timer_phase.** Along every timed history (any program of scripts, any API calls and arriving
messages, clock advances of any size) from `initialize(proto, N)`: while the 1-s timer is enabled its
next expiry lies in `(now, now + 1000]` — in particular the fuel `ms / 1000 + 2` of the loop's catch-up
(`handleExpiredTimers`) always suffices: no due tick is left unexecuted — and the monitor invariant
(`C14_pending_timer_on`) holds. -/
theorem C14_timer_phase (n : Nat) (hn : 1 ≤ n) (p : Prog) (ops : List TOp) :
    let s := (runT { Rpc.init n with prog := p } ops).1
    TimeInv s ∧ Monitored s ∧ (s.dead = true → Cleaned s) :=
  ⟨TimeInv_runT ops _ (by intro h; simp [Rpc.init] at h),
   MInv_monitored _ (MInv_runT ops _ (MInv_init n hn p))⟩

theorem DL_request (s : Rpc) (ht : TInv s []) (hti : TimeInv s) (hf : ∀ y ∈ s.ring.flatten, y ≤ s.nTag)
    (c m : Nat) : DL s.now s.ring.length (s.nTag + 1) (s.request c m).1 (s.ring.length - 1) := by
  have hl := Live_request s c m ht.1 hf
  have hpos : 0 < s.ring.length := List.length_pos_iff.mpr ht.1
  refine ⟨hl, TInv_request s c m [] ht, ?_⟩
  rw [(request_time s c m).2]
  unfold Qb
  by_cases hv : s.vn = 0
  · simp only [hv, if_true]; omega
  · simp only [hv, if_false]
    have := hti (ht.2.2.1.mpr (by omega))
    omega

/-- **C14_deadline_ms.** A request is issued at clock `t0` (any live state: ring non-degenerate,
monitor and timer invariants of `C14_timer_phase`, `RInv`). For every timed continuation in which the object is
not cleaned up (scripts re-entering it in every other way included), the tick that hands its token to the
timeout handler was scheduled for an instant in `(t0 + (N−1)·1000, t0 + N·1000]` and is executed by the
loop at or after that instant (never early). -/
theorem C14_deadline_ms (s : Rpc) (hs : Prog.safe s.prog) (hr : s.ring ≠ []) (hm : Monitored s) (hti : TimeInv s)
    (hinv : RInv s)
    (hf : ∀ y ∈ s.ring.flatten, y ≤ s.nTag) (c m : Nat) (ops : List TOp) (hnc : NoCleanupT ops) (e : TickRec)
    (he : e ∈ logT (s.request c m).1 ops) (hx : s.nTag + 1 ∈ e.items) :
    s.now + (s.ring.length - 1) * 1000 < e.sched ∧ e.sched ≤ s.now + s.ring.length * 1000 ∧
    e.sched ≤ e.clock :=
  have ht : TInv s [] := ⟨hr, hm.2.1, hm.2.2, fun e he => Or.inl (hm.1 e he), hinv⟩
  logT_bound s.now s.ring.length (s.nTag + 1) ops _ (Safe_of_prog _ _ (request_prog s c m) hs) hnc
    (Or.inl ⟨_, DL_request s ht hti hf c m⟩) e he hx

/-- **C14_deadline_reached.** … and it is not late either: once the clock has reached
`t0 + N·1000` (and the loop has run, which every `adv` does), the id has been handed out — together
with `C14_callback_timeout` the callback has run with the timeout code by then. -/
theorem C14_deadline_reached (s : Rpc) (hs : Prog.safe s.prog) (hr : s.ring ≠ []) (hm : Monitored s) (hti : TimeInv s)
    (hinv : RInv s)
    (hf : ∀ y ∈ s.ring.flatten, y ≤ s.nTag) (c m : Nat) (ops : List TOp) (hnc : NoCleanupT ops)
    (hclock : s.now + s.ring.length * 1000 ≤ (runT (s.request c m).1 ops).1.now) :
    cnt (s.nTag + 1) (runT (s.request c m).1 ops).1.ring = 0 := by
  have ht : TInv s [] := ⟨hr, hm.2.1, hm.2.2, fun e he => Or.inl (hm.1 e he), hinv⟩
  have hd := DL_request s ht hti hf c m
  rcases runT_DL s.now s.ring.length (s.nTag + 1) ops _ (Safe_of_prog _ _ (request_prog s c m) hs) hnc
    (Or.inl ⟨_, hd⟩) with ⟨m', hl, hti', hq⟩ | hg
  · exfalso
    have hv := Live_vn_pos _ _ m' [] hl hti'
    have hon := hti'.2.2.1.mpr (by omega)
    have htime : TimeInv (runT (s.request c m).1 ops).1 :=
      TimeInv_runT ops _ (TimeInv_of_TStep _ _ (TStep_request s c m) hti)
    have := htime hon
    unfold Qb at hq
    omega
  · exact hg.2.2


/-! ## (9) request ids at the C++ width (`int id_alloc_`, `Rpc::allocRequestId`) -/

/-- **C14_id_width.** In every state reachable from `initialize` by any program of scripts, any op
sequence and any (test-only) setting of the counter within `int`: the counter is at most `INT_MAX`
and every pending id lies in `[1, INT_MAX]` — the model's `Nat` ids *are* the C++ `int`s, nothing is
narrowed — and id 0 (what an error response without an integer id is mapped to) is never pending.
Whatever the allocation loop returns is in `[1, INT_MAX]`, not pending, and comes back intact through the
peer's `int` getter.  (As found: below `INT_MAX` the C++ increment is exact; at `INT_MAX` it is a signed
overflow (`ub`), executed by g++ as the wrap to `INT_MIN` — `C14_id_wrap_counterexample`.) -/
theorem C14_id_width (n : Nat) (p : Prog) (ops : List JOp) :
    (let s := (runJ { Rpc.init n with prog := p } ops).1
     s.idAlloc ≤ 2147483647 ∧ (∀ e ∈ s.pending, 1 ≤ e.1 ∧ e.1 ≤ 2147483647) ∧ pendingFind s.pending 0 = none) ∧
    (∀ (s : Rpc) (id : Nat), s.nextId = some id →
      1 ≤ id ∧ id ≤ 2147483647 ∧ pendingFind s.pending (id : Int) = none ∧ respIdG true (id : Int) = some (id : Int)) ∧
    (∀ k : Nat, k < 2147483647 → cppIncr (k : Int) = (((k + 1 : Nat) : Int), false)) ∧
    cppIncr 2147483647 = (-2147483648, true) := by
  refine ⟨?_, ?_, ?_, by decide⟩
  · have h := IdInv_runJ ops { Rpc.init n with prog := p } ⟨by simp [Rpc.init, kIntMax], by simp [Rpc.init]⟩
    exact ⟨h.1, h.2, pendingFind_zero _ (fun e he => (h.2 e he).1)⟩
  · intro s id h
    obtain ⟨h1, h2, h3⟩ := nextId_spec s id h
    have : kIntMax = 2147483647 := rfl
    refine ⟨h2, by omega, h1, ?_⟩
    unfold respIdG; simp; omega
  · intro k hk
    unfold cppIncr wrap32
    refine Prod.ext ?_ (by simp; omega)
    show ((k : Int) + 1 + 2147483648) % 4294967296 - 2147483648 = ((k + 1 : Nat) : Int)
    omega

/-- **C14_alloc_total.** The allocation loop of the repaired `request()` returns — in every reachable
state (`C14_id_width`: counter within `int`) with fewer than `INT_MAX` pending requests; a cyclic scan of
`pending + 1` candidates suffices (pigeonhole).  (With all 2³¹−1 ids pending the C++ loop would spin for
ever: the model refuses that call, `guardReq`.) -/
theorem C14_alloc_total (s : Rpc) (hi : s.idAlloc ≤ kIntMax) (hl : s.pending.length < kIntMax) :
    ∃ id, s.nextId = some id ∧ step s (.request 0 0) = (if s.dead then (s, [.misuse]) else s.request 0 0) := by
  obtain ⟨id, h⟩ := nextId_total s hi hl
  refine ⟨id, h, ?_⟩
  cases hd : s.dead <;> simp [step, Rpc.guardReq, hd, h]

/-- **C14_alloc_next.** What the loop returns: the successor of the counter when that is free — below
`INT_MAX` the next integer, at `INT_MAX` (or beyond: never reached) 1: the wrap is the defined assignment
`id_alloc_ = 1`, no overflow, never 0 and never a pending id (`C14_id_width`). -/
theorem C14_alloc_next (s : Rpc) :
    (s.idAlloc < kIntMax → pendingFind s.pending ((s.idAlloc + 1 : Nat) : Int) = none → s.nextId = some (s.idAlloc + 1)) ∧
    (kIntMax ≤ s.idAlloc → pendingFind s.pending 1 = none → s.nextId = some 1) ∧
    (s.idAlloc < kIntMax → (pendingFind s.pending ((s.idAlloc + 1 : Nat) : Int)).isSome →
      s.nextId = nextIdF s.pending.length (s.idAlloc + 1) s.pending) := by
  refine ⟨?_, ?_, ?_⟩
  · intro h hf; unfold Rpc.nextId; rw [nextIdF]; simp only [h, if_true, hf]; rfl
  · intro h hf
    have : ¬ s.idAlloc < kIntMax := by omega
    unfold Rpc.nextId; rw [nextIdF]; simp only [this, if_false]
    have hf' : pendingFind s.pending ((1 : Nat) : Int) = none := hf
    rw [hf']; rfl
  · intro h hf; unfold Rpc.nextId; rw [nextIdF]; simp only [h, if_true, hf]

/-- **C14_callback_once_any_ids.** `C14_callback_once` for every position of the id counter: with the
counter set arbitrarily between the ops (`jump`: forwards = requests completed in between, backwards = the
counter has wrapped: ids are handed out again while the token of their earlier use still sits in the
timeout ring, pending ones are skipped) every completion callback still runs at most once, a callback
that has run is not pending, and none runs that was never handed to `request`. -/
theorem C14_callback_once_any_ids (s : Rpc) (h : RInv s) (ops : List JOp) (t : Nat) :
    firedCount t (runJ s ops).2 ≤ 1 ∧
    firedCount t (runJ s ops).2 + pendCount t (runJ s ops).1.pending ≤ 1 ∧
    ((runJ s ops).1.nTag ≤ t → firedCount t (runJ s ops).2 = 0) ∧
    RInv (runJ s ops).1 := by
  have hd := Delta_runJ ops s
  have h1 := hd.2 t
  have h2 := h t
  have hm := hd.1
  refine ⟨?_, ?_, ?_, ?_⟩
  · split at h1 <;> split at h2 <;> omega
  · split at h1 <;> split at h2 <;> omega
  · intro hge; split at h1 <;> split at h2 <;> omega
  · intro u
    have h1 := hd.2 u
    have h2 := h u
    split at h1 <;> split at h2 <;> split <;> omega

/-- **C14_id_wrap_counterexample** (rpc.cpp before patches/C14-08, C14-09: `id = ++id_alloc_`, no check,
bare ids in the timeout ring).  *Exactly once* did not survive the wrap of the counter: (1) the 2³¹-th
request executed a signed overflow; as g++ compiles it the ids went on from `INT_MIN` and the 2³²-th
request got id 0, which `sendRequest` writes without an `id` member — a notification, never answered;
(2) an id reused while its first request was still pending replaced the callback: tag 0 neither run nor
pending any more — lost; (3) an id reused while its first (answered) use still sat in the ring was timed
out by that stale entry after one tick instead of three.  The repaired code on the same histories:
(2') the pending id is skipped, both callbacks run; (3') the stale token is ignored, the second request
times out at its own third tick. -/
theorem C14_id_wrap_counterexample :
    (cppIncr 2147483647 = (-2147483648, true) ∧ cppIncr (-1) = (0, false) ∧
      ((mkRequest 0 "m" .null).lookup "id").isNone = true) ∧
    (let r := runOrigJ (Rpc.init 3) [.op (.request 0 0), .jump 0, .op (.request 0 0), .op (.response 1 0),
                                     .op .tick, .op .tick, .op .tick, .op .tick]
     r.2 = [.sent 1 0, .sent 1 0, .fired 1 0] ∧ r.1.pending = []) ∧
    (runOrigJ (Rpc.init 3) [.op (.request 0 0), .op (.response 1 0), .op .tick, .op .tick, .jump 0,
                            .op (.request 0 0), .op .tick]).2
      = [.sent 1 0, .fired 0 0, .sent 1 0, .fired 1 kRequestTimeout] ∧
    (runJ (Rpc.init 3) [.op (.request 0 0), .jump 0, .op (.request 0 0), .op (.response 1 0),
                        .op .tick, .op .tick, .op .tick, .op .tick]).2
      = [.sent 1 0, .sent 2 0, .fired 0 0, .fired 1 kRequestTimeout] ∧
    (runJ (Rpc.init 3) [.op (.request 0 0), .op (.response 1 0), .op .tick, .op .tick, .jump 0,
                        .op (.request 0 0), .op .tick, .op .tick, .op .tick]).2
      = [.sent 1 0, .fired 0 0, .sent 1 0, .fired 1 kRequestTimeout] ∧
    (runJ (Rpc.init 3) [.op (.request 0 0), .op (.response 1 0), .op .tick, .op .tick, .jump 0,
                        .op (.request 0 0), .op .tick, .op .tick]).2
      = [.sent 1 0, .fired 0 0, .sent 1 0] := by decide

/-- **C14_wrap_exactly_once.** The wrap itself, on the repaired code: the counter stands at `INT_MAX − 1`
with id 1 still pending; the next three requests get `INT_MAX`, then 2 (1 is skipped: still pending), then
3; every one of the four callbacks runs exactly once — by its response (ids `INT_MAX`, 1) or by its own
timeout — and the response with id 2³¹ (what the overflowing counter would have produced) is ignored. -/
theorem C14_wrap_exactly_once :
    let r := runJ (Rpc.init 2) [.op (.request 0 0), .jump 2147483646, .op (.request 0 0), .op (.request 0 0),
                               .op (.request 0 0), .op (.response 2147483648 0), .op (.response 2147483647 5),
                               .op (.response 1 0), .op .tick, .op .tick, .op (.response 2 0)]
    r.2 = [.sent 1 0, .sent 2147483647 0, .sent 2 0, .sent 3 0, .fired 1 5, .fired 0 0,
           .fired 2 kRequestTimeout, .fired 3 kRequestTimeout] ∧
    r.1.idAlloc = 3 ∧ r.1.pending = [] := by decide

/-- **C14_initialize_checked.** `Rpc::initialize(proto, timeout_sec)` (patches/C14-10) succeeds exactly for
`timeout_sec ≥ 1`, and then the monitor has `timeout_sec` slots (the hypothesis `1 ≤ n` of
`C14_pending_timer_on`, `ring ≠ []` of the expiry theorems); for `timeout_sec < 1` it returns `false`.
As found it returned `true` with no ring at all: a request is never completed (in C++: `add()` dereferences
the null `curr_item_`). -/
theorem C14_initialize_checked (t : Int) :
    (Rpc.initialize t = none ↔ t < 1) ∧
    (∀ s, Rpc.initialize t = some s → 1 ≤ t ∧ s = Rpc.init t.toNat ∧ s.ring.length = t.toNat ∧ s.ring ≠ []) ∧
    (∃ s0, Rpc.initializeG false 0 = some s0 ∧ s0.ring = [] ∧
      (run s0 [.request 0 0, .tick, .tick, .tick]).2 = [.sent 1 0]) := by
  refine ⟨?_, ?_, ⟨Rpc.init 0, by decide, by decide, by decide⟩⟩
  · unfold Rpc.initialize Rpc.initializeG; split <;> simp <;> omega
  · intro s h
    unfold Rpc.initialize Rpc.initializeG at h
    split at h
    · simp at h
    · simp only [Option.some.injEq] at h
      subst h
      have : 0 < t.toNat := by omega
      refine ⟨by omega, rfl, by simp [Rpc.init], ?_⟩
      simp [Rpc.init]; omega

/-! ## (10) `Proto::onRecvJson` on anything the peer may send; the `GetField` family -/

/-- **C14_dispatch_batch.** An object is dispatched as one message; an array (a batch) is walked in
order, nested arrays in place, each item as a message of its own; any other value is ignored. -/
theorem C14_dispatch_batch (items : List J) (fields : List (String × J)) :
    recvJson (.arr items) = items.flatMap recvJson ∧
    recvJson (.obj fields) = recvJsonObj (.obj fields) ∧
    recvJson .null = [] ∧ recvJson .float = [] ∧ (∀ b, recvJson (.bool b) = []) ∧
    (∀ v, recvJson (.int v) = []) ∧ (∀ t, recvJson (.str t) = []) := by
  refine ⟨?_, by simp [recvJson], by simp [recvJson], by simp [recvJson], by simp [recvJson], by simp [recvJson],
    by simp [recvJson]⟩
  rw [recvJson]
  induction items with
  | nil => simp [recvItems]
  | cons x xs ih => rw [recvItems, ih]; simp

/-- **C14_dispatch_ids.** Whatever the object contains — ids and error codes written as strings,
floats, booleans, `null`, integers beyond `int`, missing — every id and error code handed to the
callbacks is a C++ `int` obtained without narrowing; for a *result* it is the literal itself (a result
whose id is not an `int` literal is dropped), for a request or an error a non-`int` id reads as 0. -/
theorem C14_dispatch_ids (j : J) :
    ∀ r ∈ recvJsonObj j,
      match r with
      | .request id _ _ => isInt32 id ∧ (id ≠ 0 → j.lookup "id" = some (.int id))
      | .response id code _ => isInt32 id ∧ isInt32 code ∧ (id ≠ 0 → j.lookup "id" = some (.int id)) := by
  have key : ∀ (k : String) (v : Int), j.getInt k = some v → isInt32 v ∧ j.lookup k = some (.int v) := by
    intro k v h
    unfold J.getInt at h
    split at h
    · rename_i w hw
      unfold respIdG at h
      simp only [if_true] at h
      split at h
      · simp only [Option.some.injEq] at h; subst h; exact ⟨by assumption, hw⟩
      · simp at h
    · simp at h
  have key0 : ∀ (k : String), isInt32 ((j.getInt k).getD 0) ∧ ((j.getInt k).getD 0 ≠ 0 → j.lookup k = some (.int ((j.getInt k).getD 0))) := by
    intro k
    cases h : j.getInt k with
    | none => simp [isInt32]
    | some v => simp only [Option.getD_some]; exact ⟨(key k v h).1, fun _ => (key k v h).2⟩
  intro r hr
  unfold recvJsonObj at hr
  split at hr
  · simp at hr
  · split at hr
    · simp at hr
    · split at hr
      · split at hr
        · simp at hr
        · simp only [List.mem_singleton] at hr; subst hr; exact key0 "id"
      · split at hr
        · split at hr
          · simp at hr
          · rename_i id hid
            simp only [List.mem_singleton] at hr; subst hr
            exact ⟨(key _ _ hid).1, by decide, fun _ => (key _ _ hid).2⟩
        · split at hr
          · simp at hr
          · split at hr
            · simp at hr
            · rename_i jerr _ code hcode
              simp only [List.mem_singleton] at hr; subst hr
              have hc : isInt32 code := by
                unfold J.getInt at hcode
                split at hcode
                · unfold respIdG at hcode
                  simp only [if_true] at hcode
                  split at hcode
                  · simp only [Option.some.injEq] at hcode; subst hcode; assumption
                  · simp at hcode
                · simp at hcode
              exact ⟨(key0 "id").1, hc, (key0 "id").2⟩

/-- **C14_response_id_total.** A response whose `id` is anything but an `int` literal — a string
(JSON-RPC allows string ids), a float (`1.0`), `null`, a boolean, an integer beyond `int`, a structured
value — completes nothing in any reachable state: as a result it is dropped by the dispatch, as an error
it reads as id 0, which is never pending (`C14_id_width`). -/
theorem C14_response_id_total (s : Rpc) (hi : IdInv s) (x : J) (hx : ∀ v, x = .int v → ¬ isInt32 v)
    (code : Int) (res : J) :
    recvJsonObj (.obj [("jsonrpc", .str "2.0"), ("id", x), ("result", res)]) = [] ∧
    (∀ r ∈ recvJsonObj (.obj [("jsonrpc", .str "2.0"), ("id", x), ("error", .obj [("code", .int code)])]),
      ∃ c, r = .response 0 c .null) ∧
    s.complete 0 code = (s, []) := by
  have hg : (J.obj [("jsonrpc", .str "2.0"), ("id", x), ("result", res)]).getInt "id" = none := by
    cases x <;> simp [J.getInt, J.lookup, List.find?]
    rename_i v
    have := hx v rfl
    unfold respIdG isInt32 at *; simp [this]
  have hg2 : (J.obj [("jsonrpc", .str "2.0"), ("id", x), ("error", .obj [("code", .int code)])]).getInt "id" = none := by
    cases x <;> simp [J.getInt, J.lookup, List.find?]
    rename_i v
    have := hx v rfl
    unfold respIdG isInt32 at *; simp [this]
  refine ⟨?_, ?_, ?_⟩
  · unfold recvJsonObj
    simp [J.getStr, J.lookup, List.find?, hg]
  · intro r hr
    unfold recvJsonObj at hr
    simp only [hg2] at hr
    simp [J.getStr, J.lookup, List.find?] at hr
    split at hr
    · simp at hr
    · simp at hr; exact ⟨_, hr⟩
  · exact (C14_callback_ignored s 0 code).1 (pendingFind_zero _ (fun e he => (hi.2 e he).1))

/-- **C14_getfield_untouched.** `util::json::GetField(js, key, out)` for each of the five output types:
it returns `true` exactly when `js` is an object that has `key` with a value of the wanted type (for
`int`: an integer inside the range of `int`), and then `out` is that value; otherwise it returns `false`
and `out` still holds what it held before.  (`unsigned int`: no range check in the code — values from 2³²
are truncated, `C14_getfield_unsigned_truncates`.) -/
theorem C14_getfield_untouched (k : GKind) (j : J) (key : String) (old : GVal) :
    ((getField k j key old).1 = false → (getField k j key old).2 = old) ∧
    ((getField k j key old).1 = true ↔ ∃ x v, j.lookup key = some x ∧ J.get k x = some v ∧ (getField k j key old).2 = v) ∧
    (∀ v, getField .i j key old = (true, .i v) → isInt32 v ∧ j.lookup key = some (.int v)) := by
  refine ⟨?_, ?_, ?_⟩
  · unfold getField; split <;> simp
  · unfold getField
    cases h : j.lookup key with
    | none => simp
    | some x => cases h2 : J.get k x <;> simp [h2]
  · intro v h
    unfold getField at h
    cases hl : j.lookup key with
    | none => simp [hl] at h
    | some x =>
      simp only [hl, Option.bind_some, J.get] at h
      cases x <;> simp [J.getI] at h
      rename_i w
      by_cases hr : isInt32 w
      · have h1 : respIdG true w = some w := respId_int32 w hr
        by_cases h2 : inI64U64 w = true
        · simp [h1, h2] at h; subst h; exact ⟨hr, rfl⟩
        · simp [h2] at h
      · have h1 : respIdG true w = none := by unfold respIdG isInt32 at *; simp [hr]
        simp [h1] at h

/-- **C14_getfield_unsigned_truncates** (json.cpp as it is; not on any jsonrpc path): the `unsigned int`
getter accepts 2³² + 1 and stores 1. -/
theorem C14_getfield_unsigned_truncates :
    getField .u (.obj [("n", .int 4294967297)]) "n" (.u 7) = (true, .u 1) ∧
    getField .i (.obj [("n", .int 4294967297)]) "n" (.i 7) = (false, .i 7) := by decide

/-! ### non-vacuity / concrete runs (evaluation, not part of the unbounded claims) -/

/-- the program used in the examples: script 0 retries (a request with the plain script 1), script 2
feeds a duplicate of response 1 and an unknown one, script 3 cleans up; handler 0 replaces itself by
handler 1 and answers 0, handler 1 is asynchronous and issues a request -/
def exProg : Prog :=
  { cbs := [[.request 1 0], [], [.inject 1 7, .inject 99 0, .notify 2], [.cleanup, .request 1 0]],
    hs := [⟨[.setService 0 (some 1)], .sync 0⟩, ⟨[.request 1 1], .async⟩] }

example : RInv { Rpc.init 3 with prog := exProg } := RInv_init 3 exProg
example : QuietFor ({ Rpc.init 3 with prog := { exProg with cbs := exProg.cbs.take 2 } } : Rpc) 2 := by
  constructor <;> simp [exProg, Rpc.init, actOkFor, Act.noCleanup, injectOk]
example : Prog.safe { exProg with cbs := exProg.cbs.take 3 } := by constructor <;> decide

-- the hypotheses of C14_ring_expiry / C14_callback_timeout / C14_callback_exactly_once / C14_callback_response
-- are met by a non-trivial history (a retrying callback, a handler issuing a request, responses to other /
-- unknown / huge ids)
example :
    let s := (run ({ Rpc.init 3 with prog := { exProg with cbs := exProg.cbs.take 2 } } : Rpc)
      [.setService 0 (some 0), .request 1 0, .tick]).1
    let ops : List Op := [.request 0 0, .tick, .response 1 0, .inRequest 5 0, .inRequest 6 0, .response 4294967298 0, .response 7 5, .tick]
    s.ring ≠ [] ∧ (∀ y ∈ s.ring.flatten, y ≤ s.nTag) ∧ RInv s ∧ s.nextId = some 2 ∧ QuietFor s 2 ∧
    NoResponseFor 2 ops ∧ NoCleanupOps ops ∧ ticks ops + 1 = s.ring.length := by
  refine ⟨by decide, by decide, ?_, by decide, ?_, ?_, by decide, by decide⟩
  · exact (C14_callback_once _ (RInv_init 3 _) _ 0).2.2.2
  · have hp : (run ({ Rpc.init 3 with prog := { exProg with cbs := exProg.cbs.take 2 } } : Rpc)
        [.setService 0 (some 0), .request 1 0, .tick]).1.prog = { exProg with cbs := exProg.cbs.take 2 } := run_prog _ _
    unfold QuietFor; rw [hp]
    constructor <;> simp [exProg, actOkFor, Act.noCleanup, injectOk]
  intro rid code h
  simp at h
  rcases h with ⟨rfl, _⟩ | ⟨rfl, _⟩ | ⟨rfl, _⟩ <;> decide

-- … and by a state across the wrap: the counter at INT_MAX, id 1 still pending (its token in the ring), the
-- allocation returns 2; a stale token of an answered request is in the ring as well
example :
    let s := (runJ (Rpc.init 3) [.op (.request 0 0), .op (.request 0 0), .op (.response 2 0), .op .tick, .jump 2147483647]).1
    let ops : List Op := [.tick, .response 1 0, .response 2147483648 0, .request 0 0, .tick]
    s.ring ≠ [] ∧ (∀ y ∈ s.ring.flatten, y ≤ s.nTag) ∧ RInv s ∧ s.idAlloc = 2147483647 ∧ s.nextId = some 2 ∧
    s.ring.flatten = [1, 2] ∧ s.pending.length = 1 ∧ QuietFor s 2 ∧
    NoResponseFor 2 ops ∧ NoCleanupOps ops ∧ ticks ops + 1 = s.ring.length := by
  refine ⟨by decide, by decide, ?_, by decide, by decide, by decide, by decide, ?_, ?_, by decide, by decide⟩
  · exact (C14_callback_once_any_ids _ (RInv_init 3 {}) _ 0).2.2.2
  · have hp : (runJ (Rpc.init 3) [.op (.request 0 0), .op (.request 0 0), .op (.response 2 0), .op .tick, .jump 2147483647]).1.prog
        = {} := by decide
    unfold QuietFor; rw [hp]
    constructor <;> simp
  intro rid code h
  simp at h
  rcases h with ⟨rfl, _⟩ | ⟨rfl, _⟩ <;> decide

-- response before the deadline; duplicate ignored; second request times out at the 2nd tick, once
example :
    (run (Rpc.init 2) [.request 0 0, .response 1 0, .response 1 0, .request 0 0, .tick, .response 9 0,
                       .tick, .tick, .response 2 0]).2
      = [.sent 1 0, .fired 0 0, .sent 2 0, .fired 1 kRequestTimeout] := by decide

-- a callback feeding a duplicate of its own response and an unknown one, then notifying: runs once
example :
    (run ({ Rpc.init 2 with prog := exProg } : Rpc) [.request 2 0, .response 1 0, .response 1 0]).2
      = [.sent 1 0, .fired 0 0, .sent 0 2] := by decide

-- cleanup() from a completion callback: the request made after it is refused, the other pending request
-- never completes, late responses and ticks do nothing
example :
    (run ({ Rpc.init 1 with prog := exProg } : Rpc) [.request 3 0, .request 1 0, .response 1 0, .response 2 0, .tick, .request 1 0]).2
      = [.sent 1 0, .sent 2 0, .fired 0 0, .misuse, .misuse] := by decide

-- a handler replacing itself: the running one answers, the next request meets the new (async, requesting) one
example :
    (run ({ Rpc.init 2 with prog := exProg } : Rpc) [.setService 0 (some 0), .inRequest 4 0, .inRequest 5 0, .inRequest 0 3]).2
      = [.called 4 0, .answered 4 0, .called 5 1, .sent 1 1, .answered 0 kMethodNotFound] := by decide

-- timed layer: N = 2, request at t0 = 0 with the timer off: ticks scheduled for 1000 and 2000, run late
-- (at 1100 and 2100) because the clock jumps; the id is handed out by the one scheduled for 2000 = t0 + N·1000
example : logT ((Rpc.init 2).request 0).1 [.adv 500, .adv 600, .adv 1000]
      = [⟨1000, 1100, []⟩, ⟨2000, 2100, [1]⟩] := by decide
example : Monitored (Rpc.init 2) ∧ TimeInv (Rpc.init 2) ∧ Prog.safe (Rpc.init 2).prog :=
  ⟨by decide, by intro h; simp [Rpc.init] at h, by constructor <;> decide⟩

-- world: async service at b, answered twice and once more after a's timeout; a's callback runs once
example : ((World.run { a := Rpc.init 1, b := ({ Rpc.init 2 with prog := { hs := [⟨[], .async⟩] } } : Rpc).setService 0 (some 0) }
      [.api false (.request 1 0), .deliver true 0, .api true (.apiRespond 1 0), .api true (.apiRespond 1 5),
       .deliver false 1, .deliver false 0, .api false .tick, .api true (.apiRespond 1 0), .deliver false 0]).2.1)
      = [.sent 1 0, .fired 0 5] := by decide

-- n = 1, 3: expiry exactly at the n-th tick; a retried request gets its own deadline
example : (run ({ Rpc.init 1 with prog := exProg } : Rpc) [.request 0 0, .tick, .tick, .tick]).2
      = [.sent 1 0, .fired 0 kRequestTimeout, .sent 2 0, .fired 1 kRequestTimeout] := by decide
example : (run (Rpc.init 3) [.request 0 0, .tick, .tick]).2 = [.sent 1 0] ∧
          (run (Rpc.init 3) [.request 0 0, .tick, .tick, .tick]).2 = [.sent 1 0, .fired 0 kRequestTimeout] := by decide

/-- **C14_raw_backscan_in_bounds.** Whenever the scanner is inside a string (the only place the
backward backslash loop `for (j = i - 1; j != 0 && …)` runs), at least one character has been read:
`i ≥ 1`, so the loop starts at a valid index and, stopping at `j = 0`, never leaves the input. -/
theorem C14_raw_backscan_in_bounds (pre : List Byte) (st : Scan) (seen : List Byte)
    (h : scanRun {} [] pre = .cont st seen) (hs : st.inStr = true) :
    seen ≠ [] ∧ seen.length = pre.length := by
  have hseen := scanRun_cont_seen _ _ _ _ _ h
  cases pre with
  | nil => simp [scanRun] at h; rw [← h.1] at hs; simp at hs
  | cons c cs => subst hseen; simp

/-! ## (5) the message encoders of proto.cpp, per message kind -/

/-- **C14_message_roundtrip.** Every JSON value written by `sendRequest` (with or without id, with
or without params), `sendResult` and `sendError` (with or without message) is dispatched by
`onRecvJson` to exactly one callback with the same id, method/params, result, error code.
(`id`, `errcode` are C++ `int`s; the JSON values `params`, `result` are arbitrary.) -/
theorem C14_message_roundtrip (id code : Int) (hid : isInt32 id) (hc : isInt32 code)
    (method message : String) (params result : J) :
    recvJsonObj (mkRequest id method params) = [.request id method params] ∧
    recvJsonObj (mkResult id result) = [.response id 0 result] ∧
    recvJsonObj (mkError id code message) = [.response id code .null] :=
  ⟨rt_request id hid method params, rt_result id hid result, rt_error id code hid hc message⟩

/-- **C14_encoder_roundtrip.** For each framing: what the framing's encoder writes for a JSON value
`j` (its `dump()`, framed), followed by anything, is received as exactly the message `j` — for every
parser/printer pair with `parse (dump j) = some j` (the trusted nlohmann round trip); for the raw
stream the printed text of the value must be a well-shaped top-level value (what `dump()` of an
object or array is; the acceptor checks it for every message the real encoder writes). -/
theorem C14_encoder_roundtrip {μ : Type} (parse : List Byte → Option μ) (dump : μ → List Byte)
    (hpd : ∀ j, parse (dump j) = some j) (j : μ) (rest : List Byte) :
    (∀ magic, (dump j).length < 2^32 →
      recvData (decodeHeader magic) parse (encodeHeader magic (dump j) ++ rest) = some (.msg j (6 + (dump j).length))) ∧
    ((∃ v, TopValue v ∧ dump j = printToks v) →
      recvData decodeRaw parse (dump j ++ rest) = some (.msg j (dump j).length)) ∧
    (2 ≤ (dump j).length → recvData decodePacket parse (dump j) = some (.msg j (dump j).length)) := by
  refine ⟨?_, ?_, ?_⟩
  · intro magic hl
    unfold recvData
    rw [C14_header_roundtrip magic (dump j) rest hl]
    simp [hpd]
  · rintro ⟨v, hv, he⟩
    have := C14_raw_roundtrip [] (by simp) v hv rest
    simp only [List.nil_append] at this
    unfold recvData
    rw [he, this, ← he]
    simp [hpd]
  · intro h2
    unfold recvData
    rw [(C14_packet_roundtrip (dump j)).2 h2]
    simp [hpd]

-- the header round trip and the scanner on a concrete nested text with quotes/backslashes/brackets in strings
example : decodeHeader 0x3e5a (encodeHeader 0x3e5a [0x7b, 0x7d] ++ [1, 2, 3]) = .frame [0x7b, 0x7d] 8 := by decide
example : TopValue [.opn false, .str [.plain 0x61, .esc 0x22, .plain 0x5d, .esc 0x5c], .filler 0x3a,
                    .opn true, .filler 0x31, .cls true, .cls false] :=
  .bracket false _ (.leaf _ _ (by decide) (.leaf _ _ (by decide) (.wrap true [.filler 0x31] [] (.leaf _ _ (by decide) .nil) .nil)))
example : findEndPos [0x20,0x20,0x7b,0x22,0x61,0x5c,0x22,0x5d,0x5c,0x5c,0x22,0x3a,0x5b,0x31,0x5d,0x7d,0x78,0x79,0x7a] = 16 := by decide

end Tbox.C14
